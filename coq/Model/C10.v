(* Model of the deletion paths of Kraken's file stores and of the cache cleanup:
     lib/store/base/file_entry.go  (localFileEntry.Delete: the persist check)
     lib/store/base/file_map.go    (lruFileMap: TryStore, LoadFor*, Delete, syncRemoveOldestIfNeeded)
     lib/store/base/file_op.go     (localFileOp: reloadFileEntryHelper, lockHelper, deleteHelper,
                                    createFileHelper, DeleteFile, Get/Set/DeleteFileMetadata, GetFileStat)
     lib/store/cleanup.go          (applyDefaults, cleanup, ttlBasedCleanup, readyForDeletion,
                                    shouldAggro, customPolicyBasedCleanup, cachedInAgentPolicy)
     origin/blobserver/server.go   (maybeDelete: the store calls it makes)
   Executable definitions only; proofs live in Proof/C10*.v.

   Times are int64 nanoseconds since the epoch (Z); last-access sidecars hold whole seconds
   (metadata/last_access_time.go:52 Serialize writes Time.Unix()). File names are canonicalised to
   small N by the harness. Every literal of the source that matters is taken from Gen/C10_consts.v. *)
From Coq Require Import List NArith ZArith Bool.
From K.Gen Require Import C10_consts.
Import ListNotations.
Local Open Scope Z_scope.

Definition NS : Z := 1000000000.                         (* time.Second *)
Definition lat_secs (t : Z) : Z := t / NS.                (* Time.Unix() *)
Definition two64 : Z := 18446744073709551616.
Definition to_u64 (z : Z) : Z := z mod two64.             (* uint64(x) *)
Definition to_i64 (z : Z) : Z :=                          (* int64(x) *)
  let m := z mod two64 in if m <? 9223372036854775808 then m else m - two64.

(* ---- association lists keyed by name; update = cons + filter, so no uniqueness side condition
   is needed for the lookup laws *)
Fixpoint aget {V} (n : N) (l : list (N * V)) : option V :=
  match l with
  | [] => None
  | (k, v) :: t => if N.eqb n k then Some v else aget n t
  end.
Definition arem {V} (n : N) (l : list (N * V)) : list (N * V) :=
  filter (fun p => negb (N.eqb n (fst p))) l.
Definition aput {V} (n : N) (v : V) (l : list (N * V)) : list (N * V) := (n, v) :: arem n l.
Definition amem {V} (n : N) (l : list (N * V)) : bool :=
  match aget n l with Some _ => true | None => false end.
Definition keys {V} (l : list (N * V)) : list N := map fst l.

(* ---- one cache file = the directory <state>/<shards>/<name>/ holding `data` and the sidecars
   `_last_access_time` and `_persist` (file_entry.go:479 getMetadataPath) *)
Record file := mkf {
  f_mtime : Z;                 (* ModTime of data: the "download time" *)
  f_size : Z;
  f_lat : option Z;            (* _last_access_time sidecar, seconds; None = no sidecar *)
  f_persist : option bool }.   (* _persist sidecar ("true"/"false"); None = no sidecar *)
Definition set_lat (f : file) (l : option Z) : file := mkf (f_mtime f) (f_size f) l (f_persist f).
Definition set_persist (f : file) (p : option bool) : file := mkf (f_mtime f) (f_size f) (f_lat f) p.

(* "awaiting write-back": server.go:957 writes _persist = true, executor.go:93 removes it *)
Definition is_persisted (f : file) : bool :=
  match f_persist f with Some true => true | _ => false end.
Definition persisted (n : N) (d : list (N * file)) : bool :=
  match aget n d with Some f => is_persisted f | None => false end.

(* ---- state of one localFileStore with an lruFileMap *)
Record st := mkst {
  dk : list (N * file);        (* files on disk *)
  fm : list (N * Z);           (* file map: queue order, front first; value = lastAccessTime (ns) *)
  now : Z;                     (* clock *)
  cap : Z }.                   (* lruFileMap.size; 0 disables eviction (file_map.go:55) *)

Definition init (c : Z) (t0 : Z) : st := mkst [] [] t0 c.

Inductive res := ROk | RPersisted | RNotExist | RErr.

(* file_entry.go:432-446 Delete: refuse when the persist sidecar says true, else RemoveAll *)
Definition entry_delete (n : N) (d : list (N * file)) : list (N * file) * bool :=
  if persisted n d then (d, false) else (arem n d, true).

(* back of the queue (file_map.go:142 getOldest) *)
Fixpoint back {V} (m : list (N * V)) : option N :=
  match m with
  | [] => None
  | (k, _) :: t => match t with [] => Some k | _ => back t end
  end.

(* file_map.go:167-201 syncRemoveOldestIfNeeded: one victim; Delete's error is only logged and the
   entry leaves the map regardless *)
Definition evict (s : st) : st :=
  if (0 <? cap s) && (cap s <? Z.of_nat (length (fm s))) then
    match back (fm s) with
    | None => s
    | Some v => mkst (fst (entry_delete v (dk s))) (arem v (fm s)) (now s) (cap s)
    end
  else s.

(* file_op.go:116-152 reloadFileEntryHelper + file_map.go:215-272 TryStore (entry not in the map):
   push front, read the LAT sidecar or create it with the current time, then evict if needed *)
Definition reload (n : N) (s : st) : st * bool :=
  if amem n (fm s) then (s, true)
  else match aget n (dk s) with
       | None => (s, false)
       | Some f =>
           let '(f1, t) := match f_lat f with
                           | Some l => (f, l * NS)                                   (* file_map.go:252,261 *)
                           | None => (set_lat f (Some (lat_secs (now s))), now s)    (* :257 *)
                           end in
           (evict (mkst (aput n f1 (dk s)) ((n, t) :: fm s) (now s) (cap s)), true)
       end.

(* file_map.go:93 get: MoveToFront *)
Definition front (n : N) (m : list (N * Z)) : list (N * Z) :=
  match aget n m with Some t => (n, t) :: arem n m | None => m end.

Definition upd_lat (n : N) (l : option Z) (d : list (N * file)) : list (N * file) :=
  match aget n d with Some f => aput n (set_lat f l) d | None => d end.

(* file_map.go:109-131 syncGetAndTouch: rewrite the sidecar only when timeResolution has passed *)
Definition touch (n : N) (s : st) : st :=
  match aget n (fm s) with
  | None => s
  | Some t =>
      if filemap_lat_resolution_ns <=? now s - t
      then mkst (upd_lat n (Some (lat_secs (now s))) (dk s)) ((n, now s) :: arem n (fm s)) (now s) (cap s)
      else mkst (dk s) ((n, t) :: arem n (fm s)) (now s) (cap s)
  end.

(* file_op.go:155-188 lockHelper at _lockLevelPeek / at _lockLevelRead,_lockLevelWrite *)
Definition peek (n : N) (s : st) : st * bool :=
  let '(s1, ok) := reload n s in
  if ok then (mkst (dk s1) (front n (fm s1)) (now s1) (cap s1), true) else (s1, false).
Definition access (n : N) (s : st) : st * bool :=
  let '(s1, ok) := reload n s in
  if ok then (touch n s1, true) else (s1, false).

(* file_op.go:328 DeleteFile -> :190 deleteHelper -> file_map.go:357 Delete -> entry.Delete;
   the callback returns true, "so the entry would be removed from map regardless" *)
Definition delete_file (n : N) (s : st) : st * res :=
  let '(s1, ok) := reload n s in
  if ok then
    let '(d, removed) := entry_delete n (dk s1) in
    (mkst d (arem n (fm s1)) (now s1) (cap s1), if removed then ROk else RPersisted)
  else (s1, RNotExist).

(* write-level metadata operation on file n (file_op.go:390 SetFileMetadata, :422 DeleteFileMetadata) *)
Definition with_file (n : N) (g : file -> file) (s : st) : st * res :=
  let '(s1, ok) := access n s in
  if ok then
    match aget n (dk s1) with
    | Some f => (mkst (aput n (g f) (dk s1)) (fm s1) (now s1) (cap s1), ROk)
    | None => (s1, RErr)
    end
  else (s1, RNotExist).

(* file_op.go:211-266 createFileHelper, reached from CAStore.CreateCacheFile -> MoveUploadFileToCache
   -> MoveFileFrom (ca_store.go:180,193): an existing file is only touched *)
Definition create_file (n : N) (sz mt : Z) (s : st) : st :=
  if amem n (fm s) then touch n s                                           (* :214 LoadForRead *)
  else if amem n (dk s) then fst (reload n s)                               (* :225 *)
  else evict (mkst (aput n (mkf mt sz (Some (lat_secs (now s))) None) (dk s))
                   ((n, now s) :: fm s) (now s) (cap s)).                  (* :239 TryStore + Create *)

(* ---- cleanup.go *)

Record cfg := mkcfg {
  c_interval : Z; c_tti : Z; c_ttl : Z;
  c_athr : Z;     (* AggressiveThreshold *)
  c_attl : Z;     (* AggressiveTTL *)
  c_alow : Z }.   (* AggressiveLowerThreshold *)

(* cleanup.go:48-63 *)
Definition apply_defaults (c : cfg) : cfg :=
  mkcfg (if c_interval c =? 0 then cleanup_default_interval_ns else c_interval c)
        (if c_tti c =? 0 then cleanup_default_tti_ns else c_tti c)
        (c_ttl c) (c_athr c)
        (if negb (c_athr c =? 0) && (c_attl c =? 0) then cleanup_default_aggressive_ttl_ns else c_attl c)
        (c_alow c).

(* diskspaceutil.UsageInfo *)
Record usage := mku { u_util : Z; u_total : Z; u_used : Z }.

(* cleanup.go:305-323 readyForDeletion, on the file's current sidecars *)
Definition ready (tti ttl nw : Z) (f : file) : bool :=
  ((cleanup_ttl_guard <? ttl) && (ttl <? nw - f_mtime f))
  || match f_lat f with Some l => tti <? nw - l * NS | None => false end.

(* cleanup.go:283-301, one pass over the names ListNames returned (scan). GetFileStat is a peek
   (it may reload the entry, create its LAT sidecar and evict another entry); the second peek of
   readyForDeletion's GetFileMetadata finds the entry at the front of the map and changes nothing. *)
Fixpoint ttl_loop (tti ttl : Z) (resp : bool) (used low : Z) (scan : list N) (scanned : Z) (s : st)
  : st * Z :=
  match scan with
  | [] => (s, scanned)
  | n :: t =>
      let '(s1, ok) := peek n s in                                           (* :284 *)
      match (if ok then aget n (dk s1) else None) with
      | None => ttl_loop tti ttl resp used low t scanned s1                  (* :285-288 *)
      | Some f =>
          let rdy := ready tti ttl (now s1) f in                             (* :289 *)
          let breached := resp && (to_u64 (used - to_u64 scanned) <=? low) in (* :294 *)
          let s2 := if rdy && negb breached then fst (delete_file n s1) else s1 in  (* :295-299 *)
          ttl_loop tti ttl resp used low t (scanned + f_size f) s2
      end
  end.

(* cleanup.go:263-303 ttlBasedCleanup *)
Definition ttl_pass (tti ttl thr : Z) (u : option usage) (scan : list N) (s : st) : st :=
  let '(resp, used, low) :=
    if thr =? 0 then (false, 0, 0)
    else match u with
         | None => (false, 0, 0)                                             (* :271-272 *)
         | Some u => (true, u_used u, to_u64 (u_total u * to_u64 thr) / 100) (* :274-275 *)
         end in
  fst (ttl_loop tti ttl resp used low scan 0 s).

(* cleanup.go:126-131 *)
Record finfo := mkfi { fi_name : N; fi_access : Z; fi_download : Z; fi_size : Z }.

Definition ad_diff (f : finfo) : Z := Z.abs (fi_download f - fi_access f).       (* :170 *)
Definition by_consumer (f : finfo) : bool := cleanup_consumer_gap_ns <? ad_diff f. (* :166 *)
Definition sure_agent (f : finfo) : bool := cleanup_agent_gap_ns <? ad_diff f.     (* :176 *)

(* cleanup.go:135-160 cachedInAgentPolicy (negative = left is deleted first) *)
Definition policy_cmp (l r : finfo) : Z :=
  if by_consumer l && negb (by_consumer r) then -1
  else if negb (by_consumer l) && by_consumer r then 1
  else if sure_agent l && negb (sure_agent r) then -1
  else if negb (sure_agent l) && sure_agent r then 1
  else fi_access l - fi_access r.

(* cleanup.go:212-236: candidates = files whose stat and LAT can be read *)
Fixpoint pol_scan (scan : list N) (s : st) (acc : list finfo) (total : Z) : st * list finfo * Z :=
  match scan with
  | [] => (s, acc, total)
  | n :: t =>
      let '(s1, ok) := peek n s in                                           (* :213 *)
      match (if ok then aget n (dk s1) else None) with
      | None => pol_scan t s1 acc total
      | Some f =>
          match f_lat f with                                                 (* :226 *)
          | None => pol_scan t s1 acc (total + f_size f)
          | Some l => pol_scan t s1 (acc ++ [mkfi n (l * NS) (f_mtime f) (f_size f)]) (total + f_size f)
          end
      end
  end.

Fixpoint find_fi (n : N) (l : list finfo) : option finfo :=
  match l with
  | [] => None
  | c :: t => if N.eqb n (fi_name c) then Some c else find_fi n t
  end.
Definition memb (n : N) (l : list N) : bool := existsb (N.eqb n) l.
Fixpoint nodupb (l : list N) : bool :=
  match l with [] => true | x :: t => negb (memb x t) && nodupb t end.
Fixpoint sortedb (l : list finfo) : bool :=
  match l with
  | [] => true
  | a :: t => match t with [] => true | b :: _ => (policy_cmp a b <=? 0) && sortedb t end
  end.
Fixpoint lookup_all (order : list N) (cands : list finfo) : option (list finfo) :=
  match order with
  | [] => Some []
  | n :: t => match find_fi n cands, lookup_all t cands with
              | Some c, Some r => Some (c :: r)
              | _, _ => None
              end
  end.

(* slices.SortFunc (cleanup.go:238) is not stable: the order in which the implementation walked the
   candidates is an oracle. It is legal when it is a duplicate-free list of candidates, sorted by the
   policy, and no candidate left out sorts strictly before one that was taken. *)
Definition order_legal (cands : list finfo) (order : list N) : option (list finfo) :=
  match lookup_all order cands with
  | None => None
  | Some fis =>
      if nodupb order && sortedb fis &&
         forallb (fun c => memb (fi_name c) order ||
                           forallb (fun a => policy_cmp a c <=? 0) fis) cands
      then Some fis else None
  end.

(* cleanup.go:248-259; the boolean says the walk never continued with the budget already met *)
Fixpoint pol_delete (order : list finfo) (remain : Z) (s : st) : st * Z * bool :=
  match order with
  | [] => (s, remain, true)
  | c :: t =>
      if remain <=? 0 then (s, remain, false)                                (* :249 *)
      else let '(s1, r) := delete_file (fi_name c) s in                      (* :252 *)
           pol_delete t (match r with ROk => remain - fi_size c | _ => remain end) s1  (* :256 *)
  end.

Inductive out :=
| ORes (r : res)
| OPass (legal : bool) (err : bool)
| ODel (deleted failed : bool).

(* cleanup.go:204-261 customPolicyBasedCleanup; total = None when the disk usage call failed *)
Definition policy_pass (thr : Z) (total : option Z) (scan order : list N) (s : st) : st * out :=
  let '(s1, cands, _) := pol_scan scan s [] 0 in
  match total with
  | None => (s1, OPass (match order with [] => true | _ => false end) true)  (* :241-243 *)
  | Some tot =>
      let minb := to_u64 (tot * to_u64 thr) / 100 in                         (* :245 *)
      let budget := to_i64 tot - to_i64 minb in                              (* :247 *)
      match order_legal cands order with
      | None => (s1, OPass false false)
      | Some fis =>
          let '(s2, remain, ok) := pol_delete fis budget s1 in
          let complete := (remain <=? 0) || forallb (fun c => memb (fi_name c) order) cands in
          (s2, OPass (ok && complete) false)
      end
  end.

(* cleanup.go:325-341 *)
Definition should_aggro (c : cfg) (u : option usage) : bool :=
  if c_athr c =? 0 then false
  else match u with None => false | Some u => c_athr c <=? u_util u end.

(* cleanup.go:186-202; pol = a custom policy was given *)
Definition cleanup (c : cfg) (pol : bool) (u : option usage) (scan order : list N) (s : st) : st * out :=
  let ag := should_aggro c u in
  if ag && pol && negb (c_alow c =? 0)
  then policy_pass (c_alow c) (option_map u_total u) scan order s
  else (ttl_pass (c_tti c) (if ag then c_attl c else c_ttl c) (if ag then c_alow c else 0) u scan s,
        OPass true false).                 (* order is not used: the walk is the scan order *)

(* origin/blobserver/server.go:1015-1058 maybeDelete. owns = this origin is in the blob's hash-ring
   locations; wb = the outcomes of the blob's pending write-back tasks in the order SyncExec runs
   them (:1041): a task that succeeds removes the persist sidecar (writeback/executor.go:93), the
   first failure aborts the forced delete *)
Fixpoint run_writebacks (n : N) (wb : list bool) (s : st) : st * bool :=
  match wb with
  | [] => (s, true)
  | true :: t => run_writebacks n t (fst (with_file n (fun f => set_persist f None) s))
  | false :: _ => (s, false)
  end.

Definition force_delete (n : N) (ttl : Z) (owns : bool) (wb : list bool) (s : st) : st * out :=
  let del := fun s0 : st =>
    let '(s4, r) := delete_file n s0 in                                      (* :1052 *)
    (s4, match r with ROk => ODel true false | _ => ODel false true end) in
  let '(s1, ok) := peek n s in                                               (* :1020 GetCacheFileStat *)
  match (if ok then aget n (dk s1) else None) with
  | None => (s1, ODel false true)
  | Some f =>
      if (ttl <? now s1 - f_mtime f) || negb owns then                       (* :1024-1026 *)
        let '(s2, _) := peek n s1 in                                         (* :1030 GetCacheFileMetadata *)
        if is_persisted f then
          let '(s3, allok) := run_writebacks n wb s2 in                      (* :1041-1046 *)
          if allok then
            del (fst (with_file n (fun f => set_persist f None) s3))         (* :1048 *)
          else (s3, ODel false true)
        else del s2
      else (s1, ODel false false)
  end.

(* cleanup.go:86-120 addJob: defaults applied, nothing started when Disabled, else a ticker of
   period Interval whose every tick runs cleanup with cachedInAgentPolicy. The operation `Job` is
   "a job is added, the clock advances by dt (at most one period), the job is stopped" *)
Definition job_fires (c : cfg) (disabled : bool) (dt : Z) : bool :=
  negb disabled && (c_interval (apply_defaults c) <=? dt).

(* ---- histories *)
Inductive op :=
| Tick (dt : Z)                                   (* the clock advances *)
| Create (n : N) (sz mt : Z)                      (* CreateCacheFile, data mtime set to mt *)
| Read (n : N)                                    (* GetCacheFileReader (+Close) *)
| Stat (n : N)                                    (* GetCacheFileStat *)
| SetPersist (n : N) (b : bool)                   (* SetCacheFileMetadata(NewPersist b) *)
| ClearPersist (n : N)                            (* DeleteCacheFileMetadata(&Persist{}) *)
| SetLat (n : N) (secs : Z)                       (* SetCacheFileMetadata(NewLastAccessTime ..) *)
| DelLat (n : N)                                  (* DeleteCacheFileMetadata(&LastAccessTime{}) *)
| Delete (n : N)                                  (* DeleteCacheFile *)
| Reopen                                          (* a new store object on the same directory *)
| TtlPass (tti ttl thr : Z) (u : option usage) (scan : list N)
| PolicyPass (thr : Z) (total : option Z) (scan order : list N)
| Cleanup (c : cfg) (pol : bool) (u : option usage) (scan order : list N)
| Job (c : cfg) (disabled : bool) (dt : Z) (u : option usage) (scan order : list N)
| ForceDelete (n : N) (ttl : Z) (owns : bool) (wb : list bool).

Definition of_found (p : st * bool) : st * out :=
  (fst p, ORes (if snd p then ROk else RNotExist)).
Definition of_res (p : st * res) : st * out := (fst p, ORes (snd p)).

Definition step (s : st) (o : op) : st * out :=
  match o with
  | Tick dt => (mkst (dk s) (fm s) (now s + dt) (cap s), ORes ROk)
  | Create n sz mt => (create_file n sz mt s, ORes ROk)
  | Read n => of_found (access n s)
  | Stat n => of_found (peek n s)
  | SetPersist n b => of_res (with_file n (fun f => set_persist f (Some b)) s)
  | ClearPersist n => of_res (with_file n (fun f => set_persist f None) s)
  | SetLat n l => of_res (with_file n (fun f => set_lat f (Some l)) s)
  | DelLat n => of_res (with_file n (fun f => set_lat f None) s)
  | Delete n => of_res (delete_file n s)
  | Reopen => (mkst (dk s) [] (now s) (cap s), ORes ROk)
  | TtlPass tti ttl thr u scan => (ttl_pass tti ttl thr u scan s, OPass true false)
  | PolicyPass thr total scan order => policy_pass thr total scan order s
  | Cleanup c pol u scan order => cleanup c pol u scan order s
  | Job c dis dt u scan order =>
      let s1 := mkst (dk s) (fm s) (now s + dt) (cap s) in
      if job_fires c dis dt then cleanup (apply_defaults c) true u scan order s1
      else (s1, OPass true false)
  | ForceDelete n ttl owns wb => force_delete n ttl owns wb s
  end.

(* what is observed after every operation: its result, the files on disk, the names in the map *)
Definition obs := (out * list (N * file) * list N)%type.

Fixpoint run (s : st) (ops : list op) : st * list obs :=
  match ops with
  | [] => (s, [])
  | o :: t => let '(s1, r) := step s o in
              let '(s2, rs) := run s1 t in
              (s2, (r, dk s1, keys (fm s1)) :: rs)
  end.

(* ======== the property, evaluated on one observed trace (specification side: uses only the
   observed snapshots, never the model's transition functions) ======== *)

(* operations after which file n may legitimately stop being protected *)
Definition unprotects (o : op) (n : N) : bool :=
  match o with
  | SetPersist m false => N.eqb n m
  | ClearPersist m => N.eqb n m
  | ForceDelete m _ _ wb =>                  (* a write-back task ran (or none was pending) first *)
      N.eqb n m && match wb with false :: _ => false | _ => true end
  | _ => false
  end.

(* clause 1: a protected file is still there, still protected *)
Definition chk_persist (prev : list (N * file)) (o : op) (cur : list (N * file)) : bool :=
  forallb (fun p => if is_persisted (snd p) && negb (unprotects o (fst p))
                    then persisted (fst p) cur else true) prev.

Definition subset (a b : list N) : bool := forallb (fun x => memb x b) a.
Definition same_set (a b : list N) : bool := subset a b && subset b a.

(* the sidecar a scan sees: a file without LAT sidecar that is not in the map gets one holding the
   current time when the scan loads it (file_map.go:251-259) *)
Definition seen (inmap : bool) (nw : Z) (f : file) : file :=
  match f_lat f with
  | Some _ => f
  | None => if inmap then f else set_lat f (Some (lat_secs nw))
  end.

(* no LRU eviction can happen: the map is unbounded or has room for every file on disk *)
Definition roomy (c : Z) (prev : list (N * file)) : bool :=
  (c <=? 0) || (Z.of_nat (length prev) <=? c).

(* clause 2: a normal pass over scan removes exactly the scanned, unprotected files that are idle
   (seen last access older than tti) or expired (age above ttl > 0); when LRU eviction can
   interfere (no room in the map) only one direction is required: the due files are gone *)
Definition chk_exact (c tti ttl nw : Z) (scan : list N) (prev : list (N * file)) (pmap : list N)
           (cur : list (N * file)) : bool :=
  forallb (fun p =>
    let n := fst p in
    let gone := negb (amem n cur) in
    let due := memb n scan && negb (is_persisted (snd p))
               && ready tti ttl nw (seen (memb n pmap) nw (snd p)) in
    if roomy c prev then Bool.eqb gone due else implb due gone) prev.

(* the same pointwise, as a function: which scanned files a TTL/TTI pass deletes, and the record
   of file m after a pass over scan started in state s *)
Definition ttl_due (tti ttl nw : Z) (inmap : bool) (f : file) : bool :=
  negb (is_persisted f) && ready tti ttl nw (seen inmap nw f).
Definition ttl_after (tti ttl : Z) (scan : list N) (s : st) (m : N) : option file :=
  match aget m (dk s) with
  | None => None
  | Some f =>
      if memb m scan
      then (if ttl_due tti ttl (now s) (amem m (fm s)) f then None
            else Some (seen (amem m (fm s)) (now s) f))
      else Some f
  end.

(* clause 3 (policy pass): rank of a candidate, smaller = deleted earlier *)
Definition served (mt acc : Z) : bool := 1000000000 <? Z.abs (mt - acc).        (* > 1 s *)
Definition surely (mt acc : Z) : bool := 2700000000000 <? Z.abs (mt - acc).     (* > 45 min *)
Definition class_of (mt acc : Z) : Z :=
  if served mt acc then (if surely mt acc then 0 else 1) else 2.
Definition rank_le (a b : Z * Z) : bool :=      (* (mtime, access) pairs *)
  let ca := class_of (fst a) (snd a) in
  let cb := class_of (fst b) (snd b) in
  (ca <? cb) || ((ca =? cb) && (snd a <=? snd b)).

Definition cand_of (nw : Z) (pmap : list N) (p : N * file) : option (Z * Z) :=
  match f_lat (seen (memb (fst p) pmap) nw (snd p)) with
  | Some l => Some (f_mtime (snd p), l * NS)
  | None => None
  end.

Fixpoint ranks (nw : Z) (pmap : list N) (prev : list (N * file)) (order : list N) : option (list (Z * Z)) :=
  match order with
  | [] => Some []
  | n :: t =>
      match aget n prev with
      | None => None
      | Some f => match cand_of nw pmap (n, f), ranks nw pmap prev t with
                  | Some r, Some rs => Some (r :: rs)
                  | _, _ => None
                  end
      end
  end.
Fixpoint rank_sorted (l : list (Z * Z)) : bool :=
  match l with
  | [] => true
  | a :: t => match t with [] => true | b :: _ => rank_le a b && rank_sorted t end
  end.
(* bytes freed by the walk: sizes of the walked files that are gone afterwards *)
Fixpoint budget_ok (prev cur : list (N * file)) (order : list N) (remain : Z) : bool * Z :=
  match order with
  | [] => (true, remain)
  | n :: t =>
      if remain <=? 0 then (false, remain)
      else let freed := match aget n prev with
                        | Some f => if amem n cur then 0 else f_size f
                        | None => 0
                        end in
           budget_ok prev cur t (remain - freed)
  end.

Definition chk_policy (c thr tot nw : Z) (scan order : list N) (prev : list (N * file)) (pmap : list N)
           (cur : list (N * file)) : bool :=
  if roomy c prev then
    match ranks nw pmap prev order with
    | None => false                                        (* walked something that was no candidate *)
    | Some rs =>
        let budget := to_i64 tot - to_i64 (to_u64 (tot * to_u64 thr) / 100) in
        let '(bok, remain) := budget_ok prev cur order budget in
        nodupb order && subset order scan
        && rank_sorted rs                                   (* served first, then least recently accessed *)
        && forallb (fun p =>                                (* nobody left out ranks strictly before a walked one *)
             if memb (fst p) scan && negb (memb (fst p) order) then
               match cand_of nw pmap p with
               | Some r => forallb (fun a => rank_le a r) rs && (remain <=? 0)
               | None => true
               end
             else true) prev
        && bok
        && forallb (fun p => amem (fst p) cur || memb (fst p) order) prev   (* only walked files go *)
    end
  else true.

Definition pass_mode (c : cfg) (pol : bool) (u : option usage) : bool :=
  should_aggro c u && pol && negb (c_alow c =? 0).

Definition chk_cleanup (c nw : Z) (prev : list (N * file)) (pmap : list N)
           (cf : cfg) (pol : bool) (u : option usage) (scan order : list N) (r : out)
           (cur : list (N * file)) : bool :=
  match r with
  | OPass true false =>
      if pass_mode cf pol u then
        match u with Some uu => chk_policy c (c_alow cf) (u_total uu) nw scan order prev pmap cur | None => true end
      else if should_aggro cf u then true
      else chk_exact c (c_tti cf) (c_ttl cf) nw scan prev pmap cur
  | _ => true
  end.

Definition chk_step (c nw : Z) (prev : list (N * file)) (pmap : list N) (o : op) (ob : obs) : bool :=
  let '(r, cur, _) := ob in
  chk_persist prev o cur &&
  match o, r with
  | TtlPass tti ttl thr u scan, _ =>
      if thr =? 0 then chk_exact c tti ttl nw scan prev pmap cur else true
  | PolicyPass thr (Some tot) scan order, OPass true false =>
      chk_policy c thr tot nw scan order prev pmap cur
  | Cleanup cf pol u scan order, _ => chk_cleanup c nw prev pmap cf pol u scan order r cur
  | Job cf dis dt u scan order, _ =>
      if job_fires cf dis dt
      then chk_cleanup c (nw + dt) prev pmap (apply_defaults cf) true u scan order r cur
      else true
  | _, _ => true
  end.

(* the clock after an operation *)
Definition tick_of (o : op) (nw : Z) : Z :=
  match o with Tick dt => nw + dt | Job _ _ dt _ _ _ => nw + dt | _ => nw end.

Fixpoint chk_from (c nw : Z) (prev : list (N * file)) (pmap : list N) (ops : list op) (obsl : list obs) : bool :=
  match ops, obsl with
  | [], _ => true
  | o :: t, ob :: obt =>
      chk_step c nw prev pmap o ob &&
      chk_from c (tick_of o nw) (snd (fst ob)) (snd ob) t obt
  | _ :: _, [] => false
  end.

Definition C10_check (c t0 : Z) (ops : list op) (obsl : list obs) : bool :=
  chk_from c t0 [] [] ops obsl.

(* ======== vocabulary of the theorems ======== *)

(* what "still there, still protected, same data" means *)
Definition stays (n : N) (f : file) (s' : st) : Prop :=
  exists f', aget n (dk s') = Some f' /\ is_persisted f' = true
             /\ f_mtime f' = f_mtime f /\ f_size f' = f_size f.


(* the scan lists of a history are duplicate-free (a directory listing) *)
Definition op_ok (o : op) : bool :=
  match o with
  | TtlPass _ _ _ _ scan => nodupb scan
  | PolicyPass _ _ scan _ => nodupb scan
  | Cleanup _ _ _ scan _ => nodupb scan
  | Job _ _ _ _ scan _ => nodupb scan
  | _ => true
  end.

