(* C04 — an agent crash at any point never yields a wrong cached blob.
   Executable model of the agent's download path at the granularity of mutating file-system calls:
     lib/store/ca_download_store.go, lib/store/base/{file_op.go,file_entry.go,file_map.go (TryStore)},
     lib/torrent/storage/agentstorage/{torrent_archive.go,torrent.go,pieces.go}.
   The file system is typed by the layout of ONE blob's two directories (download/<shards>/<hex>/,
   cache/<shards>/<hex>/): data file + the three sidecars the agent writes.  Every change of the disk
   goes through [emit] = a list of mutating calls, so "the disk after a crash at point k" is the
   replay of the first k calls of the trace.  In-memory state (file map entry, Torrent object) is
   separate and is lost by a restart.
   The model is of the FIXED code (fixes/C04_status_length.patch, fixes/C04_undecodable_metainfo.patch);
   the two flags of [cfg] switch each fix off, which gives the pinned code (used by the _refuted theorems).
   Definitions only; proofs in Proof/C04*.v. *)
From Coq Require Import List NArith Bool Arith.
Import ListNotations.

Definition bytes := list N.

Inductive area := ADl | ACa.                       (* download / cache state directory *)
Inductive fname := FData | FLat | FMeta | FStatus. (* data, _last_access_time, _torrentmeta, _status *)

Definition area_eqb (a b : area) : bool :=
  match a, b with ADl, ADl | ACa, ACa => true | _, _ => false end.
Definition fname_eqb (a b : fname) : bool :=
  match a, b with FData, FData | FLat, FLat | FMeta, FMeta | FStatus, FStatus => true | _, _ => false end.

Fixpoint bytes_eqb (a b : bytes) : bool :=
  match a, b with
  | [], [] => true
  | x :: a', y :: b' => N.eqb x y && bytes_eqb a' b'
  | _, _ => false
  end.

(* ---- the disk: two blob directories ---- *)
(* [d_lvl]: how many of the three path components below the state directory exist
   (base/const.go: DefaultShardIDLength = 2 shard directories, then the blob directory) *)
Record dir := mkdir { d_lvl : nat; d_data : option bytes; d_lat : option bytes; d_meta : option bytes; d_status : option bytes }.
Record fs := mkfs { dl : dir; ca : dir }.

Definition dir0 : dir := mkdir 0 None None None None.
Definition fs0 : fs := mkfs dir0 dir0.

Definition get_dir (s : fs) (a : area) : dir := match a with ADl => dl s | ACa => ca s end.
Definition set_dir (s : fs) (a : area) (d : dir) : fs :=
  match a with ADl => mkfs d (ca s) | ACa => mkfs (dl s) d end.
Definition get_file (d : dir) (f : fname) : option bytes :=
  match f with FData => d_data d | FLat => d_lat d | FMeta => d_meta d | FStatus => d_status d end.
Definition set_file (d : dir) (f : fname) (v : option bytes) : dir :=
  match f with
  | FData => mkdir (d_lvl d) v (d_lat d) (d_meta d) (d_status d)
  | FLat => mkdir (d_lvl d) (d_data d) v (d_meta d) (d_status d)
  | FMeta => mkdir (d_lvl d) (d_data d) (d_lat d) v (d_status d)
  | FStatus => mkdir (d_lvl d) (d_data d) (d_lat d) (d_meta d) v
  end.
Definition set_lvl (d : dir) (l : nat) : dir := mkdir l (d_data d) (d_lat d) (d_meta d) (d_status d).
Definition file_at (s : fs) (a : area) (f : fname) : option bytes := get_file (get_dir s a) f.

(* pwrite(2): a write past EOF zero-fills the gap; ftruncate(2) cuts or zero-extends *)
Definition pwrite (f : bytes) (off : nat) (d : bytes) : bytes :=
  firstn off f ++ repeat 0%N (off - length f) ++ d ++ skipn (off + length d) f.
Definition truncate (f : bytes) (n : nat) : bytes := firstn n f ++ repeat 0%N (n - length f).

(* ---- the mutating calls the anchored code makes (every creating open is O_CREAT|O_TRUNC) ---- *)
Inductive call :=
| CMkdir (a : area) (lvl : nat)                  (* mkdirat of path component lvl (1,2 shards; 3 blob dir) *)
| COpen (a : area) (f : fname)                   (* openat O_CREAT|O_TRUNC: os.Create / os.WriteFile *)
| CWrite (a : area) (f : fname) (off : nat) (b : bytes)   (* write / pwrite64 *)
| CTrunc (a : area) (f : fname) (len : nat)      (* ftruncate *)
| CRename                                        (* rename download/../data -> cache/../data *)
| CUnlink (a : area) (f : fname)
| CRmdir (a : area)                              (* unlinkat(AT_REMOVEDIR) of the blob directory *)
| CBad (n : nat).                                (* a call the normaliser could not place (never emitted by the model) *)

Definition upd_file (s : fs) (a : area) (f : fname) (g : option bytes -> option bytes) : fs :=
  set_dir s a (set_file (get_dir s a) f (g (file_at s a f))).

Definition apply_call (s : fs) (c : call) : fs :=
  match c with
  | CMkdir a l => set_dir s a (set_lvl (get_dir s a) l)
  | COpen a f => upd_file s a f (fun _ => Some [])
  | CWrite a f off b => upd_file s a f (fun o => match o with Some x => Some (pwrite x off b) | None => None end)
  | CTrunc a f n => upd_file s a f (fun o => match o with Some x => Some (truncate x n) | None => None end)
  | CRename => mkfs (set_file (dl s) FData None) (set_file (ca s) FData (d_data (dl s)))
  | CUnlink a f => upd_file s a f (fun _ => None)
  | CRmdir a => set_dir s a (set_lvl (get_dir s a) 2)
  | CBad _ => s
  end.

Definition apply_calls (s : fs) (cs : list call) : fs := fold_left apply_call cs s.

(* the disk after a crash at point k of a trace *)
Definition crash_at (s : fs) (tr : list call) (k : nat) : fs := apply_calls s (firstn k tr).

(* ---- configuration of one case: the blob and its metainfo ---- *)
Record cfg := mkcfg {
  c_blob : bytes;          (* the blob *)
  c_pl : nat;              (* metainfo piece length (> 0) *)
  c_wps : nat;             (* store WritePartSize, 0 = unlimited (file_readwriter.go:60) *)
  c_mi : bytes;            (* serialised metainfo (core/metainfo.go:114), opaque *)
  c_lat : bytes;           (* serialised last access time written by this process, opaque *)
  c_fix_status : bool;     (* fixes/C04_status_length.patch applied *)
  c_fix_meta : bool        (* fixes/C04_undecodable_metainfo.patch applied *)
}.

Definition blen (c : cfg) : nat := length (c_blob c).
(* core/metainfo.go:140 calcPieceSums: ceil(len / pl) pieces *)
Definition npieces (c : cfg) : nat := (blen c + c_pl c - 1) / c_pl c.
Definition poff (c : cfg) (i : nat) : nat := c_pl c * i.                         (* torrent.go:294 *)
Definition plen (c : cfg) (i : nat) : nat :=                                      (* metainfo.go:91 *)
  if S i =? npieces c then blen c - c_pl c * i else c_pl c.
(* the bytes of piece i inside a file (piecereader/file.go: seek + LimitReader) *)
Definition region (c : cfg) (f : bytes) (i : nat) : bytes := firstn (plen c i) (skipn (poff c i) f).
Definition wf_cfg (c : cfg) : bool := (0 <? c_pl c) && negb (bytes_eqb (c_mi c) []).

(* the metainfo file decodes iff it holds the serialised metainfo (json of anything else the agent
   can leave behind — an empty or zero-filled file — is an error; metadata/torrentmeta.go:60) *)
Definition meta_decodes (c : cfg) (b : bytes) : bool := bytes_eqb b (c_mi c).
(* binary.Varint succeeds iff some byte below 0x80 terminates it (metadata/last_access_time.go:67) *)
Definition lat_decodes (b : bytes) : bool := existsb (fun x => N.ltb x 128) b.

(* ---- in-memory state of the agent process ---- *)
Record tor := mktor { t_st : list bool;     (* Torrent.pieces[i].status == _complete *)
                      t_committed : bool }. (* Torrent.committed *)
Record mem := mkmem { m_loaded : option area;   (* state of the file map entry of the blob, if loaded *)
                      m_tor : option tor }.
Definition mem0 : mem := mkmem None None.

(* world = disk, memory, calls made so far *)
Record W := mkW { w_fs : fs; w_mem : mem; w_tr : list call }.
Definition emit (w : W) (cs : list call) : W := mkW (apply_calls (w_fs w) cs) (w_mem w) (w_tr w ++ cs).
Definition set_mem (w : W) (m : mem) : W := mkW (w_fs w) m (w_tr w).
Definition set_loaded (w : W) (a : option area) : W := set_mem w (mkmem a (m_tor (w_mem w))).
Definition set_tor (w : W) (t : option tor) : W := set_mem w (mkmem (m_loaded (w_mem w)) t).

(* ---- base/file_entry.go ---- *)
(* os.MkdirAll of the blob directory: one mkdirat per missing component *)
Definition mkdirs_calls (s : fs) (a : area) : list call :=
  map (fun l => CMkdir a l) (seq (S (d_lvl (get_dir s a))) (3 - d_lvl (get_dir s a))).
(* a zero-length write reaches no mutating call *)
Definition wr_calls (a : area) (f : fname) (off : nat) (b : bytes) : list call :=
  match b with [] => [] | _ => [CWrite a f off b] end.
(* file_entry.go:590 compareAndWriteFile *)
Definition caw_calls (s : fs) (a : area) (f : fname) (b : bytes) : list call :=
  match file_at s a f with
  | None => mkdirs_calls s a ++ [COpen a f] ++ wr_calls a f 0 b                       (* :597-605 *)
  | Some cur =>
      if bytes_eqb cur b then []                                                       (* :619 *)
      else (if length cur =? length b then [] else [CTrunc a f (length b)])            (* :623 *)
           ++ wr_calls a f 0 b                                                         (* :629 *)
  end.
Definition caw (w : W) (a : area) (f : fname) (b : bytes) : W := emit w (caw_calls (w_fs w) a f b).

(* ---- base/file_map.go:215 TryStore, the last-access-time part (:251-260) ---- *)
Definition try_store (c : cfg) (w : W) (a : area) : W :=
  match file_at (w_fs w) a FLat with
  | Some b => if lat_decodes b then w else caw w a FLat (c_lat c)
  | None => caw w a FLat (c_lat c)
  end.

(* ---- base/file_op.go ---- *)
Definition has_data (s : fs) (a : area) : bool :=
  match file_at s a FData with Some _ => true | None => false end.
Definition in_states (a : area) (states : list area) : bool := existsb (area_eqb a) states.

(* file_op.go:116 reloadFileEntryHelper: if the entry is not in the file map, look for the data
   file in the acceptable states (Reload = stat of the data file, file_entry.go:311) and store it.
   (Go ranges over a map of states; the data file exists in at most one state — Proof.C04 — so the
   order does not matter.) *)
Definition ensure_loaded (c : cfg) (w : W) (states : list area) : W :=
  match m_loaded (w_mem w) with
  | Some _ => w
  | None =>
      match filter (has_data (w_fs w)) states with
      | a :: _ => set_loaded (try_store c w a) (Some a)
      | [] => w
      end
  end.

Inductive lres := LOk (a : area) | LNotExist | LState (a : area).
(* file_op.go:155 lockHelper + :95 verifyStateHelper *)
Definition lock_helper (c : cfg) (w : W) (states : list area) : W * lres :=
  let w1 := ensure_loaded c w states in
  match m_loaded (w_mem w1) with
  | None => (w1, LNotExist)
  | Some a => if in_states a states then (w1, LOk a) else (w1, LState a)
  end.

Definition any_states : list area := [ADl; ACa].

(* file_op.go:412 + file_entry.go:547 GetOrSetMetadata; the entry's in-memory metadata set equals
   the sidecars present in its directory (Reload adds what is on disk, every writer adds what it wrote) *)
Inductive mres := MOk (b : bytes) | MNotExist | MState (a : area).
Definition get_or_set_metadata (c : cfg) (w : W) (states : list area) (f : fname) (b : bytes) : W * mres :=
  let '(w1, r) := lock_helper c w states in
  match r with
  | LOk a =>
      match file_at (w_fs w1) a f with
      | Some cur => (w1, MOk cur)                                   (* :548 Has => GetMetadata *)
      | None => (caw w1 a f b, MOk b)                               (* :551-559 *)
      end
  | LNotExist => (w1, MNotExist)
  | LState a => (w1, MState a)
  end.

(* file_op.go:380 GetFileMetadata (peek) *)
Definition get_metadata (c : cfg) (w : W) (states : list area) (f : fname) : W * mres :=
  let '(w1, r) := lock_helper c w states in
  match r with
  | LOk a => match file_at (w_fs w1) a f with Some cur => (w1, MOk cur) | None => (w1, MNotExist) end
  | LNotExist => (w1, MNotExist)
  | LState a => (w1, MState a)
  end.

(* file_op.go:390 SetFileMetadata + file_entry.go:507 *)
Definition set_metadata (c : cfg) (w : W) (states : list area) (f : fname) (b : bytes) : W * bool :=
  let '(w1, r) := lock_helper c w states in
  match r with
  | LOk a => (caw w1 a f b, true)
  | _ => (w1, false)
  end.

(* ca_download_store.go:80 CreateDownloadFile + file_op.go:211 createFileHelper (no acceptable state)
   + file_map.go:215 TryStore + file_entry.go:268 Create *)
Inductive cres := CrOk | CrState (a : area) | CrExist.
Definition create_download_file (c : cfg) (w : W) : W * cres :=
  match m_loaded (w_mem w) with
  | Some a => (w, CrState a)                                        (* file_op.go:214-219 *)
  | None =>
      let w1 := try_store c w ADl in                                (* TryStore: LAT first *)
      if has_data (w_fs w1) ADl then (w1, CrExist)                  (* file_entry.go:280 *)
      else
        let w2 := emit w1 (mkdirs_calls (w_fs w1) ADl) in           (* :285 *)
        let w3 := emit w2 [COpen ADl FData; CTrunc ADl FData (blen c)] in   (* :290, :297 *)
        (set_loaded w3 (Some ADl), CrOk)
  end.

(* ---- orders chosen by the environment (Go map iteration, readdir): oracles carried by the op ---- *)
Fixpoint dedup (l : list fname) : list fname :=
  match l with [] => [] | x :: t => x :: filter (fun y => negb (fname_eqb x y)) (dedup t) end.
Definition mem_fname (f : fname) (l : list fname) : bool := existsb (fname_eqb f) l.
(* the elements of [order] that are in [present] (once each, in that order), then the rest of [present] *)
Definition ordered (order present : list fname) : list fname :=
  let o := filter (fun f => mem_fname f present) (dedup order) in
  o ++ filter (fun f => negb (mem_fname f o)) present.

Definition sidecars : list fname := [FLat; FMeta; FStatus].
Definition present_in (s : fs) (a : area) (l : list fname) : list fname :=
  filter (fun f => match file_at s a f with Some _ => true | None => false end) l.

(* file_entry.go:389-405: copy every (movable) sidecar of the entry: ReadFile + compareAndWriteFile *)
Fixpoint copy_sidecars (w : W) (l : list fname) : W :=
  match l with
  | [] => w
  | f :: t =>
      match file_at (w_fs w) ADl f with
      | Some b => copy_sidecars (caw w ACa f b) t
      | None => copy_sidecars w t
      end
  end.

(* ca_download_store.go:90 MoveDownloadFileToCache + file_op.go:284 MoveFile + file_entry.go:375 Move.
   [mv]: order in which Go's map iteration visits the sidecars; [rm]: readdir order of RemoveAll. *)
Inductive mvres := MvOk | MvExist | MvErr.
Definition move_to_cache (c : cfg) (w : W) (mv rm : list fname) : W * mvres :=
  let w1 := ensure_loaded c w [ADl] in
  match m_loaded (w_mem w1) with
  | None => (w1, MvErr)                                              (* file_op.go:285 / :311 *)
  | Some ACa => (w1, MvExist)                                        (* :293 *)
  | Some ADl =>
      let w2 := emit w1 (mkdirs_calls (w_fs w1) ACa) in              (* file_entry.go:378 *)
      if negb (has_data (w_fs w2) ADl) then (w2, MvErr)              (* :383 *)
      else
        let w3 := copy_sidecars w2 (ordered mv (present_in (w_fs w2) ADl sidecars)) in   (* :403 *)
        let w4 := set_loaded (emit w3 [CRename]) (Some ACa) in       (* :408, :413 *)
        let files := ordered rm (present_in (w_fs w4) ADl (FData :: sidecars)) in
        (emit w4 (map (fun f => CUnlink ADl f) files ++ [CRmdir ADl]), MvOk)             (* :416 *)
  end.

(* ---- agentstorage/pieces.go ---- *)
Definition zeros (n : nat) : bytes := repeat 0%N n.
Definition deser_status (b : bytes) : list bool := map (fun x => N.eqb x 1) b.   (* pieces.go:71-82 *)
Definition count_true (l : list bool) : nat := length (filter (fun b => b) l).

(* pieces.go:135 restorePieces; None = error *)
Definition restore_pieces (c : cfg) (w : W) : W * option (list bool) :=
  let n := npieces c in
  let '(w1, r) := get_or_set_metadata c w [ADl] FStatus (zeros n) in
  match r with
  | MState ACa => (w1, Some (repeat true n))                         (* :144-150 InCacheError *)
  | MState ADl => (w1, None)
  | MNotExist => (w1, None)
  | MOk b =>
      if c_fix_status c && negb (length b =? n)
      then (* fixes/C04_status_length.patch: a vector of the wrong length is re-initialised *)
        let '(w2, ok) := set_metadata c w1 [ADl] FStatus (zeros n) in
        (w2, if ok then Some (repeat false n) else None)
      else (w1, Some (deser_status b))
  end.

(* torrent.go:61 NewTorrent *)
Definition new_torrent (c : cfg) (w : W) (mv rm : list fname) : W * option tor :=
  let '(w1, r) := restore_pieces c w in
  match r with
  | None => (w1, None)
  | Some st =>
      if count_true st =? length st                                  (* torrent.go:68 *)
      then
        let '(w2, m) := move_to_cache c w1 mv rm in
        match m with
        | MvErr => (w2, None)                                        (* :69-71 *)
        | _ => (w2, Some (mktor st true))
        end
      else (w1, Some (mktor st false))
  end.

(* ---- agentstorage/torrent_archive.go ---- *)
Inductive out := OOk | OErr | OPieceComplete | ONoTorrent.

(* :76 CreateTorrent.  The metainfo client always delivers the blob's metainfo. *)
Definition create_torrent (c : cfg) (w : W) (mv rm : list fname) : W * out :=
  let '(w1, r) := get_metadata c w any_states FMeta in
  let undecodable := match r with MOk b => negb (meta_decodes c b) | _ => false end in
  let absent := match r with MNotExist => true | _ => false end in
  let proceed (w : W) :=
    let '(w', t) := new_torrent c w mv rm in
    match t with
    | Some t => (set_tor w' (Some t), OOk)
    | None => (w', OErr)
    end in
  if absent || (c_fix_meta c && undecodable) then
    let '(w2, cr) := create_download_file c w1 in
    match cr with
    | CrExist => (w2, OErr)                                          (* :108-112 *)
    | _ =>
        if undecodable then
          (* fixes/C04_undecodable_metainfo.patch: replace the unusable file *)
          let '(w3, ok) := set_metadata c w2 any_states FMeta (c_mi c) in
          if ok then proceed w3 else (w3, OErr)
        else
          let '(w3, g) := get_or_set_metadata c w2 any_states FMeta (c_mi c) in
          match g with
          | MOk b => if meta_decodes c b then proceed w3 else (w3, OErr)
          | _ => (w3, OErr)
          end
    end
  else
    match r with
    | MOk b => if meta_decodes c b then proceed w1 else (w1, OErr)   (* :117 *)
    | _ => (w1, OErr)
    end.

(* :126 GetTorrent *)
Definition get_torrent (c : cfg) (w : W) (mv rm : list fname) : W * out :=
  let '(w1, r) := get_metadata c w any_states FMeta in
  match r with
  | MOk b =>
      if meta_decodes c b then
        let '(w2, t) := new_torrent c w1 mv rm in
        match t with
        | Some t => (set_tor w2 (Some t), OOk)
        | None => (w2, OErr)
        end
      else (w1, OErr)
  | _ => (w1, OErr)
  end.

(* ---- agentstorage/torrent.go: WritePiece ---- *)
Fixpoint upd {A} (i : nat) (v : A) (l : list A) : list A :=
  match l, i with
  | [], _ => []
  | _ :: t, 0 => v :: t
  | x :: t, S j => x :: upd j v t
  end.

(* file_readwriter.go:60: one write(2) per WritePartSize bytes, at consecutive offsets *)
Fixpoint chunk_calls (fuel wps off : nat) (b : bytes) : list call :=
  match fuel with
  | 0 => []
  | S fuel' =>
      match b with
      | [] => []
      | _ => if (wps =? 0) || (length b <=? wps) then [CWrite ADl FData off b]
             else CWrite ADl FData off (firstn wps b) :: chunk_calls fuel' wps (off + wps) (skipn wps b)
      end
  end.

(* file_entry.go:522 SetMetadataAt of one status byte; None = error *)
Definition set_status_byte (c : cfg) (w : W) (i : nat) : W * bool :=
  let '(w1, r) := lock_helper c w [ADl] in
  match r with
  | LOk a =>
      match file_at (w_fs w1) a FStatus with
      | None => (w1, false)                                          (* :526 open fails *)
      | Some b =>
          if i <? length b then                                       (* :533 ReadAt *)
            if N.eqb (nth i b 0%N) 1 then (w1, true)                  (* :536 unchanged *)
            else (emit w1 [CWrite a FStatus i [1%N]], true)           (* :539 *)
          else (w1, false)
      end
  | _ => (w1, false)
  end.

(* torrent.go:203 WritePiece (+ :176 writePiece, :158 markPieceComplete).  The piece checksum test
   (:192) is modelled as equality with the blob's piece: collision-freedom of CRC-32 on the
   payloads that occur is an assumption of the theorems. *)
Definition write_piece (c : cfg) (w : W) (i : nat) (data : bytes) (mv rm : list fname) : W * out :=
  match m_tor (w_mem w) with
  | None => (w, ONoTorrent)
  | Some t =>
      if negb (i <? length (t_st t)) then (w, OErr)                  (* :150 getPiece *)
      else if negb (length data =? plen c i) then (w, OErr)           (* :208 *)
      else if nth i (t_st t) false then (w, OPieceComplete)           (* :214 *)
      else
        let '(w1, r) := lock_helper c w [ADl] in                      (* :177 GetDownloadFileReadWriter *)
        match r with
        | LOk a =>
            if negb (has_data (w_fs w1) a) then (w1, OErr)
            else
              let w2 := emit w1 (chunk_calls (S (length data)) (c_wps c) (poff c i) data) in   (* :186-189 *)
              if negb (bytes_eqb data (region c (c_blob c) i)) then (w2, OErr)                (* :192 *)
              else
                let '(w3, ok) := set_status_byte c w2 i in            (* :159 *)
                if negb ok then (w3, OErr)
                else
                  let st := upd i true (t_st t) in                    (* :170 *)
                  let w4 := set_tor w3 (Some (mktor st (t_committed t))) in
                  if count_true st =? length st then                  (* :238 *)
                    let '(w5, m) := move_to_cache c w4 mv rm in
                    match m with
                    | MvErr => (w5, OErr)                             (* :243 *)
                    | _ => (set_tor w5 (Some (mktor st true)), OOk)   (* :246 *)
                    end
                  else (w4, OOk)
        | _ => (w1, OErr)
        end
  end.

(* ---- histories ---- *)
Inductive op :=
| OCreate (mv rm : list fname)
| OGet (mv rm : list fname)
| OWrite (i : nat) (data : bytes) (mv rm : list fname)
| ORestart                   (* the process is replaced by a new one: memory lost, disk kept *)
| OProbe.                    (* nothing (observation point) *)

Definition step (c : cfg) (w : W) (o : op) : W * out :=
  match o with
  | OCreate mv rm => create_torrent c w mv rm
  | OGet mv rm => get_torrent c w mv rm
  | OWrite i d mv rm => write_piece c w i d mv rm
  | ORestart => (set_mem w mem0, OOk)
  | OProbe => (w, OOk)
  end.

(* what the property speaks about after each operation: what the torrent reports, the bytes of the
   pieces it would serve, the bytes of the cache file *)
Record obs := mkobs { o_out : out; o_complete : bool; o_pieces : list (option bytes); o_cache : option bytes }.

Definition cur_data (w : W) : bytes :=
  let a := match m_loaded (w_mem w) with Some a => a | None => if has_data (w_fs w) ADl then ADl else ACa end in
  match file_at (w_fs w) a FData with Some d => d | None => [] end.

Definition observe (c : cfg) (w : W) (r : out) : obs :=
  let ps := match m_tor (w_mem w) with
            | None => repeat None (npieces c)
            | Some t => map (fun i => if nth i (t_st t) false then Some (region c (cur_data w) i) else None)
                            (seq 0 (npieces c))
            end in
  mkobs r (match m_tor (w_mem w) with Some t => t_committed t | None => false end) ps
        (file_at (w_fs w) ACa FData).

Fixpoint run (c : cfg) (w : W) (ops : list op) : W * list obs :=
  match ops with
  | [] => (w, [])
  | o :: t =>
      let '(w1, r) := step c w o in
      let '(w2, l) := run c w1 t in
      (w2, observe c w1 r :: l)
  end.

Definition start (s : fs) : W := mkW s mem0 [].

(* ---- the disk invariant, executable ---- *)
Definition opt_all {A} (p : A -> bool) (o : option A) : bool := match o with Some x => p x | None => true end.

(* piece i of data file d is the blob's piece i *)
Definition piece_ok (c : cfg) (d : bytes) (i : nat) : bool := bytes_eqb (region c d i) (region c (c_blob c) i).

(* a status vector is empty (created, not yet written) or has one entry per piece ... *)
Definition shape_ok (c : cfg) (b : bytes) : bool :=
  match b with [] => true | _ => length b =? npieces c end.
(* ... and every piece it marks complete holds the blob's bytes in data file d *)
Definition marks_ok (c : cfg) (d : bytes) (b : bytes) : bool :=
  forallb (fun i => negb (N.eqb (nth i b 0%N) 1) || piece_ok c d i) (seq 0 (npieces c)).
Definition status_ok (c : cfg) (d : bytes) (b : bytes) : bool := shape_ok c b && marks_ok c d b.

Definition DIb (c : cfg) (s : fs) : bool :=
  (* the cache file, if any, is the blob *)
  opt_all (fun d => bytes_eqb d (c_blob c)) (d_data (ca s))
  (* the download file never exceeds the blob; the status vector tells the truth about it *)
  && match d_data (dl s) with
     | Some d => (length d <=? blen c) && opt_all (status_ok c d) (d_status (dl s))
     | None =>
         (* no download file: a left-over status vector with marks exists only once the blob is cached *)
         match d_data (ca s) with Some _ => true | None => opt_all (status_ok c []) (d_status (dl s)) end
     end.

(* every crash point of a trace satisfies the invariant *)
Fixpoint all_DI (c : cfg) (s : fs) (tr : list call) : bool :=
  DIb c s && match tr with [] => true | x :: t => all_DI c (apply_call s x) t end.

(* ---- the property evaluated on observations (independent of the model's outputs) ---- *)
Definition opt_bytes_eqb (a b : option bytes) : bool :=
  match a, b with
  | Some x, Some y => bytes_eqb x y
  | None, None => true
  | _, _ => false
  end.

(* one observation is safe: a present cache file is the blob; a torrent reported complete comes with
   the cached blob; every piece it would serve is the blob's piece *)
Definition obs_safe (c : cfg) (o : obs) : bool :=
  opt_all (fun d => bytes_eqb d (c_blob c)) (o_cache o)
  && (negb (o_complete o) || opt_bytes_eqb (o_cache o) (Some (c_blob c)))
  && forallb (fun p => opt_all (fun b => bytes_eqb b (region c (c_blob c) (fst p))) (snd p))
             (combine (seq 0 (length (o_pieces o))) (o_pieces o)).

Definition is_create (o : op) : bool := match o with OCreate _ _ => true | _ => false end.
Definition out_ok (o : out) : bool := match o with OOk => true | _ => false end.

(* a recovery script (Probe, [GetTorrent,] CreateTorrent, WritePiece of the missing pieces) restarted
   the download successfully: CreateTorrent did not fail and the last observation is complete with
   the blob cached *)
Definition restart_ok (c : cfg) (script : list (op * obs)) : bool :=
  forallb (fun p => negb (is_create (fst p)) || out_ok (o_out (snd p))) script
  && existsb (fun p => is_create (fst p)) script
  && match rev script with
     | (_, o) :: _ => o_complete o && opt_bytes_eqb (o_cache o) (Some (c_blob c))
     | [] => false
     end.

Definition C04_check (c : cfg) (main : list obs) (recs : list (list (op * obs))) : bool :=
  forallb (obs_safe c) main
  && forallb (fun script => forallb (fun p => obs_safe c (snd p)) script && restart_ok c script) recs.

(* ---- recovery, as the theorems name it ---- *)
Definition dummy_obs : obs := mkobs OErr false [] None.
(* what a fresh agent process reports after CreateTorrent on disk s *)
Definition recover (c : cfg) (s : fs) : obs := hd dummy_obs (snd (run c (start s) [OCreate [] []])).
(* the disk a fresh process leaves after CreateTorrent on disk s *)
Definition recovered_fs (c : cfg) (s : fs) : fs := w_fs (fst (run c (start s) [OCreate [] []])).
(* the mutating calls of a download history started on the empty disk *)
Definition download_trace (c : cfg) (ops : list op) : list call := w_tr (fst (run c (start fs0) ops)).
(* the pinned code: both fixes off *)
Definition unfixed (c : cfg) : cfg := mkcfg (c_blob c) (c_pl c) (c_wps c) (c_mi c) (c_lat c) false false.
Definition fixed (c : cfg) : cfg := mkcfg (c_blob c) (c_pl c) (c_wps c) (c_mi c) (c_lat c) true true.
(* a restarted download: CreateTorrent, then every piece with the blob's bytes, in the given order *)
Definition restart_ops (c : cfg) (order : list nat) : list op :=
  OCreate [] [] :: map (fun i => OWrite i (region c (c_blob c) i) [] []) order.
Definition last_obs (l : list obs) : obs := last l dummy_obs.
(* every crash point of a trace recovers safely and the restarted download completes with the blob *)
Definition sweep_ok (c : cfg) (tr : list call) (order : list nat) : bool :=
  forallb (fun k =>
             let s := crash_at fs0 tr k in
             let obsl := snd (run c (start s) (restart_ops c order)) in
             forallb (obs_safe c) obsl
             && out_ok (o_out (hd dummy_obs obsl))
             && o_complete (last_obs obsl) && opt_bytes_eqb (o_cache (last_obs obsl)) (Some (c_blob c)))
          (seq 0 (S (length tr))).
