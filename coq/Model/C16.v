(* Model of lib/torrent/scheduler/connstate/state.go (State) and config.go (applyDefaults), and of
   the event handlers of lib/torrent/scheduler/events.go that drive it: announceResultEvent (the
   dial decision), incomingHandshakeEvent, connClosedEvent, failedOutgoingHandshakeEvent, failedIncomingHandshakeEvent and
   the ClearBlacklist of dispatcherCompleteEvent.
   Executable definitions only; proofs live in Proof/C16.v. *)
From Coq Require Import List NArith ZArith Bool.
From K.Gen Require Import C16_consts.
Import ListNotations.
Local Open Scope Z_scope.

(* ---- configuration (config.go:21-49). Durations are int64 nanoseconds. *)
Record cfg := mkcfg {
  c_max : Z;        (* MaxOpenConnectionsPerTorrent *)
  c_mutual : Z;     (* MaxMutualConnections *)
  c_nobl : bool;    (* DisableBlacklist *)
  c_dur : Z }.      (* BlacklistDuration *)

(* config.go:37-49 *)
Definition apply_defaults (c : cfg) : cfg :=
  let m := if c_max c =? 0 then cs_default_max_open else c_max c in
  mkcfg m
        (if c_mutual c =? 0 then m else c_mutual c)
        (c_nobl c)
        (if c_dur c =? 0 then cs_default_blacklist_ns else c_dur c).

(* ---- state (state.go:81-93). Info hashes, peer ids and connection identities (conn.Conn
   pointers) are canonicalised to small N by the harness. A key is (hash, peer). The nested Go map
   conns[h][p] is a flat association list with unique keys; len(conns[h]) is [count h]. *)
Inductive status := Pending | Active (c : N).      (* state.go:42-53; _uninit = absent *)
Definition key := (N * N)%type.
Definition keyeqb (a b : key) : bool := N.eqb (fst a) (fst b) && N.eqb (snd a) (snd b).

Fixpoint lookup {V} (k : key) (l : list (key * V)) : option V :=
  match l with
  | [] => None
  | (k', v) :: t => if keyeqb k k' then Some v else lookup k t
  end.
Definition del {V} (k : key) (l : list (key * V)) : list (key * V) :=
  filter (fun e => negb (keyeqb k (fst e))) l.
Definition put {V} (k : key) (v : V) (l : list (key * V)) : list (key * V) := (k, v) :: del k l.

Record st := mk { conns : list (key * status); bl : list (key * Z); now : Z }.
Definition init : st := mk [] [] 0.

Definition of_hash {V} (h : N) (l : list (key * V)) : list (key * V) :=
  filter (fun e => N.eqb h (fst (fst e))) l.
Definition count (h : N) (l : list (key * status)) : Z := Z.of_nat (length (of_hash h l)).   (* len(s.conns[h]) *)
Definition is_active (e : key * status) : bool := match snd e with Active _ => true | Pending => false end.
Definition n_active (h : N) (l : list (key * status)) : Z := Z.of_nat (length (filter is_active (of_hash h l))).
Definition n_pending (h : N) (l : list (key * status)) : Z :=
  Z.of_nat (length (filter (fun e => negb (is_active e)) (of_hash h l))).

(* state.go:246-255; counted with multiplicity, as the loop does *)
Definition connected (s : st) (h p : N) : bool :=
  match lookup (h, p) (conns s) with Some _ => true | None => false end.
Definition num_mutual (s : st) (h : N) (nbrs : list N) : Z :=
  Z.of_nat (length (filter (connected s h) nbrs)).

(* state.go:64-70, 165-168 *)
Definition blacklisted (s : st) (k : key) : bool :=
  match lookup k (bl s) with Some e => 0 <? e - now s | None => false end.

(* ---- operations *)
Inductive op :=
| AddPending (p h : N) (nbrs : list N)
| DeletePending (p h : N)
| MoveToActive (c p h : N) (closed : bool)     (* conn c belongs to (p,h); closed = c.IsClosed() *)
| DeleteActive (c p h : N)
| Blacklist (p h : N)
| ClearBlacklist (h : N)
| Tick (dt : N)                                (* clock advance *)
(* events.go *)
| Announce (h : N) (known complete : bool) (self : N) (peers : list N)   (* announceResultEvent *)
| EvConnClosed (c p h : N)                     (* connClosedEvent *)
| EvFailedOut (p h : N)                        (* failedOutgoingHandshakeEvent *)
| EvFailedIn (p h : N)                         (* failedIncomingHandshakeEvent *)
| EvComplete (h : N)                           (* dispatcherCompleteEvent: ClearBlacklist *)
| EvIncoming (p h : N) (nbrs : list N)         (* incomingHandshakeEvent: AddPending with the handshake's neighbours *)
(* queries *)
| QActive | QSaturated (h : N) | QBlacklisted (p h : N) | QSnapshot.

Inductive add_res := AddOk | AtCapacity | AlreadyPending | AlreadyActive | TooManyMutual.
Inductive move_res := MoveOk | MoveClosed | MoveInvalid.
Inductive out :=
| OUnit
| OAdd (r : add_res)
| OMove (r : move_res)
| OBl (ok : bool)
| OActive (l : list N)               (* connection identities, ascending *)
| OBool (b : bool)
| OSnap (l : list (N * N * Z))       (* (hash, peer, remaining), ascending in (hash, peer) *)
| ODial (l : list N).                (* peers dialled, in the order of the announce response *)

(* state.go:181-200 *)
Definition add_pending (c : cfg) (s : st) (p h : N) (nbrs : list N) : st * add_res :=
  if count h (conns s) =? c_max c then (s, AtCapacity)                                (* :182 *)
  else match lookup (h, p) (conns s) with
       | None =>
           if c_mutual c <? num_mutual s h nbrs then (s, TooManyMutual)                (* :187 *)
           else (mk (put (h, p) Pending (conns s)) (bl s) (now s), AddOk)              (* :190 *)
       | Some Pending => (s, AlreadyPending)
       | Some (Active _) => (s, AlreadyActive)
       end.

(* state.go:203-210 *)
Definition delete_pending (s : st) (p h : N) : st :=
  match lookup (h, p) (conns s) with
  | Some Pending => mk (del (h, p) (conns s)) (bl s) (now s)
  | _ => s
  end.

(* state.go:213-226 *)
Definition move_to_active (s : st) (c p h : N) (closed : bool) : st * move_res :=
  if closed then (s, MoveClosed)
  else match lookup (h, p) (conns s) with
       | Some Pending => (mk (put (h, p) (Active c) (conns s)) (bl s) (now s), MoveOk)
       | _ => (s, MoveInvalid)
       end.

(* state.go:229-244: removes only when the stored connection IS c *)
Definition delete_active (s : st) (c p h : N) : st :=
  match lookup (h, p) (conns s) with
  | Some (Active c') => if N.eqb c' c then mk (del (h, p) (conns s)) (bl s) (now s) else s
  | _ => s
  end.

(* state.go:146-162 *)
Definition blacklist (c : cfg) (s : st) (p h : N) : st * bool :=
  if c_nobl c then (s, true)
  else if blacklisted s (h, p) then (s, false)
  else (mk (conns s) (put (h, p) (now s + c_dur c) (bl s)) (now s), true).

(* state.go:171-177 *)
Definition clear_blacklist (s : st) (h : N) : st :=
  mk (conns s) (filter (fun e => negb (N.eqb h (fst (fst e)))) (bl s)) (now s).

(* events.go:283-299: the dial decision. Returns the peers handed to initializeOutgoingHandshake. *)
Fixpoint announce_loop (c : cfg) (s : st) (h self : N) (peers : list N) : st * list N :=
  match peers with
  | [] => (s, [])
  | p :: t =>
      if N.eqb p self then announce_loop c s h self t                     (* :284 *)
      else if blacklisted s (h, p) then announce_loop c s h self t        (* :288 *)
      else match add_pending c s p h [] with                              (* :291 *)
           | (s', AddOk) => let '(s'', d) := announce_loop c s' h self t in (s'', p :: d)   (* :297 *)
           | (_, AtCapacity) => (s, [])                                   (* :292 break *)
           | (_, _) => announce_loop c s h self t                         (* :295 continue *)
           end
  end.

(* ascending sort (queries iterate Go maps; the harness sorts what it saw) *)
Fixpoint insN (x : N) (l : list N) : list N :=
  match l with [] => [x] | y :: t => if N.leb x y then x :: l else y :: insN x t end.
Definition sortN (l : list N) : list N := fold_right insN [] l.
Definition kleb (a b : key) : bool :=
  N.ltb (fst a) (fst b) || (N.eqb (fst a) (fst b) && N.leb (snd a) (snd b)).
Fixpoint insK (x : N * N * Z) (l : list (N * N * Z)) : list (N * N * Z) :=
  match l with [] => [x] | y :: t => if kleb (fst x) (fst y) then x :: l else y :: insK x t end.
Definition sortK (l : list (N * N * Z)) : list (N * N * Z) := fold_right insK [] l.

Definition active_ids (l : list (key * status)) : list N :=
  flat_map (fun e => match snd e with Active c => [c] | Pending => [] end) l.

(* state.go:130-142: false when the torrent has no entry *)
Definition saturated (c : cfg) (s : st) (h : N) : bool :=
  if count h (conns s) =? 0 then false else n_active h (conns s) =? c_max c.

Definition step (c : cfg) (s : st) (o : op) : st * out :=
  match o with
  | AddPending p h nbrs => let '(s', r) := add_pending c s p h nbrs in (s', OAdd r)
  | DeletePending p h => (delete_pending s p h, OUnit)
  | MoveToActive cn p h closed => let '(s', r) := move_to_active s cn p h closed in (s', OMove r)
  | DeleteActive cn p h => (delete_active s cn p h, OUnit)
  | Blacklist p h => let '(s', r) := blacklist c s p h in (s', OBl r)
  | ClearBlacklist h => (clear_blacklist s h, OUnit)
  | Tick dt => (mk (conns s) (bl s) (now s + Z.of_N dt), OUnit)
  | Announce h known complete self peers =>                               (* events.go:272-300 *)
      if negb known then (s, ODial [])                                    (* :273-277 *)
      else if complete then (s, ODial [])                                 (* :279-282 *)
      else let '(s', d) := announce_loop c s h self peers in (s', ODial d)
  | EvConnClosed cn p h => (fst (blacklist c (delete_active s cn p h) p h), OUnit)        (* events.go:129-134 *)
  | EvFailedOut p h => (fst (blacklist c (delete_pending s p h) p h), OUnit)              (* events.go:202-207 *)
  | EvFailedIn p h => (delete_pending s p h, OUnit)                                       (* events.go:173-175 *)
  | EvComplete h => (clear_blacklist s h, OUnit)                                          (* events.go:361 *)
  | EvIncoming p h nbrs => let '(s', r) := add_pending c s p h nbrs in (s', OAdd r)       (* events.go:145-158 *)
  | QActive => (s, OActive (sortN (active_ids (conns s))))                                (* state.go:117-127 *)
  | QSaturated h => (s, OBool (saturated c s h))
  | QBlacklisted p h => (s, OBool (blacklisted s (h, p)))
  | QSnapshot => (s, OSnap (sortK (map (fun e => (fst e, snd e - now s)) (bl s))))        (* state.go:265-276 *)
  end.

Fixpoint run (c : cfg) (s : st) (ops : list op) : st * list out :=
  match ops with
  | [] => (s, [])
  | o :: t => let '(s1, r) := step c s o in
              let '(s2, rs) := run c s1 t in (s2, r :: rs)
  end.

(* ---- classification of operations, used by the statements about histories *)
Definition blacklists_key (o : op) (p h : N) : bool :=        (* o may insert a blacklist entry for (p,h) *)
  match o with
  | Blacklist p' h' | EvConnClosed _ p' h' | EvFailedOut p' h' => N.eqb p p' && N.eqb h h'
  | _ => false
  end.
Definition clears_hash (o : op) (h : N) : bool :=              (* o clears the blacklist of torrent h *)
  match o with ClearBlacklist h' | EvComplete h' => N.eqb h h' | _ => false end.
Definition closes_conn (o : op) (cn p h : N) : bool :=         (* o removes connection cn of (p,h) *)
  match o with
  | DeleteActive cn' p' h' | EvConnClosed cn' p' h' => N.eqb cn cn' && N.eqb p p' && N.eqb h h'
  | _ => false
  end.

(* ---- comparison of projected observables.  AddPending / MovePendingToActive are compared as
   accepted / refused: which of several applicable refusal reasons is reported is not compared. *)
Definition add_ok (r : add_res) : bool := match r with AddOk => true | _ => false end.
Definition move_ok (r : move_res) : bool := match r with MoveOk => true | _ => false end.
Fixpoint listN_eqb (a b : list N) : bool :=
  match a, b with
  | [], [] => true
  | x :: a', y :: b' => N.eqb x y && listN_eqb a' b'
  | _, _ => false
  end.
Fixpoint snap_eqb (a b : list (N * N * Z)) : bool :=
  match a, b with
  | [], [] => true
  | (k1, r1) :: a', (k2, r2) :: b' => keyeqb k1 k2 && (r1 =? r2) && snap_eqb a' b'
  | _, _ => false
  end.
Definition out_eqb (a b : out) : bool :=
  match a, b with
  | OUnit, OUnit => true
  | OAdd x, OAdd y => Bool.eqb (add_ok x) (add_ok y)
  | OMove x, OMove y => Bool.eqb (move_ok x) (move_ok y)
  | OBl x, OBl y => Bool.eqb x y
  | OActive x, OActive y => listN_eqb x y
  | OBool x, OBool y => Bool.eqb x y
  | OSnap x, OSnap y => snap_eqb x y
  | ODial x, ODial y => listN_eqb x y
  | _, _ => false
  end.
Fixpoint outs_eqb (a b : list out) : bool :=
  match a, b with
  | [], [] => true
  | x :: a', y :: b' => out_eqb x y && outs_eqb a' b'
  | _, _ => false
  end.

(* ---- the property evaluated on one OBSERVED trace.
   A shadow state is advanced by the outcomes the implementation reported ([next]); at every step
   the clauses of the property are checked against it ([clause_ok]):
   capacity, exclusive state and the mutual limit whenever an AddPending was accepted or a peer was
   dialled; promotion to active only from pending; every listing of the active connections equals
   the shadow's (a replaced connection survives the removal of the one it replaced); Blacklisted
   answers and dials agree with the expiry recorded when the blacklisting was accepted. *)
Fixpoint nodupN (l : list N) : bool :=
  match l with [] => true | x :: t => negb (existsb (N.eqb x) t) && nodupN t end.

Definition set_pending (s : st) (h : N) (ps : list N) : st :=
  fold_left (fun s p => mk (put (h, p) Pending (conns s)) (bl s) (now s)) ps s.

Definition next (c : cfg) (s : st) (o : op) (r : out) : st :=
  match o, r with
  | AddPending p h _, OAdd AddOk | EvIncoming p h _, OAdd AddOk => mk (put (h, p) Pending (conns s)) (bl s) (now s)
  | MoveToActive cn p h _, OMove MoveOk => mk (put (h, p) (Active cn) (conns s)) (bl s) (now s)
  | Blacklist p h, OBl true =>
      if c_nobl c then s else mk (conns s) (put (h, p) (now s + c_dur c) (bl s)) (now s)
  | Announce h _ _ _ _, ODial d => set_pending s h d
  | AddPending _ _ _, _ | EvIncoming _ _ _, _ | MoveToActive _ _ _ _, _ | Blacklist _ _, _ | Announce _ _ _ _ _, _ => s
  | _, _ => fst (step c s o)     (* operations without a result follow the specification *)
  end.

Definition clause_ok (c : cfg) (s : st) (o : op) (r : out) : bool :=
  match o, r with
  | AddPending p h nbrs, OAdd AddOk | EvIncoming p h nbrs, OAdd AddOk =>
      ((c_max c <? 1) || (count h (conns s) <? c_max c))              (* capacity *)
      && negb (connected s h p)                                       (* exclusive state *)
      && (num_mutual s h nbrs <=? c_mutual c)                         (* mutual limit *)
  | AddPending _ _ _, OAdd _ | EvIncoming _ _ _, OAdd _ => true
  | MoveToActive cn p h _, OMove MoveOk =>
      match lookup (h, p) (conns s) with Some Pending => true | _ => false end
  | MoveToActive _ _ _ _, OMove _ => true
  | Blacklist p h, OBl true => c_nobl c || negb (blacklisted s (h, p))
  | Blacklist p h, OBl false => negb (c_nobl c) && blacklisted s (h, p)
  | Announce h known complete self peers, ODial d =>
      nodupN d
      && forallb (fun p => existsb (N.eqb p) peers && negb (N.eqb p self)
                           && negb (blacklisted s (h, p))             (* no dial while blacklisted *)
                           && negb (connected s h p)) d
      && ((c_max c <? 1) || (count h (conns s) + Z.of_nat (length d) <=? c_max c))
  | QActive, OActive l => listN_eqb (sortN (active_ids (conns s))) l
  | QBlacklisted p h, OBool b => Bool.eqb (blacklisted s (h, p)) b
  | QSaturated _, OBool _ => true
  | QSnapshot, OSnap _ => true
  | (DeletePending _ _ | DeleteActive _ _ _ | ClearBlacklist _ | Tick _ | EvConnClosed _ _ _
     | EvFailedOut _ _ | EvFailedIn _ _ | EvComplete _), OUnit => true
  | _, _ => false
  end.

Fixpoint check_from (c : cfg) (s : st) (ops : list op) (obs : list out) : bool :=
  match ops, obs with
  | [], [] => true
  | o :: t, r :: rt => clause_ok c s o r && check_from c (next c s o r) t rt
  | _, _ => false
  end.

(* [raw] is the configuration as written; the implementation applies its defaults. *)
Definition C16_check (raw : cfg) (ops : list op) (obs : list out) : bool :=
  check_from (apply_defaults raw) init ops obs.
