(* Model of lib/persistedretry: the persistent task store (writeback/store.go and
   tagreplication/store.go over the SQLite tables of localdb/migrations) and the manager state
   machine (manager.go).  Shared by C30 (owner), C31, C32, C33.
   Executable definitions only; lemmas live in Proof/Retry.v.

   Granularity: one atomic step = one store call (one SQL statement) together with the
   thread-local code up to the next store call / channel operation.  A thread is an Add call,
   the retry poller (tickerLoop -> pollRetries), or a worker.  Channel operations (enqueue =
   non-blocking send, dequeue = receive) are atomic.  Time is a logical clock; the executor's
   verdict and the orders in which SELECT returns rows are oracles carried by the operations. *)
From Coq Require Import List NArith Bool.
Import ListNotations.
Local Open Scope N_scope.

(* ---------------------------------------------------------------- the task store *)

Inductive status := Pending | Failed.
Definition status_eqb (a b : status) : bool :=
  match a, b with Pending, Pending => true | Failed, Failed => true | _, _ => false end.

(* one row of writeback_task / replicate_tag_task; the primary key is canonicalised to r_id *)
Record row := mkrow { r_id : N; r_st : status; r_fail : N; r_created : N; r_delay : N;
                      r_last : option N (* None = zero time: never attempted *) }.
Definition store := list row.

Definition is_pending (r : row) : bool := status_eqb (r_st r) Pending.
Definition is_failed (r : row) : bool := status_eqb (r_st r) Failed.
Definition ids (s : store) : list N := map r_id s.
Definition memb (t : N) (l : list N) : bool := existsb (N.eqb t) l.
Definition storedb (t : N) (s : store) : bool := existsb (fun r => r_id r =? t) s.
Definition pendingb (t : N) (s : store) : bool := existsb (fun r => (r_id r =? t) && is_pending r) s.
Definition failedb (t : N) (s : store) : bool := existsb (fun r => (r_id r =? t) && is_failed r) s.
Definition find_row (t : N) (s : store) : option row := find (fun r => r_id r =? t) s.
Definition pending_ids (s : store) : list N := ids (filter is_pending s).   (* store.go:38 GetPending *)
Definition failed_ids (s : store) : list N := ids (filter is_failed s).     (* store.go:43 GetFailed *)

(* store.go:126 addWithStatus: INSERT; primary-key violation -> ErrTaskExists (None).
   created_at = DEFAULT CURRENT_TIMESTAMP, last_attempt = the task's zero time, failures = 0 *)
Definition add_row (t : N) (stt : status) (d now : N) (s : store) : option store :=
  if storedb t s then None else Some (s ++ [mkrow t stt 0 now d None]).

Definition upd (t : N) (f : row -> row) (s : store) : store :=
  map (fun r => if r_id r =? t then f r else r) s.
(* store.go:57 MarkPending: UPDATE SET status="pending" WHERE key (0 rows -> ErrTaskNotFound) *)
Definition set_pending (r : row) : row := mkrow (r_id r) Pending (r_fail r) (r_created r) (r_delay r) (r_last r).
Definition mark_pending (t : N) (s : store) : store := upd t set_pending s.
(* store.go:79 MarkFailed: last_attempt = CURRENT_TIMESTAMP, failures+1, status="failed" *)
Definition set_failed (now : N) (r : row) : row :=
  mkrow (r_id r) Failed (r_fail r + 1) (r_created r) (r_delay r) (Some now).
Definition mark_failed (t now : N) (s : store) : store := upd t (set_failed now) s.
(* store.go:105 Remove: DELETE WHERE key (no error when absent) *)
Definition remove_row (t : N) (s : store) : store := filter (fun r => negb (r_id r =? t)) s.

(* manager.go:245: t.Ready() && time.Since(t.GetLastAttempt()) > RetryInterval, evaluated on the
   row as it was read by GetFailed; task.go: Ready = time.Since(CreatedAt) >= Delay *)
Definition ready (now : N) (r : row) : bool := r_delay r <=? now - r_created r.
Definition due (ri now : N) (r : row) : bool :=
  ready now r && match r_last r with None => true | Some l => ri <? now - l end.

(* the rows a SELECT returned, in the order [order] chosen by SQLite (oracle) *)
Definition get_rows (order : list N) (s : store) : list row :=
  flat_map (fun t => match find_row t s with Some r => [r] | None => [] end) order.

Fixpoint nodupb (l : list N) : bool :=
  match l with [] => true | x :: t => negb (memb x t) && nodupb t end.
(* [order] is a legal answer to a SELECT whose result set is [want] *)
Definition order_ok (order want : list N) : bool :=
  nodupb order && forallb (fun t => memb t want) order && forallb (fun t => memb t order) want.

(* ---------------------------------------------------------------- the manager *)

(* config.go after applyDefaults *)
Record cfg := mkcfg { c_inbuf : N; c_rebuf : N; c_inw : N; c_rew : N; c_ri : N }.
Definition cfg_ok (c : cfg) : bool :=
  (1 <=? c_inbuf c) && (1 <=? c_rebuf c) && (1 <=? c_inw c) && (1 <=? c_rew c).

Inductive qk := QIn | QRe.                      (* m.incoming / m.retries *)
Definition qk_eqb (a b : qk) : bool := match a, b with QIn, QIn => true | QRe, QRe => true | _, _ => false end.
Inductive wphase := WRun | WFin (ok : bool).     (* in executor.Exec / about to MarkFailed|Remove *)
Record wst := mkw { w_q : qk; w_t : N; w_ph : wphase }.
(* an Add call (manager.go:127): passed the closed check / stored pending, about to enqueue /
   queue was full, about to MarkFailed *)
Inductive astate := AStore (t d : N) | AEnq (t : N) | AMark (t : N).
(* pollRetries (manager.go:237): loop over the snapshot / MarkPending done, about to enqueue /
   queue was full, about to MarkFailed *)
Inductive pstate := PLoop (rest : list row) | PEnq (t : N) (rest : list row) | PMark (t : N) (rest : list row).

Record mgr := mkm { m_closed : bool; m_in : list N; m_re : list N; m_idle_in : N; m_idle_re : N;
                    m_work : list wst; m_add : list (N * astate); m_poll : option pstate }.

Inductive ev := EStart (t : N) | ERet (t : N) (ok : bool).    (* executor invocation log *)
Definition ev_task (e : ev) : N := match e with EStart t => t | ERet t _ => t end.

(* s_mgr = None: no live process.  s_log is newest-first. *)
Record st := mks { s_cfg : cfg; s_store : store; s_now : N; s_mgr : option mgr; s_log : list ev }.
Definition init (c : cfg) : st := mks c [] 0 None [].

Definition fresh_mgr (c : cfg) : mgr := mkm false [] [] (c_inw c) (c_rew c) [] [] None.

(* everything that holds a task for later execution *)
Definition a_held (a : astate) : list N := match a with AStore _ _ => [] | AEnq t => [t] | AMark t => [t] end.
Definition p_held (p : option pstate) : list N :=
  match p with Some (PEnq t _) => [t] | Some (PMark t _) => [t] | _ => [] end.
Definition p_rest (p : option pstate) : list row :=
  match p with Some (PLoop r) => r | Some (PEnq _ r) => r | Some (PMark _ r) => r | None => [] end.
Definition add_held (l : list (N * astate)) : list N := flat_map (fun p => a_held (snd p)) l.
Definition executing (m : mgr) : list N := map w_t (m_work m).
Definition held (m : mgr) : list N :=
  m_in m ++ m_re m ++ executing m ++ add_held (m_add m) ++ p_held (m_poll m).

(* first element satisfying f, with its context *)
Fixpoint pick {A} (f : A -> bool) (l : list A) : option (list A * A * list A) :=
  match l with
  | [] => None
  | x :: t => if f x then Some ([], x, t)
              else match pick f t with Some (b, y, a) => Some (x :: b, y, a) | None => None end
  end.

Definition is_run (w : wst) : bool := match w_ph w with WRun => true | _ => false end.
Definition is_fin (w : wst) : bool := match w_ph w with WFin _ => true | _ => false end.

Definition queue_of (q : qk) (m : mgr) : list N := match q with QIn => m_in m | QRe => m_re m end.
Definition idle_of (q : qk) (m : mgr) : N := match q with QIn => m_idle_in m | QRe => m_idle_re m end.
Definition cap_of (q : qk) (c : cfg) : N := match q with QIn => c_inbuf c | QRe => c_rebuf c end.
Definition len (l : list N) : N := N.of_nat (length l).

Definition set_queue (q : qk) (l : list N) (m : mgr) : mgr :=
  match q with
  | QIn => mkm (m_closed m) l (m_re m) (m_idle_in m) (m_idle_re m) (m_work m) (m_add m) (m_poll m)
  | QRe => mkm (m_closed m) (m_in m) l (m_idle_in m) (m_idle_re m) (m_work m) (m_add m) (m_poll m)
  end.
Definition set_idle (q : qk) (n : N) (m : mgr) : mgr :=
  match q with
  | QIn => mkm (m_closed m) (m_in m) (m_re m) n (m_idle_re m) (m_work m) (m_add m) (m_poll m)
  | QRe => mkm (m_closed m) (m_in m) (m_re m) (m_idle_in m) n (m_work m) (m_add m) (m_poll m)
  end.
Definition set_work (w : list wst) (m : mgr) : mgr :=
  mkm (m_closed m) (m_in m) (m_re m) (m_idle_in m) (m_idle_re m) w (m_add m) (m_poll m).
Definition set_add (a : list (N * astate)) (m : mgr) : mgr :=
  mkm (m_closed m) (m_in m) (m_re m) (m_idle_in m) (m_idle_re m) (m_work m) a (m_poll m).
Definition set_poll (p : option pstate) (m : mgr) : mgr :=
  mkm (m_closed m) (m_in m) (m_re m) (m_idle_in m) (m_idle_re m) (m_work m) (m_add m) p.
Definition set_closed (m : mgr) : mgr :=
  mkm true (m_in m) (m_re m) (m_idle_in m) (m_idle_re m) (m_work m) (m_add m) (m_poll m).

Definition with_mgr (s : st) (m : option mgr) : st := mks (s_cfg s) (s_store s) (s_now s) m (s_log s).
Definition with_sm (s : st) (sto : store) (m : mgr) : st := mks (s_cfg s) sto (s_now s) (Some m) (s_log s).

(* manager.go:181 enqueue: non-blocking send; true = sent *)
Definition has_room (q : qk) (c : cfg) (m : mgr) : bool := len (queue_of q m) <? cap_of q c.
Definition push (q : qk) (t : N) (m : mgr) : mgr := set_queue q (queue_of q m ++ [t]) m.

(* ---------------------------------------------------------------- operations *)

Inductive op :=
| OpStart (order : list N)              (* NewManager (manager.go:57): GetPending returned [order] *)
| OpStartCrash (order : list N) (k : N) (* ... and the process died after k MarkFailed calls *)
| OpCrash                               (* the process dies: all volatile state is lost *)
| OpClose                               (* Close (manager.go:171): closed := true, done closed *)
| OpCloseDone                           (* Close returned: legal only when no worker is busy *)
| OpTick (dt : N)
| OpAddCheck (a t d : N)                (* thread a calls Add(task t, delay d): closed check *)
| OpAddStore (a : N)                    (* AddPending | AddFailed *)
| OpAddEnq (a : N)                      (* enqueue into incoming (send, or decide overflow) *)
| OpAddMark (a : N)                     (* overflow: MarkFailed *)
| OpPollGet (order : list N)            (* pollRetries: GetFailed returned [order] *)
| OpPollNext                            (* next snapshot element: skip, or MarkPending *)
| OpPollEnq                             (* enqueue into retries *)
| OpPollMark                            (* overflow: MarkFailed *)
| OpDeq (q : qk)                        (* an idle worker of queue q receives and calls Exec *)
| OpExecRet (t : N) (ok : bool)         (* the executor returns for task t *)
| OpExecFin (t : N)                     (* the worker's Remove | MarkFailed *)
| OpObserve.

Record orow := mkorow { o_id : N; o_st : status; o_fail : N; o_age : option N }.
Record obs := mkobs { ob_rows : list orow; ob_alive : bool; ob_in : N; ob_re : N; ob_exec : list N }.

Inductive out :=
| OIllegal                (* the operation is not enabled in this state *)
| ODone | OClosed | OExists | OStored (s : status) | OSent | OOverflow
| OSkip | OMarked (t : N) | ONotFound | ODeq (t : N) | ORemoved | OFailed
| OObs (o : obs).

Definition observe (s : st) : obs :=
  let rows := map (fun r => mkorow (r_id r) (r_st r) (r_fail r)
                               (match r_last r with Some l => Some (s_now s - l) | None => None end)) (s_store s) in
  match s_mgr s with
  | Some m => mkobs rows true (len (m_in m)) (len (m_re m)) (executing m)
  | None => mkobs rows false 0 0 []
  end.

Definition mark_failed_all (order : list N) (now : N) (s : store) : store :=
  fold_left (fun acc t => mark_failed t now acc) order s.
Definition firstn_N (k : N) (l : list N) : list N := firstn (N.to_nat k) l.

Definition step (s : st) (o : op) : st * out :=
  let c := s_cfg s in
  let sto := s_store s in
  let now := s_now s in
  match o with
  | OpTick dt => (mks c sto (now + dt) (s_mgr s) (s_log s), ODone)
  | OpObserve => (s, OObs (observe s))
  | OpCrash => (with_mgr s None, ODone)
  | OpStart order =>                                   (* manager.go:57-100 *)
      match s_mgr s with
      | Some _ => (s, OIllegal)
      | None => if order_ok order (pending_ids sto)
                then (mks c (mark_failed_all order now sto) now (Some (fresh_mgr c)) (s_log s), ODone)
                else (s, OIllegal)
      end
  | OpStartCrash order k =>
      match s_mgr s with
      | Some _ => (s, OIllegal)
      | None => if order_ok order (pending_ids sto)
                then (mks c (mark_failed_all (firstn_N k order) now sto) now None (s_log s), ODone)
                else (s, OIllegal)
      end
  | _ =>
  match s_mgr s with
  | None => (s, OIllegal)
  | Some m =>
    match o with
    | OpClose => (with_mgr s (Some (set_closed m)), ODone)
    | OpCloseDone => if m_closed m && match m_work m with [] => true | _ => false end
                     then (s, ODone) else (s, OIllegal)
    | OpAddCheck a t d =>                              (* manager.go:128 *)
        if existsb (fun p => fst p =? a) (m_add m) then (s, OIllegal)
        else if m_closed m then (s, OClosed)
        else (with_mgr s (Some (set_add ((a, AStore t d) :: m_add m) m)), ODone)
    | OpAddStore a =>                                  (* manager.go:133-146 *)
        match pick (fun p => fst p =? a) (m_add m) with
        | Some (b, (_, AStore t d), af) =>
            let stt := if d =? 0 then Pending else Failed in
            match add_row t stt d now sto with
            | None => (with_mgr s (Some (set_add (b ++ af) m)), OExists)
            | Some sto' =>
                if d =? 0
                then (with_sm s sto' (set_add (b ++ (a, AEnq t) :: af) m), OStored Pending)
                else (with_sm s sto' (set_add (b ++ af) m), OStored Failed)
            end
        | _ => (s, OIllegal)
        end
    | OpAddEnq a =>                                    (* manager.go:147-151, 181-195 *)
        match pick (fun p => fst p =? a) (m_add m) with
        | Some (b, (_, AEnq t), af) =>
            if has_room QIn c m
            then (with_mgr s (Some (push QIn t (set_add (b ++ af) m))), OSent)
            else (with_mgr s (Some (set_add (b ++ (a, AMark t) :: af) m)), OOverflow)
        | _ => (s, OIllegal)
        end
    | OpAddMark a =>                                   (* manager.go:190 *)
        match pick (fun p => fst p =? a) (m_add m) with
        | Some (b, (_, AMark t), af) =>
            (with_sm s (mark_failed t now sto) (set_add (b ++ af) m),
             if storedb t sto then ODone else ONotFound)
        | _ => (s, OIllegal)
        end
    | OpPollGet order =>                               (* manager.go:238 *)
        match m_poll m with
        | Some _ => (s, OIllegal)
        | None => if order_ok order (failed_ids sto)
                  then (with_mgr s (Some (set_poll (Some (PLoop (get_rows order sto))) m)), ODone)
                  else (s, OIllegal)
        end
    | OpPollNext =>                                    (* manager.go:244-250, 198-201 *)
        match m_poll m with
        | Some (PLoop []) => (with_mgr s (Some (set_poll None m)), ODone)
        | Some (PLoop (r :: rest)) =>
            if due (c_ri c) now r
            then if storedb (r_id r) sto
                 then (with_sm s (mark_pending (r_id r) sto) (set_poll (Some (PEnq (r_id r) rest)) m), OMarked (r_id r))
                 else (with_mgr s (Some (set_poll (Some (PLoop rest)) m)), ONotFound)
            else (with_mgr s (Some (set_poll (Some (PLoop rest)) m)), OSkip)
        | _ => (s, OIllegal)
        end
    | OpPollEnq =>                                     (* manager.go:202, 181-195 *)
        match m_poll m with
        | Some (PEnq t rest) =>
            if has_room QRe c m
            then (with_mgr s (Some (push QRe t (set_poll (Some (PLoop rest)) m))), OSent)
            else (with_mgr s (Some (set_poll (Some (PMark t rest)) m)), OOverflow)
        | _ => (s, OIllegal)
        end
    | OpPollMark =>
        match m_poll m with
        | Some (PMark t rest) =>
            (with_sm s (mark_failed t now sto) (set_poll (Some (PLoop rest)) m),
             if storedb t sto then ODone else ONotFound)
        | _ => (s, OIllegal)
        end
    | OpDeq q =>                                       (* manager.go:215, 285 *)
        match queue_of q m with
        | t :: tl =>
            if 0 <? idle_of q m
            then (mks c sto now (Some (set_work (mkw q t WRun :: m_work m)
                                        (set_idle q (idle_of q m - 1) (set_queue q tl m))))
                      (EStart t :: s_log s), ODeq t)
            else (s, OIllegal)
        | [] => (s, OIllegal)
        end
    | OpExecRet t ok =>                                (* executor.Exec returns *)
        match pick (fun w => (w_t w =? t) && is_run w) (m_work m) with
        | Some (b, w, af) =>
            (mks c sto now (Some (set_work (b ++ mkw (w_q w) t (WFin ok) :: af) m)) (ERet t ok :: s_log s), ODone)
        | None => (s, OIllegal)
        end
    | OpExecFin t =>                                   (* manager.go:286-299 *)
        match pick (fun w => (w_t w =? t) && is_fin w) (m_work m) with
        | Some (b, w, af) =>
            let m' := set_idle (w_q w) (idle_of (w_q w) m + 1) (set_work (b ++ af) m) in
            match w_ph w with
            | WFin true => (with_sm s (remove_row t sto) m', ORemoved)
            | _ => (with_sm s (mark_failed t now sto) m', if storedb t sto then OFailed else ONotFound)
            end
        | None => (s, OIllegal)
        end
    | _ => (s, OIllegal)
    end
  end
  end.

Fixpoint run (s : st) (ops : list op) : st * list out :=
  match ops with
  | [] => (s, [])
  | o :: t => let '(s1, r) := step s o in
              let '(s2, rs) := run s1 t in (s2, r :: rs)
  end.

(* most recent executor event about task t *)
Definition last_ev (t : N) (log : list ev) : option ev := find (fun e => ev_task e =? t) log.

(* ---------------------------------------------------------------- comparison of observations *)

Definition optN_eqb (a b : option N) : bool :=
  match a, b with Some x, Some y => x =? y | None, None => true | _, _ => false end.
(* the failure counter is reported but not compared: the property does not speak about it *)
Definition orow_eqb (a b : orow) : bool :=
  (o_id a =? o_id b) && status_eqb (o_st a) (o_st b) && optN_eqb (o_age a) (o_age b).
Definition count (t : N) (l : list N) : N := len (filter (N.eqb t) l).
(* equal as multisets (row order and worker order are not observable) *)
Definition rows_eqb (a b : list orow) : bool :=
  Nat.eqb (length a) (length b) && forallb (fun r => existsb (orow_eqb r) b) a && forallb (fun r => existsb (orow_eqb r) a) b.
Definition mset_eqb (a b : list N) : bool :=
  Nat.eqb (length a) (length b) && forallb (fun t => count t a =? count t b) (a ++ b).
Definition obs_eqb (a b : obs) : bool :=
  rows_eqb (ob_rows a) (ob_rows b) && Bool.eqb (ob_alive a) (ob_alive b) &&
  (ob_in a =? ob_in b) && (ob_re a =? ob_re b) && mset_eqb (ob_exec a) (ob_exec b).
Definition out_eqb (a b : out) : bool :=
  match a, b with
  | OIllegal, OIllegal | ODone, ODone | OClosed, OClosed | OExists, OExists | OSent, OSent
  | OOverflow, OOverflow | OSkip, OSkip | ONotFound, ONotFound | ORemoved, ORemoved | OFailed, OFailed => true
  | OStored x, OStored y => status_eqb x y
  | OMarked x, OMarked y => x =? y
  | ODeq x, ODeq y => x =? y
  | OObs x, OObs y => obs_eqb x y
  | _, _ => false
  end.
Fixpoint outs_eqb (a b : list out) : bool :=
  match a, b with
  | [], [] => true
  | x :: a', y :: b' => out_eqb x y && outs_eqb a' b'
  | _, _ => false
  end.
