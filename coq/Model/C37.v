(* C37 — backend clients honour the storage contract.
   Executable models of Kraken's own logic in
     lib/backend/testfs/client.go + server.go   (path mapping, directory semantics of the server)
     lib/backend/sqlbackend/client.go           (repo:tag decomposition, upsert, the two list queries)
     lib/backend/s3backend/client.go            (key mapping, the ListObjectsV2Pages callback = pagination loop)
     lib/backend/shadowbackend/client.go        (write both, read active, stat both)
   over storage engines modelled as association lists (file tree, SQL table, S3 bucket + pager),
   and the contract specification  name |-> bytes  with the boolean oracle C37_check.
   Definitions only; proofs are in Proof/C37*.v.  Strings are lists of bytes (PathLib.str). *)
From Coq Require Import List NArith Bool.
From K.Model Require Export PathLib.
Import ListNotations.
Local Open Scope N_scope.

(* ------------------------------------------------------------------ strings, small helpers *)

Definition colon : N := 58.
Definition len (s : str) : N := N.of_nat (length s).

(* bytewise lexicographic order (sort.Strings; S3 key order) *)
Fixpoint str_leb (a b : str) : bool :=
  match a, b with
  | [], _ => true
  | _ :: _, [] => false
  | x :: a', y :: b' => if x <? y then true else if y <? x then false else str_leb a' b'
  end.
Fixpoint insert_str (x : str) (l : list str) : list str :=
  match l with
  | [] => [x]
  | y :: t => if str_leb x y then x :: l else y :: insert_str x t
  end.
Definition sort_str (l : list str) : list str := fold_right insert_str [] l.

Definition mem_str (x : str) (l : list str) : bool := existsb (str_eqb x) l.
Fixpoint nodupb (l : list str) : bool :=
  match l with [] => true | x :: t => negb (mem_str x t) && nodupb t end.
Definition inclb (a b : list str) : bool := forallb (fun x => mem_str x b) a.
(* first occurrences only *)
Fixpoint dedup (l : list str) : list str :=
  match l with [] => [] | x :: t => x :: filter (fun y => negb (str_eqb x y)) (dedup t) end.

Fixpoint filter_map {A B} (f : A -> option B) (l : list A) : list B :=
  match l with
  | [] => []
  | x :: t => match f x with Some y => y :: filter_map f t | None => filter_map f t end
  end.

(* strings.HasSuffix / TrimSuffix / TrimPrefix *)
Definition suffixb (suf s : str) : bool := prefixb (rev suf) (rev s).
Definition trim_suffix (suf s : str) : str :=
  if suffixb suf s then firstn (length s - length suf) s else s.
Definition trim_prefix (pre s : str) : str :=
  if prefixb pre s then skipn (length pre) s else s.

(* ------------------------------------------------------------------ association lists (the engines) *)

Section AMap.
  Context {K : Type} (keqb : K -> K -> bool).
  Definition amap := list (K * str).
  Fixpoint aget (k : K) (m : amap) : option str :=
    match m with
    | [] => None
    | (k', v) :: t => if keqb k k' then Some v else aget k t
    end.
  Fixpoint aset (k : K) (v : str) (m : amap) : amap :=
    match m with
    | [] => [(k, v)]
    | (k', v') :: t => if keqb k k' then (k, v) :: t else (k', v') :: aset k v t
    end.
  Definition akeys (m : amap) : list K := map fst m.
End AMap.

Definition pair_eqb (a b : str * str) : bool := str_eqb (fst a) (fst b) && str_eqb (snd a) (snd b).

(* ------------------------------------------------------------------ operations and observations *)

Inductive ek := KFs | KSql | KS3.
Inductive bk := Single (e : ek) | Shadow (a b : ek).
Record cfg := mkcfg {
  c_bk : bk;
  fs_root : str;     (* testfs.Config.Root (relative in Kraken's configurations) *)
  s3_root : str;     (* s3backend.Config.RootDirectory (absolute) *)
  list_max : N;      (* s3backend.Config.ListMaxKeys *)
  sql_zero : bool    (* engine oracle, measured by the driver: gorm skips a zero-valued Assign *)
}.

Inductive lmode := Unpaged | Paged (maxk : N).

(* List carries the page-size oracle of the S3 service: one list per List call of the session,
   one entry per page of that call (exhausted: MaxKeys). *)
Inductive op :=
| Upload (n c : str)
| Download (n : str)
| Stat (n : str)
| List (p : str) (m : lmode) (zss : list (list N))
| RawPut (k c : str)                      (* S3 only: an object written behind the client's back *)
| SideUpload (side : bool) (n c : str).   (* shadow only: upload to one component directly *)

(* a listing session: the pages (names, continuation token; 0 = "", p+1 = position p) *)
Inductive out :=
| OOk | OBytes (b : str) | OSize (z : N) | OSizeAny | ONotFound | OErr
| OPages (l : list (list str * N)).

(* ------------------------------------------------------------------ identity pather (namepath/pather.go:128-148) *)

Definition blob_path (root n : str) : str := join [root; n].                    (* :138 *)
Definition name_from_path (root bp : str) : option str :=                       (* :143 *)
  let prefix := trim_slash (clean root) ++ [slash] in
  if prefixb prefix bp then Some (skipn (length prefix) bp) else None.

(* ------------------------------------------------------------------ testfs *)

(* server.go:168 path(): strings.ReplaceAll(entry, ":", "/"), filepath.Join(s.dir, entry).
   The model keeps the part below s.dir (what filepath.Rel returns in listHandler); names never
   contain ".." in the driver, so the join does not climb out of s.dir. *)
Definition replace_colon (s : str) : str := map (fun c => if c =? colon then slash else c) s.
Definition fs_path (entry : str) : str := tl (clean (slash :: replace_colon entry)).
Definition fs_key (root n : str) : str := fs_path (blob_path root n).           (* client.go:104,117 *)

Definition fmap := @amap str.
(* q is a directory: s.dir itself, or a proper ancestor of a stored file *)
Definition is_dir (q : str) (m : fmap) : bool :=
  is_nil q || existsb (fun k => prefixb (q ++ [slash]) k) (akeys m).
(* a proper ancestor of q is a regular file (ENOTDIR) *)
Definition under_file (q : str) (m : fmap) : bool :=
  existsb (fun k => prefixb (k ++ [slash]) q) (akeys m).

Definition all_some {A} (l : list (option A)) : option (list A) :=
  fold_right (fun x acc => match x, acc with Some y, Some t => Some (y :: t) | _, _ => None end) (Some []) l.

Definition fs_step (root : str) (m : fmap) (o : op) : fmap * out :=
  match o with
  | Upload n c =>                                        (* server.go:112 uploadHandler: MkdirAll, Create *)
      let q := fs_key root n in
      if is_dir q m || under_file q m then (m, OErr) else (aset str_eqb q c m, OOk)
  | Download n =>                                        (* server.go:92 downloadHandler *)
      let q := fs_key root n in
      match aget str_eqb q m with
      | Some b => (m, OBytes b)
      | None => (m, if is_dir q m || under_file q m then OErr else ONotFound)
      end
  | Stat n =>                                            (* server.go:72 statHandler: os.Stat also succeeds on a directory *)
      let q := fs_key root n in
      match aget str_eqb q m with
      | Some b => (m, OSize (len b))
      | None => (m, if is_dir q m then OSizeAny else if under_file q m then OErr else ONotFound)
      end
  | List p Unpaged _ =>                                  (* client.go:133 List, server.go:133 listHandler *)
      let lp := fs_path (join [root; p]) in
      match aget str_eqb lp m with
      | Some _ => (m, OPages [([], 0)])                  (* prefix is a file *)
      | None =>
          if is_dir lp m then
            let ks := filter (fun k => is_nil lp || prefixb (lp ++ [slash]) k) (akeys m) in
            match all_some (map (name_from_path root) ks) with   (* client.go:157: any bad path fails the call *)
            | Some names => (m, OPages [(sort_str names, 0)])
            | None => (m, OErr)
            end
          else (m, OErr)                                 (* Walk of a missing prefix: 500 *)
      end
  | List _ (Paged _) _ => (m, OErr)                      (* client.go:139 pagination not supported *)
  | RawPut _ _ | SideUpload _ _ _ => (m, OErr)
  end.

(* ------------------------------------------------------------------ sqlbackend *)

(* client.go:125 decomposeDockerTag *)
Definition decompose (n : str) : option (str * str) :=
  match split_on colon n with
  | [repo; tag] => if is_nil repo || is_nil tag then None else Some (repo, tag)
  | _ => None
  end.

Definition manifests_tags : str := [47;95;109;97;110;105;102;101;115;116;115;47;116;97;103;115]. (* "/_manifests/tags" *)
Definition dummy : str := [100;117;109;109;121].                                                   (* "dummy" *)
Definition tag_name (repo tag : str) : str := repo ++ colon :: tag.                                (* "%s:%s" *)
(* client.go:253-255 *)
Definition sql_repo (p : str) : str := trim_prefix [slash] (trim_suffix manifests_tags p).

Definition rmap := @amap (str * str).   (* unique index (repository, tag) -> image_id *)

Definition sql_step (zero : bool) (m : rmap) (o : op) : rmap * out :=
  match o with
  | Upload n c =>                                        (* client.go:186 Upload: Where.Assign.FirstOrCreate *)
      match decompose n with
      | None => (m, OErr)
      | Some rt =>
          match aget pair_eqb rt m with
          | Some _ => if zero && is_nil c then (m, OOk)   (* gorm drops the zero-valued Assign: row unchanged *)
                      else (aset pair_eqb rt c m, OOk)
          | None => (aset pair_eqb rt c m, OOk)
          end
      end
  | Download n =>                                        (* client.go:161 *)
      match decompose n with
      | None => (m, OErr)
      | Some rt => (m, match aget pair_eqb rt m with Some b => OBytes b | None => ONotFound end)
      end
  | Stat n =>                                            (* client.go:139: size is not tracked *)
      match decompose n with
      | None => (m, OErr)
      | Some rt => (m, match aget pair_eqb rt m with Some _ => OSize 0 | None => ONotFound end)
      end
  | List p _ _ =>                                        (* client.go:218: options ignored *)
      if is_nil p then                                   (* :229 dockerCatalogQuery *)
        (m, OPages [(sort_str (map (fun r => tag_name r dummy) (dedup (map (fun kv => fst (fst kv)) m))), 0)])
      else                                               (* :249 dockerTagsQuery *)
        let repo := sql_repo p in
        (m, OPages [(sort_str (map (fun kv => tag_name repo (snd (fst kv)))
                                   (filter (fun kv => str_eqb (fst (fst kv)) repo) m)), 0)])
  | RawPut _ _ | SideUpload _ _ _ => (m, OErr)
  end.

(* ------------------------------------------------------------------ s3backend *)

(* the service addresses "/root/x" and "root/x" as one object (the SDK cleans the request URI) *)
Definition strip1 (s : str) : str :=
  match s with c :: t => if c =? slash then t else s | [] => [] end.
Definition s3_key (root n : str) : str := strip1 (blob_path root n).            (* client.go:158,175,214 *)
Definition s3_prefix (root p : str) : str := tl (join [root; p]).               (* client.go:265 [1:] *)
Definition s3_name_of (root k : str) : option str :=                            (* client.go:275 *)
  name_from_path root (join [[slash]; k]).

(* One ListObjectsV2Pages call: the service delivers the keys `rest` in pages whose sizes come
   from zs (then MaxKeys, at least 1) and sets IsTruncated/NextContinuationToken while keys
   remain; the SDK calls the callback for each page until it returns false or nothing remains.
   The callback is client.go:266-288: append the page's names; fewer than maxKeys so far => next
   page; otherwise stop and keep this page's continuation token.  Result: names, keys not yet
   delivered (their count gives the token). *)
Fixpoint s3_call (fuel : nat) (name_of : str -> option str) (m : N) (rest : list str) (zs : list N)
         (acc : list str) : list str * list str :=
  match fuel with
  | O => (acc, rest)
  | S f =>
      let z := N.to_nat (match zs with z :: _ => z | [] => N.max 1 m end) in
      let rest' := skipn z rest in
      let acc' := acc ++ filter_map name_of (firstn z rest) in
      if N.of_nat (length acc') <? m then
        match rest' with
        | [] => (acc', [])
        | _ => s3_call f name_of m rest' (tl zs) acc'
        end
      else (acc', rest')
  end.

Definition s3_list_once (name_of : str -> option str) (m : N) (ks : list str) (tok : N) (zs : list N)
  : list str * N :=
  let rest := match tok with 0 => ks | _ => skipn (N.to_nat (tok - 1)) ks end in
  let '(names, rest') := s3_call (length zs + length rest + 1) name_of m rest zs [] in
  (names, match rest' with [] => 0 | _ => N.of_nat (length ks - length rest') + 1 end).

(* a consumer following continuation tokens until the token is empty *)
Fixpoint s3_session (fuel : nat) (name_of : str -> option str) (m : N) (ks : list str) (tok : N)
         (zss : list (list N)) : list (list str * N) :=
  match fuel with
  | O => []
  | S f =>
      let '(names, tok') := s3_list_once name_of m ks tok (hd [] zss) in
      (names, tok') :: (if tok' =? 0 then [] else s3_session f name_of m ks tok' (tl zss))
  end.
(* calls that certainly suffice: every call either uses up one of the oracle lists or delivers a key
   (Proof/C37_pages.v: s3_session_fuel) *)
Definition session_fuel (ks : list str) (zss : list (list N)) : nat := length zss + length ks + 1.

Definition s3_keys (root p : str) (m : fmap) : list str :=
  sort_str (filter (prefixb (s3_prefix root p)) (akeys m)).

Definition s3_step (root : str) (lmax : N) (m : fmap) (o : op) : fmap * out :=
  match o with
  | Upload n c => (aset str_eqb (s3_key root n) c m, OOk)
  | Download n => (m, match aget str_eqb (s3_key root n) m with Some b => OBytes b | None => ONotFound end)
  | Stat n => (m, match aget str_eqb (s3_key root n) m with Some b => OSize (len b) | None => ONotFound end)
  | List p Unpaged zss =>     (* client.go:250: maxKeys = config.ListMaxKeys, no token; one call *)
      (m, OPages [s3_list_once (s3_name_of root) lmax (s3_keys root p m) 0 (hd [] zss)])
  | List p (Paged k) zss =>   (* client.go:252: maxKeys = options.MaxKeys, token from the caller *)
      let ks := s3_keys root p m in
      (m, OPages (s3_session (session_fuel ks zss) (s3_name_of root) k ks 0 zss))
  | RawPut k c => (aset str_eqb (strip1 k) c m, OOk)
  | SideUpload _ _ _ => (m, OErr)
  end.

(* ------------------------------------------------------------------ engines, shadowbackend *)

Inductive est := EFs (m : fmap) | ESql (m : rmap) | ES3 (m : fmap).
Definition einit (e : ek) : est :=
  match e with KFs => EFs [] | KSql => ESql [] | KS3 => ES3 [] end.
Definition estep (c : cfg) (s : est) (o : op) : est * out :=
  match s with
  | EFs m => let '(m', r) := fs_step (fs_root c) m o in (EFs m', r)
  | ESql m => let '(m', r) := sql_step (sql_zero c) m o in (ESql m', r)
  | ES3 m => let '(m', r) := s3_step (s3_root c) (list_max c) m o in (ES3 m', r)
  end.

Definition is_fail (r : out) : bool := match r with ONotFound | OErr => true | _ => false end.

(* shadowbackend/client.go:211 Stat *)
Definition shadow_stat (ra rb : out) : out :=
  match ra, rb with
  | ONotFound, ONotFound => ONotFound                         (* :216 *)
  | _, _ => if is_fail ra then (if is_fail rb then OErr else ra)   (* :221, :231 *)
            else if is_fail rb then rb                        (* :226 *)
            else ra
  end.

(* shadowbackend/client.go over any two clients *)
Section Shadow.
  Context {SA SB : Type} (stepA : SA -> op -> SA * out) (stepB : SB -> op -> SB * out).
  Definition shadow_step (ab : SA * SB) (o : op) : (SA * SB) * out :=
    let '(a, b) := ab in
    match o with
    | Upload n v =>                                          (* :248: active first, then shadow *)
        let '(a', ra) := stepA a o in
        match ra with
        | OOk => let '(b', rb) := stepB b o in ((a', b'), rb)
        | _ => ((a', b), ra)
        end
    | Download _ | List _ _ _ => let '(a', r) := stepA a o in ((a', b), r)   (* :242, :276: active only *)
    | Stat _ => let '(_, ra) := stepA a o in let '(_, rb) := stepB b o in (ab, shadow_stat ra rb)
    | SideUpload false n v => let '(a', r) := stepA a (Upload n v) in ((a', b), r)   (* driver: direct handle *)
    | SideUpload true n v => let '(b', r) := stepB b (Upload n v) in ((a, b'), r)
    | RawPut _ _ => (ab, OErr)
    end.
End Shadow.

Inductive st := St1 (e : est) | St2 (a b : est).
Definition init (c : cfg) : st :=
  match c_bk c with Single e => St1 (einit e) | Shadow a b => St2 (einit a) (einit b) end.

Definition step (c : cfg) (s : st) (o : op) : st * out :=
  match s with
  | St1 e => match o with
             | SideUpload _ _ _ => (s, OErr)
             | _ => let '(e', r) := estep c e o in (St1 e', r)
             end
  | St2 a b => let '((a', b'), r) := shadow_step (estep c) (estep c) (a, b) o in (St2 a' b', r)
  end.

Fixpoint run (c : cfg) (s : st) (ops : list op) : st * list out :=
  match ops with
  | [] => (s, [])
  | o :: t => let '(s1, r) := step c s o in
              let '(s2, rs) := run c s1 t in (s2, r :: rs)
  end.

(* ------------------------------------------------------------------ comparing observations *)

Fixpoint strs_eqb (a b : list str) : bool :=
  match a, b with
  | [], [] => true
  | x :: a', y :: b' => str_eqb x y && strs_eqb a' b'
  | _, _ => false
  end.
Fixpoint pages_eqb (a b : list (list str * N)) : bool :=
  match a, b with
  | [], [] => true
  | (x, t) :: a', (y, u) :: b' => strs_eqb x y && (t =? u) && pages_eqb a' b'
  | _, _ => false
  end.
(* model output vs observed output; a directory's Stat size is file-system dependent, and a server
   that answers not-found for a directory is accepted as well (it only moves towards the contract) *)
Definition out_match (m o : out) : bool :=
  match m, o with
  | OOk, OOk | ONotFound, ONotFound | OErr, OErr => true
  | OBytes a, OBytes b => str_eqb a b
  | OSize a, OSize b => a =? b
  | OSizeAny, OSize _ | OSizeAny, ONotFound => true
  | OPages a, OPages b => pages_eqb a b
  | _, _ => false
  end.
Fixpoint outs_match (a b : list out) : bool :=
  match a, b with
  | [], [] => true
  | x :: a', y :: b' => out_match x y && outs_match a' b'
  | _, _ => false
  end.

(* ------------------------------------------------------------------ the contract and its oracle *)

(* The contract: a store is a finite map  name |-> bytes. *)
Definition store := @amap str.
Definition sget (n : str) (s : store) := aget str_eqb n s.
Definition sset (n v : str) (s : store) := aset str_eqb n v s.

Definition tracks_size (e : ek) : bool := match e with KSql => false | _ => true end.

(* "n is stored under prefix p" for each client's notion of prefix *)
Definition under (c : cfg) (e : ek) (p n : str) : bool :=
  match e with
  | KFs => let lp := fs_path (join [fs_root c; p]) in
           is_nil lp || prefixb (lp ++ [slash]) (fs_key (fs_root c) n)
  | KS3 => prefixb (s3_prefix (s3_root c) p) (s3_key (s3_root c) n)
  | KSql => match decompose n with Some (r, _) => str_eqb r (sql_repo p) | None => false end
  end.

(* the names a complete listing of p must return (sql with p = "": one placeholder per repository) *)
Definition expected (c : cfg) (e : ek) (p : str) (s : store) : list str :=
  match e, p with
  | KSql, [] => dedup (filter_map (fun kv => match decompose (fst kv) with
                                             | Some (r, _) => Some (tag_name r dummy) | None => None end) s)
  | _, _ => filter (under c e p) (akeys s)
  end.

(* each exactly once *)
Definition same_names (l exp : list str) : bool := nodupb l && inclb l exp && inclb exp l.
Definition some_names (l exp : list str) : bool := nodupb l && inclb l exp.

Definition last_tok (l : list (list str * N)) : N := snd (last l ([], 1)).

(* is the observed answer r to a listing acceptable, given the names that must be returned *)
Definition list_ok (e : ek) (m : lmode) (exp : list str) (r : out) : bool :=
  match e, m, r with
  | KFs, Paged _, OErr => true                                  (* testfs has no pagination *)
  | KFs, Unpaged, OErr => match exp with [] => true | _ => false end                            (* a missing prefix directory is an error *)
  | KFs, Unpaged, OPages [(l, 0)] => same_names l exp
  | KSql, _, OPages [(l, 0)] => same_names l exp
  | KS3, Paged _, OPages l => (last_tok l =? 0) && same_names (concat (map fst l)) exp
  | KS3, Unpaged, OPages [(l, t)] => if t =? 0 then same_names l exp else some_names l exp
  | _, _, _ => false
  end.

(* -- the domain on which the contract is claimed: decidable conditions on the history's name space *)

Fixpoint names_of (ops : list op) : list str :=
  match ops with
  | [] => []
  | Upload n _ :: t | Download n :: t | Stat n :: t | SideUpload _ n _ :: t => n :: names_of t
  | _ :: t => names_of t
  end.
Fixpoint contents_of (ops : list op) : list str :=
  match ops with
  | [] => []
  | Upload _ c :: t | SideUpload _ _ c :: t => c :: contents_of t
  | _ :: t => contents_of t
  end.
Definition no_raw (ops : list op) : bool :=
  forallb (fun o => match o with RawPut _ _ => false | _ => true end) ops.
Definition no_side (ops : list op) : bool :=
  forallb (fun o => match o with SideUpload _ _ _ => false | _ => true end) ops.

(* the client maps the name to a key of its engine *)
Definition key_ok (c : cfg) (e : ek) (n : str) : bool :=
  match e with
  | KFs => negb (is_nil (fs_key (fs_root c) n))
  | KSql => match decompose n with Some _ => true | None => false end
  | KS3 => true
  end.
(* two different names do not share an engine key, and (file tree) neither key is a directory of the other *)
Definition apart (c : cfg) (e : ek) (a b : str) : bool :=
  str_eqb a b ||
  match e with
  | KFs => let ka := fs_key (fs_root c) a in let kb := fs_key (fs_root c) b in
           negb (str_eqb ka kb) && negb (prefixb (ka ++ [slash]) kb) && negb (prefixb (kb ++ [slash]) ka)
  | KSql => true
  | KS3 => negb (str_eqb (s3_key (s3_root c) a) (s3_key (s3_root c) b))
  end.
(* listing maps the key back to the name (C36's round trip, here checked on the name space) *)
Definition round_ok (c : cfg) (e : ek) (n : str) : bool :=
  match e with
  | KFs => match name_from_path (fs_root c) (fs_key (fs_root c) n) with Some n' => str_eqb n' n | None => false end
  | KS3 => match s3_name_of (s3_root c) (s3_key (s3_root c) n) with Some n' => str_eqb n' n | None => false end
  | KSql => true
  end.

Definition guard_e (c : cfg) (e : ek) (ops : list op) : bool :=
  let ns := names_of ops in
  forallb (key_ok c e) ns
  && forallb (fun a => forallb (apart c e a) ns) ns
  && match e with
     | KSql => negb (sql_zero c) || forallb (fun v => negb (is_nil v)) (contents_of ops)
     | _ => true
     end
  && no_raw ops.
Definition guard_list (c : cfg) (e : ek) (ops : list op) : bool := forallb (round_ok c e) (names_of ops).

Definition guard (c : cfg) (ops : list op) : bool :=
  match c_bk c with
  | Single e => guard_e c e ops && no_side ops
  | Shadow a b => guard_e c a ops && guard_e c b ops
  end.

(* the stores of the contract after a history (shadow: one per component; a single client: both equal) *)
Fixpoint stores_from (sa sb : store) (ops : list op) : store * store :=
  match ops with
  | [] => (sa, sb)
  | Upload n v :: t => stores_from (sset n v sa) (sset n v sb) t
  | SideUpload false n v :: t => stores_from (sset n v sa) sb t
  | SideUpload true n v :: t => stores_from sa (sset n v sb) t
  | _ :: t => stores_from sa sb t
  end.
Definition spec_stores (ops : list op) : store * store := stores_from [] [] ops.
Definition active (c : cfg) : ek := match c_bk c with Single e => e | Shadow a _ => a end.

(* -- the contract evaluated along an observed trace.  Shadow: one store per component. *)

Definition stat_spec (tracks : bool) (v : option str) : out :=
  match v with Some b => OSize (if tracks then len b else 0) | None => ONotFound end.
Definition get_spec (v : option str) : out :=
  match v with Some b => OBytes b | None => ONotFound end.

Fixpoint check_from (c : cfg) (ea eb : ek) (glist : bool) (sa sb : store) (ops : list op) (obs : list out) : bool :=
  match ops, obs with
  | [], [] => true
  | o :: ops', r :: obs' =>
      match o with
      | Upload n v => out_match OOk r && check_from c ea eb glist (sset n v sa) (sset n v sb) ops' obs'
      | SideUpload false n v => out_match OOk r && check_from c ea eb glist (sset n v sa) sb ops' obs'
      | SideUpload true n v => out_match OOk r && check_from c ea eb glist sa (sset n v sb) ops' obs'
      | Download n => out_match (get_spec (sget n sa)) r && check_from c ea eb glist sa sb ops' obs'
      | Stat n =>
          out_match (match sget n sb with
                     | Some _ => stat_spec (tracks_size ea) (sget n sa)
                     | None => ONotFound end) r
          && check_from c ea eb glist sa sb ops' obs'
      | List p m _ => (negb glist || list_ok ea m (expected c ea p sa) r) && check_from c ea eb glist sa sb ops' obs'
      | RawPut _ _ => check_from c ea eb glist sa sb ops' obs'
      end
  | _, _ => false
  end.

(* The property on one observed trace: on the contract's domain, every answer is the one the map
   name |-> bytes gives (bytes last uploaded, their size, not-found for absent names) and every
   complete listing returns exactly the stored names under the prefix, each once. *)
Definition C37_check (c : cfg) (ops : list op) (obs : list out) : bool :=
  if guard c ops then
    match c_bk c with
    | Single e => check_from c e e (guard_list c e ops) [] [] ops obs
    | Shadow a b => check_from c a b (guard_list c a ops) [] [] ops obs
    end
  else true.
