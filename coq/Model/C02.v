(* Model of core/metainfo.go, core/piece_hash.go, lib/metainfogen/{config,generator}.go and
   lib/store/metadata/torrentmeta.go (kraken @ pinned commit).
   Executable definitions only; proofs live in Proof/C02*.v.

   Bytes are N (< 256), byte strings are list N.  int64 quantities are Z (unbounded; the
   feasible inputs never overflow, see notes/C02.md), uint32 piece sums are N.
   The piece checksum [sum] and the info-hash function [sha1] are parameters of every model
   function; the theorems quantify over them, Run/C02_run.v instantiates them with the
   bitwise CRC-32 (IEEE) and SHA-1 defined at the end of this file. *)
From Coq Require Import String Ascii.
From Coq Require Import List NArith ZArith Bool.
Import ListNotations.
Local Open Scope N_scope.

(* ------------------------------------------------------------------ basic helpers *)

Inductive res (A : Type) := Ok (a : A) | Err | Fuel.
Arguments Ok {A} a.
Arguments Err {A}.
Arguments Fuel {A}.

Definition lenN {A} (l : list A) : N := N.of_nat (length l).
Definition lenZ {A} (l : list A) : Z := Z.of_nat (length l).

(* firstn / skipn with a binary counter (piece lengths may be astronomically large) *)
Fixpoint takeN {A} (n : N) (l : list A) : list A :=
  match l with
  | [] => []
  | x :: t => if n =? 0 then [] else x :: takeN (N.pred n) t
  end.
Fixpoint dropN {A} (n : N) (l : list A) : list A :=
  match l with
  | [] => []
  | x :: t => if n =? 0 then l else dropN (N.pred n) t
  end.

Fixpoint codes (s : string) : list N :=
  match s with EmptyString => [] | String a t => N_of_ascii a :: codes t end.

Fixpoint list_eqb {A} (eqb : A -> A -> bool) (a b : list A) : bool :=
  match a, b with
  | [], [] => true
  | x :: a', y :: b' => eqb x y && list_eqb eqb a' b'
  | _, _ => false
  end.
Definition bytes_eqb := list_eqb N.eqb.

(* ------------------------------------------------------------------ the specification of a layout
   [pieces pl data]: consecutive pieces of pl bytes, the last possibly shorter, none for the
   empty blob.  Proof/C02.v shows it is the unique list of lists with these properties. *)
Fixpoint pieces_fuel (fuel : nat) (pl : N) (data : list N) : list (list N) :=
  match fuel with
  | O => []
  | S f => match data with
           | [] => []
           | _ => takeN pl data :: pieces_fuel f pl (dropN pl data)
           end
  end.
Definition pieces (pl : N) (data : list N) : list (list N) := pieces_fuel (length data) pl data.

(* ------------------------------------------------------------------ core/metainfo.go:197 calcPieceSumsFromBytes *)
Section Model.
Variable sum : list N -> N.        (* piece_hash.go:29 PieceSum = crc32.ChecksumIEEE;
                                      piece_hash.go:22 PieceHash: Sum32 of everything written *)
Variable sha1 : list N -> list N.  (* infohash.go:43 NewInfoHashFromBytes *)

(* metainfo.go:207-213  for offset := 0; offset < n; offset += pieceLength { end := offset+pieceLength;
   if end > n { end = n }; append(PieceSum(data[offset:end])) }.
   [rest] is data[offset:], carried along so that slicing is linear. *)
Fixpoint bytes_loop (fuel : nat) (pl n offset : Z) (rest : list N) : res (list N) :=
  if (offset <? n)%Z then
    match fuel with
    | O => Fuel
    | S f =>
        let e := (if (offset + pl >? n)%Z then n else offset + pl)%Z in      (* :208-211 *)
        match bytes_loop f pl n (offset + pl)%Z (dropN (Z.to_N pl) rest) with
        | Ok l => Ok (sum (takeN (Z.to_N (e - offset)) rest) :: l)            (* :212 *)
        | r => r
        end
    end
  else Ok [].

Definition calc_bytes (pl : Z) (data : list N) : res (Z * list N) :=
  if (pl <=? 0)%Z then Err                                                     (* :198 *)
  else let n := lenZ data in
       if (n =? 0)%Z then Ok (0%Z, [])                                          (* :202 *)
       else match bytes_loop (length data) pl n 0%Z data with
            | Ok s => Ok (n, s)
            | Err => Err
            | Fuel => Fuel
            end.

(* ------------------------------------------------------------------ the io.Reader handed to NewMetaInfo.
   A reader is the sequence of results its Read calls will deliver: successive chunks (a chunk
   larger than the caller's buffer is delivered in several calls, an empty chunk is a
   (0, nil) read), then io.EOF for ever, or a non-EOF error for ever when rd_fail. *)
Record reader := mkrd { rd_chunks : list (list N); rd_fail : bool }.
Inductive rerr := RNil | REOF | RFail.

Definition rd_read (m : N) (r : reader) : list N * rerr * reader :=
  match rd_chunks r with
  | [] => ([], (if rd_fail r then RFail else REOF), r)
  | c :: t => let left := dropN m c in
              (takeN m c, RNil, mkrd (match left with [] => t | _ => left :: t end) (rd_fail r))
  end.

(* io.Copy's loop over an io.LimitedReader (io.go: copyBuffer + LimitedReader.Read).
   [size] is the scratch buffer length chosen once by copyBuffer, [budget] is LimitedReader.N.
   Returns the bytes written to the hash, the error io.Copy returns, the reader afterwards. *)
Fixpoint copy_loop (fuel : nat) (size budget : N) (r : reader) : res (list N * rerr * reader) :=
  match fuel with
  | O => Fuel
  | S f =>
      if budget =? 0 then Ok ([], RNil, r)            (* LimitedReader: N <= 0 => EOF => Copy returns nil *)
      else let '(got, er, r') := rd_read (N.min size budget) r in
           match er with
           | RNil => match copy_loop f size (budget - lenN got) r' with
                     | Ok (w, e, r'') => Ok (got ++ w, e, r'')
                     | x => x
                     end
           | REOF => Ok (got, RNil, r')                (* Copy maps EOF to nil *)
           | RFail => Ok (got, RFail, r')
           end
  end.

Definition copy_bufsize : N := 32768.                 (* io.go copyBuffer: size := 32 * 1024 *)

(* io.CopyN(h, blob, n) *)
Definition copyN (fuel : nat) (n : N) (r : reader) : res (list N * rerr * reader) :=
  let size := if n <? copy_bufsize then (if n <? 1 then 1 else n) else copy_bufsize in
  match copy_loop fuel size n r with
  | Ok (w, e, r') =>
      Ok (w, (if lenN w =? n then RNil
              else match e with RNil => REOF | _ => e end), r')   (* written < n && err == nil => EOF *)
  | x => x
  end.

(* metainfo.go:144-159 the loop of calcPieceSums; returns (bytes seen, sums) *)
Fixpoint stream_loop (fuel cfuel : nat) (pl : N) (r : reader) : res (N * list N) :=
  match fuel with
  | O => Fuel
  | S f =>
      match copyN cfuel pl r with                                           (* :146 *)
      | Ok (w, e, r') =>
          match e with
          | RFail => Err                                                    (* :147 *)
          | _ =>
              let n := lenN w in
              if n =? 0 then Ok (0, [])                                     (* :151 *)
              else if n <? pl then Ok (n, [sum w])                          (* :154-158 *)
              else match stream_loop f cfuel pl r' with
                   | Ok (len, sums) => Ok (n + len, sum w :: sums)          (* :150,:155 *)
                   | x => x
                   end
          end
      | Err => Err
      | Fuel => Fuel
      end
  end.

(* number of Read calls a reader can answer before it is exhausted *)
Definition rd_measure (r : reader) : nat := length (concat (rd_chunks r)) + length (rd_chunks r).

Definition calc_stream (pl : Z) (r : reader) : res (Z * list N) :=
  if (pl <=? 0)%Z then Err                                                  (* :141 *)
  else match stream_loop (S (rd_measure r)) (S (S (rd_measure r))) (Z.to_N pl) r with
       | Ok (len, sums) => Ok (Z.of_N len, sums)
       | Err => Err
       | Fuel => Fuel
       end.

(* ------------------------------------------------------------------ info, bencoding, MetaInfo *)
(* metainfo.go:29.  i_enn: PieceSums is an empty but non-nil slice (only a foreign document
   with "PieceSums":[] produces it; both generators return nil for the empty blob); it is
   re-serialised as [] rather than null and bencoded identically. *)
Record info := mkinfo { i_pl : Z; i_sums : list N; i_name : list N; i_len : Z; i_enn : bool }.
Record metainfo := mkmi { mi_info : info; mi_ih : list N; mi_digest : list N }.    (* :47 *)

(* decimal printing through the standard library's Decimal (round trip proved there) *)
Fixpoint uint_codes (d : Decimal.uint) : list N :=
  match d with
  | Decimal.Nil => []
  | Decimal.D0 d => 48 :: uint_codes d | Decimal.D1 d => 49 :: uint_codes d
  | Decimal.D2 d => 50 :: uint_codes d | Decimal.D3 d => 51 :: uint_codes d
  | Decimal.D4 d => 52 :: uint_codes d | Decimal.D5 d => 53 :: uint_codes d
  | Decimal.D6 d => 54 :: uint_codes d | Decimal.D7 d => 55 :: uint_codes d
  | Decimal.D8 d => 56 :: uint_codes d | Decimal.D9 d => 57 :: uint_codes d
  end.
Definition print_N (n : N) : list N := uint_codes (N.to_uint n).
Definition print_Z (z : Z) : list N :=
  if (z <? 0)%Z then 45 :: print_N (Z.abs_N z) else print_N (Z.to_N z).

(* jackpal/bencode-go struct.go writeStruct: a dictionary of the exported fields sorted by
   name: Length, Name, PieceLength, PieceSums; integers "i%de", strings "%d:%s", slices l...e *)
Definition bencode_info (i : info) : list N :=
  codes "d6:Lengthi" ++ print_Z (i_len i) ++ codes "e4:Name" ++ print_N (lenN (i_name i)) ++ codes ":" ++ i_name i
  ++ codes "11:PieceLengthi" ++ print_Z (i_pl i) ++ codes "e9:PieceSumsl"
  ++ concat (map (fun s => codes "i" ++ print_N s ++ codes "e") (i_sums i)) ++ codes "ee".

Definition info_hash (i : info) : list N := sha1 (bencode_info i).          (* metainfo.go:38 *)

(* metainfo.go:180 assembleMetaInfo (d is the hex form of the digest) *)
Definition assemble (d : list N) (len : Z) (sums : list N) (pl : Z) : metainfo :=
  let i := mkinfo pl sums d len false in mkmi i (info_hash i) d.

Definition new_metainfo_bytes (d : list N) (data : list N) (pl : Z) : res metainfo :=   (* :171 *)
  match calc_bytes pl data with
  | Ok (len, sums) => Ok (assemble d len sums pl)
  | Err => Err | Fuel => Fuel
  end.
Definition new_metainfo_stream (d : list N) (r : reader) (pl : Z) : res metainfo :=     (* :55 *)
  match calc_stream pl r with
  | Ok (len, sums) => Ok (assemble d len sums pl)
  | Err => Err | Fuel => Fuel
  end.

(* int64 arithmetic wraps; it matters only for foreign documents with absurd numbers, the
   theorems show it never happens on generated metainfo *)
Definition wrap64 (z : Z) : Z := ((z + 9223372036854775808) mod 18446744073709551616 - 9223372036854775808)%Z.

(* what both constructors are meant to produce for a blob (specification) *)
Definition expected (d : list N) (data : list N) (pl : Z) : metainfo :=
  assemble d (lenZ data) (map sum (pieces (Z.to_N pl) data)) pl.

(* metainfo.go:91 GetPieceLength *)
Definition get_piece_length (mi : metainfo) (i : Z) : Z :=
  let n := lenZ (i_sums (mi_info mi)) in
  if ((i <? 0) || (i >=? n))%Z then 0%Z
  else if (i =? n - 1)%Z then wrap64 (i_len (mi_info mi) - wrap64 (i_pl (mi_info mi) * i))%Z   (* :97 *)
  else i_pl (mi_info mi).

(* ------------------------------------------------------------------ Serialize / DeserializeMetaInfo
   encoding/json on metaInfoJSON{Info info}: fields in declaration order, nil slice = null. *)
Fixpoint print_elems (l : list N) : list N :=
  match l with
  | [] => []
  | [x] => print_N x
  | x :: t => print_N x ++ 44 :: print_elems t
  end.
Definition print_sums (l : list N) (enn : bool) : list N :=
  match l with
  | [] => if enn then [91; 93] else codes "null"
  | _ => 91 :: print_elems l ++ [93]
  end.

Definition serialize_info (i : info) : list N :=                                   (* :114 *)
  codes "{""Info"":{""PieceLength"":" ++ print_Z (i_pl i) ++ codes ",""PieceSums"":" ++ print_sums (i_sums i) (i_enn i)
  ++ codes ",""Name"":""" ++ i_name i ++ codes """,""Length"":" ++ print_Z (i_len i) ++ codes "}}".
Definition serialize (mi : metainfo) : list N := serialize_info (mi_info mi).

(* A parser for exactly the language the printer produces (plus "[]", "-0"); encoding/json's
   leniency (white space, field order, case-insensitive keys, escapes, unknown fields) is not
   modelled: see notes/C02.md. *)
Fixpoint expect (lit s : list N) : option (list N) :=
  match lit, s with
  | [], _ => Some s
  | a :: l', b :: s' => if a =? b then expect l' s' else None
  | _ :: _, [] => None
  end.

Definition digit_cons (c : N) (d : Decimal.uint) : option Decimal.uint :=
  match c with
  | 48 => Some (Decimal.D0 d) | 49 => Some (Decimal.D1 d) | 50 => Some (Decimal.D2 d)
  | 51 => Some (Decimal.D3 d) | 52 => Some (Decimal.D4 d) | 53 => Some (Decimal.D5 d)
  | 54 => Some (Decimal.D6 d) | 55 => Some (Decimal.D7 d) | 56 => Some (Decimal.D8 d)
  | 57 => Some (Decimal.D9 d) | _ => None
  end.
Definition is_digit (c : N) : bool := (48 <=? c) && (c <=? 57).

Fixpoint read_uint (s : list N) : Decimal.uint * list N :=
  match s with
  | [] => (Decimal.Nil, [])
  | c :: t => if is_digit c
              then let '(d, r) := read_uint t in
                   match digit_cons c d with Some d' => (d', r) | None => (Decimal.Nil, s) end
              else (Decimal.Nil, s)
  end.

(* a JSON number without fraction/exponent: no leading zeros, at least one digit *)
Definition parse_nat (s : list N) : option (N * list N) :=
  let '(d, r) := read_uint s in
  let n := N.of_uint d in
  if Decimal.uint_beq (N.to_uint n) d then Some (n, r) else None.

Definition parse_int64 (s : list N) : option (Z * list N) :=
  if match s with c :: _ => c =? 45 | [] => false end
  then match parse_nat (tl s) with
       | Some (n, r) => if n <=? 9223372036854775808 then Some ((- Z.of_N n)%Z, r) else None
       | None => None
       end
  else match parse_nat s with
       | Some (n, r) => if n <? 9223372036854775808 then Some (Z.of_N n, r) else None
       | None => None
       end.

Definition parse_uint32 (s : list N) : option (N * list N) :=
  match parse_nat s with
  | Some (n, r) => if n <? 4294967296 then Some (n, r) else None
  | None => None
  end.

(* after '[' and a first element: (',' element)* ']' *)
Fixpoint parse_elems (fuel : nat) (s : list N) : option (list N * list N) :=
  match fuel with
  | O => None
  | S f =>
      match parse_uint32 s with
      | Some (n, r) =>
          match r with
          | c :: r' =>
              if c =? 44 then match parse_elems f r' with Some (l, r'') => Some (n :: l, r'') | None => None end
              else if c =? 93 then Some ([n], r')
              else None
          | [] => None
          end
      | None => None
      end
  end.

Definition parse_sums (s : list N) : option (list N * bool * list N) :=
  match expect (codes "null") s with
  | Some r => Some ([], false, r)
  | None =>
      match s with
      | c :: r =>
          if c =? 91 then
            if match r with c2 :: _ => c2 =? 93 | [] => false end then Some ([], true, tl r)
            else match parse_elems (length r) r with
                 | Some (l, r') => Some (l, false, r')
                 | None => None
                 end
          else None
      | [] => None
      end
  end.

(* string body up to the closing quote; escapes, control and non-ASCII bytes are outside the model *)
Fixpoint read_name (s : list N) : option (list N * list N) :=
  match s with
  | [] => None
  | c :: t => if c =? 34 then Some ([], s)
              else if (c =? 92) || (c <? 32) || (127 <? c) then None
              else match read_name t with Some (n, r) => Some (c :: n, r) | None => None end
  end.

Definition parse_info (s : list N) : option info :=
  match expect (codes "{""Info"":{""PieceLength"":") s with None => None | Some s1 =>
  match parse_int64 s1 with None => None | Some (pl, s2) =>
  match expect (codes ",""PieceSums"":") s2 with None => None | Some s3 =>
  match parse_sums s3 with None => None | Some (sums, enn, s4) =>
  match expect (codes ",""Name"":""") s4 with None => None | Some s5 =>
  match read_name s5 with None => None | Some (name, s6) =>
  match expect (codes """,""Length"":") s6 with None => None | Some s7 =>
  match parse_int64 s7 with None => None | Some (len, s8) =>
  match expect (codes "}}") s8 with
  | Some [] => Some (mkinfo pl sums name len enn)
  | _ => None
  end end end end end end end end end.

(* digest.go:146 ValidateSHA256: 64 characters accepted by hex.DecodeString *)
Definition is_hex_char (c : N) : bool :=
  ((48 <=? c) && (c <=? 57)) || ((97 <=? c) && (c <=? 102)) || ((65 <=? c) && (c <=? 70)).
Definition valid_name (s : list N) : bool := (lenN s =? 64) && forallb is_hex_char s.

Definition deserialize (raw : list N) : res metainfo :=                             (* metainfo.go:119 *)
  match parse_info raw with
  | None => Err                                                                    (* :121 *)
  | Some i => if valid_name (i_name i) then Ok (mkmi i (info_hash i) (i_name i))   (* :124-136 *)
              else Err                                                             (* :128 *)
  end.

(* ------------------------------------------------------------------ lib/metainfogen/config.go *)
Definition to_i64 (u : N) : Z :=                                                    (* int64(datasize.ByteSize) *)
  if u <? 9223372036854775808 then Z.of_N u else (Z.of_N u - 18446744073709551616)%Z.

Fixpoint insert_range (x : Z * Z) (l : list (Z * Z)) : list (Z * Z) :=
  match l with
  | [] => [x]
  | y :: t => if (fst x <? fst y)%Z then x :: l else y :: insert_range x t
  end.
Fixpoint sort_ranges (l : list (Z * Z)) : list (Z * Z) :=                            (* config.go:64 sort.Slice *)
  match l with [] => [] | x :: t => insert_range x (sort_ranges t) end.

(* config.go:51 newPieceLengthConfig; the table is the map's content in any order *)
Definition plconfig_new (tbl : list (N * N)) : option (list (Z * Z)) :=
  match tbl with
  | [] => None                                                                       (* :54 *)
  | _ => Some (sort_ranges (map (fun p => (to_i64 (fst p), to_i64 (snd p))) tbl))
  end.

Fixpoint plconfig_scan (rs : list (Z * Z)) (cur : Z) (size : Z) : Z :=             (* config.go:72-77 *)
  match rs with
  | [] => cur
  | r :: t => if (size <? fst r)%Z then cur else plconfig_scan t (snd r) size
  end.
Definition plconfig_get (rs : list (Z * Z)) (size : Z) : Z :=                       (* config.go:70 *)
  match rs with
  | [] => 0%Z   (* unreachable: newPieceLengthConfig rejects the empty table (Go would panic) *)
  | r0 :: _ => plconfig_scan rs (snd r0) size
  end.

(* specification of the lookup, independent of sorting: the piece length of the largest
   threshold not above size; of the smallest threshold when every threshold is above size *)
Fixpoint best_le (l : list (Z * Z)) (size : Z) (acc : option (Z * Z)) : option (Z * Z) :=
  match l with
  | [] => acc
  | x :: t => if (fst x <=? size)%Z
              then best_le t size (match acc with
                                   | Some a => if (fst a <? fst x)%Z then Some x else acc
                                   | None => Some x end)
              else best_le t size acc
  end.
Fixpoint min_key (l : list (Z * Z)) (acc : option (Z * Z)) : option (Z * Z) :=
  match l with
  | [] => acc
  | x :: t => min_key t (match acc with
                         | Some a => if (fst x <? fst a)%Z then Some x else acc
                         | None => Some x end)
  end.
Definition lookup_spec (l : list (Z * Z)) (size : Z) : option Z :=
  match best_le l size None with
  | Some x => Some (snd x)
  | None => match min_key l None with Some x => Some (snd x) | None => None end
  end.

(* ------------------------------------------------------------------ lib/metainfogen/generator.go:41 Generate
   followed by reading the metadata back (torrentmeta.go Serialize / Deserialize through the store) *)
Definition generate (tbl : list (N * N)) (d : list N) (r : reader) : res metainfo :=
  match plconfig_new tbl with
  | None => Err                                                                      (* generator.go:33 *)
  | Some rs =>
      let pl := plconfig_get rs (lenZ (concat (rd_chunks r))) in                    (* :50, info.Size() *)
      match new_metainfo_stream d r pl with                                         (* :51 *)
      | Ok mi => deserialize (serialize mi)                                         (* :55, torrentmeta.go:42,47 *)
      | x => x
      end
  end.

(* ------------------------------------------------------------------ observables *)
Record mobs := mkmobs {
  o_len : Z; o_pl : Z; o_sums : list N; o_name : list N; o_ih : list N;
  o_gpl : list Z;      (* GetPieceLength i for i = -1 .. NumPieces+1 *)
  o_ser : list N }.    (* Serialize() *)

Fixpoint zrange (from : Z) (count : nat) : list Z :=
  match count with O => [] | S c => from :: zrange (from + 1)%Z c end.

Definition observe (mi : metainfo) : mobs :=
  mkmobs (i_len (mi_info mi)) (i_pl (mi_info mi)) (i_sums (mi_info mi)) (mi_digest mi) (mi_ih mi)
         (map (get_piece_length mi) (zrange (-1)%Z (length (i_sums (mi_info mi)) + 3)))
         (serialize mi).

Definition observe_res (r : res metainfo) : option mobs :=
  match r with Ok mi => Some (observe mi) | _ => None end.

End Model.

Definition Z_list_eqb := list_eqb Z.eqb.
Definition mobs_eqb (a b : mobs) : bool :=
  Z.eqb (o_len a) (o_len b) && Z.eqb (o_pl a) (o_pl b) && bytes_eqb (o_sums a) (o_sums b)
  && bytes_eqb (o_name a) (o_name b) && bytes_eqb (o_ih a) (o_ih b)
  && Z_list_eqb (o_gpl a) (o_gpl b) && bytes_eqb (o_ser a) (o_ser b).
Definition omobs_eqb (a b : option mobs) : bool :=
  match a, b with
  | None, None => true
  | Some x, Some y => mobs_eqb x y
  | _, _ => false
  end.

(* ------------------------------------------------------------------ well-formed info (specification):
   int64 fields, uint32 sums, a name made of plain characters *)
Definition in_i64P (z : Z) : Prop := (-9223372036854775808 <= z < 9223372036854775808)%Z.
Definition sums_ok (l : list N) : Prop := Forall (fun x => x < 4294967296) l.
Definition name_char_ok (c : N) : Prop := c <> 34 /\ c <> 92 /\ 32 <= c /\ c <= 127.
Record wf_info (i : info) : Prop := {
  wf_pl : in_i64P (i_pl i);
  wf_len : in_i64P (i_len i);
  wf_sums : sums_ok (i_sums i);
  wf_name : Forall name_char_ok (i_name i);
  wf_enn : i_enn i = true -> i_sums i = [] }.

(* ------------------------------------------------------------------ CRC-32 (IEEE 802.3), bit by bit
   hash/crc32: crc = ^0; per byte: crc ^= b; 8 x (crc = crc>>1 ^ (poly if crc&1)); result ^crc *)
Definition crc_poly : N := 0xEDB88320.
Definition crc_bit (c : N) : N :=
  if N.testbit c 0 then N.lxor (N.shiftr c 1) crc_poly else N.shiftr c 1.
Definition crc_byte (c b : N) : N :=
  crc_bit (crc_bit (crc_bit (crc_bit (crc_bit (crc_bit (crc_bit (crc_bit (N.lxor c b)))))))).
Definition crc_update (c : N) (l : list N) : N := fold_left crc_byte l c.
Definition crc32 (l : list N) : N := N.land (N.lxor (crc_update 0xFFFFFFFF l) 0xFFFFFFFF) 0xFFFFFFFF.  (* uint32 *)

(* ------------------------------------------------------------------ SHA-1 (FIPS 180-4) on byte lists *)
Definition w32 (x : N) : N := N.land x 0xFFFFFFFF.
Definition rotl (k x : N) : N := w32 (N.lor (N.shiftl x k) (N.shiftr x (32 - k))).
Definition be32 (a b c d : N) : N := N.lor (N.shiftl a 24) (N.lor (N.shiftl b 16) (N.lor (N.shiftl c 8) d)).
Definition byte_of (x sh : N) : N := N.land (N.shiftr x sh) 255.
Definition word_bytes (x : N) : list N := [byte_of x 24; byte_of x 16; byte_of x 8; byte_of x 0].

Definition sha1_pad (m : list N) : list N :=
  let l := lenN m in
  let k := (119 - l mod 64) mod 64 in
  let bits := 8 * l in
  m ++ 128 :: repeat 0 (N.to_nat k)
    ++ [byte_of bits 56; byte_of bits 48; byte_of bits 40; byte_of bits 32;
        byte_of bits 24; byte_of bits 16; byte_of bits 8; byte_of bits 0].

(* big-endian words of a block, most recent first (w15 .. w0) *)
Fixpoint words_rev (l : list N) (acc : list N) : list N :=
  match l with
  | a :: b :: c :: d :: t => words_rev t (be32 a b c d :: acc)
  | _ => acc
  end.
Definition sched_step (w : list N) : list N :=
  rotl 1 (N.lxor (N.lxor (nth 2 w 0) (nth 7 w 0)) (N.lxor (nth 13 w 0) (nth 15 w 0))) :: w.
Definition schedule (block : list N) : list N := rev (Nat.iter 64 sched_step (words_rev block [])).

Definition sha1_round (t : N) (st : N * N * N * N * N) (w : N) : N * N * N * N * N :=
  let '(a, b, c, d, e) := st in
  let '(f, k) :=
    if t <? 20 then (N.lor (N.land b c) (N.land (N.lxor b 0xFFFFFFFF) d), 0x5A827999)
    else if t <? 40 then (N.lxor (N.lxor b c) d, 0x6ED9EBA1)
    else if t <? 60 then (N.lor (N.lor (N.land b c) (N.land b d)) (N.land c d), 0x8F1BBCDC)
    else (N.lxor (N.lxor b c) d, 0xCA62C1D6) in
  (w32 (rotl 5 a + f + e + k + w), a, rotl 30 b, c, d).

Fixpoint sha1_rounds (t : N) (st : N * N * N * N * N) (ws : list N) : N * N * N * N * N :=
  match ws with
  | [] => st
  | w :: r => sha1_rounds (t + 1) (sha1_round t st w) r
  end.

Definition sha1_block (h : N * N * N * N * N) (block : list N) : N * N * N * N * N :=
  let '(h0, h1, h2, h3, h4) := h in
  let '(a, b, c, d, e) := sha1_rounds 0 h (schedule block) in
  (w32 (h0 + a), w32 (h1 + b), w32 (h2 + c), w32 (h3 + d), w32 (h4 + e)).

Fixpoint sha1_blocks (fuel : nat) (h : N * N * N * N * N) (m : list N) : N * N * N * N * N :=
  match fuel with
  | O => h
  | S f => match m with
           | [] => h
           | _ => sha1_blocks f (sha1_block h (takeN 64 m)) (dropN 64 m)
           end
  end.

Definition sha1_bytes (m : list N) : list N :=
  let p := sha1_pad m in
  let '(h0, h1, h2, h3, h4) :=
    sha1_blocks (length p) (0x67452301, 0xEFCDAB89, 0x98BADCFE, 0x10325476, 0xC3D2E1F0) p in
  word_bytes h0 ++ word_bytes h1 ++ word_bytes h2 ++ word_bytes h3 ++ word_bytes h4.

(* ------------------------------------------------------------------ cases and the property oracle *)
Definition hexval (c : N) : N :=
  if c <? 58 then c - 48 else if c <? 71 then c - 55 else c - 87.
Fixpoint unhex (s : string) : list N :=
  match s with
  | String a (String b t) => (16 * hexval (N_of_ascii a) + hexval (N_of_ascii b)) :: unhex t
  | _ => []
  end.

(* what the harness did *)
Inductive cin :=
| CGen (name : list N) (pl : Z) (chunks : list (list N)) (fail : bool)
    (* NewMetaInfo(d, reader over chunks, pl); NewMetaInfoFromBytes(d, concat chunks, pl);
       DeserializeMetaInfo(Serialize()) of the latter *)
| CParse (raw : list N)                                       (* DeserializeMetaInfo(raw) *)
| CTable (tbl : list (N * N)) (sizes : list Z)                (* metainfogen.New(tbl).GetPieceLength(size) *)
| CGenerate (tbl : list (N * N)) (name : list N) (data : list N).
    (* blob in a CAStore, Generator.Generate, GetCacheFileMetadata(TorrentMeta) *)

(* an answer relative to a reference answer (keeps cases files small): error, all projected
   observables identical to the reference, or different (then given in full) *)
Inductive sobs := SErr | SSame | SDiff (m : mobs).
Definition rel_obs (o ref : option mobs) : sobs :=
  match o, ref with
  | None, _ => SErr
  | Some m, Some b => if mobs_eqb m b then SSame else SDiff m
  | Some m, None => SDiff m
  end.
Definition sobs_eqb (a b : sobs) : bool :=
  match a, b with
  | SErr, SErr => true
  | SSame, SSame => true
  | SDiff m, SDiff m' => mobs_eqb m m'
  | _, _ => false
  end.

(* what the implementation answered; None = error.  In OGen the stream variant and the
   serialise/parse round trip are given relative to the byte-slice variant. *)
Inductive cobs :=
| OGen (o_stream : sobs) (o_bytes : option mobs) (o_rt : sobs)
| OParse (o : option mobs)
| OTable (o : option (list Z))
| OGenerate (o : option mobs)
| OBad       (* the harness could not run the case (marked inconclusive, never evaluated) *)
| OPanic.    (* the code under test panicked: never produced by the model, never accepted by the oracle *)

Definition olist_eqb (a b : option (list Z)) : bool :=
  match a, b with
  | None, None => true
  | Some p, Some q => Z_list_eqb p q
  | _, _ => false
  end.
Definition cobs_eqb (a b : cobs) : bool :=
  match a, b with
  | OGen a1 a2 a3, OGen b1 b2 b3 => sobs_eqb a1 b1 && omobs_eqb a2 b2 && sobs_eqb a3 b3
  | OParse p, OParse q => omobs_eqb p q
  | OTable p, OTable q => olist_eqb p q
  | OGenerate p, OGenerate q => omobs_eqb p q
  | _, _ => false
  end.

Definition conv_tbl (tbl : list (N * N)) : list (Z * Z) :=
  map (fun p => (to_i64 (fst p), to_i64 (snd p))) tbl.

(* a Go map has distinct keys; the harness sends each key once *)
Fixpoint nodupb (l : list Z) : bool :=
  match l with [] => true | x :: t => negb (existsb (Z.eqb x) t) && nodupb t end.
Definition table_ok (tbl : list (N * N)) : bool :=
  nodupb (map fst (conv_tbl tbl))
  && forallb (fun p => (fst p <? 18446744073709551616) && (snd p <? 18446744073709551616)) tbl.   (* uint64 *)

Section Oracle.
Variable sum : list N -> N.
Variable sha1 : list N -> list N.

(* what the model answers *)
Definition case_model (c : cin) : cobs :=
  match c with
  | CGen name pl chunks fail =>
      let b := new_metainfo_bytes sum sha1 name (concat chunks) pl in
      OGen (rel_obs (observe_res (new_metainfo_stream sum sha1 name (mkrd chunks fail) pl)) (observe_res b))
           (observe_res b)
           (rel_obs (match b with Ok mi => observe_res (deserialize sha1 (serialize mi)) | _ => None end)
                    (observe_res b))
  | CParse raw => OParse (observe_res (deserialize sha1 raw))
  | CTable tbl sizes =>
      OTable (match plconfig_new tbl with
              | None => None
              | Some rs => Some (map (plconfig_get rs) sizes)
              end)
  | CGenerate tbl name data => OGenerate (observe_res (generate sum sha1 tbl name (mkrd [data] false)))
  end.

Definition in_i64 (z : Z) : bool := ((-9223372036854775808 <=? z) && (z <? 9223372036854775808))%Z.

(* the layout the statement prescribes, as observables *)
Definition spec_layout_ok (name : list N) (pl : Z) (data : list N) (m : mobs) : bool :=
  let ps := pieces (Z.to_N pl) data in
  Z.eqb (o_len m) (lenZ data) && Z.eqb (o_pl m) pl
  && bytes_eqb (o_sums m) (map sum ps)
  && bytes_eqb (o_name m) name
  && Z_list_eqb (o_gpl m) (0%Z :: map (fun p => lenZ p) ps ++ [0%Z; 0%Z]).

(* the property evaluated on the implementation's observables of one case *)
Definition C02_check (c : cin) (o : cobs) : bool :=
  match c, o with
  | CGen name pl chunks fail, OGen os ob ort =>
      let data := concat chunks in
      if negb (in_i64 pl) || negb (lenZ data <? 9223372036854775808)%Z then true
      else if (pl <=? 0)%Z then
        match os, ob with SErr, None => true | _, _ => false end      (* non-positive piece length rejected *)
      else
        match ob with
        | None => false
        | Some b =>
            spec_layout_ok name pl data b
            && (if fail then match os with SErr => true | _ => false end   (* no metainfo of a truncated blob *)
                else match os with SSame => true | _ => false end)   (* stream = buffer *)
            && (if valid_name name
                then match ort with SSame => true | _ => false end  (* round trip preserves info
                       hash, digest, layout (and the serialised form) *)
                else true)
        end
  | CParse _, OParse op =>
      (* foreign input: the statement only asks that what was parsed survives serialising and
         parsing again (info hash, digest, layout); evaluated with the model's parser on the
         implementation's own Serialize() output *)
      match op with
      | None => true
      | Some m => match observe_res (deserialize sha1 (o_ser m)) with
                  | Some m' => mobs_eqb m' m
                  | None => false
                  end
      end
  | CTable tbl sizes, OTable ot =>
      if negb (table_ok tbl) then true else
      match tbl, ot with
      | [], None => true
      | [], Some _ => false
      | _, None => false
      | _, Some pls =>
          list_eqb (fun a b => match a, b with Some z, Some w => Z.eqb z w | _, _ => false end)
                   (map (lookup_spec (conv_tbl tbl)) sizes) (map Some pls)
      end
  | CGenerate tbl name data, OGenerate og =>
      if negb (lenZ data <? 9223372036854775808)%Z || negb (table_ok tbl) then true else
      match lookup_spec (conv_tbl tbl) (lenZ data) with
      | None => match og with None => true | Some _ => false end
      | Some pl =>
          if (pl <=? 0)%Z then match og with None => true | Some _ => false end
          else if valid_name name
               then match og with Some m => spec_layout_ok name pl data m | None => false end
               else true
      end
  | _, _ => false
  end.
End Oracle.

(* a digest name used by the non-vacuity examples: sha256("hello") *)
Definition ex_name : list N := codes "2cf24dba5fb0a30e26e83b2ac5b9e29e1b161e5c1fa7425e73043362938b9824".
