(* Shared model of lib/torrent/storage/agentstorage (Torrent, piece status machine, restorePieces)
   on a CADownloadStore.  Executable definitions only; proofs live in Proof/AgentTorrent.v.
   Owner: C03.  Imported read-only by C04 and C19.

   Concurrency: `tstep` is ONE atomic step of one WritePiece caller.  The atomic steps are the
   lock regions / atomic operations / file-store calls of torrent.go:203-250 in program order
   (see `pc`).  `sys_step S k` lets caller k take its next step; a schedule is a list of caller
   ids, so "all interleavings" = all schedules (lists of nat). *)
From Coq Require Import List NArith ZArith Bool Arith.
Import ListNotations.

(* ---- pieces.go:32-38 *)
Inductive pstatus := Empty | Complete | Dirty.

Definition pstatus_eqb (a b : pstatus) : bool :=
  match a, b with
  | Empty, Empty | Complete, Complete | Dirty, Dirty => true
  | _, _ => false
  end.

(* byte value of a status (pieces.go: iota) *)
Definition status_byte (p : pstatus) : N :=
  match p with Empty => 0 | Complete => 1 | Dirty => 2 end%N.

(* ---- metainfo (core/metainfo.go): piece length, blob length, piece sums *)
Record cfg := mkcfg { c_pl : nat; c_len : nat; c_psums : list N }.

Definition npieces (c : cfg) : nat := length (c_psums c).              (* metainfo.go:79 *)

(* metainfo.go:91 GetPieceLength *)
Definition plen (c : cfg) (i : nat) : nat :=
  if Nat.ltb i (npieces c)
  then if Nat.eqb (S i) (npieces c) then c_len c - c_pl c * i else c_pl c
  else 0.

Definition poff (c : cfg) (i : nat) : nat := c_pl c * i.                (* torrent.go:294 *)
Definition psum (c : cfg) (i : nat) : N := nth i (c_psums c) 0%N.       (* metainfo.go:103 *)

(* the bytes of piece i inside a file *)
Definition region (c : cfg) (f : list N) (i : nat) : list N :=
  firstn (plen c i) (skipn (poff c i) f).

(* number of pieces of a blob of length L: calcPieceSums, metainfo.go:140 *)
Definition count_pieces (pl L : nat) : nat :=
  match pl with 0 => 0 | _ => (L + pl - 1) / pl end.

(* a metainfo as core.NewMetaInfo builds it: positive piece length, ceil(L/pl) piece sums *)
Definition wf_cfg (c : cfg) : bool :=
  Nat.ltb 0 (c_pl c) && Nat.eqb (npieces c) (count_pieces (c_pl c) (c_len c)).

(* ---- generic list helpers *)
Fixpoint upd {A} (i : nat) (v : A) (l : list A) : list A :=
  match l, i with
  | [], _ => []
  | _ :: t, 0 => v :: t
  | x :: t, S j => x :: upd j v t
  end.

(* pwrite(2): bytes d at offset off; a write past EOF zero-fills the gap and extends the file *)
Definition pwrite (f : list N) (off : nat) (d : list N) : list N :=
  firstn off f ++ repeat 0%N (off - length f) ++ d ++ skipn (off + length d) f.

Fixpoint count_st (p : pstatus) (l : list pstatus) : nat :=
  match l with
  | [] => 0
  | x :: t => (if pstatus_eqb x p then 1 else 0) + count_st p t
  end.

(* ---- shared state of one Torrent + its file in the CADownloadStore *)
Record tstate := mkts {
  status    : list pstatus;   (* Torrent.pieces[i].status *)
  file      : list N;         (* the data file (download dir, later the same inode in the cache dir) *)
  sidecar   : list N;         (* `_status` metadata bytes on disk *)
  ncomp     : nat;            (* Torrent.numComplete *)
  committed : bool;           (* Torrent.committed *)
  incache   : bool            (* the file store entry is in cache state *)
}.

Definition set_status s v := mkts v (file s) (sidecar s) (ncomp s) (committed s) (incache s).
Definition set_file s v := mkts (status s) v (sidecar s) (ncomp s) (committed s) (incache s).
Definition set_sidecar s v := mkts (status s) (file s) v (ncomp s) (committed s) (incache s).
Definition set_ncomp s v := mkts (status s) (file s) (sidecar s) v (committed s) (incache s).
Definition set_committed s v := mkts (status s) (file s) (sidecar s) (ncomp s) v (incache s).
Definition set_incache s v := mkts (status s) (file s) (sidecar s) (ncomp s) (committed s) v.

Definition st_at (s : tstate) (i : nat) : pstatus := nth i (status s) Empty.

(* ---- NewTorrent (torrent.go:61) + restorePieces (pieces.go:135) ----
   [sc] = the `_status` sidecar found on disk (None: not yet written => GetOrSetMetadata writes
   n zero bytes); [f] = the data file; [cached] = the file is already in cache state. *)
Definition deser_status (b : N) : pstatus :=                            (* pieces.go:71-82 *)
  if N.eqb b 1 then Complete else Empty.

Definition new_torrent (c : cfg) (f : list N) (sc : option (list N)) (cached : bool) : tstate :=
  if cached
  then (* pieces.go:144-150: InCacheError => every piece complete; torrent.go:68-72: Move gives
          ErrExist, ignored; committed *)
    mkts (repeat Complete (npieces c)) f
         (match sc with Some b => b | None => [] end) (npieces c) true true
  else
    let bytes := match sc with Some b => b | None => repeat 0%N (npieces c) end in
    let st := map deser_status bytes in       (* md.pieces: as long as the bytes, NOT numPieces *)
    let k := count_st Complete st in
    let all := Nat.eqb k (length st) in       (* torrent.go:68 *)
    mkts st f bytes k all all.

(* a fresh download: CreateDownloadFile (zero-filled, length = blob length), no sidecar *)
Definition init_fresh (c : cfg) : tstate :=
  new_torrent c (repeat 0%N (c_len c)) None false.

(* ---- one WritePiece call ---- *)
(* the storage.PieceReader handed to WritePiece: the index, what Length() answers, the byte
   chunks successive Read calls deliver, and the value h.Sum32() has after streaming them
   (an oracle: the theorems assume it is the checksum of the streamed bytes) *)
Record winput := mkw { w_idx : Z; w_decl : Z; w_chunks : list (list N); w_hsum : N }.

Definition payload (w : winput) : list N := concat (w_chunks w).

Inductive result := ROk | RBadIndex | RBadLength | RComplete | RConflict | RWriteErr | RMoveErr.

(* program counter = the next atomic step of the caller *)
Inductive pc :=
| PStart                                        (* torrent.go:204-211 getPiece + length test (no shared state) *)
| PChecked (i : nat)                            (* :214 piece.complete()   [RLock] *)
| PNotComplete (i : nat)                        (* :217 piece.dirty()      [RLock] *)
| PNotDirty (i : nat)                           (* :221 piece.tryMarkDirty [Lock]  *)
| POwn (i : nat)                                (* :177 GetDownloadFileReadWriter [file-store entry lock] *)
| PWriting (i : nat) (pos : nat) (rest : list (list N))
                                                (* :189 io.Copy: one write(2) per chunk; at EOF :192 sum test *)
| PSummed (i : nat)                             (* :159 SetMetadataAt(_status, [1], i) [entry lock] *)
| PSidecar (i : nat)                            (* :170 pieces[i].markComplete() [Lock] *)
| PMarked                                       (* :171 numComplete.Inc() [atomic] *)
| PCounted                                      (* :238 numComplete.Load() == len(pieces) [atomic] *)
| PMove                                         (* :242 MoveDownloadFileToCache [entry lock] *)
| PStore                                        (* :246 committed.Store(true) [atomic] *)
| PFailed (i : nat)                             (* :234 piece.markEmpty() [Lock] *)
| PDone (r : result).

Definition tstep (c : cfg) (s : tstate) (w : winput) (p : pc) : tstate * pc :=
  match p with
  | PStart =>
      (* getPiece bounds the index by len(t.pieces); `pi < 0` is the guard of C14's fix (the
         pinned code indexes pieces[-1] and panics: see notes/C03.md) *)
      if (w_idx w <? 0)%Z || (Z.of_nat (length (status s)) <=? w_idx w)%Z then (s, PDone RBadIndex)
      else let i := Z.to_nat (w_idx w) in
           if (w_decl w =? Z.of_nat (plen c i))%Z then (s, PChecked i) else (s, PDone RBadLength)
  | PChecked i =>
      if pstatus_eqb (st_at s i) Complete then (s, PDone RComplete) else (s, PNotComplete i)
  | PNotComplete i =>
      if pstatus_eqb (st_at s i) Dirty then (s, PDone RConflict) else (s, PNotDirty i)
  | PNotDirty i =>                                                     (* pieces.go:101-116 *)
      match st_at s i with
      | Empty => (set_status s (upd i Dirty (status s)), POwn i)
      | Dirty => (s, PDone RConflict)
      | Complete => (s, PDone RComplete)
      end
  | POwn i =>
      (* the op accepts only the download state (ca_download_store.go:85) *)
      if incache s then (s, PFailed i) else (s, PWriting i (poff c i) (w_chunks w))
  | PWriting i pos (ch :: rest) =>
      (set_file s (pwrite (file s) pos ch), PWriting i (pos + length ch) rest)
  | PWriting i pos [] =>
      if N.eqb (w_hsum w) (psum c i) then (s, PSummed i) else (s, PFailed i)
  | PSummed i =>
      (* Download() scope (ca_download_store.go:145); file_entry.go:522-545: ReadAt of one byte
         at offset i fails on a sidecar shorter than i+1 *)
      if incache s then (s, PFailed i)
      else if Nat.ltb i (length (sidecar s))
           then (set_sidecar s (upd i 1%N (sidecar s)), PSidecar i)
           else (s, PFailed i)
  | PSidecar i => (set_status s (upd i Complete (status s)), PMarked)
  | PMarked => (set_ncomp s (S (ncomp s)), PCounted)
  | PCounted => if Nat.eqb (ncomp s) (length (status s)) then (s, PMove) else (s, PDone ROk)
  | PMove =>
      (* file_op.go:284-316: already in the target state => os.ErrExist (ignored, torrent.go:243);
         otherwise the entry (data + movable metadata) moves to the cache state *)
      (set_incache s true, PStore)
  | PStore => (set_committed s true, PDone ROk)
  | PFailed i => (set_status s (upd i Empty (status s)), PDone RWriteErr)
  | PDone r => (s, PDone r)
  end.

(* ---- the system: shared state + any number of callers ---- *)
Record thread := mkth { t_in : winput; t_pc : pc }.
Record sys := mksys { s_st : tstate; s_ths : list thread }.

Definition sys_step (c : cfg) (S : sys) (k : nat) : sys :=
  match nth_error (s_ths S) k with
  | None => S
  | Some th =>
      let '(s', p') := tstep c (s_st S) (t_in th) (t_pc th) in
      mksys s' (upd k (mkth (t_in th) p') (s_ths S))
  end.

Definition run (c : cfg) (S : sys) (sched : list nat) : sys := fold_left (sys_step c) sched S.

Definition start (s : tstate) (ws : list winput) : sys :=
  mksys s (map (fun w => mkth w PStart) ws).

Definition thread_done (t : thread) : bool := match t_pc t with PDone _ => true | _ => false end.
Definition quiescent (S : sys) : bool := forallb thread_done (s_ths S).
(* nobody is inside WritePiece (callers have returned or not yet called) *)
Definition thread_idle (t : thread) : bool := match t_pc t with PStart | PDone _ => true | _ => false end.
Definition idle (S : sys) : bool := forallb thread_idle (s_ths S).

(* ---- observers (all read-only) ---- *)
Definition bitfield (s : tstate) : list bool :=                        (* torrent.go:133 *)
  map (fun p => pstatus_eqb p Complete) (status s).
Definition bytes_downloaded (c : cfg) (s : tstate) : nat :=            (* torrent.go:127 *)
  Nat.min (ncomp s * c_pl c) (c_len c).
Definition is_complete (s : tstate) : bool := committed s.             (* torrent.go:121 *)

(* GetPieceReader (torrent.go:261) + piecereader.FileReader: the bytes a peer is served *)
Definition get_piece (c : cfg) (s : tstate) (i : nat) : option (list N) :=
  if Nat.ltb i (length (status s)) && pstatus_eqb (st_at s i) Complete
  then Some (region c (file s) i) else None.

(* CADownloadStore.Cache().GetFileReader: readable only in cache state *)
Definition cache_bytes (s : tstate) : option (list N) :=
  if incache s then Some (file s) else None.

(* which piece a caller currently holds dirty *)
Definition owner (p : pc) : option nat :=
  match p with
  | POwn i | PWriting i _ _ | PSummed i | PSidecar i | PFailed i => Some i
  | _ => None
  end.
