(* Model of lib/backend/namepath/pather.go (the three Pather schemes) with the two proposed fixes
   applied (fixes/C36_quote_root.patch, fixes/C36_identity_clean_root.patch); the pre-fix
   behaviour is kept as the *_prefix / *_unquoted mutants below.
   Executable definitions only; proofs live in Proof/C36.v.
   The string literals of pather.go come from Gen/C36_consts.v (regenerated from the source on
   every run): the extractors are obtained by COMPILING the extracted pattern with the small
   regular-expression engine below (leftmost-first backtracking semantics of Go's regexp for the
   subset: literal bytes, `\` + punctuation, `.`, `x+`, non-nested capture groups). *)
From Coq Require Import List NArith Bool.
From K.Model Require Export PathLib.
From K.Gen Require Import C36_consts.
Import ListNotations.
Local Open Scope N_scope.

(* ------------------------------------------------------------------ regexp subset *)

(* regexp.go:special — the bytes QuoteMeta escapes:  \.+*?()|[]{}^$  *)
Definition special (c : N) : bool :=
  existsb (N.eqb c) [92; 46; 43; 42; 63; 40; 41; 124; 91; 93; 123; 125; 94; 36].

(* regexp.QuoteMeta *)
Definition quote_meta (s : str) : str :=
  flat_map (fun c => if special c then [92; c] else [c]) s.

Inductive tok := TChr (c : N) | TAny | TPlus | TOpen | TClose | TBad.

Fixpoint tokenize (s : str) : list tok :=
  match s with
  | [] => []
  | c :: t =>
      if c =? 92 then                                   (* backslash *)
        match t with
        | e :: t' => (if special e then TChr e else TBad) :: tokenize t'
        | [] => [TBad]
        end
      else if c =? 46 then TAny :: tokenize t           (* . *)
      else if c =? 43 then TPlus :: tokenize t          (* + *)
      else if c =? 40 then TOpen :: tokenize t          (* ( *)
      else if c =? 41 then TClose :: tokenize t         (* ) *)
      else if special c then TBad :: tokenize t         (* outside the modelled subset *)
      else TChr c :: tokenize t
  end.

Inductive atom := AChr (c : N) | AAny.
Inductive item := IOne (a : atom) | IPlus (a : atom).
Inductive seg := SItem (i : item) | SGroup (l : list item).

(* One token per step; `+` rewrites the item just read (so "a++", "+a", "(+", ")+" are rejected:
   the first three are compile errors in Go too, the last is outside the subset). *)
Fixpoint parse_go (grp : option (list item)) (acc : list seg) (ts : list tok) : option (list seg) :=
  match ts with
  | [] => match grp with None => Some (rev acc) | Some _ => None end
  | t :: ts' =>
      match t with
      | TChr c =>
          match grp with
          | None => parse_go None (SItem (IOne (AChr c)) :: acc) ts'
          | Some l => parse_go (Some (IOne (AChr c) :: l)) acc ts'
          end
      | TAny =>
          match grp with
          | None => parse_go None (SItem (IOne AAny) :: acc) ts'
          | Some l => parse_go (Some (IOne AAny :: l)) acc ts'
          end
      | TPlus =>
          match grp with
          | Some (IOne a :: l) => parse_go (Some (IPlus a :: l)) acc ts'
          | Some _ => None
          | None => match acc with
                    | SItem (IOne a) :: acc' => parse_go None (SItem (IPlus a) :: acc') ts'
                    | _ => None
                    end
          end
      | TOpen => match grp with None => parse_go (Some []) acc ts' | Some _ => None end
      | TClose => match grp with Some l => parse_go None (SGroup (rev l) :: acc) ts' | None => None end
      | TBad => None
      end
  end.

(* regexp.Compile on the subset; None = not compilable (MustCompile panics) / outside the subset *)
Definition compile (pat : str) : option (list seg) := parse_go None [] (tokenize pat).

(* `.` does not match newline (Go default flags) *)
Definition atom_ok (a : atom) (c : N) : bool :=
  match a with AChr x => c =? x | AAny => negb (c =? 10) end.

Section Match.
  Context {R : Type}.
  (* x+ : greedy — first try to take more, then hand over to the continuation *)
  Fixpoint m_plus (a : atom) (s : str) (k : str -> option R) : option R :=
    match s with
    | [] => None
    | c :: s' =>
        if atom_ok a c then
          match m_plus a s' k with
          | Some r => Some r
          | None => k s'
          end
        else None
    end.

  Fixpoint m_items (l : list item) (s : str) (k : str -> option R) : option R :=
    match l with
    | [] => k s
    | IOne a :: l' =>
        match s with
        | c :: s' => if atom_ok a c then m_items l' s' k else None
        | [] => None
        end
    | IPlus a :: l' => m_plus a s (fun s1 => m_items l' s1 k)
    end.
End Match.

(* match the whole pattern at the beginning of s; result: captures (in order) and the unmatched rest *)
Fixpoint m_segs (r : list seg) (s : str) (caps : list str) : option (list str * str) :=
  match r with
  | [] => Some (rev caps, s)
  | SItem i :: r' => m_items [i] s (fun s1 => m_segs r' s1 caps)
  | SGroup l :: r' =>
      m_items l s (fun s1 => m_segs r' s1 (firstn (length s - length s1) s :: caps))
  end.

(* Regexp.FindStringSubmatch: leftmost match; (whole match, captures) *)
Fixpoint find_from (r : list seg) (s : str) : option (str * list str) :=
  match m_segs r s [] with
  | Some (caps, rest) => Some (firstn (length s - length rest) s, caps)
  | None => match s with [] => None | _ :: s' => find_from r s' end
  end.

Inductive rxres := RxPanic | RxNone | RxSome (whole : str) (caps : list str).

Definition rx_find (pat input : str) : rxres :=
  match compile pat with
  | None => RxPanic
  | Some r => match find_from r input with
              | None => RxNone
              | Some (w, caps) => RxSome w caps
              end
  end.

(* the shapes the two patterns of pather.go compile to (Properties: C36_tag_pattern, C36_blob_pattern) *)
Definition lits (l : str) : list seg := map (fun c => SItem (IOne (AChr c))) l.
(*  "/(.+)/" mid "/(.+)/" end  *)
Definition tag_shape (mid end_ : str) : list seg :=
  SItem (IOne (AChr slash)) :: SGroup [IPlus AAny] ::
  lits (slash :: mid ++ [slash]) ++ SGroup [IPlus AAny] :: lits (slash :: end_).
(*  "/" alg "/../(.+)/" end  *)
Definition blob_shape (alg end_ : str) : list seg :=
  lits (slash :: alg ++ [slash]) ++
  SItem (IOne AAny) :: SItem (IOne AAny) :: SItem (IOne (AChr slash)) :: SGroup [IPlus AAny] :: lits (slash :: end_).

(* fmt.Sprintf restricted to %s verbs *)
Fixpoint sprintf (f : str) (args : list str) : str :=
  match f with
  | 37 :: ((115 :: f') as f1) =>
      match args with
      | a :: args' => a ++ sprintf f' args'
      | [] => 37 :: sprintf f1 args
      end
  | c :: f' => c :: sprintf f' args
  | [] => []
  end.

(* ------------------------------------------------------------------ pather.go *)

Inductive scheme := STag | SBlob | SIdent.
Inductive res := Ok (s : str) | Err | Panic.

(* pather.go:65, :104, :133 *)
Definition base_path (sch : scheme) (root : str) : str :=
  match sch with
  | STag => join [root; tag_base_lit]
  | SBlob => join [root; blob_base_lit]
  | SIdent => root
  end.

(* pather.go:70-84, :110-115, :138-140 *)
Definition blob_path (sch : scheme) (root name : str) : res :=
  match sch with
  | STag =>
      match tag_sep_lit with
      | [sep] =>
          match split_on sep name with
          | [repo; tag] =>
              if is_nil repo then Err
              else if is_nil tag then Err
              else Ok (join [base_path STag root; repo; tag_mid_lit; tag; tag_end_lit])
          | _ => Err
          end
      | _ => Panic   (* separator literal outside the model *)
      end
  | SBlob =>
      if Nat.leb (length name) 2 then Err
      else Ok (join [base_path SBlob root; blob_alg_lit; firstn 2 name; name; blob_end_lit])
  | SIdent => Ok (join [root; name])
  end.

(* the shared shape of the two regexp extractors: FindStringSubmatch, then len(matches) test *)
Definition rx_extract (pat : str) (ngroups : nat) (bp : str) (k : list str -> str) : res :=
  match compile pat with
  | None => Panic
  | Some r =>
      match find_from r bp with
      | Some (_, caps) => if Nat.eqb (length caps) ngroups then Ok (k caps) else Err
      | None => Err
      end
  end.

(* pather.go:87-96 with QuoteMeta (fix) *)
Definition name_from_path_tag (quote : bool) (root bp : str) : res :=
  let b := base_path STag root in
  rx_extract ((if quote then quote_meta b else b) ++ tag_re_lit) 2 bp (fun caps => sprintf tag_fmt_lit caps).

(* pather.go:118-125 with QuoteMeta (fix) *)
Definition name_from_path_blob (quote : bool) (root bp : str) : res :=
  let b := base_path SBlob root in
  rx_extract ((if quote then quote_meta b else b) ++ blob_re_lit) 1 bp (fun caps => nth 0 caps []).

(* pather.go:143-148 after the fix: strip TrimSuffix(Clean(root), "/") + "/" *)
Definition name_from_path_ident (root bp : str) : res :=
  let prefix := trim_slash (clean root) ++ [slash] in
  if prefixb prefix bp then Ok (skipn (length prefix) bp) else Err.

Definition name_from_path (sch : scheme) (root bp : str) : res :=
  match sch with
  | STag => name_from_path_tag true root bp
  | SBlob => name_from_path_blob true root bp
  | SIdent => name_from_path_ident root bp
  end.

(* ---- pre-fix behaviour (mutants; the unchanged pather.go at the pinned commit) *)

(* pather.go:143-148 before the fix: HasPrefix(bp, root); bp[len(root)+1:] (slice out of range panics) *)
Definition name_from_path_ident_prefix (root bp : str) : res :=
  if prefixb root bp then
    if Nat.leb (length root + 1) (length bp) then Ok (skipn (length root + 1) bp) else Panic
  else Err.

Definition name_from_path_pre (sch : scheme) (root bp : str) : res :=
  match sch with
  | STag => name_from_path_tag false root bp
  | SBlob => name_from_path_blob false root bp
  | SIdent => name_from_path_ident_prefix root bp
  end.

(* ------------------------------------------------------------------ the round trip *)

(* BlobPath, then NameFromBlobPath on its result *)
Definition roundtrip (sch : scheme) (root name : str) : res * res :=
  match blob_path sch root name with
  | Ok bp => (Ok bp, name_from_path sch root bp)
  | e => (e, Err)
  end.

Definition roundtrip_pre (sch : scheme) (root name : str) : res * res :=
  match blob_path sch root name with
  | Ok bp => (Ok bp, name_from_path_pre sch root bp)
  | e => (e, Err)
  end.

(* ------------------------------------------------------------------ validity (boolean) *)

Definition ascii (c : N) : bool := c <=? 127.
(* bytes `.` matches *)
Definition name_byte (c : N) : bool := (c <=? 127) && negb (c =? 10).
Definition colon : N := 58.

(* a root a deployment may configure: absolute (s3/gcs/hdfs clients require it), ASCII; any depth,
   any number of trailing or doubled slashes, "." and ".." elements allowed, "/" included *)
Definition valid_root (root : str) : bool := is_rooted root && forallb ascii root.

(* repo: a clean relative path of ordinary elements, no ':' (superset of Docker's repository grammar) *)
Definition valid_repo (s : str) : bool :=
  normal_path s && forallb (fun c => name_byte c && negb (c =? colon)) s.
(* tag: one ordinary element, no ':' (superset of Docker's tag grammar [\w][\w.-]{0,127}) *)
Definition valid_tag (s : str) : bool :=
  is_normal s && forallb (fun c => name_byte c && negb (c =? colon) && negb (c =? slash)) s.
Definition valid_tag_name (n : str) : bool :=
  match split_on colon n with
  | [r; t] => valid_repo r && valid_tag t
  | _ => false
  end.

(* digest: more than 2 bytes, one path element, not starting with ".." (superset of lower-case hex) *)
Definition valid_blob_name (n : str) : bool :=
  Nat.ltb 2 (length n) && forallb (fun c => name_byte c && negb (c =? slash)) n
  && negb (prefixb [dot; dot] n).
Definition is_hex_byte (c : N) : bool := ((48 <=? c) && (c <=? 57)) || ((97 <=? c) && (c <=? 102)).
Definition is_hex (n : str) : bool := forallb is_hex_byte n.

(* identity: any clean relative path of ordinary elements, any bytes *)
Definition valid_ident_name (n : str) : bool := normal_path n.

Definition valid_name (sch : scheme) (n : str) : bool :=
  match sch with
  | STag => valid_tag_name n
  | SBlob => valid_blob_name n
  | SIdent => valid_ident_name n
  end.

(* ------------------------------------------------------------------ oracle on one observation *)

Definition res_eqb (a b : res) : bool :=
  match a, b with
  | Ok x, Ok y => str_eqb x y
  | Err, Err => true
  | Panic, Panic => true
  | _, _ => false
  end.

(* the property on one observed round trip: for a valid root and a valid name BlobPath succeeds and
   NameFromBlobPath of its result is the name.  (Independent of the model.) *)
Definition C36_check (sch : scheme) (root name : str) (obs : res * res) : bool :=
  if valid_root root && valid_name sch name then
    match fst obs with
    | Ok _ => res_eqb (snd obs) (Ok name)
    | _ => false
    end
  else true.
