(* Shared model of the capacity-bounded LRU blob stores
     lib/store/disk/store.go   + scoped_store.go   (backing = Disk,   property C07)
     lib/store/memory/store.go + file.go + scoped_store.go (backing = Memory, property C08)
   (C06 = crash recovery of the disk store and C09 = tiered store are meant to reuse it.)

   Three layers, executable definitions only (proofs: Proof/LruStore.v):
     core    the part of the state both layers share: capacity, the blob map (declared size,
             complete, eviction-banned, metadata, data cell), the data cells, the open handles;
     cstate  CONCRETE state, mirrors the code: core + the running `size` counter + `evictQueue`
             (container/list, front = next to evict).  `b.node != nil` is represented by
             membership of the key in the queue.
     sstate  SPEC state: core + a logical clock + `last use` stamp per key.  Reserved space is
             *computed* as the sum of the declared sizes; the eviction victim is the complete,
             not banned blob with the least `last use` stamp.
   The abstraction function is the projection c_core; Proof/LruStore.v shows it commutes with
   every operation and that every operation returns the same result in both layers.

   The admission test is modelled for the FIXED code (fixes/C07_admission_overflow.patch:
   overflow-safe comparison).  The pre-fix test `s.size+space > s.capacity` in uint64 is kept as
   the variant `fx = false` (used by the `_wrap_refuted` theorems and seed cases). *)
From Coq Require Import List NArith ZArith Bool.
Import ListNotations.
Local Open Scope N_scope.

Definition key := N.
Inductive backing := Disk | Memory.
Inductive scope := SAny | SComplete | SIncomplete.          (* lib/store BlobScope *)

(* ---------------------------------------------------------------- association lists *)
Fixpoint assoc {A} (k : N) (l : list (N * A)) : option A :=
  match l with
  | [] => None
  | (k', v) :: t => if k' =? k then Some v else assoc k t
  end.
Definition remove_key {A} (k : N) (l : list (N * A)) : list (N * A) :=
  filter (fun kv => negb (fst kv =? k)) l.
Definition update {A} (k : N) (f : A -> A) (l : list (N * A)) : list (N * A) :=
  map (fun kv => if fst kv =? k then (fst kv, f (snd kv)) else kv) l.
(* set: replace in place or append *)
Definition set_key {A} (k : N) (v : A) (l : list (N * A)) : list (N * A) :=
  match assoc k l with
  | Some _ => update k (fun _ => v) l
  | None => l ++ [(k, v)]
  end.
Definition memN (k : N) (l : list N) : bool := existsb (N.eqb k) l.
Definition removeN (k : N) (l : list N) : list N := filter (fun x => negb (x =? k)) l.

(* insertion sort of keys by a measure (used for LRU order and for sorted outputs) *)
Fixpoint insert_by (f : N -> N) (k : N) (l : list N) : list N :=
  match l with
  | [] => [k]
  | x :: t => if f k <=? f x then k :: x :: t else x :: insert_by f k t
  end.
Fixpoint isort (f : N -> N) (l : list N) : list N :=
  match l with
  | [] => []
  | x :: t => insert_by f x (isort f t)
  end.
Definition sort_keys (l : list N) : list N := isort (fun k => k) l.

(* ---------------------------------------------------------------- blobs, cells, handles *)
(* metadata: suffix id s; the metadata type is movable iff s is odd (the driver registers
   `_vmd<s>` with a factory that decides Movable() the same way) *)
Definition sfx_movable (s : N) : bool := N.odd s.

Record blob := mkblob {
  b_size : N;                       (* disk/store.go:52, memory/store.go:36 (client-declared) *)
  b_complete : bool;
  b_banned : bool;                  (* evictionBanned *)
  b_mds : list (N * list N);        (* suffix -> serialized bytes (sidecar file / metadatas map) *)
  b_cell : N                        (* data cell: the data file's inode / the *[]byte *)
}.

Record core := mkcore {
  k_cap : N;
  k_blobs : list (key * blob);
  k_cells : list (N * option (list N));   (* None = slice nil-ed (memory) / file unlinked (disk) *)
  k_next : N;                             (* next fresh cell id: cells are never reused *)
  k_handles : list (N * (N * N));         (* memory.File: handle id -> (cell, private offset) *)
  k_nexth : N
}.

Definition with_blobs (kc : core) (bl : list (key * blob)) : core :=
  mkcore (k_cap kc) bl (k_cells kc) (k_next kc) (k_handles kc) (k_nexth kc).
Definition with_cells (kc : core) (cl : list (N * option (list N))) : core :=
  mkcore (k_cap kc) (k_blobs kc) cl (k_next kc) (k_handles kc) (k_nexth kc).
Definition with_handles (kc : core) (hl : list (N * (N * N))) : core :=
  mkcore (k_cap kc) (k_blobs kc) (k_cells kc) (k_next kc) hl (k_nexth kc).

Definition init_core (cap : N) : core := mkcore cap [] [] 0 [] 0.

Definition upd_blob (k : key) (f : blob -> blob) (kc : core) : core :=
  with_blobs kc (update k f (k_blobs kc)).
Definition set_cell (c : N) (v : option (list N)) (kc : core) : core :=
  with_cells kc (update c (fun _ => v) (k_cells kc)).
Definition cell_of (kc : core) (c : N) : option (list N) :=
  match assoc c (k_cells kc) with Some v => v | None => None end.

(* eviction / deletion of blob k: the entry leaves the map and its data cell is nil-ed
   (memory/store.go:103,168; disk: os.RemoveAll of the blob directory, store.go:233,344) *)
Definition drop_blob (k : key) (kc : core) : core :=
  match assoc k (k_blobs kc) with
  | None => kc
  | Some b => with_blobs (set_cell (b_cell b) None kc) (remove_key k (k_blobs kc))
  end.

(* a new incomplete blob with a FRESH data cell holding `data` (make([]byte,0,size) / O_EXCL file) *)
Definition add_blob (k : key) (size : N) (data : list N) (kc : core) : core :=
  mkcore (k_cap kc)
         (k_blobs kc ++ [(k, mkblob size false false [] (k_next kc))])
         (k_cells kc ++ [(k_next kc, Some data)])
         (N.succ (k_next kc)) (k_handles kc) (k_nexth kc).

Definition add_handle (c : N) (kc : core) : core * N :=
  (mkcore (k_cap kc) (k_blobs kc) (k_cells kc) (k_next kc)
          (k_handles kc ++ [(k_nexth kc, (c, 0))]) (N.succ (k_nexth kc)), k_nexth kc).

(* isOutOfScope, disk/store.go:676, memory/store.go:358 *)
Definition out_of_scope (b : blob) (sc : scope) : bool :=
  match sc with
  | SAny => false
  | SComplete => negb (b_complete b)
  | SIncomplete => b_complete b
  end.

Inductive err := ENotExist | EExist | EOutOfScope | ENoSpace | EEvicted | EEOF | EOther.

(* the common prologue `b, ok := s.blobs[key]; if !ok ..; if isOutOfScope ..` *)
Definition lookup (kc : core) (k : key) (sc : scope) : blob + err :=
  match assoc k (k_blobs kc) with
  | None => inr ENotExist
  | Some b => if out_of_scope b sc then inr EOutOfScope else inl b
  end.

Definition sum_sizes (bl : list (key * blob)) : N :=
  fold_right (fun kb acc => b_size (snd kb) + acc) 0 bl.

Definition evictableb (kc : core) (k : key) : bool :=
  match assoc k (k_blobs kc) with
  | Some b => b_complete b && negb (b_banned b)
  | None => false
  end.

(* byte-level helpers *)
Fixpoint zeros (n : nat) : list N := match n with O => [] | S m => 0 :: zeros m end.
(* pwrite / resizeSliceIfNecessary+copy: bytes land at [off, off+len), the gap is zero-filled *)
Definition write_at (buf : list N) (off : N) (p : list N) : list N :=
  let o := N.to_nat off in
  let pre := firstn o buf ++ zeros (o - length buf) in
  pre ++ p ++ skipn (o + length p) buf.
Definition lenN {A} (l : list A) : N := N.of_nat (length l).

(* ---------------------------------------------------------------- operations and results *)
Inductive op :=
(* store API *)
| Create (k : key) (size : N)                       (* memory: keeps the returned *File as a handle *)
| CreateW (k : key) (size : N) (data : list N)      (* Create; f.Write(data); f.Close() *)
| Open (k : key) (sc : scope)                       (* memory: keeps the returned *File as a handle *)
| OpenRead (k : key) (sc : scope)                   (* Open; io.ReadAll; Close *)
| OpenWriteAt (k : key) (sc : scope) (off : N) (data : list N)   (* Open; WriteAt; Close *)
| Has (k : key) (sc : scope)
| Stat (k : key) (sc : scope)
| MarkComplete (k : key)
| Delete (k : key) (sc : scope)
| ListK (sc : scope)
| Ban (k : key) (sc : scope)
| Unban (k : key) (sc : scope)
| SetMd (k : key) (sc : scope) (sfx : N) (bytes : list N)
| GetMd (k : key) (sc : scope) (sfx : N)
| DelMd (k : key) (sc : scope) (sfx : N)
| ListMd (k : key) (sc : scope)
| WriteAtMd (k : key) (sc : scope) (sfx : N) (off : Z) (bytes : list N)   (* disk only *)
| Clean (pct : Z) (respect : bool) (order : list key)   (* disk only; `order` = oracle for the two
                                                           map iterations of store.go:617,638 *)
(* memory.File API on a kept handle *)
| HRead (h : N) (n : N)
| HReadAt (h : N) (n : N) (off : Z)
| HSeek (h : N) (off : Z) (whence : N)
| HSize (h : N)
| HWriteAt (h : N) (data : list N) (off : Z)
| HWrite (h : N) (data : list N)
| HOff (h : N)
| HClose (h : N).                                    (* Close/Cancel/Commit: no-ops *)

Inductive out :=
| OOk
| OErr (e : err)
| OHandle (h : N)
| OBytes (b : list N)
| OHas (inStore inScope : bool)
| OSize (n : Z)
| OKeys (l : list N)                  (* sorted *)
| ONone                               (* GetMetadata: (false, nil) *)
| ORead (b : list N) (eof : bool)     (* Read/ReadAt: bytes and whether io.EOF came with them *)
| OWrote (n : N)
| OClean (util : N) (e : option err)
| OUnsupported                        (* op not offered by this backing *)
| OBadOracle                          (* the oracle / handle id carried by the op is not legal *)
| OPanic.                             (* only ever produced by the implementation side *)

(* ---------------------------------------------------------------- uint64 arithmetic *)
Definition two64 : N := 18446744073709551616.
Definition add64 (a b : N) : N := (a + b) mod two64.
Definition mul64 (a b : N) : N := (a * b) mod two64.

(* admission test.  fx = true : fixed code  `space <= capacity && size <= capacity-space`
                    fx = false: pre-fix code `size+space <= capacity` in uint64 (store.go:214,220;
                                memory/store.go:95) *)
Definition c_fits (fx : bool) (cap size space : N) : bool :=
  if fx then (space <=? cap) && (size <=? cap - space)
  else add64 size space <=? cap.

(* releaseSpace, disk/store.go:248, memory/store.go:114 (fails open to 0) *)
Definition release (size space : N) : N := if size <? space then 0 else size - space.

(* Clean's target (disk/store.go:605): capacity*uint64(pct)/100 in uint64 *)
Definition clean_target (cap : N) (pct : Z) : N := mul64 cap (Z.to_N pct) / 100.
(* Clean's result (disk/store.go:594): int(size*100/capacity) *)
Definition util_of (cap size : N) : N := mul64 size 100 / cap.

(* ---------------------------------------------------------------- shared per-op core transformers *)
Definition drop_immovable (b : blob) : blob :=
  mkblob (b_size b) (b_complete b) (b_banned b)
         (filter (fun m => sfx_movable (fst m)) (b_mds b)) (b_cell b).
Definition set_complete (b : blob) : blob :=
  drop_immovable (mkblob (b_size b) true (b_banned b) (b_mds b) (b_cell b)).
Definition set_banned (v : bool) (b : blob) : blob :=
  mkblob (b_size b) (b_complete b) v (b_mds b) (b_cell b).
Definition set_mds (m : list (N * list N)) (b : blob) : blob :=
  mkblob (b_size b) (b_complete b) (b_banned b) m (b_cell b).

Definition scoped_keys (kc : core) (sc : scope) : list N :=
  sort_keys (map fst (filter (fun kb => negb (out_of_scope (snd kb) sc)) (k_blobs kc))).

(* operations that never touch admission / eviction order: identical in both layers.
   Returns None for the operations handled separately by each layer. *)
Definition handle_of (kc : core) (h : N) : option (N * N) := assoc h (k_handles kc).
Definition set_off (h : N) (off : N) (kc : core) : core :=
  with_handles kc (update h (fun co => (fst co, off)) (k_handles kc)).

Definition plain_step (bk : backing) (kc : core) (o : op) : option (core * out) :=
  match o with
  | Has k sc =>                                            (* store.go:122 / memory 141 *)
      Some (kc, match assoc k (k_blobs kc) with
                | None => OHas false false
                | Some b => OHas true (negb (out_of_scope b sc))
                end)
  | Stat k sc =>                                           (* store.go:136 / memory 194: actual data length *)
      Some (kc, match lookup kc k sc with
                | inr e => OErr e
                | inl b => match cell_of kc (b_cell b) with
                           | Some d => OSize (Z.of_N (lenN d))
                           | None => OPanic
                           end
                end)
  | ListK sc => Some (kc, OKeys (scoped_keys kc sc))     (* store.go:359 / memory 180 *)
  | SetMd k sc s bytes =>                                  (* store.go:435 / memory 285 *)
      Some (match lookup kc k sc with
            | inr e => (kc, OErr e)
            | inl b => (upd_blob k (set_mds (set_key s bytes (b_mds b))) kc, OOk)
            end)
  | GetMd k sc s =>                                        (* store.go:470 / memory 300 *)
      Some (kc, match lookup kc k sc with
                | inr e => OErr e
                | inl b => match assoc s (b_mds b) with Some v => OBytes v | None => ONone end
                end)
  | DelMd k sc s =>                                        (* store.go:502 / memory 342 *)
      Some (match lookup kc k sc with
            | inr e => (kc, OErr e)
            | inl b => (upd_blob k (set_mds (remove_key s (b_mds b))) kc, OOk)
            end)
  | ListMd k sc =>                                         (* store.go:525 / memory 327 *)
      Some (kc, match lookup kc k sc with
                | inr e => OErr e
                | inl b => OKeys (sort_keys (map fst (b_mds b)))
                end)
  | WriteAtMd k sc s off bytes =>                          (* store.go:562 *)
      match bk with
      | Memory => Some (kc, OUnsupported)
      | Disk =>
        Some (match lookup kc k sc with
              | inr e => (kc, OErr e)
              | inl b => match assoc s (b_mds b) with
                         | None => (kc, OErr EOther)              (* "metadata does not exist" *)
                         | Some v => if (off <? 0)%Z then (kc, OErr EOther)   (* os: negative offset *)
                                     else match bytes with
                                          | [] => (kc, OOk)               (* pwrite of zero bytes: no effect, even past EOF *)
                                          | _ => (upd_blob k (set_mds (set_key s (write_at v (Z.to_N off) bytes) (b_mds b))) kc, OOk)
                                          end
                         end
              end)
      end
  | OpenWriteAt _ _ _ _ | OpenRead _ _ | Open _ _ | Create _ _ | CreateW _ _ _
  | MarkComplete _ | Delete _ _ | Ban _ _ | Unban _ _ | Clean _ _ _ => None
  (* ---- memory.File (file.go); on the disk backing handles are not kept across operations *)
  | HRead h n =>                                           (* file.go:37 *)
      match bk with Disk => Some (kc, OUnsupported) | Memory =>
      Some (match handle_of kc h with
            | None => (kc, OBadOracle)
            | Some (c, off) =>
                if n =? 0 then (kc, ORead [] false)
                else match cell_of kc c with
                     | None => (kc, OErr EEvicted)
                     | Some buf =>
                         if lenN buf <=? off then (kc, ORead [] true)
                         else let bs := firstn (N.to_nat n) (skipn (N.to_nat off) buf) in
                              (set_off h (off + lenN bs) kc, ORead bs false)
                     end
            end) end
  | HReadAt h n off =>                                     (* file.go:58 *)
      match bk with Disk => Some (kc, OUnsupported) | Memory =>
      Some (kc, match handle_of kc h with
                | None => OBadOracle
                | Some (c, _) =>
                    if n =? 0 then ORead [] false
                    else if (off <? 0)%Z then OErr EOther
                    else match cell_of kc c with
                         | None => OErr EEvicted
                         | Some buf =>
                             if lenN buf <=? Z.to_N off then ORead [] true
                             else let bs := firstn (N.to_nat n) (skipn (Z.to_nat off) buf) in
                                  ORead bs (lenN bs <? n)
                         end
                end) end
  | HSeek h off whence =>                                  (* file.go:85 *)
      match bk with Disk => Some (kc, OUnsupported) | Memory =>
      Some (match handle_of kc h with
            | None => (kc, OBadOracle)
            | Some (c, cur) =>
                match cell_of kc c with
                | None => (kc, OErr EEvicted)
                | Some buf =>
                    let base := if whence =? 0 then Some 0%Z
                                else if whence =? 1 then Some (Z.of_N cur)
                                else if whence =? 2 then Some (Z.of_N (lenN buf)) else None in
                    match base with
                    | None => (kc, OErr EOther)
                    | Some b0 => let no := (b0 + off)%Z in
                                 if ((no <? 0) || (Z.of_N (lenN buf) <? no))%Z then (kc, OErr EOther)
                                 else (set_off h (Z.to_N no) kc, OSize no)
                    end
                end
            end) end
  | HSize h =>                                             (* file.go:115 *)
      match bk with Disk => Some (kc, OUnsupported) | Memory =>
      Some (kc, match handle_of kc h with
                | None => OBadOracle
                | Some (c, _) => match cell_of kc c with
                                 | None => OSize (-1)
                                 | Some buf => OSize (Z.of_N (lenN buf))
                                 end
                end) end
  | HWriteAt h data off =>                                 (* file.go:127 (+ fixes/C12: len(p)=0 is a no-op) *)
      match bk with Disk => Some (kc, OUnsupported) | Memory =>
      Some (match handle_of kc h with
            | None => (kc, OBadOracle)
            | Some (c, _) =>
                if (off <? 0)%Z then (kc, OErr EOther)
                else match cell_of kc c with
                     | None => (kc, OErr EEvicted)
                     | Some buf =>
                         match data with
                         | [] => (kc, OWrote 0)
                         | _ => (set_cell c (Some (write_at buf (Z.to_N off) data)) kc, OWrote (lenN data))
                         end
                     end
            end) end
  | HWrite h data =>                                       (* file.go:164 *)
      match bk with Disk => Some (kc, OUnsupported) | Memory =>
      Some (match handle_of kc h with
            | None => (kc, OBadOracle)
            | Some (c, off) =>
                match cell_of kc c with
                | None => (kc, OErr EEvicted)
                | Some buf =>
                    (set_off h (off + lenN data) (set_cell c (Some (write_at buf off data)) kc), OWrote (lenN data))
                end
            end) end
  | HOff h =>                                              (* file.go:186 *)
      match bk with Disk => Some (kc, OUnsupported) | Memory =>
      Some (kc, match handle_of kc h with None => OBadOracle | Some (_, off) => OSize (Z.of_N off) end) end
  | HClose h =>                                            (* file.go:190-192 *)
      match bk with Disk => Some (kc, OUnsupported) | Memory =>
      Some (kc, match handle_of kc h with None => OBadOracle | Some _ => OOk end) end
  end.

(* the data part of the composite open-operations (after the LRU bookkeeping of Open) *)
Definition open_read (kc : core) (b : blob) : out :=
  match cell_of kc (b_cell b) with Some d => OBytes d | None => OPanic end.
Definition open_write_at (kc : core) (b : blob) (off : N) (data : list N) : core :=
  match cell_of kc (b_cell b) with
  | Some d => match data with
              | [] => kc                                   (* zero-length pwrite: no effect *)
              | _ => set_cell (b_cell b) (Some (write_at d off data)) kc
              end
  | None => kc
  end.

(* Clean: the keys tried by the two deletion loops (store.go:616-647), in oracle order *)
Definition order_legal (kc : core) (order : list key) : bool :=
  forallb (fun kb => memN (fst kb) order) (k_blobs kc).
Definition clean_keys (kc : core) (respect : bool) (order : list key) : list key :=
  let present := filter (fun k => match assoc k (k_blobs kc) with Some _ => true | None => false end) order in
  let banned k := match assoc k (k_blobs kc) with Some b => b_banned b | None => false end in
  filter (fun k => negb (banned k)) present ++ (if respect then [] else filter banned present).

(* ---------------------------------------------------------------- CONCRETE layer *)
Record cstate := mkc { c_core : core; c_size : N; c_queue : list key }.

Definition cinit (cap : N) : cstate := mkc (init_core cap) 0 [].

(* ensureFreeSpace's / reserveSpace's loop (store.go:220-241, memory/store.go:95-108):
   evict from the front of the queue until the request fits *)
Fixpoint c_evict (fx : bool) (q : list key) (kc : core) (size space : N) : core * N * list key * bool :=
  if c_fits fx (k_cap kc) size space then (kc, size, q, true)
  else match q with
       | [] => (kc, size, [], false)                                   (* errNoSpace *)
       | k :: q' =>
           let sz := match assoc k (k_blobs kc) with Some b => b_size b | None => 0 end in
           c_evict fx q' (drop_blob k kc) (release size sz) space
       end.

(* deleteNoLock (store.go:336) / Delete (memory/store.go:155) after the lookup *)
Definition c_delete (c : cstate) (k : key) (b : blob) : cstate :=
  mkc (drop_blob k (c_core c)) (release (c_size c) (b_size b)) (removeN k (c_queue c)).

(* Clean's deletion loops: stop as soon as size <= target *)
Fixpoint c_clean_loop (c : cstate) (target : N) (keys : list key) : cstate :=
  match keys with
  | [] => c
  | k :: t => if c_size c <=? target then c
              else match assoc k (k_blobs (c_core c)) with
                   | Some b => c_clean_loop (c_delete c k b) target t
                   | None => c_clean_loop c target t
                   end
  end.

(* Open's `if b.node != nil { MoveToBack }` *)
Definition c_touch (k : key) (q : list key) : list key :=
  if memN k q then removeN k q ++ [k] else q.

(* Create (store.go:153 / memory/store.go:67).  data = None: the returned *File is kept as a
   handle (memory only); data = Some d: the driver writes d through it and closes it. *)
Definition create_supported (bk : backing) (data : option (list N)) : bool :=
  match bk, data with Disk, None => false | _, _ => true end.

Definition c_create (bk : backing) (fx : bool) (c : cstate) (k : key) (size : N) (data : option (list N)) : cstate * out :=
  let kc := c_core c in
  if negb (create_supported bk data) then (c, OUnsupported) else
    match assoc k (k_blobs kc) with
    | Some _ => (c, OErr EExist)
    | None =>
        match c_evict fx (c_queue c) kc (c_size c) size with
        | (kc1, size1, q1, false) => (mkc kc1 size1 q1, OErr ENoSpace)
        | (kc1, size1, q1, true) =>
            let size2 := add64 size1 size in              (* s.size += sizeBytes *)
            match data with
            | None => let kh := add_handle (k_next kc1) (add_blob k size [] kc1) in
                      (mkc (fst kh) size2 q1, OHandle (snd kh))
            | Some d => (mkc (add_blob k size d kc1) size2 q1, OOk)
            end
        end
    end.

Definition cstep (bk : backing) (fx : bool) (c : cstate) (o : op) : cstate * out :=
  let kc := c_core c in
  match plain_step bk kc o with
  | Some (kc', r) => (mkc kc' (c_size c) (c_queue c), r)
  | None =>
  match o with
  | Create k size => c_create bk fx c k size None
  | CreateW k size data => c_create bk fx c k size (Some data)
  | Open k sc =>                                            (* memory/store.go:123 *)
      match bk with
      | Disk => (c, OUnsupported)
      | Memory =>
        match lookup kc k sc with
        | inr e => (c, OErr e)
        | inl b => let kh := add_handle (b_cell b) kc in
                   (mkc (fst kh) (c_size c) (c_touch k (c_queue c)), OHandle (snd kh))
        end
      end
  | OpenRead k sc =>                                        (* store.go:99 / memory 123 *)
      match lookup kc k sc with
      | inr e => (c, OErr e)
      | inl b => (mkc kc (c_size c) (c_touch k (c_queue c)), open_read kc b)
      end
  | OpenWriteAt k sc off data =>
      match lookup kc k sc with
      | inr e => (c, OErr e)
      | inl b => (mkc (open_write_at kc b off data) (c_size c) (c_touch k (c_queue c)), OOk)
      end
  | MarkComplete k =>                                       (* store.go:263 / memory 211 *)
      match assoc k (k_blobs kc) with
      | None => (c, OErr ENotExist)
      | Some b =>
          if b_complete b then (c, OOk)
          else (mkc (upd_blob k set_complete kc) (c_size c)
                    (if b_banned b then c_queue c else c_queue c ++ [k]), OOk)
      end
  | Delete k sc =>                                          (* store.go:329 / memory 155 *)
      match lookup kc k sc with
      | inr e => (c, OErr e)
      | inl b => (c_delete c k b, OOk)
      end
  | Ban k sc =>                                             (* store.go:373 / memory 237 *)
      match lookup kc k sc with
      | inr e => (c, OErr e)
      | inl b =>
          if b_banned b then (c, OOk)
          else (mkc (upd_blob k (set_banned true) kc) (c_size c)
                    (if b_complete b then removeN k (c_queue c) else c_queue c), OOk)
      end
  | Unban k sc =>                                           (* store.go:405 / memory 261 *)
      match lookup kc k sc with
      | inr e => (c, OErr e)
      | inl b =>
          if negb (b_banned b) then (c, OOk)
          else (mkc (upd_blob k (set_banned false) kc) (c_size c)
                    (if b_complete b then c_queue c ++ [k] else c_queue c), OOk)
      end
  | Clean pct respect order =>                              (* store.go:592 *)
      match bk with
      | Memory => (c, OUnsupported)
      | Disk =>
        if ((pct <? 0) || (100 <=? pct))%Z then (c, OClean (util_of (k_cap kc) (c_size c)) (Some EOther))
        else
          let target := clean_target (k_cap kc) pct in
          match c_evict fx (c_queue c) kc (c_size c) (k_cap kc - target) with
          | (kc1, size1, q1, true) => (mkc kc1 size1 q1, OClean (util_of (k_cap kc) size1) None)
          | (kc1, size1, q1, false) =>
              if order_legal kc1 order then
                let c2 := c_clean_loop (mkc kc1 size1 q1) target (clean_keys kc1 respect order) in
                (c2, OClean (util_of (k_cap kc) (c_size c2)) None)
              else (c, OBadOracle)
          end
      end
  | _ => (c, OBadOracle)
  end
  end.

(* ---------------------------------------------------------------- SPEC layer *)
Record sstate := mks { s_core : core; s_last : list (key * N); s_clock : N }.

Definition sinit (cap : N) : sstate := mks (init_core cap) [] 0.

Definition last_of (s : sstate) (k : key) : N :=
  match assoc k (s_last s) with Some t => t | None => 0 end.

(* reserved space is not stored: it IS the sum of the declared sizes of the live blobs *)
Definition s_size (kc : core) : N := sum_sizes (k_blobs kc).

(* the complete, not banned blobs in ascending order of last use: head = least recently used *)
Definition evict_order_by (lastf : key -> N) (kc : core) : list key :=
  isort lastf (filter (evictableb kc) (map fst (k_blobs kc))).
Definition evict_order (s : sstate) : list key := evict_order_by (last_of s) (s_core s).

(* admission: evict in LRU order until `reserved + space <= capacity` (unbounded arithmetic);
   if the evictable blobs run out the request is refused (what was evicted stays evicted) *)
Fixpoint s_evict (order : list key) (kc : core) (space : N) : core * bool :=
  if s_size kc + space <=? k_cap kc then (kc, true)
  else match order with
       | [] => (kc, false)
       | k :: rest => s_evict rest (drop_blob k kc) space
       end.

Fixpoint s_clean_loop (kc : core) (target : N) (keys : list key) : core :=
  match keys with
  | [] => kc
  | k :: t => if s_size kc <=? target then kc
              else s_clean_loop (drop_blob k kc) target t
  end.

Definition touch (s : sstate) (k : key) : list (key * N) := (k, s_clock s) :: s_last s.

Definition s_create (bk : backing) (s : sstate) (k : key) (size : N) (data : option (list N)) : sstate * out :=
  let kc := s_core s in
  let tick kc' last' := mks kc' last' (N.succ (s_clock s)) in
  if negb (create_supported bk data) then (tick kc (s_last s), OUnsupported) else
    match assoc k (k_blobs kc) with
    | Some _ => (tick kc (s_last s), OErr EExist)
    | None =>
        match s_evict (evict_order s) kc size with
        | (kc1, false) => (tick kc1 (s_last s), OErr ENoSpace)
        | (kc1, true) =>
            match data with
            | None => let kh := add_handle (k_next kc1) (add_blob k size [] kc1) in
                      (tick (fst kh) (touch s k), OHandle (snd kh))
            | Some d => (tick (add_blob k size d kc1) (touch s k), OOk)
            end
        end
    end.

Definition sstep (bk : backing) (s : sstate) (o : op) : sstate * out :=
  let kc := s_core s in
  let tick kc' last' := mks kc' last' (N.succ (s_clock s)) in
  match plain_step bk kc o with
  | Some (kc', r) => (tick kc' (s_last s), r)
  | None =>
  match o with
  | Create k size => s_create bk s k size None
  | CreateW k size data => s_create bk s k size (Some data)
  | Open k sc =>
      match bk with
      | Disk => (tick kc (s_last s), OUnsupported)
      | Memory =>
        match lookup kc k sc with
        | inr e => (tick kc (s_last s), OErr e)
        | inl b => let kh := add_handle (b_cell b) kc in
                   (tick (fst kh) (touch s k), OHandle (snd kh))       (* a use *)
        end
      end
  | OpenRead k sc =>
      match lookup kc k sc with
      | inr e => (tick kc (s_last s), OErr e)
      | inl b => (tick kc (touch s k), open_read kc b)                (* a use *)
      end
  | OpenWriteAt k sc off data =>
      match lookup kc k sc with
      | inr e => (tick kc (s_last s), OErr e)
      | inl b => (tick (open_write_at kc b off data) (touch s k), OOk)  (* a use *)
      end
  | MarkComplete k =>
      match assoc k (k_blobs kc) with
      | None => (tick kc (s_last s), OErr ENotExist)
      | Some b =>
          if b_complete b then (tick kc (s_last s), OOk)
          else (tick (upd_blob k set_complete kc) (touch s k), OOk)   (* completion counts as a use *)
      end
  | Delete k sc =>
      match lookup kc k sc with
      | inr e => (tick kc (s_last s), OErr e)
      | inl b => (tick (drop_blob k kc) (s_last s), OOk)
      end
  | Ban k sc =>
      match lookup kc k sc with
      | inr e => (tick kc (s_last s), OErr e)
      | inl b =>
          if b_banned b then (tick kc (s_last s), OOk)
          else (tick (upd_blob k (set_banned true) kc) (s_last s), OOk)
      end
  | Unban k sc =>
      match lookup kc k sc with
      | inr e => (tick kc (s_last s), OErr e)
      | inl b =>
          if negb (b_banned b) then (tick kc (s_last s), OOk)
          else (tick (upd_blob k (set_banned false) kc) (touch s k), OOk)   (* lifting a ban counts as a use *)
      end
  | Clean pct respect order =>
      match bk with
      | Memory => (tick kc (s_last s), OUnsupported)
      | Disk =>
        if ((pct <? 0) || (100 <=? pct))%Z then (tick kc (s_last s), OClean (util_of (k_cap kc) (s_size kc)) (Some EOther))
        else
          let target := clean_target (k_cap kc) pct in
          match s_evict (evict_order s) kc (k_cap kc - target) with
          | (kc1, true) => (tick kc1 (s_last s), OClean (util_of (k_cap kc) (s_size kc1)) None)
          | (kc1, false) =>
              if order_legal kc1 order then
                let kc2 := s_clean_loop kc1 target (clean_keys kc1 respect order) in
                (tick kc2 (s_last s), OClean (util_of (k_cap kc) (s_size kc2)) None)
              else (tick kc (s_last s), OBadOracle)
          end
      end
  | _ => (tick kc (s_last s), OBadOracle)
  end
  end.

(* ---------------------------------------------------------------- histories and observations *)
(* after every operation the in-package driver also records the store's internal state *)
Record snap := mksnap {
  n_size : N;                                       (* store.size *)
  n_queue : list key;                               (* evictQueue front..back *)
  n_blobs : list (key * (N * bool * bool * bool))   (* sorted by key: size, complete, banned, node != nil *)
}.

Definition blob_rows (kc : core) (q : list key) : list (key * (N * bool * bool * bool)) :=
  map (fun k => (k, match assoc k (k_blobs kc) with
                    | Some b => (b_size b, b_complete b, b_banned b, memN k q)
                    | None => (0, false, false, false)
                    end)) (sort_keys (map fst (k_blobs kc))).
Definition csnap (c : cstate) : snap := mksnap (c_size c) (c_queue c) (blob_rows (c_core c) (c_queue c)).
Definition ssnap (s : sstate) : snap :=
  mksnap (s_size (s_core s)) (evict_order s) (blob_rows (s_core s) (evict_order s)).

Fixpoint crun (bk : backing) (fx : bool) (c : cstate) (ops : list op) : cstate * list (out * snap) :=
  match ops with
  | [] => (c, [])
  | o :: t => let '(c1, r) := cstep bk fx c o in
              let '(c2, rs) := crun bk fx c1 t in (c2, (r, csnap c1) :: rs)
  end.
Fixpoint srun (bk : backing) (s : sstate) (ops : list op) : sstate * list (out * snap) :=
  match ops with
  | [] => (s, [])
  | o :: t => let '(s1, r) := sstep bk s o in
              let '(s2, rs) := srun bk s1 t in (s2, (r, ssnap s1) :: rs)
  end.

(* ---------------------------------------------------------------- boolean equalities *)
Fixpoint list_eqb {A} (e : A -> A -> bool) (a b : list A) : bool :=
  match a, b with
  | [], [] => true
  | x :: a', y :: b' => e x y && list_eqb e a' b'
  | _, _ => false
  end.
Definition err_eqb (a b : err) : bool :=
  match a, b with
  | ENotExist, ENotExist | EExist, EExist | EOutOfScope, EOutOfScope | ENoSpace, ENoSpace
  | EEvicted, EEvicted | EEOF, EEOF | EOther, EOther => true
  | _, _ => false
  end.
Definition out_eqb (a b : out) : bool :=
  match a, b with
  | OOk, OOk | ONone, ONone | OUnsupported, OUnsupported | OBadOracle, OBadOracle | OPanic, OPanic => true
  | OErr x, OErr y => err_eqb x y
  | OHandle x, OHandle y => x =? y
  | OBytes x, OBytes y => list_eqb N.eqb x y
  | OHas a1 a2, OHas b1 b2 => Bool.eqb a1 b1 && Bool.eqb a2 b2
  | OSize x, OSize y => (x =? y)%Z
  | OKeys x, OKeys y => list_eqb N.eqb x y
  | ORead x e1, ORead y e2 => list_eqb N.eqb x y && Bool.eqb e1 e2
  | OWrote x, OWrote y => x =? y
  | OClean u1 None, OClean u2 None => u1 =? u2
  | OClean u1 (Some e1), OClean u2 (Some e2) => (u1 =? u2) && err_eqb e1 e2
  | _, _ => false
  end.
Definition row_eqb (a b : key * (N * bool * bool * bool)) : bool :=
  let '(k1, (s1, c1, b1, n1)) := a in let '(k2, (s2, c2, b2, n2)) := b in
  (k1 =? k2) && (s1 =? s2) && Bool.eqb c1 c2 && Bool.eqb b1 b2 && Bool.eqb n1 n2.
Definition snap_eqb (a b : snap) : bool :=
  (n_size a =? n_size b) && list_eqb N.eqb (n_queue a) (n_queue b) && list_eqb row_eqb (n_blobs a) (n_blobs b).
Definition obs_eqb (a b : list (out * snap)) : bool :=
  list_eqb (fun x y => out_eqb (fst x) (fst y) && snap_eqb (snd x) (snd y)) a b.

(* model-independent sanity of ONE observed snapshot: the counter is the sum of the listed
   sizes and within capacity; the queue holds exactly the complete, not banned keys, once *)
Definition row_size (r : key * (N * bool * bool * bool)) : N := fst (fst (fst (snd r))).
Definition row_evictable (r : key * (N * bool * bool * bool)) : bool :=
  snd (fst (fst (snd r))) && negb (snd (fst (snd r))).
Definition row_node (r : key * (N * bool * bool * bool)) : bool := snd (snd r).
Definition nodupb (l : list N) : bool :=
  (fix go (l : list N) : bool := match l with [] => true | x :: t => negb (memN x t) && go t end) l.
Definition snap_wf (cap : N) (n : snap) : bool :=
  (n_size n =? fold_right (fun r acc => row_size r + acc) 0 (n_blobs n)) &&
  (n_size n <=? cap) &&
  nodupb (n_queue n) &&
  forallb (fun k => match assoc k (n_blobs n) with Some (_, c, b, _) => c && negb b | None => false end) (n_queue n) &&
  forallb (fun r => Bool.eqb (row_node r) (row_evictable r) && Bool.eqb (row_evictable r) (memN (fst r) (n_queue n))) (n_blobs n).

(* the oracle shared by C07 (Disk) and C08 (Memory): every observed result and snapshot is the one
   the reference specification gives, and every observed snapshot is well formed on its own *)
Definition lru_check (bk : backing) (cap : N) (ops : list op) (obs : list (out * snap)) : bool :=
  obs_eqb (snd (srun bk (sinit cap) ops)) obs && forallb (fun x => snap_wf cap (snd x)) obs.

(* ---------------------------------------------------------------- vocabulary of the theorem statements *)
(* the key and scope an operation is issued with (through a scoped view of the store) *)
Definition op_scope (o : op) : option (key * scope) :=
  match o with
  | Open k sc | OpenRead k sc | OpenWriteAt k sc _ _ | Has k sc | Stat k sc | Delete k sc
  | Ban k sc | Unban k sc | SetMd k sc _ _ | GetMd k sc _ | DelMd k sc _ | ListMd k sc
  | WriteAtMd k sc _ _ _ => Some (k, sc)
  | _ => None
  end.
(* the same operation issued through the unscoped store *)
Definition unscoped (o : op) : op :=
  match o with
  | Open k _ => Open k SAny
  | OpenRead k _ => OpenRead k SAny
  | OpenWriteAt k _ off d => OpenWriteAt k SAny off d
  | Has k _ => Has k SAny
  | Stat k _ => Stat k SAny
  | Delete k _ => Delete k SAny
  | Ban k _ => Ban k SAny
  | Unban k _ => Unban k SAny
  | SetMd k _ s v => SetMd k SAny s v
  | GetMd k _ s => GetMd k SAny s
  | DelMd k _ s => DelMd k SAny s
  | ListMd k _ => ListMd k SAny
  | WriteAtMd k _ s off v => WriteAtMd k SAny s off v
  | o => o
  end.

(* the stored metadata value of (key, suffix), and the incarnation (data cell) of a key *)
Definition md_of (kc : core) (k : key) (s : N) : option (list N) :=
  match assoc k (k_blobs kc) with Some b => assoc s (b_mds b) | None => None end.
Definition incarnation (kc : core) (k : key) : option N :=
  match assoc k (k_blobs kc) with Some b => Some (b_cell b) | None => None end.
(* operations that may change the metadata (k, s) of a blob that stays in the store *)
Definition md_writes (o : op) (k : key) (s : N) : bool :=
  match o with
  | SetMd k' _ s' _ | DelMd k' _ s' | WriteAtMd k' _ s' _ _ => (k' =? k) && (s' =? s)
  | MarkComplete k' => (k' =? k) && negb (sfx_movable s)
  | _ => false
  end.

(* operations that write into the data cell cl: through a handle bound to cl, or through an
   Open-write on the blob that owns cl *)
Definition writes_cell (kc : core) (o : op) (cl : N) : bool :=
  match o with
  | HWriteAt h _ _ | HWrite h _ => match assoc h (k_handles kc) with Some (c, _) => c =? cl | None => false end
  | OpenWriteAt k _ _ _ => match assoc k (k_blobs kc) with Some b => b_cell b =? cl | None => false end
  | _ => false
  end.
