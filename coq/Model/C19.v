(* C19 — abstract swarm model: agents with per-piece status as in agentstorage (pieces.go:32-38,
   torrent.go:203-250), request bookkeeping as in piecerequest.Manager (manager.go), the message
   handlers of dispatch/dispatcher.go, peers Honest | Corrupting, up | departed, a seeder holding
   all pieces (agentstorage torrent that is complete, or originstorage.Torrent).
   Executable definitions only; proofs live in Proof/C19*.v.

   One label = one atomic step of one peer (a handler of dispatcher.go, a lock region of
   manager.go / pieces.go, a scheduler event).  Everything that depends on time, on the tracker's
   handout, on TCP or on Go scheduling is NOT computed by the model: it is the choice of which
   label comes next (request expiry = label Expire, announce + handshake = label Connect, idle /
   TTL / error close = label Disconnect, process stop = Depart, (re)start = Join).  Theorems
   quantify over every label sequence.

   Payloads are an abstract type P with a length and a checksum (Section variables): the piece
   checksum (core.PieceHash = CRC-32) is a parameter, never computed.  With P := list N,
   plen := length the statements are about bytes (Properties/C19.v, C19_safety_bytes).

   The per-torrent interleaving of concurrent WritePiece calls is property C03 (Model/AgentTorrent.v);
   here a write is two steps: RecvBegin (length test + tryMarkDirty, torrent.go:203-226) and RecvEnd
   (copy, checksum test, markComplete / markEmpty, commit, torrent.go:228-250 + dispatcher.go:589-608),
   so two peers delivering the same piece do conflict (errWritePieceConflict => MarkInvalid). *)
From Coq Require Import List NArith Bool Arith.
Import ListNotations.

(* pieces.go:32-38 *)
Inductive pstatus := Empty | Dirty | Complete.
Inductive kind := Honest | Corrupting.
(* manager.go:33-45; StatusExpired is derived from the clock there, here it is set by label Expire *)
Inductive rstatus := RPending | RExpired | RUnsent | RInvalid.

(* manager.go:48-54 *)
Record req := mkreq { r_piece : nat; r_peer : nat; r_st : rstatus }.
(* dispatch/peer.go:25-45: remote peer id, isOrigin, the bitfield we believe the remote has *)
Record conn := mkconn { c_peer : nat; c_origin : bool; c_view : nat -> bool }.

Definition is_complete (p : pstatus) : bool := match p with Complete => true | _ => false end.
Definition is_dirty (p : pstatus) : bool := match p with Dirty => true | _ => false end.
Definition is_empty (p : pstatus) : bool := match p with Empty => true | _ => false end.
Definition is_pending (r : req) : bool := match r_st r with RPending => true | _ => false end.
Definition is_honest_k (k : kind) : bool := match k with Honest => true | _ => false end.

Definition upd {A} (f : nat -> A) (k : nat) (v : A) : nat -> A :=
  fun j => if Nat.eqb j k then v else f j.

Definition memb (x : nat) (l : list nat) : bool := existsb (Nat.eqb x) l.
Fixpoint nodupb (l : list nat) : bool :=
  match l with [] => true | x :: t => negb (memb x t) && nodupb t end.

(* the first element satisfying f, and the list without it *)
Fixpoint take_first {A} (f : A -> bool) (l : list A) : option (A * list A) :=
  match l with
  | [] => None
  | x :: t => if f x then Some (x, t)
              else match take_first f t with
                   | Some (y, t') => Some (y, x :: t')
                   | None => None
                   end
  end.

(* ---- piecerequest.Manager, reduced to what the dispatcher uses *)
(* manager.go:272-282 markStatus: every request of peer p for piece i *)
Definition mark (rs : list req) (p i : nat) (x : rstatus) : list req :=
  map (fun r => if Nat.eqb (r_piece r) i && Nat.eqb (r_peer r) p then mkreq i p x else r) rs.
(* manager.go:228-240 validRequest *)
Definition valid (rs : list req) (p i : nat) (dup : bool) : bool :=
  forallb (fun r => if Nat.eqb (r_piece r) i && is_pending r
                    then (if Nat.eqb (r_peer r) p then false else dup) else true) rs.
(* manager.go:242-265 requestQuota *)
Definition npending (rs : list req) (p : nat) : nat :=
  length (filter (fun r => Nat.eqb (r_peer r) p && is_pending r) rs).
(* manager.go:157-169 Clear *)
Definition clear (rs : list req) (i : nat) : list req :=
  filter (fun r => negb (Nat.eqb (r_piece r) i)) rs.
(* manager.go:186-203 ClearPeer (every request of the peer: fix cfded52) *)
Definition clearpeer (rs : list req) (p : nat) : list req :=
  filter (fun r => negb (Nat.eqb (r_peer r) p)) rs.
(* label Expire: the pending request(s) of p for i are past sentAt + timeout (manager.go:267) *)
Definition expire (rs : list req) (p i : nat) : list req :=
  map (fun r => if Nat.eqb (r_piece r) i && Nat.eqb (r_peer r) p && is_pending r
                then mkreq i p RExpired else r) rs.

Definition has_conn (cs : list conn) (p : nat) : bool := existsb (fun c => Nat.eqb (c_peer c) p) cs.
Definition find_conn (cs : list conn) (p : nat) : option conn := find (fun c => Nat.eqb (c_peer c) p) cs.
Definition del_conn (cs : list conn) (p : nat) : list conn := filter (fun c => negb (Nat.eqb (c_peer c) p)) cs.
(* peer.bitfield.Set(i) (dispatcher.go:533, 574) *)
Definition view_set (cs : list conn) (p i : nat) : list conn :=
  map (fun c => if Nat.eqb (c_peer c) p then mkconn (c_peer c) (c_origin c) (upd (c_view c) i true) else c) cs.

Section Swarm.
Variable P : Type.
Variable plen : P -> N.        (* PieceReader.Length() *)
Variable sum : P -> N.         (* core.PieceHash over the payload *)

(* a WritePiece in progress: piece, sending peer, payload *)
Record wrt := mkwrt { w_piece : nat; w_from : nat; w_data : P }.

(* conn/message.go: the messages that matter here, tagged with both ends of the connection *)
Inductive msg :=
| MReq (from to i : nat)              (* PIECE_REQUEST for the whole piece *)
| MPay (from to i : nat) (b : P)      (* PIECE_PAYLOAD *)
| MErr (from to i : nat).             (* ERROR PIECE_REQUEST_FAILED *)

Definition m_from (m : msg) : nat := match m with MReq f _ _ | MPay f _ _ _ | MErr f _ _ => f end.
Definition m_to (m : msg) : nat := match m with MReq _ t _ | MPay _ t _ _ | MErr _ t _ => t end.
Definition is_req (a p i : nat) (m : msg) : bool :=
  match m with MReq f t j => Nat.eqb f a && Nat.eqb t p && Nat.eqb j i | _ => false end.
Definition is_pay (p a i : nat) (m : msg) : bool :=
  match m with MPay f t j _ => Nat.eqb f p && Nat.eqb t a && Nat.eqb j i | _ => false end.
Definition is_err (p a i : nat) (m : msg) : bool :=
  match m with MErr f t j => Nat.eqb f p && Nat.eqb t a && Nat.eqb j i | _ => false end.
Definition between (a p : nat) (m : msg) : bool :=
  (Nat.eqb (m_from m) a && Nat.eqb (m_to m) p) || (Nat.eqb (m_from m) p && Nat.eqb (m_to m) a).

(* metainfo (blob piece by piece, piece sums) + dispatch.Config + connstate.Config *)
Record cfg := mkcfg {
  g_blob : list P;          (* the blob, cut into pieces *)
  g_sums : list N;          (* MetaInfo piece sums (metainfo.go:103) *)
  g_alimit : nat;           (* AgentPipelineLimit *)
  g_olimit : nat;           (* OriginPipelineLimit *)
  g_endgame : nat;          (* EndgameThreshold *)
  g_noendgame : bool;       (* DisableEndgame *)
  g_maxconn : nat }.        (* MaxOpenConnectionsPerTorrent *)

Definition npieces (g : cfg) : nat := length (g_blob g).
Definition limit (g : cfg) (origin : bool) : nat := if origin then g_olimit g else g_alimit g.

(* the metainfo is the blob's (C02), limits are positive (applyDefaults) *)
Definition sums_ok (g : cfg) : Prop := g_sums g = map sum (g_blob g).
Definition limits_ok (g : cfg) : Prop := 1 <= g_alimit g /\ 1 <= g_olimit g /\ 1 <= g_maxconn g.

Record peer := mkpeer {
  p_kind : kind;
  p_origin : bool;               (* PeerInfo.Origin: decides the pipeline limit others apply *)
  p_up : bool;                   (* false: departed / not yet arrived *)
  p_st : nat -> pstatus;         (* Torrent.pieces[i].status, also the `_status` sidecar *)
  p_dat : nat -> option P;       (* what the file holds at piece i's region (None: never written) *)
  p_committed : bool;            (* Torrent.committed: file moved to the cache *)
  p_reqs : list req;             (* pieceRequestManager *)
  p_conns : list conn;           (* Dispatcher.peers *)
  p_wr : list wrt }.             (* WritePiece calls between tryMarkDirty and markComplete/markEmpty *)

Record state := mkstate { peers : nat -> peer; msgs : list msg }.

Definition set_reqs (x : peer) (v : list req) : peer :=
  mkpeer (p_kind x) (p_origin x) (p_up x) (p_st x) (p_dat x) (p_committed x) v (p_conns x) (p_wr x).
Definition set_conns (x : peer) (v : list conn) : peer :=
  mkpeer (p_kind x) (p_origin x) (p_up x) (p_st x) (p_dat x) (p_committed x) (p_reqs x) v (p_wr x).
Definition set_up (x : peer) (v : bool) : peer :=
  mkpeer (p_kind x) (p_origin x) v (p_st x) (p_dat x) (p_committed x) (p_reqs x) (p_conns x) (p_wr x).

Definition honest (x : peer) : bool := is_honest_k (p_kind x).
Definition all_complete (g : cfg) (st : nat -> pstatus) : bool :=
  forallb (fun i => is_complete (st i)) (seq 0 (npieces g)).
Definition ncomplete (g : cfg) (st : nat -> pstatus) : nat :=
  length (filter (fun i => is_complete (st i)) (seq 0 (npieces g))).
(* dispatcher.go:399-405 *)
Definition endgame (g : cfg) (x : peer) : bool :=
  negb (g_noendgame g) && Nat.leb (npieces g - ncomplete g (p_st x)) (g_endgame g).
(* Torrent.Bitfield() (torrent.go:133) *)
Definition bitfield (x : peer) : nat -> bool := fun i => is_complete (p_st x i).
(* the bitfield a peer presents in a handshake: its own for an honest peer, anything for a corrupting one *)
Definition shown (x : peer) (claim : list nat) : nat -> bool :=
  if honest x then bitfield x else fun i => memb i claim.

Inductive label :=
| Join (x : nat)                         (* start / restart: NewTorrent + restorePieces, Download *)
| Depart (x : nat)                       (* the process goes away; nothing is sent any more *)
| Connect (a p : nat) (claim : list nat) (* announce handout + handshake: both ends AddPeer *)
| Disconnect (a p : nat)                 (* a's feed loop for p ends: removePeer + ClearPeer (dispatcher.go:289) *)
| Request (a p : nat) (pieces : list nat) (nsent : nat)
                                         (* maybeSendPieceRequests (dispatcher.go:413): reserve, send; the
                                            nsent-th Send fails => MarkUnsent, the rest stays reserved *)
| Resend (a p i q : nat)                 (* resendFailedPieceRequests (dispatcher.go:434): the failed
                                            request (p,i) is re-sent to q *)
| Expire (a p i : nat)                   (* the request times out *)
| Serve (p a i : nat)                    (* handlePieceRequest (dispatcher.go:545) *)
| Inject (c : nat) (m : msg)             (* a corrupting peer sends whatever it likes *)
| RecvBegin (a p i : nat)                (* handlePiecePayload up to tryMarkDirty *)
| RecvEnd (a i : nat)                    (* the write finishes: checksum test and its consequences *)
| RecvErr (a p i : nat)                  (* handleError (dispatcher.go:519) *)
| AnnouncePiece (p a i : nat)            (* ANNOUNCE_PIECE / COMPLETE reaches a *)
| Drop (k : nat).                        (* the k-th message in flight is lost (full send buffer) *)

(* maybeSendPieceRequests + Manager.ReservePieces; `pieces` is the policy's selection, accepted iff
   legal (as C15's legal_sel): distinct valid candidates, at most the quota *)
Definition do_request (g : cfg) (s : state) (a p : nat) (pieces : list nat) (nsent : nat) : option state :=
  let x := peers s a in
  if negb (p_up x && honest x) then None else
  match find_conn (p_conns x) p with
  | None => None
  | Some cn =>
      let q := limit g (c_origin cn) - npending (p_reqs x) p in
      if Nat.ltb 0 q && Nat.leb (length pieces) q && Nat.leb nsent (length pieces) && nodupb pieces
         && forallb (fun i => Nat.ltb i (npieces g) && c_view cn i && negb (is_complete (p_st x i))
                              && valid (p_reqs x) p i (endgame g x)) pieces
      then
        let rs := p_reqs x ++ map (fun i => mkreq i p RPending) pieces in
        let rs' := match nth_error pieces nsent with Some i => mark rs p i RUnsent | None => rs end in
        Some (mkstate (upd (peers s) a (set_reqs x rs'))
                      (msgs s ++ map (MReq a p) (firstn nsent pieces)))
      else None
  end.

Definition sum_ok (g : cfg) (i : nat) (b : P) : bool :=
  match nth_error (g_sums g) i with Some v => N.eqb (sum b) v | None => false end.
(* metainfo.GetPieceLength(i) = the length of the blob's piece i; isFullPiece (dispatcher.go:541) *)
Definition len_ok (g : cfg) (i : nat) (b : P) : bool :=
  match nth_error (g_blob g) i with Some pj => N.eqb (plen b) (plen pj) | None => false end.

Definition step (g : cfg) (s : state) (l : label) : option state :=
  match l with
  | Join x =>
      let y := peers s x in
      if p_up y then None else
      (* restorePieces (pieces.go:135): complete stays complete, a dirty piece was never recorded;
         torrent.go:68: all complete => committed (also the empty blob) *)
      let st := fun i => match p_st y i with Complete => Complete | _ => Empty end in
      Some (mkstate (upd (peers s) x
              (mkpeer (p_kind y) (p_origin y) true st (p_dat y) (all_complete g st) [] [] []))
              (filter (fun m => negb (Nat.eqb (m_to m) x)) (msgs s)))
  | Depart x =>
      let y := peers s x in
      if p_up y then
        Some (mkstate (upd (peers s) x (set_up y false))
                      (filter (fun m => negb (Nat.eqb (m_to m) x)) (msgs s)))
      else None
  | Connect a p claim =>
      let x := peers s a in let y := peers s p in
      if negb (Nat.eqb a p) && p_up x && p_up y
         && negb (has_conn (p_conns x) p) && negb (has_conn (p_conns y) a)
         && Nat.ltb (length (p_conns x)) (g_maxconn g) && Nat.ltb (length (p_conns y)) (g_maxconn g)
      then
        let x' := set_conns x (p_conns x ++ [mkconn p (p_origin y) (shown y claim)]) in
        let y' := set_conns y (p_conns y ++ [mkconn a (p_origin x) (shown x claim)]) in
        (* a new TCP connection: nothing of an older one between the two is delivered any more *)
        Some (mkstate (upd (upd (peers s) a x') p y')
                      (filter (fun m => negb (between a p m)) (msgs s)))
      else None
  | Disconnect a p =>
      let x := peers s a in
      if p_up x && has_conn (p_conns x) p then
        Some (mkstate (upd (peers s) a
                (mkpeer (p_kind x) (p_origin x) (p_up x) (p_st x) (p_dat x) (p_committed x)
                        (clearpeer (p_reqs x) p) (del_conn (p_conns x) p) (p_wr x)))
                (filter (fun m => negb (Nat.eqb (m_from m) p && Nat.eqb (m_to m) a)) (msgs s)))
      else None
  | Request a p pieces nsent => do_request g s a p pieces nsent
  | Resend a p i q =>
      let x := peers s a in
      (* dispatcher.go:448: an expired or invalid request is not re-sent to the same peer *)
      if existsb (fun r => Nat.eqb (r_piece r) i && Nat.eqb (r_peer r) p &&
                           match r_st r with
                           | RPending => false
                           | RUnsent => true
                           | RExpired | RInvalid => negb (Nat.eqb q p)
                           end) (p_reqs x)
      then do_request g s a q [i] 1 else None
  | Expire a p i =>
      let x := peers s a in
      if p_up x then Some (mkstate (upd (peers s) a (set_reqs x (expire (p_reqs x) p i))) (msgs s))
      else None
  | Serve p a i =>
      let y := peers s p in
      if p_up y && honest y && has_conn (p_conns y) a then
        match take_first (is_req a p i) (msgs s) with
        | None => None
        | Some (_, rest) =>
            (* GetPieceReader (torrent.go:261): only a complete piece is served *)
            match (if Nat.ltb i (npieces g) && is_complete (p_st y i) then p_dat y i else None) with
            | Some b =>
                Some (mkstate (upd (peers s) p (set_conns y (view_set (p_conns y) a i)))
                              (rest ++ [MPay p a i b]))
            | None => Some (mkstate (peers s) (rest ++ [MErr p a i]))
            end
        end
      else None
  | Inject c m =>
      let y := peers s c in
      if p_up y && negb (honest y) && Nat.eqb (m_from m) c
      then Some (mkstate (peers s) (msgs s ++ [m])) else None
  | RecvBegin a p i =>
      let x := peers s a in
      if p_up x && honest x && has_conn (p_conns x) p then
        match take_first (is_pay p a i) (msgs s) with
        | Some (MPay _ _ _ b, rest) =>
            if len_ok g i b then
              match p_st x i with
              | Complete => Some (mkstate (peers s) rest)                  (* ErrPieceComplete: duplicate *)
              | Dirty =>                                                   (* errWritePieceConflict *)
                  Some (mkstate (upd (peers s) a (set_reqs x (mark (p_reqs x) p i RInvalid))) rest)
              | Empty =>
                  Some (mkstate (upd (peers s) a
                          (mkpeer (p_kind x) (p_origin x) (p_up x) (upd (p_st x) i Dirty) (p_dat x)
                                  (p_committed x) (p_reqs x) (p_conns x) (p_wr x ++ [mkwrt i p b]))) rest)
              end
            else                                                           (* wrong length / bad index *)
              Some (mkstate (upd (peers s) a (set_reqs x (mark (p_reqs x) p i RInvalid))) rest)
        | _ => None
        end
      else None
  | RecvEnd a i =>
      let x := peers s a in
      if p_up x && is_dirty (p_st x i) then
        match take_first (fun w => Nat.eqb (w_piece w) i) (p_wr x) with
        | None => None
        | Some (w, rest) =>
            let dat := upd (p_dat x) i (Some (w_data w)) in               (* io.Copy before the sum test *)
            if sum_ok g i (w_data w) then
              let st := upd (p_st x) i Complete in
              Some (mkstate (upd (peers s) a
                      (mkpeer (p_kind x) (p_origin x) (p_up x) st dat
                              (p_committed x || all_complete g st)           (* torrent.go:238-247 *)
                              (clear (p_reqs x) i) (p_conns x) rest)) (msgs s))
            else
              Some (mkstate (upd (peers s) a
                      (mkpeer (p_kind x) (p_origin x) (p_up x) (upd (p_st x) i Empty) dat
                              (p_committed x) (mark (p_reqs x) (w_from w) i RInvalid) (p_conns x) rest))
                      (msgs s))
        end
      else None
  | RecvErr a p i =>
      let x := peers s a in
      if p_up x && has_conn (p_conns x) p then
        match take_first (is_err p a i) (msgs s) with
        | None => None
        | Some (_, rest) =>
            Some (mkstate (upd (peers s) a (set_reqs x (mark (p_reqs x) p i RInvalid))) rest)
        end
      else None
  | AnnouncePiece p a i =>
      let y := peers s p in let x := peers s a in
      if p_up y && p_up x && has_conn (p_conns x) p && Nat.ltb i (npieces g)
         && (negb (honest y) || is_complete (p_st y i))
      then Some (mkstate (upd (peers s) a (set_conns x (view_set (p_conns x) p i))) (msgs s))
      else None
  | Drop k =>
      match nth_error (msgs s) k with
      | Some _ => Some (mkstate (peers s) (firstn k (msgs s) ++ skipn (S k) (msgs s)))
      | None => None
      end
  end.

(* a label that is not enabled leaves the state alone *)
Definition exec (g : cfg) (s : state) (l : label) : state :=
  match step g s l with Some s' => s' | None => s end.
Definition run (g : cfg) (s : state) (ls : list label) : state := fold_left (exec g) ls s.

(* every label enabled in turn *)
Fixpoint run_strict (g : cfg) (s : state) (ls : list label) : option state :=
  match ls with
  | [] => Some s
  | l :: t => match step g s l with Some s' => run_strict g s' t | None => None end
  end.
(* how many labels of a sequence were not enabled *)
Fixpoint disabled (g : cfg) (s : state) (ls : list label) : nat :=
  match ls with
  | [] => 0
  | l :: t => match step g s l with
              | Some s' => disabled g s' t
              | None => S (disabled g s t)
              end
  end.

(* ---- initial swarm: peer k = the k-th entry (kind, origin flag, verified pieces); everybody is
   still away (label Join brings a peer in), the verified pieces hold the blob's bytes *)
Definition fresh_peer (g : cfg) (k : kind) (origin : bool) (have : list nat) : peer :=
  let h := fun i => Nat.ltb i (npieces g) && memb i have in
  mkpeer k origin false (fun i => if h i then Complete else Empty)
         (fun i => if h i then nth_error (g_blob g) i else None) false [] [] [].
Definition init (g : cfg) (ps : list (kind * bool * list nat)) : state :=
  mkstate (fun x => match nth_error ps x with
                    | Some (k, o, have) => fresh_peer g k o have
                    | None => fresh_peer g Honest false []
                    end) [].

(* ---- what the property speaks about *)
Definition verified (s : state) (x i : nat) : bool := is_complete (p_st (peers s x) i).
(* the cached file of x, piece by piece *)
Definition file (g : cfg) (s : state) (x : nat) : list (option P) :=
  map (p_dat (peers s x)) (seq 0 (npieces g)).
Definition completed (s : state) (x : nat) : bool := p_committed (peers s x).

(* collision-freedom of the checksum on one payload: if it has the length and the sum of one of the
   blob's pieces, it is that piece *)
Definition cf (g : cfg) (b : P) : Prop :=
  forall pj, In pj (g_blob g) -> plen b = plen pj -> sum b = sum pj -> b = pj.
(* the payloads a label sequence brings in from outside (corrupting peers) *)
Definition label_payloads (l : label) : list P :=
  match l with Inject _ (MPay _ _ _ b) => [b] | _ => [] end.
Definition payloads (ls : list label) : list P := flat_map label_payloads ls.

(* ---- the progress witness: a label sequence that makes agent a verify piece i from seeder sd.
   Built in stages; each stage looks at the state the previous stages lead to. *)
Definition stage (g : cfg) (acc : list label * state) (f : state -> list label) : list label * state :=
  let l := f (snd acc) in (fst acc ++ l, run g (snd acc) l).

Definition plan (g : cfg) (s : state) (a sd i : nat) : list label :=
  (* a write of piece i in progress is finished first; it may already be the progress *)
  let l0 := if is_dirty (p_st (peers s a) i) then [RecvEnd a i] else [] in
  let s0 := run g s l0 in
  if is_complete (p_st (peers s0 a) i) then l0 else
  let acc := (l0, s0) in
  (* an old connection between the two is torn down on both sides (removePeer + ClearPeer) *)
  let acc := stage g acc (fun t => if has_conn (p_conns (peers t a)) sd then [Disconnect a sd] else []) in
  let acc := stage g acc (fun t => if has_conn (p_conns (peers t sd)) a then [Disconnect sd a] else []) in
  (* room for one more connection at both ends *)
  let acc := stage g acc (fun t => match p_conns (peers t a) with
                                   | c :: _ => if Nat.leb (g_maxconn g) (length (p_conns (peers t a)))
                                               then [Disconnect a (c_peer c)] else []
                                   | [] => [] end) in
  let acc := stage g acc (fun t => match p_conns (peers t sd) with
                                   | c :: _ => if Nat.leb (g_maxconn g) (length (p_conns (peers t sd)))
                                               then [Disconnect sd (c_peer c)] else []
                                   | [] => [] end) in
  (* announce + handshake *)
  let acc := stage g acc (fun _ => [Connect a sd []]) in
  (* every outstanding request of a times out (those to departed or corrupting peers included) *)
  let acc := stage g acc (fun t => map (fun r => Expire a (r_peer r) (r_piece r)) (p_reqs (peers t a))) in
  fst acc ++ [Request a sd [i] 1; Serve sd a i; RecvBegin a sd i; RecvEnd a i].

(* ---- the property on one observed swarm run (independent of the model's run) ---- *)
Variable peqb : P -> P -> bool.

Inductive rkind := RkOk | RkErr | RkPending | RkNone.
(* per peer: kind, initially verified pieces, the Download result, the pieces verified at the end,
   whether the blob is readable from the cache, and the cached file piece by piece *)
Record pobs := mkpobs {
  o_kind : kind; o_have0 : list nat; o_result : rkind;
  o_bits : list nat; o_cached : bool; o_content : list P }.
(* receive_piece events in emission order: (agent, sending peer, piece) *)
Definition recv := (nat * nat * nat)%type.

Fixpoint list_eqb {A} (e : A -> A -> bool) (a b : list A) : bool :=
  match a, b with
  | [], [] => true
  | x :: a', y :: b' => e x y && list_eqb e a' b'
  | _, _ => false
  end.
Definition subset (a b : list nat) : bool := forallb (fun x => memb x b) a.
Definition set_eqb (a b : list nat) : bool := subset a b && subset b a.

(* boolean collision-freedom over a finite list of payloads *)
Definition cf_list (g : cfg) (bs : list P) : bool :=
  forallb (fun b => forallb (fun pj => implb (N.eqb (plen b) (plen pj) && N.eqb (sum b) (sum pj)) (peqb b pj))
                            (g_blob g)) bs.

Definition received_by (x : nat) (rs : list recv) : list nat :=
  map (fun r => snd r) (filter (fun r => Nat.eqb (fst (fst r)) x) rs).
Definition kind_of (ps : list pobs) (p : nat) : kind :=
  match nth_error ps p with Some o => o_kind o | None => Honest end.

Definition check_peer (g : cfg) (rs : list recv) (k : nat) (o : pobs) : bool :=
  if is_honest_k (o_kind o) then
    let got := received_by k rs in
    (* monotone: a verified piece is verified once, is never lost, nothing appears unverified *)
    nodupb (o_have0 o ++ got) && set_eqb (o_bits o) (o_have0 o ++ got)
    && forallb (fun i => Nat.ltb i (npieces g)) (o_bits o)
    (* safety: success => every piece verified, the blob is in the cache, byte for byte *)
    && match o_result o with
       | RkOk => subset (seq 0 (npieces g)) (o_bits o) && o_cached o
                 && list_eqb peqb (o_content o) (g_blob g)
       | _ => true
       end
    (* whatever the result: a cached file is the blob *)
    && (if o_cached o then list_eqb peqb (o_content o) (g_blob g) else true)
  else true.

Fixpoint check_peers (g : cfg) (rs : list recv) (k : nat) (ps : list pobs) : bool :=
  match ps with
  | [] => true
  | o :: t => check_peer g rs k o && check_peers g rs (S k) t
  end.

(* The property on one observed run, as the statement has it (no escape for checksum collisions:
   the theorems carry that hypothesis, cf / cf_list; a run in which the checksum collides on a
   payload a corrupting peer sent can violate this oracle, see C19_collision_refuted).
   `bad` = the payloads corrupting peers sent; if none of them is a piece of the blob, no piece may
   have been accepted from a corrupting peer. *)
Definition C19_check (g : cfg) (bad : list P) (rs : list recv) (ps : list pobs) : bool :=
  check_peers g rs 0 ps
  && (if forallb (fun b => negb (existsb (peqb b) (g_blob g))) bad
      then forallb (fun r => is_honest_k (kind_of ps (snd (fst r)))) rs else true).

(* ---- the observations of a model run, for the soundness statement of the oracle *)
(* what a label adds to the receive_piece log: a write that ends with the piece verified *)
Definition recv_of (g : cfg) (s : state) (l : label) : list recv :=
  match l with
  | RecvEnd a i =>
      let x := peers s a in
      if p_up x && is_dirty (p_st x i) then
        match take_first (fun w => Nat.eqb (w_piece w) i) (p_wr x) with
        | Some (w, _) => if sum_ok g i (w_data w) then [(a, w_from w, i)] else []
        | None => []
        end
      else []
  | _ => []
  end.
Fixpoint run_log (g : cfg) (s : state) (ls : list label) : list recv :=
  match ls with
  | [] => []
  | l :: t => recv_of g s l ++ run_log g (exec g s l) t
  end.
Definition observe_peer (g : cfg) (s : state) (k : nat) (e : kind * bool * list nat) : pobs :=
  let x := peers s k in
  mkpobs (fst (fst e))
         (filter (fun i => memb i (snd e)) (seq 0 (npieces g)))
         (if p_committed x then RkOk else RkPending)
         (filter (fun i => is_complete (p_st x i)) (seq 0 (npieces g)))
         (p_committed x)
         (flat_map (fun i => match p_dat x i with Some b => [b] | None => [] end) (seq 0 (npieces g))).
Fixpoint observe_from (g : cfg) (s : state) (k : nat) (ps : list (kind * bool * list nat)) : list pobs :=
  match ps with
  | [] => []
  | e :: t => observe_peer g s k e :: observe_from g s (S k) t
  end.
Definition observe (g : cfg) (s : state) (ps : list (kind * bool * list nat)) : list pobs :=
  observe_from g s 0 ps.

End Swarm.

Arguments MReq {P}. Arguments MPay {P}. Arguments MErr {P}.
Arguments Join {P}. Arguments Depart {P}. Arguments Connect {P}. Arguments Disconnect {P}.
Arguments Request {P}. Arguments Resend {P}. Arguments Expire {P}. Arguments Serve {P}.
Arguments Inject {P}. Arguments RecvBegin {P}. Arguments RecvEnd {P}. Arguments RecvErr {P}.
Arguments AnnouncePiece {P}. Arguments Drop {P}.
Arguments mkcfg {P}. Arguments mkpobs {P}.

(* ---- concrete swarms: non-vacuity examples and the refutation witness of Properties/C19.v *)
Local Open Scope N_scope.
(* payloads are numbers, all of length 1; the checksum is injective *)
Definition ex_plen (b : nat) : N := 1.
Definition ex_sum (b : nat) : N := N.of_nat b.
(* three pieces; pipeline 1, no endgame, two connections per peer *)
Definition ex_cfg : cfg nat := mkcfg [10; 11; 12]%nat [10; 11; 12] 1 1 1 true 2.
(* 0 = seeder, 1 and 2 = agents (2 already has piece 1), 3 = corrupting peer *)
Definition ex_peers : list (kind * bool * list nat) :=
  [(Honest, false, [0; 1; 2]); (Honest, false, []); (Honest, false, [1]); (Corrupting, false, [])]%nat.
(* agent 1 connects to the corrupting peer, asks it for piece 0 and gets a bad payload (request
   marked invalid, piece Empty again), asks again (pending); agent 2 fetches piece 0 from the
   seeder; agent 1 spends its second connection on agent 2 and asks it for piece 1; agent 2 departs *)
Definition ex_trace : list (label nat) :=
  [Join 0; Join 1; Join 3; Connect 1 3 [0; 1; 2]; Request 1 3 [0] 1; Inject 3 (MPay 3 1 0 99);
   RecvBegin 1 3 0; RecvEnd 1 0; Request 1 3 [0] 1;
   Join 2; Connect 2 0 []; Request 2 0 [0] 1; Serve 0 2 0; RecvBegin 2 0 0; RecvEnd 2 0;
   Connect 1 2 []; Request 1 2 [1] 1; Depart 2]%nat.
Definition ex_state : state nat := run nat ex_plen ex_sum ex_cfg (init nat ex_cfg ex_peers) ex_trace.

(* the checksum collides: everything sums to 0 *)
Definition col_plen (b : nat) : N := 1.
Definition col_sum (b : nat) : N := 0.
Definition col_cfg : cfg nat := mkcfg [0]%nat [0] 3 5 3 false 10.
Definition col_peers : list (kind * bool * list nat) := [(Honest, false, []); (Corrupting, false, [])].
Definition col_trace : list (label nat) :=
  [Join 0; Join 1; Connect 0 1 [0]; Request 0 1 [0] 1; Inject 1 (MPay 1 0 0 7); RecvBegin 0 1 0; RecvEnd 0 0]%nat.
