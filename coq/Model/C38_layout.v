(* C38: "follows the layout" as executable recognisers on the path text, written without the
   pattern matcher (prefix stripping, splitting at '/', suffix comparison).  They are what a path
   accepted by ParsePath / an extractor must satisfy (Proof/C38_layout.v) and what the
   correspondence run demands of the real functions' answers on arbitrary (mutated) paths. *)
From Coq Require Import List NArith Bool.
From K.Gen Require Import C38_consts.
From K.Model Require Import C38.
Import ListNotations.
Local Open Scope N_scope.

Fixpoint strip_prefix (m s : list N) : option (list N) :=
  match m, s with
  | [], _ => Some s
  | a :: m', c :: s' => if N.eqb a c then strip_prefix m' s' else None
  | _ :: _, [] => None
  end.
Definition starts (m s : list N) : bool := match strip_prefix m s with Some _ => true | None => false end.
(* some suffix of p starts with m and what follows satisfies f *)
Fixpoint occurs_from (m : list N) (f : list N -> bool) (p : list N) : bool :=
  match strip_prefix m p with Some rest => f rest | None => false end
  || match p with [] => false | _ :: t => occurs_from m f t end.
(* ... after a non-empty prefix (the patterns' leading ^.+ ) *)
Definition occurs1 (m : list N) (f : list N -> bool) (p : list N) : bool :=
  match p with [] => false | _ :: t => occurs_from m f t end.
(* r = mid ++ suffix with mid non-empty *)
Definition ends1 (suffix r : list N) : bool :=
  Nat.ltb (length suffix) (length r) && str_eqb (skipn (length r - length suffix) r) suffix.

Definition all_in (f : N -> bool) (s : list N) : bool := nonempty s && forallb f s.
Definition hexish := all_in lower_alnum.        (* [0-9a-z]+ *)
Definition alnums_b := all_in alnum.            (* [a-zA-Z0-9]+ *)
Definition digits_b := all_in digit.            (* [0-9]+ *)
Definition nosl_b (u : list N) : bool := nonempty u && forallb (fun c => negb (N.eqb c SL)) u.   (* [^/]+ *)
Definition is := str_eqb.

(* after ".../_uploads/<uuid>/" *)
Definition hs_ok (rest : list N) : bool :=      (* after "hashstates/" *)
  match segs rest with
  | [a] => alnums_b a
  | [a; o] => alnums_b a && digits_b o
  | _ => false
  end.
Definition up_tail_ok (rest : list N) : bool :=
  is rest s_data || is rest s_startedat
  || match strip_prefix (s_hashstates ++ [SL]) rest with Some r => hs_ok r | None => false end.

Definition lay_uuid (u p : list N) : bool :=
  nosl_b u && occurs1 (SL :: s_uploads ++ SL :: u ++ [SL]) up_tail_ok p.
Definition lay_algo (a o p : list N) : bool :=
  alnums_b a && digits_b o
  && occurs1 (SL :: s_uploads ++ [SL])
       (fun rest => match segs rest with
                    | [u; hs; a'; o'] => nonempty u && is hs s_hashstates && is a' a && is o' o
                    | _ => false end) p.
Definition lay_tag (t : list N) (cur : bool) (p : list N) : bool :=
  nosl_b t
  && occurs1 (SL :: s_manifests ++ SL :: s_tags ++ SL :: t ++ [SL])
       (fun rest => if cur then is rest (s_current ++ SL :: s_link)
                    else match segs rest with
                         | [i; s; h; l] => is i s_index && is s s_sha256 && hexish h && is l s_link
                         | _ => false end) p.
Definition lay_mdigest (h p : list N) : bool :=
  hexish h
  && occurs1 (SL :: s_manifests ++ [SL])
       (fun rest => is rest (s_revisions ++ SL :: s_sha256 ++ SL :: h ++ SL :: s_link)
                    || match strip_prefix (s_tags ++ [SL]) rest with
                       | Some r => ends1 (SL :: s_index ++ SL :: s_sha256 ++ SL :: h ++ SL :: s_link) r
                       | None => false end) p.
Definition lay_layer (h x p : list N) : bool :=
  hexish h && (is x s_link || is x s_data)
  && occurs1 (SL :: s_layers ++ SL :: s_sha256 ++ SL :: h ++ [SL]) (fun rest => is rest x) p.
Definition lay_blob (h p : list N) : bool :=
  hexish h
  && occurs1 (SL :: s_blobs ++ SL :: s_sha256 ++ [SL])
       (fun rest => match segs rest with
                    | [h2; h'; d] => Nat.eqb (length h2) 2 && forallb lower_alnum h2 && is h' h && is d s_data
                    | _ => false end) p.
Definition lay_repo (r p : list N) : bool :=
  nonempty r
  && occurs1 (SL :: s_repositories ++ SL :: r ++ [SL])
       (fun rest => starts s_manifests rest || starts s_layers rest || starts s_uploads rest) p.

Definition lay_parse (ty st p : list N) : bool :=
  (is ty s_manifests && (is st s_tags || is st s_revisions)
   && occurs1 (SL :: s_manifests ++ SL :: st)
        (fun rest => match rest with [] => true | c :: r => N.eqb c SL && ends1 (SL :: s_link) r end) p)
  || (is ty s_uploads
      && occurs1 (SL :: s_uploads ++ [SL])
           (fun rest => match segs rest with
                        | [u; x] => nonempty u && is x st && (is st s_data || is st s_startedat)
                        | [u; x; a] => nonempty u && is x s_hashstates && is st s_hashstates && alnums_b a
                        | [u; x; a; o] => nonempty u && is x s_hashstates && is st s_hashstates && alnums_b a && digits_b o
                        | _ => false end) p)
  || (is ty s_layers
      && occurs1 (SL :: s_layers ++ SL :: s_sha256 ++ [SL])
           (fun rest => match segs rest with
                        | [h; x] => hexish h && is x st && (is st s_link || is st s_data)
                        | _ => false end) p)
  || (is ty s_blobs && is st s_data
      && occurs1 (SL :: s_blobs ++ SL :: s_sha256 ++ [SL])
           (fun rest => match segs rest with
                        | [h2; h; d] => Nat.eqb (length h2) 2 && forallb lower_alnum h2 && hexish h && is d s_data
                        | _ => false end) p).

(* every answer of the eight functions is consistent with the layout *)
Definition on_some {A} (o : option A) (f : A -> bool) : bool := match o with Some x => f x | None => true end.
Definition obs_follows_layout (p : list N) (o : obs) : bool :=
  on_some (o_parse o) (fun x => lay_parse (fst x) (snd x) p)
  && on_some (o_repo o) (fun r => lay_repo r p)
  && on_some (o_tag o) (fun x => lay_tag (fst x) (snd x) p)
  && on_some (o_blob o) (fun h => lay_blob h p && valid_sha256_hex h)
  && on_some (o_layer o) (fun h => (lay_layer h s_link p || lay_layer h s_data p) && valid_sha256_hex h)
  && on_some (o_manifest o) (fun h => lay_mdigest h p && valid_sha256_hex h)
  && on_some (o_uuid o) (fun u => lay_uuid u p)
  && on_some (o_algo o) (fun x => lay_algo (fst x) (snd x) p).

(* the property on one observed case:
   built = Some k: the answers on the path built from valid components are exactly `expected k`;
   in every case: whatever was accepted follows the layout. *)
Definition C38_check2 (path : list N) (built : option pk) (o : obs) : bool :=
  C38_check path built o && obs_follows_layout path o.
