(* C11 — no client-supplied name makes a store touch files outside its directory.

   Executable model of
     lib/store/base/file_entry.go   localFileEntryFactory.Create / GetRelativePath (:111-124),
                                    casFileEntryFactory.GetRelativePath (:187-196),
                                    localFileEntry.GetPath (:268), getMetadataPath (:478), Move's target paths (:393-410)
     utils/httputil/httputil.go     ParseParam (:436-447)  = chi.URLParam + url.PathUnescape
     path/filepath (unix)           Clean, Join, Dir        (Clean/Join: Model/PathLib.v, owned by C36, imported read-only)
     net/url                        PathUnescape            (unescape, mode encodePathSegment)

   The name check modelled by [local_accepts] is the code WITH fixes/C11_reject_dot_names.patch
   (names "." and ".." rejected).  [local_accepts_prefix] is the check of the pinned commit, kept as the
   mutant whose violation is C11_dotdot_refuted.  Definitions only; proofs are in Proof/C11.v. *)
From Coq Require Import List NArith ZArith Bool.
From K.Model Require Export PathLib.
From K.Gen Require Import C11_consts.
Import ListNotations.
Local Open Scope N_scope.

(* ---------- strings *)

(* strings.HasSuffix(s, p) *)
Definition suffixb (p s : str) : bool := prefixb (rev p) (rev s).

Definition percent : N := 37.

(* ---------- path/filepath.Dir on unix (path.go:Dir): Clean(path[:lastSlash+1]) *)
Fixpoint drop_to_slash (l : str) : str :=
  match l with
  | [] => []
  | c :: t => if c =? slash then l else drop_to_slash t
  end.
Definition dir_part (p : str) : str := rev (drop_to_slash (rev p)).
Definition dir_of (p : str) : str := clean (dir_part p).

(* ---------- net/url.PathUnescape (url.go:unescape, mode encodePathSegment):
   "%XY" with two hex digits decodes to one byte; a '%' not followed by two hex digits is an error;
   every other byte (including '+') is copied. *)
Definition ishex (c : N) : bool :=
  ((48 <=? c) && (c <=? 57)) || ((97 <=? c) && (c <=? 102)) || ((65 <=? c) && (c <=? 70)).
Definition unhex (c : N) : N :=
  if (48 <=? c) && (c <=? 57) then c - 48
  else if (97 <=? c) && (c <=? 102) then c - 97 + 10
  else if (65 <=? c) && (c <=? 70) then c - 65 + 10
  else 0.

Fixpoint unescape (s : str) : option str :=
  match s with
  | [] => Some []
  | c :: t =>
      if c =? percent then
        match t with
        | a :: b :: t' =>
            if ishex a && ishex b
            then match unescape t' with Some r => Some ((16 * unhex a + unhex b) :: r) | None => None end
            else None
        | _ => None
        end
      else match unescape t with Some r => Some (c :: r) | None => None end
  end.

(* httputil.ParseParam (httputil.go:436): empty parameter -> 400, unescape error -> 400 *)
Definition parse_param (raw : str) : option str :=
  if is_nil raw then None else unescape raw.

(* the encoding a client can always use: every byte as %XY *)
Definition hexdigit (n : N) : N := if n <? 10 then 48 + n else 65 + (n - 10).
Fixpoint escape_all (s : str) : str :=
  match s with
  | [] => []
  | c :: t => percent :: hexdigit (c / 16) :: hexdigit (c mod 16) :: escape_all t
  end.
Definition is_byte (c : N) : bool := c <? 256.

(* ---------- net/url.escape(mode encodePath) and the parameter a chi route hands to the handler.
   URL.setPath (url.go:692): Path = unescape(p); RawPath = "" iff p == escape(Path, encodePath).
   chi Mux.routeHTTP (mux.go:404): routes on RawPath if non-empty, else on Path.  So a parameter written
   in Go's default encoding reaches httputil.ParseParam already decoded — and is decoded again. *)
Definition alnum (c : N) : bool :=
  ((48 <=? c) && (c <=? 57)) || ((97 <=? c) && (c <=? 122)) || ((65 <=? c) && (c <=? 90)).
Definition keep_in_path (c : N) : bool :=    (* not shouldEscape(c, encodePath), url.go:103 *)
  alnum c || existsb (N.eqb c) [45; 95; 46; 126; 36; 38; 43; 44; 47; 58; 59; 61; 64].
Fixpoint escape_path (s : str) : str :=
  match s with
  | [] => []
  | c :: t => if keep_in_path c then c :: escape_path t
              else percent :: hexdigit (c / 16) :: hexdigit (c mod 16) :: escape_path t
  end.
Definition route_param (raw : str) : option str :=
  match unescape raw with
  | None => None                                  (* net/http answers 400 before any handler *)
  | Some p => Some (if str_eqb raw (escape_path p) then p else raw)
  end.
(* the name the handler works with: chi.URLParam, then httputil.ParseParam *)
Definition http_name (raw : str) : option str :=
  match route_param raw with Some p => parse_param p | None => None end.

(* ---------- the name check *)

(* file_entry.go:111-116 at the pinned commit *)
Definition local_accepts_prefix (name : str) : bool :=
  str_eqb name (clean name)                         (* name != filepath.Clean(name) -> ErrInvalidName *)
  && negb (prefixb [slash] name)                    (* HasPrefix(name, "/") *)
  && negb (suffixb [slash] name)                    (* HasSuffix(name, "/") *)
  && negb (prefixb [dot; dot; slash] name).         (* HasPrefix(name, "../") *)

(* with fixes/C11_reject_dot_names.patch: additionally name == "." || name == ".." -> ErrInvalidName *)
Definition local_accepts (name : str) : bool :=
  local_accepts_prefix name && negb (is_dot name) && negb (is_dotdot name).

(* ---------- paths of one local file entry *)

Definition data_name : str := data_file_name.       (* base.DefaultDataFileName, extracted from const.go *)

(* GetRelativePath (file_entry.go:122): filepath.Join(name, DefaultDataFileName) *)
Definition local_rel (name : str) : str := join [name; data_name].

(* GetPath (file_entry.go:268): filepath.Join(state.GetDirectory(), relativeDataPath) *)
Definition path_of (dir rel : str) : str := join [dir; rel].
Definition entry_path (dir name : str) : str := path_of dir (local_rel name).

(* filepath.Dir(entry.GetPath()): the directory MkdirAll'ed by Create/MoveFrom, listed by Reload,
   RemoveAll'ed by Delete / Move *)
Definition entry_dir (dir name : str) : str := dir_of (entry_path dir name).

(* getMetadataPath (file_entry.go:478): filepath.Join(filepath.Dir(entry.GetPath()), md.GetSuffix()) *)
Definition md_path_of (p suffix : str) : str := join [dir_of p; suffix].
Definition md_path (dir name suffix : str) : str := md_path_of (entry_path dir name) suffix.

(* localFileEntryFactory.Create + GetPath: None = ErrInvalidName *)
Definition local_create (dir name : str) : option str :=
  if local_accepts name then Some (entry_path dir name) else None.
Definition local_create_prefix (dir name : str) : option str :=
  if local_accepts_prefix name then Some (entry_path dir name) else None.

(* ---------- content-addressed entries (casFileEntryFactory.GetRelativePath, file_entry.go:187-196) *)
Fixpoint cas_shards (n : nat) (name : str) : list str :=
  match n, name with
  | S n', a :: b :: t => [a; b] :: cas_shards n' t      (* i < DefaultShardIDLength && i < len(name)/2 *)
  | _, _ => []
  end.
Definition shard_n : nat := Z.to_nat shard_id_length.
Definition cas_rel (name : str) : str :=
  let fp := fold_left (fun acc d => join [acc; d]) (cas_shards shard_n name) [] in
  join [fp; name; data_name].
Definition cas_path (dir name : str) : str := path_of dir (cas_rel name).

(* names the CAS factory is given: core.Digest.Hex() — lower-case hex (C39); the theorem needs only
   "non-empty, no '/', no '.'" *)
Definition cas_name_ok (name : str) : bool :=
  negb (is_nil name) && forallb (fun c => negb (c =? slash) && negb (c =? dot)) name.

(* ---------- blob names: core.ParseSHA256Digest (core/digest.go:72-94) + ValidateSHA256 (:159):
   non-empty, exactly one ':', algo "sha256", 64 hex digits (hex.DecodeString takes both cases);
   the CAS factory is then given the hex part (Digest.Hex()) *)
Definition colon : N := 58.
Definition sha256_lit : str := [115; 104; 97; 50; 53; 54].
Definition parse_digest (raw : str) : option str :=
  match split_on colon raw with
  | [algo; h] =>
      if str_eqb algo sha256_lit && (N.of_nat (length h) =? 64) && forallb ishex h then Some h else None
  | _ => None
  end.

(* ---------- containment *)

(* lexical "root/rel" for an already cleaned root *)
Definition under (croot rel : str) : str :=
  if str_eqb croot [dot] then rel
  else if str_eqb croot [slash] then slash :: rel
  else croot ++ slash :: rel.

Fixpoint strip_prefix (l p : list str) : option (list str) :=
  match l, p with
  | [], _ => Some p
  | x :: l', y :: p' => if str_eqb x y then strip_prefix l' p' else None
  | _ :: _, [] => None
  end.

(* p lies strictly inside root: after lexical cleaning, p's element list is root's element list
   followed by at least one more element, all of the additional ones ordinary (no "..", so the walk
   from root only descends).  Purely lexical: symbolic links below root are not considered. *)
Definition inside (root p : str) : bool :=
  let r := is_rooted root in
  Bool.eqb r (is_rooted p) &&
  match strip_prefix (rev (cstack r root)) (rev (cstack r p)) with
  | Some (x :: rest) => forallb is_normal (x :: rest)
  | _ => false
  end.

(* ---------- what the operating system refuses (only used to predict result kinds in Run/C11_run.v):
   a NUL byte (EINVAL) or a path element longer than NAME_MAX (ENAMETOOLONG) *)
Definition storable (name : str) : bool :=
  negb (existsb (N.eqb 0) name) && forallb (fun c => (N.of_nat (length c) <=? 255)) (comps name).

(* ---------- the property on one observation: a path the implementation produced for (dir, name) *)
Definition C11_check (dir : str) (observed : option str) : bool :=
  match observed with
  | None => true                                   (* rejected with an error: nothing touched *)
  | Some p => inside (clean dir) p
  end.
