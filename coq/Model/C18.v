(* Model of torrent idle tracking and idle removal:
   lib/torrent/scheduler/dispatch/torrent_access_watcher.go (lastRead / lastWrite),
   lib/torrent/scheduler/events.go preemptionTickEvent (torrent part) and removeTorrentEvent,
   lib/torrent/scheduler/state.go removeTorrent.
   One torrent control is followed along a timeline of piece uploads, piece downloads, clock
   advances, preemption ticks and a manual removal.  Executable definitions only. *)
From Coq Require Import List NArith Bool.
Import ListNotations.
Local Open Scope N_scope.

Record cfg := mkCfg { seeder_tti : N; leecher_tti : N; npieces : N }.

Record st := mkS {
  present : bool;        (* the scheduler holds a torrent control for the torrent *)
  complete : bool;       (* dispatcher.Complete() *)
  have : list N;         (* pieces written so far *)
  lastr : N;             (* torrentAccessWatcher.lastRead *)
  lastw : N;             (* torrentAccessWatcher.lastWrite *)
  now : N;
  blob : bool;           (* blob is in the cache directory *)
  partialf : bool        (* a file is in the download directory *)
}.

Inductive op :=
| Advance (dt : N)
| Serve (i : N) (closed : bool)   (* a peer requests piece i; closed: the connection took the payload
                                     and closed its reader (conn.go:259); false: Send failed, reader dropped *)
| Write (i : N) (good : bool)     (* a peer delivers piece i; good: payload matches the piece checksum *)
| Tick                            (* preemptionTickEvent applied *)
| Cancel.                         (* removeTorrentEvent applied (Scheduler.RemoveTorrent) *)

Definition memb (x : N) (l : list N) : bool := existsb (N.eqb x) l.

(* a control created at time t0: seeding (blob already cached) or leeching (fresh download file) *)
Definition init (seeding : bool) (c : cfg) (t0 : N) : st :=
  if seeding then mkS true true [] t0 t0 t0 true false
  else mkS true false [] t0 t0 t0 false true.

(* does piece i exist on disk for reading? *)
Definition readable (c : cfg) (s : st) (i : N) : bool :=
  (i <? npieces c) && (complete s || memb i (have s)).

Definition all_have (c : cfg) (l : list N) : bool :=
  forallb (fun i => memb i l) (map N.of_nat (seq 0 (N.to_nat (npieces c)))).

Definition idle_seeder (c : cfg) (s : st) : bool := complete s && (seeder_tti c <=? now s - lastr s).
Definition idle_leecher (c : cfg) (s : st) : bool := negb (complete s) && (leecher_tti c <=? now s - lastw s).

(* [fixed] = torrent_access_watcher.go:62 touches lastRead when Close SUCCEEDS (the repaired
   code); false = the inverted test of the code before the fix, kept as a mutant *)
Definition step_gen (fixed : bool) (c : cfg) (s : st) (o : op) : st :=
  match o with
  | Advance dt => mkS (present s) (complete s) (have s) (lastr s) (lastw s) (now s + dt) (blob s) (partialf s)
  | Serve i closed =>
      (* dispatcher.go:545 handlePieceRequest -> GetPieceReader -> Send -> conn closes the reader *)
      if present s && readable c s i && closed && fixed
      then mkS (present s) (complete s) (have s) (now s) (lastw s) (now s) (blob s) (partialf s)
      else s
  | Write i good =>
      (* dispatcher.go:579 handlePiecePayload -> torrentAccessWatcher.WritePiece (touch on success) *)
      if present s && negb (complete s) && (i <? npieces c) && negb (memb i (have s)) && good
      then
        let hv := i :: have s in
        if all_have c hv
        then mkS true true hv (lastr s) (now s) (now s) true false        (* committed to the cache *)
        else mkS true false hv (lastr s) (now s) (now s) (blob s) (partialf s)
      else s
  | Tick =>
      (* events.go:424-441 *)
      if present s && (idle_seeder c s || idle_leecher c s)
      then
        (* state.go:102 removeTorrent: an in-progress torrent is deleted from the archive *)
        if complete s then mkS false true (have s) (lastr s) (lastw s) (now s) (blob s) (partialf s)
        else mkS false false (have s) (lastr s) (lastw s) (now s) false false
      else s
  | Cancel =>
      (* events.go:463: removeTorrent, then torrentArchive.DeleteTorrent(digest) *)
      mkS false (complete s) (have s) (lastr s) (lastw s) (now s) false false
  end.

Definition step := step_gen true.
Definition step_prefix := step_gen false.

Definition run_gen (fixed : bool) (c : cfg) (s0 : st) (ops : list op) : st := fold_left (step_gen fixed c) ops s0.
Definition run := run_gen true.
Definition run_prefix := run_gen false.

(* observables after every op *)
Record snap := mkSnap { o_present : bool; o_complete : bool; o_lastr : N; o_lastw : N; o_blob : bool; o_partial : bool }.
Definition observe (s : st) : snap := mkSnap (present s) (complete s) (lastr s) (lastw s) (blob s) (partialf s).

Fixpoint trace_gen (fixed : bool) (c : cfg) (s : st) (ops : list op) : list snap :=
  match ops with
  | [] => []
  | o :: t => let s' := step_gen fixed c s o in observe s' :: trace_gen fixed c s' t
  end.
Definition trace := trace_gen true.

Definition snap_eqb (a b : snap) : bool :=
  Bool.eqb (o_present a) (o_present b) && Bool.eqb (o_complete a) (o_complete b) &&
  N.eqb (o_lastr a) (o_lastr b) && N.eqb (o_lastw a) (o_lastw b) &&
  Bool.eqb (o_blob a) (o_blob b) && Bool.eqb (o_partial a) (o_partial b).
Fixpoint snaps_eqb (a b : list snap) : bool :=
  match a, b with
  | [], [] => true
  | x :: a', y :: b' => snap_eqb x y && snaps_eqb a' b'
  | _, _ => false
  end.

(* ---- the property, stated on a timeline independently of lastr/lastw:
   activity times are recomputed from the history ---- *)

(* time of the most recent effective upload (reader opened and closed) resp. download,
   starting from the creation time, given the observed presence/completeness before each op *)
Record hist := mkH { h_now : N; h_last_up : N; h_last_down : N; h_have : list N; h_complete : bool; h_present : bool }.

Definition hstep (c : cfg) (h : hist) (o : op) (after : snap) : hist :=
  match o with
  | Advance dt => mkH (h_now h + dt) (h_last_up h) (h_last_down h) (h_have h) (h_complete h) (h_present h)
  | Serve i closed =>
      if h_present h && (i <? npieces c) && (h_complete h || memb i (h_have h)) && closed
      then mkH (h_now h) (h_now h) (h_last_down h) (h_have h) (h_complete h) (h_present h)
      else h
  | Write i good =>
      if h_present h && negb (h_complete h) && (i <? npieces c) && negb (memb i (h_have h)) && good
      then mkH (h_now h) (h_last_up h) (h_now h) (i :: h_have h) (all_have c (i :: h_have h)) (h_present h)
      else h
  | Tick => mkH (h_now h) (h_last_up h) (h_last_down h) (h_have h) (h_complete h) (o_present after)
  | Cancel => mkH (h_now h) (h_last_up h) (h_last_down h) (h_have h) (h_complete h) false
  end.

(* one observed step obeys the property *)
Definition step_ok (c : cfg) (h : hist) (before : snap) (o : op) (after : snap) : bool :=
  match o with
  | Tick =>
      if o_present before && negb (o_present after) then
        (* dropped as idle: only after no upload for the seeder limit (complete) resp. no
           download for the leecher limit (in progress) *)
        (if h_complete h
         then (seeder_tti c <=? h_now h - h_last_up h) && Bool.eqb (o_blob after) (o_blob before)   (* blob never deleted *)
         else (leecher_tti c <=? h_now h - h_last_down h) && negb (o_partial after))               (* partial file deleted *)
      else
        (* not dropped although present: must not be idle (the limits are honoured both ways) *)
        (if o_present before
         then (if h_complete h then negb (seeder_tti c <=? h_now h - h_last_up h)
               else negb (leecher_tti c <=? h_now h - h_last_down h))
         else true)
        && Bool.eqb (o_blob after) (o_blob before) && Bool.eqb (o_partial after) (o_partial before)
  | Cancel => negb (o_present after) && negb (o_partial after)
  | _ => Bool.eqb (o_present after) (o_present before) &&
         (* activity never deletes a cached blob *)
         (negb (o_blob before) || o_blob after)
  end.

Fixpoint check_from (c : cfg) (h : hist) (before : snap) (ops : list op) (obs : list snap) : bool :=
  match ops, obs with
  | [], [] => true
  | o :: t, a :: t' => step_ok c h before o a && check_from c (hstep c h o a) a t t'
  | _, _ => false
  end.

Definition C18_check (seeding : bool) (c : cfg) (t0 : N) (ops : list op) (obs : list snap) : bool :=
  let s0 := init seeding c t0 in
  check_from c (mkH t0 t0 t0 [] seeding true) (observe s0) ops obs.

(* ---- activity times recomputed from the timeline (used to state the theorems) ---- *)
(* times of effective uploads (a piece reader was opened and closed) and downloads *)
Fixpoint uploads (c : cfg) (s : st) (ops : list op) : list N :=
  match ops with
  | [] => []
  | o :: t =>
      (match o with
       | Serve i closed => if present s && readable c s i && closed then [now s] else []
       | _ => []
       end) ++ uploads c (step c s o) t
  end.

Fixpoint downloads (c : cfg) (s : st) (ops : list op) : list N :=
  match ops with
  | [] => []
  | o :: t =>
      (match o with
       | Write i good =>
           if present s && negb (complete s) && (i <? npieces c) && negb (memb i (have s)) && good
           then [now s] else []
       | _ => []
       end) ++ downloads c (step c s o) t
  end.

