(* C39 — identifiers and metadata serialise and parse losslessly.
   Executable model of the print / parse functions of
     core/digest.go, core/infohash.go, core/peer_id.go,
     lib/store/metadata/last_access_time.go, lib/store/metadata/persist.go,
     lib/torrent/storage/agentstorage/pieces.go (status vector),
     github.com/willf/bitset (binary form, as used by handshaker.go),
     lib/torrent/scheduler/conn/handshaker.go (handshake <-> p2p bitfield message).
   Definitions only; proofs live in Proof/C39*.v.
   Bytes are N < 256, strings are list N. *)
From Coq Require Import List NArith ZArith Bool.
Import ListNotations.
Local Open Scope N_scope.

(* outcome of a print / parse call: value, returned error, or run-time panic *)
Inductive res (A : Type) : Type := Ok (a : A) | Err | Panic.
Arguments Ok {A} a.
Arguments Err {A}.
Arguments Panic {A}.

Fixpoint leqb (a b : list N) : bool :=
  match a, b with
  | [], [] => true
  | x :: a', y :: b' => (x =? y) && leqb a' b'
  | _, _ => false
  end.

Definition is_byte (x : N) : bool := x <? 256.

(* ------------------------------------------------------------------ *)
(* encoding/hex                                                        *)

(* hex.reverseHexTable: 0-9, a-f, A-F *)
Definition hexval (c : N) : option N :=
  if (48 <=? c) && (c <=? 57) then Some (c - 48)
  else if (97 <=? c) && (c <=? 102) then Some (c - 87)
  else if (65 <=? c) && (c <=? 70) then Some (c - 55)
  else None.
Definition is_hex (c : N) : bool := match hexval c with Some _ => true | None => false end.

(* hex.hextable = "0123456789abcdef" *)
Definition hexdigit (v : N) : N := if v <? 10 then 48 + v else 87 + v.

(* hex.EncodeToString *)
Fixpoint hex_encode (b : list N) : list N :=
  match b with
  | [] => []
  | x :: t => hexdigit (x / 16) :: hexdigit (x mod 16) :: hex_encode t
  end.

(* hex.DecodeString / hex.Decode: error on a non-hex character or odd length *)
Fixpoint hex_decode (s : list N) : option (list N) :=
  match s with
  | [] => Some []
  | [_] => None
  | a :: b :: t =>
      match hexval a, hexval b, hex_decode t with
      | Some x, Some y, Some r => Some (16 * x + y :: r)
      | _, _, _ => None
      end
  end.

(* ASCII lower-casing of hex letters (what print(parse s) does to s) *)
Definition lower (c : N) : N := if (65 <=? c) && (c <=? 70) then c + 32 else c.

(* ------------------------------------------------------------------ *)
(* core/digest.go                                                      *)

Record dg := mkd { d_algo : list N; d_hex : list N; d_raw : list N }.

Definition sha256_str : list N := [115; 104; 97; 50; 53; 54].   (* core/digester.go:25 SHA256 = "sha256" *)
Definition colon : N := 58.

(* strings.Split(s, sep) for a one-byte separator: always at least one part *)
Fixpoint split_on (sep : N) (s : list N) : list (list N) :=
  match s with
  | [] => [[]]
  | c :: t =>
      if c =? sep then [] :: split_on sep t
      else match split_on sep t with
           | p :: ps => (c :: p) :: ps
           | [] => [[c]]
           end
  end.

(* digest.go:159 ValidateSHA256 *)
Definition validate_sha256 (s : list N) : bool :=
  Nat.eqb (length s) 64 && match hex_decode s with Some _ => true | None => false end.

(* digest.go:72 ParseSHA256Digest *)
Definition digest_parse (raw : list N) : res dg :=
  match raw with
  | [] => Err                                                     (* :73 *)
  | _ =>
    match split_on colon raw with                                 (* :76 *)
    | [algo; hex] =>
        if leqb algo sha256_str                                   (* :82 *)
        then if validate_sha256 hex then Ok (mkd algo hex raw) else Err   (* :85-92 *)
        else Err
    | _ => Err                                                    (* :77 *)
    end
  end.

(* digest.go:133 String *)
Definition digest_string (d : dg) : list N := d_raw d.

(* digest.go:59 NewSHA256DigestFromHex; raw = fmt.Sprintf("%s:%s", SHA256, hex) *)
Definition digest_from_hex (hex : list N) : res dg :=
  if validate_sha256 hex then Ok (mkd sha256_str hex (sha256_str ++ colon :: hex)) else Err.

(* the digests the constructors can produce *)
Definition dg_wfb (d : dg) : bool :=
  leqb (d_algo d) sha256_str && validate_sha256 (d_hex d) && leqb (d_raw d) (d_algo d ++ colon :: d_hex d).

(* independent statement of well-formed digest text: "sha256:" followed by 64 hex characters *)
Definition digest_text_wfb (raw : list N) : bool :=
  leqb (firstn 7 raw) (sha256_str ++ [colon]) && Nat.eqb (length (skipn 7 raw)) 64 && forallb is_hex (skipn 7 raw).

Definition dg_eqb (a b : dg) : bool :=
  leqb (d_algo a) (d_algo b) && leqb (d_hex a) (d_hex b) && leqb (d_raw a) (d_raw b).

(* ------------------------------------------------------------------ *)
(* encoding/json as used by Digest.MarshalJSON/UnmarshalJSON, Digest.Value/Scan and
   DigestList.Value/Scan (digest.go:30-45, 96-130).
   Only JSON strings, arrays of strings and null can be accepted by these entry points:
   any other document is either a syntax error (checkValid) or a type error. *)

Definition quote : N := 34.
Definition is_ws (c : N) : bool := (c =? 32) || (c =? 9) || (c =? 10) || (c =? 13).
Fixpoint skip_ws (s : list N) : list N :=
  match s with
  | c :: t => if is_ws c then skip_ws t else s
  | [] => []
  end.
Definition all_ws (s : list N) : bool := forallb is_ws s.

(* one-character escapes of a JSON string: backslash followed by quote, backslash, slash, b, f, n, r, t *)
Definition simple_escape (e : N) : option N :=
  if e =? 34 then Some 34 else if e =? 92 then Some 92 else if e =? 47 then Some 47
  else if e =? 98 then Some 8 else if e =? 102 then Some 12 else if e =? 110 then Some 10
  else if e =? 114 then Some 13 else if e =? 116 then Some 9 else None.

(* a \uXXXX escape decodes to one byte when the code point is ASCII; every other code point
   becomes a multi-byte UTF-8 sequence (or U+FFFD), i.e. bytes >= 128, none of which can occur
   in a digest: 255 stands for them. Raw bytes >= 128 are passed through for the same reason. *)
Definition cp_bytes (v : N) : list N := if v <? 128 then [v] else [255].

(* body of a JSON string after the opening quote: (decoded bytes, rest after the closing quote) *)
Fixpoint jstr (s : list N) : option (list N * list N) :=
  match s with
  | [] => None
  | c :: t =>
      if c =? quote then Some ([], t)
      else if c <? 32 then None                     (* control character: syntax error *)
      else if c =? 92 then
        match t with
        | [] => None
        | e :: t' =>
            if e =? 117 then                        (* \uXXXX *)
              match t' with
              | h1 :: h2 :: h3 :: h4 :: t'' =>
                  match hexval h1, hexval h2, hexval h3, hexval h4, jstr t'' with
                  | Some a, Some b, Some c', Some d, Some (r, rest) =>
                      Some (cp_bytes (4096 * a + 256 * b + 16 * c' + d) ++ r, rest)
                  | _, _, _, _, _ => None
                  end
              | _ => None
              end
            else
              match simple_escape e, jstr t' with
              | Some x, Some (r, rest) => Some (x :: r, rest)
              | _, _ => None
              end
        end
      else match jstr t with
           | Some (r, rest) => Some (c :: r, rest)
           | None => None
           end
  end.

(* a whole document consisting of one JSON string *)
Definition json_string_doc (s : list N) : option (list N) :=
  match skip_ws s with
  | c :: t =>
      if c =? quote then
        match jstr t with
        | Some (r, rest) => if all_ws rest then Some r else None
        | None => None
        end
      else None
  | [] => None
  end.

(* digest.go:114 UnmarshalJSON (also reached through Scan, :105) *)
Definition digest_json_parse (s : list N) : res dg :=
  match json_string_doc s with
  | Some raw => digest_parse raw
  | None => Err
  end.

(* digest.go:128 MarshalJSON = json.Marshal(d.raw); a digest's text needs no escaping *)
Definition digest_json_print (d : dg) : list N := quote :: d_raw d ++ [quote].

(* elements of a JSON array of digests, the text standing at the first element *)
Fixpoint dl_elems (fuel : nat) (s : list N) : res (list dg) :=
  match fuel with
  | O => Err
  | S f =>
    match s with
    | c :: t =>
        if c =? quote then
          match jstr t with
          | Some (raw, rest) =>
              match digest_parse raw with
              | Ok d =>
                  match skip_ws rest with
                  | k :: r =>
                      if k =? 44 then                               (* , *)
                        match dl_elems f (skip_ws r) with
                        | Ok l => Ok (d :: l)
                        | _ => Err
                        end
                      else if k =? 93 then                          (* ] *)
                        if all_ws r then Ok [d] else Err
                      else Err
                  | [] => Err
                  end
              | _ => Err
              end
          | None => Err
          end
        else Err
    | [] => Err
    end
  end.

(* digest.go:39 DigestList.Scan = json.Unmarshal into a nil slice:
   null -> nil (None); [] -> empty non-nil slice (Some []); [d1,...] *)
Definition dl_parse (s : list N) : res (option (list dg)) :=
  match skip_ws s with
  | c :: t =>
      if c =? 91 then                                               (* [ *)
        match skip_ws t with
        | k :: r =>
            if k =? 93 then (if all_ws r then Ok (Some []) else Err)
            else match dl_elems (length s) (k :: r) with
                 | Ok l => Ok (Some l)
                 | _ => Err
                 end
        | [] => Err
        end
      else if c =? 110 then                                         (* null *)
        if leqb (firstn 3 t) [117; 108; 108] then (if all_ws (skipn 3 t) then Ok None else Err) else Err
      else Err
  | [] => Err
  end.

Fixpoint dl_join (l : list dg) : list N :=
  match l with
  | [] => []
  | [d] => digest_json_print d
  | d :: t => digest_json_print d ++ 44 :: dl_join t
  end.

(* digest.go:30 DigestList.Value = json.Marshal(l) *)
Definition dl_print (l : option (list dg)) : list N :=
  match l with
  | None => [110; 117; 108; 108]
  | Some l => 91 :: dl_join l ++ [93]
  end.

(* ------------------------------------------------------------------ *)
(* core/infohash.go, core/peer_id.go: 20 raw bytes                     *)

(* infohash.go:27 NewInfoHashFromHex *)
Definition infohash_parse (s : list N) : res (list N) :=
  if Nat.eqb (length s) 40                                         (* :28 *)
  then match hex_decode s with
       | Some b => if Nat.eqb (length b) 20 then Ok b else Err      (* :36 *)
       | None => Err                                                (* :33 *)
       end
  else Err.
(* infohash.go:57 Hex / String *)
Definition infohash_print (b : list N) : list N := hex_encode b.

(* peer_id.go:56 NewPeerID *)
Definition peerid_parse (s : list N) : res (list N) :=
  match hex_decode s with
  | Some b => if Nat.eqb (length b) 20 then Ok b else Err          (* :61 *)
  | None => Err                                                    (* :58 *)
  end.
(* peer_id.go:70 String *)
Definition peerid_print (b : list N) : list N := hex_encode b.

Definition id20_wfb (b : list N) : bool := Nat.eqb (length b) 20 && forallb is_byte b.

(* ------------------------------------------------------------------ *)
(* agentstorage/pieces.go: piece status vector                         *)

Definition st_empty : N := 0.      (* pieces.go:35 *)
Definition st_complete : N := 1.   (* pieces.go:36 *)
Definition st_dirty : N := 2.      (* pieces.go:37 *)

(* pieces.go:63 Serialize: b[i] = byte(p.status) *)
Definition status_print (v : list N) : list N := map (fun s => s mod 256) v.
(* pieces.go:71 Deserialize: anything but empty / complete is logged and read as empty; never an error *)
Definition status_norm (x : N) : N := if (x =? st_empty) || (x =? st_complete) then x else st_empty.
Definition status_parse (b : list N) : list N := map status_norm b.
(* the statuses that are ever persisted *)
Definition status_persistent (x : N) : bool := (x =? st_empty) || (x =? st_complete).

(* ------------------------------------------------------------------ *)
(* metadata/last_access_time.go: zig-zag varint of Unix seconds        *)

Local Open Scope Z_scope.
Definition int64b (z : Z) : bool := (- 2 ^ 63 <=? z) && (z <? 2 ^ 63).
(* binary.PutVarint: ux := uint64(x) << 1; if x < 0 { ux = ^ux } *)
Definition zigzag (z : Z) : N := if z <? 0 then Z.to_N (- 2 * z - 1) else Z.to_N (2 * z).
(* binary.Varint: x := int64(ux >> 1); if ux&1 != 0 { x = ^x } *)
Definition unzigzag (u : N) : Z :=
  if N.even u then Z.of_N (u / 2) else - Z.of_N (u / 2) - 1.
Local Open Scope N_scope.

(* binary.PutUvarint: 7 bits per byte, least significant group first, high bit = continuation.
   fuel 10 = MaxVarintLen64 covers every uint64. *)
Fixpoint uvarint_enc (fuel : nat) (u : N) : list N :=
  match fuel with
  | O => []
  | S f => if u <? 128 then [u] else (u mod 128 + 128) :: uvarint_enc f (u / 128)
  end.

(* binary.Uvarint (Go 1.16+): None when n <= 0, i.e. the buffer ends before a terminating byte
   (n = 0) or the value does not fit 64 bits (n < 0: an 11th byte, or a 10th byte > 1).
   i is the index of the head byte. The accumulated x | b<<s of the Go loop is the sum
   written here (the 7-bit groups do not overlap). *)
Fixpoint uvarint_dec (i : nat) (buf : list N) : option N :=
  match buf with
  | [] => None
  | b :: t =>
      if Nat.eqb i 10 then None
      else if b <? 128 then (if Nat.eqb i 9 && (1 <? b) then None else Some b)
      else match uvarint_dec (S i) t with
           | Some r => Some (b mod 128 + 128 * r)          (* b & 0x7f *)
           | None => None
           end
  end.

(* last_access_time.go:42 Serialize with a buffer of `buflen` bytes:
   PutVarint panics (index out of range) when the encoding needs more than buflen bytes *)
Definition lat_print_buf (buflen : nat) (z : Z) : res (list N) :=
  let e := uvarint_enc 10 (zigzag z) in
  if Nat.leb (length e) buflen then Ok (e ++ repeat 0 (buflen - length e)) else Panic.

(* the code with fixes/C39_lat_varint_buffer.patch: make([]byte, binary.MaxVarintLen64) *)
Definition lat_print (z : Z) : res (list N) := lat_print_buf 10 z.
(* the code as found: make([]byte, 8) -- kept as a mutant model *)
Definition lat_print_prefix (z : Z) : res (list N) := lat_print_buf 8 z.

(* last_access_time.go:49 Deserialize; time.Unix(i,0).Unix() = i for every int64 *)
Definition lat_parse (b : list N) : res Z :=
  match uvarint_dec 0 b with
  | Some u => Ok (unzigzag u)
  | None => Err
  end.

(* independent statement of "b starts with a terminated varint that fits 64 bits" *)
Fixpoint varint_wf_from (i : nat) (b : list N) : bool :=
  match b with
  | [] => false
  | x :: t => if x <? 128 then Nat.ltb i 9 || (Nat.eqb i 9 && (x <=? 1))
              else Nat.ltb i 9 && varint_wf_from (S i) t
  end.

(* ------------------------------------------------------------------ *)
(* metadata/persist.go                                                 *)

Definition str_true : list N := [116; 114; 117; 101].
Definition str_false : list N := [102; 97; 108; 115; 101].
(* strconv.ParseBool's accepted spellings *)
Definition true_spellings : list (list N) :=
  [[49]; [116]; [84]; [84; 82; 85; 69]; str_true; [84; 114; 117; 101]].
Definition false_spellings : list (list N) :=
  [[48]; [102]; [70]; [70; 65; 76; 83; 69]; str_false; [70; 97; 108; 115; 101]].
Definition mem_str (s : list N) (l : list (list N)) : bool := existsb (leqb s) l.

(* persist.go:56 Serialize = strconv.FormatBool *)
Definition persist_print (b : bool) : list N := if b then str_true else str_false.
(* persist.go:61 Deserialize = strconv.ParseBool *)
Definition persist_parse (s : list N) : res bool :=
  if mem_str s true_spellings then Ok true
  else if mem_str s false_spellings then Ok false
  else Err.

(* ------------------------------------------------------------------ *)
(* github.com/willf/bitset binary form (handshaker.go:76,118 MarshalBinary / UnmarshalBinary) *)

Record bitset := mkbs { b_len : N; b_words : list N }.

(* binary.BigEndian, k bytes *)
Fixpoint be_enc (k : nat) (w : N) : list N :=
  match k with
  | O => []
  | S k' => (w / 256 ^ N.of_nat k') mod 256 :: be_enc k' w
  end.
Fixpoint be_dec (b : list N) (acc : N) : N :=
  match b with
  | [] => acc
  | x :: t => be_dec t (acc * 256 + x)
  end.

(* bitset.go:101 wordsNeeded, uint = 64 bits *)
Definition words_needed (n : N) : N :=
  if 2 ^ 64 - 64 <? n then (2 ^ 64 - 1) / 64 else (n + 63) / 64.

(* bitset.go:784 WriteTo: length as uint64, then the words *)
Definition bitset_print (b : bitset) : list N := be_enc 8 (b_len b) ++ flat_map (be_enc 8) (b_words b).

Fixpoint words_dec (n : nat) (d : list N) : list N :=
  match n with
  | O => []
  | S n' => be_dec (firstn 8 d) 0 :: words_dec n' (skipn 8 d)
  end.

(* bitset.go:799 ReadFrom: 8 bytes of length, then wordsNeeded(length) words; short input is an
   error (EOF / unexpected EOF); trailing bytes are ignored. For lengths whose word array cannot be
   allocated, New() recovers from make's panic and ReadFrom reports "type mismatch": an error as
   well, and the branch below (input shorter than 8*nw) coincides with it for every input that fits
   in memory. *)
Definition bitset_parse (d : list N) : res bitset :=
  if N.of_nat (length d) <? 8 then Err
  else
    let len := be_dec (firstn 8 d) 0 in
    let rest := skipn 8 d in
    let nw := words_needed len in
    if N.of_nat (length rest) <? 8 * nw then Err
    else Ok (mkbs len (words_dec (N.to_nat nw) rest)).

Definition is_word (w : N) : bool := w <? 2 ^ 64.
Definition bs_wfb (b : bitset) : bool :=
  (b_len b <? 2 ^ 64) && (N.of_nat (length (b_words b)) =? words_needed (b_len b)) && forallb is_word (b_words b).
Definition bs_eqb (a b : bitset) : bool := (b_len a =? b_len b) && leqb (b_words a) (b_words b).

(* ------------------------------------------------------------------ *)
(* handshaker.go: handshake <-> p2p.BitfieldMessage                    *)

Record hmsg := mkmsg {
  m_peer : list N;  m_name : list N;  m_ih : list N;  m_bits : list N;
  m_rb : list (list N * list N);     (* RemoteBitfieldBytes: map[string][]byte *)
  m_ns : list N }.
Record hsk := mkhs {
  h_peer : list N;  h_dig : dg;  h_ih : list N;  h_bits : bitset;
  h_rb : list (list N * bitset);     (* RemoteBitfields: map[core.PeerID]*bitset.BitSet *)
  h_ns : list N }.

(* handshaker.go:75 toP2PMessage *)
Definition hs_print (h : hsk) : hmsg :=
  mkmsg (peerid_print (h_peer h)) (d_hex (h_dig h)) (infohash_print (h_ih h)) (bitset_print (h_bits h))
        (map (fun pb => (peerid_print (fst pb), bitset_print (snd pb))) (h_rb h)) (h_ns h).

(* handshaker.go:48 RemoteBitfields.unmarshalBinary *)
Fixpoint rb_parse (l : list (list N * list N)) : res (list (list N * bitset)) :=
  match l with
  | [] => Ok []
  | (k, v) :: t =>
      match peerid_parse k, bitset_parse v, rb_parse t with
      | Ok p, Ok b, Ok r => Ok ((p, b) :: r)
      | _, _, _ => Err
      end
  end.

(* handshaker.go:97 handshakeFromP2PMessage; is_bitfield = (m.Type == Message_BITFIELD),
   body = m.GetBitfield() *)
Definition hs_parse (is_bitfield : bool) (body : option hmsg) : res hsk :=
  if negb is_bitfield then Err                                     (* :98 *)
  else match body with
  | None => Err                                                    (* :102 *)
  | Some m =>
      match peerid_parse (m_peer m), infohash_parse (m_ih m), digest_from_hex (m_name m),
            bitset_parse (m_bits m), rb_parse (m_rb m) with
      | Ok p, Ok ih, Ok d, Ok b, Ok rb => Ok (mkhs p d ih b rb (m_ns m))
      | _, _, _, _, _ => Err
      end
  end.

Definition rb_wfb (l : list (list N * bitset)) : bool :=
  forallb (fun pb => id20_wfb (fst pb) && bs_wfb (snd pb)) l.
Definition hs_wfb (h : hsk) : bool :=
  id20_wfb (h_peer h) && dg_wfb (h_dig h) && id20_wfb (h_ih h) && bs_wfb (h_bits h) && rb_wfb (h_rb h).

(* ------------------------------------------------------------------ *)
(* uniform view used by the correspondence: codecs, values, cases      *)

Inductive codec :=
| CDigest        (* ParseSHA256Digest / String *)
| CDigestHex     (* NewSHA256DigestFromHex / Hex *)
| CDigestJSON    (* Digest.Scan / Digest.Value *)
| CDigestList    (* DigestList.Scan / DigestList.Value *)
| CInfoHash | CPeerID | CStatus | CLat | CPersist | CBits.

Inductive val :=
| VStr (s : list N)              (* info hash / peer id bytes, status vector *)
| VT (sec : Z) (nsec : N)        (* access time: Unix seconds + nanoseconds *)
| VB (b : bool)
| VD (d : dg)
| VBits (b : bitset)
| VDL (l : option (list dg)).

Definition lift {A} (f : A -> val) (r : res A) : res val :=
  match r with Ok a => Ok (f a) | Err => Err | Panic => Panic end.

Definition parse (c : codec) (s : list N) : res val :=
  match c with
  | CDigest => lift VD (digest_parse s)
  | CDigestHex => lift VD (digest_from_hex s)
  | CDigestJSON => lift VD (digest_json_parse s)
  | CDigestList => lift VDL (dl_parse s)
  | CInfoHash => lift VStr (infohash_parse s)
  | CPeerID => lift VStr (peerid_parse s)
  | CStatus => Ok (VStr (status_parse s))
  | CLat => lift (fun z => VT z 0) (lat_parse s)
  | CPersist => lift VB (persist_parse s)
  | CBits => lift VBits (bitset_parse s)
  end.

(* a value of the wrong shape for the codec cannot be built by the driver: Err *)
Definition print (c : codec) (v : val) : res (list N) :=
  match c, v with
  | CDigest, VD d => Ok (digest_string d)
  | CDigestHex, VD d => Ok (d_hex d)
  | CDigestJSON, VD d => Ok (digest_json_print d)
  | CDigestList, VDL l => Ok (dl_print l)
  | CInfoHash, VStr b => Ok (infohash_print b)
  | CPeerID, VStr b => Ok (peerid_print b)
  | CStatus, VStr b => Ok (status_print b)
  | CLat, VT z _ => lat_print z
  | CPersist, VB b => Ok (persist_print b)
  | CBits, VBits b => Ok (bitset_print b)
  | _, _ => Err
  end.

(* the values of each type the round-trip clause speaks about *)
Definition in_domain (c : codec) (v : val) : bool :=
  match c, v with
  | CDigest, VD d | CDigestHex, VD d | CDigestJSON, VD d => dg_wfb d
  | CDigestList, VDL None => true
  | CDigestList, VDL (Some l) => forallb dg_wfb l
  | CInfoHash, VStr b | CPeerID, VStr b => id20_wfb b
  | CStatus, VStr b => forallb status_persistent b
  | CLat, VT z ns => int64b z && (ns =? 0)       (* second granularity *)
  | CPersist, VB _ => true
  | CBits, VBits b => bs_wfb b
  | _, _ => false
  end.

(* what a round trip preserves: everything, except that access times keep whole seconds *)
Definition granular (c : codec) (v : val) : val :=
  match c, v with
  | CLat, VT z _ => VT z 0
  | _, _ => v
  end.

(* what an accepted text must look like (independent of the parsers above) *)
Definition id_text_wfb (n : nat) (s : list N) : bool := Nat.eqb (length s) n && forallb is_hex s.
Definition input_wfb (c : codec) (s : list N) : bool :=
  match c with
  | CDigest => digest_text_wfb s
  | CDigestHex => id_text_wfb 64 s
  | CInfoHash | CPeerID => id_text_wfb 40 s
  | CLat => varint_wf_from 0 s
  | CPersist => mem_str s true_spellings || mem_str s false_spellings
  | CBits => (8 <=? N.of_nat (length s)) && (8 * words_needed (be_dec (firstn 8 s) 0) <=? N.of_nat (length s) - 8)
  | CStatus => true                       (* lenient by design: unknown bytes read as empty *)
  | CDigestJSON | CDigestList => true     (* JSON spelling is free; the accepted VALUE is constrained (in_domain) *)
  end.

(* texts that must be accepted (the printed forms and their documented variants) *)
Definition must_accept (c : codec) (s : list N) : bool :=
  match c with
  | CDigest | CDigestHex | CInfoHash | CPeerID | CPersist | CLat | CBits => input_wfb c s
  | CStatus => true
  | CDigestJSON | CDigestList => false
  end.

Fixpoint dgs_eqb (a b : list dg) : bool :=
  match a, b with
  | [], [] => true
  | x :: a', y :: b' => dg_eqb x y && dgs_eqb a' b'
  | _, _ => false
  end.

Definition val_eqb (a b : val) : bool :=
  match a, b with
  | VStr x, VStr y => leqb x y
  | VT x n, VT y m => Z.eqb x y && (n =? m)
  | VB x, VB y => Bool.eqb x y
  | VD x, VD y => dg_eqb x y
  | VBits x, VBits y => bs_eqb x y
  | VDL None, VDL None => true
  | VDL (Some x), VDL (Some y) => dgs_eqb x y
  | _, _ => false
  end.

Definition res_eqb {A} (eq : A -> A -> bool) (a b : res A) : bool :=
  match a, b with
  | Ok x, Ok y => eq x y
  | Err, Err => true
  | Panic, Panic => true
  | _, _ => false
  end.

(* --- the two kinds of correspondence case for the byte/text codecs --- *)

(* parse first: input -> parse; if accepted, print the value and parse that again *)
Definition parse_chain (c : codec) (s : list N) : res val * res (list N) * res val :=
  let r1 := parse c s in
  let r2 := match r1 with Ok v => print c v | _ => Err end in
  let r3 := match r2 with Ok p => parse c p | _ => Err end in
  (r1, r2, r3).

(* print first: value -> print; if it printed, parse the text *)
Definition print_chain (c : codec) (v : val) : res (list N) * res val :=
  let r1 := print c v in
  let r2 := match r1 with Ok p => parse c p | _ => Err end in
  (r1, r2).

(* the property on one observed parse-first chain *)
Definition check_parse (c : codec) (s : list N) (o1 : res val) (o2 : res (list N)) (o3 : res val) : bool :=
  match o1 with
  | Ok v =>
      input_wfb c s && in_domain c v                (* only well-formed input is accepted *)
      && match o2 with Ok _ => true | _ => false end
      && res_eqb val_eqb o3 (Ok v)                  (* printing the result parses to the same value *)
  | Err => negb (must_accept c s)                   (* printed forms are never rejected *)
  | Panic => false
  end.

(* the property on one observed print-first chain *)
Definition check_print (c : codec) (v : val) (o1 : res (list N)) (o2 : res val) : bool :=
  if in_domain c v
  then match o1 with Ok _ => res_eqb val_eqb o2 (Ok (granular c v)) | _ => false end
  else match o1 with Panic => false | _ => true end.   (* outside the domain: any answer but a crash *)

(* --- handshake cases --- *)

Fixpoint rbm_eqb (a b : list (list N * list N)) : bool :=
  match a, b with
  | [], [] => true
  | (k, v) :: a', (k', v') :: b' => leqb k k' && leqb v v' && rbm_eqb a' b'
  | _, _ => false
  end.
Definition hmsg_eqb (a b : hmsg) : bool :=
  leqb (m_peer a) (m_peer b) && leqb (m_name a) (m_name b) && leqb (m_ih a) (m_ih b)
  && leqb (m_bits a) (m_bits b) && rbm_eqb (m_rb a) (m_rb b) && leqb (m_ns a) (m_ns b).
Fixpoint rb_eqb (a b : list (list N * bitset)) : bool :=
  match a, b with
  | [], [] => true
  | (k, v) :: a', (k', v') :: b' => leqb k k' && bs_eqb v v' && rb_eqb a' b'
  | _, _ => false
  end.
Definition hs_eqb (a b : hsk) : bool :=
  leqb (h_peer a) (h_peer b) && dg_eqb (h_dig a) (h_dig b) && leqb (h_ih a) (h_ih b)
  && bs_eqb (h_bits a) (h_bits b) && rb_eqb (h_rb a) (h_rb b) && leqb (h_ns a) (h_ns b).

(* distinct map keys (Go maps cannot hold a key twice) *)
Fixpoint nodup_keys {A} (l : list (list N * A)) : bool :=
  match l with
  | [] => true
  | (k, _) :: t => negb (existsb (fun kv => leqb k (fst kv)) t) && nodup_keys t
  end.

(* handshake -> message -> handshake *)
Definition hs_print_chain (h : hsk) : hmsg * res hsk :=
  let m := hs_print h in (m, hs_parse true (Some m)).
Definition check_hs_print (h : hsk) (o1 : hmsg) (o2 : res hsk) : bool :=
  if hs_wfb h && nodup_keys (h_rb h) then res_eqb hs_eqb o2 (Ok h) else true.

(* message -> handshake -> message -> handshake *)
Definition hs_parse_chain (isb : bool) (body : option hmsg) : res hsk * res hmsg * res hsk :=
  let r1 := hs_parse isb body in
  let r2 := match r1 with Ok h => Ok (hs_print h) | _ => Err end in
  let r3 := match r2 with Ok m => hs_parse true (Some m) | _ => Err end in
  (r1, r2, r3).
Definition hmsg_text_wfb (m : hmsg) : bool :=
  id_text_wfb 40 (m_peer m) && id_text_wfb 40 (m_ih m) && id_text_wfb 64 (m_name m)
  && input_wfb CBits (m_bits m)
  && forallb (fun kv => id_text_wfb 40 (fst kv) && input_wfb CBits (snd kv)) (m_rb m).
Definition check_hs_parse (isb : bool) (body : option hmsg) (o1 : res hsk) (o2 : res hmsg) (o3 : res hsk) : bool :=
  match o1 with
  | Ok h =>
      isb && match body with Some m => hmsg_text_wfb m | None => false end
      && hs_wfb h
      && match o2 with Ok _ => true | _ => false end
      && (if nodup_keys (h_rb h) then res_eqb hs_eqb o3 (Ok h) else true)
  | Err =>
      negb (isb && match body with Some m => hmsg_text_wfb m | None => false end)
  | Panic => false
  end.

(* ------------------------------------------------------------------ *)
(* one correspondence case = one chain of real calls with what they returned *)
Inductive case :=
| CaseParse (c : codec) (inp : list N) (o1 : res val) (o2 : res (list N)) (o3 : res val)
| CasePrint (c : codec) (v : val) (o1 : res (list N)) (o2 : res val)
| CaseHsPrint (h : hsk) (o1 : res hmsg) (o2 : res hsk)
| CaseHsParse (isb : bool) (body : option hmsg) (o1 : res hsk) (o2 : res hmsg) (o3 : res hsk).

(* the property evaluated on one observed case (uses the observations and the independent
   well-formedness predicates only, never the model's parsers/printers) *)
Definition C39_check (c : case) : bool :=
  match c with
  | CaseParse cd inp o1 o2 o3 => check_parse cd inp o1 o2 o3
  | CasePrint cd v o1 o2 => check_print cd v o1 o2
  | CaseHsPrint h o1 o2 =>
      match o1 with Ok m => check_hs_print h m o2 | _ => false end
  | CaseHsParse isb body o1 o2 o3 => check_hs_parse isb body o1 o2 o3
  end.

(* what the model answers for the same calls *)
Definition model_case (c : case) : case :=
  match c with
  | CaseParse cd inp _ _ _ => let '(r1, r2, r3) := parse_chain cd inp in CaseParse cd inp r1 r2 r3
  | CasePrint cd v _ _ => let '(r1, r2) := print_chain cd v in CasePrint cd v r1 r2
  | CaseHsPrint h _ _ => let '(m, r2) := hs_print_chain h in CaseHsPrint h (Ok m) r2
  | CaseHsParse isb body _ _ _ => let '(r1, r2, r3) := hs_parse_chain isb body in CaseHsParse isb body r1 r2 r3
  end.

(* the inputs of a case are byte strings (what a Go []byte / string can hold) *)
Definition body_bytes (b : option hmsg) : bool :=
  match b with
  | Some m => forallb is_byte (m_bits m) && forallb (fun kv => forallb is_byte (snd kv)) (m_rb m)
  | None => true
  end.
Definition case_bytes (c : case) : bool :=
  match c with
  | CaseParse _ inp _ _ _ => forallb is_byte inp
  | CaseHsParse _ body _ _ _ => body_bytes body
  | _ => true
  end.
