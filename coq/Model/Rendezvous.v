(* Shared model of lib/hrw/rendezvous.go (weighted rendezvous hashing), used by C21 and C22.
   Executable definitions only; lemmas live in Proof/Rendezvous.v.

   The score function (rendezvous.go:143 Score = -weight / ln(toFloat(murmur3(key ++ label))))
   is NOT modelled: it is a Section variable into an arbitrary type T compared by [ltb]
   (Go's float64 `<`).  The theorems state what they need of it as hypotheses (strict total
   order on T; no two distinct nodes score equally on the key at hand); the drivers pass the
   real scores so that the model sorts exactly what the implementation sorted. *)
From Coq Require Import List NArith ZArith Bool.
Import ListNotations.

(* rendezvous.go:38-42 RendezvousHashNode {RHash, Label, Weight}.  Labels are canonicalised to
   small N by the harness; Weight is a Go int. *)
Record node := mknode { label : N; weight : Z }.

Definition node_eqb (a b : node) : bool := N.eqb (label a) (label b) && Z.eqb (weight a) (weight b).

Section Rendezvous.
  Variable key : Type.
  Variable T : Type.
  Variable ltb : T -> T -> bool.          (* float64 `<` on scores *)
  Variable score : node -> key -> T.      (* rendezvous.go:143 (rhn).Score(key) *)

  (* rendezvous.go:166 AddNode: append, no duplicate check *)
  Definition add_node (n : node) (ns : list node) : list node := ns ++ [n].

  (* rendezvous.go:176 RemoveNode: removes the FIRST node whose label matches, then breaks *)
  Fixpoint remove_node (l : N) (ns : list node) : list node :=
    match ns with
    | [] => []
    | x :: t => if N.eqb (label x) l then t else x :: remove_node l t
    end.

  (* rendezvous.go:186 GetNode: first node with the label and its index, (nil, -1) if none *)
  Fixpoint get_node_from (i : Z) (l : N) (ns : list node) : option node * Z :=
    match ns with
    | [] => (None, (-1)%Z)
    | x :: t => if N.eqb (label x) l then (Some x, i) else get_node_from (i + 1)%Z l t
    end.
  Definition get_node := get_node_from 0%Z.

  (* rendezvous.go:202  sort.Sort(sort.Reverse(byScore)):  Less(i,j) = score(j) < score(i).
     sort.Sort promises a permutation sorted w.r.t. Less and nothing about equal elements.
     The model is a stable insertion sort into descending order; with no ties every correct
     sort returns the same list (Proof/Rendezvous.v: ordered_unique). *)
  Fixpoint insert_desc (k : key) (x : node) (l : list node) : list node :=
    match l with
    | [] => [x]
    | y :: t => if ltb (score x k) (score y k) then y :: insert_desc k x t else x :: y :: t
    end.

  Definition ordered (ns : list node) (k : key) : list node :=
    fold_right (insert_desc k) [] ns.

  (* rendezvous.go:198-208 GetOrderedNodes(key, n), n >= 0 (a negative n panics in nodes[:n]) *)
  Definition get_ordered_nodes (ns : list node) (k : key) (n : nat) : list node :=
    firstn n (ordered ns k).

  (* ---- specification vocabulary of the theorems ---- *)
  (* on key k, a scores at least as high as b / strictly higher than b *)
  Definition ge (k : key) (a b : node) : Prop := ltb (score a k) (score b k) = false.
  Definition gt (k : key) (a b : node) : Prop := ltb (score b k) (score a k) = true.
  (* the stated hypothesis of C21/C22: distinct nodes have distinct scores on k *)
  Definition tie_free (k : key) (ns : list node) : Prop :=
    forall a b, In a ns -> In b ns -> score a k = score b k -> a = b.
  (* float64 `<` on the scores that occur (no NaN, -0 = +0) is a strict total order *)
  Definition strict_total : Prop :=
    (forall a, ltb a a = false) /\
    (forall a b c, ltb a b = true -> ltb b c = true -> ltb a c = true) /\
    (forall a b, ltb a b = false -> ltb b a = false -> a = b).

  (* ---- boolean specification used on observed outputs (independent of [ordered]) ---- *)

  (* l is sorted by descending score, non-strictly: no element scores below a later one *)
  Fixpoint sorted_descb (k : key) (l : list node) : bool :=
    match l with
    | [] => true
    | x :: t => forallb (fun y => negb (ltb (score x k) (score y k))) t && sorted_descb k t
    end.

  (* no two positions of ns hold nodes with equal score (neither is below the other) *)
  Fixpoint tie_freeb (k : key) (ns : list node) : bool :=
    match ns with
    | [] => true
    | x :: t => forallb (fun y => ltb (score x k) (score y k) || ltb (score y k) (score x k)) t
                && tie_freeb k t
    end.

  Definition count_node (x : node) (l : list node) : nat := length (filter (node_eqb x) l).
  (* same multiset of nodes *)
  Definition same_nodesb (l ns : list node) : bool :=
    Nat.eqb (length l) (length ns) &&
    forallb (fun x => Nat.eqb (count_node x l) (count_node x ns)) ns.

  (* "the ordered node list is the set of nodes sorted by descending score" on one observation *)
  Definition is_orderingb (ns : list node) (k : key) (l : list node) : bool :=
    same_nodesb l ns && sorted_descb k l.

  Definition labels_nodupb (ns : list node) : bool :=
    (fix go (l : list N) : bool :=
       match l with
       | [] => true
       | x :: t => negb (existsb (N.eqb x) t) && go t
       end) (map label ns).
End Rendezvous.

Arguments insert_desc {key T} ltb score k x l.
Arguments ordered {key T} ltb score ns k.
Arguments get_ordered_nodes {key T} ltb score ns k n.
Arguments sorted_descb {key T} ltb score k l.
Arguments tie_freeb {key T} ltb score k ns.
Arguments is_orderingb {key T} ltb score ns k l.
Arguments ge {key T} ltb score k a b.
Arguments gt {key T} ltb score k a b.
Arguments tie_free {key T} score k ns.
Arguments strict_total {T} ltb.

Definition nodes_eqb (a b : list node) : bool :=
  (fix go (a b : list node) : bool :=
     match a, b with
     | [], [] => true
     | x :: a', y :: b' => node_eqb x y && go a' b'
     | _, _ => false
     end) a b.

(* ---- history form of a RendezvousHash: the node slice after a sequence of calls ---- *)
Inductive rh_op := RAdd (n : node) | RRemove (l : N).
Definition rh_step (ns : list node) (o : rh_op) : list node :=
  match o with RAdd n => add_node n ns | RRemove l => remove_node l ns end.
Definition rh_run (ops : list rh_op) : list node := fold_left rh_step ops [].

(* ---- the instance executed on observed cases (C21 and C22 drivers) ----
   For execution the key IS the row of real scores the implementation computed for it:
   entry i = order-preserving image in N of  pool[i].Score(key)  (drivers: code of a float64:
   bits with the sign bit flipped for non-negative values, all bits flipped for negative ones,
   -0 normalised to +0).  Node labels are pool indices 0..p-1. *)
Definition row := list N.
Definition tscore (n : node) (r : row) : N := nth (N.to_nat (label n)) r 0%N.
