(* Model of lib/dockerregistry/paths.go: ParsePath and the seven Get* extractors.

   The regular expressions are abstract syntax trees whose printed form is checked (by
   vm_compute, Proof/C38.v `ast_is_source_*`) to be the literal extracted from the source on
   every run (Gen/C38_consts.v).  Their meaning is given by one small backtracking matcher
   (`mt`) with Go's leftmost-first preference order (greedy / lazy repetition, ordered
   alternation); its agreement with Go's regexp package on these twelve patterns is what the
   correspondence run cross-checks.  Executable definitions only; proofs live in Proof/C38*.v.

   All string helpers here are private to C38 (prefix-free names live in this module only). *)
From Coq Require Import List NArith Bool.
From K.Gen Require Import C38_consts.
Import ListNotations.
Local Open Scope N_scope.

(* ---------- strings ---------- *)
Fixpoint str_eqb (a b : list N) : bool :=
  match a, b with
  | [], [] => true
  | x :: a', y :: b' => N.eqb x y && str_eqb a' b'
  | _, _ => false
  end.

Definition SL : N := 47.  (* '/' *)
Definition NL : N := 10.  (* '\n' *)

(* split on '/':  segs "a/b" = ["a";"b"], segs "" = [""], segs "/a" = ["";"a"] *)
Fixpoint segs (s : list N) : list (list N) :=
  match s with
  | [] => [[]]
  | c :: t => if N.eqb c SL then [] :: segs t
              else match segs t with
                   | [] => [[c]]            (* unreachable: segs is never empty *)
                   | h :: r => (c :: h) :: r
                   end
  end.

Fixpoint join (l : list (list N)) : list N :=
  match l with
  | [] => []
  | [a] => a
  | a :: r => a ++ SL :: join r
  end.

(* ---------- character sets and regular expressions ---------- *)
Inductive cset := Dot | Cs (neg : bool) (rs : list (N * N)).

Definition in_ranges (c : N) (rs : list (N * N)) : bool :=
  existsb (fun r => N.leb (fst r) c && N.leb c (snd r)) rs.

(* `.` does not match '\n' (no (?s) flag); a negated class does. *)
Definition cs_in (cs : cset) (c : N) : bool :=
  match cs with
  | Dot => negb (N.eqb c NL)
  | Cs neg rs => xorb neg (in_ranges c rs)
  end.

Inductive re :=
| Lit (l : list N)                 (* literal text *)
| Plus (greedy : bool) (cs : cset) (* x+  /  x+?   for a one-character x *)
| Rep (n : nat) (cs : cset)        (* x{n} *)
| Eol                              (* $ *)
| Seq (a b : re)
| Alt (a b : re)                   (* a|b, a preferred *)
| Opt (a : re)                     (* (?:a)? , taking a preferred *)
| Grp (a : re)                     (* (a)   capturing *)
| NGrp (a : re).                   (* (?:a) *)

(* concrete syntax *)
Definition show_range (r : N * N) : list N :=
  if N.eqb (fst r) (snd r) then [fst r] else [fst r; 45; snd r].
Definition show_cs (cs : cset) : list N :=
  match cs with
  | Dot => [46]
  | Cs neg rs => 91 :: (if neg then [94] else []) ++ flat_map show_range rs ++ [93]
  end.
Fixpoint show (r : re) : list N :=
  match r with
  | Lit l => l
  | Plus g cs => show_cs cs ++ 43 :: (if g then [] else [63])
  | Rep n cs => show_cs cs ++ [123; 48 + N.of_nat n; 125]
  | Eol => [36]
  | Seq a b => show a ++ show b
  | Alt a b => show a ++ 124 :: show b
  | Opt a => [40; 63; 58] ++ show a ++ [41; 63]
  | Grp a => 40 :: show a ++ [41]
  | NGrp a => [40; 63; 58] ++ show a ++ [41]
  end.
(* every pattern of paths.go starts with ^ : matching is anchored at position 0 *)
Definition show_anchored (r : re) : list N := 94 :: show r.

(* The printer is read back unambiguously only for trees of this shape: alternation directly
   inside a group, literals and class members free of metacharacters, counts < 10, capture
   groups neither nested nor under an alternative/option (so that the captures, listed in the
   order they are closed, are Go's submatches 1..n). *)
Definition plain (c : N) : bool :=
  (N.leb 48 c && N.leb c 57) || (N.leb 65 c && N.leb c 90) || (N.leb 97 c && N.leb c 122)
  || N.eqb c 95 || N.eqb c SL.
Definition wf_cs (cs : cset) : bool :=
  match cs with
  | Dot => true
  | Cs _ rs => forallb (fun r => plain (fst r) && plain (snd r) && N.leb (fst r) (snd r)) rs
  end.
Fixpoint wf (alt_ok grp_ok : bool) (r : re) : bool :=
  match r with
  | Lit l => forallb plain l
  | Plus _ cs => wf_cs cs
  | Rep n cs => wf_cs cs && Nat.ltb n 10
  | Eol => true
  | Seq a b => wf false grp_ok a && wf false grp_ok b
  | Alt a b => alt_ok && wf true false a && wf true false b
  | Opt a => wf true false a
  | Grp a => grp_ok && wf true false a
  | NGrp a => wf true grp_ok a
  end.

(* ---------- the matcher ---------- *)
Section Matcher.
  Context {R : Type}.

  Fixpoint m_lit (l : list N) (k : list N -> option R) (s : list N) : option R :=
    match l with
    | [] => k s
    | a :: l' => match s with
                 | c :: t => if N.eqb a c then m_lit l' k t else None
                 | [] => None
                 end
    end.

  (* one or more, longest first *)
  Fixpoint m_plus_g (cs : cset) (k : list N -> option R) (s : list N) : option R :=
    match s with
    | [] => None
    | c :: t => if cs_in cs c
                then match m_plus_g cs k t with Some r => Some r | None => k t end
                else None
    end.

  (* one or more, shortest first *)
  Fixpoint m_plus_l (cs : cset) (k : list N -> option R) (s : list N) : option R :=
    match s with
    | [] => None
    | c :: t => if cs_in cs c
                then match k t with Some r => Some r | None => m_plus_l cs k t end
                else None
    end.

  Fixpoint m_rep (n : nat) (cs : cset) (k : list N -> option R) (s : list N) : option R :=
    match n with
    | O => k s
    | S n' => match s with
              | c :: t => if cs_in cs c then m_rep n' cs k t else None
              | [] => None
              end
    end.

  Definition orelse (a b : option R) : option R := match a with Some r => Some r | None => b end.

  Fixpoint mt (r : re) (k : list N -> list (list N) -> option R) (s : list N) (caps : list (list N)) : option R :=
    match r with
    | Lit l => m_lit l (fun t => k t caps) s
    | Plus true cs => m_plus_g cs (fun t => k t caps) s
    | Plus false cs => m_plus_l cs (fun t => k t caps) s
    | Rep n cs => m_rep n cs (fun t => k t caps) s
    | Eol => match s with [] => k [] caps | _ :: _ => None end
    | Seq a b => mt a (mt b k) s caps
    | Alt a b => orelse (mt a k s caps) (mt b k s caps)
    | Opt a => orelse (mt a k s caps) (k s caps)
    | Grp a => mt a (fun t caps' => k t (caps' ++ [firstn (length s - length t) s])) s caps
    | NGrp a => mt a k s caps
    end.
End Matcher.

(* regexp.FindStringSubmatch for an anchored pattern: Some [m1; ...; mn] or None *)
Definition exec (r : re) (s : list N) : option (list (list N)) :=
  mt r (fun _ caps => Some caps) s [].

(* ---------- the twelve patterns of paths.go ---------- *)
Definition L (s : list N) := Lit s.
Definition dots := Plus true Dot.                                   (* .+ *)
Definition dots_lazy := Plus false Dot.                             (* .+? *)
Definition noslash := Plus true (Cs true [(47, 47)]).               (* [^/]+ *)
Definition c09az := Cs false [(48, 57); (97, 122)].                 (* [0-9a-z] *)
Definition hexs := Plus true c09az.                                 (* [0-9a-z]+ *)
Definition alnums := Plus true (Cs false [(97, 122); (65, 90); (48, 57)]).  (* [a-zA-Z0-9]+ *)
Definition digits := Plus true (Cs false [(48, 57)]).               (* [0-9]+ *)
Fixpoint seqs (l : list re) : re :=
  match l with [] => Lit [] | [a] => a | a :: t => Seq a (seqs t) end.

Definition s_repositories := [114; 101; 112; 111; 115; 105; 116; 111; 114; 105; 101; 115].  (* "repositories" *)
Definition s_manifests := [95; 109; 97; 110; 105; 102; 101; 115; 116; 115].   (* "_manifests" *)
Definition s_layers := [95; 108; 97; 121; 101; 114; 115].                      (* "_layers" *)
Definition s_uploads := [95; 117; 112; 108; 111; 97; 100; 115].                (* "_uploads" *)
Definition s_blobs := [98; 108; 111; 98; 115].                                 (* "blobs" *)
Definition s_sha256 := [115; 104; 97; 50; 53; 54].                             (* "sha256" *)
Definition s_tags := [116; 97; 103; 115].
Definition s_revisions := [114; 101; 118; 105; 115; 105; 111; 110; 115].
Definition s_data := [100; 97; 116; 97].
Definition s_link := [108; 105; 110; 107].
Definition s_current := [99; 117; 114; 114; 101; 110; 116].
Definition s_index := [105; 110; 100; 101; 120].
Definition s_startedat := [115; 116; 97; 114; 116; 101; 100; 97; 116].
Definition s_hashstates := [104; 97; 115; 104; 115; 116; 97; 116; 101; 115].
Definition sl (s : list N) : list N := SL :: s.             (* "/" ++ s *)
Definition sls (s : list N) : list N := SL :: s ++ [SL].    (* "/" ++ s ++ "/" *)

Definition kw_alt := NGrp (Alt (L s_manifests) (Alt (L s_layers) (L s_uploads))).

(* paths.go:85 as shipped:  ^.+/repositories/(.+)/(?:_manifests|_layers|_uploads) *)
Definition ast_get_repo_prefix : re :=
  seqs [dots; L (sls s_repositories); Grp dots; L [SL]; kw_alt].
(* paths.go:85 with fixes/C38_getrepo_lazy.patch:  ^.+?/repositories/(.+?)/(?:_manifests|_layers|_uploads) *)
Definition ast_get_repo : re :=
  seqs [dots_lazy; L (sls s_repositories); Grp dots_lazy; L [SL]; kw_alt].

(* paths.go:95  ^.+/blobs/sha256/[0-9a-z]{2}/([0-9a-z]+)/data$ *)
Definition ast_get_blob_digest : re :=
  seqs [dots; L (sls s_blobs ++ s_sha256 ++ [SL]); Rep 2 c09az; L [SL]; Grp hexs; L (sl s_data); Eol].
(* paths.go:109  ^.+/_layers/sha256/([0-9a-z]+)/(?:link|data)$ *)
Definition ast_get_layer_digest : re :=
  seqs [dots; L (sls s_layers ++ s_sha256 ++ [SL]); Grp hexs; L [SL]; NGrp (Alt (L s_link) (L s_data)); Eol].
(* paths.go:123  ^.+/_manifests/(?:revisions|tags/.+/index)/sha256/([0-9a-z]+)/link$ *)
Definition ast_get_manifest_digest : re :=
  seqs [dots; L (sls s_manifests);
        NGrp (Alt (L s_revisions) (seqs [L (s_tags ++ [SL]); dots; L (sl s_index)]));
        L (sls s_sha256); Grp hexs; L (sl s_link); Eol].
(* paths.go:137  ^.+/_manifests/tags/([^/]+)/(current|index/sha256/[0-9a-z]+)/link$ *)
Definition ast_get_manifest_tag : re :=
  seqs [dots; L (sls s_manifests ++ s_tags ++ [SL]); Grp noslash; L [SL];
        Grp (Alt (L s_current) (seqs [L (s_index ++ sls s_sha256); hexs]));
        L (sl s_link); Eol].
(* the tail of GetUploadUUID / matchUploadsPath #2:  hashstates/[a-zA-Z0-9]+(?:/[0-9]+)?$ *)
Definition hs_tail := seqs [L (s_hashstates ++ [SL]); alnums; Opt (seqs [L [SL]; digits]); Eol].
(* paths.go:150  ^.+/_uploads/([^/]+)/(?:data$|startedat$|hashstates/[a-zA-Z0-9]+(?:/[0-9]+)?$) *)
Definition ast_get_upload_uuid : re :=
  seqs [dots; L (sls s_uploads); Grp noslash; L [SL];
        NGrp (Alt (Seq (L s_data) Eol) (Alt (Seq (L s_startedat) Eol) hs_tail))].
(* paths.go:160  ^.+/_uploads/[^/]+/hashstates/([a-zA-Z0-9]+)/([0-9]+)$ *)
Definition ast_get_upload_algo_offset : re :=
  seqs [dots; L (sls s_uploads); noslash; L (sls s_hashstates); Grp alnums; L [SL]; Grp digits; Eol].
(* paths.go:171  ^.+/_manifests/(tags|revisions)(?:/.+/link)?$ *)
Definition ast_match_manifests : re :=
  seqs [dots; L (sls s_manifests); Grp (Alt (L s_tags) (L s_revisions));
        Opt (seqs [L [SL]; dots; L (sl s_link)]); Eol].
(* paths.go:181  ^.+/blobs/sha256/[0-9a-z]{2}/[0-9a-z]+/data$ *)
Definition ast_match_blobs : re :=
  seqs [dots; L (sls s_blobs ++ s_sha256 ++ [SL]); Rep 2 c09az; L [SL]; hexs; L (sl s_data); Eol].
(* paths.go:191  ^.+/_layers/sha256/[0-9a-z]+/(link|data)$ *)
Definition ast_match_layers : re :=
  seqs [dots; L (sls s_layers ++ s_sha256 ++ [SL]); hexs; L [SL]; Grp (Alt (L s_link) (L s_data)); Eol].
(* paths.go:202  ^.+/_uploads/[^/]+/(data$|startedat$|hashstates) *)
Definition ast_match_uploads : re :=
  seqs [dots; L (sls s_uploads); noslash; L [SL];
        Grp (Alt (Seq (L s_data) Eol) (Alt (Seq (L s_startedat) Eol) (L s_hashstates)))].
(* paths.go:211  ^.+/_uploads/[^/]+/hashstates/[a-zA-Z0-9]+(?:/[0-9]+)?$ *)
Definition ast_match_uploads_hashstates : re :=
  seqs [dots; L (sls s_uploads); noslash; L [SL]; hs_tail].

(* the table (pattern tree, literal extracted from the source) checked in Proof/C38.v *)
Definition pattern_table (get_repo_ast : re) : list (re * list N) :=
  [ (get_repo_ast, re_get_repo);
    (ast_get_blob_digest, re_get_blob_digest);
    (ast_get_layer_digest, re_get_layer_digest);
    (ast_get_manifest_digest, re_get_manifest_digest);
    (ast_get_manifest_tag, re_get_manifest_tag);
    (ast_get_upload_uuid, re_get_upload_uuid);
    (ast_get_upload_algo_offset, re_get_upload_algo_offset);
    (ast_match_manifests, re_match_manifests);
    (ast_match_blobs, re_match_blobs);
    (ast_match_layers, re_match_layers);
    (ast_match_uploads, re_match_uploads);
    (ast_match_uploads_hashstates, re_match_uploads_hashstates) ].
Definition table_ok (t : list (re * list N)) : bool :=
  forallb (fun p => wf false true (fst p) && str_eqb (show_anchored (fst p)) (snd p)) t.

(* ---------- the functions of paths.go ---------- *)
Definition first_cap (o : option (list (list N))) : option (list N) :=
  match o with Some (c :: _) => Some c | _ => None end.

(* core/digest.go:159 ValidateSHA256: 64 characters that hex.DecodeString accepts *)
Definition is_hex (c : N) : bool :=
  (N.leb 48 c && N.leb c 57) || (N.leb 97 c && N.leb c 102) || (N.leb 65 c && N.leb c 70).
Definition valid_sha256_hex (h : list N) : bool := Nat.eqb (length h) 64 && forallb is_hex h.
Definition digest_of (o : option (list (list N))) : option (list N) :=
  match first_cap o with
  | Some h => if valid_sha256_hex h then Some h else None   (* NewSHA256DigestFromHex *)
  | None => None
  end.

Definition get_repo_with (r : re) (p : list N) : option (list N) := first_cap (exec r p).  (* paths.go:84 *)
Definition get_repo := get_repo_with ast_get_repo.
Definition get_repo_prefix := get_repo_with ast_get_repo_prefix.   (* as shipped, before the fix *)
Definition get_blob_digest (p : list N) := digest_of (exec ast_get_blob_digest p).          (* paths.go:94 *)
Definition get_layer_digest (p : list N) := digest_of (exec ast_get_layer_digest p).        (* paths.go:108 *)
Definition get_manifest_digest (p : list N) := digest_of (exec ast_get_manifest_digest p).  (* paths.go:122 *)
Definition get_manifest_tag (p : list N) : option (list N * bool) :=                        (* paths.go:136 *)
  match exec ast_get_manifest_tag p with
  | Some (t :: c :: _) => Some (t, str_eqb c s_current)
  | _ => None
  end.
Definition get_upload_uuid (p : list N) : option (list N) := first_cap (exec ast_get_upload_uuid p).  (* paths.go:149 *)
Definition get_upload_algo_offset (p : list N) : option (list N * list N) :=               (* paths.go:159 *)
  match exec ast_get_upload_algo_offset p with
  | Some (a :: o :: _) => Some (a, o)
  | _ => None
  end.

Definition match_manifests (p : list N) : option (list N) := first_cap (exec ast_match_manifests p).  (* paths.go:170 *)
Definition match_blobs (p : list N) : option (list N) :=                                                (* paths.go:180 *)
  match exec ast_match_blobs p with Some _ => Some st_data | None => None end.
Definition match_layers (p : list N) : option (list N) := first_cap (exec ast_match_layers p).        (* paths.go:190 *)
Definition match_uploads (p : list N) : option (list N) :=                                              (* paths.go:201 *)
  match first_cap (exec ast_match_uploads p) with
  | Some st =>
      if str_eqb st st_hashstates                                                                       (* paths.go:209 *)
      then match exec ast_match_uploads_hashstates p with Some _ => Some st | None => None end
      else Some st
  | None => None
  end.

(* paths.go:67 ParsePath: Some (type, subtype) or None (error) *)
Definition parse_path (p : list N) : option (list N * list N) :=
  match match_manifests p with Some st => Some (pt_manifests, st) | None =>
  match match_uploads p with Some st => Some (pt_uploads, st) | None =>
  match match_layers p with Some st => Some (pt_layers, st) | None =>
  match match_blobs p with Some st => Some (pt_blobs, st) | None => None end end end end.

(* everything the eight functions say about one path *)
Record obs := mkobs {
  o_parse : option (list N * list N);
  o_repo : option (list N);
  o_tag : option (list N * bool);
  o_blob : option (list N);
  o_layer : option (list N);
  o_manifest : option (list N);
  o_uuid : option (list N);
  o_algo : option (list N * list N) }.

Definition observe_with (repo_re : re) (p : list N) : obs :=
  mkobs (parse_path p) (get_repo_with repo_re p) (get_manifest_tag p) (get_blob_digest p)
        (get_layer_digest p) (get_manifest_digest p) (get_upload_uuid p) (get_upload_algo_offset p).
Definition observe := observe_with ast_get_repo.

(* ---------- the layout: how docker/distribution builds storage paths ---------- *)
Definition v2_root := [47; 100; 111; 99; 107; 101; 114; 47; 114; 101; 103; 105; 115; 116; 114; 121; 47; 118; 50].  (* "/docker/registry/v2" *)

Inductive pk :=
| KRevisions (repo : list N)                               (* <repo>/_manifests/revisions *)
| KRevision (repo hex : list N)                            (* <repo>/_manifests/revisions/sha256/<hex>/link *)
| KTags (repo : list N)                                    (* <repo>/_manifests/tags *)
| KTagCurrent (repo tag : list N)                          (* <repo>/_manifests/tags/<tag>/current/link *)
| KTagIndex (repo tag hex : list N)                        (* <repo>/_manifests/tags/<tag>/index/sha256/<hex>/link *)
| KLayer (data : bool) (repo hex : list N)                 (* <repo>/_layers/sha256/<hex>/link|data *)
| KBlob (hex : list N)                                     (* blobs/sha256/<hex[0:2]>/<hex>/data *)
| KUploadData (repo uuid : list N)                         (* <repo>/_uploads/<uuid>/data *)
| KUploadStartedAt (repo uuid : list N)                    (* <repo>/_uploads/<uuid>/startedat *)
| KUploadHashStates (repo uuid algo : list N)              (* <repo>/_uploads/<uuid>/hashstates/<algo> *)
| KUploadHashState (repo uuid algo off : list N).          (* <repo>/_uploads/<uuid>/hashstates/<algo>/<offset> *)

Definition repo_dir (repo : list N) : list N := v2_root ++ sls s_repositories ++ repo.
Definition build (k : pk) : list N :=
  match k with
  | KRevisions r => repo_dir r ++ sls s_manifests ++ s_revisions
  | KRevision r h => repo_dir r ++ sls s_manifests ++ s_revisions ++ sls s_sha256 ++ h ++ sl s_link
  | KTags r => repo_dir r ++ sls s_manifests ++ s_tags
  | KTagCurrent r t => repo_dir r ++ sls s_manifests ++ s_tags ++ SL :: t ++ sls s_current ++ s_link
  | KTagIndex r t h => repo_dir r ++ sls s_manifests ++ s_tags ++ SL :: t ++ sls s_index ++ s_sha256 ++ SL :: h ++ sl s_link
  | KLayer d r h => repo_dir r ++ sls s_layers ++ s_sha256 ++ SL :: h ++ sl (if d then s_data else s_link)
  | KBlob h => v2_root ++ sls s_blobs ++ s_sha256 ++ SL :: firstn 2 h ++ SL :: h ++ sl s_data
  | KUploadData r u => repo_dir r ++ sls s_uploads ++ u ++ sl s_data
  | KUploadStartedAt r u => repo_dir r ++ sls s_uploads ++ u ++ sl s_startedat
  | KUploadHashStates r u a => repo_dir r ++ sls s_uploads ++ u ++ sls s_hashstates ++ a
  | KUploadHashState r u a o => repo_dir r ++ sls s_uploads ++ u ++ sls s_hashstates ++ a ++ SL :: o
  end.

(* what the property demands of the eight functions on a built path *)
Definition no_obs (parse : option (list N * list N)) (repo : option (list N)) : obs :=
  mkobs parse repo None None None None None None.
Definition expected (k : pk) : obs :=
  match k with
  | KRevisions r => no_obs (Some (pt_manifests, st_revisions)) (Some r)
  | KRevision r h => mkobs (Some (pt_manifests, st_revisions)) (Some r) None None None (Some h) None None
  | KTags r => no_obs (Some (pt_manifests, st_tags)) (Some r)
  | KTagCurrent r t => mkobs (Some (pt_manifests, st_tags)) (Some r) (Some (t, true)) None None None None None
  | KTagIndex r t h => mkobs (Some (pt_manifests, st_tags)) (Some r) (Some (t, false)) None None (Some h) None None
  | KLayer d r h => mkobs (Some (pt_layers, if d then st_data else st_link)) (Some r) None None (Some h) None None None
  | KBlob h => mkobs (Some (pt_blobs, st_data)) None None (Some h) None None None None
  | KUploadData r u => mkobs (Some (pt_uploads, st_data)) (Some r) None None None None (Some u) None
  | KUploadStartedAt r u => mkobs (Some (pt_uploads, st_startedat)) (Some r) None None None None (Some u) None
  | KUploadHashStates r u a => mkobs (Some (pt_uploads, st_hashstates)) (Some r) None None None None (Some u) None
  | KUploadHashState r u a o => mkobs (Some (pt_uploads, st_hashstates)) (Some r) None None None None (Some u) (Some (a, o))
  end.

(* ---------- validity of components ---------- *)
Definition lower_alnum (c : N) : bool := (N.leb 48 c && N.leb c 57) || (N.leb 97 c && N.leb c 122).
Definition alnum (c : N) : bool := lower_alnum c || (N.leb 65 c && N.leb c 90).
Definition digit (c : N) : bool := N.leb 48 c && N.leb c 57.
Definition nonempty {A} (l : list A) : bool := match l with [] => false | _ => true end.

(* docker/distribution reference grammar (length limits dropped, separators lenient):
   repository = component ('/' component)*,  component = [a-z0-9]+ ([._-]+ [a-z0-9]+)*  *)
Definition repo_char (c : N) : bool := lower_alnum c || N.eqb c 46 || N.eqb c 95 || N.eqb c 45.
Definition comp_ok (s : list N) : bool :=
  forallb repo_char s && match s with [] => false | c :: _ => lower_alnum c end && lower_alnum (last s 0).
Definition valid_repo (r : list N) : bool := forallb comp_ok (segs r).
(* tag = [A-Za-z0-9_][A-Za-z0-9_.-]*  *)
Definition tag_char (c : N) : bool := alnum c || N.eqb c 46 || N.eqb c 95 || N.eqb c 45.
Definition valid_tag (t : list N) : bool :=
  forallb tag_char t && match t with [] => false | c :: _ => alnum c || N.eqb c 95 end.
(* digest hex: 64 lower-case hex digits *)
Definition lower_hex (c : N) : bool := (N.leb 48 c && N.leb c 57) || (N.leb 97 c && N.leb c 102).
Definition valid_hex (h : list N) : bool := Nat.eqb (length h) 64 && forallb lower_hex h.
(* upload id: uuid text; leniently any non-empty [A-Za-z0-9-]+ *)
Definition valid_uuid (u : list N) : bool := nonempty u && forallb (fun c => alnum c || N.eqb c 45) u.
Definition valid_algo (a : list N) : bool := nonempty a && forallb alnum a.
Definition valid_offset (o : list N) : bool := nonempty o && forallb digit o.

(* what the theorems actually need (weaker; implied by the above, Proof/C38.v `valid_*_ok`) *)
Definition seg_ok (s : list N) : bool :=     (* non-empty, no newline, does not start with '_' *)
  match s with [] => false | c :: _ => negb (N.eqb c 95) && forallb (fun x => negb (N.eqb x NL)) s end.
Definition repo_ok (r : list N) : bool := forallb seg_ok (segs r).
Definition tag_ok (t : list N) : bool :=     (* non-empty, no '/', no newline *)
  nonempty t && forallb (fun x => negb (N.eqb x SL) && negb (N.eqb x NL)) t.
Definition uuid_ok (u : list N) : bool :=    (* non-empty, no '/', does not start with '_' *)
  match u with [] => false | c :: _ => negb (N.eqb c 95) && forallb (fun x => negb (N.eqb x SL)) u end.

Definition pk_ok (k : pk) : bool :=
  match k with
  | KRevisions r | KTags r => repo_ok r
  | KRevision r h | KLayer _ r h => repo_ok r && valid_hex h
  | KTagCurrent r t => repo_ok r && tag_ok t
  | KTagIndex r t h => repo_ok r && tag_ok t && valid_hex h
  | KBlob h => valid_hex h
  | KUploadData r u | KUploadStartedAt r u => repo_ok r && uuid_ok u
  | KUploadHashStates r u a => repo_ok r && uuid_ok u && valid_algo a
  | KUploadHashState r u a o => repo_ok r && uuid_ok u && valid_algo a && valid_offset o
  end.
Definition pk_valid (k : pk) : bool :=
  match k with
  | KRevisions r | KTags r => valid_repo r
  | KRevision r h | KLayer _ r h => valid_repo r && valid_hex h
  | KTagCurrent r t => valid_repo r && valid_tag t
  | KTagIndex r t h => valid_repo r && valid_tag t && valid_hex h
  | KBlob h => valid_hex h
  | KUploadData r u | KUploadStartedAt r u => valid_repo r && valid_uuid u
  | KUploadHashStates r u a => valid_repo r && valid_uuid u && valid_algo a
  | KUploadHashState r u a o => valid_repo r && valid_uuid u && valid_algo a && valid_offset o
  end.

(* ---------- equality on observations ---------- *)
Definition opt_eqb {A} (e : A -> A -> bool) (a b : option A) : bool :=
  match a, b with Some x, Some y => e x y | None, None => true | _, _ => false end.
Definition pair_eqb {A B} (ea : A -> A -> bool) (eb : B -> B -> bool) (a b : A * B) : bool :=
  ea (fst a) (fst b) && eb (snd a) (snd b).
Definition obs_eqb (a b : obs) : bool :=
  opt_eqb (pair_eqb str_eqb str_eqb) (o_parse a) (o_parse b)
  && opt_eqb str_eqb (o_repo a) (o_repo b)
  && opt_eqb (pair_eqb str_eqb Bool.eqb) (o_tag a) (o_tag b)
  && opt_eqb str_eqb (o_blob a) (o_blob b)
  && opt_eqb str_eqb (o_layer a) (o_layer b)
  && opt_eqb str_eqb (o_manifest a) (o_manifest b)
  && opt_eqb str_eqb (o_uuid a) (o_uuid b)
  && opt_eqb (pair_eqb str_eqb str_eqb) (o_algo a) (o_algo b).

(* ---------- the property on one observed case ----------
   built = Some k: the path must be the one the layout prescribes for k and, when k's components
   are valid, the implementation's answers must be exactly `expected k` (spec-based: no use of
   the matcher). *)
Definition C38_check (path : list N) (built : option pk) (o : obs) : bool :=
  match built with
  | Some k => negb (str_eqb path (build k) && pk_ok k) || obs_eqb o (expected k)
  | None => true
  end.
