(* Model of the build-index tag path:
     build-index/tagserver/server.go   putTagHandler, duplicatePutTagHandler, getTagHandler,
                                       hasTagHandler, replicateTagHandler, putTag, replicateTag
     build-index/tagstore/store.go     Put, Get, writeThroughStrategy, asyncWriteBackStrategy,
                                       writeTagToDisk, resolveFromDisk, resolveFromBackend
     lib/persistedretry/writeback/executor.go   Exec, upload
     lib/persistedretry/manager.go     SyncExec (retry in place), Add (no-op on ErrTaskExists)
   The write-back task table is the shared model K.Model.Retry (owner C30), used read-only: its
   [store] with [add_row], [remove_row], [mark_failed]; one [Exec] operation of this model is one
   worker round of the manager (Retry.OpDeq; OpExecRet t ok; OpExecFin t) whose verdict [ok] is
   computed here by the executor model instead of being an oracle.
   Executable definitions only; proofs live in Proof/C32.v.

   Tags, digests and dependencies are canonicalised to small N by the harness.  Environment
   answers are oracles carried by the operations: the origin cluster's Stat answer for every
   dependency, the dependency resolver's verdict, injected file-store faults, the backend's
   fault pattern for every executor attempt / download / stat, the neighbour's and the
   replication manager's verdicts.  The backend itself is state (it is what the property
   speaks about); [BkSet] is the environment (another build-index node) writing it. *)
From Coq Require Import List NArith Bool.
From K.Model Require Retry.
Import ListNotations.
Local Open Scope N_scope.

(* ------------------------------------------------------------------ data *)

Inductive ans := AFound | AMissing | AErr.      (* localOriginClient.Stat: nil | ErrBlobNotFound | other *)
Inductive content := CDig (d : N) | CBad.        (* a backend object: d.String() of digest d | unparsable *)
Inductive upans := UOk | UErr | UErrStored.      (* client.Upload: stored, nil | error | error, yet stored *)
Record eans := mkea { ea_statf : bool; ea_up : upans }.   (* one executor attempt: Stat faulted?; Upload *)
Inductive fsf := F0 | FCreate | FSetMd.          (* injected file-store fault of one store.Put *)
Inductive mode := WriteThrough | Async.          (* tagstore.Config.WriteThrough *)

(* c_att = SyncRetryBackoff.MaxRetries + 1 executor attempts of SyncExec (manager.go:158);
   c_ns = a backend is registered for the tags' namespace *)
Record cfg := mkcfg { c_mode : mode; c_att : N; c_ns : bool }.

Record put := mkput {
  p_tag : N; p_dig : N;
  p_res : bool;             (* depResolver.Resolve succeeded *)
  p_deps : list ans;        (* the origin's Stat answer for each resolved dependency *)
  p_fs : fsf;
  p_ex : list eans;         (* write-through: backend answers for the successive attempts *)
  p_nb : bool;              (* the neighbour accepted the DuplicatePut (ignored by putTag) *)
  p_rep : bool;             (* ?replicate=true *)
  p_repok : bool }.         (* tagReplicationManager.Add succeeded *)

Inductive op :=
| Put (p : put)                                         (* PUT /tags/{tag}/digest/{digest} *)
| DupPut (t d : N) (delayed : bool) (f : fsf) (ex : list eans)   (* PUT /internal/duplicate/tags/... *)
| Get (t : N) (f : bool)                                (* GET /tags/{tag}; f = backend Download faulted *)
| Has (t : N) (f : bool)                                (* HEAD /tags/{tag}; f = backend Stat faulted *)
| Repl (t : N) (f : bool) (r : bool) (ok : bool)        (* POST /remotes/tags/{tag} *)
| Exec (t : N) (a : eans)                               (* the retry manager runs the stored task of t *)
| BkSet (t : N) (c : content)                           (* environment writes the backend *)
| Bad (k : N) (t : N).                                  (* malformed request of kind k *)

Definition op_tag (o : op) : N :=
  match o with
  | Put p => p_tag p | DupPut t _ _ _ _ => t | Get t _ => t | Has t _ => t
  | Repl t _ _ _ => t | Exec t _ => t | BkSet t _ => t | Bad _ t => t
  end.

(* result kinds: 200 | 404 | 400 | 5xx | operation not enabled *)
Inductive res := ROk | RNotFound | RBad | RFail | RIllegal.

(* what the node holds for one tag: digest on disk, backend object, failures of the stored task *)
Record snap := mksnap { sn_disk : option N; sn_bk : option content; sn_task : option N }.
(* o_dig: digest in the body; o_nb: digests sent to the neighbour by DuplicatePut;
   o_rep: digests of the replication tasks added *)
Record out := mkout { o_res : res; o_dig : option N; o_nb : list N; o_rep : list N; o_snap : snap }.

Record st := mkst { disk : list (N * N); bk : list (N * content); tasks : Retry.store }.
Definition init : st := mkst [] [] [].

Fixpoint aget {A} (t : N) (l : list (N * A)) : option A :=
  match l with
  | [] => None
  | (k, v) :: r => if k =? t then Some v else aget t r
  end.
Definition aset {A} (t : N) (v : A) (l : list (N * A)) : list (N * A) := (t, v) :: l.

Definition with_disk (s : st) (d : list (N * N)) : st := mkst d (bk s) (tasks s).
Definition with_bk (s : st) (b : list (N * content)) : st := mkst (disk s) b (tasks s).
Definition with_tasks (s : st) (ts : Retry.store) : st := mkst (disk s) (bk s) ts.

Definition snap_of (s : st) (t : N) : snap :=
  mksnap (aget t (disk s)) (aget t (bk s))
         (match Retry.find_row t (tasks s) with Some r => Some (Retry.r_fail r) | None => None end).

(* ------------------------------------------------------------------ tagstore + executor *)

Definition is_found (a : ans) : bool := match a with AFound => true | _ => false end.
(* server.go:510-516: every Stat must return nil *)
Definition deps_ok (l : list ans) : bool := forallb is_found l.

(* store.go:139 writeTagToDisk: CreateCacheFile, os.IsExist ignored => the first writer wins *)
Definition disk_add (t d : N) (s : st) : st :=
  match aget t (disk s) with
  | Some _ => s
  | None => with_disk s (aset t d (disk s))
  end.

(* executor.go:68 Exec / :127 upload, one attempt; returns (state, err == nil) *)
Definition exec_once (c : cfg) (s : st) (t : N) (a : eans) : st * bool :=
  if negb (c_ns c) then (s, true)                        (* :137 ErrNamespaceNotFound: dropped *)
  else if negb (ea_statf a) && match aget t (bk s) with Some _ => true | None => false end
  then (s, true)                                         (* :154 already in the backend: no-op *)
  else match aget t (disk s) with
       | None => (s, true)                               (* :166 cache file missing: dropped *)
       | Some d =>
           match ea_up a with                            (* :190 client.Upload of the cache file *)
           | UOk => (with_bk s (aset t (CDig d) (bk s)), true)
           | UErr => (s, false)
           | UErrStored => (with_bk s (aset t (CDig d) (bk s)), false)
           end
       end.

(* manager.go:158 SyncExec: backoff.Retry over the attempts *)
Fixpoint sync_exec (c : cfg) (s : st) (t : N) (ex : list eans) : st * bool :=
  match ex with
  | [] => (s, false)
  | a :: r => let '(s1, ok) := exec_once c s t a in
              if ok then (s1, true) else sync_exec c s1 t r
  end.

(* store.go:95 Put; returns (state, err == nil) *)
Definition store_put (c : cfg) (s : st) (t d : N) (delayed : bool) (f : fsf) (ex : list eans) : st * bool :=
  match f with
  | FCreate => (s, false)                                (* :98 write tag to disk failed *)
  | _ =>
    let s1 := disk_add t d s in
    match f with
    | FSetMd => (s1, false)                              (* :102 set persist metadata failed *)
    | _ =>
      match c_mode c with
      | WriteThrough => sync_exec c s1 t (firstn (N.to_nat (c_att c)) ex)     (* :125 *)
      | Async =>                                         (* :133; manager.go:127 Add *)
          match Retry.add_row t (if delayed then Retry.Failed else Retry.Pending)
                              (if delayed then 1 else 0) 0 (tasks s1) with
          | Some ts => (with_tasks s1 ts, true)
          | None => (s1, true)                           (* ErrTaskExists: no-op *)
          end
      end
    end
  end.

(* store.go:109 Get: disk first, then the backend; a backend error is "not found" (:197) *)
Definition store_get (c : cfg) (s : st) (t : N) (f : bool) : res * option N :=
  match aget t (disk s) with
  | Some d => (ROk, Some d)
  | None =>
      if negb (c_ns c) then (RFail, None)                (* :181 backend manager error *)
      else if f then (RNotFound, None)
      else match aget t (bk s) with
           | None => (RNotFound, None)
           | Some (CDig d) => (ROk, Some d)
           | Some CBad => (RFail, None)                  (* :201 parse backend digest *)
           end
  end.

(* ------------------------------------------------------------------ handlers *)

Definition fin (s : st) (t : N) (r : res) (d : option N) (nb rep : list N) : st * out :=
  (s, mkout r d nb rep (snap_of s t)).

Definition step (c : cfg) (s : st) (o : op) : st * out :=
  match o with
  | Put p =>                                             (* server.go:180 putTagHandler *)
      let t := p_tag p in
      if negb (p_res p) then fin s t RFail None [] []    (* :222 resolve dependencies *)
      else if negb (deps_ok (p_deps p)) then fin s t RFail None [] []      (* :510 *)
      else let '(s1, ok) := store_put c s t (p_dig p) false (p_fs p) (p_ex p) in    (* :520 *)
           if negb ok then fin s1 t RFail None [] []
           else if p_rep p                               (* :243, :554 replicateTag *)
                then if p_repok p then fin s1 t ROk None [p_dig p] [p_dig p]
                     else fin s1 t RFail None [p_dig p] []
                else fin s1 t ROk None [p_dig p] []
  | DupPut t d delayed f ex =>                           (* server.go:262 *)
      let '(s1, ok) := store_put c s t d delayed f ex in
      fin s1 t (if ok then ROk else RFail) None [] []
  | Get t f =>                                           (* server.go:293 *)
      let '(r, d) := store_get c s t f in fin s t r d [] []
  | Has t f =>                                           (* server.go:320 *)
      if negb (c_ns c) then fin s t RFail None [] []
      else if f then fin s t RFail None [] []
      else match aget t (bk s) with
           | Some _ => fin s t ROk None [] []
           | None => fin s t RNotFound None [] []
           end
  | Repl t f r ok =>                                     (* server.go:432 *)
      match store_get c s t f with
      | (ROk, Some d) =>
          if negb r then fin s t RFail None [] []
          else if ok then fin s t ROk None [] [d] else fin s t RFail None [] []
      | (r0, _) => fin s t r0 None [] []
      end
  | Exec t a =>                                          (* manager.go:285 exec *)
      if Retry.storedb t (tasks s)
      then let '(s1, ok) := exec_once c s t a in
           if ok then fin (with_tasks s1 (Retry.remove_row t (tasks s1))) t ROk None [] []
           else fin (with_tasks s1 (Retry.mark_failed t 0 (tasks s1))) t RFail None [] []
      else fin s t RIllegal None [] []
  | BkSet t x => fin (with_bk s (aset t x (bk s))) t ROk None [] []
  | Bad k t =>
      (* 0: unparsable digest in PUT (400); 1: replicate=<not a bool> (500);
         2: duplicate put with an unparsable digest (400); 3: ... with an undecodable body (500) *)
      fin s t (if (k =? 0) || (k =? 2) then RBad else RFail) None [] []
  end.

Fixpoint run (c : cfg) (s : st) (ops : list op) : st * list out :=
  match ops with
  | [] => (s, [])
  | o :: r => let '(s1, x) := step c s o in
              let '(s2, xs) := run c s1 r in (s2, x :: xs)
  end.

(* ------------------------------------------------------------------ vocabulary of the theorems *)

(* the PUT passed the dependency check *)
Definition passed (p : put) : bool := p_res p && deps_ok (p_deps p).

(* operation o puts digest d for tag t: a PUT that passed the dependency check, or a duplicate
   put forwarded by a neighbour (which made that check itself) *)
Definition writesb (o : op) (t d : N) : bool :=
  match o with
  | Put p => (p_tag p =? t) && (p_dig p =? d) && passed p
  | DupPut t' d' _ _ _ => (t' =? t) && (d' =? d)
  | _ => false
  end.
Definition put_forb (t d : N) (ops : list op) : bool := existsb (fun o => writesb o t d) ops.

(* the environment writes tag t's backend object *)
Definition is_bkset (o : op) (t : N) : bool :=
  match o with BkSet t' _ => t' =? t | _ => false end.
Definition bkset_free (t : N) (ops : list op) : bool := forallb (fun o => negb (is_bkset o t)) ops.

(* ------------------------------------------------------------------ comparison of observations *)

Definition res_eqb (a b : res) : bool :=
  match a, b with
  | ROk, ROk | RNotFound, RNotFound | RBad, RBad | RFail, RFail | RIllegal, RIllegal => true
  | _, _ => false
  end.
Definition optN_eqb (a b : option N) : bool :=
  match a, b with Some x, Some y => x =? y | None, None => true | _, _ => false end.
Definition content_eqb (a b : content) : bool :=
  match a, b with CDig x, CDig y => x =? y | CBad, CBad => true | _, _ => false end.
Definition optc_eqb (a b : option content) : bool :=
  match a, b with Some x, Some y => content_eqb x y | None, None => true | _, _ => false end.
Fixpoint listN_eqb (a b : list N) : bool :=
  match a, b with
  | [], [] => true
  | x :: a', y :: b' => (x =? y) && listN_eqb a' b'
  | _, _ => false
  end.
Definition snap_eqb (a b : snap) : bool :=
  optN_eqb (sn_disk a) (sn_disk b) && optc_eqb (sn_bk a) (sn_bk b) && optN_eqb (sn_task a) (sn_task b).
Definition out_eqb (a b : out) : bool :=
  res_eqb (o_res a) (o_res b) && optN_eqb (o_dig a) (o_dig b) && listN_eqb (o_nb a) (o_nb b) &&
  listN_eqb (o_rep a) (o_rep b) && snap_eqb (o_snap a) (o_snap b).
Fixpoint outs_eqb (a b : list out) : bool :=
  match a, b with
  | [], [] => true
  | x :: a', y :: b' => out_eqb x y && outs_eqb a' b'
  | _, _ => false
  end.

(* ------------------------------------------------------------------ the property on one observed trace *)

(* The oracle reads only the operations performed and what the implementation answered.
   Per tag it keeps: the digests that were put for it (a PUT whose dependencies were all
   confirmed, or a duplicate put from a neighbour, which did that check itself), whether a put
   has succeeded, the digest the node resolved the tag to since then, and whether the environment
   wrote the tag's backend object. *)
Record tagk := mktk { k_puts : list N; k_succ : bool; k_fix : option N; k_env : bool }.
Definition tk0 : tagk := mktk [] false None false.
Record chk := mkchk { k_tags : list (N * tagk); k_ok : bool }.
Definition chk0 : chk := mkchk [] true.

Definition tk (k : chk) (t : N) : tagk := match aget t (k_tags k) with Some x => x | None => tk0 end.
Definition upd_tk (k : chk) (t : N) (x : tagk) (b : bool) : chk := mkchk (aset t x (k_tags k)) (k_ok k && b).
Definition memb (d : N) (l : list N) : bool := existsb (N.eqb d) l.

(* clause "resolves to a digest that was put for it, the same one forever":
   evaluated wherever the implementation shows the digest the node holds for a tag that has been
   put successfully *)
Definition cl_resolved (x : tagk) (d : option N) : bool * option N :=
  if k_succ x then
    match d with
    | Some v => (memb v (k_puts x) && match k_fix x with Some w => w =? v | None => true end, Some v)
    | None => (false, k_fix x)
    end
  else (true, k_fix x).

(* clause "the backend holds that same digest" at a point where it must (after a successful
   write-through put; after a successful execution of the write-back task) *)
Definition cl_backend (c : cfg) (x : tagk) (sn : snap) : bool :=
  if c_ns c && negb (k_env x) then
    match sn_disk sn, sn_bk sn with
    | Some d, Some (CDig b) => d =? b
    | _, _ => false
    end
  else true.

(* clause "written back eventually": once a put succeeded, until the backend holds the tag its
   write-back task stays stored (write-through: the backend holds it at once) *)
Definition cl_pending (c : cfg) (x : tagk) (sn : snap) : bool :=
  if c_ns c && k_succ x then
    match sn_bk sn, sn_task sn with
    | None, None => false
    | _, _ => true
    end
  else true.

Definition is_async (c : cfg) : bool := match c_mode c with Async => true | WriteThrough => false end.

(* the oracle's transition for the tag of the operation: new bookkeeping, clauses hold *)
Definition chk_tag (c : cfg) (x : tagk) (o : op) (r : out) : tagk * bool :=
  let sn := o_snap r in
  let pend (y : tagk) := cl_pending c y sn in
  match o with
  | Put p =>
      let passed := p_res p && deps_ok (p_deps p) in
      let x1 := mktk (if passed then p_dig p :: k_puts x else k_puts x) (k_succ x) (k_fix x) (k_env x) in
      match o_res r with
      | ROk =>
          let x2 := mktk (k_puts x1) true (k_fix x1) (k_env x1) in
          let '(b, fx) := cl_resolved x2 (sn_disk sn) in
          (mktk (k_puts x2) true fx (k_env x2),
           passed                                                   (* dependency-checked *)
           && b                                                     (* stable *)
           && (if is_async c then cl_pending c x2 sn else cl_backend c x2 sn))   (* written back *)
      | _ =>
          let '(b, fx) := cl_resolved x1 (sn_disk sn) in
          (mktk (k_puts x1) (k_succ x1) fx (k_env x1),
           b && pend x1
           && (match o_nb r, o_rep r with [], [] => true | _, _ => passed end))
      end
  | DupPut _ d _ _ _ =>
      let x1 := mktk (d :: k_puts x) (k_succ x) (k_fix x) (k_env x) in
      match o_res r with
      | ROk =>
          let x2 := mktk (k_puts x1) true (k_fix x1) (k_env x1) in
          let '(b, fx) := cl_resolved x2 (sn_disk sn) in
          (mktk (k_puts x2) true fx (k_env x2),
           b && (if is_async c then cl_pending c x2 sn else cl_backend c x2 sn))
      | _ =>
          let '(b, fx) := cl_resolved x1 (sn_disk sn) in
          (mktk (k_puts x1) (k_succ x1) fx (k_env x1), b && pend x1)
      end
  | Get _ _ =>
      (* what GET answers is what the node resolves the tag to *)
      let '(b, fx) := cl_resolved x (match o_res r with ROk => o_dig r | _ => None end) in
      (mktk (k_puts x) (k_succ x) fx (k_env x), b && pend x)
  | Repl _ _ _ _ =>
      (* a replication task carries the resolved digest *)
      let '(b, fx) := match o_rep r with
                      | d :: _ => cl_resolved x (Some d)
                      | [] => (true, k_fix x)
                      end in
      (mktk (k_puts x) (k_succ x) fx (k_env x), b)
  | Exec _ _ =>
      let '(b, fx) := cl_resolved x (sn_disk sn) in
      (mktk (k_puts x) (k_succ x) fx (k_env x),
       b && cl_pending c x sn &&
       match o_res r with ROk => cl_backend c x sn | _ => true end)
  | BkSet _ _ => (mktk (k_puts x) (k_succ x) (k_fix x) true, true)
  | Has _ _ => (x, pend x)
  | Bad _ _ => (x, true)
  end.

Definition chk_step (c : cfg) (k : chk) (o : op) (r : out) : chk :=
  let '(x, b) := chk_tag c (tk k (op_tag o)) o r in upd_tk k (op_tag o) x b.

Fixpoint chk_run (c : cfg) (k : chk) (ops : list op) (outs : list out) : chk :=
  match ops, outs with
  | o :: ops', r :: outs' => chk_run c (chk_step c k o r) ops' outs'
  | _, _ => k
  end.

Definition C32_check (c : cfg) (ops : list op) (outs : list out) : bool := k_ok (chk_run c chk0 ops outs).

(* compact constructors (generated case text, examples) *)
Definition P (t d : N) (r : bool) (deps : list ans) (f : fsf) (ex : list eans) (nb rep repok : bool) : op :=
  Put (mkput t d r deps f ex nb rep repok).
Definition O (r : res) (d : option N) (nb rep : list N) (dk : option N) (b : option content) (tk : option N) : out :=
  mkout r d nb rep (mksnap dk b tk).
Definition E (f : bool) (u : upans) : eans := mkea f u.
