(* C07 — the disk blob store (lib/store/disk/store.go, scoped_store.go) behaves like its
   capacity-bounded LRU model.  The model is the shared Model/LruStore.v with backing = Disk;
   this file only fixes the instance and the boolean oracle evaluated on observed traces. *)
From Coq Require Import List NArith ZArith Bool.
From K.Model Require Export LruStore.
Import ListNotations.
Local Open Scope N_scope.

(* the concrete model of the (fixed) code and the reference specification, from an empty store *)
Definition C07_impl (cap : N) (ops : list op) : list (out * snap) := snd (crun Disk true (cinit cap) ops).
Definition C07_spec (cap : N) (ops : list op) : list (out * snap) := snd (srun Disk (sinit cap) ops).
(* the code before fixes/C07_admission_overflow.patch (uint64 `size+space`) *)
Definition C07_impl_prefix (cap : N) (ops : list op) : list (out * snap) := snd (crun Disk false (cinit cap) ops).

(* states reached from the empty store by a history (concrete layer / spec layer); the abstraction
   function from concrete to spec states is the projection c_core *)
Definition reach_c (cap : N) (ops : list op) : cstate := fst (crun Disk true (cinit cap) ops).
Definition reach_s (cap : N) (ops : list op) : sstate := fst (srun Disk (sinit cap) ops).

(* The property on one OBSERVED trace (results and internal snapshots recorded from the real
   store): every result and every snapshot is the one the reference specification gives —
   reserved = sum of sizes, LRU order by last use, scopes, metadata — and each snapshot on its
   own is well formed (counter = sum of the listed sizes <= capacity; the queue holds exactly
   the complete, not banned keys). *)
Definition C07_check (cap : N) (ops : list op) (obs : list (out * snap)) : bool := lru_check Disk cap ops obs.
