(* Shared path library: executable models of Go's path.Clean / path.Join (package "path",
   go1.24 src/path/path.go) and a few byte-string helpers.  Strings are lists of bytes (N).
   Owned by C36; other properties may import it read-only.  Proofs: Proof/PathLib.v. *)
From Coq Require Import List NArith Bool.
Import ListNotations.
Local Open Scope N_scope.

Definition str := list N.

Definition slash : N := 47.
Definition dot : N := 46.

Fixpoint str_eqb (a b : str) : bool :=
  match a, b with
  | [], [] => true
  | x :: a', y :: b' => (x =? y) && str_eqb a' b'
  | _, _ => false
  end.

Definition is_nil (s : str) : bool := match s with [] => true | _ => false end.

(* strings.HasPrefix(s, p) *)
Fixpoint prefixb (p s : str) : bool :=
  match p, s with
  | [], _ => true
  | x :: p', y :: s' => (x =? y) && prefixb p' s'
  | _ :: _, [] => false
  end.

(* strings.Split(s, string(c)) for a one-byte separator:  "" -> [""], "a:b" -> ["a";"b"] *)
Fixpoint split_on (c : N) (s : str) : list str :=
  match s with
  | [] => [[]]
  | x :: t =>
      if x =? c then [] :: split_on c t
      else match split_on c t with
           | h :: r => (x :: h) :: r
           | [] => [[x]]
           end
  end.

(* strings.Join(l, string(c)) *)
Fixpoint join_on (c : N) (l : list str) : str :=
  match l with
  | [] => []
  | [x] => x
  | x :: t => x ++ c :: join_on c t
  end.

Definition comps (s : str) : list str := split_on slash s.
Definition join_slash (l : list str) : str := join_on slash l.

Definition is_dot (c : str) : bool := str_eqb c [dot].
Definition is_dotdot (c : str) : bool := str_eqb c [dot; dot].
(* an ordinary path element: not empty, not ".", not ".." *)
Definition is_normal (c : str) : bool := negb (is_nil c) && negb (is_dot c) && negb (is_dotdot c).

Definition is_rooted (s : str) : bool :=
  match s with c :: _ => c =? slash | [] => false end.

(* One element processed by Clean's loop (path.go:84-122).  The stack is kept reversed (head =
   last element written).  `rooted` plays the role of Clean's `dotdot` barrier: in a rooted
   path ".." at the root is dropped, in a relative path leading ".." elements are kept. *)
Definition push (rooted : bool) (st : list str) (c : str) : list str :=
  if is_nil c then st                                  (* empty element: path.go:86 *)
  else if is_dot c then st                             (* "."  : path.go:89 *)
  else if is_dotdot c then                             (* ".." : path.go:92 *)
    match st with
    | top :: st' => if is_dotdot top then c :: st else st'
    | [] => if rooted then [] else [c]
    end
  else c :: st.                                        (* real element: path.go:112 *)

Definition cstack (rooted : bool) (s : str) : list str := fold_left (push rooted) (comps s) [].

Definition render (rooted : bool) (l : list str) : str :=
  if rooted then slash :: join_slash l
  else match l with [] => [dot] | _ => join_slash l end.

(* path.Clean *)
Definition clean (s : str) : str :=
  let r := is_rooted s in render r (rev (cstack r s)).

(* path.Join: empty elements are ignored, the rest is joined by "/" and cleaned; all empty -> "" *)
Definition join (elems : list str) : str :=
  match filter (fun e => negb (is_nil e)) elems with
  | [] => []
  | ne => clean (join_slash ne)
  end.

(* a clean relative path made of ordinary elements only ("a", "a/b"; not "", "/a", "a/", "a//b", "./a", "a/..") *)
Definition normal_path (s : str) : bool := forallb is_normal (comps s).

(* strings.TrimSuffix(s, "/") *)
Fixpoint trim_slash (s : str) : str :=
  match s with
  | [] => []
  | [c] => if c =? slash then [] else [c]
  | c :: t => c :: trim_slash t
  end.

Definition count_slash (s : str) : nat := length (filter (fun c => c =? slash) s).
