(* Model of the tracker's announce path:
     tracker/trackerserver/announce.go      (announce, getPeerHandout)
     tracker/trackerserver/config.go        (applyDefaults: PeerHandoutLimit)
     tracker/peerhandoutpolicy/*.go         (SortPeers, the two assignment policies)
     tracker/peerstore/local.go             (UpdatePeer as an upsert; GetPeers as a CHOICE ORACLE:
                                             the op carries what the store returned, `legal` says
                                             when that is a legal answer; C27 models the store in depth)
   Executable definitions only; proofs live in Proof/C26.v.
   SortPeers is modelled AFTER the proposed fix fixes/C26_source_by_peerid.patch (source excluded
   by PeerID); the code as pinned (source excluded by pointer identity) is kept as the mutant
   `sort_peers_ptr` / `step_ptr`. *)
From Coq Require Import List NArith ZArith Bool Sorted.
From K.Gen Require Import C26_consts.
Import ListNotations.
Local Open Scope N_scope.

(* core/peer_info.go:19  PeerInfo. Peer ids, IPs and info hashes are canonicalised to small N. *)
Record peer := mkp { pid : N; pip : N; pport : N; porigin : bool; pcomplete : bool }.

Definition peer_eqb (a b : peer) : bool :=
  (pid a =? pid b) && (pip a =? pip b) && (pport a =? pport b)
  && Bool.eqb (porigin a) (porigin b) && Bool.eqb (pcomplete a) (pcomplete b).

(* peerhandoutpolicy.go:52-59: "default" | "completeness" *)
Inductive policy := PDefault | PCompleteness.

(* trackerserver/config.go:22  (PeerHandoutLimit is a Go int: may be negative) *)
Record config := mkc { c_policy : policy; c_limit : Z }.

(* config.go:37-39  applyDefaults: 0 means the default *)
Definition eff_limit (c : config) : Z :=
  if (c_limit c =? 0)%Z then tracker_default_handout_limit else c_limit c.
(* local.go:85-90: GetPeers(h, n) returns nothing for n <= 0 *)
Definition cap (c : config) : Z := Z.max 0 (eff_limit c).

(* default_policy.go:27 / completeness_policy.go:27-35 *)
Definition prio (pol : policy) (p : peer) : N :=
  match pol with
  | PDefault => 0
  | PCompleteness => if porigin p then 1 else if pcomplete p then 0 else 2
  end.

(* sort.Slice with less = priority[i] < priority[j] (peerhandoutpolicy.go:77): some permutation
   sorted by priority; Go's sort is not stable, so the order inside a class is not fixed by the
   code.  The model uses the stable insertion sort; observables are compared modulo the order
   inside a class (Run/C26_run.v). *)
Fixpoint insert_by (f : peer -> N) (x : peer) (l : list peer) : list peer :=
  match l with
  | [] => [x]
  | y :: t => if f x <=? f y then x :: l else y :: insert_by f x t
  end.
Fixpoint isort (f : peer -> N) (l : list peer) : list peer :=
  match l with
  | [] => []
  | x :: t => insert_by f x (isort f t)
  end.

Definition not_source (source p : peer) : bool := negb (pid p =? pid source).

(* peerhandoutpolicy.go:66-88 SortPeers, with the fix: `peer.PeerID == source.PeerID` *)
Definition sort_peers (pol : policy) (source : peer) (peers : list peer) : list peer :=
  isort (prio pol) (filter (not_source source) peers).

(* SortPeers as pinned: `peer == source` compares pointers. The source is the PeerInfo decoded
   from the request body; every candidate was allocated by the peer store (local.go:102
   core.NewPeerInfo) or by the origin store (originstore/store.go:80), so the comparison is
   never true and nothing is excluded. *)
Definition sort_peers_ptr (pol : policy) (source : peer) (peers : list peer) : list peer :=
  isort (prio pol) peers.

(* ---- the peer store: info hash -> peerList in insertion order (local.go:49-52) *)
Definition store := list (N * list peer).
Definition init : store := [].

Fixpoint group (st : store) (h : N) : list peer :=
  match st with
  | [] => []
  | (k, g) :: t => if k =? h then g else group t h
  end.
Fixpoint set_group (h : N) (g : list peer) (st : store) : store :=
  match st with
  | [] => [(h, g)]
  | (k, g0) :: t => if k =? h then (k, g) :: t else (k, g0) :: set_group h g t
  end.
(* local.go:112-124: the entry of p.PeerID is created or overwritten; the origin flag is not
   stored (GetPeers hands every entry out with origin = false, local.go:102) *)
Definition entry_of (p : peer) : peer := mkp (pid p) (pip p) (pport p) false (pcomplete p).
Fixpoint upsert (e : peer) (l : list peer) : list peer :=
  match l with
  | [] => [e]
  | x :: t => if pid x =? pid e then e :: t else x :: upsert e t
  end.
Definition update_peer (st : store) (h : N) (p : peer) : store :=
  set_group h (upsert (entry_of p) (group st h)) st.

(* ---- one announce, with the environment's answers carried in the op *)
Record announce := mka {
  a_h : N;                          (* info hash (and its blob) *)
  a_peer : peer;                    (* req.Peer *)
  a_updfail : bool;                 (* peer store failed UpdatePeer (announce.go:80 logs and goes on) *)
  a_store : option (list peer);     (* what GetPeers returned; None = error, or not called *)
  a_origins : option (list peer)    (* what GetOrigins returned; None = error *)
}.
Inductive out := OErr | OPeers (l : list peer).

Definition olist (o : option (list peer)) : list peer := match o with Some l => l | None => [] end.
Definition candidates (a : announce) : list peer := olist (a_store a) ++ olist (a_origins a).

(* announce.go:93-116 getPeerHandout *)
Definition handout_with (sorter : policy -> peer -> list peer -> list peer) (c : config) (a : announce) : out :=
  if pcomplete (a_peer a) then OPeers []                                  (* :96-100, nil -> JSON null *)
  else match candidates a with
       | [] => OErr                                                       (* :111-113, 500 *)
       | ps => OPeers (sorter (c_policy c) (a_peer a) ps)                 (* :114 *)
       end.
Definition handout := handout_with sort_peers.

(* announce.go:77-91 announce *)
Definition step_state (st : store) (a : announce) : store :=
  if a_updfail a then st else update_peer st (a_h a) (a_peer a).
Definition step_with sorter (c : config) (st : store) (a : announce) : store * out :=
  (step_state st a, handout_with sorter c a).
Definition step := step_with sort_peers.
Definition step_ptr := step_with sort_peers_ptr.

Fixpoint run_with sorter (c : config) (st : store) (ops : list announce) : store * list out :=
  match ops with
  | [] => (st, [])
  | a :: t => let '(s1, o) := step_with sorter c st a in
              let '(s2, os) := run_with sorter c s1 t in (s2, o :: os)
  end.
Definition run := run_with sort_peers.
Definition run_ptr := run_with sort_peers_ptr.

(* ---- boolean helpers *)
Definition memN (x : N) (l : list N) : bool := existsb (N.eqb x) l.
Fixpoint nodupb (l : list N) : bool :=
  match l with
  | [] => true
  | x :: t => negb (memN x t) && nodupb t
  end.
Definition mem_peer (p : peer) (l : list peer) : bool := existsb (peer_eqb p) l.
Fixpoint sortedb (l : list N) : bool :=
  match l with
  | x :: ((y :: _) as t) => (x <=? y) && sortedb t
  | _ => true
  end.
Definition is_nil {A} (l : list A) : bool := match l with [] => true | _ => false end.

(* When is the store's answer a legal one (the oracle contract, = what C27 establishes for
   LocalStore.GetPeers): at most n entries, distinct peer ids, each the group's current entry. *)
Definition legal_choice (c : config) (g : list peer) (a : announce) : bool :=
  if pcomplete (a_peer a) then true
  else match a_store a with
       | None => true
       | Some l => (Z.of_nat (length l) <=? cap c)%Z && nodupb (map pid l) && forallb (fun p => mem_peer p g) l
       end.
Fixpoint legal_from (c : config) (st : store) (ops : list announce) : bool :=
  match ops with
  | [] => true
  | a :: t => let s1 := step_state st a in
              legal_choice c (group s1 (a_h a)) a && legal_from c s1 t
  end.
Definition legal (c : config) (ops : list announce) : bool := legal_from c init ops.

(* Environment assumption of the no-duplicates clause: the blob's origins are distinct hosts and
   no origin is at the same time an announced agent of the torrent (origins do not announce:
   lib/torrent/scheduler/constructors.go:79 gives them announceclient.Disabled()). *)
Definition origins_ok (g : list peer) (a : announce) : bool :=
  nodupb (map pid (olist (a_origins a)))
  && forallb (fun o => negb (memN (pid o) (map pid g))) (olist (a_origins a)).
Fixpoint origins_ok_from (st : store) (ops : list announce) : bool :=
  match ops with
  | [] => true
  | a :: t => let s1 := step_state st a in
              origins_ok (group s1 (a_h a)) a && origins_ok_from s1 t
  end.

(* ---- the property on one observed response (spec-based: it looks only at the request, the
   configuration, the origins the environment supplied, and the response) *)
Definition resp_ok (c : config) (g : list peer) (a : announce) (o : out) : bool :=
  match o with
  | OErr => negb (pcomplete (a_peer a))            (* completion must get an (empty) answer *)
  | OPeers l =>
      (if pcomplete (a_peer a) then is_nil l else true)                         (* empty when complete *)
      && forallb (not_source (a_peer a)) l                                      (* never the announcer *)
      && (if origins_ok g a then nodupb (map pid l) else true)                  (* nobody twice *)
      && (Z.of_nat (length l) <=? cap c + Z.of_nat (length (olist (a_origins a))))%Z                (* limit + origins *)
      && sortedb (map (prio (c_policy c)) l)                                    (* priority order *)
  end.
Fixpoint check_from (c : config) (st : store) (ops : list announce) (obs : list out) : bool :=
  match ops, obs with
  | [], [] => true
  | a :: t, o :: os => let s1 := step_state st a in
                       resp_ok c (group s1 (a_h a)) a o && check_from c s1 t os
  | _, _ => false
  end.
Definition C26_check (c : config) (ops : list announce) (obs : list out) : bool :=
  check_from c init ops obs.

(* ---- comparison of observables modulo the order inside a priority class *)
Fixpoint remove1 (p : peer) (l : list peer) : option (list peer) :=
  match l with
  | [] => None
  | x :: t => if peer_eqb p x then Some t
              else match remove1 p t with Some t' => Some (x :: t') | None => None end
  end.
Fixpoint permb (a b : list peer) : bool :=
  match a with
  | [] => is_nil b
  | x :: t => match remove1 x b with Some b' => permb t b' | None => false end
  end.
Fixpoint listN_eqb (a b : list N) : bool :=
  match a, b with
  | [], [] => true
  | x :: a', y :: b' => (x =? y) && listN_eqb a' b'
  | _, _ => false
  end.
Definition out_equiv (pol : policy) (m i : out) : bool :=
  match m, i with
  | OErr, OErr => true
  | OPeers x, OPeers y => permb x y && listN_eqb (map (prio pol) x) (map (prio pol) y)
  | _, _ => false
  end.
Fixpoint outs_equiv (pol : policy) (m i : list out) : bool :=
  match m, i with
  | [], [] => true
  | x :: m', y :: i' => out_equiv pol x y && outs_equiv pol m' i'
  | _, _ => false
  end.

(* ---- the clauses of the property as propositions; resp_ok decides exactly this
   (Proof/C26.v resp_ok_spec) *)
Definition seeder (p : peer) : Prop := porigin p = false /\ pcomplete p = true.
Definition is_origin (p : peer) : Prop := porigin p = true.
Definition incomplete (p : peer) : Prop := porigin p = false /\ pcomplete p = false.
Definition resp_spec (c : config) (g : list peer) (a : announce) (o : out) : Prop :=
  match o with
  | OErr => pcomplete (a_peer a) = false
  | OPeers l =>
      (pcomplete (a_peer a) = true -> l = [])
      /\ ~ In (pid (a_peer a)) (map pid l)
      /\ (origins_ok g a = true -> NoDup (map pid l))
      /\ (Z.of_nat (length l) <= cap c + Z.of_nat (length (olist (a_origins a))))%Z
      /\ StronglySorted N.le (map (prio (c_policy c)) l)
  end.

(* a predicate on (group of the announced torrent after the update, request, response) holds at
   every position of a history *)
Fixpoint each_from (P : list peer -> announce -> out -> Prop) (st : store) (ops : list announce) (obs : list out) : Prop :=
  match ops, obs with
  | [], [] => True
  | a :: t, o :: os => let s1 := step_state st a in P (group s1 (a_h a)) a o /\ each_from P s1 t os
  | _, _ => False
  end.

(* ---- what the store holds, stated on the history: the most recent successful announcement
   of peer `id` for torrent `h` *)
Fixpoint latest (ops : list announce) (h id : N) (acc : option peer) : option peer :=
  match ops with
  | [] => acc
  | a :: t => latest t h id
                (if negb (a_updfail a) && (a_h a =? h) && (pid (a_peer a) =? id)
                 then Some (entry_of (a_peer a)) else acc)
  end.
Definition lookup (g : list peer) (id : N) : option peer := find (fun p => pid p =? id) g.

(* one legal way for the store to answer every announce of a history: the first n entries of the
   group (used to show that the hypothesis `legal` can be met for EVERY announce sequence) *)
Definition answer_firstn (c : config) (st : store) (a : announce) : announce :=
  mka (a_h a) (a_peer a) (a_updfail a)
      (Some (firstn (Z.to_nat (cap c)) (group (step_state st a) (a_h a)))) (a_origins a).
Fixpoint fill_from (c : config) (st : store) (ops : list announce) : list announce :=
  match ops with
  | [] => []
  | a :: t => let a' := answer_firstn c st a in a' :: fill_from c (step_state st a') t
  end.
(* the announces themselves (request + origins), without the store's answer *)
Definition request_of (a : announce) := (a_h a, a_peer a, a_updfail a, a_origins a).

Definition agent (p : peer) : bool := negb (porigin p).

(* ---- witnesses (also seed cases of the harness) *)
(* the first announcer of a torrent: the store's only entry is the announcer *)
Definition w_self : announce :=
  mka 0 (mkp 1 1 7001 false false) false (Some [mkp 1 1 7001 false false]) (Some []).
(* an origin that also announced as an agent *)
Definition w_overlap : list announce :=
  [ mka 0 (mkp 101 101 9101 true true) false None (Some []);
    mka 0 (mkp 1 1 7001 false false) false
        (Some [mkp 101 101 9101 false true; mkp 1 1 7001 false false]) (Some [mkp 101 101 9101 true true]) ].

