(* C30 — retried tasks run until they succeed, across failures and restarts.
   The model M is K.Model.Retry (task store + manager state machine).  This file adds the
   property evaluated on one observed trace (C30_check), independent of the model's outputs:
   it looks only at the operations that were performed and at what the implementation
   reported (results of store calls, rows of the table, queue lengths, tasks in the executor). *)
From Coq Require Import List NArith Bool.
From K.Model Require Export Retry.
Import ListNotations.
Local Open Scope N_scope.

(* bookkeeping of the oracle *)
Record chk := mkchk {
  k_obs : option obs;       (* the last observation *)
  k_cur : bool;             (* nothing observable happened since *)
  k_succ : list N;          (* tasks whose execution returned success and whose removal was not yet observed *)
  k_fly : N;                (* Add/poll threads between "stored pending" and "enqueued | marked failed" *)
  k_add : list (N * N);     (* Add thread -> task *)
  k_fresh : bool;           (* a manager was just started *)
  k_noop : bool;            (* an Add of a stored task just completed *)
  k_ok : bool }.

Definition chk0 : chk := mkchk None false [] 0 [] false false true.

Definition orow_pending (r : orow) : bool := status_eqb (o_st r) Pending.
Definition oids (l : list orow) : list N := map o_id l.
Fixpoint alookup (a : N) (l : list (N * N)) : option N :=
  match l with [] => None | (x, t) :: r => if x =? a then Some t else alookup a r end.

(* clauses evaluated at an observation [o] *)
(* a task leaves the store only after a successful execution *)
Definition cl_removed (k : chk) (o : obs) : bool :=
  match k_obs k with
  | None => true
  | Some p => forallb (fun t => memb t (oids (ob_rows o)) || memb t (k_succ k)) (oids (ob_rows p))
  end.
(* every stored pending task is in a queue, in the executor, or in flight to a queue; and what is
   executing is a stored pending task *)
Definition cl_held (k : chk) (o : obs) : bool :=
  if ob_alive o then
    let pend := oids (filter orow_pending (ob_rows o)) in
    (len pend =? ob_in o + ob_re o + len (ob_exec o) + k_fly k) &&
    forallb (fun t => memb t pend) (ob_exec o)
  else true.
(* a start leaves no pending task behind, and starts with empty queues *)
Definition cl_fresh (k : chk) (o : obs) : bool :=
  if k_fresh k then
    forallb (fun r => negb (orow_pending r)) (ob_rows o) && ob_alive o && (ob_in o =? 0) && (ob_re o =? 0) &&
    match ob_exec o with [] => true | _ => false end
  else true.
(* adding a stored task changes nothing *)
Definition cl_noop (k : chk) (o : obs) : bool :=
  if k_noop k then match k_obs k with Some p => obs_eqb p o | None => true end else true.

Definition touch (k : chk) : chk :=     (* something observable happened *)
  mkchk (k_obs k) false (k_succ k) (k_fly k) (k_add k) false false (k_ok k).
Definition quiet (k : chk) : chk :=     (* something happened that no observation shows *)
  mkchk (k_obs k) (k_cur k) (k_succ k) (k_fly k) (k_add k) (k_fresh k) false (k_ok k).
Definition with_fly (n : N) (k : chk) : chk :=
  mkchk (k_obs k) (k_cur k) (k_succ k) n (k_add k) (k_fresh k) (k_noop k) (k_ok k).
Definition with_ok (b : bool) (k : chk) : chk :=
  mkchk (k_obs k) (k_cur k) (k_succ k) (k_fly k) (k_add k) (k_fresh k) (k_noop k) (k_ok k && b).

Definition chk_step (k : chk) (o : op) (r : out) : chk :=
  match r with
  | OIllegal => k                       (* not enabled: nothing happened *)
  | _ =>
  match o, r with
  | OpObserve, OObs ob =>
      let ok := cl_removed k ob && cl_held k ob && cl_fresh k ob && cl_noop k ob in
      mkchk (Some ob) true (filter (fun t => memb t (oids (ob_rows ob))) (k_succ k))
            (k_fly k) (k_add k) (k_fresh k) false (k_ok k && ok)
  | OpStart _, _ => mkchk (k_obs k) false (k_succ k) 0 [] true false (k_ok k)
  | OpStartCrash _ _, _ => mkchk (k_obs k) false (k_succ k) 0 [] false false (k_ok k)
  | OpCrash, _ => mkchk (k_obs k) false (k_succ k) 0 [] false false (k_ok k)
  | OpTick _, _ => touch k
  | OpClose, _ => quiet k
  | OpCloseDone, _ => quiet k
  | OpAddCheck a t _, ODone =>
      mkchk (k_obs k) (k_cur k) (k_succ k) (k_fly k) ((a, t) :: k_add k) (k_fresh k) false (k_ok k)
  | OpAddCheck _ _ _, _ => quiet k
  | OpAddStore a, OExists =>
      mkchk (k_obs k) (k_cur k) (k_succ k) (k_fly k) (k_add k) (k_fresh k) (k_cur k) (k_ok k)
  | OpAddStore a, OStored st =>
      (* the implementation may store the task only if it was not stored *)
      let known := match k_obs k, alookup a (k_add k) with
                   | Some p, Some t => k_cur k && memb t (oids (ob_rows p))
                   | _, _ => false
                   end in
      with_ok (negb known)
        (touch (match st with Pending => with_fly (k_fly k + 1) k | Failed => k end))
  | OpAddEnq _, OSent => touch (with_fly (k_fly k - 1) k)
  | OpAddEnq _, _ => quiet k
  | OpAddMark _, _ => touch (with_fly (k_fly k - 1) k)
  | OpPollGet _, _ => quiet k
  | OpPollNext, OMarked _ => touch (with_fly (k_fly k + 1) k)
  | OpPollNext, _ => quiet k
  | OpPollEnq, OSent => touch (with_fly (k_fly k - 1) k)
  | OpPollEnq, _ => quiet k
  | OpPollMark, _ => touch (with_fly (k_fly k - 1) k)
  | OpDeq _, _ => touch k
  | OpExecRet t true, _ =>
      mkchk (k_obs k) (k_cur k) (t :: k_succ k) (k_fly k) (k_add k) (k_fresh k) false (k_ok k)
  | OpExecRet _ false, _ => quiet k
  | OpExecFin _, _ => touch k
  | _, _ => quiet k
  end
  end.

Fixpoint chk_run (k : chk) (ops : list op) (outs : list out) : chk :=
  match ops, outs with
  | o :: ops', r :: outs' => chk_run (chk_step k o r) ops' outs'
  | _, _ => k
  end.

Definition C30_check (ops : list op) (outs : list out) : bool := k_ok (chk_run chk0 ops outs).
