(* Model of utils/cache/blob_memory_cache.go (BlobMemoryCache), of the write-through path of
   lib/store/ca_store.go (WriteBlobToCacheWithMetaInfo / addToMemoryCache / drainNext /
   cleanupMemoryCacheExpiredEntries) and of utils/cache/lru.go (LRUCache).
   Executable definitions only; proofs live in Proof/C13*.v. *)
From Coq Require Import List NArith ZArith Bool.
Import ListNotations.
Local Open Scope N_scope.

(* ================================================================================== *)
(*  Part 1: BlobMemoryCache — one function per lock region                            *)
(* ================================================================================== *)

Definition W64 : N := 18446744073709551616.   (* uint64 arithmetic of totalSize *)

(* blob_memory_cache.go:27-37. Names are canonicalised to small N by the harness;
   e_size is len(Data) (MemoryEntry.Size); e_created is CreatedAt (logical clock, Z). *)
Record entry := mkE { e_name : N; e_size : N; e_created : Z }.

(* blob_memory_cache.go:46-54: config.MaxSize, entries (a Go map: names unique), totalSize *)
Record cache := mkC { c_max : N; c_ents : list entry; c_total : N }.

Definition cinit (max : N) : cache := mkC max [] 0.

Definition findE (name : N) (l : list entry) : option entry :=
  find (fun e => N.eqb name (e_name e)) l.
Definition delE (name : N) (l : list entry) : list entry :=
  filter (fun e => negb (N.eqb name (e_name e))) l.

(* blob_memory_cache.go:123-131 decrementTotalSize (clamps at 0) *)
Definition decr (sz tot : N) : N := if tot <? sz then 0 else tot - sz.

(* blob_memory_cache.go:109-121 Remove, and the loop body of RemoveBatch :200-207 *)
Definition remove1 (name : N) (c : cache) : cache :=
  match findE name (c_ents c) with
  | None => c
  | Some e => mkC (c_max c) (delE name (c_ents c)) (decr (e_size e) (c_total c))
  end.

Definition expired (now ttl : Z) (e : entry) : bool := (ttl <? now - e_created e)%Z.   (* :186 *)

Inductive cop :=
| CTryReserve (sz : N)                     (* :150 *)
| CRelease (sz : N)                        (* :164 *)
| CAdd (name len : N) (created : Z)        (* :71  *)
| CRemove (name : N)                       (* :109 *)
| CRemoveBatch (names : list N)            (* :196 *)
| CGetExpired (now ttl : Z)                (* :179, read-only *)
| CGet (name : N).                         (* :92,  read-only *)

Inductive out := OUnit | OBool (b : bool) | ONames (l : list N) | ONum (n : N).

Definition cstep (c : cache) (o : cop) : cache * out :=
  match o with
  | CTryReserve sz =>
      (* :154 `c.totalSize+size > c.config.MaxSize` is evaluated in uint64 (wraps) *)
      let t := (c_total c + sz) mod W64 in
      if c_max c <? t then (c, OBool false)
      else (mkC (c_max c) (c_ents c) t, OBool true)                       (* :158 *)
  | CRelease sz =>
      if c_total c <? sz then (c, OUnit)                                  (* :168-173 *)
      else (mkC (c_max c) (c_ents c) (c_total c - sz), OUnit)             (* :174 *)
  | CAdd name len cr =>
      match findE name (c_ents c) with
      | Some _ => (c, OBool false)                                        (* :75-81 *)
      | None => (mkC (c_max c) (c_ents c ++ [mkE name len cr]) (c_total c), OBool true)  (* :83; totalSize untouched *)
      end
  | CRemove name => (remove1 name c, OUnit)
  | CRemoveBatch names => (fold_left (fun c n => remove1 n c) names c, OUnit)
  | CGetExpired now ttl =>
      (c, ONames (map e_name (filter (expired now ttl) (c_ents c))))      (* map order: compared as a set *)
  | CGet name => (c, OBool (match findE name (c_ents c) with Some _ => true | None => false end))
  end.

(* ================================================================================== *)
(*  Part 2: the clients of the cache in ca_store.go, as atomic steps                   *)
(* ================================================================================== *)

(* A write-through call (ca_store.go:233-249, 257-294) is a small program of cache lock regions:
     TryReserve(size)                         :238
     [ write(tmpWriter) — no cache access; the harness may run other calls here ]
     then ONE of  ReleaseReservation(size)    :245 after :266 (write error), after the length
                                              check (fix) or after :272 (metainfo error)
              or  Add(entry)                  :282
     and, if Add returned false,  ReleaseReservation(size)   :245 after :284.
   `phase` is the program counter of one caller, carried as ghost state. *)
Inductive phase := Reserved (name sz : N) | NeedRelease (sz : N).
Definition phase_size (p : phase) : N := match p with Reserved _ sz => sz | NeedRelease sz => sz end.

Record sys := mkS { s_c : cache; s_pend : list (N * phase) }.
Definition sinit (max : N) : sys := mkS (cinit max) [].

Definition lookupP (t : N) (l : list (N * phase)) : option phase :=
  match find (fun x => N.eqb t (fst x)) l with Some x => Some (snd x) | None => None end.
Definition delP (t : N) (l : list (N * phase)) : list (N * phase) :=
  filter (fun x => negb (N.eqb t (fst x))) l.

(* outcome of the write callback + metainfo generation: an error (write error, abandoned stream,
   metainfo error) or a buffer of `len` bytes *)
Inductive wres := WErr | WData (len : N).

Inductive pop :=
| PReserve (t name sz : N)            (* caller t enters WriteBlobToCacheWithMetaInfo(name, sz, ..) *)
| PEnd (t : N) (w : wres) (now : Z)   (* the one cache call that follows the write callback *)
| PRelease (t : N)                    (* release after a refused Add *)
| PRaw (c : cop).                     (* a bare cache call (drain worker Remove, TTL worker
                                         GetExpiredEntries/RemoveBatch, or an arbitrary client) *)

(* `fixed` = true: ca_store.go with fixes/C13_size_mismatch.patch (the memory path fails when
   len(data) <> size).  `fixed` = false: the code as pinned (mutant kept for the refutation). *)
Definition pstep (fixed : bool) (s : sys) (p : pop) : sys * out :=
  match p with
  | PReserve t name sz =>
      match lookupP t (s_pend s) with
      | Some _ => (s, OUnit)                                         (* not enabled: t is mid-call *)
      | None =>
          let '(c1, o) := cstep (s_c s) (CTryReserve sz) in
          match o with
          | OBool true => (mkS c1 ((t, Reserved name sz) :: s_pend s), o)
          | _ => (mkS c1 (s_pend s), o)                              (* :247 disk path, no cache access *)
          end
      end
  | PEnd t w now =>
      match lookupP t (s_pend s) with
      | Some (Reserved name sz) =>
          let release := (mkS (fst (cstep (s_c s) (CRelease sz))) (delP t (s_pend s)), OBool false) in
          match w with
          | WErr => release
          | WData len =>
              if fixed && negb (N.eqb len sz) then release
              else
                let '(c1, o) := cstep (s_c s) (CAdd name len now) in
                match o with
                | OBool true => (mkS c1 (delP t (s_pend s)), OBool true)
                | _ => (mkS c1 ((t, NeedRelease sz) :: delP t (s_pend s)), OBool false)
                end
          end
      | _ => (s, OUnit)                                              (* not enabled *)
      end
  | PRelease t =>
      match lookupP t (s_pend s) with
      | Some (NeedRelease sz) => (mkS (fst (cstep (s_c s) (CRelease sz))) (delP t (s_pend s)), OUnit)
      | _ => (s, OUnit)                                              (* not enabled *)
      end
  | PRaw c => let '(c1, o) := cstep (s_c s) c in (mkS c1 (s_pend s), o)
  end.

(* ================================================================================== *)
(*  Part 3: CAStore-level operations the harness drives (sequences of atomic steps)    *)
(* ================================================================================== *)

(* drain queue (ca_store.go:47-60): (name, retries), FIFO; clock; config TTL / DrainMaxRetries *)
Record st := mkSt { sy : sys; queue : list (N * N); clk : Z; ttl : Z; maxretry : N }.
Definition init (max : N) (ttl : Z) (maxretry : N) : st := mkSt (sinit max) [] 0%Z ttl maxretry.

Inductive op :=
| A (p : pop)                  (* one atomic step; PReserve = the call up to its write callback *)
| WtEnd (t : N) (w : wres)     (* the rest of WriteBlobToCacheWithMetaInfo for caller t *)
| Drain (ok : bool)            (* drainNext :413; ok = the disk write succeeded *)
| Tick (dt : Z)                (* mock clock advance *)
| Expire.                      (* cleanupMemoryCacheExpiredEntries :371 *)

Definition with_sys (s : st) (y : sys) : st := mkSt y (queue s) (clk s) (ttl s) (maxretry s).

Definition step (fixed : bool) (s : st) (o : op) : st * out :=
  match o with
  | A p => let '(y, r) := pstep fixed (sy s) p in (with_sys s y, r)
  | WtEnd t w =>
      match lookupP t (s_pend (sy s)) with
      | Some (Reserved name _) =>
          let '(y1, r) := pstep fixed (sy s) (PEnd t w (clk s)) in
          match r with
          | OBool true =>                                             (* :289 addItemForDiskSync *)
              (mkSt y1 (queue s ++ [(name, 0)]) (clk s) (ttl s) (maxretry s), OUnit)
          | _ =>                                                      (* :245 (no-op when already released) *)
              (with_sys s (fst (pstep fixed y1 (PRelease t))), OUnit)
          end
      | _ => (s, OUnit)                                               (* reservation had failed: disk only *)
      end
  | Drain ok =>
      match queue s with
      | [] => (s, OUnit)                                              (* :415 *)
      | (name, r) :: q =>
          if ok then                                                  (* :437 *)
            (mkSt (fst (pstep fixed (sy s) (PRaw (CRemove name)))) q (clk s) (ttl s) (maxretry s), OUnit)
          else if r <? maxretry s then                                (* :421-427 *)
            (mkSt (sy s) (q ++ [(name, r + 1)]) (clk s) (ttl s) (maxretry s), OUnit)
          else                                                        (* :429 *)
            (mkSt (fst (pstep fixed (sy s) (PRaw (CRemove name)))) q (clk s) (ttl s) (maxretry s), OUnit)
      end
  | Tick dt => (mkSt (sy s) (queue s) (clk s + dt)%Z (ttl s) (maxretry s), OUnit)
  | Expire =>
      let names := map e_name (filter (expired (clk s) (ttl s)) (c_ents (s_c (sy s)))) in
      (with_sys s (fst (pstep fixed (sy s) (PRaw (CRemoveBatch names)))), OUnit)   (* :372-376 *)
  end.

(* observation after every operation: TotalBytes and the (name, Size) of every entry *)
Definition snap (s : st) : N * list (N * N) :=
  (c_total (s_c (sy s)), map (fun e => (e_name e, e_size e)) (c_ents (s_c (sy s)))).

Definition obs_t : Type := out * (N * list (N * N)).

Fixpoint run (fixed : bool) (s : st) (ops : list op) : st * list obs_t :=
  match ops with
  | [] => (s, [])
  | o :: t => let '(s1, r) := step fixed s o in
              let '(s2, rs) := run fixed s1 t in (s2, (r, snap s1) :: rs)
  end.

(* a write-through call that holds a reservation succeeds on the memory path iff the stream has
   exactly the reserved length and the blob is not cached yet *)
Definition present (name : N) (y : sys) : bool :=
  match findE name (c_ents (s_c y)) with Some _ => true | None => false end.
Definition wt_succeeds (y : sys) (name sz : N) (w : wres) : bool :=
  match w with WData len => N.eqb len sz && negb (present name y) | WErr => false end.

(* ---------- comparison of observations (sets, since Go map order is arbitrary) ---------- *)
Definition memN (x : N) (l : list N) : bool := existsb (N.eqb x) l.
Definition set_eqN (a b : list N) : bool :=
  Nat.eqb (length a) (length b) && forallb (fun x => memN x b) a && forallb (fun x => memN x a) b.
Definition pair_eqb (x y : N * N) : bool := N.eqb (fst x) (fst y) && N.eqb (snd x) (snd y).
Definition memP (x : N * N) (l : list (N * N)) : bool := existsb (pair_eqb x) l.
Definition set_eqP (a b : list (N * N)) : bool :=
  Nat.eqb (length a) (length b) && forallb (fun x => memP x b) a && forallb (fun x => memP x a) b.

Definition out_eqb (a b : out) : bool :=
  match a, b with
  | OUnit, OUnit => true
  | OBool x, OBool y => Bool.eqb x y
  | ONames x, ONames y => set_eqN x y
  | ONum x, ONum y => N.eqb x y
  | _, _ => false
  end.
Definition obs_eqb (a b : obs_t) : bool :=
  out_eqb (fst a) (fst b) && N.eqb (fst (snd a)) (fst (snd b)) && set_eqP (snd (snd a)) (snd (snd b)).
Fixpoint obss_eqb (a b : list obs_t) : bool :=
  match a, b with
  | [], [] => true
  | x :: a', y :: b' => obs_eqb x y && obss_eqb a' b'
  | _, _ => false
  end.

(* ---------- the property on one OBSERVED trace (spec-based) ----------
   Ghost bookkeeping of who holds a reservation is rebuilt from the operations and the
   implementation's own answers; the model's cache state is not consulted. *)
Definition sumN (l : list N) : N := fold_right N.add 0 l.
Definition outstanding (g : list (N * phase)) : N := sumN (map (fun x => phase_size (snd x)) g).
Definition ents_bytes (l : list (N * N)) : N := sumN (map snd l).
(* bytes of the stored entries / of the reservations not yet consumed or released *)
Definition held (y : sys) : N := sumN (map e_size (c_ents (s_c y))).
Definition reserved (y : sys) : N := outstanding (s_pend y).
Definition total (y : sys) : N := c_total (s_c y).

(* the protocol: bare cache calls are limited to what ca_store.go's workers issue *)
Definition raw_ok (c : cop) : bool :=
  match c with CRemove _ | CRemoveBatch _ | CGetExpired _ _ | CGet _ => true | _ => false end.
(* no uint64 wrap in TryReserve: size + MaxSize < 2^64 *)
Definition nowrap_op (max : N) (o : op) : bool :=
  match o with A (PReserve _ _ sz) => sz + max <? W64 | _ => true end.
Definition proto_op (o : op) : bool :=
  match o with A (PRaw c) => raw_ok c | _ => true end.
Definition proto (max : N) (ops : list op) : bool :=
  forallb (fun o => proto_op o && nowrap_op max o) ops.

(* ghost transition driven by the observed answer.  PEnd answered false: the reservation is
   gone if the step was a release (error / length mismatch), still held (NeedRelease) if it
   was a refused Add; which of the two is decided by the operation itself. *)
Definition gstep (g : list (N * phase)) (o : op) (r : out) : list (N * phase) :=
  match o with
  | A (PReserve t name sz) =>
      match lookupP t g, r with
      | None, OBool true => (t, Reserved name sz) :: g
      | _, _ => g
      end
  | A (PEnd t w _) =>
      match lookupP t g with
      | Some (Reserved _ sz) =>
          match r with
          | OBool true => delP t g
          | _ => match w with
                 | WErr => delP t g
                 | WData len => if N.eqb len sz then (t, NeedRelease sz) :: delP t g else delP t g
                 end
          end
      | _ => g
      end
  | A (PRelease t) =>
      match lookupP t g with Some (NeedRelease _) => delP t g | _ => g end
  | WtEnd t _ => match lookupP t g with Some (Reserved _ _) => delP t g | _ => g end
  | _ => g
  end.

(* one observation satisfies the property *)
Definition obs_ok (max : N) (g : list (N * phase)) (x : obs_t) : bool :=
  let '(_, (tot, ents)) := x in
  (tot <=? max) && N.eqb tot (ents_bytes ents + outstanding g).

Fixpoint check_from (max : N) (g : list (N * phase)) (prev : N) (ops : list op) (obs : list obs_t) : bool :=
  match ops, obs with
  | [], [] => true
  | o :: ops', x :: obs' =>
      let g' := gstep g o (fst x) in
      (* an admitted reservation did not take the accounted bytes above the maximum *)
      (match o, fst x with
       | A (PReserve t _ sz), OBool true =>
           match lookupP t g with None => prev + sz <=? max | Some _ => true end
       | _, _ => true
       end)
      && obs_ok max g' x
      && check_from max g' (fst (snd x)) ops' obs'
  | _, _ => false
  end.

Definition C13_cache_check (max : N) (ops : list op) (obs : list obs_t) : bool :=
  if proto max ops then check_from max [] 0 ops obs else true.

(* ================================================================================== *)
(*  Part 4: LRUCache (utils/cache/lru.go)                                             *)
(* ================================================================================== *)

(* lru.go:25-30: `entries` (key -> expiration) and `lruOrder` (keys, oldest first) are always
   updated together and hold the same keys; they are modelled as ONE list in LRU order.
   l_stamp is ghost: the index (in the history) of the Add that last added/refreshed the key. *)
Record lent := mkL { l_key : N; l_exp : Z; l_stamp : N }.
Record lru := mkLru { l_size : Z; l_ttl : Z; l_ents : list lent; l_tick : N }.

(* lru.go:33 NewLRUCache + config.go:26 applyDefaults *)
Definition lru_default_size : Z := 300.
Definition lru_default_ttl_us : Z := 300000000.   (* 5 min, in the harness' microseconds *)
Definition linit (size ttl : Z) : lru :=
  mkLru (if Z.eqb size 0 then lru_default_size else size)
        (if Z.eqb ttl 0 then lru_default_ttl_us else ttl) [] 0.

Inductive lop :=
| LAdd (k : N) (now : Z)       (* :58 *)
| LHas (k : N) (now : Z)       (* :44 *)
| LDelete (k : N)              (* :81 *)
| LSize                        (* :99 *)
| LClear.                      (* :106 *)

Definition findL (k : N) (l : list lent) : option lent := find (fun e => N.eqb k (l_key e)) l.
Definition delL (k : N) (l : list lent) : list lent := filter (fun e => negb (N.eqb k (l_key e))) l.
Definition live (now : Z) (e : lent) : bool := (now <=? l_exp e)%Z.   (* not now.After(expire) *)

(* lru.go:131-136: drop from the front while more than Size entries remain.
   (Size < 0 makes the real loop index an empty slice and panic; the theorems state Size > 0.) *)
Definition drop_excess (size : Z) (l : list lent) : list lent :=
  skipn (length l - Z.to_nat size) l.

(* lru.go:116-137 *)
Definition evict (size now : Z) (l : list lent) : list lent :=
  drop_excess size (filter (live now) l).

Definition lstep (c : lru) (o : lop) : lru * out :=
  let tick := l_tick c + 1 in
  match o with
  | LAdd k now =>
      let e := mkL k (now + l_ttl c)%Z (l_tick c) in
      match findL k (l_ents c) with
      | Some _ => (mkLru (l_size c) (l_ttl c) (delL k (l_ents c) ++ [e]) tick, OUnit)       (* :66-70 *)
      | None => (mkLru (l_size c) (l_ttl c) (evict (l_size c) now (l_ents c ++ [e])) tick, OUnit)  (* :73-77 *)
      end
  | LHas k now =>
      (mkLru (l_size c) (l_ttl c) (l_ents c) tick,
       OBool (match findL k (l_ents c) with Some e => live now e | None => false end))
  | LDelete k => (mkLru (l_size c) (l_ttl c) (delL k (l_ents c)) tick, OUnit)
  | LSize => (mkLru (l_size c) (l_ttl c) (l_ents c) tick, ONum (N.of_nat (length (l_ents c))))
  | LClear => (mkLru (l_size c) (l_ttl c) [] tick, OUnit)
  end.

(* observation after every op: Size() and the keys for which Has is true at time `at` *)
Definition lop_time (o : lop) (dflt : Z) : Z :=
  match o with LAdd _ now | LHas _ now => now | _ => dflt end.
Definition lsnap (c : lru) (now : Z) : N * list N :=
  (N.of_nat (length (l_ents c)), map l_key (filter (live now) (l_ents c))).

Definition lobs_t : Type := out * (N * list N).

(* ops are paired with the time at which the snapshot after them was taken *)
Fixpoint lrun (c : lru) (ops : list (lop * Z)) : lru * list lobs_t :=
  match ops with
  | [] => (c, [])
  | (o, at_) :: t => let '(c1, r) := lstep c o in
                     let '(c2, rs) := lrun c1 t in (c2, (r, lsnap c1 at_) :: rs)
  end.

Definition lobs_eqb (a b : lobs_t) : bool :=
  out_eqb (fst a) (fst b) && N.eqb (fst (snd a)) (fst (snd b)) && set_eqN (snd (snd a)) (snd (snd b)).
Fixpoint lobss_eqb (a b : list lobs_t) : bool :=
  match a, b with
  | [], [] => true
  | x :: a', y :: b' => lobs_eqb x y && lobss_eqb a' b'
  | _, _ => false
  end.

(* ---------- the LRU property on one OBSERVED trace (spec-based) ----------
   Ghost spec state rebuilt from the operations alone: for every key the time and the index
   of the Add that last added or refreshed it and was not undone by Delete/Clear. No eviction
   is modelled in it. *)
Definition touch : Type := N * (Z * N).
Definition delT (k : N) (g : list touch) : list touch := filter (fun x => negb (N.eqb k (fst x))) g.
Definition lookT (k : N) (g : list touch) : option (Z * N) :=
  match find (fun x => N.eqb k (fst x)) g with Some x => Some (snd x) | None => None end.
Definition tstep (g : list touch) (i : N) (o : lop) : list touch :=
  match o with
  | LAdd k now => (k, (now, i)) :: delT k g
  | LDelete k => delT k g
  | LClear => []
  | _ => g
  end.
(* k may be reported at time `at_`: its last add/refresh at t has at_ <= t + ttl *)
Definition may_report (ttl : Z) (g : list touch) (at_ : Z) (k : N) : bool :=
  match lookT k g with Some (t, _) => (at_ <=? t + ttl)%Z | None => false end.
Definition older (g : list touch) (v w : N) : bool :=
  match lookT v g, lookT w g with
  | Some (_, i), Some (_, j) => i <? j
  | _, _ => false
  end.

Fixpoint lcheck_from (size ttl : Z) (g : list touch) (i : N) (prevH : list N)
         (ops : list (lop * Z)) (obs : list lobs_t) : bool :=
  match ops, obs with
  | [], [] => true
  | (o, at_) :: ops', (r, (n, H)) :: obs' =>
      let g' := tstep g i o in
      (* never more keys than configured *)
      (Z.of_N n <=? size)%Z
      (* never reports an expired (or absent) key *)
      && forallb (may_report ttl g' at_) H
      && (match o, r with
          | LHas k now, OBool true => may_report ttl g now k
          | _, _ => true
          end)
      (* a key that was reported before this Add, is still unexpired and is gone now was dropped
         for size: it is older than every key still reported *)
      && (match o with
          | LAdd k _ =>
              forallb (fun v => memN v H || N.eqb v k || negb (may_report ttl g' at_ v)
                                || forallb (fun w => older g' v w) H) prevH
          | _ => true
          end)
      && lcheck_from size ttl g' (i + 1) H ops' obs'
  | _, _ => false
  end.

(* the harness' clock readings: an op's time is not after the time of its snapshot *)
Definition ltimes_ok (ops : list (lop * Z)) : bool :=
  forallb (fun x => (lop_time (fst x) (snd x) <=? snd x)%Z) ops.

Definition C13_lru_check (size ttl : Z) (ops : list (lop * Z)) (obs : list lobs_t) : bool :=
  let c := linit size ttl in
  if (0 <? l_size c)%Z && ltimes_ok ops
  then lcheck_from (l_size c) (l_ttl c) [] 0 [] ops obs else true.

(* the ghost spec state after a history, and "the Add that last added or refreshed k" *)
Fixpoint ghost (g : list touch) (i : N) (hist : list lop) : list touch :=
  match hist with
  | [] => g
  | o :: t => ghost (tstep g i o) (i + 1) t
  end.
Definition last_touch (hist : list lop) (k : N) : option (Z * N) := lookT k (ghost [] 0 hist).

(* o adds/refreshes or removes k *)
Definition undoes (k : N) (o : lop) : bool :=
  match o with LAdd k' _ => N.eqb k' k | LDelete k' => N.eqb k' k | LClear => true | _ => false end.

(* ---------- "the stream has the length that was reserved", evaluated along a history ---------- *)
Definition len_ok (s : st) (o : op) : bool :=
  match o with
  | A (PEnd t (WData len) _) | WtEnd t (WData len) =>
      match lookupP t (s_pend (sy s)) with Some (Reserved _ sz) => N.eqb len sz | _ => true end
  | _ => true
  end.
Fixpoint lens_ok (s : st) (ops : list op) : bool :=
  match ops with
  | [] => true
  | o :: t => len_ok s o && lens_ok (fst (step false s o)) t
  end.

(* ---------- example histories used by the non-vacuity Examples of Properties/C13.v ---------- *)
Definition ex_ops : list op :=
  [A (PReserve 1 0 40); A (PReserve 2 0 40); A (PEnd 1 (WData 40) 0%Z); A (PEnd 2 (WData 40) 0%Z);
   A (PReserve 3 1 40); A (PRelease 2); A (PReserve 4 1 40); WtEnd 4 WErr; A (PReserve 5 1 30);
   WtEnd 5 (WData 30); Drain true; Tick 2000; Expire].
Definition ex_lops : list (lop * Z) :=
  [(LAdd 0 0%Z, 0%Z); (LAdd 1 1%Z, 1%Z); (LAdd 0 2%Z, 2%Z)].

(* ================================================================================== *)
(*  Part 5: lock-convoy pairs — two operations started concurrently on one object      *)
(* ================================================================================== *)
(* The driver holds the object's mutex, starts two calls in goroutines, lets them queue on the
   lock and releases it. If every method is one atomic lock region the outcome is that of one
   of the two sequential orders (linearisability of a pair). *)
Definition snap_eqb (a b : N * list (N * N)) : bool := N.eqb (fst a) (fst b) && set_eqP (snd a) (snd b).

Definition lin (s : st) (x y : op) (rx ry : out) (fin : N * list (N * N)) : bool :=
  let '(s1, o1) := step true s x in
  let '(s2, o2) := step true s1 y in
  out_eqb o1 rx && out_eqb o2 ry && snap_eqb (snap s2) fin.

Definition pair_agrees (max : N) (pre : list op) (preobs : list obs_t) (a b : op) (ra rb : out)
           (fin : N * list (N * N)) : bool :=
  let '(s, obs) := run true (init max 0 0) pre in
  obss_eqb obs preobs && (lin s a b ra rb fin || lin s b a rb ra fin).

(* ghost reservations after an observed prefix *)
Fixpoint gfold (g : list (N * phase)) (ops : list op) (obs : list obs_t) : list (N * phase) :=
  match ops, obs with
  | o :: ops', x :: obs' => gfold (gstep g o (fst x)) ops' obs'
  | _, _ => g
  end.

(* the property on an observed pair: the prefix satisfies it and the final state balances and is
   within budget (ghost rebuilt from the two answers; the order of the two ghost updates is free) *)
Definition C13_pair_check (max : N) (pre : list op) (preobs : list obs_t) (a b : op) (ra rb : out)
           (fin : N * list (N * N)) : bool :=
  if proto max (pre ++ [a; b]) then
    check_from max [] 0 pre preobs &&
    (let g := gfold [] pre preobs in
     obs_ok max (gstep (gstep g a ra) b rb) (OUnit, fin) || obs_ok max (gstep (gstep g b rb) a ra) (OUnit, fin))
  else true.

(* LRU pairs *)
Definition lsnap_eqb (a b : N * list N) : bool := N.eqb (fst a) (fst b) && set_eqN (snd a) (snd b).
Definition llin (c : lru) (x y : lop) (at_ : Z) (rx ry : out) (fin : N * list N) : bool :=
  let '(c1, o1) := lstep c x in
  let '(c2, o2) := lstep c1 y in
  out_eqb o1 rx && out_eqb o2 ry && lsnap_eqb (lsnap c2 at_) fin.
Definition lpair_agrees (size ttl : Z) (pre : list (lop * Z)) (preobs : list lobs_t) (a b : lop) (at_ : Z)
           (ra rb : out) (fin : N * list N) : bool :=
  let '(c, obs) := lrun (linit size ttl) pre in
  lobss_eqb obs preobs && (llin c a b at_ ra rb fin || llin c b a at_ rb ra fin).

Definition C13_lru_pair_check (size ttl : Z) (pre : list (lop * Z)) (preobs : list lobs_t) (a b : lop) (at_ : Z)
           (fin : N * list N) : bool :=
  let c := linit size ttl in
  if (0 <? l_size c)%Z && ltimes_ok pre then
    lcheck_from (l_size c) (l_ttl c) [] 0 [] pre preobs &&
    (Z.of_N (fst fin) <=? l_size c)%Z &&
    (let g := ghost [] 0 (map fst pre) in
     let i := N.of_nat (length pre) in
     forallb (may_report (l_ttl c) (tstep (tstep g i a) (i + 1) b) at_) (snd fin)
     || forallb (may_report (l_ttl c) (tstep (tstep g i b) (i + 1) a) at_) (snd fin))
  else true.
