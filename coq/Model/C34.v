(* Model of the retry loop of utils/httputil/httputil.go: Send (288-369), newRequest (462-475),
   fallbackToHTTP / replayBody (477-...).  Executable definitions only; proofs in Proof/C34.v.

   The model is parametric in two booleans (record [fixes]) so that the code as it is after the
   proposed fix (fixes/C34_retry_replays_body.patch) and the code before it are the same
   definition: [send] = fixed code (what the theorems are about and what the correspondence
   compares with the implementation), [send_old] = the pinned code (kept for the _refuted
   theorems).

   Environment = oracles carried in the case: the script of round trips (what the transport /
   server did with each request: how much of the body it read, error or status code) and the
   sequence of answers of the caller's backoff.BackOff. *)
From Coq Require Import List NArith Bool.
Import ListNotations.
Local Open Scope N_scope.

(* ---- inputs *)

(* sendOptions, httputil.go:141-166, as far as the loop reads them *)
Record cfg := mkcfg {
  c_https : bool;            (* opts.url.Scheme == "https" *)
  c_fallback : bool;         (* !opts.httpFallbackDisabled *)
  c_accepted : list N;       (* opts.acceptedCodes *)
  c_extra : list N;          (* opts.retry.extraCodes *)
  c_retryable : list N       (* retryableCodes, httputil.go:35 (as reported by httputil.IsRetryable) *)
}.

(* method, URL (without scheme) and headers are canonicalised to small numbers by the harness *)
Record req := mkreq {
  q_valid : bool;            (* url.Parse and http.NewRequest succeed (httputil.go:289, 463) *)
  q_method : N;
  q_url : N;
  q_hdrs : list (N * N)
}.

(* what http.NewRequest makes of opts.body (net/http request.go NewRequestWithContext):
   BNone   - nil: no body;
   BReplay - *bytes.Reader / *bytes.Buffer / *strings.Reader: ContentLength and GetBody are set,
             req.Body is a NopCloser over the caller's reader;
   BStream - any other io.Reader: GetBody stays nil. *)
Inductive bkind := BNone | BReplay | BStream.

(* one round trip as the environment played it *)
Record rt := mkrt {
  r_read : option N;         (* units of the body the transport read; None = up to EOF *)
  r_out : option N           (* None = transport error, Some code = response status *)
}.
Definition default_rt : rt := mkrt None (Some 200).

(* ---- outputs *)

Record trip := mktrip {
  t_https : bool;            (* scheme of the request handed to the transport *)
  t_method : N;
  t_url : N;
  t_hdrs : list (N * N);
  t_offered : list N;        (* the body the request carried (what reading to EOF would yield) *)
  t_read : list N;           (* the part the transport actually read: the observable *)
  t_out : option N
}.

Inductive result := RBadReq | RNetErr | RStatus (c : N) | ROk (c : N).

(* ---- helpers *)

Definition memN (x : N) (l : list N) : bool := existsb (N.eqb x) l.

Definition take_opt (k : option N) (l : list N) : list N :=
  match k with None => l | Some n => firstn (N.to_nat n) l end.
Definition drop_opt (k : option N) (l : list N) : list N :=
  match k with None => [] | Some n => skipn (N.to_nat n) l end.

(* the complete original body *)
Definition body0 (kd : bkind) (body : list N) : list N :=
  match kd with BNone => [] | _ => body end.

Record fixes := mkfix {
  f_rewind : bool;   (* replayBody before every re-send; refuse to re-send a body without GetBody *)
  f_accept : bool    (* an accepted code is not retried even if it is in RetryCodes *)
}.
Definition fixed : fixes := mkfix true true.
Definition pinned : fixes := mkfix false false.

(* the body a request carries when it is handed to the transport.  [rem] is what is left in the
   caller's reader.  Fixed code: a BReplay request gets a fresh copy from GetBody before every
   re-send (replayBody), the first send reads the caller's reader which is still complete.
   Pinned code: every send reads the caller's reader where the previous one stopped. *)
Definition offer (fx : fixes) (kd : bkind) (body rem : list N) : list N :=
  match kd with
  | BNone => []
  | BReplay => if f_rewind fx then body else rem
  | BStream => rem
  end.

(* replayBody: can the request be sent again? *)
Definition can_replay (fx : fixes) (kd : bkind) : bool :=
  if f_rewind fx then match kd with BStream => false | _ => true end else true.

(* httputil.go:350-352 *)
Definition retry_outcome (fx : fixes) (c : cfg) (o : option N) : bool :=
  match o with
  | None => true
  | Some code =>
      (memN code (c_retryable c) && negb (memN code (c_accepted c)))
      || (memN code (c_extra c) && (negb (f_accept fx) || negb (memN code (c_accepted c))))
  end.

Definition mk_trip (q : req) (https : bool) (offered : list N) (r : rt) : trip :=
  mktrip https (q_method q) (q_url q) (q_hdrs q) offered (take_opt (r_read r) offered) (r_out r).

(* One iteration of the loop up to the retry decision (httputil.go:334-349): client.Do and, on
   error of an https request with fallback enabled, fallbackToHTTP.
   Returns the round trips made, the outcome, the rest of the script, the rest of the reader. *)
Definition attempt (fx : fixes) (c : cfg) (q : req) (kd : bkind) (body : list N)
           (script : list rt) (rem : list N) : list trip * option N * list rt * list N :=
  let r1 := hd default_rt script in
  let script1 := tl script in
  let off1 := offer fx kd body rem in
  let t1 := mk_trip q (c_https c) off1 r1 in
  let rem1 := drop_opt (r_read r1) rem in
  match r_out r1 with
  | None =>
      if c_https c && c_fallback c then
        if can_replay fx kd then
          let r2 := hd default_rt script1 in
          let off2 := offer fx kd body rem1 in
          ([t1; mk_trip q false off2 r2], r_out r2, tl script1, drop_opt (r_read r2) rem1)
        else ([t1], None, script1, rem1)         (* fallback refused: body cannot be replayed *)
      else ([t1], None, script1, rem1)
  | Some code => ([t1], Some code, script1, rem1)
  end.

(* httputil.go:362-368 *)
Definition final (c : cfg) (o : option N) : result :=
  match o with
  | None => RNetErr
  | Some code => if memN code (c_accepted c) then ROk code else RStatus code
  end.

(* The loop, httputil.go:333-361.  [bo] = the answers NextBackOff will give (true = a duration,
   false = backoff.Stop; after the list: Stop).  Structural on [bo]: every further iteration
   consumes one answer.  Third component = number of NextBackOff calls. *)
Fixpoint loop (fx : fixes) (c : cfg) (q : req) (kd : bkind) (body : list N)
         (bo : list bool) (script : list rt) (rem : list N) : list trip * result * N :=
  let '(ts, o, script', rem') := attempt fx c q kd body script rem in
  if retry_outcome fx c o then
    match bo with
    | true :: bo' =>
        if can_replay fx kd then
          let '(ts2, res, nb) := loop fx c q kd body bo' script' rem' in
          (ts ++ ts2, res, N.succ nb)
        else (ts, final c o, 1)
    | _ => (ts, final c o, 1)
    end
  else (ts, final c o, 0).

Definition send_gen (fx : fixes) (c : cfg) (q : req) (kd : bkind) (body : list N)
           (bo : list bool) (script : list rt) : list trip * result * N :=
  if q_valid q then loop fx c q kd body bo script (body0 kd body)
  else ([], RBadReq, 0).

Definition send := send_gen fixed.
Definition send_old := send_gen pinned.

(* ---- observables: what the harness can see of a round trip *)
Record otrip := mkotrip {
  o_https : bool; o_method : N; o_url : N; o_hdrs : list (N * N);
  o_extra_same : bool;       (* headers the caller did not set are the same as in the first round trip *)
  o_read : list N
}.

Definition observe_trip (t : trip) : otrip :=
  mkotrip (t_https t) (t_method t) (t_url t) (t_hdrs t) true (t_read t).

(* ---- decidable equalities *)
Fixpoint listN_eqb (a b : list N) : bool :=
  match a, b with
  | [], [] => true
  | x :: a', y :: b' => N.eqb x y && listN_eqb a' b'
  | _, _ => false
  end.
Fixpoint hdrs_eqb (a b : list (N * N)) : bool :=
  match a, b with
  | [], [] => true
  | (x1, x2) :: a', (y1, y2) :: b' => N.eqb x1 y1 && N.eqb x2 y2 && hdrs_eqb a' b'
  | _, _ => false
  end.
Definition otrip_eqb (a b : otrip) : bool :=
  Bool.eqb (o_https a) (o_https b) && N.eqb (o_method a) (o_method b) && N.eqb (o_url a) (o_url b)
  && hdrs_eqb (o_hdrs a) (o_hdrs b) && Bool.eqb (o_extra_same a) (o_extra_same b)
  && listN_eqb (o_read a) (o_read b).
Fixpoint otrips_eqb (a b : list otrip) : bool :=
  match a, b with
  | [], [] => true
  | x :: a', y :: b' => otrip_eqb x y && otrips_eqb a' b'
  | _, _ => false
  end.
Definition result_eqb (a b : result) : bool :=
  match a, b with
  | RBadReq, RBadReq => true
  | RNetErr, RNetErr => true
  | RStatus x, RStatus y => N.eqb x y
  | ROk x, ROk y => N.eqb x y
  | _, _ => false
  end.

(* ---- the property on one observed trace, independent of the model's outputs.
   The i-th observed round trip consumed the i-th script entry (the harness plays the script in
   order), so the environment's part of every round trip is known. *)

Definition primary (c : cfg) (https : bool) : bool := Bool.eqb https (c_https c).

(* number of leading `true` answers of the backoff *)
Fixpoint go_prefix (bo : list bool) : nat :=
  match bo with true :: t => S (go_prefix t) | _ => O end.

(* clause 1: same method, URL, headers, and what was read of the body is the corresponding
   prefix of the complete original body; the scheme is the caller's, or http for a fallback *)
Definition trip_ok (c : cfg) (q : req) (b0 : list N) (r : rt) (o : otrip) : bool :=
  N.eqb (o_method o) (q_method q) && N.eqb (o_url o) (q_url q) && hdrs_eqb (o_hdrs o) (q_hdrs q)
  && o_extra_same o
  && listN_eqb (o_read o) (take_opt (r_read r) b0)
  && (Bool.eqb (o_https o) (c_https c) || negb (o_https o)).

(* walks the observed round trips together with the script.  clause 3: a round trip answered
   with an accepted code is the last one. *)
Fixpoint trips_ok (c : cfg) (q : req) (b0 : list N) (script : list rt) (os : list otrip) : bool :=
  match os with
  | [] => true
  | o :: os' =>
      let r := hd default_rt script in
      trip_ok c q b0 r o
      && (match r_out r with
          | Some code => if memN code (c_accepted c) then match os' with [] => true | _ => false end else true
          | None => true
          end)
      && trips_ok c q b0 (tl script) os'
  end.

Definition last_out (script : list rt) (n : nat) : option (option N) :=
  match n with O => None | S m => Some (r_out (nth m script default_rt)) end.

(* clause 2: success is the accepted answer to the last round trip (whose body clause 1 checked) *)
Definition result_ok (c : cfg) (script : list rt) (n : nat) (res : result) : bool :=
  match res with
  | ROk code =>
      match last_out script n with
      | Some (Some code') => N.eqb code code' && memN code (c_accepted c)
      | _ => false
      end
  | _ => true
  end.

Definition count_primary (c : cfg) (os : list otrip) : nat :=
  length (filter (fun o => primary c (o_https o)) os).

(* clause 4: at most one iteration per `go` answer of the backoff, plus the first *)
Definition backoff_ok (c : cfg) (bo : list bool) (os : list otrip) (nb : N) : bool :=
  Nat.leb (count_primary c os) (S (go_prefix bo))
  && Nat.leb (length os) (2 * S (go_prefix bo))
  && Nat.leb (N.to_nat nb) (S (go_prefix bo)).

Definition C34_check (c : cfg) (q : req) (kd : bkind) (body : list N) (bo : list bool)
           (script : list rt) (os : list otrip) (res : result) (nb : N) : bool :=
  if q_valid q then
    trips_ok c q (body0 kd body) script os
    && result_ok c script (length os) res
    && backoff_ok c bo os nb
  else match os with [] => true | _ => false end.
