#!/bin/sh
# regenerates _CoqProject and Makefile from the files on disk
cd "$(dirname "$0")"
{ echo "-Q . K"; echo "-arg -w -arg -notation-overridden,-deprecated-hint-without-locality,-deprecated-instance-without-locality"; find Base Gen Model Proof Properties Run -name '*.v' | sort; } > _CoqProject.new
if ! cmp -s _CoqProject.new _CoqProject 2>/dev/null; then mv _CoqProject.new _CoqProject; coq_makefile -f _CoqProject -o Makefile >/dev/null; else rm _CoqProject.new; fi
[ -f Makefile ] || coq_makefile -f _CoqProject -o Makefile >/dev/null
