(* C14 — proofs, part 3: what one message of a peer q can change.
   - the other connections: their bitfields are untouched; one is closed only when the torrent completed in this
     very step and that peer is complete too (dispatcher.go complete(): "connections to other completed peers
     are now useless");
   - the pieces: a piece becomes complete only through a payload for exactly that piece, in range, of the
     piece's length, whose bytes have the piece sum; nothing is ever lost. *)
From Coq Require Import List ZArith Bool Lia.
From K.Model Require Import C14.
From K.Proof Require Import C14.
From K.Proof Require C14_main.
Import ListNotations.
Local Open Scope Z_scope.

(* ------------------------------------------------------------------ peers as a finite map *)
Lemma find_set_other : forall ps q b q', q' <> q -> find_peer (set_peer ps q b) q' = find_peer ps q'.
Proof.
  induction ps as [|[p c] ps IH]; intros q b q' Hne; simpl; [reflexivity|].
  destruct (p =? q) eqn:E; simpl.
  - apply Z.eqb_eq in E. subst p. replace (q =? q') with false by (symmetry; apply Z.eqb_neq; lia). now apply IH.
  - destruct (p =? q'); [reflexivity | now apply IH].
Qed.

Lemma find_del : forall ps q q', find_peer (del_peer ps q) q' = if q' =? q then None else find_peer ps q'.
Proof.
  induction ps as [|[p c] ps IH]; intros q q'; simpl; [now destruct (q' =? q)|].
  destruct (p =? q) eqn:E; simpl.
  - apply Z.eqb_eq in E. subst p. rewrite IH. destruct (q' =? q) eqn:E2; [reflexivity|].
    rewrite Z.eqb_sym in E2. now rewrite E2.
  - rewrite IH. destruct (p =? q') eqn:E3; [|reflexivity].
    apply Z.eqb_eq in E3. subst p. now rewrite E.
Qed.

Lemma find_app_none : forall ps q b q', find_peer ps q = None ->
  find_peer (ps ++ [(q, b)]) q' = if q' =? q then Some b else find_peer ps q'.
Proof.
  induction ps as [|[p c] ps IH]; intros q b q' Hn; simpl.
  - rewrite Z.eqb_sym. reflexivity.
  - simpl in Hn. destruct (p =? q) eqn:E; [discriminate|]. rewrite (IH q b q' Hn).
    destruct (p =? q') eqn:E2; [|reflexivity]. apply Z.eqb_eq in E2. subst p. now rewrite E.
Qed.

Lemma keys_set_peer : forall ps q b, map fst (set_peer ps q b) = map fst ps.
Proof.
  induction ps as [|[p c] ps IH]; intros q b; simpl; [reflexivity|].
  destruct (p =? q) eqn:E; simpl; [apply Z.eqb_eq in E; subst|]; now rewrite IH.
Qed.

(* the other peers' entries are the same, and the set of connected peer ids is the same *)
Definition same_others (q : Z) (s s' : dst) : Prop :=
  (forall q', q' <> q -> find_peer (d_peers s') q' = find_peer (d_peers s) q') /\
  map fst (d_peers s') = map fst (d_peers s).

Lemma same_others_refl : forall q s, same_others q s s.
Proof. intros q s. split; [intros q' _|]; reflexivity. Qed.

Lemma same_others_trans : forall q s1 s2 s3, same_others q s1 s2 -> same_others q s2 s3 -> same_others q s1 s3.
Proof.
  intros q s1 s2 s3 [H1 K1] [H2 K2]. split; [|congruence].
  intros q' Hne. rewrite (H2 q' Hne). now apply H1.
Qed.

Lemma same_others_peers : forall q s s', d_peers s' = d_peers s -> same_others q s s'.
Proof. intros q s s' E. unfold same_others. rewrite E. split; [intros q' _|]; reflexivity. Qed.

Lemma same_others_set : forall q s s' b, d_peers s' = set_peer (d_peers s) q b -> same_others q s s'.
Proof. intros q s s' b E. unfold same_others. rewrite E. split; [intros q' Hne; now apply find_set_other | apply keys_set_peer]. Qed.

(* ------------------------------------------------------------------ which connections a handler closes *)
Definition close_of (e : eff) : list Z := match e with EClose q => [q] | _ => [] end.

Lemma closed_of_app : forall a b, closed_of (a ++ b) = closed_of a ++ closed_of b.
Proof. intros. unfold closed_of. now rewrite flat_map_app. Qed.

Lemma closed_emit : forall a e, closed_of (a_eff (emit a e)) = closed_of (a_eff a) ++ close_of e.
Proof. intros. simpl. rewrite closed_of_app. simpl. destruct e; simpl; now rewrite ?app_nil_r. Qed.

Definition ids_all (ps : list (Z * bset)) : list Z := map fst (filter (fun '(_, b) => b_all b) ps).

Lemma cnt_add_frame : forall a i dlt a', cnt_add a i dlt = Some a' ->
  d_peers (a_st a') = d_peers (a_st a) /\ d_have (a_st a') = d_have (a_st a) /\
  closed_of (a_eff a') = closed_of (a_eff a).
Proof.
  intros a i dlt a' H. unfold cnt_add in H. simpl in H.
  destruct (idx_ok (d_cnt (a_st a)) i); [|discriminate]. inversion H; subst; simpl.
  repeat split; auto. rewrite closed_of_app. simpl. now rewrite app_nil_r.
Qed.

Lemma cnt_add_all_frame : forall is a dlt a', cnt_add_all a is dlt = Some a' ->
  d_peers (a_st a') = d_peers (a_st a) /\ d_have (a_st a') = d_have (a_st a) /\
  closed_of (a_eff a') = closed_of (a_eff a).
Proof.
  induction is as [|i is IH]; intros a dlt a' H; simpl in H.
  - inversion H; subst; auto.
  - destruct (cnt_add a i dlt) as [a1|] eqn:E; [|discriminate].
    destruct (cnt_add_frame _ _ _ _ E) as [A1 [B1 C1]]. destruct (IH _ _ _ H) as [A2 [B2 C2]].
    repeat split; congruence.
Qed.

Lemma request_more_frame : forall t a q,
  d_peers (a_st (request_more t a q)) = d_peers (a_st a) /\ d_have (a_st (request_more t a q)) = d_have (a_st a) /\
  closed_of (a_eff (request_more t a q)) = closed_of (a_eff a).
Proof.
  intros t a q. unfold request_more. destruct (find_peer (d_peers (a_st a)) q); [|auto].
  generalize (filter (fun i => bget (bbits b) i && negb (zget (d_have (a_st a)) i true)) (zrange (t_n t))) as cands.
  intros cands. revert a. induction cands as [|i cands IH]; intros a; simpl; [auto|].
  match goal with |- context [fold_left ?f cands ?x] => set (a1 := x) end.
  assert (H1 : d_peers (a_st a1) = d_peers (a_st a) /\ d_have (a_st a1) = d_have (a_st a) /\
               closed_of (a_eff a1) = closed_of (a_eff a)).
  { subst a1. destruct (pending_on (d_reqs (a_st a)) i); [auto|]. simpl. repeat split; auto.
    rewrite closed_of_app. simpl. now rewrite app_nil_r. }
  destruct H1 as [A1 [B1 C1]]. destruct (IH a1) as [A2 [B2 C2]]. repeat split; congruence.
Qed.

Lemma do_complete_frame : forall a,
  a_st (do_complete a) = a_st a /\
  closed_of (a_eff (do_complete a)) = closed_of (a_eff a) ++ ids_all (d_peers (a_st a)).
Proof.
  intros a. unfold do_complete, ids_all. generalize (d_peers (a_st a)) as ps. intros ps. revert a.
  induction ps as [|[q b] ps IH]; intros a; simpl; [now rewrite app_nil_r|].
  match goal with |- context [fold_left ?f ps ?x] => set (a1 := x) end.
  destruct (IH a1) as [A2 C2]. rewrite A2, C2. subst a1.
  destruct (b_all b); simpl; split; auto; rewrite closed_of_app; simpl; rewrite <- ?app_assoc; simpl; now rewrite ?app_nil_r.
Qed.

Lemma announce_others_frame : forall a q i,
  a_st (announce_others a q i) = a_st a /\ closed_of (a_eff (announce_others a q i)) = closed_of (a_eff a).
Proof.
  intros a q i. unfold announce_others. generalize (d_peers (a_st a)) as ps. intros ps. revert a.
  induction ps as [|[q' b] ps IH]; intros a; simpl; [auto|].
  match goal with |- context [fold_left ?f ps ?x] => set (a1 := x) end.
  destruct (IH a1) as [A2 C2]. rewrite A2, C2. subst a1.
  destruct ((q' =? q) || existsb (Z.eqb q') (closed_of (a_eff a))); [auto|].
  simpl. split; auto. rewrite closed_of_app. simpl. now rewrite app_nil_r.
Qed.

Lemma set_bit_frame : forall a q i a', set_bit_of a q i = Some a' ->
  same_others q (a_st a) (a_st a') /\ d_have (a_st a') = d_have (a_st a) /\
  closed_of (a_eff a') = closed_of (a_eff a).
Proof.
  intros a q i a' H. unfold set_bit_of in H. simpl in H.
  assert (C : closed_of (a_eff a ++ [EBit i]) = closed_of (a_eff a)) by (rewrite closed_of_app; simpl; now rewrite app_nil_r).
  destruct (find_peer (d_peers (a_st a)) q) as [b|].
  - destruct (b_set b (to_uint i)) as [b'|]; [|discriminate]. inversion H; subst; simpl.
    split; [|split; [reflexivity | exact C]]. eapply same_others_set. reflexivity.
  - inversion H; subst; simpl. split; [apply same_others_refl | split; [reflexivity | exact C]].
Qed.

(* ------------------------------------------------------------------ one message *)
(* the only way a piece becomes complete *)
Definition valid_write (t : torrent) (m : wmsg) (have have' : list bool) : Prop :=
  exists i off len, m_ty m = 2 /\ m_pay m = Some (i, off, len) /\ 0 <= i < t_n t /\ off = 0 /\ len = plen t i /\
                    m_sumok m = true /\ t_kind t = Agent /\ zget have i false = false /\ have' = zset have i true.

Definition Delta (t : torrent) (q : Z) (m : wmsg) (a a' : acc) : Prop :=
  same_others q (a_st a) (a_st a') /\
  (closed_of (a_eff a') = closed_of (a_eff a) \/
   closed_of (a_eff a') = closed_of (a_eff a) ++ [q] \/
   (closed_of (a_eff a') = closed_of (a_eff a) ++ ids_all (d_peers (a_st a)) /\
    d_peers (a_st a') = d_peers (a_st a) /\ all_have (a_st a) = false /\ all_have (a_st a') = true)) /\
  (d_have (a_st a') = d_have (a_st a) \/ valid_write t m (d_have (a_st a)) (d_have (a_st a'))).

Lemma delta_refl : forall t q m a, Delta t q m a a.
Proof. intros. split; [apply same_others_refl | split; left; reflexivity]. Qed.

Lemma delta_close : forall t q m a, Delta t q m a (emit a (EClose q)).
Proof.
  intros. split; [apply same_others_refl|]. split; [|left; reflexivity].
  right; left. apply closed_emit.
Qed.

Lemma delta_quiet : forall t q m a a', same_others q (a_st a) (a_st a') -> d_have (a_st a') = d_have (a_st a) ->
  closed_of (a_eff a') = closed_of (a_eff a) -> Delta t q m a a'.
Proof. intros. split; [assumption | split; left; assumption]. Qed.

Lemma delta_emit : forall t q m a e, close_of e = [] -> Delta t q m a (emit a e).
Proof.
  intros. apply delta_quiet; [apply same_others_refl | reflexivity|].
  rewrite closed_emit, H. now rewrite app_nil_r.
Qed.

Lemma all_have_false_of_zget : forall have i, 0 <= i -> zget have i false = false -> i < zlen have ->
  forallb (fun b => b) have = false.
Proof.
  intros have i Hi Hz Hl. destruct (forallb (fun b => b) have) eqn:E; [|reflexivity].
  rewrite forallb_forall in E. unfold zget in Hz.
  assert (In (nth (Z.to_nat i) have false) have) by (apply nth_In; unfold zlen in Hl; lia).
  apply E in H. congruence.
Qed.

Section WithTorrent.
Variable t : torrent.
Hypothesis WF : wf_torrent t = true.

Lemma handle_request_delta : forall a q m i off len a', Good t a ->
  handle_request gfixed t a q i off len = Some a' -> Delta t q m a a'.
Proof.
  intros a q m i off len a' HG H. unfold handle_request in H.
  assert (S : forall a0 a1, set_bit_of (emit (emit a0 (ESend q (RPay i (plen t i) (in_range t i)))) (EFileRd (t_p t * i) (plen t i))) q i = Some a1 ->
              same_others q (a_st a0) (a_st a1) /\ d_have (a_st a1) = d_have (a_st a0) /\ closed_of (a_eff a1) = closed_of (a_eff a0)).
  { intros a0 a1 E. destruct (set_bit_frame _ _ _ _ E) as [X1 [X2 X3]]. split; [exact X1 | split; [exact X2|]].
    rewrite X3. simpl. rewrite !closed_of_app. simpl. now rewrite !app_nil_r. }
  destruct (is_full t i off len); simpl in H; [|inversion H; subst; now apply delta_emit].
  destruct (t_kind t).
  - rewrite (get_piece_fixed t) in H. destruct (in_range t i); [|inversion H; subst; now apply delta_emit].
    cbn [a_st emit] in H. destruct (zget (d_have (a_st a)) i false).
    + destruct (S _ _ H) as [X1 [X2 X3]]. apply delta_quiet; auto. rewrite X3. simpl. rewrite closed_of_app. simpl. now rewrite app_nil_r.
    + inversion H; subst. apply delta_quiet; [apply same_others_refl | reflexivity|].
      simpl. rewrite !closed_of_app. simpl. now rewrite !app_nil_r.
  - destruct (t_n t <=? i); [inversion H; subst; now apply delta_emit|].
    destruct (i <? 0); simpl in H; [inversion H; subst; now apply delta_emit|].
    destruct (S _ _ H) as [X1 [X2 X3]]. now apply delta_quiet.
Qed.

Lemma handle_announce_delta : forall a q m i a', handle_announce gfixed t a q i = Some a' -> Delta t q m a a'.
Proof.
  intros a q m i a' H. unfold handle_announce in H.
  destruct ((t_n t <=? i) || (g_negidx gfixed && (i <? 0))); [inversion H; subst; apply delta_refl|].
  destruct (set_bit_of a q i) as [a1|] eqn:E1; [|discriminate].
  destruct (cnt_add a1 i 1) as [a2|] eqn:E2; [|discriminate]. inversion H; subst.
  destruct (set_bit_frame _ _ _ _ E1) as [X1 [X2 X3]]. destruct (cnt_add_frame _ _ _ _ E2) as [Y1 [Y2 Y3]].
  destruct (request_more_frame t a2 q) as [Z1 [Z2 Z3]].
  apply delta_quiet; try congruence.
  eapply same_others_trans; [exact X1|]. apply same_others_peers. congruence.
Qed.

Lemma handle_complete_delta : forall a q m, Delta t q m a (handle_complete t a q).
Proof.
  intros a q m. unfold handle_complete. destruct (all_have (a_st a)); [apply delta_close|].
  destruct (find_peer (d_peers (a_st a)) q) as [b|]; [|apply delta_refl].
  match goal with |- Delta t q m a (request_more t ?x q) => destruct (request_more_frame t x q) as [Z1 [Z2 Z3]] end.
  apply delta_quiet; simpl in *; try congruence.
  eapply same_others_set. rewrite Z1. reflexivity.
Qed.

Lemma mark_invalid_delta : forall q m a i, Delta t q m a (do_mark_invalid a q i).
Proof. intros. apply delta_quiet; [apply same_others_peers; reflexivity | reflexivity | reflexivity]. Qed.

Lemma handle_payload_delta : forall a q m i off len a', Good t a -> m_ty m = 2 -> m_pay m = Some (i, off, len) ->
  handle_payload gfixed t a q i off len (m_sumok m) = Some a' -> Delta t q m a a'.
Proof.
  intros a q m i off len a' HG Hty Hpay H. unfold handle_payload in H.
  destruct (is_full t i off len) eqn:Hfull; simpl in H; [|inversion H; subst; apply mark_invalid_delta].
  destruct (t_kind t) eqn:Hk; [|inversion H; subst; apply mark_invalid_delta].
  rewrite (get_piece_fixed t) in H. destruct (in_range t i) eqn:Hr; [|inversion H; subst; apply mark_invalid_delta].
  apply in_range_iff in Hr.
  cbn [a_st emit] in H.
  destruct (zget (d_have (a_st a)) i false) eqn:Hz; [inversion H; subst; now apply delta_emit|].
  destruct (m_sumok m) eqn:Hs; simpl in H.
  2:{ inversion H; subst. apply delta_quiet; [apply same_others_peers; reflexivity | reflexivity|].
      simpl. rewrite !closed_of_app. simpl. now rewrite !app_nil_r. }
  inversion H; subst a'; clear H. simpl in Hz.
  set (s1 := mkd (zset (d_have (a_st a)) i true) (d_peers (a_st a)) (d_cnt (a_st a)) (d_reqs (a_st a))).
  set (a1 := with_st (emit (emit a (EPiece i)) (EFileWr (t_p t * i) len)) s1).
  assert (C1 : closed_of (a_eff a1) = closed_of (a_eff a)).
  { subst a1. simpl. rewrite !closed_of_app. simpl. now rewrite !app_nil_r. }
  set (a2 := if all_have s1 then do_complete a1 else a1).
  assert (A2 : a_st a2 = s1) by (subst a2; destruct (all_have s1); [apply do_complete_frame | reflexivity]).
  set (a3 := with_st a2 (mkd (d_have (a_st a2)) (d_peers (a_st a2)) (d_cnt (a_st a2)) (clear_piece (d_reqs (a_st a2)) i))).
  set (a4 := if existsb (Z.eqb q) (closed_of (a_eff a3)) then a3 else request_more t a3 q).
  assert (A4 : d_peers (a_st a4) = d_peers (a_st a) /\ d_have (a_st a4) = zset (d_have (a_st a)) i true /\
               closed_of (a_eff a4) = closed_of (a_eff a2)).
  { subst a4. destruct (existsb (Z.eqb q) (closed_of (a_eff a3))).
    - subst a3. simpl. rewrite A2. auto.
    - destruct (request_more_frame t a3 q) as [Z1 [Z2 Z3]]. rewrite Z1, Z2, Z3. subst a3. simpl. rewrite A2. auto. }
  destruct A4 as [P4 [H4 C4]]. destruct (announce_others_frame a4 q i) as [S5 C5].
  change (Delta t q m a (announce_others a4 q i)). unfold is_full in Hfull. apply andb_true_iff in Hfull. destruct Hfull as [Ho Hl].
  apply Z.eqb_eq in Ho, Hl.
  split; [apply same_others_peers; rewrite S5; exact P4|]. split.
  - rewrite C5, C4. subst a2. destruct (all_have s1) eqn:Ha.
    + right; right. destruct (do_complete_frame a1) as [_ D]. rewrite D, C1. subst a1 s1. simpl.
      repeat split; auto; [rewrite S5; exact P4| |rewrite S5; unfold all_have; rewrite H4; exact Ha].
      unfold all_have. destruct HG as [[L1 _] _]. eapply all_have_false_of_zget; eauto; lia.
    + left. exact C1.
  - right. exists i, off, len. rewrite S5, H4. repeat split; auto; lia.
Qed.

Lemma dispatch_delta : forall a q m a', Good t a -> dispatch gfixed t a q m = Some a' -> Delta t q m a a'.
Proof.
  intros a q m a' HG H. unfold dispatch in H. simpl in H.
  destruct (m_ty m =? 5).
  { destruct (m_err m) as [[i c]|]; inversion H; subst; [|apply delta_refl].
    destruct (c =? 0); [apply mark_invalid_delta | apply delta_refl]. }
  destruct (m_ty m =? 3).
  { destruct (m_ann m) as [i|]; [eapply handle_announce_delta; eauto | inversion H; subst; apply delta_refl]. }
  destruct (m_ty m =? 1).
  { destruct (m_req m) as [[[i off] len]|]; [eapply handle_request_delta; eauto | inversion H; subst; apply delta_refl]. }
  destruct (m_ty m =? 2) eqn:E2.
  { apply Z.eqb_eq in E2. destruct (m_pay m) as [[[i off] len]|] eqn:Ep; [|inversion H; subst; apply delta_refl].
    eapply handle_payload_delta; eauto. }
  destruct (m_ty m =? 6); inversion H; subst; [apply handle_complete_delta | apply delta_refl].
Qed.

Lemma delta_after_emit : forall q m a e a', close_of e = [] -> Delta t q m (emit a e) a' -> Delta t q m a a'.
Proof.
  intros q m a e a' He [D1 [D2 D3]]. simpl in *.
  assert (C : closed_of (a_eff a ++ [e]) = closed_of (a_eff a)) by (rewrite closed_of_app; destruct e; simpl in *; try discriminate; now rewrite app_nil_r).
  rewrite C in D2. split; [exact D1 | split; [exact D2 | exact D3]].
Qed.

Lemma recv_delta : forall a q m a', Good t a -> recv gfixed t a q m = Some a' -> Delta t q m a a'.
Proof.
  intros a q m a' HG H. unfold recv in H. simpl in H.
  destruct (max_msg <? m_size m) eqn:Es; [inversion H; subst; apply delta_close|]. apply Z.ltb_ge in Es.
  assert (G1 : Good t (emit a (EAlloc (m_size m)))).
  { apply good_emit; auto. simpl. apply Z.leb_le. unfold alloc_bound. lia. }
  apply (delta_after_emit q m a (EAlloc (m_size m))); [reflexivity|].
  destruct (m_ok m); simpl in H; [|inversion H; subst; apply delta_close].
  destruct (m_ty m =? 2); [|now apply dispatch_delta].
  destruct (m_pay m) as [[[i off] len]|] eqn:Ep; [|inversion H; subst; apply delta_close].
  destruct ((len <? 0) || (t_p t <? len)) eqn:El; [inversion H; subst; apply delta_close|].
  apply orb_false_iff in El. destruct El as [El1 El2]. rewrite El1 in H. apply Z.ltb_ge in El1, El2.
  pose proof (p_small t WF) as Hp.
  replace (max_alloc <? len) with false in H by (symmetry; apply Z.ltb_ge; unfold max_alloc; lia). simpl in H.
  assert (G2 : Good t (emit (emit a (EAlloc (m_size m))) (EAlloc len))).
  { apply good_emit; auto. simpl. apply Z.leb_le. unfold alloc_bound. lia. }
  apply (delta_after_emit q m _ (EAlloc len)); [reflexivity|].
  destruct (m_deliver m); simpl in H; [|inversion H; subst; apply delta_close].
  now apply dispatch_delta.
Qed.

(* teardown of closed connections *)
Lemma nodup_del_peer : forall ps q, NoDup (map fst ps) -> NoDup (map fst (del_peer ps q)).
Proof.
  induction ps as [|[p c] ps IH]; intros q H; simpl; [constructor|].
  inversion H as [|x l Hnin Hnd]; subst. destruct (p =? q); simpl; [now apply IH|].
  constructor; [|now apply IH]. intros Hin. apply Hnin. apply in_map_iff in Hin. destruct Hin as [[p' c'] [E Hin]].
  simpl in E. subst p'. unfold del_peer in Hin. apply filter_In in Hin. apply in_map_iff. exists (p, c'). tauto.
Qed.

Lemma remove_peer_frame : forall a q0 a', remove_peer a q0 = Some a' ->
  (forall q', find_peer (d_peers (a_st a')) q' = if q' =? q0 then None else find_peer (d_peers (a_st a)) q') /\
  d_have (a_st a') = d_have (a_st a) /\
  (NoDup (map fst (d_peers (a_st a))) -> NoDup (map fst (d_peers (a_st a')))).
Proof.
  intros a q0 a' H. unfold remove_peer in H. destruct (find_peer (d_peers (a_st a)) q0) as [b|] eqn:Hf.
  - destruct (cnt_add_all_frame _ _ _ _ H) as [P [Hh _]]. simpl in *. split; [|split; [exact Hh|]].
    + intros q'. rewrite P. apply find_del.
    + rewrite P. apply nodup_del_peer.
  - inversion H; subst. split; [|split; [reflexivity | auto]]. intros q'. destruct (q' =? q0) eqn:E; [|reflexivity].
    apply Z.eqb_eq in E. now subst.
Qed.

Lemma remove_peers_frame : forall qs a a', remove_peers a qs = Some a' ->
  (forall q', find_peer (d_peers (a_st a')) q' = if existsb (Z.eqb q') qs then None else find_peer (d_peers (a_st a)) q') /\
  d_have (a_st a') = d_have (a_st a) /\
  (NoDup (map fst (d_peers (a_st a))) -> NoDup (map fst (d_peers (a_st a')))).
Proof.
  induction qs as [|q0 qs IH]; intros a a' H; simpl in H.
  - inversion H; subst. auto.
  - destruct (remove_peer a q0) as [a1|] eqn:E; [|discriminate].
    destruct (remove_peer_frame _ _ _ E) as [F1 [H1 N1]]. destruct (IH _ _ H) as [F2 [H2 N2]].
    split; [|split; [congruence | auto]].
    intros q'. rewrite F2, F1. simpl. destruct (q' =? q0); simpl; [now destruct (existsb (Z.eqb q') qs) | reflexivity].
Qed.

Lemma in_ids_all : forall ps q', NoDup (map fst ps) ->
  existsb (Z.eqb q') (ids_all ps) = match find_peer ps q' with Some b => b_all b | None => false end.
Proof.
  induction ps as [|[p c] ps IH]; intros q' Hnd; simpl; [reflexivity|].
  inversion Hnd as [|x l Hnin Hnd']; subst. unfold ids_all in *. simpl.
  destruct (p =? q') eqn:E.
  - apply Z.eqb_eq in E. subst p.
    assert (Hno : existsb (Z.eqb q') (map fst (filter (fun '(_, b) => b_all b) ps)) = false).
    { destruct (existsb _ _) eqn:X; [|reflexivity]. apply existsb_exists in X. destruct X as [x [Hx Hq]].
      apply Z.eqb_eq in Hq. subst x. apply in_map_iff in Hx. destruct Hx as [[p' c'] [Hp Hin]]. simpl in Hp. subst p'.
      apply filter_In in Hin. exfalso. apply Hnin. apply in_map_iff. exists (q', c'). tauto. }
    destruct (b_all c); simpl; [rewrite Z.eqb_refl; reflexivity | exact Hno].
  - destruct (b_all c); simpl; [rewrite Z.eqb_sym, E; simpl|]; now apply IH.
Qed.

(* one message of q: every other connected peer q' keeps its connection and its bitfield, except that a peer
   which is complete is dropped in the step in which the torrent completes *)
Theorem others_unaffected : forall s q m a q' b, Inv t s -> NoDup (map fst (d_peers s)) ->
  step gfixed t s q m = Some a -> q' <> q -> find_peer (d_peers s) q' = Some b ->
  find_peer (d_peers (a_st a)) q' = Some b \/
  (find_peer (d_peers (a_st a)) q' = None /\ b_all b = true /\ all_have s = false /\ all_have (a_st a) = true).
Proof.
  intros s q m a q' b HI Hnd H Hne Hf. unfold step in H.
  destruct (find_peer (d_peers s) q); [|inversion H; subst; left; exact Hf].
  assert (G0 : Good t (mka s [])) by (split; [exact HI | constructor]).
  destruct (recv gfixed t (mka s []) q m) as [a1|] eqn:E1; [|discriminate]. simpl in H.
  destruct (recv_delta _ _ _ _ G0 E1) as [[D1 _] [D2 D3]]. simpl in *.
  destruct (remove_peers_frame _ _ _ H) as [F [Hh _]]. rewrite F. rewrite (D1 q' Hne), Hf.
  destruct D2 as [C|[C|[C [P [A0 A1]]]]]; rewrite C; simpl.
  - now left.
  - replace (q' =? q) with false by (symmetry; now apply Z.eqb_neq). now left.
  - rewrite (in_ids_all _ q' Hnd), Hf. destruct (b_all b) eqn:Eb; [|now left].
    right. repeat split; auto. unfold all_have in *. now rewrite Hh.
Qed.

(* ... and a piece becomes complete only through a valid payload for exactly that piece; no piece is lost *)
Theorem have_only_by_valid_payload : forall s q m a, Inv t s -> step gfixed t s q m = Some a ->
  d_have (a_st a) = d_have s \/ valid_write t m (d_have s) (d_have (a_st a)).
Proof.
  intros s q m a HI H. unfold step in H.
  destruct (find_peer (d_peers s) q); [|inversion H; subst; now left].
  assert (G0 : Good t (mka s [])) by (split; [exact HI | constructor]).
  destruct (recv gfixed t (mka s []) q m) as [a1|] eqn:E1; [|discriminate]. simpl in H.
  destruct (recv_delta _ _ _ _ G0 E1) as [_ [_ D3]]. simpl in *.
  destruct (remove_peers_frame _ _ _ H) as [_ [Hh _]]. now rewrite Hh.
Qed.

Lemma step_uniq : forall s q m a, Inv t s -> NoDup (map fst (d_peers s)) -> step gfixed t s q m = Some a ->
  NoDup (map fst (d_peers (a_st a))).
Proof.
  intros s q m a HI Hnd H. unfold step in H.
  destruct (find_peer (d_peers s) q); [|inversion H; subst; exact Hnd].
  assert (G0 : Good t (mka s [])) by (split; [exact HI | constructor]).
  destruct (recv gfixed t (mka s []) q m) as [a1|] eqn:E1; [|discriminate]. simpl in H.
  destruct (recv_delta _ _ _ _ G0 E1) as [[_ K] _]. simpl in *.
  destruct (remove_peers_frame _ _ _ H) as [_ [_ N]]. apply N. now rewrite K.
Qed.

End WithTorrent.

(* a handshake attempt or a hang-up of q leaves every other connection as it is *)
Lemma add_peer_others : forall g t s q b dup es a q', add_peer g t s q b dup es = HAccept a -> q' <> q ->
  find_peer (d_peers (a_st a)) q' = find_peer (d_peers s) q'.
Proof.
  intros g t s q b dup es a q' H Hne. unfold add_peer in H.
  destruct (g_bfsize g && _); [discriminate|]. destruct dup; [discriminate|].
  destruct (find_peer (d_peers s) q) eqn:Hf; [discriminate|].
  match type of H with context [cnt_add_all ?x _ _] => destruct (cnt_add_all x (set_idxs b) 1) as [a2|] eqn:E end; [|discriminate].
  inversion H; subst. destruct (cnt_add_all_frame _ _ _ _ E) as [P _]. destruct (request_more_frame t a2 q) as [P2 _].
  rewrite P2, P. simpl. rewrite (find_app_none _ _ _ q' Hf). replace (q' =? q) with false by (symmetry; now apply Z.eqb_neq).
  reflexivity.
Qed.

Theorem handshake_others_unaffected : forall g t s q h q',
  q' <> q ->
  match handshake g t s q h with
  | HAccept a => find_peer (d_peers (a_st a)) q' = find_peer (d_peers s) q'
  | _ => True
  end.
Proof.
  intros g t s q h q' Hne. unfold handshake.
  repeat match goal with
         | |- match (if ?c then _ else _) with _ => _ end => destruct c; try exact I
         | |- match (match ?x with _ => _ end) with _ => _ end => destruct x; try exact I
         | |- match (let '(_, _) := ?x in _) with _ => _ end => destruct x; try exact I
         end.
  match goal with |- match add_peer ?g ?t ?s ?q ?b ?d ?es with _ => _ end => destruct (add_peer g t s q b d es) eqn:E; try exact I end.
  eapply add_peer_others; eauto.
Qed.

Theorem hangup_others_unaffected : forall s q a q', hangup s q = Some a -> q' <> q ->
  find_peer (d_peers (a_st a)) q' = find_peer (d_peers s) q' /\ d_have (a_st a) = d_have s.
Proof.
  intros s q a q' H Hne. unfold hangup in H. destruct (remove_peer_frame _ _ _ H) as [F [Hh _]]. split; [|exact Hh].
  rewrite F. simpl. replace (q' =? q) with false by (symmetry; now apply Z.eqb_neq). reflexivity.
Qed.

(* ------------------------------------------------------------------ one entry per peer id, in every reachable state *)
Lemma nodupb_iff : forall l, nodupb l = true <-> NoDup l.
Proof.
  induction l as [|x l IH]; simpl; [split; [constructor | reflexivity]|].
  rewrite andb_true_iff, negb_true_iff, IH. split.
  - intros [H1 H2]. constructor; auto. intros Hin.
    assert (existsb (Z.eqb x) l = true) by (apply existsb_exists; exists x; split; auto; apply Z.eqb_refl). congruence.
  - intros H. inversion H; subst. split; auto. destruct (existsb (Z.eqb x) l) eqn:E; [|reflexivity].
    apply existsb_exists in E. destruct E as [y [Hy E]]. apply Z.eqb_eq in E. now subst.
Qed.

Lemma find_none_notin : forall ps q, find_peer ps q = None -> ~ In q (map fst ps).
Proof.
  induction ps as [|[p c] ps IH]; intros q H; simpl in *; [tauto|].
  destruct (p =? q) eqn:E; [discriminate|]. apply Z.eqb_neq in E. intros [X|X]; [auto | now apply (IH q H)].
Qed.

Lemma nodup_snoc : forall (l : list Z) x, NoDup l -> ~ In x l -> NoDup (l ++ [x]).
Proof.
  induction l as [|y l IH]; intros x Hnd Hnin; simpl; [constructor; [tauto | constructor]|].
  inversion Hnd; subst. constructor.
  - intros Hin. apply in_app_or in Hin. destruct Hin as [Hin|[Hin|[]]]; [tauto | subst; apply Hnin; now left].
  - apply IH; auto. intros Hin. apply Hnin. now right.
Qed.

Lemma add_peer_uniq : forall g t s q b dup es a, add_peer g t s q b dup es = HAccept a ->
  NoDup (map fst (d_peers s)) -> NoDup (map fst (d_peers (a_st a))).
Proof.
  intros g t s q b dup es a H Hnd. unfold add_peer in H.
  destruct (g_bfsize g && _); [discriminate|]. destruct dup; [discriminate|].
  destruct (find_peer (d_peers s) q) eqn:Hf; [discriminate|].
  match type of H with context [cnt_add_all ?x _ _] => destruct (cnt_add_all x (set_idxs b) 1) as [a2|] eqn:E end; [|discriminate].
  inversion H; subst. destruct (cnt_add_all_frame _ _ _ _ E) as [P _]. destruct (request_more_frame t a2 q) as [P2 _].
  rewrite P2, P. simpl. rewrite map_app. simpl. apply nodup_snoc; auto. now apply find_none_notin.
Qed.

Lemma handshake_uniq : forall g t s q h a, handshake g t s q h = HAccept a ->
  NoDup (map fst (d_peers s)) -> NoDup (map fst (d_peers (a_st a))).
Proof.
  intros g t s q h a H Hnd. unfold handshake in H.
  repeat match type of H with
         | (if ?c then _ else _) = _ => destruct c; try discriminate
         | match ?x with _ => _ end = _ => destruct x; try discriminate
         end.
  eapply add_peer_uniq; eauto.
Qed.

Theorem uniq_preserved : forall t evs s s' es, wf_torrent t = true -> inv t s = true -> uniq s = true ->
  forallb wf_event evs = true -> run_events gfixed t s evs = Some (s', es) -> uniq s' = true.
Proof.
  intros t evs. induction evs as [|e evs IH]; intros s s' es WF HI HU Hw H; simpl in H.
  - inversion H; subst; exact HU.
  - simpl in Hw. apply andb_true_iff in Hw. destruct Hw as [Hw1 Hw2].
    destruct (apply_event gfixed t s e) as [[s1 es1]|] eqn:E1; [|discriminate].
    destruct (run_events gfixed t s1 evs) as [[s2 es2]|] eqn:E2; [|discriminate]. inversion H; subst.
    assert (I1 : inv t s1 = true).
    { apply (C14_main.inv_preserved t s [e] s1 (es1 ++ []) WF HI); [simpl; now rewrite Hw1|]. simpl. now rewrite E1. }
    apply (IH s1 s' es2 WF I1); auto.
    unfold uniq in *. apply nodupb_iff. apply nodupb_iff in HU. apply inv_iff in HI.
    destruct e as [q h|q m|q]; simpl in E1.
    + destruct (handshake gfixed t s q h) as [|st es0|a] eqn:Eh; inversion E1; subst; auto.
      eapply handshake_uniq; eauto.
    + destruct (step gfixed t s q m) as [a|] eqn:Es; inversion E1; subst. eapply step_uniq; eauto.
    + destruct (hangup s q) as [a|] eqn:Eh; inversion E1; subst. unfold hangup in Eh.
      destruct (remove_peer_frame _ _ _ Eh) as [_ [_ N]]. now apply N.
Qed.

(* boolean-hypothesis forms for Properties/C14.v *)
Theorem others_unaffected_b : forall t s q m a q' b, wf_torrent t = true -> inv t s = true -> uniq s = true ->
  step gfixed t s q m = Some a -> q' <> q -> find_peer (d_peers s) q' = Some b ->
  find_peer (d_peers (a_st a)) q' = Some b \/
  (find_peer (d_peers (a_st a)) q' = None /\ b_all b = true /\ all_have s = false /\ all_have (a_st a) = true).
Proof.
  intros t s q m a q' b WF HI HU. apply others_unaffected; auto; [now apply inv_iff | now apply nodupb_iff].
Qed.

Theorem have_only_by_valid_payload_b : forall t s q m a, wf_torrent t = true -> inv t s = true ->
  step gfixed t s q m = Some a ->
  d_have (a_st a) = d_have s \/ valid_write t m (d_have s) (d_have (a_st a)).
Proof. intros t s q m a WF HI. apply have_only_by_valid_payload; auto. now apply inv_iff. Qed.
