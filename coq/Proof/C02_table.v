(* Proofs for C02, part 3: the piece length table (lib/metainfogen/config.go). *)
From Coq Require Import List NArith ZArith Bool Lia ZifyBool ZifyN ZifyNat Sorting.Sorted Permutation.
From K.Model Require Import C02.
Import ListNotations.
Local Open Scope Z_scope.

Definition keys (l : list (Z * Z)) : list Z := map fst l.

(* x is configured for the largest threshold not above size *)
Definition is_best (l : list (Z * Z)) (size : Z) (x : Z * Z) : Prop :=
  In x l /\ fst x <= size /\ forall y, In y l -> fst y <= size -> fst y <= fst x.
(* every threshold is above size *)
Definition none_le (l : list (Z * Z)) (size : Z) : Prop := forall y, In y l -> size < fst y.
(* x is configured for the smallest threshold *)
Definition is_min (l : list (Z * Z)) (x : Z * Z) : Prop := In x l /\ forall y, In y l -> fst x <= fst y.

Definition key_lt (a b : Z * Z) : Prop := fst a < fst b.

Lemma nodup_keys_inj l a b : NoDup (keys l) -> In a l -> In b l -> fst a = fst b -> a = b.
Proof.
  unfold keys. induction l as [|x l IH]; intros Hnd Ha Hb E; [contradiction|].
  cbn [map] in Hnd. inversion Hnd as [|? ? Hnotin Hnd']; subst.
  destruct Ha as [->|Ha], Hb as [->|Hb]; auto.
  - exfalso. apply Hnotin. rewrite E. now apply in_map.
  - exfalso. apply Hnotin. rewrite <- E. now apply in_map.
Qed.

(* ------------------------------------------------------------------ sorting *)
Lemma insert_perm x l : Permutation (insert_range x l) (x :: l).
Proof.
  induction l as [|y l IH]; cbn [insert_range]; [reflexivity|].
  destruct (fst x <? fst y); [reflexivity|]. rewrite IH. apply perm_swap.
Qed.

Lemma sort_perm l : Permutation (sort_ranges l) l.
Proof.
  induction l as [|x l IH]; cbn [sort_ranges]; [reflexivity|].
  rewrite insert_perm. now constructor.
Qed.

Lemma insert_sorted x l : StronglySorted key_lt l -> ~ In (fst x) (keys l) ->
  StronglySorted key_lt (insert_range x l).
Proof.
  induction l as [|y l IH]; intros Hs Hx; cbn [insert_range].
  - repeat constructor.
  - inversion Hs as [|? ? Hs' Hall]; subst. destruct (Z.ltb_spec (fst x) (fst y)) as [Hlt|Hge].
    + constructor; [assumption|]. constructor; [assumption|].
      eapply Forall_impl; [|exact Hall]. unfold key_lt. intros; lia.
    + assert (Hne : fst x <> fst y). { intros E. apply Hx. cbn. now left. }
      constructor.
      * apply IH; [assumption|]. intros Hin. apply Hx. cbn. now right.
      * apply Forall_forall. intros z Hz.
        apply (Permutation_in _ (insert_perm x l)) in Hz. destruct Hz as [<-|Hz].
        -- unfold key_lt. lia.
        -- rewrite Forall_forall in Hall. now apply Hall.
Qed.

Lemma sort_sorted l : NoDup (keys l) -> StronglySorted key_lt (sort_ranges l).
Proof.
  unfold keys. induction l as [|x l IH]; intros Hnd; cbn [sort_ranges]; [constructor|].
  cbn [map] in Hnd. inversion Hnd as [|? ? Hnotin Hnd']; subst.
  apply insert_sorted; [now apply IH|].
  intros Hin. apply Hnotin. unfold keys in Hin.
  eapply Permutation_in; [|exact Hin]. apply Permutation_map. apply sort_perm.
Qed.

Lemma sort_in l x : In x (sort_ranges l) <-> In x l.
Proof. split; apply Permutation_in; [|symmetry]; apply sort_perm. Qed.

(* ------------------------------------------------------------------ the scan over the sorted ranges *)
Lemma none_le_dec l size : none_le l size \/ exists y, In y l /\ fst y <= size.
Proof.
  induction l as [|x l [IH|(y & Hy & Hle)]].
  - left. intros y [].
  - destruct (Z.le_gt_cases (fst x) size).
    + right. exists x. split; [now left|assumption].
    + left. intros y [<-|Hy]; [lia|now apply IH].
  - right. exists y. split; [now right|assumption].
Qed.

Lemma scan_spec size : forall rs cur, StronglySorted key_lt rs ->
  (forall x, is_best rs size x -> plconfig_scan rs cur size = snd x)
  /\ (none_le rs size -> plconfig_scan rs cur size = cur).
Proof.
  induction rs as [|r t IH]; intros cur Hs.
  - split; [intros x ([] & _)|reflexivity].
  - inversion Hs as [|? ? Hs' Hall]; subst. rewrite Forall_forall in Hall. unfold key_lt in Hall.
    cbn [plconfig_scan]. destruct (Z.ltb_spec size (fst r)) as [Hlt|Hge].
    + split; [|reflexivity]. intros x (Hin & Hle & _). exfalso.
      destruct Hin as [<-|Hin]; [lia|]. specialize (Hall _ Hin). lia.
    + destruct (IH (snd r) Hs') as [IHb IHn]. split.
      * intros x (Hin & Hle & Hmax). destruct (none_le_dec t size) as [Hnone|(y & Hy & Hyle)].
        -- destruct Hin as [<-|Hin]; [now apply IHn|]. specialize (Hnone _ Hin). lia.
        -- destruct Hin as [<-|Hin].
           ++ specialize (Hmax y (or_intror Hy) Hyle). specialize (Hall _ Hy). lia.
           ++ apply IHb. split; [assumption|]. split; [assumption|].
              intros z Hz. apply Hmax. now right.
      * intros Hnone. specialize (Hnone r (or_introl eq_refl)). lia.
Qed.

Lemma sorted_head_min r t : StronglySorted key_lt (r :: t) -> is_min (r :: t) r.
Proof.
  intros Hs. inversion Hs as [|? ? _ Hall]; subst. rewrite Forall_forall in Hall. unfold key_lt in Hall.
  split; [now left|]. intros y [<-|Hy]; [lia|]. specialize (Hall _ Hy). lia.
Qed.

Lemma is_best_perm l l' size x : (forall y, In y l <-> In y l') -> is_best l size x -> is_best l' size x.
Proof.
  intros H (Hin & Hle & Hmax). split; [now apply H|]. split; [assumption|].
  intros y Hy. apply Hmax. now apply H.
Qed.

(* the lookup, stated without reference to sorting *)
Theorem table_lookup l size : NoDup (keys l) -> l <> [] ->
  let r := plconfig_get (sort_ranges l) size in
  (forall x, is_best l size x -> r = snd x)
  /\ (none_le l size -> forall x, is_min l x -> r = snd x).
Proof.
  intros Hnd Hne r. subst r. pose proof (sort_sorted l Hnd) as Hs.
  assert (Hin := sort_in l).
  destruct (sort_ranges l) as [|r0 rs] eqn:E.
  { exfalso. destruct l as [|x l]; [congruence|]. destruct (proj2 (Hin x) (or_introl eq_refl)). }
  cbn [plconfig_get]. destruct (scan_spec size (r0 :: rs) (snd r0) Hs) as [Hb Hn]. split.
  - intros x Hx. apply Hb. eapply is_best_perm; [|exact Hx]. intros y. symmetry. apply Hin.
  - intros Hnone x (Hxin & Hxmin). rewrite Hn.
    + f_equal. pose proof (sorted_head_min r0 rs Hs) as (Hr0in & Hr0min).
      apply (nodup_keys_inj l); [assumption|now apply Hin|assumption|].
      specialize (Hr0min x ltac:(now apply Hin)). specialize (Hxmin r0 ltac:(now apply Hin)). lia.
    + intros y Hy. apply Hnone. now apply Hin.
Qed.

(* exactly one of the two cases applies, and in each a witness exists *)
Lemma best_exists l size : (exists y, In y l /\ fst y <= size) -> exists x, is_best l size x.
Proof.
  induction l as [|a l IH]; intros (y & Hy & Hle); [contradiction|].
  destruct (none_le_dec l size) as [Hnone|Hex].
  - destruct Hy as [<-|Hy]; [|specialize (Hnone _ Hy); lia].
    exists a. split; [now left|]. split; [assumption|]. intros z [<-|Hz] Hzle; [lia|].
    specialize (Hnone _ Hz). lia.
  - destruct (IH Hex) as (x & Hxin & Hxle & Hxmax).
    destruct (Z.le_gt_cases (fst a) size) as [Ha|Ha].
    + destruct (Z.le_gt_cases (fst a) (fst x)).
      * exists x. split; [now right|]. split; [assumption|]. intros z [<-|Hz] Hzle; [assumption|now apply Hxmax].
      * exists a. split; [now left|]. split; [assumption|]. intros z [<-|Hz] Hzle; [lia|].
        specialize (Hxmax _ Hz Hzle). lia.
    + exists x. split; [now right|]. split; [assumption|]. intros z [<-|Hz] Hzle; [lia|now apply Hxmax].
Qed.

Lemma min_exists l : l <> [] -> exists x, is_min l x.
Proof.
  induction l as [|a l IH]; intros Hne; [congruence|]. destruct l as [|b l].
  - exists a. split; [now left|]. intros y [<-|[]]. lia.
  - destruct (IH ltac:(discriminate)) as (x & Hxin & Hxmin).
    destruct (Z.le_gt_cases (fst a) (fst x)).
    + exists a. split; [now left|]. intros y [<-|Hy]; [lia|]. specialize (Hxmin _ Hy). lia.
    + exists x. split; [now right|]. intros y [<-|Hy]; [lia|now apply Hxmin].
Qed.

(* ------------------------------------------------------------------ the executable specification agrees *)
Definition cand (acc : option (Z * Z)) (l : list (Z * Z)) : list (Z * Z) :=
  match acc with Some a => a :: l | None => l end.

Lemma best_le_spec size : forall l acc,
  (forall a, acc = Some a -> fst a <= size) ->
  match best_le l size acc with
  | Some x => is_best (cand acc l) size x
  | None => none_le (cand acc l) size
  end.
Proof.
  induction l as [|x l IH]; intros acc Hacc; cbn [best_le].
  - destruct acc as [a|]; cbn [cand].
    + split; [now left|]. split; [now apply Hacc|]. intros y [<-|[]] _. lia.
    + intros y [].
  - destruct (Z.leb_spec (fst x) size) as [Hle|Hgt].
    + destruct acc as [a|]; cbn [cand].
      * specialize (Hacc a eq_refl). destruct (Z.ltb_spec (fst a) (fst x)) as [Hlt|Hge].
        -- specialize (IH (Some x) ltac:(intros ? [= <-]; assumption)). cbn [cand] in IH.
           destruct (best_le l size (Some x)) as [b|].
           ++ destruct IH as (Hin & Hble & Hmax). split; [destruct Hin; [right; now left|right; now right]|].
              split; [assumption|]. intros y [<-|[<-|Hy]] Hyle.
              ** specialize (Hmax x (or_introl eq_refl) Hle). lia.
              ** apply Hmax; [now left|assumption].
              ** apply Hmax; [now right|assumption].
           ++ specialize (IH x (or_introl eq_refl)). lia.
        -- specialize (IH (Some a) ltac:(intros ? [= <-]; assumption)). cbn [cand] in IH.
           destruct (best_le l size (Some a)) as [b|].
           ++ destruct IH as (Hin & Hble & Hmax). split; [destruct Hin; [now left|right; now right]|].
              split; [assumption|]. intros y [<-|[<-|Hy]] Hyle.
              ** apply Hmax; [now left|assumption].
              ** specialize (Hmax a (or_introl eq_refl) Hacc). lia.
              ** apply Hmax; [now right|assumption].
           ++ specialize (IH a (or_introl eq_refl)). lia.
      * specialize (IH (Some x) ltac:(intros ? [= <-]; assumption)). cbn [cand] in IH. exact IH.
    + specialize (IH acc Hacc). destruct (best_le l size acc) as [b|].
      * destruct IH as (Hin & Hble & Hmax). destruct acc as [a|]; cbn [cand] in *.
        -- split; [destruct Hin; [now left|right; now right]|]. split; [assumption|].
           intros y [<-|[<-|Hy]] Hyle; [apply Hmax; [now left|assumption]|lia|apply Hmax; [now right|assumption]].
        -- split; [now right|]. split; [assumption|]. intros y [<-|Hy] Hyle; [lia|now apply Hmax].
      * destruct acc as [a|]; cbn [cand] in *.
        -- intros y [<-|[<-|Hy]]; [apply IH; now left|lia|apply IH; now right].
        -- intros y [<-|Hy]; [lia|now apply IH].
Qed.

Lemma min_key_spec : forall l acc,
  match min_key l acc with
  | Some x => is_min (cand acc l) x
  | None => cand acc l = []
  end.
Proof.
  induction l as [|x l IH]; intros acc; cbn [min_key].
  - destruct acc as [a|]; cbn [cand]; [|reflexivity]. split; [now left|]. intros y [<-|[]]. lia.
  - destruct acc as [a|]; cbn [cand].
    + destruct (Z.ltb_spec (fst x) (fst a)) as [Hlt|Hge].
      * specialize (IH (Some x)). cbn [cand] in IH. destruct (min_key l (Some x)) as [b|]; [|discriminate].
        destruct IH as (Hin & Hmin). split; [destruct Hin; [right; now left|right; now right]|].
        intros y [<-|[<-|Hy]].
        -- specialize (Hmin x (or_introl eq_refl)). lia.
        -- apply Hmin. now left.
        -- apply Hmin. now right.
      * specialize (IH (Some a)). cbn [cand] in IH. destruct (min_key l (Some a)) as [b|]; [|discriminate].
        destruct IH as (Hin & Hmin). split; [destruct Hin; [now left|right; now right]|].
        intros y [<-|[<-|Hy]].
        -- apply Hmin. now left.
        -- specialize (Hmin a (or_introl eq_refl)). lia.
        -- apply Hmin. now right.
    + specialize (IH (Some x)). cbn [cand] in IH. exact IH.
Qed.

Theorem lookup_spec_correct l size : NoDup (keys l) -> l <> [] ->
  lookup_spec l size = Some (plconfig_get (sort_ranges l) size).
Proof.
  intros Hnd Hne. destruct (table_lookup l size Hnd Hne) as [Hb Hn]. unfold lookup_spec.
  pose proof (best_le_spec size l None ltac:(discriminate)) as Hbs. cbn [cand] in Hbs.
  destruct (best_le l size None) as [x|].
  - now rewrite (Hb x Hbs).
  - pose proof (min_key_spec l None) as Hms. cbn [cand] in Hms.
    destruct (min_key l None) as [x|]; [|congruence]. now rewrite (Hn Hbs x Hms).
Qed.

(* ------------------------------------------------------------------ newPieceLengthConfig *)
Lemma plconfig_new_spec tbl : tbl <> [] -> plconfig_new tbl = Some (sort_ranges (conv_tbl tbl)).
Proof. destruct tbl; [congruence|reflexivity]. Qed.

Lemma plconfig_new_empty : plconfig_new [] = None.
Proof. reflexivity. Qed.

Lemma conv_tbl_nil tbl : conv_tbl tbl = [] <-> tbl = [].
Proof. destruct tbl; cbn; split; congruence. Qed.

(* map keys are distinct uint64 values, hence distinct after conversion to int64 *)
Lemma to_i64_inj a b : (a < 18446744073709551616)%N -> (b < 18446744073709551616)%N ->
  to_i64 a = to_i64 b -> a = b.
Proof.
  unfold to_i64. intros Ha Hb.
  destruct (N.ltb_spec a 9223372036854775808), (N.ltb_spec b 9223372036854775808); lia.
Qed.

Lemma conv_keys_nodup tbl :
  Forall (fun p => (fst p < 18446744073709551616)%N) tbl -> NoDup (map fst tbl) -> NoDup (keys (conv_tbl tbl)).
Proof.
  unfold keys, conv_tbl. induction tbl as [|p tbl IH]; intros Hr Hnd; cbn [map]; [constructor|].
  inversion Hr as [|? ? Hp Hr']; subst. cbn [map] in Hnd. inversion Hnd as [|? ? Hnotin Hnd']; subst.
  constructor; [|now apply IH]. cbn [fst]. intros Hin. apply Hnotin.
  rewrite map_map in Hin. cbn [fst] in Hin. apply in_map_iff in Hin. destruct Hin as (q & E & Hq).
  rewrite Forall_forall in Hr'. apply to_i64_inj in E; [|now apply Hr'|assumption].
  rewrite <- E. now apply in_map.
Qed.

(* boolean form used by the oracle *)
Lemma nodupb_sound l : nodupb l = true -> NoDup l.
Proof.
  induction l as [|x l IH]; intros H; [constructor|]. cbn [nodupb] in H.
  apply andb_true_iff in H. destruct H as [H1 H2]. constructor; [|now apply IH].
  intros Hin. apply negb_true_iff in H1. assert (existsb (Z.eqb x) l = true); [|congruence].
  apply existsb_exists. exists x. split; [assumption|apply Z.eqb_refl].
Qed.

(* the order in which Go's map iteration delivers the table is irrelevant *)
Theorem get_perm l l' size : Permutation l l' -> NoDup (keys l) -> l <> [] ->
  plconfig_get (sort_ranges l) size = plconfig_get (sort_ranges l') size.
Proof.
  intros Hp Hnd Hne.
  assert (Hnd' : NoDup (keys l')).
  { unfold keys. eapply Permutation_NoDup; [|exact Hnd]. now apply Permutation_map. }
  assert (Hne' : l' <> []). { intros ->. apply Permutation_sym, Permutation_nil in Hp. congruence. }
  assert (Hin : forall y, In y l <-> In y l').
  { intros y. split; apply Permutation_in; [assumption|now symmetry]. }
  destruct (table_lookup l size Hnd Hne) as [Hb Hn].
  destruct (table_lookup l' size Hnd' Hne') as [Hb' Hn'].
  destruct (none_le_dec l size) as [Hnone|Hex].
  - destruct (min_exists l Hne) as (x & Hx). rewrite (Hn Hnone x Hx). symmetry. apply Hn'.
    + intros y Hy. apply Hnone. now apply Hin.
    + destruct Hx as (Hxin & Hxmin). split; [now apply Hin|]. intros y Hy. apply Hxmin. now apply Hin.
  - destruct (best_exists l size Hex) as (x & Hx). rewrite (Hb x Hx). symmetry. apply Hb'.
    eapply is_best_perm; [|exact Hx]. assumption.
Qed.
