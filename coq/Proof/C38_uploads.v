(* C38: the _uploads patterns on built paths. *)
From Coq Require Import List NArith Arith Bool Lia.
From K.Gen Require Import C38_consts.
From K.Model Require Import C38.
From K.Proof Require Import C38_engine C38_segs C38_tac.
Import ListNotations.
Local Open Scope N_scope.

Definition up_tail := NGrp (Alt (Seq (Lit s_data) Eol) (Alt (Seq (Lit s_startedat) Eol) hs_tail)).
Lemma D_uuid pre u tail : pre <> [] -> nonl pre = true -> u <> [] -> forallb (cs_in cs_noslash) u = true ->
  D up_tail tail [] [] ->
  D ast_get_upload_uuid (pre ++ sls s_uploads ++ u ++ [SL] ++ tail) [] [u].
Proof. intros. unf_ast_goal. dI'. Qed.

Lemma D_hs_tail a : a <> [] -> forallb (cs_in cs_alnum) a = true -> D hs_tail ((s_hashstates ++ [SL]) ++ a ++ [] ++ []) [] [].
Proof. intros. unf_ast_goal. dI'. apply D_opt_none. reflexivity. Qed.
Lemma D_hs_tail_off a o : a <> [] -> forallb (cs_in cs_alnum) a = true -> o <> [] -> forallb (cs_in cs_digit) o = true ->
  D hs_tail ((s_hashstates ++ [SL]) ++ a ++ ([SL] ++ o) ++ []) [] [].
Proof. intros. unf_ast_goal. dI'. apply D_opt_some. dI'. reflexivity. Qed.

Lemma build_hashstates r u a :
  build (KUploadHashStates r u a) = repo_dir r ++ sls s_uploads ++ u ++ [SL] ++ ((s_hashstates ++ [SL]) ++ a ++ [] ++ []).
Proof. cbn [build sls app]. rewrite <- !app_assoc, ?app_nil_r. reflexivity. Qed.
Lemma build_hashstate r u a o :
  build (KUploadHashState r u a o) = repo_dir r ++ sls s_uploads ++ u ++ [SL] ++ ((s_hashstates ++ [SL]) ++ a ++ ([SL] ++ o) ++ []).
Proof. cbn [build sls app]. rewrite <- !app_assoc, ?app_nil_r. reflexivity. Qed.

(* ---- GetUploadUUID ---- *)
Lemma uuid_data r u : repo_ok r = true -> uuid_ok u = true -> exec ast_get_upload_uuid (build (KUploadData r u)) = Some [u].
Proof.
  intros Hr Hu. by_unique.
  - destruct (uuid_ok_facts u Hu) as (? & ? & ? & ?).
    change (build (KUploadData r u)) with (repo_dir r ++ sls s_uploads ++ u ++ [SL] ++ (s_data ++ [])).
    apply D_uuid; auto using repo_dir_nonnil, repo_dir_nonl. apply D_alt_l. apply D_lit_eol.
  - uniq.
Qed.
Lemma uuid_startedat r u : repo_ok r = true -> uuid_ok u = true -> exec ast_get_upload_uuid (build (KUploadStartedAt r u)) = Some [u].
Proof.
  intros Hr Hu. by_unique.
  - destruct (uuid_ok_facts u Hu) as (? & ? & ? & ?).
    change (build (KUploadStartedAt r u)) with (repo_dir r ++ sls s_uploads ++ u ++ [SL] ++ (s_startedat ++ [])).
    apply D_uuid; auto using repo_dir_nonnil, repo_dir_nonl. right. apply D_alt_l. apply D_lit_eol.
  - uniq.
Qed.
Lemma uuid_hashstates r u a : repo_ok r = true -> uuid_ok u = true -> valid_algo a = true ->
  exec ast_get_upload_uuid (build (KUploadHashStates r u a)) = Some [u].
Proof.
  intros Hr Hu Ha. by_unique.
  - destruct (uuid_ok_facts u Hu) as (? & ? & ? & ?). destruct (valid_algo_cls a Ha).
    rewrite build_hashstates. apply D_uuid; auto using repo_dir_nonnil, repo_dir_nonl. apply D_alt_r. apply D_alt_r. apply D_hs_tail; auto.
  - uniq.
Qed.
Lemma uuid_hashstate r u a o : repo_ok r = true -> uuid_ok u = true -> valid_algo a = true -> valid_offset o = true ->
  exec ast_get_upload_uuid (build (KUploadHashState r u a o)) = Some [u].
Proof.
  intros Hr Hu Ha Ho. by_unique.
  - destruct (uuid_ok_facts u Hu) as (? & ? & ? & ?). destruct (valid_algo_cls a Ha). destruct (valid_offset_cls o Ho).
    rewrite build_hashstate. apply D_uuid; auto using repo_dir_nonnil, repo_dir_nonl. apply D_alt_r. apply D_alt_r. apply D_hs_tail_off; auto.
  - uniq.
Qed.

(* ---- GetUploadAlgoAndOffset ---- *)
Lemma algo_hashstate r u a o : repo_ok r = true -> uuid_ok u = true -> valid_algo a = true -> valid_offset o = true ->
  exec ast_get_upload_algo_offset (build (KUploadHashState r u a o)) = Some [a; o].
Proof.
  intros Hr Hu Ha Ho. by_unique.
  - destruct (uuid_ok_facts u Hu) as (? & ? & ? & ?). destruct (valid_algo_cls a Ha). destruct (valid_offset_cls o Ho).
    replace (build (KUploadHashState r u a o)) with (repo_dir r ++ sls s_uploads ++ u ++ sls s_hashstates ++ a ++ [SL] ++ o ++ []).
    2:{ cbn [build sls app]. rewrite <- !app_assoc, ?app_nil_r. reflexivity. }
    unf_ast_goal. dI'; auto using repo_dir_nonnil. apply repo_dir_nonl; auto.
  - uniq.
Qed.

(* ---- matchUploadsPath ---- *)
Definition mu_alt := Alt (Seq (Lit s_data) Eol) (Alt (Seq (Lit s_startedat) Eol) (Lit s_hashstates)).
Lemma D_mu pre u tail rest c : pre <> [] -> nonl pre = true -> u <> [] -> forallb (cs_in cs_noslash) u = true ->
  D mu_alt tail rest c ->
  D ast_match_uploads (pre ++ sls s_uploads ++ u ++ [SL] ++ tail) rest (c ++ [tail]).
Proof. intros. unf_ast_goal. dI'. Qed.

Lemma mu_data r u : repo_ok r = true -> uuid_ok u = true -> exec ast_match_uploads (build (KUploadData r u)) = Some [s_data].
Proof.
  intros Hr Hu. by_unique.
  - destruct (uuid_ok_facts u Hu) as (? & ? & ? & ?).
    change (build (KUploadData r u)) with (repo_dir r ++ sls s_uploads ++ u ++ [SL] ++ (s_data ++ [])).
    apply (D_mu _ _ _ _ []); auto using repo_dir_nonnil, repo_dir_nonl. apply D_alt_l; apply D_lit_eol.
  - uniq_scan.
Qed.
Lemma mu_startedat r u : repo_ok r = true -> uuid_ok u = true -> exec ast_match_uploads (build (KUploadStartedAt r u)) = Some [s_startedat].
Proof.
  intros Hr Hu. by_unique.
  - destruct (uuid_ok_facts u Hu) as (? & ? & ? & ?).
    change (build (KUploadStartedAt r u)) with (repo_dir r ++ sls s_uploads ++ u ++ [SL] ++ (s_startedat ++ [])).
    apply (D_mu _ _ _ _ []); auto using repo_dir_nonnil, repo_dir_nonl. apply D_alt_r; apply D_alt_l; apply D_lit_eol.
  - uniq_scan.
Qed.
Lemma mu_hashstates_any r u rest : repo_ok r = true -> uuid_ok u = true ->
  exec ast_match_uploads (repo_dir r ++ sls s_uploads ++ u ++ sls s_hashstates ++ rest) <> None.
Proof.
  intros Hr Hu. destruct (uuid_ok_facts u Hu) as (? & ? & ? & ?).
  replace (repo_dir r ++ sls s_uploads ++ u ++ sls s_hashstates ++ rest)
    with ((repo_dir r ++ sls s_uploads ++ u ++ [SL] ++ s_hashstates) ++ (SL :: rest)).
  2:{ unfold sls. repeat (progress (rewrite <- ?app_assoc; cbn [app])). reflexivity. }
  eapply exec_complete. apply (D_mu _ _ _ _ []); auto using repo_dir_nonnil, repo_dir_nonl.
  apply D_alt_r; apply D_alt_r; apply D_lit.
Qed.

Ltac by_unique_rest s1' s2' :=
  lazymatch goal with |- exec ?r ?p = Some ?c0 =>
    apply (exec_unique r p s1' s2' c0) end.
Lemma split_hashstates r u rest :
  repo_dir r ++ sls s_uploads ++ u ++ sls s_hashstates ++ rest
  = (repo_dir r ++ sls s_uploads ++ u ++ [SL] ++ s_hashstates) ++ (SL :: rest).
Proof. unfold sls. repeat (progress (rewrite <- ?app_assoc; cbn [app])). reflexivity. Qed.

Lemma mu_hashstates r u a : repo_ok r = true -> uuid_ok u = true -> valid_algo a = true ->
  exec ast_match_uploads (build (KUploadHashStates r u a)) = Some [s_hashstates].
Proof.
  intros Hr Hu Ha.
  by_unique_rest (repo_dir r ++ sls s_uploads ++ u ++ [SL] ++ s_hashstates) (SL :: a).
  - apply split_hashstates.
  - destruct (uuid_ok_facts u Hu) as (? & ? & ? & ?).
    apply (D_mu _ _ _ _ []); auto using repo_dir_nonnil, repo_dir_nonl. apply D_alt_r; apply D_alt_r; apply D_lit.
  - uniq_scan.
Qed.
Lemma mu_hashstate r u a o : repo_ok r = true -> uuid_ok u = true -> valid_algo a = true -> valid_offset o = true ->
  exec ast_match_uploads (build (KUploadHashState r u a o)) = Some [s_hashstates].
Proof.
  intros Hr Hu Ha Ho.
  by_unique_rest (repo_dir r ++ sls s_uploads ++ u ++ [SL] ++ s_hashstates) (SL :: a ++ SL :: o).
  - apply split_hashstates.
  - destruct (uuid_ok_facts u Hu) as (? & ? & ? & ?).
    apply (D_mu _ _ _ _ []); auto using repo_dir_nonnil, repo_dir_nonl. apply D_alt_r; apply D_alt_r; apply D_lit.
  - uniq_scan.
Qed.

Lemma D_muh pre u tail : pre <> [] -> nonl pre = true -> u <> [] -> forallb (cs_in cs_noslash) u = true ->
  D hs_tail tail [] [] ->
  D ast_match_uploads_hashstates (pre ++ sls s_uploads ++ u ++ [SL] ++ tail) [] [].
Proof. intros. unfold ast_match_uploads_hashstates, seqs, L, dots, noslash. dI'. Qed.
Lemma muh_hashstates r u a : repo_ok r = true -> uuid_ok u = true -> valid_algo a = true ->
  exec ast_match_uploads_hashstates (build (KUploadHashStates r u a)) <> None.
Proof.
  intros Hr Hu Ha. destruct (uuid_ok_facts u Hu) as (? & ? & ? & ?). destruct (valid_algo_cls a Ha).
  rewrite build_hashstates. rewrite <- (app_nil_r (repo_dir r ++ _)). eapply exec_complete.
  apply D_muh; auto using repo_dir_nonnil, repo_dir_nonl. apply D_hs_tail; auto.
Qed.
Lemma muh_hashstate r u a o : repo_ok r = true -> uuid_ok u = true -> valid_algo a = true -> valid_offset o = true ->
  exec ast_match_uploads_hashstates (build (KUploadHashState r u a o)) <> None.
Proof.
  intros Hr Hu Ha Ho. destruct (uuid_ok_facts u Hu) as (? & ? & ? & ?). destruct (valid_algo_cls a Ha). destruct (valid_offset_cls o Ho).
  rewrite build_hashstate. rewrite <- (app_nil_r (repo_dir r ++ _)). eapply exec_complete.
  apply D_muh; auto using repo_dir_nonnil, repo_dir_nonl. apply D_hs_tail_off; auto.
Qed.

(* the subtype strings of the model are the constants of paths.go *)
Lemma st_consts : st_data = s_data /\ st_startedat = s_startedat /\ st_hashstates = s_hashstates /\ st_link = s_link
  /\ st_tags = s_tags /\ st_revisions = s_revisions
  /\ pt_manifests = s_manifests /\ pt_uploads = s_uploads /\ pt_layers = s_layers /\ pt_blobs = s_blobs.
Proof. repeat split; reflexivity. Qed.

Lemma match_uploads_data r u : repo_ok r = true -> uuid_ok u = true -> match_uploads (build (KUploadData r u)) = Some st_data.
Proof. intros. unfold match_uploads. rewrite mu_data by auto. reflexivity. Qed.
Lemma match_uploads_startedat r u : repo_ok r = true -> uuid_ok u = true -> match_uploads (build (KUploadStartedAt r u)) = Some st_startedat.
Proof. intros. unfold match_uploads. rewrite mu_startedat by auto. reflexivity. Qed.
Lemma match_uploads_hashstates r u a : repo_ok r = true -> uuid_ok u = true -> valid_algo a = true ->
  match_uploads (build (KUploadHashStates r u a)) = Some st_hashstates.
Proof.
  intros. unfold match_uploads. rewrite mu_hashstates by auto. cbn [first_cap]. change (str_eqb s_hashstates st_hashstates) with true. cbv iota.
  pose proof (muh_hashstates r u a) as X. destruct (exec ast_match_uploads_hashstates _); [reflexivity|]. exfalso; apply X; auto.
Qed.
Lemma match_uploads_hashstate r u a o : repo_ok r = true -> uuid_ok u = true -> valid_algo a = true -> valid_offset o = true ->
  match_uploads (build (KUploadHashState r u a o)) = Some st_hashstates.
Proof.
  intros. unfold match_uploads. rewrite mu_hashstate by auto. cbn [first_cap]. change (str_eqb s_hashstates st_hashstates) with true. cbv iota.
  pose proof (muh_hashstate r u a o) as X. destruct (exec ast_match_uploads_hashstates _); [reflexivity|]. exfalso; apply X; auto.
Qed.

(* ---- matchManifestsPath rejects upload paths ---- *)
Ltac none_scan := apply exec_none;
  let t1 := fresh "t1" in let t2 := fresh "t2" in let c' := fresh "c'" in
  let Hp := fresh "Hp" in let HD := fresh "HD" in
  intros t1 t2 c' Hp HD; dD HD; subst; facts; to_segs Hp; cbn [app] in Hp;
  (eapply kw_scan_root in Hp; [|reflexivity|assumption]); scan_suffix Hp; finish2.

Lemma mm_upload_data r u : repo_ok r = true -> uuid_ok u = true -> exec ast_match_manifests (build (KUploadData r u)) = None.
Proof. intros Hr Hu. none_scan. Qed.
Lemma mm_upload_startedat r u : repo_ok r = true -> uuid_ok u = true -> exec ast_match_manifests (build (KUploadStartedAt r u)) = None.
Proof. intros Hr Hu. none_scan. Qed.
Lemma mm_upload_hashstates r u a : repo_ok r = true -> uuid_ok u = true -> valid_algo a = true -> exec ast_match_manifests (build (KUploadHashStates r u a)) = None.
Proof. intros Hr Hu Ha. none_scan. Qed.
Lemma mm_upload_hashstate r u a o : repo_ok r = true -> uuid_ok u = true -> valid_algo a = true -> valid_offset o = true ->
  exec ast_match_manifests (build (KUploadHashState r u a o)) = None.
Proof. intros Hr Hu Ha Ho. none_scan. Qed.
