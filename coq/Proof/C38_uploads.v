(* C38: the _uploads patterns on built paths. *)
From Coq Require Import List NArith Arith Bool Lia.
From K.Gen Require Import C38_consts.
From K.Model Require Import C38.
From K.Proof Require Import C38_engine C38_segs C38_tac.
Import ListNotations.
Local Open Scope N_scope.

Definition up_tail := NGrp (Alt (Seq (Lit s_data) Eol) (Alt (Seq (Lit s_startedat) Eol) hs_tail)).
Lemma D_uuid pre u tail : pre <> [] -> nonl pre = true -> u <> [] -> forallb (cs_in cs_noslash) u = true ->
  D up_tail tail [] [] ->
  D ast_get_upload_uuid (pre ++ sls s_uploads ++ u ++ [SL] ++ tail) [] [u].
Proof. intros. unf_ast_goal. dI'. Qed.

Lemma D_hs_tail a : a <> [] -> forallb (cs_in cs_alnum) a = true -> D hs_tail ((s_hashstates ++ [SL]) ++ a ++ [] ++ []) [] [].
Proof. intros. unf_ast_goal. dI'. cbn [D]. right. split; reflexivity. reflexivity. Qed.
Lemma D_hs_tail_off a o : a <> [] -> forallb (cs_in cs_alnum) a = true -> o <> [] -> forallb (cs_in cs_digit) o = true ->
  D hs_tail ((s_hashstates ++ [SL]) ++ a ++ ([SL] ++ o) ++ []) [] [].
Proof. intros. unf_ast_goal. dI'. cbn [D]. left. dI'. reflexivity. Qed.

Lemma build_hashstates r u a :
  build (KUploadHashStates r u a) = repo_dir r ++ sls s_uploads ++ u ++ [SL] ++ ((s_hashstates ++ [SL]) ++ a ++ [] ++ []).
Proof. cbn [build sls app]. rewrite <- !app_assoc, ?app_nil_r. reflexivity. Qed.
Lemma build_hashstate r u a o :
  build (KUploadHashState r u a o) = repo_dir r ++ sls s_uploads ++ u ++ [SL] ++ ((s_hashstates ++ [SL]) ++ a ++ ([SL] ++ o) ++ []).
Proof. cbn [build sls app]. rewrite <- !app_assoc, ?app_nil_r. reflexivity. Qed.

(* ---- GetUploadUUID ---- *)
Lemma uuid_data r u : repo_ok r = true -> uuid_ok u = true -> exec ast_get_upload_uuid (build (KUploadData r u)) = Some [u].
Proof.
  intros Hr Hu. by_unique.
  - destruct (uuid_ok_facts u Hu) as (? & ? & ? & ?).
    change (build (KUploadData r u)) with (repo_dir r ++ sls s_uploads ++ u ++ [SL] ++ (s_data ++ [])).
    apply D_uuid; auto using repo_dir_nonnil, repo_dir_nonl. left. apply D_lit_eol.
  - uniq.
Qed.
Lemma uuid_startedat r u : repo_ok r = true -> uuid_ok u = true -> exec ast_get_upload_uuid (build (KUploadStartedAt r u)) = Some [u].
Proof.
  intros Hr Hu. by_unique.
  - destruct (uuid_ok_facts u Hu) as (? & ? & ? & ?).
    change (build (KUploadStartedAt r u)) with (repo_dir r ++ sls s_uploads ++ u ++ [SL] ++ (s_startedat ++ [])).
    apply D_uuid; auto using repo_dir_nonnil, repo_dir_nonl. right. left. apply D_lit_eol.
  - uniq.
Qed.
Lemma uuid_hashstates r u a : repo_ok r = true -> uuid_ok u = true -> valid_algo a = true ->
  exec ast_get_upload_uuid (build (KUploadHashStates r u a)) = Some [u].
Proof.
  intros Hr Hu Ha. by_unique.
  - destruct (uuid_ok_facts u Hu) as (? & ? & ? & ?). destruct (valid_algo_cls a Ha).
    rewrite build_hashstates. apply D_uuid; auto using repo_dir_nonnil, repo_dir_nonl. right. right. apply D_hs_tail; auto.
  - uniq.
Qed.
Lemma uuid_hashstate r u a o : repo_ok r = true -> uuid_ok u = true -> valid_algo a = true -> valid_offset o = true ->
  exec ast_get_upload_uuid (build (KUploadHashState r u a o)) = Some [u].
Proof.
  intros Hr Hu Ha Ho. by_unique.
  - destruct (uuid_ok_facts u Hu) as (? & ? & ? & ?). destruct (valid_algo_cls a Ha). destruct (valid_offset_cls o Ho).
    rewrite build_hashstate. apply D_uuid; auto using repo_dir_nonnil, repo_dir_nonl. right. right. apply D_hs_tail_off; auto.
  - uniq.
Qed.

(* ---- GetUploadAlgoAndOffset ---- *)
Lemma algo_hashstate r u a o : repo_ok r = true -> uuid_ok u = true -> valid_algo a = true -> valid_offset o = true ->
  exec ast_get_upload_algo_offset (build (KUploadHashState r u a o)) = Some [a; o].
Proof.
  intros Hr Hu Ha Ho. by_unique.
  - destruct (uuid_ok_facts u Hu) as (? & ? & ? & ?). destruct (valid_algo_cls a Ha). destruct (valid_offset_cls o Ho).
    replace (build (KUploadHashState r u a o)) with (repo_dir r ++ sls s_uploads ++ u ++ sls s_hashstates ++ a ++ [SL] ++ o ++ []).
    2:{ cbn [build sls app]. rewrite <- !app_assoc, ?app_nil_r. reflexivity. }
    unf_ast_goal. dI'; auto using repo_dir_nonnil. apply repo_dir_nonl; auto.
  - uniq.
Qed.

(* ---- matchUploadsPath ---- *)
Definition mu_alt := Grp (Alt (Seq (Lit s_data) Eol) (Alt (Seq (Lit s_startedat) Eol) (Lit s_hashstates))).
Lemma D_mu pre u tail rest c : pre <> [] -> nonl pre = true -> u <> [] -> forallb (cs_in cs_noslash) u = true ->
  D mu_alt tail rest c ->
  D ast_match_uploads (pre ++ sls s_uploads ++ u ++ [SL] ++ tail) rest c.
Proof. intros. unf_ast_goal. dI'. Qed.

Lemma mu_data r u : repo_ok r = true -> uuid_ok u = true -> exec ast_match_uploads (build (KUploadData r u)) = Some [s_data].
Proof.
  intros Hr Hu. by_unique.
  - destruct (uuid_ok_facts u Hu) as (? & ? & ? & ?).
    change (build (KUploadData r u)) with (repo_dir r ++ sls s_uploads ++ u ++ [SL] ++ (s_data ++ [])).
    apply D_mu; auto using repo_dir_nonnil, repo_dir_nonl. eapply D_grp; [left; apply D_lit_eol|reflexivity].
  - uniq_scan.
Qed.
Lemma mu_startedat r u : repo_ok r = true -> uuid_ok u = true -> exec ast_match_uploads (build (KUploadStartedAt r u)) = Some [s_startedat].
Proof.
  intros Hr Hu. by_unique.
  - destruct (uuid_ok_facts u Hu) as (? & ? & ? & ?).
    change (build (KUploadStartedAt r u)) with (repo_dir r ++ sls s_uploads ++ u ++ [SL] ++ (s_startedat ++ [])).
    apply D_mu; auto using repo_dir_nonnil, repo_dir_nonl. eapply D_grp; [right; left; apply D_lit_eol|reflexivity].
  - uniq_scan.
Qed.
Lemma mu_hashstates_any r u rest : repo_ok r = true -> uuid_ok u = true -> valid_algo (hd [] (segs rest)) = true \/ True ->
  exec ast_match_uploads (repo_dir r ++ sls s_uploads ++ u ++ sls s_hashstates ++ rest) <> None.
Proof.
  intros Hr Hu _. destruct (uuid_ok_facts u Hu) as (? & ? & ? & ?).
  replace (repo_dir r ++ sls s_uploads ++ u ++ sls s_hashstates ++ rest)
    with ((repo_dir r ++ sls s_uploads ++ u ++ [SL] ++ s_hashstates) ++ (SL :: rest)).
  2:{ cbn [sls app]. rewrite <- !app_assoc. cbn [app]. reflexivity. }
  eapply exec_complete. apply D_mu; auto using repo_dir_nonnil, repo_dir_nonl.
  eapply D_grp; [right; right; apply D_lit|reflexivity].
Qed.
