(* C39: handshaker.go — handshake <-> p2p bitfield message *)
From Coq Require Import List NArith ZArith Bool Lia ZifyBool ZifyN ZifyNat.
From K.Model Require Import C39.
From K.Proof Require Import C39_hex C39_digest C39_bits.
Import ListNotations.
Local Open Scope N_scope.

Definition rbm_bytes (l : list (list N * list N)) : bool := forallb (fun kv => forallb is_byte (snd kv)) l.
Definition msg_bytes (m : hmsg) : bool := forallb is_byte (m_bits m) && rbm_bytes (m_rb m).

Lemma rb_parse_cons : forall k v t,
  rb_parse ((k, v) :: t) =
  match peerid_parse k, bitset_parse v, rb_parse t with
  | Ok p, Ok b, Ok r => Ok ((p, b) :: r)
  | _, _, _ => Err
  end.
Proof. reflexivity. Qed.

Lemma rb_roundtrip : forall l, rb_wfb l = true ->
  rb_parse (map (fun pb => (peerid_print (fst pb), bitset_print (snd pb))) l) = Ok l.
Proof.
  induction l as [|[p b] l IH]; intro H; [reflexivity|].
  unfold rb_wfb in H. cbn [forallb fst snd] in H. apply andb_true_iff in H. destruct H as [H Hl].
  apply andb_true_iff in H. destruct H as [Hp Hb].
  cbn [map fst snd]. rewrite rb_parse_cons.
  rewrite peerid_roundtrip by assumption. rewrite bitset_roundtrip by assumption. rewrite IH by exact Hl. reflexivity.
Qed.

(* every handshake is turned into a message that is read back as the same handshake *)
Theorem hs_roundtrip : forall h, hs_wfb h = true -> hs_parse true (Some (hs_print h)) = Ok h.
Proof.
  intros [p d ih b rb ns] H. unfold hs_wfb in H. cbn [h_peer h_dig h_ih h_bits h_rb] in H.
  do 4 (apply andb_true_iff in H; destruct H as [H ?]).
  unfold hs_parse, hs_print.
  cbn [negb m_peer m_name m_ih m_bits m_rb m_ns h_peer h_dig h_ih h_bits h_rb h_ns].
  rewrite peerid_roundtrip by assumption. rewrite infohash_roundtrip by assumption.
  rewrite digest_hex_roundtrip by assumption. rewrite bitset_roundtrip by assumption.
  rewrite rb_roundtrip by assumption. reflexivity.
Qed.

Lemma rb_accepts : forall l,
  (exists r, rb_parse l = Ok r) <->
  forallb (fun kv => id_text_wfb 40 (fst kv) && input_wfb CBits (snd kv)) l = true.
Proof.
  induction l as [|[k v] l IH]; [split; [reflexivity|eexists; reflexivity]|].
  rewrite rb_parse_cons. cbn [forallb fst snd]. rewrite !andb_true_iff.
  rewrite <- peerid_accepts, <- bitset_accepts, <- IH.
  destruct (peerid_parse k) as [p| |]; destruct (bitset_parse v) as [b| |]; destruct (rb_parse l) as [r| |];
    split; try (intros [x Hx]; discriminate); try (intros [[[x Hx] [y Hy]] [z Hz]]; discriminate); eauto.
  intros _. repeat split; eauto.
Qed.

Lemma rb_parse_sound : forall l r, rbm_bytes l = true -> rb_parse l = Ok r -> rb_wfb r = true.
Proof.
  induction l as [|[k v] l IH]; intros r B H.
  - inversion H. reflexivity.
  - rewrite rb_parse_cons in H. cbn [rbm_bytes forallb snd] in B. apply andb_true_iff in B. destruct B as [Bv Bl].
    destruct (peerid_parse k) as [p| |] eqn:P; try discriminate.
    destruct (bitset_parse v) as [b| |] eqn:V; try discriminate.
    destruct (rb_parse l) as [r'| |] eqn:R; try discriminate.
    inversion H; subst. unfold rb_wfb. cbn [forallb fst snd].
    rewrite (proj1 (peerid_parse_sound _ _ P)), (proj1 (bitset_parse_sound _ _ Bv V)).
    apply (IH _ Bl eq_refl).
Qed.

(* accepted <-> a bitfield message whose identifiers and bit sets are well-formed texts *)
Theorem hs_accepts : forall isb body,
  (exists h, hs_parse isb body = Ok h) <->
  (isb = true /\ exists m, body = Some m /\ hmsg_text_wfb m = true).
Proof.
  intros isb body. unfold hs_parse. destruct isb; cbn [negb].
  2:{ split; [intros [h H]; discriminate|intros [H _]; discriminate]. }
  destruct body as [m|].
  2:{ split; [intros [h H]; discriminate|intros [_ [m [H _]]]; discriminate]. }
  pose proof (peerid_accepts (m_peer m)) as A1. pose proof (infohash_accepts (m_ih m)) as A2.
  pose proof (bitset_accepts (m_bits m)) as A4. pose proof (rb_accepts (m_rb m)) as A5.
  assert (A3 : (exists d, digest_from_hex (m_name m) = Ok d) <-> id_text_wfb 64 (m_name m) = true).
  { split; [intros [d H]; apply digest_from_hex_iff in H; tauto|].
    intro H. eexists. apply digest_from_hex_iff. split; [exact H|reflexivity]. }
  split.
  - intros [h H]. split; [reflexivity|]. exists m. split; [reflexivity|].
    destruct (peerid_parse (m_peer m)) as [p| |]; try discriminate.
    destruct (infohash_parse (m_ih m)) as [ih| |]; try discriminate.
    destruct (digest_from_hex (m_name m)) as [d| |]; try discriminate.
    destruct (bitset_parse (m_bits m)) as [b| |]; try discriminate.
    destruct (rb_parse (m_rb m)) as [rb| |]; try discriminate.
    unfold hmsg_text_wfb. rewrite !andb_true_iff.
    repeat split; [apply A1|apply A2|apply A3|apply A4|apply A5]; eauto.
  - intros [_ [m' [E W]]]. inversion E; subst m'. unfold hmsg_text_wfb in W. rewrite !andb_true_iff in W.
    destruct W as [[[[W1 W2] W3] W4] W5].
    apply A1 in W1. apply A2 in W2. apply A3 in W3. apply A4 in W4. apply A5 in W5.
    destruct W1 as [p W1]. destruct W2 as [ih W2]. destruct W3 as [d W3]. destruct W4 as [b W4]. destruct W5 as [rb W5].
    rewrite W1, W2, W3, W4, W5. eauto.
Qed.

(* what is accepted is a well-formed handshake *)
Theorem hs_parse_sound : forall isb m h, msg_bytes m = true -> hs_parse isb (Some m) = Ok h -> hs_wfb h = true.
Proof.
  intros isb m h B H. unfold hs_parse in H. destruct isb; cbn [negb] in H; [|discriminate].
  unfold msg_bytes in B. apply andb_true_iff in B. destruct B as [Bb Br].
  destruct (peerid_parse (m_peer m)) as [p| |] eqn:P; try discriminate.
  destruct (infohash_parse (m_ih m)) as [ih| |] eqn:I; try discriminate.
  destruct (digest_from_hex (m_name m)) as [d| |] eqn:D; try discriminate.
  destruct (bitset_parse (m_bits m)) as [b| |] eqn:V; try discriminate.
  destruct (rb_parse (m_rb m)) as [rb| |] eqn:R; try discriminate.
  inversion H; subst. unfold hs_wfb. cbn [h_peer h_dig h_ih h_bits h_rb].
  rewrite (proj1 (peerid_parse_sound _ _ P)), (proj1 (infohash_parse_sound _ _ I)),
          (proj1 (digest_from_hex_wf _ _ D)), (proj1 (bitset_parse_sound _ _ Bb V)), (rb_parse_sound _ _ Br R).
  reflexivity.
Qed.

Theorem hs_parse_print : forall isb m h, msg_bytes m = true -> hs_parse isb (Some m) = Ok h ->
  hs_parse true (Some (hs_print h)) = Ok h.
Proof. intros isb m h B H. apply hs_roundtrip. apply (hs_parse_sound _ _ _ B H). Qed.

(* the message printed for a handshake consists of bytes (so that the theorems above apply to it) *)
Lemma hs_print_bytes : forall h, msg_bytes (hs_print h) = true.
Proof.
  intro h. unfold msg_bytes, hs_print. cbn [m_bits m_rb]. apply andb_true_iff. split.
  - apply forallb_is_byte. apply bitset_print_bytes.
  - unfold rbm_bytes. induction (h_rb h) as [|[p b] l IH]; [reflexivity|].
    cbn [map forallb snd]. rewrite IH, andb_true_r. apply forallb_is_byte. apply bitset_print_bytes.
Qed.

(* distinct peer ids become distinct map keys *)
Theorem hs_print_keys_distinct : forall p q, id20_wfb p = true -> id20_wfb q = true ->
  peerid_print p = peerid_print q -> p = q.
Proof.
  intros p q Hp Hq E. unfold id20_wfb in *. apply andb_true_iff in Hp, Hq.
  destruct Hp as [_ Fp]. destruct Hq as [_ Fq]. apply forallb_is_byte in Fp, Fq.
  apply (hex_encode_inj _ _ Fp Fq E).
Qed.
