(* C03 — theorems over all interleavings (from the invariant in Proof/AgentTorrent.v), the
   rejection lemmas, soundness of the boolean oracle on the model, refutation witnesses. *)
From Coq Require Import List NArith ZArith Bool Arith Lia.
From K.Model Require Import C03.
From K.Proof Require Import AgentTorrent.
Import ListNotations.

(* ------------------------------------------------------------------ *)
(* small facts about the executable oracle *)

Lemma forall_idx_iff : forall n f, forall_idx n f = true <-> forall i, i < n -> f i = true.
Proof.
  induction n; simpl; intros f.
  - split; auto. intros _ i Hi. lia.
  - rewrite andb_true_iff, IHn. split.
    + intros [H1 H2] i Hi. destruct (Nat.eq_dec i n) as [->|]; auto. apply H1. lia.
    + intros H. split; auto.
Qed.

Lemma bytes_eqb_eq : forall a b, bytes_eqb a b = true <-> a = b.
Proof.
  induction a; destruct b; simpl; split; intros H; try discriminate; auto.
  - apply andb_prop in H as [H1 H2]. apply N.eqb_eq in H1. apply IHa in H2. congruence.
  - inversion H; subst. rewrite N.eqb_refl. simpl. apply IHa. reflexivity.
Qed.

Lemma bytes_eqb_refl : forall a, bytes_eqb a a = true.
Proof. intros. apply bytes_eqb_eq. reflexivity. Qed.

Lemma nth_map_default : forall A B (f : A -> B) l i d d', f d = d' -> nth i (map f l) d' = f (nth i l d).
Proof. intros. subst. apply map_nth. Qed.

Lemma nth_bit_bitfield : forall s i, nth_bit (bitfield s) i = pstatus_eqb (st_at s i) Complete.
Proof.
  intros. unfold nth_bit, bitfield, st_at.
  apply (nth_map_default _ _ (fun p => pstatus_eqb p Complete)). reflexivity.
Qed.

Lemma nth_status_bytes : forall s i, nth i (map status_byte (status s)) 0%N = status_byte (st_at s i).
Proof. intros. unfold st_at. apply nth_map_default. reflexivity. Qed.

Lemma nth_sidecar_view : forall sc i,
  nth i (sidecar_view sc) 0%N = if N.eqb (nth i sc 0%N) 1 then 1%N else 0%N.
Proof. intros. unfold sidecar_view. apply (nth_map_default _ _ (fun x : N => if N.eqb x 1 then 1%N else 0%N)). reflexivity. Qed.

Lemma popcount_bitfield : forall s, popcount (bitfield s) = count_st Complete (status s).
Proof.
  intros s. unfold popcount, bitfield. induction (status s); simpl; auto.
  destruct (pstatus_eqb a Complete); simpl; rewrite IHl; reflexivity.
Qed.

Lemma nth_map_seq : forall A (g : nat -> A) n i d, i < n -> nth i (map g (seq 0 n)) d = g i.
Proof.
  intros A g n i d Hi. rewrite (nth_indep _ d (g 0)) by (rewrite map_length, seq_length; auto).
  rewrite map_nth, seq_nth by auto. reflexivity.
Qed.

(* ------------------------------------------------------------------ *)
(* a rejected call never changed anything: property of the step function alone *)

Definition rejecting (r : result) : bool :=
  match r with RBadIndex | RBadLength | RComplete | RConflict => true | _ => false end.

Definition may_reject (p : pc) : bool :=
  match p with
  | PStart | PChecked _ | PNotComplete _ | PNotDirty _ => true
  | PDone r => rejecting r
  | _ => false
  end.

Lemma tstep_reject_back : forall c s w p s' p',
  tstep c s w p = (s', p') -> may_reject p' = true -> may_reject p = true /\ s' = s.
Proof.
  intros c s w p s' p' H Hr. destruct p; cbn [tstep] in H.
  - destruct ((w_idx w <? 0)%Z || (Z.of_nat (length (status s)) <=? w_idx w)%Z);
      [|destruct (w_decl w =? Z.of_nat (plen c (Z.to_nat (w_idx w))))%Z]; inversion H; subst; auto.
  - destruct (pstatus_eqb (st_at s i) Complete); inversion H; subst; auto.
  - destruct (pstatus_eqb (st_at s i) Dirty); inversion H; subst; auto.
  - destruct (st_at s i); inversion H; subst; auto. discriminate.
  - destruct (incache s); inversion H; subst; discriminate.
  - destruct rest; [destruct (w_hsum w =? psum c i)%N|]; inversion H; subst; discriminate.
  - destruct (incache s); [|destruct (i <? length (sidecar s))]; inversion H; subst; discriminate.
  - inversion H; subst; discriminate.
  - inversion H; subst; discriminate.
  - destruct (ncomp s =? length (status s)); inversion H; subst; discriminate.
  - inversion H; subst; discriminate.
  - inversion H; subst; discriminate.
  - inversion H; subst; discriminate.
  - inversion H; subst; auto.
Qed.

Lemma nth_error_upd_neq : forall A (l : list A) i j v, i <> j -> nth_error (upd i v l) j = nth_error l j.
Proof. induction l; destruct i, j; simpl; intros; auto; try lia. Qed.

Lemma nth_error_upd_eq : forall A (l : list A) i v, i < length l -> nth_error (upd i v l) i = Some v.
Proof. induction l; destruct i; simpl; intros; auto; try lia. apply IHl. lia. Qed.

Lemma pc_of_step_other : forall c S j k, j <> k -> pc_of (sys_step c S j) k = pc_of S k.
Proof.
  intros c S j k H. unfold sys_step. destruct (nth_error (s_ths S) j) eqn:E; auto.
  destruct (tstep c (s_st S) (t_in t) (t_pc t)). unfold pc_of. simpl.
  rewrite nth_error_upd_neq by auto. reflexivity.
Qed.

Lemma step_reject_back : forall c S j k, may_reject (pc_of (sys_step c S j) k) = true ->
  may_reject (pc_of S k) = true /\ (j = k -> s_st (sys_step c S j) = s_st S).
Proof.
  intros c S j k H. destruct (Nat.eq_dec j k) as [->|Hne].
  - unfold sys_step in *. destruct (nth_error (s_ths S) k) as [t|] eqn:E; [|auto].
    destruct (tstep c (s_st S) (t_in t) (t_pc t)) as [s' p'] eqn:Es.
    unfold pc_of in *. simpl in *. rewrite E.
    rewrite nth_error_upd_eq in H by (apply nth_error_Some; congruence). simpl in H.
    destruct (tstep_reject_back _ _ _ _ _ _ Es H) as [A B]. auto.
  - rewrite pc_of_step_other in H by auto. split; auto. intros; contradiction.
Qed.

Lemma run_reject_back : forall c k b S, may_reject (pc_of (run c S b) k) = true ->
  may_reject (pc_of S k) = true.
Proof.
  induction b; simpl; intros S H; auto. apply IHb in H. apply (step_reject_back c S a k H).
Qed.

Theorem reject_no_effect : forall c S a k b,
  may_reject (pc_of (run c S (a ++ k :: b)) k) = true ->
  s_st (sys_step c (run c S a) k) = s_st (run c S a).
Proof.
  intros c S a k b H. unfold run in H. rewrite fold_left_app in H. simpl in H.
  apply run_reject_back in H. apply (step_reject_back c _ k k H). reflexivity.
Qed.

(* ------------------------------------------------------------------ *)
(* macro steps are particular interleavings *)

Lemma advance_to_gate_run : forall fuel c S k,
  advance_to_gate fuel c S k = run c S (advance_sched fuel c S k).
Proof.
  induction fuel; simpl; intros; auto. destruct (gate_of (pc_of S k)); simpl; auto.
Qed.

Lemma advance_run : forall c S k, advance c S k = run c S (k :: advance_sched 8 c (sys_step c S k) k).
Proof. intros. unfold advance. rewrite advance_to_gate_run. reflexivity. Qed.

Ltac fin_simpl :=
  cbn [res_code N.eqb Pos.eqb implb orb andb negb pstatus_eqb]; rewrite ?implb_true_r; try reflexivity.

Section Sound.
Variable c : cfg.
Variable blob : list N.
Variable ws : list winput.
Hypothesis Hgeo : geometry_ok c blob = true.
Hypothesis Hg : guards c blob ws = true.

Lemma g_wf : wf_cfg c = true.
Proof. unfold geometry_ok in Hgeo. apply andb_prop in Hgeo as [H _]. exact H. Qed.

Lemma g_len : c_len c = length blob.
Proof. unfold geometry_ok in Hgeo. apply andb_prop in Hgeo as [_ H]. apply Nat.eqb_eq in H. exact H. Qed.

Lemma g_honest : forall w, In w ws -> honestP w.
Proof.
  intros w Hw. unfold guards in Hg. apply andb_prop in Hg as [H _].
  rewrite forallb_forall in H. specialize (H w Hw). unfold C03.honest in H.
  apply Z.leb_le in H. exact H.
Qed.

Lemma g_cf : forall w i, In w ws -> i < npieces c -> w_idx w = Z.of_nat i ->
  w_hsum w = psum c i -> payload w = region c blob i.
Proof.
  intros w i Hw Hi Hidx Hs. unfold guards in Hg. apply andb_prop in Hg as [_ H].
  rewrite forallb_forall in H. specialize (H w Hw). unfold cf_one in H.
  rewrite Hidx, Nat2Z.id in H.
  assert (E1 : (0 <=? Z.of_nat i)%Z = true) by (apply Z.leb_le; lia).
  assert (E2 : (Z.of_nat i <? Z.of_nat (npieces c))%Z = true) by (apply Z.ltb_lt; lia).
  rewrite E1, E2, Hs, N.eqb_refl in H. simpl in H. apply bytes_eqb_eq in H. exact H.
Qed.

Let SI := SInv c ws.

Lemma advance_inv : forall S k, SI S -> SI (advance c S k).
Proof. intros. rewrite advance_run. apply (inv_run c ws g_wf g_honest). auto. Qed.

Lemma hstep_inv : forall S h, SI S -> (h = HReopen -> idle S = true) -> SI (hstep c S h).
Proof.
  intros S h I Hh. destruct h; simpl.
  - apply advance_inv; auto.
  - rewrite (reopen_identity c ws S I (Hh eq_refl)). destruct S; exact I.
Qed.

(* every observed state satisfies the per-state oracle *)
Lemma state_ok_sound : forall S g r, SI S -> state_ok c blob (observe_gate c (s_st S) g r) = true.
Proof.
  intros S g r I. pose proof I as I'. unfold SI, SInv in I'.
  set (s := s_st S) in *.
  assert (Hbl : forall i, i < npieces c -> st_at s i = Complete -> region c (file s) i = region c blob i).
  { intros. apply (complete_is_blob c ws g_wf blob g_len g_cf S); auto. }
  assert (Hps : forall i, i < npieces c -> nth i (sidecar s) 0%N = 1%N -> region c (file s) i = region c blob i).
  { intros. apply (persisted_is_blob c ws g_wf blob g_len g_cf S); auto. }
  assert (Hca : incache s = true -> file s = blob).
  { intros E. apply (cached_is_blob c ws g_wf blob g_len g_cf S I (or_introl E)). }
  unfold state_ok. cbn [o_bits o_status o_sidecar o_file o_incache o_committed o_ncomp o_bytes observe_gate].
  rewrite !andb_true_iff. repeat split.
  - unfold bitfield. rewrite map_length. apply Nat.eqb_eq. apply I'.
  - rewrite map_length. apply Nat.eqb_eq. apply I'.
  - apply forall_idx_iff. intros i Hi. rewrite nth_bit_bitfield, nth_status_bytes.
    destruct (st_at s i); reflexivity.
  - apply forall_idx_iff. intros i Hi. rewrite nth_bit_bitfield.
    destruct (pstatus_eqb (st_at s i) Complete) eqn:E; simpl; auto.
    apply pstatus_eqb_eq in E. unfold bpiece. rewrite (Hbl i Hi E), bytes_eqb_refl. simpl.
    rewrite nth_sidecar_view. rewrite (I_sc_complete _ _ _ _ I' i Hi E). reflexivity.
  - apply forall_idx_iff. intros i Hi. rewrite nth_sidecar_view.
    destruct (N.eqb (nth i (sidecar s) 0%N) 1) eqn:E; simpl; auto.
    apply N.eqb_eq in E. unfold bpiece.
    rewrite (Hps i Hi E). apply bytes_eqb_refl.
  - destruct (committed s) eqn:E; simpl; auto. apply (I_comm _ _ _ _ I' E).
  - destruct (incache s) eqn:E; simpl; auto. apply andb_true_iff. split.
    + apply forall_idx_iff. intros i Hi. rewrite nth_bit_bitfield.
      rewrite (incache_all_complete c ws s (s_ths S) I' E i Hi). reflexivity.
    + rewrite (Hca eq_refl). apply bytes_eqb_refl.
  - apply N.eqb_eq. unfold bytes_downloaded. rewrite Nat2N.inj_min, Nat2N.inj_mul. reflexivity.
  - apply N.leb_le. rewrite popcount_bitfield. pose proof (I_count _ _ _ _ I'). fold s in H. lia.
Qed.

Lemma hrun_sound : forall hs S, SI S -> hist_ok c S hs = true ->
  SI (fst (hrun c S hs)) /\ forallb (state_ok c blob) (snd (hrun c S hs)) = true.
Proof.
  induction hs as [|h t IH]; simpl; intros S I Hh; auto.
  apply andb_prop in Hh as [H1 H2].
  assert (I1 : SI (hstep c S h)).
  { apply hstep_inv; auto. intros ->. exact H1. }
  destruct (IH _ I1 H2) as [A B].
  destruct (hrun c (hstep c S h) t) as [S2 os] eqn:E. simpl in *. split; auto.
  rewrite B, andb_true_r. destruct h; [unfold observe | unfold observe_state]; apply state_ok_sound; auto.
Qed.

Lemma thread_of_input : forall S k, SI S -> k < length ws ->
  let th := nth k (s_ths S) (mkth (mkw 0 0 [] 0) PStart) in
  In th (s_ths S) /\ t_in th = nth k ws (mkw 0 0 [] 0).
Proof.
  intros S k I Hk. pose proof (I_inputs _ _ _ _ I) as E.
  assert (Hl : length (s_ths S) = length ws) by (rewrite <- E, map_length; reflexivity).
  split.
  - apply nth_In. lia.
  - rewrite <- E. change (mkw 0 0 [] 0) with (t_in (mkth (mkw 0 0 [] 0) PStart)) at 2.
    rewrite map_nth. reflexivity.
Qed.

Lemma final_ok_sound : forall S, SI S -> idle S = true ->
  final_ok c blob ws (observe_state c S) (fin_of c S) = true.
Proof.
  intros S I Q. pose proof I as I'. unfold SI, SInv in I'. set (s := s_st S) in *.
  assert (Hbl : forall i, i < npieces c -> st_at s i = Complete -> region c (file s) i = region c blob i).
  { intros. apply (complete_is_blob c ws g_wf blob g_len g_cf S); auto. }
  assert (Hca : incache s = true -> file s = blob).
  { intros E. apply (cached_is_blob c ws g_wf blob g_len g_cf S I (or_introl E)). }
  pose proof (I_len_st _ _ _ _ I') as Lst. fold s in Lst.
  pose proof (progress_idle c ws S I Q) as Hpi. fold s in Hpi.
  pose proof (commit_all_complete c ws S I) as Hcac. fold s in Hcac.
  pose proof (commit_not_lost c ws S I Q) as Hcnl. fold s in Hcnl.
  unfold final_ok, observe_state.
  cbn [o_bits o_status o_sidecar o_file o_incache o_committed o_ncomp o_bytes observe_gate f_pieces f_cache f_results fin_of].
  fold s. rewrite !andb_true_iff. repeat split.
  - apply N.eqb_eq. rewrite popcount_bitfield.
    rewrite Hpi. reflexivity.
  - apply forall_idx_iff. intros i Hi. rewrite nth_status_bytes.
    pose proof (idle_no_dirty c ws S i I Q Hi) as Hnd. fold s in Hnd.
    destruct (st_at s i); try reflexivity. congruence.
  - rewrite map_length, seq_length. apply Nat.eqb_eq. exact Lst.
  - apply forall_idx_iff. intros i Hi. rewrite Lst, nth_map_seq by auto. rewrite nth_bit_bitfield.
    unfold get_piece. rewrite Lst. apply Nat.ltb_lt in Hi as Hi'. rewrite Hi'. simpl.
    destruct (pstatus_eqb (st_at s i) Complete) eqn:E; simpl; auto.
    apply pstatus_eqb_eq in E. unfold bpiece. rewrite (Hbl i Hi E). apply bytes_eqb_refl.
  - unfold cache_bytes. fold s. destruct (incache s) eqn:E; simpl; auto.
    rewrite (Hca eq_refl). apply bytes_eqb_refl.
  - apply eqb_true_iff. destruct (committed s) eqn:E.
    + symmetry. apply forall_idx_iff. intros i Hi. rewrite nth_bit_bitfield.
      rewrite (Hcac (or_intror eq_refl) i Hi). reflexivity.
    + destruct (forall_idx (npieces c) (nth_bit (bitfield s))) eqn:E2; auto.
      rewrite forall_idx_iff in E2.
      assert (Hall : forall i, i < npieces c -> st_at s i = Complete).
      { intros i Hi. specialize (E2 i Hi). rewrite nth_bit_bitfield in E2. apply pstatus_eqb_eq in E2. exact E2. }
      destruct (Hcnl Hall) as [A _]. congruence.
  - rewrite map_length. apply Nat.eqb_eq.
    rewrite <- (I_inputs _ _ _ _ I'), map_length. reflexivity.
  - apply forall_idx_iff. intros k Hk.
    destruct (thread_of_input S k I Hk) as [Hin Ew]. cbv zeta in Hin, Ew.
    set (th := nth k (s_ths S) (mkth (mkw 0 0 [] 0) PStart)) in *.
    set (rc := fun t : thread => match t_pc t with PDone r => res_code r | PStart => 9%N | _ => 8%N end).
    assert (Er : nth k (map rc (s_ths S)) 9%N = rc th).
    { change 9%N with (rc (mkth (mkw 0 0 [] 0) PStart)). rewrite map_nth. reflexivity. }
    rewrite Er. rewrite <- Ew. clear Er Ew.
    pose proof (I_thr _ _ _ _ I') as HT. rewrite Forall_forall in HT. specialize (HT th Hin).
    unfold idle in Q. rewrite forallb_forall in Q. specialize (Q th Hin).
    unfold thread_idle in Q. unfold rc. destruct HT as [Hw HT].
    assert (Hvalid : forall i, valid_idx c ws (t_in th) i ->
              ((0 <=? w_idx (t_in th))%Z && (w_idx (t_in th) <? Z.of_nat (npieces c))%Z = true) /\
              Z.to_nat (w_idx (t_in th)) = i /\
              (w_decl (t_in th) =? Z.of_nat (plen c i))%Z = true).
    { intros i (Hi & Hidx & Hd & _). rewrite Hidx, Nat2Z.id. repeat split.
      - apply andb_true_iff. split; [apply Z.leb_le | apply Z.ltb_lt]; lia.
      - apply Z.eqb_eq. exact Hd. }
    destruct (t_pc th) eqn:Ep; try discriminate.
    + (* never called *) fin_simpl.
    + destruct r; simpl in HT.
      * (* ROk *)
        destruct HT as (i & Hv & Hs & Hc). destruct (Hvalid i Hv) as (V1 & V2 & V3).
        rewrite V2, V1, V3.
        destruct Hv as (Hi & Hidx & _ & _ & _).
        unfold bpiece. rewrite (g_cf _ i Hw Hi Hidx Hs), bytes_eqb_refl, nth_bit_bitfield.
        rewrite Hc. fin_simpl.
      * fin_simpl.
      * fin_simpl.
      * destruct HT as (i & Hv). destruct (Hvalid i Hv) as (V1 & V2 & V3). rewrite V2, V1, V3. fin_simpl.
      * destruct HT as (i & Hv). destruct (Hvalid i Hv) as (V1 & V2 & V3). rewrite V2, V1, V3. fin_simpl.
      * destruct HT as (i & Hv & Hne). destruct (Hvalid i Hv) as (V1 & V2 & V3). rewrite V2, V1, V3.
        apply N.eqb_neq in Hne. rewrite Hne. fin_simpl.
      * contradiction.
Qed.

End Sound.

(* the oracle holds on every history of the model *)
Theorem check_sound : forall c blob ws hs,
  let S0 := start (init_fresh c) ws in
  hist_ok c S0 hs = true ->
  idle (fst (hrun c S0 hs)) = true ->
  C03_check c blob ws (snd (hrun c S0 hs)) (observe_state c (fst (hrun c S0 hs))) (fin_of c (fst (hrun c S0 hs))) = true.
Proof.
  intros c blob ws hs S0 Hh Hq. unfold C03_check.
  destruct (geometry_ok c blob) eqn:Hgeo; simpl; auto.
  destruct (guards c blob ws) eqn:Hg; simpl; auto.
  assert (I0 : SInv c ws S0) by apply inv_init.
  destruct (hrun_sound c blob ws Hgeo Hg hs S0 I0 Hh) as [I1 Hos].
  unfold check_raw. rewrite Hos. simpl.
  unfold observe_state at 1. rewrite (state_ok_sound c blob ws Hgeo Hg _ 0%N 0%N I1). simpl.
  apply final_ok_sound; auto.
Qed.

(* ------------------------------------------------------------------ *)
(* the theorems in the form stated in Properties/C03.v *)

Definition all_honest (ws : list winput) : Prop := forall w, In w ws -> honestP w.

(* the only occurring payload for piece i whose streamed checksum equals the metainfo's is
   piece i of the blob *)
Definition coll_free (c : cfg) (blob : list N) (ws : list winput) : Prop :=
  forall w i, In w ws -> i < npieces c -> w_idx w = Z.of_nat i ->
    w_hsum w = psum c i -> payload w = region c blob i.

(* every state reachable by any interleaving of the callers [ws] on a fresh download *)
Definition R (c : cfg) (ws : list winput) (sched : list nat) : sys :=
  run c (start (init_fresh c) ws) sched.

Lemma R_inv : forall c ws sched, wf_cfg c = true -> all_honest ws -> SInv c ws (R c ws sched).
Proof. intros. apply inv_run; auto. apply inv_init. Qed.

Theorem complete_verified_all : forall c ws sched i,
  wf_cfg c = true -> all_honest ws ->
  let s := s_st (R c ws sched) in
  i < npieces c -> st_at s i = Complete \/ nth i (sidecar s) 0%N = 1%N ->
  verified c ws s i.
Proof.
  intros c ws sched i Hwf Hh s Hi [H|H].
  - apply complete_verified; auto. apply R_inv; auto.
  - apply persisted_verified; auto. apply R_inv; auto.
Qed.

(* with the checksum as a function and readers whose Length() is exact (piecereader.Buffer):
   the bytes of a complete piece sum to the metainfo's checksum *)
Theorem complete_sum : forall (sum : list N -> N) c ws sched i,
  wf_cfg c = true ->
  (forall w, In w ws -> Z.of_nat (length (payload w)) = w_decl w) ->
  (forall w, In w ws -> w_hsum w = sum (payload w)) ->
  let s := s_st (R c ws sched) in
  i < npieces c -> st_at s i = Complete ->
  sum (region c (file s) i) = psum c i.
Proof.
  intros sum c ws sched i Hwf Hex Hs s Hi Hc.
  assert (Hh : all_honest ws) by (intros w Hw; unfold honestP; rewrite (Hex w Hw); lia).
  destruct (complete_verified_all c ws sched i Hwf Hh Hi (or_introl Hc)) as (w & Hv & Hsum & Hw).
  destruct Hv as (_ & _ & Hd & _ & Hin).
  assert (El : length (payload w) = plen c i) by (pose proof (Hex w Hin); lia).
  unfold written in Hw. rewrite El in Hw. subst s. unfold region. rewrite Hw.
  rewrite <- Hsum. symmetry. apply Hs. exact Hin.
Qed.

Theorem commit_all : forall c ws sched,
  wf_cfg c = true -> all_honest ws ->
  let s := s_st (R c ws sched) in
  incache s = true \/ committed s = true ->
  forall i, i < npieces c -> st_at s i = Complete /\ verified c ws s i.
Proof.
  intros c ws sched Hwf Hh s H i Hi. pose proof (R_inv c ws sched Hwf Hh) as I.
  assert (Hc : st_at s i = Complete) by (apply (commit_all_complete c ws _ I H i Hi)).
  split; auto. apply complete_verified; auto.
Qed.

Theorem commit_is_blob : forall (sum : list N -> N) c blob ws sched,
  wf_cfg c = true -> c_len c = length blob -> all_honest ws ->
  (forall i, i < npieces c -> psum c i = sum (region c blob i)) ->
  (forall w, In w ws -> w_hsum w = sum (payload w)) ->
  (forall w i, In w ws -> i < npieces c -> w_idx w = Z.of_nat i ->
     sum (payload w) = sum (region c blob i) -> payload w = region c blob i) ->
  let s := s_st (R c ws sched) in
  incache s = true \/ committed s = true ->
  file s = blob /\ (incache s = true -> cache_bytes s = Some blob).
Proof.
  intros sum c blob ws sched Hwf Hlen Hh Hsums Hhs Hcoll s H.
  pose proof (cf_of_checksum sum c blob ws Hsums Hhs Hcoll) as Hcf.
  assert (E : file s = blob) by (apply (cached_is_blob c ws Hwf blob Hlen Hcf _ (R_inv c ws sched Hwf Hh) H)).
  split; auto. intros Hc. unfold cache_bytes. rewrite Hc, E. reflexivity.
Qed.

Theorem commit_is_blob_cf : forall c blob ws sched,
  wf_cfg c = true -> c_len c = length blob -> all_honest ws -> coll_free c blob ws ->
  let s := s_st (R c ws sched) in
  incache s = true \/ committed s = true -> file s = blob.
Proof.
  intros c blob ws sched Hwf Hlen Hh Hcf s H.
  apply (cached_is_blob c ws Hwf blob Hlen Hcf _ (R_inv c ws sched Hwf Hh) H).
Qed.

Theorem no_write_after_complete : forall c ws sched more i,
  wf_cfg c = true -> all_honest ws ->
  let S := R c ws sched in
  i < npieces c -> st_at (s_st S) i = Complete ->
  st_at (s_st (run c S more)) i = Complete /\
  region c (file (s_st (run c S more))) i = region c (file (s_st S)) i.
Proof. intros. apply (complete_stable c ws); auto. apply R_inv; auto. Qed.

Theorem cache_frozen : forall c ws sched more,
  wf_cfg c = true -> all_honest ws ->
  let S := R c ws sched in
  incache (s_st S) = true ->
  incache (s_st (run c S more)) = true /\ file (s_st (run c S more)) = file (s_st S).
Proof. intros. apply (cached_frozen c ws); auto. apply R_inv; auto. Qed.

Lemma thread_tinv : forall c ws S th, SInv c ws S -> In th (s_ths S) -> tinv c ws (s_st S) (t_in th) (t_pc th).
Proof. intros c ws S th I H. pose proof (I_thr _ _ _ _ I) as HT. rewrite Forall_forall in HT. auto. Qed.

(* invalid index or wrong length: the call can only return the index/length error *)
Theorem invalid_rejected : forall c ws sched w r,
  wf_cfg c = true -> all_honest ws ->
  In (mkth w (PDone r)) (s_ths (R c ws sched)) ->
  (w_idx w < 0 \/ Z.of_nat (npieces c) <= w_idx w \/ w_decl w <> Z.of_nat (plen c (Z.to_nat (w_idx w))))%Z ->
  r = RBadIndex \/ r = RBadLength.
Proof.
  intros c ws sched w r Hwf Hh Hin Hbad.
  destruct (thread_tinv c ws _ _ (R_inv c ws sched Hwf Hh) Hin) as [_ HT]. simpl in HT.
  assert (Hno : forall i, ~ valid_idx c ws w i).
  { intros i (Hi & Hidx & Hd & _). rewrite Hidx, Nat2Z.id in Hbad. lia. }
  destruct r; auto; exfalso.
  - destruct HT as (i & Hv & _). apply (Hno i Hv).
  - destruct HT as (i & Hv). apply (Hno i Hv).
  - destruct HT as (i & Hv). apply (Hno i Hv).
  - destruct HT as (i & Hv & _). apply (Hno i Hv).
  - exact HT.
Qed.

(* what each result says about the payload *)
Theorem result_meaning : forall c ws sched w r,
  wf_cfg c = true -> all_honest ws ->
  In (mkth w (PDone r)) (s_ths (R c ws sched)) ->
  match r with
  | ROk => exists i, i < npieces c /\ w_idx w = Z.of_nat i /\ w_hsum w = psum c i /\
                     st_at (s_st (R c ws sched)) i = Complete
  | RWriteErr => exists i, i < npieces c /\ w_idx w = Z.of_nat i /\ w_hsum w <> psum c i
  | RMoveErr => False
  | _ => True
  end.
Proof.
  intros c ws sched w r Hwf Hh Hin.
  destruct (thread_tinv c ws _ _ (R_inv c ws sched Hwf Hh) Hin) as [_ HT]. simpl in HT.
  destruct r; auto.
  - destruct HT as (i & (Hi & Hidx & _) & Hs & Hc). exists i. auto.
  - destruct HT as (i & (Hi & Hidx & _) & Hs). exists i. auto.
Qed.

Theorem accepted_payload_is_blob : forall c blob ws sched w,
  wf_cfg c = true -> c_len c = length blob -> all_honest ws -> coll_free c blob ws ->
  In (mkth w (PDone ROk)) (s_ths (R c ws sched)) ->
  exists i, i < npieces c /\ w_idx w = Z.of_nat i /\ payload w = region c blob i.
Proof.
  intros c blob ws sched w Hwf Hlen Hh Hcf Hin.
  destruct (accepted_is_blob c ws blob Hcf _ w (R_inv c ws sched Hwf Hh) Hin) as (i & A & B & C & _).
  exists i. auto.
Qed.

Theorem served_piece_is_blob : forall c blob ws sched i d,
  wf_cfg c = true -> c_len c = length blob -> all_honest ws -> coll_free c blob ws ->
  get_piece c (s_st (R c ws sched)) i = Some d -> d = region c blob i.
Proof.
  intros c blob ws sched i d Hwf Hlen Hh Hcf H.
  apply (served_is_blob c ws Hwf blob Hlen Hcf _ i d (R_inv c ws sched Hwf Hh) H).
Qed.

Theorem progress : forall c ws sched,
  wf_cfg c = true -> all_honest ws ->
  let S := R c ws sched in
  let done := count_st Complete (status (s_st S)) in
  ncomp (s_st S) <= done /\ done <= ncomp (s_st S) + length ws /\
  (idle S = true -> ncomp (s_st S) = done) /\
  popcount (bitfield (s_st S)) = done /\
  bytes_downloaded c (s_st S) = Nat.min (ncomp (s_st S) * c_pl c) (c_len c).
Proof.
  intros c ws sched Hwf Hh S dn. pose proof (R_inv c ws sched Hwf Hh) as I. fold S in I.
  pose proof (progress_accounting c ws S I) as H. fold dn in H.
  pose proof (count_marked_le c (s_ths S)) as Hm.
  assert (Hl : length (s_ths S) = length ws).
  { rewrite <- (I_inputs _ _ _ _ I), map_length. reflexivity. }
  repeat split; try lia.
  - intros Q. apply (progress_idle c ws S I Q).
  - apply popcount_bitfield.
Qed.

Theorem commit_not_lost_all : forall c ws sched,
  wf_cfg c = true -> all_honest ws ->
  let S := R c ws sched in
  idle S = true -> (forall i, i < npieces c -> st_at (s_st S) i = Complete) ->
  committed (s_st S) = true /\ incache (s_st S) = true.
Proof. intros c ws sched Hwf Hh S Q Hall. apply (commit_not_lost c ws S); auto. apply R_inv; auto. Qed.

Theorem reopen_is_identity : forall c ws sched,
  wf_cfg c = true -> all_honest ws ->
  let S := R c ws sched in
  idle S = true ->
  new_torrent c (file (s_st S)) (Some (sidecar (s_st S))) (incache (s_st S)) = s_st S.
Proof. intros c ws sched Hwf Hh S Q. apply (reopen_identity c ws S); auto. apply R_inv; auto. Qed.

(* ------------------------------------------------------------------ *)
(* witnesses *)

(* outside the PieceReader contract: Length() = 4 but the stream has 6 bytes.  The overflow
   destroys the verified neighbour piece and a file different from the blob is committed.
   blob = "abcdefgh", piece length 4; sums are the real CRC-32 values. *)
Definition lie_blob : list N := [97; 98; 99; 100; 101; 102; 103; 104]%N.
Definition lie_cfg : cfg := mkcfg 4 8 [3984772369; 137591733]%N.
Definition lie_ws : list winput :=
  [ mkw 1 4 [[101; 102; 103; 104]%N] 137591733%N;
    mkw 0 4 [[97; 98; 99; 100; 88; 89]%N] 2533383276%N;
    mkw 0 4 [[97; 98; 99; 100]%N] 3984772369%N ].
Definition lie_sched : list nat := repeat 0 12 ++ repeat 1 12 ++ repeat 2 14.

Theorem lying_reader_refuted :
  let s := s_st (R lie_cfg lie_ws lie_sched) in
  wf_cfg lie_cfg = true /\ coll_free lie_cfg lie_blob lie_ws /\
  committed s = true /\ incache s = true /\ file s <> lie_blob /\
  ~ all_honest lie_ws.
Proof.
  cbv zeta. split; [reflexivity|]. split.
  - intros w i Hw Hi Hidx Hs. simpl in Hw.
    destruct Hw as [<-|[<-|[<-|[]]]]; simpl in *;
      (destruct i as [|[|i]]; [| |simpl in Hi; lia]); simpl in *; try discriminate; try reflexivity; try lia.
  - split; [vm_compute; reflexivity|]. split; [vm_compute; reflexivity|]. split.
    + vm_compute. discriminate.
    + intros H. specialize (H (mkw 0 4 [[97; 98; 99; 100; 88; 89]%N] 2533383276%N)).
      unfold honestP in H. simpl in H. specialize (H (or_intror (or_introl eq_refl))). lia.
Qed.

(* non-vacuity: an honest, collision-free history with a conflict, a corrupt payload, a retry and
   two callers racing to the commit ends committed with file = blob *)
Definition nv_ws : list winput :=
  [ mkw 0 4 [[97; 98]%N; [99; 100]%N] 3984772369%N;       (* good, two chunks *)
    mkw 0 4 [[97; 98; 99; 100]%N] 3984772369%N;           (* duplicate: conflicts *)
    mkw 1 4 [[101; 102; 103; 88]%N] 1%N;                  (* corrupt *)
    mkw 1 4 [[101; 102; 103; 104]%N] 137591733%N;         (* retry, good *)
    mkw 2 4 [[1; 2; 3; 4]%N] 7%N;                         (* index out of range *)
    mkw 0 3 [[97; 98; 99]%N] 5%N ].                       (* wrong length *)
Definition nv_sched : list nat :=
  [0;0;0;0;0;0; 1;1;1; 2;2;2;2;2;2;2;2; 4; 5; 3;3;3;3;3;3;3;3;3; 0;0;0;0; 3;3; 0;0;0; 3;3;3;3; 1; 0].

Lemma nv_honest : all_honest nv_ws.
Proof. intros w Hw. simpl in Hw. unfold honestP. repeat (destruct Hw as [<-|Hw]; [simpl; lia|]). destruct Hw. Qed.

Lemma nv_cf : coll_free lie_cfg lie_blob nv_ws.
Proof.
  intros w i Hw Hi Hidx Hs. change (i < 2) in Hi.
  assert (Hi2 : i = 0 \/ i = 1) by lia.
  simpl in Hw.
  destruct Hw as [<-|[<-|[<-|[<-|[<-|[<-|[]]]]]]]; destruct Hi2 as [-> | ->]; simpl in *;
    try reflexivity; try lia; try discriminate Hs.
Qed.

(* the hypotheses of the theorems are met by a history with a conflict, a corrupt payload, a
   retry, an invalid index, a wrong length and two callers reaching the commit; it ends idle,
   committed, with file = blob; and an in-flight prefix of it is in the cache but not yet
   reported complete *)
Theorem nonvacuous :
  wf_cfg lie_cfg = true /\ c_len lie_cfg = length lie_blob /\ all_honest nv_ws /\
  coll_free lie_cfg lie_blob nv_ws /\
  (let S := R lie_cfg nv_ws nv_sched in
   idle S = true /\ committed (s_st S) = true /\ cache_bytes (s_st S) = Some lie_blob /\
   map t_pc (s_ths S) = [PDone ROk; PDone RConflict; PDone RWriteErr; PDone ROk; PDone RBadIndex; PDone RBadLength]) /\
  (let S := R lie_cfg nv_ws (removelast nv_sched) in
   idle S = false /\ incache (s_st S) = true /\ committed (s_st S) = false).
Proof.
  split; [reflexivity|]. split; [reflexivity|]. split; [exact nv_honest|]. split; [exact nv_cf|].
  split; vm_compute; repeat split; reflexivity.
Qed.

(* ------------------------------------------------------------------ *)
(* a duplicate: a well-formed call for a piece that is already complete when the call starts can
   only return ErrPieceComplete, under every interleaving with the other callers *)

Lemma pc_of_step_self : forall c S k w p, nth_error (s_ths S) k = Some (mkth w p) ->
  pc_of (sys_step c S k) k = snd (tstep c (s_st S) w p).
Proof.
  intros c S k w p E. unfold sys_step. rewrite E. simpl.
  destruct (tstep c (s_st S) w p) as [s' p'] eqn:Es. unfold pc_of. simpl.
  rewrite nth_error_upd_eq by (apply nth_error_Some; congruence). reflexivity.
Qed.

Lemma input_of_step : forall c S j k w, (exists p, nth_error (s_ths S) k = Some (mkth w p)) ->
  exists p, nth_error (s_ths (sys_step c S j)) k = Some (mkth w p).
Proof.
  intros c S j k w [p E]. unfold sys_step. destruct (nth_error (s_ths S) j) as [t|] eqn:Ej; [|eauto].
  destruct (tstep c (s_st S) (t_in t) (t_pc t)) as [s' p'] eqn:Es. simpl.
  destruct (Nat.eq_dec j k) as [->|Hne].
  - rewrite nth_error_upd_eq by (apply nth_error_Some; congruence).
    rewrite E in Ej. inversion Ej; subst. simpl. eauto.
  - rewrite nth_error_upd_neq by auto. eauto.
Qed.

Theorem duplicate_gets_complete : forall c ws sched more k w i,
  wf_cfg c = true -> all_honest ws ->
  let S := R c ws sched in
  nth_error (s_ths S) k = Some (mkth w PStart) ->
  i < npieces c -> w_idx w = Z.of_nat i -> w_decl w = Z.of_nat (plen c i) ->
  st_at (s_st S) i = Complete ->
  forall r, pc_of (run c S more) k = PDone r -> r = RComplete.
Proof.
  intros c ws sched more k w i Hwf Hh S Hk Hi Hidx Hd Hc.
  pose proof (R_inv c ws sched Hwf Hh) as I. fold S in I.
  assert (G : forall more S, SInv c ws S -> st_at (s_st S) i = Complete ->
            (exists p, nth_error (s_ths S) k = Some (mkth w p)) ->
            (pc_of S k = PStart \/ pc_of S k = PChecked i \/ pc_of S k = PDone RComplete) ->
            let S' := run c S more in
            pc_of S' k = PStart \/ pc_of S' k = PChecked i \/ pc_of S' k = PDone RComplete).
  { induction more0 as [|j more0 IH]; intros S0 I0 Hc0 Hw0 Hp0; simpl; auto.
    apply IH.
    - apply inv_sys_step; auto.
    - apply (complete_stable_step c ws Hwf S0 j i I0 Hi Hc0).
    - apply input_of_step; auto.
    - destruct (Nat.eq_dec j k) as [->|Hne]; [|rewrite pc_of_step_other by auto; exact Hp0].
      destruct Hw0 as [p Ep]. unfold pc_of in Hp0. rewrite Ep in Hp0. simpl in Hp0.
      rewrite (pc_of_step_self c S0 k w p Ep).
      destruct Hp0 as [-> | [-> | ->]]; cbn [tstep].
      + rewrite (I_len_st _ _ _ _ I0), Hidx, Nat2Z.id.
        assert (E1 : (Z.of_nat i <? 0)%Z = false) by (apply Z.ltb_ge; lia).
        assert (E2 : (Z.of_nat (npieces c) <=? Z.of_nat i)%Z = false) by (apply Z.leb_gt; lia).
        rewrite E1, E2, Hd, Z.eqb_refl. simpl. auto.
      + rewrite Hc0. simpl. auto.
      + simpl. auto. }
  intros r Hr.
  assert (Hp : pc_of S k = PStart) by (unfold pc_of; rewrite Hk; reflexivity).
  destruct (G more S I Hc (ex_intro _ PStart Hk) (or_introl Hp)) as [E|[E|E]]; rewrite E in Hr; congruence.
Qed.
