(* C14 — incoming connections at the scheduler: an attempt that has ended leaves no pending or active entry
   (with fixes/C14_infohash_mismatch.patch); without the guard every handshake with a foreign info hash leaves one. *)
From Coq Require Import List ZArith Bool Lia.
From K.Model Require Import C14.
Import ListNotations.
Local Open Scope Z_scope.

(* every connection that has ended — refused, closed after the handshake, or served — leaves the bookkeeping as it was *)
Theorem attempt_leaves_nothing : forall s a, fst (sched_attempt true s a) = s.
Proof.
  intros s a. unfold sched_attempt. simpl.
  destruct (pair_mem _ (ss_pending s) || pair_mem _ (ss_active s)); [reflexivity|].
  destruct (negb (sa_known a)); [reflexivity|].
  destruct (sa_hash a =? 0); reflexivity.
Qed.

Theorem run_leaves_nothing : forall l s, fst (sched_run true s l) = s.
Proof.
  induction l as [|a l IH]; intros s; simpl; [reflexivity|].
  pose proof (attempt_leaves_nothing s a) as H. destruct (sched_attempt true s a) as [s1 o]. simpl in H. subst s1.
  specialize (IH s). destruct (sched_run true s l) as [s2 os]. exact IH.
Qed.

(* hence the answer to an attempt depends on the attempt alone, whatever came before: the oracle holds of the model *)
Theorem sched_check_sound : forall l, C14_sched_check l (snd (sched_run true sinit l)) = true.
Proof.
  intros l. unfold C14_sched_check.
  assert (H : forall s, s = sinit ->
            length (snd (sched_run true s l)) = length l /\
            forallb (fun '(a, o) => o =? sched_expected a) (combine l (snd (sched_run true s l))) = true).
  { induction l as [|a l IH]; intros s Hs; simpl; [auto|].
    pose proof (attempt_leaves_nothing s a) as Hf.
    destruct (sched_attempt true s a) as [s1 o] eqn:E. simpl in Hf. subst s1.
    destruct (IH s Hs) as [I1 I2]. destruct (sched_run true s l) as [s2 os]. simpl in *. split; [now rewrite I1|].
    rewrite I2, andb_true_r. subst s. unfold sched_attempt in E. simpl in E. unfold sched_expected.
    destruct (sa_known a); simpl in *; [|inversion E; reflexivity].
    destruct (sa_hash a =? 0); simpl in *; inversion E; [destruct (sa_bfok a)|]; reflexivity. }
  destruct (H sinit eq_refl) as [H1 H2]. rewrite H1, Z.eqb_refl, H2. reflexivity.
Qed.

(* without the guard: n handshakes with n different foreign info hashes leave n entries, for every n *)
Fixpoint foreign_from (m : Z) (n : nat) : list sattempt :=
  match n with O => [] | S k => mksa 1 (m + 1) true true :: foreign_from (m + 1) k end.

Lemma pair_mem_fresh : forall p h l, (forall k, In k l -> snd k < h) -> pair_mem (p, h) l = false.
Proof.
  intros p h l H. unfold pair_mem. destruct (existsb _ l) eqn:E; [|reflexivity].
  apply existsb_exists in E. destruct E as [y [Hy E]]. apply andb_true_iff in E. destruct E as [_ E].
  apply Z.eqb_eq in E. simpl in E. specialize (H y Hy). lia.
Qed.

Lemma leak_grows : forall k m s, 0 <= m -> ss_active s = [] -> (forall e, In e (ss_pending s) -> snd e <= m) ->
  length (ss_pending (fst (sched_run false s (foreign_from m k)))) = (length (ss_pending s) + k)%nat.
Proof.
  induction k as [|k IH]; intros m s Hm Ha Hp; simpl; [lia|].
  unfold sched_attempt. cbn [sa_peer sa_hash sa_known sa_bfok andb negb].
  rewrite Ha. rewrite pair_mem_fresh by (intros e He; specialize (Hp e He); lia).
  cbn [pair_mem existsb orb].
  replace (m + 1 =? 0) with false by (symmetry; apply Z.eqb_neq; lia).
  set (s1 := mkss ((1, m + 1) :: ss_pending s) []).
  specialize (IH (m + 1) s1). destruct (sched_run false s1 (foreign_from (m + 1) k)) as [s2 os] eqn:E.
  simpl. simpl in IH. rewrite IH; [lia | lia | reflexivity|].
  intros e [<-|He]; simpl; [lia|]. specialize (Hp e He). lia.
Qed.

Theorem unguarded_leak_refuted :
  (exists s a, ss_pending (fst (sched_attempt false s a)) <> ss_pending s) /\
  snd (sched_run false sinit [mksa 1 7 true true; mksa 1 7 true true]) = [1; 0] /\
  snd (sched_run true sinit [mksa 1 7 true true; mksa 1 7 true true]) = [0; 0] /\
  forall n, length (ss_pending (fst (sched_run false sinit (foreign_from 0 n)))) = n.
Proof.
  split; [exists sinit, (mksa 1 7 true true); vm_compute; discriminate|].
  split; [reflexivity|]. split; [reflexivity|].
  intros n. rewrite (leak_grows n 0 sinit); simpl; auto; [lia | tauto].
Qed.
