(* C38: whatever ParsePath / an extractor accepts satisfies the executable layout recognisers of
   Model/C38_layout.v (boolean form of the shape theorems). *)
From Coq Require Import List NArith Arith Bool Lia.
From K.Gen Require Import C38_consts.
From K.Model Require Import C38 C38_layout.
From K.Proof Require Import C38_engine C38_segs C38_tac C38_shapes C38.
Import ListNotations.
Local Open Scope N_scope.

Ltac reassoc := repeat (progress (rewrite <- ?app_assoc; cbn [app])); reflexivity.
Lemma strip_prefix_app m rest : strip_prefix m (m ++ rest) = Some rest.
Proof. induction m as [|a m IH]; cbn; [destruct rest; reflexivity|]. rewrite N.eqb_refl. exact IH. Qed.
Lemma occurs_from_intro m f a rest : f rest = true -> occurs_from m f (a ++ m ++ rest) = true.
Proof.
  intros Hf. induction a as [|c a IH].
  - cbn [app]. destruct (m ++ rest) eqn:E; cbn [occurs_from]; rewrite <- ?E, strip_prefix_app, Hf; reflexivity.
  - cbn [app occurs_from]. rewrite IH. apply orb_true_r.
Qed.
Lemma occurs1_intro m f pre rest : pre <> [] -> f rest = true -> occurs1 m f (pre ++ m ++ rest) = true.
Proof. intros Hp Hf. destruct pre as [|c pre]; [congruence|]. cbn [app occurs1]. apply occurs_from_intro, Hf. Qed.
Lemma ends1_intro suf mid : mid <> [] -> ends1 suf (mid ++ suf) = true.
Proof.
  intros Hm. unfold ends1. rewrite app_length. apply andb_true_iff. split.
  - apply Nat.ltb_lt. destruct mid; [congruence|cbn; lia].
  - rewrite Nat.add_sub, skipn_app, Nat.sub_diag, skipn_all. cbn. apply str_eqb_refl.
Qed.

(* character classes of the patterns against the recognisers' predicates *)
Ltac cls_b := unfold cs_in, in_ranges; rewrite ?xorb_false_l; cbn [existsb fst snd]; intros;
  repeat rewrite ?orb_true_iff, ?andb_true_iff, ?orb_false_r, ?N.leb_le, ?N.eqb_eq in *; lia.
Lemma cs_alnum_b c : cs_in cs_alnum c = true -> alnum c = true.
Proof. unfold cs_alnum, alnum, lower_alnum. cls_b. Qed.
Lemma cs_digit_b c : cs_in cs_digit c = true -> digit c = true.
Proof. unfold cs_digit, digit. cls_b. Qed.
Lemma c09az_b c : cs_in c09az c = true -> lower_alnum c = true.
Proof. unfold c09az, lower_alnum. cls_b. Qed.
Lemma cs_noslash_b c : cs_in cs_noslash c = true -> negb (N.eqb c SL) = true.
Proof.
  unfold cs_noslash, cs_in, in_ranges, SL. cbn. intros H. apply negb_true_iff, N.eqb_neq. intros ->. discriminate.
Qed.
Lemma nonempty_of {A} (l : list A) : l <> [] -> nonempty l = true.
Proof. destruct l; [congruence|reflexivity]. Qed.
Lemma all_in_of f cs u : (forall c, cs_in cs c = true -> f c = true) -> cls cs u -> all_in f u = true.
Proof. intros Hi [Hn Ha]. unfold all_in. rewrite (nonempty_of _ Hn). cbn. eapply forallb_imp; eauto. Qed.
Lemma alnums_of a : cls cs_alnum a -> alnums_b a = true.
Proof. apply all_in_of, cs_alnum_b. Qed.
Lemma digits_of a : cls cs_digit a -> digits_b a = true.
Proof. apply all_in_of, cs_digit_b. Qed.
Lemma hexish_of a : cls c09az a -> hexish a = true.
Proof. apply all_in_of, c09az_b. Qed.
Lemma nosl_b_of a : cls cs_noslash a -> nosl_b a = true.
Proof. apply all_in_of, cs_noslash_b. Qed.
Lemma cls_nosl' cs a : cls cs a -> cs_in cs SL = false -> nosl a = true.
Proof. intros [_ H] Hs. eapply cls_nosl; eauto. Qed.

Lemma hs_ok_of tail : sh_hs tail -> up_tail_ok tail = true.
Proof.
  intros [(a & -> & Ha)|(a & o & -> & Ha & Ho)]; unfold up_tail_ok.
  - replace (s_hashstates ++ SL :: a) with ((s_hashstates ++ [SL]) ++ a) by reassoc.
    rewrite strip_prefix_app. unfold hs_ok. rewrite (segs_nosl a) by (eapply cls_nosl'; [exact Ha|reflexivity]).
    rewrite alnums_of by exact Ha. apply orb_true_r.
  - replace (s_hashstates ++ SL :: a ++ SL :: o) with ((s_hashstates ++ [SL]) ++ a ++ SL :: o) by reassoc.
    rewrite strip_prefix_app. unfold hs_ok. rewrite segs_app_sl.
    rewrite (segs_nosl a) by (eapply cls_nosl'; [exact Ha|reflexivity]).
    rewrite (segs_nosl o) by (eapply cls_nosl'; [exact Ho|reflexivity]). cbn [app].
    rewrite alnums_of, digits_of by assumption. apply orb_true_r.
Qed.

Theorem uuid_layout p u : get_upload_uuid p = Some u -> lay_uuid u p = true.
Proof.
  intros H. apply uuid_rejects in H as (_ & pre & u' & tail & -> & Hc & [Hp _] & Hu & Ht). injection Hc as <-.
  unfold lay_uuid. rewrite nosl_b_of by exact Hu. cbn [andb].
  replace (pre ++ SL :: s_uploads ++ SL :: u ++ SL :: tail) with (pre ++ (SL :: s_uploads ++ SL :: u ++ [SL]) ++ tail)
    by reassoc.
  apply occurs1_intro; [exact Hp|]. destruct Ht as [->|[->|Ht]]; [reflexivity|reflexivity|apply hs_ok_of, Ht].
Qed.

Ltac segs_of Hs := repeat rewrite ?segs_app_sl; repeat match goal with
  | H : cls ?cs ?a |- context[segs ?a] => rewrite (segs_nosl a) by (eapply cls_nosl'; [exact H|reflexivity])
  end.

Theorem algo_layout p a o : get_upload_algo_offset p = Some (a, o) -> lay_algo a o p = true.
Proof.
  intros H. apply algo_rejects in H as (_ & pre & u & a' & o' & -> & Hc & [Hp _] & Hu & Ha & Ho). injection Hc as <- <-.
  unfold lay_algo. rewrite alnums_of, digits_of by assumption. cbn [andb].
  replace (pre ++ SL :: s_uploads ++ SL :: u ++ SL :: s_hashstates ++ SL :: a ++ SL :: o)
    with (pre ++ (SL :: s_uploads ++ [SL]) ++ (u ++ SL :: s_hashstates ++ SL :: a ++ SL :: o)) by reassoc.
  apply occurs1_intro; [exact Hp|]. segs_of tt. rewrite segs_lit_hashstates. cbn [app].
  destruct Hu as [Hn _]. rewrite (nonempty_of _ Hn). unfold is. rewrite !str_eqb_refl. reflexivity.
Qed.

Theorem tag_layout p t cur : get_manifest_tag p = Some (t, cur) -> lay_tag t cur p = true.
Proof.
  intros H. apply tag_rejects in H as (x & (_ & pre & t' & x' & Hc & Hf & [Hp _] & Ht) & ->). injection Hc as <- <-.
  unfold lay_tag. rewrite nosl_b_of by exact Ht. cbn [andb].
  destruct Hf as [[-> ->]|(h & -> & -> & Hh)].
  - replace (pre ++ SL :: s_manifests ++ SL :: s_tags ++ SL :: t ++ SL :: s_current ++ SL :: s_link)
      with (pre ++ (SL :: s_manifests ++ SL :: s_tags ++ SL :: t ++ [SL]) ++ (s_current ++ SL :: s_link)) by reassoc.
    apply occurs1_intro; [exact Hp|]. reflexivity.
  - replace (pre ++ SL :: s_manifests ++ SL :: s_tags ++ SL :: t ++ SL :: s_index ++ SL :: s_sha256 ++ SL :: h ++ SL :: s_link)
      with (pre ++ (SL :: s_manifests ++ SL :: s_tags ++ SL :: t ++ [SL]) ++ (s_index ++ SL :: s_sha256 ++ SL :: h ++ SL :: s_link)) by reassoc.
    apply occurs1_intro; [exact Hp|].
    change (str_eqb (s_index ++ SL :: s_sha256 ++ SL :: h) s_current) with false. cbv iota.
    segs_of tt. rewrite segs_lit_index, segs_lit_sha256, segs_lit_link. cbn [app].
    rewrite hexish_of by exact Hh. reflexivity.
Qed.

Theorem manifest_layout p h : get_manifest_digest p = Some h -> lay_mdigest h p && valid_sha256_hex h = true.
Proof.
  intros H. apply manifest_rejects in H as ((_ & pre & h' & Hc & Hf & [Hp _] & Hh) & Hv). injection Hc as <-.
  rewrite Hv, andb_true_r. unfold lay_mdigest. rewrite hexish_of by exact Hh. cbn [andb].
  destruct Hf as [->|(mid & -> & [Hm _])].
  - replace (pre ++ SL :: s_manifests ++ SL :: s_revisions ++ SL :: s_sha256 ++ SL :: h ++ SL :: s_link)
      with (pre ++ (SL :: s_manifests ++ [SL]) ++ (s_revisions ++ SL :: s_sha256 ++ SL :: h ++ SL :: s_link)) by reassoc.
    apply occurs1_intro; [exact Hp|]. unfold is. rewrite str_eqb_refl. reflexivity.
  - replace (pre ++ SL :: s_manifests ++ SL :: s_tags ++ SL :: mid ++ SL :: s_index ++ SL :: s_sha256 ++ SL :: h ++ SL :: s_link)
      with (pre ++ (SL :: s_manifests ++ [SL]) ++ ((s_tags ++ [SL]) ++ mid ++ (SL :: s_index ++ SL :: s_sha256 ++ SL :: h ++ SL :: s_link))) by reassoc.
    apply occurs1_intro; [exact Hp|]. rewrite strip_prefix_app, ends1_intro by exact Hm. apply orb_true_r.
Qed.

Theorem layer_layout p h : get_layer_digest p = Some h -> (lay_layer h s_link p || lay_layer h s_data p) && valid_sha256_hex h = true.
Proof.
  intros H. apply layer_rejects in H as ((x & _ & pre & -> & [Hp _] & Hh & Hx) & Hv).
  rewrite Hv, andb_true_r. unfold lay_layer. rewrite hexish_of by exact Hh. cbn [andb].
  replace (pre ++ SL :: s_layers ++ SL :: s_sha256 ++ SL :: h ++ SL :: x)
    with (pre ++ (SL :: s_layers ++ SL :: s_sha256 ++ SL :: h ++ [SL]) ++ x) by reassoc.
  destruct Hx as [->| ->]; apply orb_true_iff; [left|right]; (apply andb_true_iff; split; [reflexivity|]);
    (apply occurs1_intro; [exact Hp|apply str_eqb_refl]).
Qed.

Theorem blob_layout p h : get_blob_digest p = Some h -> lay_blob h p && valid_sha256_hex h = true.
Proof.
  intros H. apply blob_rejects in H as ((_ & pre & h2 & -> & [Hp _] & Hl & H2 & Hh) & Hv).
  rewrite Hv, andb_true_r. unfold lay_blob. rewrite hexish_of by exact Hh. cbn [andb].
  replace (pre ++ SL :: s_blobs ++ SL :: s_sha256 ++ SL :: h2 ++ SL :: h ++ SL :: s_data)
    with (pre ++ (SL :: s_blobs ++ SL :: s_sha256 ++ [SL]) ++ (h2 ++ SL :: h ++ SL :: s_data)) by reassoc.
  apply occurs1_intro; [exact Hp|]. rewrite !segs_app_sl.
  rewrite (segs_nosl h2) by (eapply cls_nosl; [exact H2|reflexivity]).
  rewrite (segs_nosl h) by (eapply cls_nosl'; [exact Hh|reflexivity]). rewrite segs_lit_data. cbn [app].
  rewrite Hl. cbn [Nat.eqb andb]. unfold is. rewrite !str_eqb_refl, !andb_true_r.
  eapply forallb_imp; [|exact H2]. apply c09az_b.
Qed.

Lemma starts_app m rest : starts m (m ++ rest) = true.
Proof. unfold starts. rewrite strip_prefix_app. reflexivity. Qed.
Theorem repo_layout p r : get_repo p = Some r -> lay_repo r p = true.
Proof.
  intros H. apply repo_rejects in H as (t1 & t2 & -> & pre & r' & kw & -> & Hc & [Hp _] & [Hr _] & Hk). injection Hc as <-.
  unfold lay_repo. rewrite (nonempty_of _ Hr). cbn [andb].
  replace ((pre ++ SL :: s_repositories ++ SL :: r ++ SL :: kw) ++ t2)
    with (pre ++ (SL :: s_repositories ++ SL :: r ++ [SL]) ++ (kw ++ t2)) by reassoc.
  apply occurs1_intro; [exact Hp|]. destruct Hk as [->|[->| ->]]; rewrite starts_app; auto using orb_true_r.
Qed.

Theorem parse_layout p ty st : parse_path p = Some (ty, st) -> lay_parse ty st p = true.
Proof.
  intros H. apply parse_rejects in H. unfold lay_parse.
  destruct H as [[-> H]|[[-> [H1 H2]]|[[-> H]|[-> [-> H]]]]].
  - (* _manifests *)
    destruct H as (_ & pre & st' & Hc & Hf & [Hp _] & Hst). injection Hc as <-.
    apply orb_true_iff; left. apply orb_true_iff; left. apply orb_true_iff; left.
    apply andb_true_iff; split; [apply andb_true_iff; split; [reflexivity|destruct Hst as [->| ->]; reflexivity]|].
    destruct Hf as [->|(mid & -> & [Hm _])].
    + replace (pre ++ SL :: s_manifests ++ SL :: st) with (pre ++ (SL :: s_manifests ++ SL :: st) ++ []) by (rewrite app_nil_r; reflexivity).
      apply occurs1_intro; [exact Hp|reflexivity].
    + replace (pre ++ SL :: s_manifests ++ SL :: st ++ SL :: mid ++ SL :: s_link)
        with (pre ++ (SL :: s_manifests ++ SL :: st) ++ (SL :: mid ++ SL :: s_link)) by reassoc.
      apply occurs1_intro; [exact Hp|]. rewrite N.eqb_refl. cbn [andb]. apply ends1_intro, Hm.
  - (* _uploads *)
    apply orb_true_iff; left. apply orb_true_iff; left. apply orb_true_iff; right.
    apply andb_true_iff; split; [reflexivity|].
    destruct H1 as (t1 & t2 & -> & pre & u & st' & -> & Hc & [Hp _] & Hu & Hf). injection Hc as <-.
    destruct Hf as [[-> ->]|[[-> ->]| ->]].
    + replace ((pre ++ SL :: s_uploads ++ SL :: u ++ SL :: s_data) ++ [])
        with (pre ++ (SL :: s_uploads ++ [SL]) ++ (u ++ SL :: s_data)) by (rewrite app_nil_r; reassoc).
      apply occurs1_intro; [exact Hp|]. segs_of tt. rewrite segs_lit_data. cbn [app].
      destruct Hu as [Hn _]. rewrite (nonempty_of _ Hn). reflexivity.
    + replace ((pre ++ SL :: s_uploads ++ SL :: u ++ SL :: s_startedat) ++ [])
        with (pre ++ (SL :: s_uploads ++ [SL]) ++ (u ++ SL :: s_startedat)) by (rewrite app_nil_r; reassoc).
      apply occurs1_intro; [exact Hp|]. segs_of tt. rewrite segs_lit_startedat. cbn [app].
      destruct Hu as [Hn _]. rewrite (nonempty_of _ Hn). reflexivity.
    + destruct (H2 eq_refl) as (_ & pre' & u' & tail & Hpe & _ & [Hp' _] & Hu' & Hs). rewrite Hpe.
      destruct Hs as [(a & -> & Ha)|(a & o & -> & Ha & Ho)].
      * replace (pre' ++ SL :: s_uploads ++ SL :: u' ++ SL :: s_hashstates ++ SL :: a)
          with (pre' ++ (SL :: s_uploads ++ [SL]) ++ (u' ++ SL :: s_hashstates ++ SL :: a)) by reassoc.
        apply occurs1_intro; [exact Hp'|]. segs_of tt. rewrite segs_lit_hashstates. cbn [app].
        destruct Hu' as [Hn _]. rewrite (nonempty_of _ Hn), alnums_of by exact Ha. reflexivity.
      * replace (pre' ++ SL :: s_uploads ++ SL :: u' ++ SL :: s_hashstates ++ SL :: a ++ SL :: o)
          with (pre' ++ (SL :: s_uploads ++ [SL]) ++ (u' ++ SL :: s_hashstates ++ SL :: a ++ SL :: o)) by reassoc.
        apply occurs1_intro; [exact Hp'|]. segs_of tt. rewrite segs_lit_hashstates. cbn [app].
        destruct Hu' as [Hn _]. rewrite (nonempty_of _ Hn), alnums_of, digits_of by assumption. reflexivity.
  - (* _layers *)
    apply orb_true_iff; left. apply orb_true_iff; right.
    apply andb_true_iff; split; [reflexivity|].
    destruct H as (h & _ & pre & -> & [Hp _] & Hh & Hx).
    replace (pre ++ SL :: s_layers ++ SL :: s_sha256 ++ SL :: h ++ SL :: st)
      with (pre ++ (SL :: s_layers ++ SL :: s_sha256 ++ [SL]) ++ (h ++ SL :: st)) by reassoc.
    apply occurs1_intro; [exact Hp|]. segs_of tt.
    destruct Hx as [->| ->]; rewrite ?segs_lit_link, ?segs_lit_data; cbn [app]; rewrite hexish_of by exact Hh; reflexivity.
  - (* blobs *)
    apply orb_true_iff; right.
    apply andb_true_iff; split; [reflexivity|].
    destruct H as (h & _ & pre & h2 & -> & [Hp _] & Hl & H2 & Hh).
    replace (pre ++ SL :: s_blobs ++ SL :: s_sha256 ++ SL :: h2 ++ SL :: h ++ SL :: s_data)
      with (pre ++ (SL :: s_blobs ++ SL :: s_sha256 ++ [SL]) ++ (h2 ++ SL :: h ++ SL :: s_data)) by reassoc.
    apply occurs1_intro; [exact Hp|]. rewrite !segs_app_sl.
    rewrite (segs_nosl h2) by (eapply cls_nosl; [exact H2|reflexivity]).
    rewrite (segs_nosl h) by (eapply cls_nosl'; [exact Hh|reflexivity]). rewrite segs_lit_data. cbn [app].
    rewrite Hl, hexish_of by exact Hh. cbn [Nat.eqb andb]. unfold is. rewrite str_eqb_refl, !andb_true_r.
    eapply forallb_imp; [|exact H2]. apply c09az_b.
Qed.

(* all answers of the eight functions on any path are consistent with the layout *)
Theorem observe_follows_layout p : obs_follows_layout p (observe p) = true.
Proof.
  unfold obs_follows_layout, observe, observe_with. cbn [o_parse o_repo o_tag o_blob o_layer o_manifest o_uuid o_algo].
  fold get_repo.
  repeat (apply andb_true_iff; split).
  - destruct (parse_path p) as [[ty st]|] eqn:E; [apply parse_layout, E|reflexivity].
  - destruct (get_repo p) eqn:E; [apply repo_layout, E|reflexivity].
  - destruct (get_manifest_tag p) as [[t c]|] eqn:E; [apply tag_layout, E|reflexivity].
  - destruct (get_blob_digest p) eqn:E; [apply blob_layout, E|reflexivity].
  - destruct (get_layer_digest p) eqn:E; [apply layer_layout, E|reflexivity].
  - destruct (get_manifest_digest p) eqn:E; [apply manifest_layout, E|reflexivity].
  - destruct (get_upload_uuid p) eqn:E; [apply uuid_layout, E|reflexivity].
  - destruct (get_upload_algo_offset p) as [[a o]|] eqn:E; [apply algo_layout, E|reflexivity].
Qed.
Theorem check2_sound path built : C38_check2 path built (observe path) = true.
Proof. unfold C38_check2. rewrite check_sound, observe_follows_layout. reflexivity. Qed.
