From Coq Require Import List NArith Bool Lia.
From K.Model Require Import C20.
Import ListNotations.
Local Open Scope N_scope.

(* ---------- small list facts ---------- *)
Lemma memb_In h l : memb h l = true <-> In h l.
Proof.
  unfold memb. rewrite existsb_exists. split.
  - intros [x [Hx He]]. apply N.eqb_eq in He. subst. exact Hx.
  - intros H. exists h. split; [exact H | apply N.eqb_refl].
Qed.

Lemma memb_false h l : memb h l = false <-> ~ In h l.
Proof.
  rewrite <- memb_In. destruct (memb h l); intuition congruence.
Qed.

Lemma In_remove_all h x l : In x (remove_all h l) <-> In x l /\ x <> h.
Proof.
  unfold remove_all. rewrite filter_In. split.
  - intros [Hi Hn]. split; [exact Hi|]. intros ->. rewrite N.eqb_refl in Hn. discriminate.
  - intros [Hi Hn]. split; [exact Hi|]. destruct (N.eqb_spec h x); [congruence | reflexivity].
Qed.

Lemma NoDup_remove_all h l : NoDup l -> NoDup (remove_all h l).
Proof. intros H. unfold remove_all. apply NoDup_filter. exact H. Qed.

Lemma remove_first_notin h l : ~ In h l -> remove_first h l = l.
Proof.
  induction l as [|x t IH]; cbn [remove_first]; intros Hn; [reflexivity|].
  destruct (N.eqb_spec h x) as [->|Hne].
  - exfalso. apply Hn. left. reflexivity.
  - f_equal. apply IH. intros Hi. apply Hn. right. exact Hi.
Qed.

Lemma remove_all_notin h l : ~ In h l -> remove_all h l = l.
Proof.
  induction l as [|x t IH]; cbn [remove_all filter]; intros Hn; [reflexivity|].
  destruct (N.eqb_spec h x) as [->|Hne]; cbn [negb].
  - exfalso. apply Hn. left. reflexivity.
  - f_equal. apply IH. intros Hi. apply Hn. right. exact Hi.
Qed.

Lemma remove_first_nodup h l : NoDup l -> remove_first h l = remove_all h l.
Proof.
  induction l as [|x t IH]; intros Hnd; [reflexivity|].
  cbn [remove_first remove_all filter]. inversion Hnd as [|? ? Hx Ht]; subst.
  destruct (N.eqb_spec h x) as [->|Hne]; cbn [negb].
  - symmetry. apply remove_all_notin. exact Hx.
  - f_equal. apply IH. exact Ht.
Qed.

Lemma run_app s a b :
  run s (a ++ b) =
  let '(s1, r1) := run s a in let '(s2, r2) := run s1 b in (s2, r1 ++ r2).
Proof.
  revert s. induction a as [|o a IH]; intros s; cbn [app run].
  - destruct (run s b). reflexivity.
  - destruct (step s o) as [s1 r]. rewrite IH. destruct (run s1 a) as [s2 r2].
    destruct (run s2 b). reflexivity.
Qed.

Lemma wf_from_app s a b :
  wf_from s (a ++ b) = wf_from s a && wf_from (fst (run s a)) b.
Proof.
  revert s. induction a as [|o a IH]; intros s; cbn [app wf_from run]; [reflexivity|].
  rewrite IH. destruct (step s o) as [s1 r] eqn:E. cbn [fst].
  destruct (run s1 a) as [s2 rs]. cbn [fst]. rewrite andb_assoc. reflexivity.
Qed.

(* ---------- the refinement invariant ---------- *)
Fixpoint desc (l : list (N * N)) (c : N) : Prop :=
  match l with
  | [] => True
  | x :: t => fst x < c /\ desc t (fst x)
  end.

Lemma desc_weaken l c c' : desc l c -> c <= c' -> desc l c'.
Proof. destruct l as [|x t]; cbn [desc]; [tauto|]. intros [H1 H2] Hc. split; [lia | exact H2]. Qed.

Lemma desc_all l c : desc l c -> forall y, In y l -> fst y < c.
Proof.
  revert c. induction l as [|x t IH]; cbn [desc In]; intros c H y Hy; [tauto|].
  destruct H as [H1 H2]. destruct Hy as [<-|Hy]; [exact H1|].
  specialize (IH _ H2 _ Hy). lia.
Qed.

Lemma desc_filter f l c : desc l c -> desc (filter f l) c.
Proof.
  revert c. induction l as [|x t IH]; cbn [desc filter]; intros c H; [exact I|].
  destruct H as [H1 H2]. destruct (f x); cbn [desc].
  - split; [exact H1 | apply IH; exact H2].
  - apply IH. eapply desc_weaken; [exact H2 | lia].
Qed.

Lemma oldest_last l x c : desc (l ++ [x]) c -> oldest (l ++ [x]) = Some x.
Proof.
  revert c. induction l as [|a l IH]; intros c H; [reflexivity|].
  cbn [app oldest]. cbn [app desc] in H. destruct H as [Ha Hd].
  rewrite (IH _ Hd).
  assert (Hx : fst x < fst a) by (apply (desc_all _ _ Hd); apply in_or_app; right; left; reflexivity).
  destruct (N.leb_spec (fst a) (fst x)); [lia | reflexivity].
Qed.

Definition Inv (s : st) (sp : spec) : Prop :=
  ready s = map snd (rev (waiting sp)) /\
  pending s = inflight sp /\
  NoDup (ready s ++ pending s) /\
  desc (waiting sp) (clk sp).

Lemma Inv_init : Inv init sinit.
Proof. repeat split; cbn; constructor. Qed.

Lemma map_snd_drop h l :
  map snd (rev (drop_torrent h l)) = remove_all h (map snd (rev l)).
Proof.
  unfold drop_torrent, remove_all.
  induction l as [|x t IH]; [reflexivity|].
  cbn [filter rev]. rewrite map_app, filter_app. cbn [map filter].
  destruct (negb (h =? snd x)); cbn [rev]; rewrite ?map_app, IH; cbn [map];
    [reflexivity | rewrite app_nil_r; reflexivity].
Qed.

Lemma NoDup_app_l {A} (a b : list A) : NoDup (a ++ b) -> NoDup a.
Proof. induction a as [|x a IH]; cbn [app]; intros H; [constructor|].
  inversion H as [|? ? Hx Ht]; subst. constructor; [|apply IH; exact Ht].
  intros Hi. apply Hx. apply in_or_app. left. exact Hi. Qed.

Lemma NoDup_app_r {A} (a b : list A) : NoDup (a ++ b) -> NoDup b.
Proof. induction a as [|x a IH]; cbn [app]; intros H; [exact H|].
  inversion H; subst. apply IH. assumption. Qed.

Lemma NoDup_app_disj {A} (a b : list A) x : NoDup (a ++ b) -> In x a -> In x b -> False.
Proof. induction a as [|y a IH]; cbn [app In]; intros H Ha Hb; [tauto|].
  inversion H as [|? ? Hy Ht]; subst. destruct Ha as [->|Ha].
  - apply Hy. apply in_or_app. right. exact Hb.
  - apply IH; assumption. Qed.

Lemma NoDup_app_intro {A} (a b : list A) :
  NoDup a -> NoDup b -> (forall x, In x a -> In x b -> False) -> NoDup (a ++ b).
Proof.
  induction a as [|y a IH]; cbn [app]; intros Ha Hb Hd; [exact Hb|].
  inversion Ha as [|? ? Hy Ht]; subst. constructor.
  - intros Hi. apply in_app_or in Hi. destruct Hi as [Hi|Hi]; [tauto|].
    apply (Hd y); [left; reflexivity | exact Hi].
  - apply IH; [exact Ht | exact Hb |]. intros x Hx Hx'. apply (Hd x); [right; exact Hx | exact Hx'].
Qed.

(* one step preserves the invariant and produces the specification's output *)
Lemma step_refines s sp o :
  Inv s sp ->
  (match o with Add h => negb (memb h (ready s)) && negb (memb h (pending s)) | _ => true end) = true ->
  Inv (fst (step s o)) (fst (sstep sp o)) /\ snd (step s o) = snd (sstep sp o).
Proof.
  intros (Hr & Hp & Hnd & Hd) Hwf.
  destruct o as [h| |h|h].
  - (* Add *)
    apply andb_true_iff in Hwf. destruct Hwf as [H1 H2].
    apply negb_true_iff in H1, H2. apply memb_false in H1, H2.
    cbn [step sstep fst snd]. split; [|reflexivity].
    unfold Inv. cbn [ready pending waiting inflight clk rev]. repeat split.
    + rewrite map_app, <- Hr. reflexivity.
    + exact Hp.
    + rewrite <- app_assoc. cbn [app].
      apply NoDup_app_intro.
      * eapply NoDup_app_l. exact Hnd.
      * constructor; [exact H2 | eapply NoDup_app_r; exact Hnd].
      * intros x Hx [<-|Hx']; [tauto | eapply NoDup_app_disj; eauto].
    + cbn [fst]. lia.
    + cbn [fst]. exact Hd.
  - (* Next *)
    cbn [step sstep].
    destruct (rev (waiting sp)) as [|[t0 h0] rest] eqn:Erev.
    + (* empty *)
      assert (Hw : waiting sp = []).
      { rewrite <- (rev_involutive (waiting sp)), Erev. reflexivity. }
      rewrite Hr. cbn [map]. rewrite Hw. cbn [oldest fst snd]. split; [|reflexivity].
      unfold Inv. cbn [waiting inflight clk rev map desc]. repeat split.
      * exact Hr.
      * exact Hp.
      * exact Hnd.
    + assert (Hw : waiting sp = rev rest ++ [(t0, h0)]).
      { rewrite <- (rev_involutive (waiting sp)), Erev. reflexivity. }
      rewrite Hr. cbn [map snd].
      assert (Hold : oldest (waiting sp) = Some (t0, h0)).
      { rewrite Hw. eapply oldest_last. rewrite <- Hw. exact Hd. }
      rewrite Hold. cbn [fst snd].
      rewrite Hr in Hnd. cbn [map snd app] in Hnd.
      inversion Hnd as [|? ? Hh0 Hnd']; subst.
      assert (Hnp : memb h0 (pending s) = false).
      { apply memb_false. intros Hi. apply Hh0. apply in_or_app. right. exact Hi. }
      rewrite Hnp. split; [|reflexivity].
      unfold Inv. cbn [ready pending waiting inflight clk]. repeat split.
      * rewrite map_snd_drop, Erev. cbn [map snd].
        unfold remove_all. cbn [filter]. rewrite N.eqb_refl. cbn [negb].
        symmetry. apply remove_all_notin. intros Hi. apply Hh0. apply in_or_app. left. exact Hi.
      * rewrite Hp. reflexivity.
      * apply NoDup_app_intro.
        -- eapply NoDup_app_l. exact Hnd'.
        -- constructor; [|eapply NoDup_app_r; exact Hnd'].
           intros Hi. apply Hh0. apply in_or_app. right. exact Hi.
        -- intros x Hx [<-|Hx'].
           ++ apply Hh0. apply in_or_app. left. exact Hx.
           ++ eapply NoDup_app_disj; eauto.
      * apply desc_filter. eapply desc_weaken; [exact Hd | lia].
  - (* Ready *)
    cbn [step sstep]. rewrite <- Hp.
    destruct (memb h (pending s)) eqn:Em; cbn [fst snd]; (split; [|reflexivity]).
    + apply memb_In in Em.
      unfold Inv. cbn [ready pending waiting inflight clk rev]. repeat split.
      * rewrite map_app, <- Hr. reflexivity.
      * rewrite <- app_assoc. cbn [app]. apply NoDup_app_intro.
        -- eapply NoDup_app_l. exact Hnd.
        -- constructor; [rewrite In_remove_all; tauto |].
           apply NoDup_remove_all. eapply NoDup_app_r. exact Hnd.
        -- intros x Hx [<-|Hx'].
           ++ eapply NoDup_app_disj; eauto.
           ++ apply In_remove_all in Hx'. destruct Hx' as [Hx' _]. eapply NoDup_app_disj; eauto.
      * cbn [fst]. lia.
      * cbn [fst]. exact Hd.
    + unfold Inv. cbn [ready pending waiting inflight clk]. repeat split; try assumption.
      eapply desc_weaken; [exact Hd | lia].
  - (* Eject *)
    cbn [step sstep fst snd]. split; [|reflexivity].
    unfold Inv. cbn [ready pending waiting inflight clk]. repeat split.
    + rewrite map_snd_drop, <- Hr. apply remove_first_nodup. eapply NoDup_app_l. exact Hnd.
    + rewrite Hp. reflexivity.
    + rewrite remove_first_nodup by (eapply NoDup_app_l; exact Hnd).
      apply NoDup_app_intro.
      * apply NoDup_remove_all. eapply NoDup_app_l. exact Hnd.
      * apply NoDup_remove_all. eapply NoDup_app_r. exact Hnd.
      * intros x Hx Hx'. apply In_remove_all in Hx, Hx'. destruct Hx as [Hx _], Hx' as [Hx' _]. eapply NoDup_app_disj; [exact Hnd | exact Hx | exact Hx'].
    + apply desc_filter. eapply desc_weaken; [exact Hd | lia].
Qed.

Lemma run_refines ops : forall s sp,
  Inv s sp -> wf_from s ops = true ->
  Inv (fst (run s ops)) (fst (srun sp ops)) /\ snd (run s ops) = snd (srun sp ops).
Proof.
  induction ops as [|o ops IH]; intros s sp HI Hwf; cbn [run srun wf_from] in *.
  - split; [exact HI | reflexivity].
  - apply andb_true_iff in Hwf. destruct Hwf as [Hw1 Hw2].
    destruct (step_refines s sp o HI Hw1) as [HI1 Ho].
    destruct (step s o) as [s1 r]. destruct (sstep sp o) as [sp1 r']. cbn [fst snd] in *.
    destruct (IH s1 sp1 HI1 Hw2) as [HI2 Ho2].
    destruct (run s1 ops) as [s2 rs]. destruct (srun sp1 ops) as [sp2 rs']. cbn [fst snd] in *.
    split; [exact HI2 | congruence].
Qed.

Lemma reach_inv ops : wf ops = true -> Inv (fst (run init ops)) (fst (srun sinit ops)).
Proof. intros H. apply run_refines; [apply Inv_init | exact H]. Qed.

(* ---------- property clauses ---------- *)
Lemma disjoint_nodup ops :
  wf ops = true -> let s := fst (run init ops) in NoDup (ready s ++ pending s).
Proof. intros H. destruct (reach_inv ops H) as (_ & _ & Hnd & _). exact Hnd. Qed.

Lemma refines_fifo ops : wf ops = true -> snd (run init ops) = snd (srun sinit ops).
Proof. intros H. apply run_refines; [apply Inv_init | exact H]. Qed.

Lemma run_snoc ops o :
  fst (run init (ops ++ [o])) = fst (step (fst (run init ops)) o).
Proof.
  rewrite run_app. destruct (run init ops) as [s r]. cbn [run fst].
  destruct (step s o). reflexivity.
Qed.

Lemma wf_snoc ops o : wf (ops ++ [o]) = true -> wf ops = true.
Proof. unfold wf. rewrite wf_from_app. intros H. apply andb_true_iff in H. tauto. Qed.

Lemma eject_total ops h :
  wf (ops ++ [Eject h]) = true ->
  let s := fst (run init (ops ++ [Eject h])) in ~ In h (ready s) /\ ~ In h (pending s).
Proof.
  intros Hwf s. subst s. rewrite run_snoc.
  pose proof (disjoint_nodup ops (wf_snoc _ _ Hwf)) as Hnd. cbn zeta in Hnd.
  cbn [step fst ready pending].
  rewrite remove_first_nodup by (eapply NoDup_app_l; exact Hnd).
  rewrite !In_remove_all. tauto.
Qed.

(* a torrent with an announce in flight is not handed out *)
Lemma inflight_not_served ops h :
  wf ops = true -> In h (pending (fst (run init ops))) ->
  snd (step (fst (run init ops)) Next) <> ONext (Some h).
Proof.
  intros Hwf Hin. pose proof (disjoint_nodup ops Hwf) as Hnd. cbn zeta in Hnd.
  cbn [step]. destruct (ready (fst (run init ops))) as [|x t] eqn:E; cbn [snd]; [discriminate|].
  intros Heq. inversion Heq; subst.
  eapply (NoDup_app_disj _ _ h); [exact Hnd | left; reflexivity | exact Hin].
Qed.

(* ... and it becomes ready again only through Ready *)
Lemma ready_only_after_done ops o h :
  wf (ops ++ [o]) = true ->
  In h (pending (fst (run init ops))) ->
  In h (ready (fst (run init (ops ++ [o])))) ->
  o = Ready h.
Proof.
  intros Hwf Hin. rewrite run_snoc.
  pose proof (disjoint_nodup ops (wf_snoc _ _ Hwf)) as Hnd. cbn zeta in Hnd.
  unfold wf in Hwf. rewrite wf_from_app in Hwf. apply andb_true_iff in Hwf. destruct Hwf as [_ Hwo].
  set (s := fst (run init ops)) in *. cbn [wf_from] in Hwo. rewrite andb_true_r in Hwo.
  assert (Hnr : ~ In h (ready s)) by (intros Hr; eapply NoDup_app_disj; eauto).
  destruct o as [h'| |h'|h']; cbn [step fst ready].
  - intros Hi. apply in_app_or in Hi. destruct Hi as [Hi|[<-|[]]]; [tauto|].
    apply andb_true_iff in Hwo. destruct Hwo as [_ H2]. apply negb_true_iff, memb_false in H2. tauto.
  - destruct (ready s) as [|x t] eqn:E; cbn [fst ready]; [rewrite E; tauto|].
    intros Hi. exfalso. apply Hnr. right. exact Hi.
  - destruct (memb h' (pending s)) eqn:Em; cbn [fst ready]; [|tauto].
    intros Hi. apply in_app_or in Hi. destruct Hi as [Hi|[<-|[]]]; [tauto | reflexivity].
  - rewrite remove_first_nodup by (eapply NoDup_app_l; exact Hnd).
    rewrite In_remove_all. tauto.
Qed.

(* FIFO, stated on the specification: Next hands out the waiting torrent whose
   arrival stamp is minimal *)
Lemma oldest_min l : forall x, oldest l = Some x -> In x l /\ forall y, In y l -> fst x <= fst y.
Proof.
  induction l as [|a l IH]; cbn [oldest]; intros x H; [discriminate|].
  destruct (oldest l) as [m|] eqn:E.
  - destruct (IH m eq_refl) as [Hin Hmin].
    destruct (N.leb_spec (fst a) (fst m)); inversion H; subst; clear H.
    + split; [left; reflexivity|]. intros y [<-|Hy]; [lia|]. specialize (Hmin y Hy). lia.
    + split; [right; exact Hin|]. intros y [<-|Hy]; [lia|]. apply Hmin. exact Hy.
  - inversion H; subst. destruct l as [|b l]; [|cbn [oldest] in E; destruct (oldest l) as [z|];
      [destruct (fst b <=? fst z)|]; discriminate].
    split; [left; reflexivity|]. intros y [<-|[]]. lia.
Qed.

Lemma outs_eqb_refl l : outs_eqb l l = true.
Proof.
  induction l as [|x l IH]; [reflexivity|]. cbn [outs_eqb]. rewrite IH, andb_true_r.
  destruct x as [|[r|]]; cbn [out_eqb]; [reflexivity | apply N.eqb_refl | reflexivity].
Qed.

Lemma check_sound ops : C20_check ops (snd (run init ops)) = true.
Proof.
  unfold C20_check. destruct (wf ops) eqn:E; [|reflexivity].
  rewrite (refines_fifo ops E). apply outs_eqb_refl.
Qed.

(* without the client contract removal is not total: Eject stops after one copy *)
Lemma unguarded_add_refuted :
  exists ops h, In h (ready (fst (run init (ops ++ [Eject h])))).
Proof. exists [Add 1; Add 1], 1. vm_compute. left. reflexivity. Qed.
