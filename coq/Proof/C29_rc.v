(* Proofs for C29, part 2: RequestCache. *)
From Coq Require Import List NArith Bool Lia.
From K.Model Require Import C29.
From K.Proof Require Import C29.
Import ListNotations.
Local Open Scope N_scope.

Record rinv (cf : rcfg) (s : rst) : Prop := mkRinv {
  q_hold_pend : forall c k, holdsb (r_thr s c) k = true -> r_pend s k = true;
  q_uniq : forall c1 c2 k, holdsb (r_thr s c1) k = true -> holdsb (r_thr s c2) k = true -> c1 = c2;
  q_pend_hold : forall k, r_pend s k = true -> exists c, holdsb (r_thr s c) k = true;
  q_err_free : forall k e exp, r_errs s k = Some (e, exp) -> r_now s <= exp -> r_pend s k = false;
  q_used : r_used s <= c_workers cf
}.

Lemma rinit_inv : forall cf, rinv cf rinit.
Proof. intro cf. constructor; unfold rinit; simpl; intros; try discriminate; auto. lia. Qed.

Lemma startable_holds : forall p k, startable p = true -> holdsb p k = false.
Proof. intros p k. destruct p; simpl; auto; discriminate. Qed.

Lemma holdsb_two : forall p k1 k2, holdsb p k1 = true -> holdsb p k2 = true -> k1 = k2.
Proof.
  intros p k1 k2. destruct p; simpl; try discriminate; intros H1 H2;
    apply N.eqb_eq in H1, H2; congruence.
Qed.

(* cleanup only drops expired entries *)
Lemma rclean_sub : forall cf s k e exp, fst (rclean cf s) k = Some (e, exp) -> r_errs s k = Some (e, exp).
Proof.
  intros cf s k e exp. unfold rclean. destruct (r_last s + c_clean cf <? r_now s); simpl; auto.
  destruct (r_errs s k) as [[e0 x0] |]; [ | discriminate ].
  destruct (cexpired (r_now s) x0); [ discriminate | auto ].
Qed.
Lemma rclean_keep : forall cf s k e exp, r_errs s k = Some (e, exp) -> r_now s <= exp ->
  fst (rclean cf s) k = Some (e, exp).
Proof.
  intros cf s k e exp H L. unfold rclean. destruct (r_last s + c_clean cf <? r_now s); simpl; auto.
  rewrite H. unfold cexpired. destruct (N.ltb_spec exp (r_now s)); [ lia | auto ].
Qed.
Lemma rclean_none : forall cf s k, r_errs s k = None -> fst (rclean cf s) k = None.
Proof.
  intros cf s k H. unfold rclean. destruct (r_last s + c_clean cf <? r_now s); simpl; auto.
  now rewrite H.
Qed.

(* ---- the three outcomes of reserve ---- *)
Inductive start_outcome (cf : rcfg) (s : rst) (c k : N) : rst -> Prop :=
| SO_pending : r_pend s k = true ->
    start_outcome cf s c k
      (mkR (r_now s) (r_pend s) (fst (rclean cf s)) (snd (rclean cf s)) (r_used s)
           (upd (r_thr s) c (RRet RPending)) (add_tid c (r_tids s)))
| SO_cached : forall e exp, r_pend s k = false -> fst (rclean cf s) k = Some (e, exp) -> r_now s <= exp ->
    start_outcome cf s c k
      (mkR (r_now s) (r_pend s) (fst (rclean cf s)) (snd (rclean cf s)) (r_used s)
           (upd (r_thr s) c (RRet (RErr e))) (add_tid c (r_tids s)))
| SO_reserved : r_pend s k = false ->
    (forall e exp, fst (rclean cf s) k = Some (e, exp) -> exp < r_now s) ->
    start_outcome cf s c k
      (mkR (r_now s) (upd (r_pend s) k true) (fst (rclean cf s)) (snd (rclean cf s)) (r_used s)
           (upd (r_thr s) c (RReserved k)) (add_tid c (r_tids s))).

Lemma rstart_outcome : forall cf s c k, startable (r_thr s c) = true ->
  start_outcome cf s c k (rstep cf s (RStart c k)).
Proof.
  intros cf s c k St. cbn [rstep]. rewrite St.
  set (R := rclean cf s). assert (C : R = (fst R, snd R)) by (destruct R; reflexivity).
  rewrite C. cbv beta iota. subst R. destruct (r_pend s k) eqn:P.
  - now apply SO_pending.
  - destruct (fst (rclean cf s) k) as [[e exp] |] eqn:E.
    + unfold cexpired. destruct (N.ltb_spec exp (r_now s)).
      * apply SO_reserved; auto. intros e0 x0 Hx. congruence.
      * eapply SO_cached; eauto.
    + apply SO_reserved; auto. intros e0 x0 Hx. congruence.
Qed.

Lemma rstart_inv : forall cf s c k s', rinv cf s -> startable (r_thr s c) = true ->
  start_outcome cf s c k s' -> rinv cf s'.
Proof.
  intros cf s c k s' I St O.
  assert (Hc : forall k0, holdsb (r_thr s c) k0 = false) by (intro; now apply startable_holds).
  destruct O as [P | e exp P E L | P E].
  - constructor; simpl.
    + intros c0 k0 H. ue c0 c; [ discriminate | eapply q_hold_pend; eauto ].
    + intros c1 c2 k0 H1 H2. ue c1 c; [ discriminate | ]. ue c2 c; [ discriminate | ].
      eapply q_uniq; eauto.
    + intros k0 H. destruct (q_pend_hold cf s I _ H) as (c0 & H0). exists c0.
      ue c0 c; [ rewrite Hc in H0; discriminate | auto ].
    + intros k0 e exp H L. apply rclean_sub in H. eapply q_err_free; eauto.
    + apply (q_used cf s I).
  - constructor; simpl.
    + intros c0 k0 H. ue c0 c; [ discriminate | eapply q_hold_pend; eauto ].
    + intros c1 c2 k0 H1 H2. ue c1 c; [ discriminate | ]. ue c2 c; [ discriminate | ].
      eapply q_uniq; eauto.
    + intros k0 H. destruct (q_pend_hold cf s I _ H) as (c0 & H0). exists c0.
      ue c0 c; [ rewrite Hc in H0; discriminate | auto ].
    + intros k0 e0 x0 H L0. apply rclean_sub in H. eapply q_err_free; eauto.
    + apply (q_used cf s I).
  - constructor; simpl.
    + intros c0 k0 H. ue c0 c.
      * simpl in H. apply N.eqb_eq in H. subst. now rewrite upd_same.
      * ue k0 k; auto. eapply q_hold_pend; eauto.
    + intros c1 c2 k0 H1 H2. ue c1 c; ue c2 c; auto.
      * simpl in H1. apply N.eqb_eq in H1. subst.
        pose proof (q_hold_pend cf s I _ _ H2). congruence.
      * simpl in H2. apply N.eqb_eq in H2. subst.
        pose proof (q_hold_pend cf s I _ _ H1). congruence.
      * eapply q_uniq; eauto.
    + intros k0 H. ue k0 k.
      * exists c. rewrite upd_same. simpl. apply N.eqb_refl.
      * destruct (q_pend_hold cf s I _ H) as (c0 & H0). exists c0.
        ue c0 c; [ rewrite Hc in H0; discriminate | auto ].
    + intros k0 e x0 H L0. ue k0 k.
      * apply E in H. lia.
      * apply rclean_sub in H. eapply q_err_free; eauto.
    + apply (q_used cf s I).
Qed.

Lemma rstep_inv : forall cf s l, rinv cf s -> rinv cf (rstep cf s l).
Proof.
  intros cf s l I. destruct l as [dt | c k | c | c | c | c res | c].
  - simpl. constructor; simpl; try apply I.
    intros k e exp H L. eapply q_err_free; eauto. lia.
  - destruct (startable (r_thr s c)) eqn:St.
    + eapply rstart_inv; eauto. now apply rstart_outcome.
    + simpl. now rewrite St.
  - simpl. destruct (r_thr s c) eqn:E; auto. constructor; simpl; try apply I.
    + intros c0 k0 H. ue c0 c; [ | eapply q_hold_pend; eauto ].
      eapply (q_hold_pend cf s I c). now rewrite E.
    + intros c1 c2 k0 H1 H2.
      assert (forall x, holdsb (upd (r_thr s) c (RArmed k (r_now s + c_busy cf)) x) k0 = holdsb (r_thr s x) k0) as Hx
        by (intro x; ue x c; [ now rewrite E | auto ]).
      rewrite Hx in H1, H2. eapply q_uniq; eauto.
    + intros k0 H. destruct (q_pend_hold cf s I _ H) as (c0 & H0). exists c0.
      ue c0 c; [ now rewrite E in H0 | auto ].
  - simpl. destruct (r_thr s c) eqn:E; auto. destruct (r_used s <? c_workers cf) eqn:W; auto.
    apply N.ltb_lt in W. constructor; simpl; try apply I; try lia.
    + intros c0 k0 H. ue c0 c; [ | eapply q_hold_pend; eauto ].
      eapply (q_hold_pend cf s I c). now rewrite E.
    + intros c1 c2 k0 H1 H2.
      assert (forall x, holdsb (upd (r_thr s) c (RRunning k) x) k0 = holdsb (r_thr s x) k0) as Hx
        by (intro x; ue x c; [ now rewrite E | auto ]).
      rewrite Hx in H1, H2. eapply q_uniq; eauto.
    + intros k0 H. destruct (q_pend_hold cf s I _ H) as (c0 & H0). exists c0.
      ue c0 c; [ now rewrite E in H0 | auto ].
  - simpl. destruct (r_thr s c) eqn:E; auto. destruct (d <=? r_now s); auto.
    assert (Hck : holdsb (r_thr s c) k = true) by (rewrite E; simpl; apply N.eqb_refl).
    constructor; simpl; try apply I.
    + intros c0 k0 H. ue c0 c; [ discriminate | ]. ue k0 k.
      * exfalso. apply n. eapply q_uniq; eauto.
      * eapply q_hold_pend; eauto.
    + intros c1 c2 k0 H1 H2. ue c1 c; [ discriminate | ]. ue c2 c; [ discriminate | ].
      eapply q_uniq; eauto.
    + intros k0 H. ue k0 k; [ discriminate | ].
      destruct (q_pend_hold cf s I _ H) as (c0 & H0). exists c0. ue c0 c; auto.
      exfalso. apply n. eapply holdsb_two; eauto.
    + intros k0 e x0 H L. ue k0 k; auto. eapply q_err_free; eauto.
  - simpl. destruct (r_thr s c) eqn:E; auto.
    assert (Hck : holdsb (r_thr s c) k = true) by (rewrite E; simpl; apply N.eqb_refl).
    constructor; simpl; try apply I.
    + intros c0 k0 H. ue c0 c; [ discriminate | ]. ue k0 k.
      * exfalso. apply n. eapply q_uniq; eauto.
      * eapply q_hold_pend; eauto.
    + intros c1 c2 k0 H1 H2. ue c1 c; [ discriminate | ]. ue c2 c; [ discriminate | ].
      eapply q_uniq; eauto.
    + intros k0 H. ue k0 k; [ discriminate | ].
      destruct (q_pend_hold cf s I _ H) as (c0 & H0). exists c0. ue c0 c; auto.
      exfalso. apply n. eapply holdsb_two; eauto.
    + intros k0 e x0 H L. ue k0 k; auto.
      destruct res as [[e1 nf] |]; [ | eapply q_err_free; eauto ].
      rewrite upd_other in H by assumption. eapply q_err_free; eauto.
  - simpl. destruct (r_thr s c) eqn:E; auto. constructor; simpl; try apply I.
    + intros c0 k0 H. ue c0 c; [ discriminate | eapply q_hold_pend; eauto ].
    + intros c1 c2 k0 H1 H2. ue c1 c; [ discriminate | ]. ue c2 c; [ discriminate | ].
      eapply q_uniq; eauto.
    + intros k0 H. destruct (q_pend_hold cf s I _ H) as (c0 & H0). exists c0.
      ue c0 c; [ now rewrite E in H0 | auto ].
    + pose proof (q_used cf s I). lia.
Qed.

Lemma rrun_from_inv : forall cf ls s, rinv cf s -> rinv cf (rrun cf s ls).
Proof.
  intros. unfold rrun. apply fold_left_inv with (P := rinv cf); auto.
  intros. now apply rstep_inv.
Qed.
Lemma rrun_inv : forall cf ls, rinv cf (rrun cf rinit ls).
Proof. intros. apply rrun_from_inv, rinit_inv. Qed.

(* C29_rc_single_flight: at most one thread has a key reserved or executing *)
Theorem rc_single_holder : forall cf ls c1 c2 k,
  let s := rrun cf rinit ls in
  holdsb (r_thr s c1) k = true -> holdsb (r_thr s c2) k = true -> c1 = c2.
Proof. intros cf ls c1 c2 k s. apply (q_uniq cf s (rrun_inv cf ls)). Qed.

Theorem rc_single_flight : forall cf ls c1 c2 k,
  let s := rrun cf rinit ls in
  r_thr s c1 = RRunning k -> r_thr s c2 = RRunning k -> c1 = c2.
Proof.
  intros cf ls c1 c2 k s H1 H2. apply (rc_single_holder cf ls c1 c2 k); fold s;
    [ rewrite H1 | rewrite H2 ]; simpl; apply N.eqb_refl.
Qed.

(* the worker semaphore is never over-subscribed *)
Theorem rc_workers_bounded : forall cf ls, r_used (rrun cf rinit ls) <= c_workers cf.
Proof. intros. apply (q_used cf _ (rrun_inv cf ls)). Qed.

(* C29_rc_pending_reports: while a thread has k reserved or executing, a Start of k returns
   ErrRequestPending and starts nothing; and ErrRequestPending is only ever reported then *)
Theorem rc_pending_reports : forall cf ls c c' k,
  let s := rrun cf rinit ls in
  holdsb (r_thr s c') k = true -> startable (r_thr s c) = true ->
  let s' := rstep cf s (RStart c k) in
  r_thr s' c = RRet RPending /\ (forall x, x <> c -> r_thr s' x = r_thr s x) /\
  (forall k', r_pend s' k' = r_pend s k') /\ r_used s' = r_used s.
Proof.
  intros cf ls c c' k s H St s'. pose proof (rrun_inv cf ls) as I. fold s in I.
  pose proof (q_hold_pend cf s I _ _ H) as P.
  pose proof (rstart_outcome cf s c k St) as O. fold s' in O.
  destruct O as [P' | e exp P' | P']; try congruence.
  simpl. rewrite upd_same. repeat split; auto. intros x Hx. now rewrite upd_other.
Qed.

Theorem rc_pending_only_if_held : forall cf ls c k,
  let s := rrun cf rinit ls in
  startable (r_thr s c) = true ->
  r_thr (rstep cf s (RStart c k)) c = RRet RPending ->
  exists c', holdsb (r_thr s c') k = true.
Proof.
  intros cf ls c k s St H. pose proof (rrun_inv cf ls) as I. fold s in I.
  pose proof (rstart_outcome cf s c k St) as O.
  destruct O as [P | e exp P E L | P E]; simpl in H; rewrite upd_same in H; try discriminate.
  now apply (q_pend_hold cf s I).
Qed.

(* C29_rc_cached_error_until_expiry, one step: an unexpired cached error is what Start returns,
   nothing is reserved or run *)
Theorem rc_cached_error_reported : forall cf ls c k e exp,
  let s := rrun cf rinit ls in
  r_errs s k = Some (e, exp) -> r_now s <= exp -> startable (r_thr s c) = true ->
  let s' := rstep cf s (RStart c k) in
  r_thr s' c = RRet (RErr e) /\ (forall x, x <> c -> r_thr s' x = r_thr s x) /\
  (forall k', r_pend s' k' = r_pend s k') /\ r_used s' = r_used s /\ r_pend s k = false.
Proof.
  intros cf ls c k e exp s E L St s'. pose proof (rrun_inv cf ls) as I. fold s in I.
  pose proof (q_err_free cf s I _ _ _ E L) as P.
  pose proof (rclean_keep cf s k e exp E L) as C.
  pose proof (rstart_outcome cf s c k St) as O. fold s' in O.
  destruct O as [P' | e0 x0 P' E0 L0 | P' E0]; try congruence.
  - rewrite C in E0. inversion E0; subst. simpl. rewrite upd_same. repeat split; auto.
    intros x Hx. now rewrite upd_other.
  - apply E0 in C. lia.
Qed.

(* the clock only moves forward *)
Lemma rstep_now_mono : forall cf s l, r_now s <= r_now (rstep cf s l).
Proof.
  intros cf s l. destruct l as [dt | c k | c | c | c | c res | c]; simpl; try lia.
  - destruct (startable (r_thr s c)); [ | lia ]. destruct (rclean cf s). destruct (r_pend s k); simpl; try lia.
    destruct (o k) as [[e x] |]; [ destruct (cexpired (r_now s) x) | ]; simpl; lia.
  - destruct (r_thr s c); simpl; lia.
  - destruct (r_thr s c); simpl; try lia. destruct (r_used s <? c_workers cf); simpl; lia.
  - destruct (r_thr s c); simpl; try lia. destruct (d <=? r_now s); simpl; lia.
  - destruct (r_thr s c); simpl; lia.
  - destruct (r_thr s c); simpl; lia.
Qed.
Lemma rrun_now_mono : forall cf ls s, r_now s <= r_now (rrun cf s ls).
Proof.
  intros cf ls. induction ls as [| l r IH]; intro s; simpl; [ lia | ].
  pose proof (rstep_now_mono cf s l). pose proof (IH (rstep cf s l)). unfold rrun in *. lia.
Qed.

(* an unexpired cached error is not touched by any step *)
Lemma rstep_err_persists : forall cf s l k e exp, rinv cf s ->
  r_errs s k = Some (e, exp) -> r_now (rstep cf s l) <= exp ->
  r_errs (rstep cf s l) k = Some (e, exp).
Proof.
  intros cf s l k e exp I E L. destruct l as [dt | c k0 | c | c | c | c res | c]; simpl in *; auto.
  - destruct (startable (r_thr s c)) eqn:St; auto.
    pose proof (rstart_outcome cf s c k0 St) as O. simpl in O. rewrite St in O.
    assert (r_now s <= exp) as L'.
    { destruct (rclean cf s); destruct (r_pend s k0); simpl in L; auto.
      destruct (o k0) as [[? x] |]; [ destruct (cexpired (r_now s) x) | ]; simpl in L; auto. }
    pose proof (rclean_keep cf s k e exp E L') as C.
    destruct (rclean cf s) as [errs last]. simpl in C. destruct (r_pend s k0); simpl; auto.
    destruct (errs k0) as [[? x] |]; [ destruct (cexpired (r_now s) x) | ]; simpl; auto.
  - destruct (r_thr s c); auto.
  - destruct (r_thr s c); auto. destruct (r_used s <? c_workers cf); auto.
  - destruct (r_thr s c); auto. destruct (d <=? r_now s); auto.
  - destruct (r_thr s c) eqn:T; auto. simpl in *.
    destruct res as [[e1 nf] |]; auto. ue k k0; auto.
    exfalso. assert (holdsb (r_thr s c) k0 = true) as H by (rewrite T; simpl; apply N.eqb_refl).
    apply (q_hold_pend cf s I) in H. rewrite (q_err_free cf s I _ _ _ E L) in H. discriminate.
  - destruct (r_thr s c); auto.
Qed.

Lemma rrun_err_persists : forall cf ls s k e exp, rinv cf s ->
  r_errs s k = Some (e, exp) -> r_now (rrun cf s ls) <= exp ->
  r_errs (rrun cf s ls) k = Some (e, exp).
Proof.
  intros cf ls. induction ls as [| l r IH]; intros s k e exp I E L; simpl in *; auto.
  apply IH; auto.
  - now apply rstep_inv.
  - apply rstep_err_persists; auto.
    pose proof (rrun_now_mono cf r (rstep cf s l)). unfold rrun in *. lia.
Qed.

(* C29_rc_cached_error_until_expiry, over histories: after a request for k failed with e at
   time t0, then along EVERY continuation, as long as the clock has not passed t0 + ttl, the error
   is still cached, k is neither reserved nor executing, and a Start of k returns e *)
Theorem rc_cached_error_until_expiry : forall cf ls1 ls2 c c' k e (nf : bool),
  let s1 := rrun cf rinit ls1 in
  r_thr s1 c = RRunning k ->
  let ttl := if nf then c_nf cf else c_err cf in
  let s3 := rrun cf (rstep cf s1 (RFinish c (Some (e, nf)))) ls2 in
  r_now s3 <= r_now s1 + ttl ->
  r_errs s3 k = Some (e, r_now s1 + ttl) /\
  (forall x, holdsb (r_thr s3 x) k = false) /\
  (startable (r_thr s3 c') = true -> r_thr (rstep cf s3 (RStart c' k)) c' = RRet (RErr e)).
Proof.
  intros cf ls1 ls2 c c' k e nf s1 Hc ttl s3 L.
  pose proof (rrun_inv cf ls1) as I1. fold s1 in I1.
  set (s2 := rstep cf s1 (RFinish c (Some (e, nf)))) in *.
  assert (rinv cf s2) as I2 by (apply rstep_inv; auto).
  assert (r_errs s2 k = Some (e, r_now s1 + ttl)) as E2.
  { unfold s2. simpl. rewrite Hc. simpl. now rewrite upd_same. }
  assert (rinv cf s3) as I3 by (apply rrun_from_inv; auto).
  assert (r_errs s3 k = Some (e, r_now s1 + ttl)) as E3 by (apply rrun_err_persists; auto).
  pose proof (q_err_free cf s3 I3 _ _ _ E3 L) as P3.
  split; [ exact E3 | split ].
  - intro x. destruct (holdsb (r_thr s3 x) k) eqn:H; auto.
    apply (q_hold_pend cf s3 I3) in H. congruence.
  - intro St. pose proof (rclean_keep cf s3 k e _ E3 L) as C.
    pose proof (rstart_outcome cf s3 c' k St) as O.
    destruct O as [P' | e0 x0 P' E0 L0 | P' E0]; try congruence.
    + rewrite C in E0. inversion E0; subst. simpl. now rewrite upd_same.
    + apply E0 in C. lia.
Qed.

(* C29_rc_busy_leaves_nothing: a Start that times out waiting for a worker returns
   ErrWorkersBusy and leaves k neither pending nor held; the next Start of k is not told "pending" *)
Theorem rc_busy_leaves_nothing : forall cf ls c c2 k d,
  let s := rrun cf rinit ls in
  r_thr s c = RArmed k d -> d <= r_now s ->
  let s' := rstep cf s (RTimeout c) in
  r_thr s' c = RRet RBusy /\ r_pend s' k = false /\ (forall x, holdsb (r_thr s' x) k = false) /\
  r_used s' = r_used s /\
  (startable (r_thr s' c2) = true -> r_thr (rstep cf s' (RStart c2 k)) c2 <> RRet RPending).
Proof.
  intros cf ls c c2 k d s Hc Hd s'. pose proof (rrun_inv cf ls) as I. fold s in I.
  assert (rinv cf s') as I' by (apply rstep_inv; auto).
  assert (s' = mkR (r_now s) (upd (r_pend s) k false) (r_errs s) (r_last s) (r_used s)
                   (upd (r_thr s) c (RRet RBusy)) (r_tids s)) as Es.
  { unfold s'. simpl. rewrite Hc. apply N.leb_le in Hd. now rewrite Hd. }
  assert (r_pend s' k = false) as P by (rewrite Es; simpl; now rewrite upd_same).
  repeat split.
  - rewrite Es. simpl. now rewrite upd_same.
  - exact P.
  - intro x. destruct (holdsb (r_thr s' x) k) eqn:H; auto.
    apply (q_hold_pend cf s' I') in H. congruence.
  - now rewrite Es.
  - intros St H. pose proof (rstart_outcome cf s' c2 k St) as O.
    destruct O as [P' | e0 x0 P' E0 L0 | P' E0]; simpl in H; rewrite upd_same in H;
      try discriminate; congruence.
Qed.

(* a thread waiting for a worker cannot obtain one while all are taken *)
Theorem rc_no_worker_no_start : forall cf s c, r_used s = c_workers cf ->
  rstep cf s (RWorkerOk c) = s.
Proof.
  intros cf s c H. simpl. destruct (r_thr s c); auto.
  destruct (N.ltb_spec (r_used s) (c_workers cf)); [ lia | auto ].
Qed.
