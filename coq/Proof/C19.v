(* C19: the statements of Properties/C19.v, assembled from C19_inv and C19_prog. *)
From Coq Require Import List NArith Bool Arith Lia.
From K.Model Require Import C19.
From K.Proof Require Import C19_base C19_inv C19_prog C19_obs.
Import ListNotations.

Section Final.
Variable P : Type.
Variable plen : P -> N.
Variable sum : P -> N.

(* safety: over every label sequence from every initial swarm, an agent that completed holds
   exactly the blob, provided the checksum does not collide on the payloads corrupting peers sent *)
Theorem safety : forall (g : cfg P) ps ls x,
  sums_ok P sum g ->
  Forall (cf P plen sum g) (payloads P ls) ->
  completed P (run P plen sum g (init P g ps) ls) x = true ->
  file P g (run P plen sum g (init P g ps) ls) x = map Some (g_blob P g).
Proof.
  intros g ps ls x Hs Hcf Hc. apply (inv_safety P plen sum g); auto.
  apply run_inv; auto. apply init_inv.
Qed.

(* every verified piece holds the blob's bytes, completed or not *)
Theorem verified_piece_is_blob : forall (g : cfg P) ps ls x i,
  sums_ok P sum g ->
  Forall (cf P plen sum g) (payloads P ls) ->
  verified P (run P plen sum g (init P g ps) ls) x i = true ->
  i < npieces P g /\
  p_dat P (peers P (run P plen sum g (init P g ps) ls) x) i = nth_error (g_blob P g) i.
Proof.
  intros g ps ls x i Hs Hcf Hv. apply (inv_verified_data P plen sum g); auto.
  apply run_inv; auto. apply init_inv.
Qed.

Theorem completed_has_all : forall (g : cfg P) ps ls x i,
  sums_ok P sum g ->
  Forall (cf P plen sum g) (payloads P ls) ->
  completed P (run P plen sum g (init P g ps) ls) x = true -> i < npieces P g ->
  verified P (run P plen sum g (init P g ps) ls) x i = true.
Proof.
  intros g ps ls x i Hs Hcf Hc Hi. apply (inv_completed_all P plen sum g); auto.
  apply run_inv; auto. apply init_inv.
Qed.

(* monotonicity: from ANY state, under ANY label (enabled or not), nothing verified is lost *)
Theorem monotone_step : forall (g : cfg P) s l x i,
  verified P s x i = true -> verified P (exec P plen sum g s l) x i = true.
Proof.
  intros g s l x i V. unfold exec. destruct (step P plen sum g s l) eqn:E; auto.
  eapply step_mono; eauto.
Qed.

Theorem monotone : forall (g : cfg P) s ls x i,
  verified P s x i = true -> verified P (run P plen sum g s ls) x i = true.
Proof. intros. now apply run_mono. Qed.

(* progress is always possible *)
Theorem progress_possible : forall (g : cfg P) ps ls a sd i,
  sums_ok P sum g -> limits_ok P g ->
  Forall (cf P plen sum g) (payloads P ls) ->
  let s := run P plen sum g (init P g ps) ls in
  p_up P (peers P s a) = true -> honest P (peers P s a) = true ->
  p_up P (peers P s sd) = true -> honest P (peers P s sd) = true -> completed P s sd = true ->
  i < npieces P g -> verified P s a i = false ->
  exists s',
    run_strict P plen sum g s (plan P plen sum g s a sd i) = Some s'
    /\ verified P s' a i = true
    /\ (forall x j, verified P s x j = true -> verified P s' x j = true)
    /\ payloads P (plan P plen sum g s a sd i) = [].
Proof.
  intros g ps ls a sd i Hs Hl Hcf s Ua Ha Us Hsd Cs Hi V.
  assert (HI : Inv P plen sum g s) by (apply run_inv; auto; apply init_inv).
  destruct (plan_works P plen sum g Hs Hl a sd i s HI Ua Ha Us Hsd Cs Hi V) as (s' & R & V').
  exists s'. split; auto. split; auto. split.
  - intros x j Vx. rewrite <- (run_strict_run P plen sum g _ _ _ R). now apply run_mono.
  - clear. unfold plan.
    assert (E0 : forall (b : bool) (l : label P), payloads P (if b then [l] else []) = payloads P [l] \/ payloads P (if b then [l] else []) = []).
    { intros [] l; auto. }
    assert (St : forall acc f, payloads P (fst acc) = [] -> (forall t, payloads P (f t) = []) ->
                  payloads P (fst (stage P plen sum g acc f)) = []).
    { intros acc f H1 H2. unfold stage. cbn [fst]. rewrite payloads_app, H1, H2. reflexivity. }
    assert (L0 : payloads P (if is_dirty (p_st P (peers P s a) i) then [RecvEnd a i] else []) = []).
    { destruct (is_dirty _); reflexivity. }
    destruct (is_complete _); auto.
    rewrite payloads_app. rewrite St; [reflexivity| |].
    + repeat (apply St; [|intros t; try reflexivity]); auto.
      * destruct (has_conn _ _); reflexivity.
      * destruct (has_conn _ _); reflexivity.
      * destruct (p_conns P (peers P t a)); [reflexivity|]. destruct (Nat.leb _ _); reflexivity.
      * destruct (p_conns P (peers P t sd)); [reflexivity|]. destruct (Nat.leb _ _); reflexivity.
    + intros t. induction (p_reqs P (peers P t a)); cbn; auto.
Qed.

(* the executable form of the property holds on the observations of every model run *)
Theorem check_sound : forall (g : cfg P) (peqb : P -> P -> bool) ps ls,
  sums_ok P sum g -> (forall a b, peqb a b = true <-> a = b) ->
  Forall (cf P plen sum g) (payloads P ls) ->
  C19_check P peqb g (payloads P ls) (run_log P plen sum g (init P g ps) ls)
            (observe P g (run P plen sum g (init P g ps) ls) ps) = true.
Proof. intros g peqb ps ls Hs Hp Hcf. now apply (C19_obs.check_sound P plen sum g Hs peqb Hp). Qed.

End Final.

(* ---- bytes: payloads are byte strings, their length is the list length *)
Definition bytes_of (f : list (option (list N))) : list N :=
  flat_map (fun o => match o with Some b => b | None => [] end) f.

Theorem safety_bytes : forall (sum : list N -> N) (g : cfg (list N)) ps ls x,
  sums_ok (list N) sum g ->
  Forall (cf (list N) (fun b => N.of_nat (length b)) sum g) (payloads (list N) ls) ->
  completed (list N) (run (list N) (fun b => N.of_nat (length b)) sum g (init (list N) g ps) ls) x = true ->
  bytes_of (file (list N) g (run (list N) (fun b => N.of_nat (length b)) sum g (init (list N) g ps) ls) x)
  = concat (g_blob (list N) g).
Proof.
  intros sum g ps ls x Hs Hcf Hc. rewrite (safety _ _ _ g ps ls x Hs Hcf Hc).
  unfold bytes_of. induction (g_blob (list N) g) as [|b t IH]; cbn; auto. now rewrite IH.
Qed.

(* ---- the collision hypothesis is necessary: with a checksum that collides on a payload a
   corrupting peer sends, the agent completes with other bytes *)
Theorem collision_refuted :
  sums_ok nat col_sum col_cfg /\
  let s := run nat col_plen col_sum col_cfg (init nat col_cfg col_peers) col_trace in
  disabled nat col_plen col_sum col_cfg (init nat col_cfg col_peers) col_trace = 0 /\
  completed nat s 0 = true /\ file nat col_cfg s 0 = [Some 7] /\ g_blob nat col_cfg = [0].
Proof. vm_compute. auto. Qed.
