(* C23: the state/filter model refines, host by host, the streak specification over the outcomes
   since the host (re)joined; consequences.  Pure list facts about `status` are in C23_a.v. *)
From Coq Require Import List NArith ZArith Bool Lia Permutation.
From K.Gen Require Import C23_consts.
From K.Model Require Import C23.
From K.Proof Require Import C23_a.
Import ListNotations.
Local Open Scope Z_scope.

(* ---------- sets and maps ---------- *)
Lemma mem_In x l : mem x l = true <-> In x l.
Proof.
  unfold mem. rewrite existsb_exists. split.
  - intros [y [Hy He]]. apply N.eqb_eq in He. subst. exact Hy.
  - intros H. exists x. split; [exact H | apply N.eqb_refl].
Qed.

Lemma mem_cons x a l : mem x (a :: l) = N.eqb x a || mem x l.
Proof. reflexivity. Qed.

Lemma mem_add x a l : mem x (add a l) = N.eqb x a || mem x l.
Proof.
  unfold add. destruct (mem a l) eqn:E; [|reflexivity].
  destruct (N.eqb_spec x a) as [->|Hne]; [rewrite E|]; reflexivity.
Qed.

Lemma mem_filter x f l : mem x (filter f l) = mem x l && f x.
Proof.
  induction l as [|a l IH]; [reflexivity|]. cbn [filter]. destruct (f a) eqn:E.
  - rewrite !mem_cons, IH. destruct (N.eqb_spec x a) as [->|Hne]; cbn [orb]; [rewrite E|]; reflexivity.
  - rewrite mem_cons, IH. destruct (N.eqb_spec x a) as [->|Hne]; cbn [orb]; [|reflexivity].
    rewrite E, andb_false_r. reflexivity.
Qed.

Lemma mem_del x a l : mem x (del a l) = mem x l && negb (N.eqb a x).
Proof. unfold del. apply mem_filter. Qed.

Lemma get_mdel x a m : get x (mdel a m) = if N.eqb a x then 0 else get x m.
Proof.
  induction m as [|[k v] m IH]; cbn [mdel filter get fst].
  - destruct (N.eqb a x); reflexivity.
  - destruct (N.eqb_spec a k) as [->|Hne]; cbn [negb].
    + fold (mdel k m). rewrite IH. destruct (N.eqb_spec k x) as [->|Hne]; [reflexivity|].
      destruct (N.eqb_spec x k); [congruence | reflexivity].
    + cbn [get]. fold (mdel a m). rewrite IH. destruct (N.eqb_spec x k) as [->|Hxk]; [|reflexivity].
      destruct (N.eqb_spec a k); [congruence | reflexivity].
Qed.

Lemma get_put x a v m : get x (put a v m) = if N.eqb x a then v else get x m.
Proof.
  unfold put. cbn [get]. destruct (N.eqb_spec x a) as [->|Hne]; [reflexivity|].
  rewrite get_mdel. destruct (N.eqb_spec a x); [congruence | reflexivity].
Qed.

(* ---------- the state seen from one host ---------- *)
Definition view := (bool * bool * Z)%type.       (* in all?, in healthy?, trend *)
Definition vw (x : N) (s : st) : view := (mem x (all s), mem x (healthy s), get x (trend s)).
Definition vzero : view := (false, false, 0).
Definition vjoin (v : view) : view := let '(a, h, t) := v in if a then v else (true, true, t).
Definition hsync (present : bool) (v : view) : view :=
  if present then vjoin v else (let '(a, h, t) := v in if a then vzero else v).
Definition hfailed (c : cfg) (v : view) : view :=
  let '(a, h, t) := v in
  let t' := Z.max (Z.min (t - 1) (-1)) (- fails c) in
  (a, (if (t' =? - fails c) && h then false else h), t').
Definition hpassed (c : cfg) (v : view) : view :=
  let '(a, h, t) := v in
  let t' := Z.min (Z.max (t + 1) 1) (passes c) in
  (a, (if t' =? passes c then true else h), t').
Definition hcheck (c : cfg) (v : view) (o : bool) : view := if o then hpassed c v else hfailed c v.

Lemma vjoin_idem v : vjoin (vjoin v) = vjoin v.
Proof. destruct v as [[[|] h] t]; reflexivity. Qed.

Lemma vw_sync_add x s a : vw x (sync_add s a) = if N.eqb x a then vjoin (vw x s) else vw x s.
Proof.
  unfold sync_add. destruct (mem a (all s)) eqn:E.
  - destruct (N.eqb_spec x a) as [->|Hne]; [|reflexivity]. unfold vw, vjoin. rewrite E. reflexivity.
  - unfold vw. cbn [all healthy trend]. rewrite !mem_add.
    destruct (N.eqb_spec x a) as [->|Hne]; cbn [orb]; [|reflexivity]. unfold vjoin. rewrite E. reflexivity.
Qed.

Lemma vw_fold_add x l s :
  vw x (fold_left sync_add l s) = if mem x l then vjoin (vw x s) else vw x s.
Proof.
  revert s. induction l as [|a l IH]; intros s; [reflexivity|].
  cbn [fold_left]. rewrite IH, vw_sync_add, mem_cons.
  destruct (N.eqb x a); cbn [orb]; [|reflexivity].
  destruct (mem x l); [apply vjoin_idem | reflexivity].
Qed.

Lemma vw_prune1 x addrs s a :
  vw x (prune1 addrs s a) = if N.eqb x a && negb (mem a addrs) then vzero else vw x s.
Proof.
  unfold prune1. destruct (mem a addrs); cbn [negb]; [rewrite andb_false_r; reflexivity|].
  rewrite andb_true_r. unfold vw. cbn [all healthy trend]. rewrite !mem_del, get_mdel.
  destruct (N.eqb_spec x a) as [->|Hne].
  - rewrite N.eqb_refl. cbn [negb]. rewrite !andb_false_r. reflexivity.
  - destruct (N.eqb_spec a x); [congruence|]. cbn [negb]. rewrite !andb_true_r. reflexivity.
Qed.

Lemma vw_fold_prune x addrs l s :
  vw x (fold_left (prune1 addrs) l s) = if mem x l && negb (mem x addrs) then vzero else vw x s.
Proof.
  revert s. induction l as [|a l IH]; intros s; [reflexivity|].
  cbn [fold_left]. rewrite IH, vw_prune1, mem_cons.
  destruct (N.eqb_spec x a) as [->|Hne]; cbn [orb andb]; [|reflexivity].
  destruct (mem a addrs); cbn [negb]; [rewrite andb_false_r; reflexivity|].
  destruct (mem a l); reflexivity.
Qed.

Lemma vw_sync x s addrs : vw x (sync s addrs) = hsync (mem x addrs) (vw x s).
Proof.
  unfold sync. set (s1 := fold_left sync_add addrs s).
  assert (H1 : vw x s1 = if mem x addrs then vjoin (vw x s) else vw x s) by apply vw_fold_add.
  rewrite vw_fold_prune. change (mem x (all s1)) with (fst (fst (vw x s1))). rewrite H1.
  destruct (mem x addrs); cbn [negb hsync]; [rewrite andb_false_r; reflexivity|].
  rewrite andb_true_r. destruct (vw x s) as [[a h] t]. cbn [fst]. reflexivity.
Qed.

Lemma vw_failed c x s a : vw x (failed c s a) = if N.eqb x a then hfailed c (vw x s) else vw x s.
Proof.
  unfold failed, vw, hfailed. cbn [all healthy trend]. rewrite get_put.
  set (t := Z.max (Z.min (get a (trend s) - 1) (-1)) (- fails c)).
  destruct (N.eqb_spec x a) as [->|Hne].
  - fold t. destruct (t =? - fails c); cbn [andb]; [|reflexivity].
    destruct (mem a (healthy s)) eqn:E; [|rewrite E; reflexivity].
    rewrite mem_del, N.eqb_refl, andb_false_r. reflexivity.
  - destruct ((t =? - fails c) && mem a (healthy s)); [|reflexivity].
    rewrite mem_del. destruct (N.eqb_spec a x); [congruence|]. rewrite andb_true_r. reflexivity.
Qed.

Lemma vw_passed c x s a : vw x (passed c s a) = if N.eqb x a then hpassed c (vw x s) else vw x s.
Proof.
  unfold passed, vw, hpassed. cbn [all healthy trend]. rewrite get_put.
  set (t := Z.min (Z.max (get a (trend s) + 1) 1) (passes c)).
  destruct (N.eqb_spec x a) as [->|Hne].
  - fold t. destruct (t =? passes c); [|reflexivity]. rewrite mem_add, N.eqb_refl. reflexivity.
  - destruct (t =? passes c); [|reflexivity]. rewrite mem_add.
    destruct (N.eqb_spec x a); [congruence|]. reflexivity.
Qed.

Lemma outcomes_cons x a o r :
  outcomes_of x ((a, o) :: r) = if N.eqb x a then o :: outcomes_of x r else outcomes_of x r.
Proof. unfold outcomes_of. cbn [filter fst]. destruct (N.eqb x a); reflexivity. Qed.

Lemma vw_fold_check c x r s :
  vw x (fold_left (check1 c) r s) = fold_left (hcheck c) (outcomes_of x r) (vw x s).
Proof.
  revert s. induction r as [|[a o] r IH]; intros s; [reflexivity|].
  cbn [fold_left]. rewrite IH, outcomes_cons. unfold check1. cbn [fst snd].
  destruct o; [rewrite vw_passed | rewrite vw_failed]; destruct (N.eqb x a); reflexivity.
Qed.

Lemma outcomes_absent x r : mem x (addrs_of r) = false -> outcomes_of x r = [].
Proof.
  induction r as [|[a o] r IH]; [reflexivity|]. unfold addrs_of. cbn [map fst]. rewrite mem_cons.
  intros H. apply orb_false_iff in H. destruct H as [H1 H2]. rewrite outcomes_cons, H1. apply IH. exact H2.
Qed.

(* one Run call, seen from host x: a function of x's view, x's membership and x's outcomes only *)
Definition hrun (c : cfg) (x : N) (r : runop) (v : view) : view :=
  let v1 := hsync (mem x (addrs_of r)) v in
  if single r then v1 else fold_left (hcheck c) (outcomes_of x r) v1.

Lemma frun_view c x s r :
  vw x (fst (frun c s r)) = hrun c x r (vw x s) /\
  mem x (snd (frun c s r)) =
    if single r then mem x (addrs_of r) else snd (fst (hrun c x r (vw x s))).
Proof.
  unfold frun, hrun. destruct (single r); cbn [fst snd].
  - split; [apply vw_sync | reflexivity].
  - change (mem x (healthy (fold_left (check1 c) r (sync s (addrs_of r)))))
      with (snd (fst (vw x (fold_left (check1 c) r (sync s (addrs_of r)))))).
    rewrite vw_fold_check, vw_sync. split; reflexivity.
Qed.

(* ---------- view versus (tenure, status) ---------- *)
Definition rel (c : cfg) (ten : option (list bool)) (v : view) : Prop :=
  match ten with
  | None => v = vzero
  | Some ros => v = (true, status c ros, enc c ros)
  end.

Lemma hcheck_rel c ros o :
  valid c = true ->
  hcheck c (true, status c ros, enc c ros) o = (true, status c (o :: ros), enc c (o :: ros)).
Proof.
  intros Hv. destruct (valid_pos c Hv) as [HF HP].
  pose proof (streak_nonneg true ros) as Kt. pose proof (streak_nonneg false ros) as Kf.
  destruct o; unfold hcheck, hpassed, hfailed.
  - (* passed *)
    assert (Ht : Z.min (Z.max (enc c ros + 1) 1) (passes c) = Z.min (1 + streak true ros) (passes c)).
    { destruct ros as [|[|] r]; unfold enc.
      - cbn [streak]. lia.
      - lia.
      - rewrite (streak_other false true r) by discriminate.
        pose proof (streak_nonneg false r). cbn [streak Bool.eqb]. lia. }
    rewrite Ht. rewrite status_cons. cbn [negb andb]. unfold enc. cbn [streak Bool.eqb].
    f_equal. f_equal.
    destruct (Z.eqb_spec (Z.min (1 + streak true ros) (passes c)) (passes c));
      destruct (Z.leb_spec (passes c) (1 + streak true ros)); try reflexivity; lia.
  - (* failed *)
    assert (Ht : Z.max (Z.min (enc c ros - 1) (-1)) (- fails c) = - Z.min (1 + streak false ros) (fails c)).
    { destruct ros as [|[|] r]; unfold enc.
      - cbn [streak]. lia.
      - rewrite (streak_other true false r) by discriminate.
        pose proof (streak_nonneg true r). cbn [streak Bool.eqb]. lia.
      - lia. }
    rewrite Ht. rewrite status_cons. cbn [negb andb]. unfold enc. cbn [streak Bool.eqb].
    f_equal. f_equal.
    destruct (Z.eqb_spec (- Z.min (1 + streak false ros) (fails c)) (- fails c));
      destruct (Z.leb_spec (fails c) (1 + streak false ros)); cbn [andb]; try reflexivity; try lia.
    destruct (status c ros); reflexivity.
Qed.

Lemma fold_hcheck_rel c l ros :
  valid c = true ->
  fold_left (hcheck c) l (true, status c ros, enc c ros) =
  (true, status c (rev l ++ ros), enc c (rev l ++ ros)).
Proof.
  intros Hv. revert ros. induction l as [|o l IH]; intros ros; [reflexivity|].
  cbn [fold_left rev]. rewrite hcheck_rel by exact Hv. rewrite IH, <- app_assoc. reflexivity.
Qed.

Lemma hrun_rel c x r ten v :
  valid c = true -> rel c ten v -> rel c (tenure_step x ten r) (hrun c x r v).
Proof.
  intros Hv Hr. unfold hrun, tenure_step.
  destruct (mem x (addrs_of r)) eqn:Em.
  - assert (H1 : hsync true v =
                 (true, status c (match ten with Some os => os | None => [] end),
                        enc c (match ten with Some os => os | None => [] end))).
    { destruct ten as [ros|]; cbn [rel] in Hr; subst v; reflexivity. }
    rewrite H1. destruct (single r); cbn [rel]; [reflexivity|].
    apply fold_hcheck_rel. exact Hv.
  - rewrite (outcomes_absent x r Em). cbn [fold_left rel].
    assert (H1 : hsync false v = vzero).
    { destruct ten as [ros|]; cbn [rel] in Hr; subst v; reflexivity. }
    rewrite H1. destruct (single r); reflexivity.
Qed.

Lemma tenure_snoc x h r : tenure x (h ++ [r]) = tenure_step x (tenure x h) r.
Proof. unfold tenure. rewrite fold_left_app. reflexivity. Qed.

(* what the call r returns, given that the state agrees with the history `pre` *)
Lemma frun_spec c pre r s :
  valid c = true ->
  (forall x, rel c (tenure x pre) (vw x s)) ->
  (forall x, rel c (tenure x (pre ++ [r])) (vw x (fst (frun c s r)))) /\
  (forall x, mem x (snd (frun c s r)) = mem x (spec_out c pre r)).
Proof.
  intros Hv Hr. split; intros x; destruct (frun_view c x s r) as [Hs Ho].
  - rewrite Hs, tenure_snoc. apply hrun_rel; [exact Hv | apply Hr].
  - rewrite Ho. unfold spec_out. destruct (single r) eqn:Es; [reflexivity|].
    rewrite mem_filter. unfold healthy_spec. rewrite tenure_snoc.
    pose proof (hrun_rel c x r _ _ Hv (Hr x)) as H. revert H.
    unfold tenure_step. destruct (mem x (addrs_of r)); cbn [rel andb]; rewrite ?Es; intros ->; reflexivity.
Qed.

Definition same_sets (a b : list (list N)) : Prop :=
  Forall2 (fun o so => forall x, mem x o = mem x so) a b.

Lemma run_spec_from c h : forall pre s,
  valid c = true ->
  (forall x, rel c (tenure x pre) (vw x s)) ->
  same_sets (snd (run c s h)) (spec_outs_from c pre h) /\
  (forall x, rel c (tenure x (pre ++ h)) (vw x (fst (run c s h)))).
Proof.
  induction h as [|r h IH]; intros pre s Hv Hr.
  - cbn [run spec_outs_from fst snd]. rewrite app_nil_r. split; [constructor | exact Hr].
  - cbn [run spec_outs_from]. destruct (frun_spec c pre r s Hv Hr) as [Hs Ho].
    destruct (frun c s r) as [s1 o] eqn:Ef. cbn [fst snd] in Hs, Ho.
    destruct (IH (pre ++ [r]) s1 Hv Hs) as [IH1 IH2].
    destruct (run c s1 h) as [s2 os]. cbn [fst snd] in *. split.
    + constructor; [exact Ho | exact IH1].
    + intros x. replace (pre ++ r :: h) with ((pre ++ [r]) ++ h) by (rewrite <- app_assoc; reflexivity). apply IH2.
Qed.

Lemma rel_init c x : rel c (tenure x []) (vw x init).
Proof. reflexivity. Qed.

(* ---------- main refinement ---------- *)
Theorem refines_spec c h : valid c = true -> same_sets (outs c h) (spec_outs c h).
Proof.
  intros Hv. unfold outs, spec_outs. apply (run_spec_from c h [] init Hv). intros x. apply rel_init.
Qed.

Theorem state_rel c h x :
  valid c = true -> rel c (tenure x h) (vw x (fst (run c init h))).
Proof.
  intros Hv. apply (run_spec_from c h [] init Hv). intros y. apply rel_init.
Qed.

(* pointwise form: what Run returns after the calls pre *)
Theorem run_returns c pre r x :
  valid c = true ->
  mem x (snd (frun c (fst (run c init pre)) r)) =
  if single r then mem x (addrs_of r) else mem x (addrs_of r) && healthy_spec c x (pre ++ [r]).
Proof.
  intros Hv.
  destruct (frun_spec c pre r (fst (run c init pre)) Hv (fun y => state_rel c pre y Hv)) as [_ Ho].
  rewrite Ho. unfold spec_out. destruct (single r); [reflexivity|]. apply mem_filter.
Qed.

(* ---------- clauses ---------- *)

(* a list with a single host always reports it healthy -- in any state whatsoever *)
Theorem single_host_healthy c s a o : snd (frun c s [(a, o)]) = [a].
Proof. reflexivity. Qed.

(* the result is a subset of the list *)
Theorem subset c pre r x :
  valid c = true -> mem x (snd (frun c (fst (run c init pre)) r)) = true -> mem x (addrs_of r) = true.
Proof.
  intros Hv. rewrite run_returns by exact Hv. destruct (single r); [tauto|].
  intros H. apply andb_true_iff in H. tauto.
Qed.

Lemma last_snoc {A} (l : list A) a d : last (l ++ [a]) d = a.
Proof. induction l as [|b l IH]; [reflexivity|]. cbn [app]. destruct (l ++ [a]) eqn:E; [destruct l; discriminate|]. exact IH. Qed.

(* None = the host is not in the list of the latest call *)
Theorem tenure_none_iff x h :
  tenure x h = None <-> h = [] \/ mem x (addrs_of (last h [])) = false.
Proof.
  destruct h as [|r0 h0]; [split; [left; reflexivity | reflexivity]|].
  destruct (@exists_last _ (r0 :: h0)) as [h' [r E]]; [discriminate|]. rewrite E. clear E r0 h0.
  rewrite tenure_snoc, last_snoc. unfold tenure_step.
  destruct (mem x (addrs_of r)).
  - split; [destruct (single r); discriminate|]. intros [H|H]; [destruct h'; discriminate | discriminate].
  - split; [right|]; reflexivity.
Qed.

(* a host that was not in the previous list starts a fresh history: nothing of what happened
   before it (re)joined is remembered *)
Theorem rejoin_fresh x pre r :
  tenure x pre = None -> mem x (addrs_of r) = true ->
  tenure x (pre ++ [r]) = Some (if single r then [] else rev (outcomes_of x r)).
Proof.
  intros Hn Hm. rewrite tenure_snoc, Hn. unfold tenure_step. rewrite Hm.
  destruct (single r); [reflexivity|]. rewrite app_nil_r. reflexivity.
Qed.

Lemma outcomes_unique x o r :
  NoDup (addrs_of r) -> In (x, o) r -> outcomes_of x r = [o].
Proof.
  induction r as [|[a b] r IH]; intros Hnd Hin; [contradiction|].
  unfold addrs_of in Hnd. cbn [map fst] in Hnd. inversion Hnd as [|? ? Hna Hnd']; subst.
  rewrite outcomes_cons. destruct Hin as [E|Hin].
  - injection E as -> ->. rewrite N.eqb_refl. f_equal. apply outcomes_absent.
    destruct (mem x (addrs_of r)) eqn:Em; [|reflexivity]. apply mem_In in Em. contradiction.
  - destruct (N.eqb_spec x a) as [->|Hne]; [|apply IH; assumption].
    exfalso. apply Hna. change a with (fst (a, o)). apply in_map. exact Hin.
Qed.

(* ... and therefore starts healthy: in the call in which it (re)joins it is returned unless
   Fails = 1 and that very check failed *)
Theorem new_and_rejoined_start_healthy c pre r x o :
  valid c = true -> tenure x pre = None -> single r = false ->
  NoDup (addrs_of r) -> In (x, o) r ->
  mem x (snd (frun c (fst (run c init pre)) r)) = (1 <? fails c) || o.
Proof.
  intros Hv Hn Hs Hnd Hin. destruct (valid_pos c Hv) as [HF HP].
  assert (Hm : mem x (addrs_of r) = true).
  { apply mem_In. change x with (fst (x, o)). apply in_map. exact Hin. }
  rewrite run_returns by exact Hv. rewrite Hs, Hm. cbn [andb]. unfold healthy_spec.
  rewrite (rejoin_fresh x pre r Hn Hm), Hs, (outcomes_unique x o r Hnd Hin). cbn [rev app].
  rewrite status_cons. cbn [status streak Bool.eqb]. destruct o; cbn [negb andb orb Bool.eqb].
  - rewrite orb_true_r. destruct (passes c <=? 1 + 0); reflexivity.
  - rewrite orb_false_r. destruct (Z.leb_spec (fails c) (1 + 0)); destruct (Z.ltb_spec 1 (fails c)); try reflexivity; lia.
Qed.

(* the set `all` is exactly the latest list (with the fix it no longer grows for ever) *)
Theorem all_is_latest_list c h x :
  valid c = true ->
  mem x (all (fst (run c init h))) = match tenure x h with Some _ => true | None => false end.
Proof.
  intros Hv. pose proof (state_rel c h x Hv) as H. unfold vw in H.
  destruct (tenure x h); cbn [rel] in H; unfold vzero in H; congruence.
Qed.

(* the whole state, host by host: membership, health and the trend counter *)
Theorem state_is_spec c h x :
  valid c = true ->
  let s := fst (run c init h) in
  match tenure x h with
  | None => mem x (all s) = false /\ mem x (healthy s) = false /\ get x (trend s) = 0
  | Some ros => mem x (all s) = true /\ mem x (healthy s) = status c ros /\ get x (trend s) = enc c ros
  end.
Proof.
  intros Hv s. pose proof (state_rel c h x Hv) as H. fold s in H. unfold vw in H.
  destruct (tenure x h); cbn [rel] in H; unfold vzero in H; injection H as H1 H2 H3; auto.
Qed.

(* the counter stays within [-Fails, Passes] *)
Lemma enc_bounds c ros : valid c = true -> - fails c <= enc c ros <= passes c.
Proof.
  intros Hv. destruct (valid_pos c Hv) as [HF HP].
  pose proof (streak_nonneg true ros). pose proof (streak_nonneg false ros).
  destruct ros as [|[|] r]; unfold enc; lia.
Qed.

Theorem trend_bounded c h x :
  valid c = true -> - fails c <= get x (trend (fst (run c init h))) <= passes c.
Proof.
  intros Hv. pose proof (state_is_spec c h x Hv) as H. cbv zeta in H.
  destruct (valid_pos c Hv) as [HF HP].
  destruct (tenure x h) as [ros|]; destruct H as [_ [_ H]]; rewrite H; [apply enc_bounds; exact Hv | lia].
Qed.

(* monitor.go: Resolve() returns the host list before the first iteration and afterwards what
   the latest Run returned *)
Theorem monitor_latest c i h : monitor c i h = i :: outs c h.
Proof. reflexivity. Qed.

(* ---------- the order in which the goroutines of one Run update the state is irrelevant ---------- *)
Lemma perm_filter {A} (f : A -> bool) l l' : Permutation l l' -> Permutation (filter f l) (filter f l').
Proof.
  induction 1 as [|a l l' _ IH|a b l|l l' l'' _ IH1 _ IH2]; cbn [filter].
  - constructor.
  - destruct (f a); [constructor|]; exact IH.
  - destruct (f a), (f b); try apply Permutation_refl. apply perm_swap.
  - eapply Permutation_trans; eassumption.
Qed.

Lemma filter_host_short x r :
  NoDup (addrs_of r) -> (length (filter (fun ab : N * bool => N.eqb x (fst ab)) r) <= 1)%nat.
Proof.
  induction r as [|[a o] r IH]; intros Hnd; [cbn; lia|].
  unfold addrs_of in Hnd. cbn [map fst] in Hnd. inversion Hnd as [|? ? Hna Hnd']; subst.
  cbn [filter fst]. destruct (N.eqb_spec x a) as [->|Hne]; [|apply IH; exact Hnd'].
  assert (E : filter (fun ab : N * bool => N.eqb a (fst ab)) r = []).
  { clear IH Hnd Hnd'. induction r as [|[k v] r IHr]; [reflexivity|]. cbn [filter fst].
    unfold addrs_of in Hna. cbn [map fst] in Hna.
    destruct (N.eqb_spec a k) as [->|Hk]; [exfalso; apply Hna; left; reflexivity|].
    apply IHr. intros Hi. apply Hna. right. exact Hi. }
  rewrite E. cbn. lia.
Qed.

Lemma perm_outcomes x r r' :
  NoDup (addrs_of r) -> Permutation r r' -> outcomes_of x r = outcomes_of x r'.
Proof.
  intros Hnd Hp. unfold outcomes_of.
  pose proof (perm_filter (fun ab : N * bool => N.eqb x (fst ab)) r r' Hp) as Hpf.
  pose proof (filter_host_short x r Hnd) as Hlen.
  destruct (filter (fun ab : N * bool => N.eqb x (fst ab)) r) as [|p [|q t]] eqn:E.
  - apply Permutation_nil in Hpf. rewrite Hpf. reflexivity.
  - apply Permutation_length_1_inv in Hpf. rewrite Hpf. reflexivity.
  - cbn in Hlen. lia.
Qed.

Lemma perm_mem x r r' : Permutation r r' -> mem x (addrs_of r) = mem x (addrs_of r').
Proof.
  intros Hp. assert (Hq : Permutation (addrs_of r) (addrs_of r')) by (apply Permutation_map; exact Hp).
  destruct (mem x (addrs_of r)) eqn:E1, (mem x (addrs_of r')) eqn:E2; try reflexivity.
  - apply mem_In in E1. apply (Permutation_in _ Hq) in E1. apply mem_In in E1. congruence.
  - apply mem_In in E2. apply (Permutation_in _ (Permutation_sym Hq)) in E2. apply mem_In in E2. congruence.
Qed.

Lemma perm_hrun c x r r' v :
  NoDup (addrs_of r) -> Permutation r r' -> hrun c x r v = hrun c x r' v.
Proof.
  intros Hnd Hp. unfold hrun, single.
  rewrite (perm_mem x r r' Hp), (perm_outcomes x r r' Hnd Hp), (Permutation_length Hp). reflexivity.
Qed.

Definition veq (s s' : st) : Prop := forall x, vw x s = vw x s'.

Lemma frun_veq c s s' r r' :
  veq s s' -> NoDup (addrs_of r) -> Permutation r r' ->
  veq (fst (frun c s r)) (fst (frun c s' r')) /\
  (forall x, mem x (snd (frun c s r)) = mem x (snd (frun c s' r'))).
Proof.
  intros He Hnd Hp. split; intros x;
    destruct (frun_view c x s r) as [H1 H2]; destruct (frun_view c x s' r') as [H1' H2'].
  - rewrite H1, H1', (He x). apply perm_hrun; assumption.
  - rewrite H2, H2', (He x), (perm_hrun c x r r' _ Hnd Hp), (perm_mem x r r' Hp).
    unfold single. rewrite (Permutation_length Hp). reflexivity.
Qed.

Lemma frun_veq_same c s s' r :
  veq s s' ->
  veq (fst (frun c s r)) (fst (frun c s' r)) /\
  (forall x, mem x (snd (frun c s r)) = mem x (snd (frun c s' r))).
Proof.
  intros He. split; intros x;
    destruct (frun_view c x s r) as [H1 H2]; destruct (frun_view c x s' r) as [H1' H2'].
  - rewrite H1, H1', (He x). reflexivity.
  - rewrite H2, H2', (He x). reflexivity.
Qed.

Lemma run_veq c h : forall s s', veq s s' -> same_sets (snd (run c s h)) (snd (run c s' h)).
Proof.
  induction h as [|r h IH]; intros s s' He; cbn [run]; [constructor|].
  destruct (frun_veq_same c s s' r He) as [He1 Ho].
  destruct (frun c s r) as [s1 o]. destruct (frun c s' r) as [s1' o']. cbn [fst snd] in *.
  specialize (IH s1 s1' He1).
  destruct (run c s1 h) as [s2 os]. destruct (run c s1' h) as [s2' os']. cbn [snd] in *.
  constructor; assumption.
Qed.

Lemma run_perm_from c h1 : forall s s' r r' h2,
  veq s s' -> NoDup (addrs_of r) -> Permutation r r' ->
  same_sets (snd (run c s (h1 ++ r :: h2))) (snd (run c s' (h1 ++ r' :: h2))).
Proof.
  induction h1 as [|a h1 IH]; intros s s' r r' h2 He Hnd Hp; cbn [app run].
  - destruct (frun_veq c s s' r r' He Hnd Hp) as [He1 Ho].
    destruct (frun c s r) as [s1 o]. destruct (frun c s' r') as [s1' o']. cbn [fst snd] in *.
    pose proof (run_veq c h2 s1 s1' He1) as H.
    destruct (run c s1 h2) as [s2 os]. destruct (run c s1' h2) as [s2' os']. cbn [snd] in *.
    constructor; assumption.
  - destruct (frun_veq_same c s s' a He) as [He1 Ho].
    destruct (frun c s a) as [s1 o]. destruct (frun c s' a) as [s1' o']. cbn [fst snd] in *.
    specialize (IH s1 s1' r r' h2 He1 Hnd Hp).
    destruct (run c s1 (h1 ++ r :: h2)) as [s2 os]. destruct (run c s1' (h1 ++ r' :: h2)) as [s2' os']. cbn [snd] in *.
    constructor; assumption.
Qed.

Theorem schedule_independent c h1 r r' h2 :
  NoDup (addrs_of r) -> Permutation r r' ->
  same_sets (outs c (h1 ++ r :: h2)) (outs c (h1 ++ r' :: h2)).
Proof. intros Hnd Hp. unfold outs. apply run_perm_from; [intros x; reflexivity | exact Hnd | exact Hp]. Qed.

(* ---------- defaults and the executable oracle ---------- *)
Theorem defaults_valid f p : 0 <= f -> 0 <= p -> valid (apply_defaults f p) = true.
Proof.
  intros Hf Hp. unfold valid, apply_defaults. cbn [fails passes].
  assert (D1 : 1 <= default_fails) by (vm_compute; discriminate).
  assert (D2 : 1 <= default_passes) by (vm_compute; discriminate).
  apply andb_true_iff. split; apply Z.leb_le.
  - destruct (Z.eqb_spec f 0); lia.
  - destruct (Z.eqb_spec p 0); lia.
Qed.

Lemma set_eqb_of_mem a b : (forall x, mem x a = mem x b) -> set_eqb a b = true.
Proof.
  intros H. unfold set_eqb. apply andb_true_iff. split; apply forallb_forall; intros x Hx.
  - rewrite <- H. apply mem_In. exact Hx.
  - rewrite H. apply mem_In. exact Hx.
Qed.

Lemma sets_eqb_of_same a b : same_sets a b -> sets_eqb a b = true.
Proof.
  induction 1 as [|x y a b Hxy _ IH]; [reflexivity|]. cbn [sets_eqb].
  rewrite (set_eqb_of_mem x y Hxy), IH. reflexivity.
Qed.

Theorem check_sound f p h : C23_check f p h (outs (apply_defaults f p) h) = true.
Proof.
  unfold C23_check. destruct (valid (apply_defaults f p)) eqn:Hv; [|reflexivity].
  apply sets_eqb_of_same. apply refines_spec. exact Hv.
Qed.

Theorem check_mon_sound f p i h : C23_check_mon f p i h (monitor (apply_defaults f p) i h) = true.
Proof.
  unfold C23_check_mon, monitor. destruct (valid (apply_defaults f p)) eqn:Hv; [|reflexivity].
  apply sets_eqb_of_same. constructor; [reflexivity | apply refines_spec; exact Hv].
Qed.

(* ---------- the code at the pinned commit violates the rejoin clause ---------- *)
Definition wit_rejoin : list runop :=
  [[(0, true); (1, true)]; [(0, true); (2, true)]; [(0, true); (1, true); (2, true)]]%N.
Definition wit_single : list runop :=
  [[(0, true); (1, false)]; [(0, true); (1, false)]; [(0, true)]; [(0, true); (1, true)]]%N.

(* host 1, healthy throughout, leaves and rejoins with a passing check: the specification (and
   the fixed code) return it, the pinned code does not *)
Theorem rejoin_refuted :
  exists c h x, valid c = true /\ tenure x h = Some [true] /\
                mem x (last (spec_outs c h) []) = true /\ mem x (last (outs c h) []) = true /\
                mem x (last (outs_prefix c h) []) = false.
Proof. exists (mkcfg 2 2), wit_rejoin, 1%N. vm_compute. repeat split; reflexivity. Qed.

(* pruning `all` alone is not enough: while the list has a single host Run does not sync, so a
   host that was unhealthy before the list shrank is still unhealthy when it rejoins *)
Theorem single_skip_refuted :
  exists c h x, valid c = true /\ tenure x h = Some [true] /\
                mem x (last (spec_outs c h) []) = true /\ mem x (last (outs c h) []) = true /\
                mem x (last (outs_halffix c h) []) = false.
Proof. exists (mkcfg 2 2), wit_single, 1%N. vm_compute. repeat split; reflexivity. Qed.

Lemma nonvacuous_schedule :
  Permutation [(0, false); (1, true); (2, false)]%N [(2, false); (0, false); (1, true)]%N /\
  NoDup (addrs_of [(0, false); (1, true); (2, false)]%N).
Proof.
  split.
  - apply Permutation_sym. apply (Permutation_cons_app [(0, false); (1, true)]%N [] (2%N, false)).
    rewrite app_nil_r. apply Permutation_refl.
  - vm_compute. repeat constructor; cbn; intuition discriminate.
Qed.
