(* Proofs about the model of httputil.Send's retry loop (Model/C34.v). *)
From Coq Require Import List NArith Bool Lia Arith.
From K.Model Require Import C34.
Import ListNotations.

(* ---------------------------------------------------------------- basics *)

Lemma listN_eqb_refl : forall l, listN_eqb l l = true.
Proof. induction l as [|x l IH]; cbn [listN_eqb]; [reflexivity|]. now rewrite N.eqb_refl, IH. Qed.

Lemma hdrs_eqb_refl : forall l, hdrs_eqb l l = true.
Proof.
  induction l as [|[a b] l IH]; cbn [hdrs_eqb]; [reflexivity|]. now rewrite !N.eqb_refl, IH.
Qed.

Lemma loop_unfold : forall fx c q kd body bo script rem,
  loop fx c q kd body bo script rem =
  let '(ts, o, script', rem') := attempt fx c q kd body script rem in
  if retry_outcome fx c o then
    match bo with
    | true :: bo' =>
        if can_replay fx kd then
          let '(ts2, res, nb) := loop fx c q kd body bo' script' rem' in
          (ts ++ ts2, res, N.succ nb)
        else (ts, final c o, 1%N)
    | _ => (ts, final c o, 1%N)
    end
  else (ts, final c o, 0%N).
Proof. intros; destruct bo; reflexivity. Qed.

(* the retry decision of the fixed code never retries an accepted code *)
Lemma retry_not_accepted : forall c code,
  retry_outcome fixed c (Some code) = true -> memN code (c_accepted c) = false.
Proof.
  intros c code H. cbn [retry_outcome fixed f_accept negb orb] in H.
  destruct (memN code (c_accepted c)); [|reflexivity].
  cbn [negb] in H. rewrite !andb_false_r in H. discriminate.
Qed.

(* ---------------------------------------------------------------- one attempt (fixed code) *)

Section Attempt.
Variables (c : cfg) (q : req) (kd : bkind) (body : list N).

Definition good_trip (t : trip) : Prop :=
  t_method t = q_method q /\ t_url t = q_url q /\ t_hdrs t = q_hdrs q /\
  t_offered t = body0 kd body /\ (t_https t = c_https c \/ t_https t = false).

(* what one attempt of the fixed code looks like: one round trip with the caller's scheme,
   possibly followed by one http fallback round trip after a transport error *)
Inductive attempt_shape (script : list rt) : list trip -> option N -> list rt -> Prop :=
| as_one : forall off,
    off = body0 kd body ->
    attempt_shape script [mk_trip q (c_https c) off (hd default_rt script)]
                  (r_out (hd default_rt script)) (tl script)
| as_two : forall off,
    off = body0 kd body ->
    r_out (hd default_rt script) = None -> c_https c = true -> c_fallback c = true ->
    kd <> BStream ->
    attempt_shape script
      [mk_trip q true off (hd default_rt script); mk_trip q false off (hd default_rt (tl script))]
      (r_out (hd default_rt (tl script))) (tl (tl script)).

Lemma offer_fixed : forall rem, (kd = BStream -> rem = body) -> offer fixed kd body rem = body0 kd body.
Proof. intros rem H. destruct kd; cbn; auto. Qed.

Lemma attempt_fixed_shape : forall script rem ts o script' rem',
  (kd = BStream -> rem = body) ->
  attempt fixed c q kd body script rem = (ts, o, script', rem') ->
  attempt_shape script ts o script'.
Proof.
  intros script rem ts o script' rem' Hrem H. unfold attempt in H.
  rewrite (offer_fixed rem Hrem) in H.
  destruct (r_out (hd default_rt script)) as [code|] eqn:Eo.
  - inversion H; subst. rewrite <- Eo. now apply as_one.
  - destruct (c_https c) eqn:Eh; cbn [andb] in H.
    + destruct (c_fallback c) eqn:Ef; cbn [andb] in H.
      * destruct (can_replay fixed kd) eqn:Ec.
        -- assert (Hoff : offer fixed kd body (drop_opt (r_read (hd default_rt script)) rem) = body0 kd body).
           { destruct kd; cbn in *; try reflexivity. discriminate. }
           rewrite Hoff in H. inversion H; subst. apply as_two; auto.
           destruct kd; cbn in Ec; congruence.
        -- inversion H; subst. rewrite <- Eo, <- Eh. now apply as_one.
      * inversion H; subst. rewrite <- Eo, <- Eh. now apply as_one.
    + inversion H; subst. rewrite <- Eo, <- Eh. now apply as_one.
Qed.

End Attempt.

(* ---------------------------------------------------------------- the loop as a relation *)

Section Loop.
Variables (c : cfg) (q : req) (kd : bkind) (body : list N).

Inductive runs : list bool -> list rt -> list trip * result * N -> Prop :=
| run_done : forall bo script ts o script',
    attempt_shape c q kd body script ts o script' ->
    retry_outcome fixed c o = false ->
    runs bo script (ts, final c o, 0%N)
| run_stop : forall bo script ts o script',
    attempt_shape c q kd body script ts o script' ->
    retry_outcome fixed c o = true ->
    (go_prefix bo = O \/ kd = BStream) ->
    runs bo script (ts, final c o, 1%N)
| run_more : forall bo script ts o script' ts2 res nb,
    attempt_shape c q kd body script ts o script' ->
    retry_outcome fixed c o = true ->
    kd <> BStream ->
    runs bo script' (ts2, res, nb) ->
    runs (true :: bo) script (ts ++ ts2, res, N.succ nb).

Lemma loop_runs : forall bo script rem,
  (kd = BStream -> rem = body) ->
  runs bo script (loop fixed c q kd body bo script rem).
Proof.
  induction bo as [|b bo IH]; intros script rem Hrem; rewrite loop_unfold;
    destruct (attempt fixed c q kd body script rem) as [[[ts o] script'] rem'] eqn:Ea;
    pose proof (attempt_fixed_shape c q kd body script rem ts o script' rem' Hrem Ea) as Hs;
    destruct (retry_outcome fixed c o) eqn:Er.
  - eapply run_stop; eauto.
  - eapply run_done; eauto.
  - destruct b.
    + destruct (can_replay fixed kd) eqn:Ec.
      * assert (Hk : kd <> BStream) by (destruct kd; cbn in Ec; congruence).
        specialize (IH script' rem' (fun E => False_ind _ (Hk E))).
        destruct (loop fixed c q kd body bo script' rem') as [[ts2 res] nb].
        eapply run_more; eauto.
      * eapply run_stop; eauto. right. destruct kd; cbn in Ec; congruence.
    + eapply run_stop; eauto.
  - eapply run_done; eauto.
Qed.

(* ---- facts about one attempt *)

Lemma shape_good : forall script ts o script',
  attempt_shape c q kd body script ts o script' -> forall t, In t ts -> good_trip c q kd body t.
Proof.
  intros script ts o script' H t Hin. unfold good_trip.
  destruct H as [off Hoff | off Hoff Ho Hh]; subst off; cbn [In] in Hin.
  - destruct Hin as [<-|[]]. cbn. auto 6.
  - destruct Hin as [<-|[<-|[]]]; cbn; rewrite ?Hh; auto 6.
Qed.

(* the last round trip of an attempt carries its outcome; an earlier one failed *)
Lemma shape_last : forall script ts o script',
  attempt_shape c q kd body script ts o script' ->
  exists pre t, ts = pre ++ [t] /\ t_out t = o /\ t_offered t = body0 kd body /\
                forall t', In t' pre -> t_out t' = None.
Proof.
  intros script ts o script' H.
  destruct H as [off Hoff | off Hoff Ho Hh]; subst off.
  - exists [], (mk_trip q (c_https c) (body0 kd body) (hd default_rt script)).
    cbn. repeat split; auto. intros t' [].
  - exists [mk_trip q true (body0 kd body) (hd default_rt script)],
           (mk_trip q false (body0 kd body) (hd default_rt (tl script))).
    cbn. repeat split; auto. intros t' [<-|[]]. exact Ho.
Qed.

Definition primary_t (t : trip) : bool := primary c (t_https t).

Lemma shape_count : forall script ts o script',
  attempt_shape c q kd body script ts o script' ->
  length (filter primary_t ts) = 1%nat /\ (1 <= length ts <= 2)%nat.
Proof.
  intros script ts o script' H.
  destruct H as [off Hoff | off Hoff Ho Hh]; unfold primary_t, primary; cbn.
  - rewrite eqb_reflx. cbn. lia.
  - rewrite Hh. cbn. lia.
Qed.

(* ---- clause 1 *)
Lemma runs_good : forall bo script out,
  runs bo script out -> forall t, In t (fst (fst out)) -> good_trip c q kd body t.
Proof.
  intros bo script out H. induction H as [bo script ts o script' Hs Hr | bo script ts o script' Hs Hr Hb
                                         | bo script ts o script' ts2 res nb Hs Hr Hk Hrun IH];
    cbn [fst] in *; intros t Hin.
  - eapply shape_good; eauto.
  - eapply shape_good; eauto.
  - apply in_app_or in Hin. destruct Hin as [Hin|Hin]; [eapply shape_good; eauto | auto].
Qed.

(* ---- the result is decided by the outcome of the last round trip *)
Lemma runs_last : forall bo script ts res nb,
  runs bo script (ts, res, nb) ->
  exists pre t, ts = pre ++ [t] /\ res = final c (t_out t) /\ t_offered t = body0 kd body.
Proof.
  intros bo script ts res nb H. remember (ts, res, nb) as out eqn:Eout. revert ts res nb Eout.
  induction H as [bo script ts o script' Hs Hr | bo script ts o script' Hs Hr Hb
                 | bo script ts o script' ts2 res nb Hs Hr Hk Hrun IH];
    intros ts0 res0 nb0 Eout; inversion Eout; subst.
  - destruct (shape_last _ _ _ _ Hs) as (pre & t & -> & Ho & Hoff & _). exists pre, t. now rewrite Ho.
  - destruct (shape_last _ _ _ _ Hs) as (pre & t & -> & Ho & Hoff & _). exists pre, t. now rewrite Ho.
  - destruct (IH ts2 res0 nb eq_refl) as (pre & t & -> & Hres & Hoff).
    exists (ts ++ pre), t. now rewrite app_assoc.
Qed.

Lemma final_ok : forall o code, final c o = ROk code -> o = Some code /\ memN code (c_accepted c) = true.
Proof.
  intros [code'|] code H; cbn in H; [|discriminate].
  destruct (memN code' (c_accepted c)) eqn:E; inversion H; subst; auto.
Qed.

(* ---- clause 3: a round trip answered with an accepted code ends the call successfully *)
Lemma runs_accepted_last : forall bo script out,
  runs bo script out ->
  forall pre t post code,
    fst (fst out) = pre ++ t :: post -> t_out t = Some code -> memN code (c_accepted c) = true ->
    post = [] /\ snd (fst out) = ROk code.
Proof.
  intros bo script out H.
  (* within one attempt only the last round trip can have a status *)
  assert (Hatt : forall script ts o script', attempt_shape c q kd body script ts o script' ->
            forall pre t post code, ts = pre ++ t :: post -> t_out t = Some code ->
            post = [] /\ o = Some code).
  { intros script0 ts o script' Hs pre t post code E Ho.
    destruct (shape_last _ _ _ _ Hs) as (pre' & t' & E' & Ho' & _ & Hnone).
    rewrite E' in E.
    destruct post as [|p post].
    - apply app_inj_tail in E. destruct E as [_ ->]. split; [reflexivity|]. congruence.
    - exfalso. assert (Hin : In t pre').
      { assert (E2 : pre' ++ [t'] = (pre ++ t :: removelast (p :: post)) ++ [last (p :: post) t]).
        { rewrite E. rewrite <- app_assoc. cbn [app]. f_equal. f_equal.
          apply app_removelast_last. discriminate. }
        apply app_inj_tail in E2. destruct E2 as [-> _]. apply in_or_app. right. now left. }
      apply Hnone in Hin. congruence. }
  induction H as [bo script ts o script' Hs Hr | bo script ts o script' Hs Hr Hb
                 | bo script ts o script' ts2 res nb Hs Hr Hk Hrun IH];
    cbn [fst snd] in *; intros pre t post code E Ho Hacc.
  - destruct (Hatt _ _ _ _ Hs _ _ _ _ E Ho) as [-> ->]. split; [reflexivity|].
    cbn. now rewrite Hacc.
  - destruct (Hatt _ _ _ _ Hs _ _ _ _ E Ho) as [-> ->]. split; [reflexivity|].
    cbn. now rewrite Hacc.
  - (* is t in this attempt or in the rest? *)
    destruct (shape_last _ _ _ _ Hs) as (pre' & t' & E' & Ho' & _ & Hnone).
    assert (Hnot : forall x, In x ts -> t_out x <> Some code).
    { intros x Hin. rewrite E' in Hin. apply in_app_or in Hin. destruct Hin as [Hin|[<-|[]]].
      - rewrite (Hnone _ Hin). discriminate.
      - rewrite Ho'. intros ->. apply retry_not_accepted in Hr. congruence. }
    (* split pre ++ t :: post = ts ++ ts2 *)
    assert (Hsplit : exists pre2, pre = ts ++ pre2 /\ ts2 = pre2 ++ t :: post).
    { clear - E Hnot Ho. revert pre E. induction ts as [|x ts IHts]; intros pre E.
      - exists pre. auto.
      - destruct pre as [|p pre].
        + cbn in E. inversion E; subst. exfalso. apply (Hnot t); [now left|exact Ho].
        + cbn in E. inversion E; subst.
          destruct (IHts (fun y Hy => Hnot y (or_intror Hy)) pre H1) as (pre2 & -> & ->).
          exists pre2. auto. }
    destruct Hsplit as (pre2 & -> & E2). eapply IH; eauto.
Qed.

(* ---- clause 4 *)
Lemma runs_bounded : forall bo script ts res nb,
  runs bo script (ts, res, nb) ->
  (length (filter primary_t ts) <= S (go_prefix bo))%nat /\
  (length ts <= 2 * S (go_prefix bo))%nat /\
  (N.to_nat nb <= S (go_prefix bo))%nat /\
  (N.to_nat nb <= length (filter primary_t ts) <= S (N.to_nat nb))%nat.
Proof.
  intros bo script ts res nb H. remember (ts, res, nb) as out eqn:Eout. revert ts res nb Eout.
  induction H as [bo script ts o script' Hs Hr | bo script ts o script' Hs Hr Hb
                 | bo script ts o script' ts2 res nb Hs Hr Hk Hrun IH];
    intros ts0 res0 nb0 Eout; inversion Eout; subst;
    destruct (shape_count _ _ _ _ Hs) as [Hc Hl].
  - cbn. lia.
  - cbn. lia.
  - destruct (IH ts2 res0 nb eq_refl) as (H1 & H2 & H3 & H4).
    rewrite filter_app, !app_length. cbn [go_prefix]. lia.
Qed.

(* ---- liveness complement: with a replayable body (and no fallback in play) every retry-worthy
   outcome is followed by another attempt as long as the backoff says go *)
Lemma nth_0_hd : forall (l : list rt) d, nth 0 l d = hd d l.
Proof. destruct l; reflexivity. Qed.
Lemma nth_tl : forall i (l : list rt) d, nth i (tl l) d = nth (S i) l d.
Proof. destruct l; cbn; [destruct i|]; reflexivity. Qed.

Lemma runs_retries : forall bo script ts res nb,
  runs bo script (ts, res, nb) ->
  kd <> BStream -> c_https c && c_fallback c = false ->
  forall m, (m <= go_prefix bo)%nat ->
  (forall i, (i < m)%nat -> retry_outcome fixed c (r_out (nth i script default_rt)) = true) ->
  (m < length ts)%nat.
Proof.
  intros bo script ts res nb H Hk Hnf. remember (ts, res, nb) as out eqn:Eout. revert ts res nb Eout.
  induction H as [bo script ts o script' Hs Hr | bo script ts o script' Hs Hr Hb
                 | bo script ts o script' ts2 res nb Hs Hr Hk' Hrun IH];
    intros ts0 res0 nb0 Eout m Hm Hall; inversion Eout; subst.
  - destruct m as [|m]; [destruct (shape_count _ _ _ _ Hs); lia|].
    exfalso. specialize (Hall O (Nat.lt_0_succ _)). rewrite nth_0_hd in Hall.
    destruct Hs as [off Hoff | off Hoff Ho Hh Hf Hkk].
    + congruence.
    + rewrite Hh, Hf in Hnf. discriminate.
  - destruct Hb as [Hb|Hb]; [|contradiction].
    assert (m = O) by lia. subst m. destruct (shape_count _ _ _ _ Hs). lia.
  - rewrite app_length. destruct m as [|m]; [destruct (shape_count _ _ _ _ Hs); lia|].
    destruct Hs as [off Hoff | off Hoff Ho Hh Hf Hkk].
    + cbn [length]. apply -> Nat.succ_lt_mono. eapply IH; eauto.
      * cbn [go_prefix] in Hm. lia.
      * intros i Hi. rewrite nth_tl. apply Hall. lia.
    + rewrite Hh, Hf in Hnf. discriminate.
Qed.

(* a body that cannot be replayed is handed to the transport exactly once *)
Lemma runs_stream_once : forall bo script ts res nb,
  runs bo script (ts, res, nb) -> kd = BStream -> length ts = 1%nat.
Proof.
  intros bo script ts res nb H Hk. inversion H; subst; try contradiction;
    match goal with Hs : attempt_shape _ _ _ _ _ _ _ _ |- _ => destruct Hs; [reflexivity | contradiction] end.
Qed.

(* ---- the script entry each round trip consumed *)
Lemma skipn_tl : forall (l : list rt), tl l = skipn 1 l.
Proof. destruct l; reflexivity. Qed.

Lemma shape_script : forall script ts o script',
  attempt_shape c q kd body script ts o script' ->
  script' = skipn (length ts) script /\ o = r_out (nth (pred (length ts)) script default_rt).
Proof.
  intros script ts o script' H. destruct H; cbn [length pred].
  - rewrite nth_0_hd. split; [apply skipn_tl | reflexivity].
  - split; [destruct script as [|? [|? ?]]; reflexivity|].
    rewrite <- nth_tl, nth_0_hd. reflexivity.
Qed.

Lemma nth_skipn : forall n k (l : list rt) d, nth k (skipn n l) d = nth (n + k) l d.
Proof.
  induction n as [|n IH]; intros k l d; [reflexivity|].
  destruct l; cbn [skipn plus nth]; [destruct k; reflexivity | apply IH].
Qed.

Lemma runs_last_script : forall bo script ts res nb,
  runs bo script (ts, res, nb) ->
  (1 <= length ts)%nat /\ res = final c (r_out (nth (pred (length ts)) script default_rt)).
Proof.
  intros bo script ts res nb H. remember (ts, res, nb) as out eqn:Eout. revert ts res nb Eout.
  induction H as [bo script ts o script' Hs Hr | bo script ts o script' Hs Hr Hb
                 | bo script ts o script' ts2 res nb Hs Hr Hk Hrun IH];
    intros ts0 res0 nb0 Eout; inversion Eout; subst;
    destruct (shape_count _ _ _ _ Hs) as [_ Hl]; destruct (shape_script _ _ _ _ Hs) as [Hsk Ho].
  - split; [lia | now rewrite Ho].
  - split; [lia | now rewrite Ho].
  - destruct (IH ts2 res0 nb eq_refl) as [Hl2 Hres]. rewrite app_length. split; [lia|].
    rewrite Hres, Hsk, nth_skipn. f_equal. f_equal. f_equal. lia.
Qed.

(* ---- the observed round trips pass the walk of C34_check *)
Lemma trip_ok_mk : forall https r,
  (https = c_https c \/ https = false) ->
  trip_ok c q (body0 kd body) r (observe_trip (mk_trip q https (body0 kd body) r)) = true.
Proof.
  intros https r Hh. unfold trip_ok, observe_trip, mk_trip. cbn.
  rewrite !N.eqb_refl, hdrs_eqb_refl, listN_eqb_refl. cbn.
  destruct Hh as [->| ->]; [now rewrite eqb_reflx | now rewrite orb_true_r].
Qed.

Lemma runs_trips_ok : forall bo script ts res nb,
  runs bo script (ts, res, nb) ->
  trips_ok c q (body0 kd body) script (map observe_trip ts) = true.
Proof.
  intros bo script ts res nb H. remember (ts, res, nb) as out eqn:Eout. revert ts res nb Eout.
  induction H as [bo script ts o script' Hs Hr | bo script ts o script' Hs Hr Hb
                 | bo script ts o script' ts2 res nb Hs Hr Hk Hrun IH];
    intros ts0 res0 nb0 Eout; inversion Eout; subst.
  - destruct Hs as [off -> | off -> Ho Hh Hf Hkk]; cbn [map trips_ok].
    + rewrite trip_ok_mk by auto. cbn. destruct (r_out (hd default_rt script)); [destruct (memN _ _)|]; reflexivity.
    + rewrite !trip_ok_mk by auto. rewrite Ho. cbn.
      destruct (r_out (hd default_rt (tl script))); [destruct (memN _ _)|]; reflexivity.
  - destruct Hs as [off -> | off -> Ho Hh Hf Hkk]; cbn [map trips_ok].
    + rewrite trip_ok_mk by auto. cbn. destruct (r_out (hd default_rt script)); [destruct (memN _ _)|]; reflexivity.
    + rewrite !trip_ok_mk by auto. rewrite Ho. cbn.
      destruct (r_out (hd default_rt (tl script))); [destruct (memN _ _)|]; reflexivity.
  - specialize (IH ts2 res0 nb eq_refl).
    destruct Hs as [off -> | off -> Ho Hh Hf Hkk]; cbn [map app trips_ok].
    + rewrite trip_ok_mk by auto. rewrite IH. cbn.
      destruct (r_out (hd default_rt script)) as [code|] eqn:E; [|reflexivity].
      now rewrite (retry_not_accepted _ _ Hr).
    + rewrite !trip_ok_mk by auto. rewrite IH, Ho. cbn.
      destruct (r_out (hd default_rt (tl script))) as [code|] eqn:E; [|reflexivity].
      now rewrite (retry_not_accepted _ _ Hr).
Qed.

Lemma count_primary_observe : forall ts,
  count_primary c (map observe_trip ts) = length (filter primary_t ts).
Proof.
  unfold count_primary. induction ts as [|t ts IH]; [reflexivity|].
  cbn [map filter]. unfold primary_t at 1. cbn [observe_trip o_https].
  destruct (primary c (t_https t)); cbn [length]; now rewrite IH.
Qed.

End Loop.

(* ---------------------------------------------------------------- Send *)

Lemma send_runs : forall c q kd body bo script,
  q_valid q = true -> runs c q kd body bo script (send c q kd body bo script).
Proof.
  intros c q kd body bo script Hv. unfold send, send_gen. rewrite Hv.
  apply loop_runs. intros ->. reflexivity.
Qed.

Lemma send_invalid : forall c q kd body bo script,
  q_valid q = false -> send c q kd body bo script = ([], RBadReq, 0%N).
Proof. intros c q kd body bo script Hv. unfold send, send_gen. now rewrite Hv. Qed.

(* clause 1 *)
Theorem same_request_each_attempt : forall c q kd body bo script ts res nb,
  send c q kd body bo script = (ts, res, nb) ->
  forall t, In t ts ->
    t_method t = q_method q /\ t_url t = q_url q /\ t_hdrs t = q_hdrs q /\
    t_offered t = body0 kd body /\ (t_https t = c_https c \/ t_https t = false).
Proof.
  intros c q kd body bo script ts res nb E t Hin.
  destruct (q_valid q) eqn:Hv.
  - pose proof (send_runs c q kd body bo script Hv) as H. rewrite E in H.
    exact (runs_good c q kd body _ _ _ H t Hin).
  - rewrite send_invalid in E by assumption. inversion E; subst. destruct Hin.
Qed.

(* what the transport read is the corresponding prefix of what the request carried *)
Theorem read_is_prefix_of_offered : forall c q kd body bo script ts res nb,
  send c q kd body bo script = (ts, res, nb) ->
  forall i t, nth_error ts i = Some t ->
    t_read t = take_opt (r_read (nth i script default_rt)) (t_offered t) /\
    t_out t = r_out (nth i script default_rt).
Proof.
  intros c q kd body bo script ts res nb E.
  destruct (q_valid q) eqn:Hv.
  2:{ rewrite send_invalid in E by assumption. inversion E; subst. intros [|i] t Hn; discriminate. }
  pose proof (send_runs c q kd body bo script Hv) as H. rewrite E in H. clear E Hv.
  remember (ts, res, nb) as out eqn:Eout. revert ts res nb Eout.
  induction H as [bo script ts o script' Hs Hr | bo script ts o script' Hs Hr Hb
                 | bo script ts o script' ts2 res nb Hs Hr Hk Hrun IH];
    intros ts0 res0 nb0 Eout; inversion Eout; subst.
  - intros i t Hn. destruct Hs as [off -> | off -> Ho Hh Hf Hkk].
    + destruct i as [|[|i]]; cbn in Hn; inversion Hn; subst. rewrite nth_0_hd. auto.
    + destruct i as [|[|[|i]]]; cbn in Hn; inversion Hn; subst;
        [rewrite nth_0_hd | rewrite <- nth_tl, nth_0_hd]; auto.
  - intros i t Hn. destruct Hs as [off -> | off -> Ho Hh Hf Hkk].
    + destruct i as [|[|i]]; cbn in Hn; inversion Hn; subst. rewrite nth_0_hd. auto.
    + destruct i as [|[|[|i]]]; cbn in Hn; inversion Hn; subst;
        [rewrite nth_0_hd | rewrite <- nth_tl, nth_0_hd]; auto.
  - intros i t Hn. specialize (IH ts2 res0 nb eq_refl).
    destruct (shape_script _ _ _ _ _ _ _ _ Hs) as [Hsk _].
    destruct Hs as [off -> | off -> Ho Hh Hf Hkk].
    + destruct i as [|i]; cbn in Hn.
      * inversion Hn; subst. rewrite nth_0_hd. auto.
      * rewrite <- nth_tl. apply IH. exact Hn.
    + destruct i as [|[|i]]; cbn in Hn.
      * inversion Hn; subst. rewrite nth_0_hd. auto.
      * inversion Hn; subst. rewrite <- nth_tl, nth_0_hd. auto.
      * rewrite <- !nth_tl. apply IH. exact Hn.
Qed.

(* clause 2 *)
Theorem success_only_with_full_body : forall c q kd body bo script ts nb code,
  send c q kd body bo script = (ts, ROk code, nb) ->
  exists pre t, ts = pre ++ [t] /\ t_out t = Some code /\ t_offered t = body0 kd body /\
                memN code (c_accepted c) = true.
Proof.
  intros c q kd body bo script ts nb code E.
  destruct (q_valid q) eqn:Hv.
  - pose proof (send_runs c q kd body bo script Hv) as H. rewrite E in H.
    destruct (runs_last c q kd body _ _ _ _ _ H) as (pre & t & -> & Hres & Hoff).
    symmetry in Hres. apply final_ok in Hres. destruct Hres as [Ho Hacc].
    exists pre, t. auto.
  - rewrite send_invalid in E by assumption. discriminate.
Qed.

(* every result is the classification of the last round trip's outcome *)
Theorem result_is_last_outcome : forall c q kd body bo script ts res nb,
  q_valid q = true ->
  send c q kd body bo script = (ts, res, nb) ->
  exists pre t, ts = pre ++ [t] /\ res = final c (t_out t).
Proof.
  intros c q kd body bo script ts res nb Hv E.
  pose proof (send_runs c q kd body bo script Hv) as H. rewrite E in H.
  destruct (runs_last c q kd body _ _ _ _ _ H) as (pre & t & -> & Hres & _). eauto.
Qed.

(* clause 3 *)
Theorem accepted_never_retried : forall c q kd body bo script pre t post res nb code,
  send c q kd body bo script = (pre ++ t :: post, res, nb) ->
  t_out t = Some code -> memN code (c_accepted c) = true ->
  post = [] /\ res = ROk code.
Proof.
  intros c q kd body bo script pre t post res nb code E Ho Hacc.
  destruct (q_valid q) eqn:Hv.
  - pose proof (send_runs c q kd body bo script Hv) as H. rewrite E in H.
    exact (runs_accepted_last c q kd body _ _ _ H pre t post code eq_refl Ho Hacc).
  - rewrite send_invalid in E by assumption. inversion E. destruct pre; discriminate.
Qed.

(* clause 4 *)
Theorem stops_when_backoff_exhausted : forall c q kd body bo script ts res nb,
  send c q kd body bo script = (ts, res, nb) ->
  (length (filter (fun t => primary c (t_https t)) ts) <= S (go_prefix bo))%nat /\
  (length ts <= 2 * S (go_prefix bo))%nat /\
  (N.to_nat nb <= S (go_prefix bo))%nat.
Proof.
  intros c q kd body bo script ts res nb E.
  destruct (q_valid q) eqn:Hv.
  - pose proof (send_runs c q kd body bo script Hv) as H. rewrite E in H.
    destruct (runs_bounded c q kd body _ _ _ _ _ H) as (H1 & H2 & H3 & _). auto.
  - rewrite send_invalid in E by assumption. inversion E; subst. cbn. lia.
Qed.

(* every attempt after the first was licensed by one NextBackOff answer *)
Theorem attempts_match_backoff_calls : forall c q kd body bo script ts res nb,
  q_valid q = true ->
  send c q kd body bo script = (ts, res, nb) ->
  (N.to_nat nb <= length (filter (fun t => primary c (t_https t)) ts) <= S (N.to_nat nb))%nat.
Proof.
  intros c q kd body bo script ts res nb Hv E.
  pose proof (send_runs c q kd body bo script Hv) as H. rewrite E in H.
  destruct (runs_bounded c q kd body _ _ _ _ _ H) as (_ & _ & _ & H4). exact H4.
Qed.

(* a body that cannot be replayed is handed to the transport once *)
Theorem stream_body_sent_once : forall c q body bo script ts res nb,
  send c q BStream body bo script = (ts, res, nb) -> (length ts <= 1)%nat.
Proof.
  intros c q body bo script ts res nb E.
  destruct (q_valid q) eqn:Hv.
  - pose proof (send_runs c q BStream body bo script Hv) as H. rewrite E in H.
    rewrite (runs_stream_once c q BStream body _ _ _ _ _ H eq_refl). lia.
  - rewrite send_invalid in E by assumption. inversion E; subst. cbn. lia.
Qed.

(* retries do happen: replayable body, no fallback in play, the first m outcomes retry-worthy
   and the backoff says go m times => more than m round trips *)
Theorem retries_while_backoff_allows : forall c q kd body bo script ts res nb m,
  q_valid q = true -> kd <> BStream -> c_https c && c_fallback c = false ->
  send c q kd body bo script = (ts, res, nb) ->
  (m <= go_prefix bo)%nat ->
  (forall i, (i < m)%nat -> retry_outcome fixed c (r_out (nth i script default_rt)) = true) ->
  (m < length ts)%nat.
Proof.
  intros c q kd body bo script ts res nb m Hv Hk Hnf E Hm Hall.
  pose proof (send_runs c q kd body bo script Hv) as H. rewrite E in H.
  exact (runs_retries c q kd body _ _ _ _ _ H Hk Hnf m Hm Hall).
Qed.

(* the executable form: the property oracle holds on everything the model produces *)
Theorem check_sound : forall c q kd body bo script,
  let '(ts, res, nb) := send c q kd body bo script in
  C34_check c q kd body bo script (map observe_trip ts) res nb = true.
Proof.
  intros c q kd body bo script.
  destruct (send c q kd body bo script) as [[ts res] nb] eqn:E.
  unfold C34_check. destruct (q_valid q) eqn:Hv.
  - pose proof (send_runs c q kd body bo script Hv) as H. rewrite E in H.
    rewrite (runs_trips_ok c q kd body _ _ _ _ _ H). cbn [andb].
    destruct (runs_last_script c q kd body _ _ _ _ _ H) as [Hl Hres].
    destruct (runs_bounded c q kd body _ _ _ _ _ H) as (H1 & H2 & H3 & _).
    assert (Hr : result_ok c script (length (map observe_trip ts)) res = true).
    { rewrite map_length. unfold result_ok. destruct res as [| |code|code]; try reflexivity.
      destruct (length ts) as [|m] eqn:El; [lia|]. cbn [last_out pred] in *.
      symmetry in Hres. apply final_ok in Hres. destruct Hres as [-> Hacc].
      now rewrite N.eqb_refl, Hacc. }
    rewrite Hr. cbn [andb]. unfold backoff_ok.
    rewrite count_primary_observe, map_length.
    apply andb_true_intro; split; [apply andb_true_intro; split|]; apply Nat.leb_le; assumption.
  - rewrite send_invalid in E by assumption. inversion E; subst. reflexivity.
Qed.

(* ---------------------------------------------------------------- the pinned code (before the fix) *)

Definition cfg0 : cfg := mkcfg false false [200%N] [] [429%N; 502%N; 503%N; 504%N].
Definition req0 : req := mkreq true 2%N 1%N [(0%N, 1%N); (2%N, 3%N)].

(* attempt 2 after a 503 carries an empty body and is reported as success *)
Lemma stream_body_refuted_old :
  exists c q body bo script ts t nb,
    send_old c q BStream body bo script = (ts ++ [t], ROk 200%N, nb) /\
    body <> [] /\ t_offered t = [] /\ t_read t = [].
Proof.
  exists cfg0, req0, [1%N; 2%N; 3%N], [true], [mkrt None (Some 503%N); mkrt None (Some 200%N)].
  eexists [_], _, _. vm_compute. repeat split; discriminate.
Qed.

(* the same for a *bytes.Reader body when the transport does not check Content-Length itself *)
Lemma replay_body_refuted_old :
  exists c q body bo script ts t nb,
    send_old c q BReplay body bo script = (ts ++ [t], ROk 200%N, nb) /\
    body <> [] /\ t_offered t = [].
Proof.
  exists cfg0, req0, [1%N; 2%N; 3%N], [true; true],
         [mkrt None (Some 503%N); mkrt None None; mkrt None (Some 200%N)].
  eexists [_; _], _, _. vm_compute. repeat split; discriminate.
Qed.

(* a transport error after one unit was read: the retry carries only the rest *)
Lemma partial_body_refuted_old :
  exists c q body bo script ts t nb,
    send_old c q BStream body bo script = (ts ++ [t], ROk 200%N, nb) /\
    t_offered t <> body /\ t_offered t <> [].
Proof.
  exists cfg0, req0, [1%N; 2%N; 3%N], [true], [mkrt (Some 1%N) None; mkrt None (Some 200%N)].
  eexists [_], _, _. vm_compute. repeat split; discriminate.
Qed.

(* https -> http fallback re-reads the reader the https attempt consumed *)
Lemma fallback_body_refuted_old :
  exists c q body bo script ts t nb,
    send_old c q BReplay body bo script = (ts ++ [t], ROk 200%N, nb) /\
    body <> [] /\ t_https t = false /\ t_offered t = [].
Proof.
  exists (mkcfg true true [200%N] [] [429%N; 502%N; 503%N; 504%N]), req0, [1%N; 2%N; 3%N], [true],
         [mkrt None None; mkrt None (Some 200%N)].
  eexists [_], _, _. vm_compute. repeat split; discriminate.
Qed.

(* an accepted code listed in RetryCodes is retried until the backoff stops *)
Lemma accepted_retried_refuted_old :
  exists c q kd body bo script t post res nb code,
    send_old c q kd body bo script = (t :: post, res, nb) /\
    t_out t = Some code /\ memN code (c_accepted c) = true /\ post <> [].
Proof.
  exists (mkcfg false false [200%N] [200%N] [429%N; 502%N; 503%N; 504%N]), req0, BNone, [], [true; true],
         [mkrt None (Some 200%N); mkrt None (Some 200%N); mkrt None (Some 200%N)].
  eexists _, _, _, _, 200%N. vm_compute. repeat split; discriminate.
Qed.

(* and the oracle used on observed traces rejects these behaviours *)
Lemma check_rejects_old :
  (let '(ts, res, nb) := send_old cfg0 req0 BStream [1;2;3]%N [true] [mkrt None (Some 503%N); mkrt None (Some 200%N)] in
   C34_check cfg0 req0 BStream [1;2;3]%N [true] [mkrt None (Some 503%N); mkrt None (Some 200%N)]
             (map observe_trip ts) res nb) = false.
Proof. vm_compute. reflexivity. Qed.

(* ---------------------------------------------------------------- the oracle says what the clauses say *)

Lemma listN_eqb_eq : forall a b, listN_eqb a b = true -> a = b.
Proof.
  induction a as [|x a IH]; destruct b as [|y b]; cbn [listN_eqb]; intros H; try discriminate; [reflexivity|].
  apply andb_prop in H. destruct H as [H1 H2]. apply N.eqb_eq in H1. subst. f_equal. auto.
Qed.

Lemma hdrs_eqb_eq : forall a b, hdrs_eqb a b = true -> a = b.
Proof.
  induction a as [|[x1 x2] a IH]; destruct b as [|[y1 y2] b]; cbn [hdrs_eqb]; intros H; try discriminate; [reflexivity|].
  apply andb_prop in H. destruct H as [H H3]. apply andb_prop in H. destruct H as [H1 H2].
  apply N.eqb_eq in H1. apply N.eqb_eq in H2. subst. f_equal. auto.
Qed.

Lemma trips_ok_nth : forall c q b0 os script,
  trips_ok c q b0 script os = true ->
  forall i o, nth_error os i = Some o ->
    trip_ok c q b0 (nth i script default_rt) o = true /\
    (forall code, r_out (nth i script default_rt) = Some code -> memN code (c_accepted c) = true ->
                  length os = S i).
Proof.
  induction os as [|o1 os IH]; intros script H i o Hn; [destruct i; discriminate|].
  cbn [trips_ok] in H. apply andb_prop in H. destruct H as [H H3]. apply andb_prop in H. destruct H as [H1 H2].
  destruct i as [|i]; cbn [nth_error] in Hn.
  - inversion Hn; subst. rewrite nth_0_hd. split; [exact H1|].
    intros code Ho Hacc. rewrite Ho, Hacc in H2. destruct os; [reflexivity | discriminate].
  - destruct (IH (tl script) H3 i o Hn) as [Ha Hb]. rewrite nth_tl in Ha, Hb. split; [exact Ha|].
    intros code Ho Hacc. cbn [length]. f_equal. eauto.
Qed.

Theorem check_complete : forall c q kd body bo script os res nb,
  q_valid q = true ->
  C34_check c q kd body bo script os res nb = true ->
  (forall i o, nth_error os i = Some o ->
     o_method o = q_method q /\ o_url o = q_url q /\ o_hdrs o = q_hdrs q /\ o_extra_same o = true /\
     o_read o = take_opt (r_read (nth i script default_rt)) (body0 kd body) /\
     (forall code, r_out (nth i script default_rt) = Some code -> memN code (c_accepted c) = true ->
                   length os = S i)) /\
  (forall code, res = ROk code ->
     exists n, length os = S n /\ r_out (nth n script default_rt) = Some code /\
               memN code (c_accepted c) = true) /\
  (count_primary c os <= S (go_prefix bo))%nat /\ (N.to_nat nb <= S (go_prefix bo))%nat.
Proof.
  intros c q kd body bo script os res nb Hv H. unfold C34_check in H. rewrite Hv in H.
  apply andb_prop in H. destruct H as [H Hb]. apply andb_prop in H. destruct H as [Ht Hr].
  split; [|split].
  - intros i o Hn. destruct (trips_ok_nth _ _ _ _ _ Ht i o Hn) as [Hk Hlast].
    unfold trip_ok in Hk.
    repeat (apply andb_prop in Hk; let H' := fresh "K" in destruct Hk as [Hk H']).
    apply N.eqb_eq in Hk. apply N.eqb_eq in K3. apply hdrs_eqb_eq in K2. apply listN_eqb_eq in K0.
    auto 8.
  - intros code ->. unfold result_ok in Hr.
    destruct (length os) as [|n] eqn:El; cbn [last_out] in Hr; [discriminate|].
    destruct (r_out (nth n script default_rt)) as [code'|] eqn:Eo; [|discriminate].
    apply andb_prop in Hr. destruct Hr as [He Ha]. apply N.eqb_eq in He. subst code'.
    exists n. auto.
  - unfold backoff_ok in Hb. apply andb_prop in Hb. destruct Hb as [Hb H3].
    apply andb_prop in Hb. destruct Hb as [H1 H2].
    apply Nat.leb_le in H1. apply Nat.leb_le in H3. auto.
Qed.
