From Coq Require Import List NArith Bool Lia.
From K.Model Require Import C18.
Import ListNotations.
Local Open Scope N_scope.

(* ---------- activity times recomputed from the timeline ---------- *)

Lemma run_cons c s o ops : run c s (o :: ops) = run c (step c s o) ops.
Proof. reflexivity. Qed.

Lemma now_mono_step c s o : now s <= now (step c s o).
Proof.
  destruct o as [dt|i cl|i g| |]; unfold step, step_gen.
  - cbn [now]. lia.
  - destruct (present s && readable c s i && cl && true); cbn [now]; lia.
  - destruct (present s && negb (complete s) && (i <? npieces c) && negb (memb i (have s)) && g);
      [destruct (all_have c (i :: have s))|]; cbn [now]; lia.
  - destruct (present s && (idle_seeder c s || idle_leecher c s)); [destruct (complete s)|]; cbn [now]; lia.
  - cbn [now]. lia.
Qed.

Lemma now_mono c ops : forall s, now s <= now (run c s ops).
Proof.
  induction ops as [|o ops IH]; intros s; [cbn; lia|].
  rewrite run_cons. specialize (IH (step c s o)). pose proof (now_mono_step c s o). lia.
Qed.

(* lastr is the creation time or the time of an upload; and it dominates every upload *)
Lemma lastr_step c s o :
  (lastr (step c s o) = lastr s /\
     (match o with Serve i cl => present s && readable c s i && cl | _ => false end) = false)
  \/ (lastr (step c s o) = now s /\ exists i cl, o = Serve i cl /\ present s && readable c s i && cl = true).
Proof.
  destruct o as [dt|i cl|i g| |]; unfold step, step_gen.
  - left. split; reflexivity.
  - destruct (present s && readable c s i && cl) eqn:E.
    + right. cbn [andb lastr]. split; [reflexivity|]. exists i, cl. split; [reflexivity | exact E].
    + left. cbn [andb]. split; reflexivity.
  - left. split; [|reflexivity].
    destruct (present s && negb (complete s) && (i <? npieces c) && negb (memb i (have s)) && g);
      [destruct (all_have c (i :: have s))|]; reflexivity.
  - left. split; [|reflexivity].
    destruct (present s && (idle_seeder c s || idle_leecher c s)); [destruct (complete s)|]; reflexivity.
  - left. split; reflexivity.
Qed.

Lemma lastw_step c s o :
  (lastw (step c s o) = lastw s /\
     (match o with Write i g => present s && negb (complete s) && (i <? npieces c) && negb (memb i (have s)) && g | _ => false end) = false)
  \/ (lastw (step c s o) = now s /\ exists i g, o = Write i g /\
        present s && negb (complete s) && (i <? npieces c) && negb (memb i (have s)) && g = true).
Proof.
  destruct o as [dt|i cl|i g| |]; unfold step, step_gen.
  - left. split; reflexivity.
  - left. split; [|reflexivity]. destruct (present s && readable c s i && cl && true); reflexivity.
  - destruct (present s && negb (complete s) && (i <? npieces c) && negb (memb i (have s)) && g) eqn:E.
    + right. split; [destruct (all_have c (i :: have s)); reflexivity|]. exists i, g. split; [reflexivity | exact E].
    + left. split; reflexivity.
  - left. split; [|reflexivity].
    destruct (present s && (idle_seeder c s || idle_leecher c s)); [destruct (complete s)|]; reflexivity.
  - left. split; reflexivity.
Qed.

Lemma uploads_bound c ops : forall s,
  lastr s <= now s ->
  lastr (run c s ops) <= now (run c s ops) /\
  (forall t, In t (uploads c s ops) -> t <= lastr (run c s ops)) /\
  lastr s <= lastr (run c s ops) /\
  (lastr (run c s ops) = lastr s \/ In (lastr (run c s ops)) (uploads c s ops)).
Proof.
  induction ops as [|o ops IH]; intros s Hle.
  - cbn [run run_gen fold_left uploads]. split; [exact Hle|]. split; [intros t []|]. split; [lia | left; reflexivity].
  - rewrite run_cons. cbn [uploads].
    pose proof (now_mono_step c s o) as Hn.
    destruct (lastr_step c s o) as [[Hl Hno]|[Hl (i & cl & -> & Hyes)]].
    + assert (Hle' : lastr (step c s o) <= now (step c s o)) by lia.
      destruct (IH _ Hle') as (H1 & H2 & H3 & H4).
      assert (Hhd : (match o with Serve i closed => if present s && readable c s i && closed then [now s] else [] | _ => [] end) = []).
      { destruct o; try reflexivity. rewrite Hno. reflexivity. }
      rewrite Hhd. cbn [app]. repeat split; try assumption; try lia.
      rewrite Hl in H4. exact H4.
    + assert (Hle' : lastr (step c s (Serve i cl)) <= now (step c s (Serve i cl))) by lia.
      destruct (IH _ Hle') as (H1 & H2 & H3 & H4).
      rewrite Hyes. cbn [app]. repeat split; try assumption; try lia.
      * intros t [<-|Ht]; [lia | apply H2; exact Ht].
      * right. destruct H4 as [H4|H4]; [left; congruence | right; exact H4].
Qed.

Lemma downloads_bound c ops : forall s,
  lastw s <= now s ->
  lastw (run c s ops) <= now (run c s ops) /\
  (forall t, In t (downloads c s ops) -> t <= lastw (run c s ops)) /\
  lastw s <= lastw (run c s ops) /\
  (lastw (run c s ops) = lastw s \/ In (lastw (run c s ops)) (downloads c s ops)).
Proof.
  induction ops as [|o ops IH]; intros s Hle.
  - cbn [run run_gen fold_left downloads]. split; [exact Hle|]. split; [intros t []|]. split; [lia | left; reflexivity].
  - rewrite run_cons. cbn [downloads].
    pose proof (now_mono_step c s o) as Hn.
    destruct (lastw_step c s o) as [[Hl Hno]|[Hl (i & g & -> & Hyes)]].
    + assert (Hle' : lastw (step c s o) <= now (step c s o)) by lia.
      destruct (IH _ Hle') as (H1 & H2 & H3 & H4).
      assert (Hhd : (match o with Write i good => if present s && negb (complete s) && (i <? npieces c) && negb (memb i (have s)) && good then [now s] else [] | _ => [] end) = []).
      { destruct o; try reflexivity. rewrite Hno. reflexivity. }
      rewrite Hhd. cbn [app]. repeat split; try assumption; try lia.
      rewrite Hl in H4. exact H4.
    + assert (Hle' : lastw (step c s (Write i g)) <= now (step c s (Write i g))) by lia.
      destruct (IH _ Hle') as (H1 & H2 & H3 & H4).
      rewrite Hyes. cbn [app]. repeat split; try assumption; try lia.
      * intros t [<-|Ht]; [lia | apply H2; exact Ht].
      * right. destruct H4 as [H4|H4]; [left; congruence | right; exact H4].
Qed.

Lemma init_times sd c t0 : lastr (init sd c t0) = t0 /\ lastw (init sd c t0) = t0 /\ now (init sd c t0) = t0.
Proof. unfold init. destruct sd; repeat split. Qed.

(* what a tick does *)
Lemma tick_drop c s :
  present s = true -> present (step c s Tick) = false ->
  (complete s = true /\ seeder_tti c <= now s - lastr s) \/
  (complete s = false /\ leecher_tti c <= now s - lastw s).
Proof.
  intros Hp. unfold step, step_gen. rewrite Hp. cbn [andb].
  unfold idle_seeder, idle_leecher.
  destruct (complete s) eqn:Ec; cbn [andb negb orb].
  - rewrite orb_false_r. destruct (N.leb_spec (seeder_tti c) (now s - lastr s)); cbn [present]; [|congruence].
    intros _. left. split; [reflexivity | assumption].
  - destruct (N.leb_spec (leecher_tti c) (now s - lastw s)); cbn [present]; [|congruence].
    intros _. right. split; [reflexivity | assumption].
Qed.

Lemma tick_keep c s :
  present s = true -> present (step c s Tick) = true ->
  (complete s = true /\ now s - lastr s < seeder_tti c) \/
  (complete s = false /\ now s - lastw s < leecher_tti c).
Proof.
  intros Hp. unfold step, step_gen. rewrite Hp. cbn [andb].
  unfold idle_seeder, idle_leecher.
  destruct (complete s) eqn:Ec; cbn [andb negb orb].
  - rewrite orb_false_r. destruct (N.leb_spec (seeder_tti c) (now s - lastr s)); cbn [present]; [congruence|].
    intros _. left. split; [reflexivity | assumption].
  - destruct (N.leb_spec (leecher_tti c) (now s - lastw s)); cbn [present]; [congruence|].
    intros _. right. split; [reflexivity | assumption].
Qed.

(* ---------- property clauses ---------- *)

(* a completed torrent is dropped as idle only after it has served no piece for the seeder
   idle limit (and was created at least that long ago) *)
Lemma seeder_drop_only_if_idle sd c t0 ops :
  let s := run c (init sd c t0) ops in
  present s = true -> complete s = true -> present (step c s Tick) = false ->
  seeder_tti c <= now s - t0 /\
  forall t, In t (uploads c (init sd c t0) ops) -> seeder_tti c <= now s - t /\ t <= now s.
Proof.
  intros s Hp Hc Hd. destruct (init_times sd c t0) as (Hr & Hw & Hn).
  destruct (uploads_bound c ops (init sd c t0)) as (H1 & H2 & H3 & _); [lia|].
  destruct (tick_drop c s Hp Hd) as [[_ Hidle]|[Hc' _]]; [|subst s; congruence].
  fold s in H1, H2, H3. split; [lia|]. intros t Ht. specialize (H2 t Ht). lia.
Qed.

(* an in-progress torrent is dropped as idle only after it has received no piece for the
   leecher idle limit *)
Lemma leecher_drop_only_if_idle sd c t0 ops :
  let s := run c (init sd c t0) ops in
  present s = true -> complete s = false -> present (step c s Tick) = false ->
  leecher_tti c <= now s - t0 /\
  forall t, In t (downloads c (init sd c t0) ops) -> leecher_tti c <= now s - t /\ t <= now s.
Proof.
  intros s Hp Hc Hd. destruct (init_times sd c t0) as (Hr & Hw & Hn).
  destruct (downloads_bound c ops (init sd c t0)) as (H1 & H2 & H3 & _); [lia|].
  destruct (tick_drop c s Hp Hd) as [[Hc' _]|[_ Hidle]]; [subst s; congruence|].
  fold s in H1, H2, H3. split; [lia|]. intros t Ht. specialize (H2 t Ht). lia.
Qed.

(* conversely a tick that keeps the torrent has seen recent activity (or recent creation):
   the limits are not exceeded silently *)
Lemma kept_only_if_active sd c t0 ops :
  let s := run c (init sd c t0) ops in
  present s = true -> present (step c s Tick) = true ->
  exists t, t <= now s /\
    ((complete s = true /\ now s - t < seeder_tti c /\ (t = t0 \/ In t (uploads c (init sd c t0) ops))) \/
     (complete s = false /\ now s - t < leecher_tti c /\ (t = t0 \/ In t (downloads c (init sd c t0) ops)))).
Proof.
  intros s Hp Hk. destruct (init_times sd c t0) as (Hr & Hw & Hn).
  destruct (uploads_bound c ops (init sd c t0)) as (U1 & _ & _ & U4); [lia|].
  destruct (downloads_bound c ops (init sd c t0)) as (D1 & _ & _ & D4); [lia|].
  fold s in U1, U4, D1, D4.
  destruct (tick_keep c s Hp Hk) as [[Hc Hlt]|[Hc Hlt]].
  - exists (lastr s). split; [exact U1|]. left. repeat split; try assumption.
    destruct U4 as [U4|U4]; [left; congruence | right; exact U4].
  - exists (lastw s). split; [exact D1|]. right. repeat split; try assumption.
    destruct D4 as [D4|D4]; [left; congruence | right; exact D4].
Qed.

(* the cached blob exists exactly when the torrent is complete and was not removed manually;
   an in-progress torrent has no cached blob *)
Definition Inv (s : st) : Prop := (complete s = false -> blob s = false) /\ (blob s = true -> partialf s = false).

Lemma Inv_init sd c t0 : Inv (init sd c t0).
Proof. unfold init, Inv. destruct sd; cbn; split; congruence. Qed.

Lemma Inv_step c s o : Inv s -> Inv (step c s o).
Proof.
  intros [H1 H2]. destruct o as [dt|i cl|i g| |]; unfold step, step_gen, Inv.
  - cbn. split; assumption.
  - destruct (present s && readable c s i && cl && true); cbn; split; assumption.
  - destruct (present s && negb (complete s) && (i <? npieces c) && negb (memb i (have s)) && g) eqn:E;
      [|split; assumption].
    destruct (all_have c (i :: have s)); cbn; split; try congruence; try assumption.
    intros _. apply H1. rewrite !andb_true_iff in E. destruct E as ((((_ & E) & _) & _) & _).
    apply negb_true_iff in E. exact E.
  - destruct (present s && (idle_seeder c s || idle_leecher c s)); [|split; assumption].
    destruct (complete s) eqn:Ec; cbn; split; try congruence; try assumption.
  - cbn. split; congruence.
Qed.

Lemma Inv_run c ops : forall s, Inv s -> Inv (run c s ops).
Proof. induction ops as [|o ops IH]; intros s H; [exact H|]. rewrite run_cons. apply IH, Inv_step, H. Qed.

(* dropping a completed torrent as idle never deletes the cached blob; more generally the
   blob disappears only through a manual removal *)
Lemma blob_kept c s o : Inv s -> blob s = true -> o <> Cancel -> blob (step c s o) = true.
Proof.
  intros [H1 H2] Hb Hne. destruct o as [dt|i cl|i g| |]; unfold step, step_gen.
  - exact Hb.
  - destruct (present s && readable c s i && cl && true); exact Hb.
  - destruct (present s && negb (complete s) && (i <? npieces c) && negb (memb i (have s)) && g);
      [destruct (all_have c (i :: have s))|]; cbn [blob]; try reflexivity; exact Hb.
  - destruct (present s && (idle_seeder c s || idle_leecher c s)); [|exact Hb].
    destruct (complete s) eqn:Ec; cbn [blob]; [exact Hb|]. rewrite (H1 eq_refl) in Hb. discriminate.
  - congruence.
Qed.

Lemma blob_kept_run sd c t0 ops o :
  let s := run c (init sd c t0) ops in blob s = true -> o <> Cancel -> blob (step c s o) = true.
Proof. intros s. apply blob_kept. apply Inv_run, Inv_init. Qed.

(* dropping (idle tick) or cancelling an in-progress download deletes its partial file *)
Lemma drop_incomplete_deletes_partial c s o :
  present s = true -> complete s = false -> (o = Tick \/ o = Cancel) ->
  present (step c s o) = false -> partialf (step c s o) = false /\ blob (step c s o) = false.
Proof.
  intros Hp Hc [->| ->]; unfold step, step_gen.
  - rewrite Hp, Hc. cbn [andb]. destruct (idle_seeder c s || idle_leecher c s); cbn; [tauto | congruence].
  - cbn. tauto.
Qed.

(* ---------- the oracle is sound on the model ---------- *)
Definition R (h : hist) (s : st) : Prop :=
  h_now h = now s /\ h_last_up h = lastr s /\ h_last_down h = lastw s /\ h_have h = have s /\
  h_complete h = complete s /\ h_present h = present s.

Lemma eqb_refl b : Bool.eqb b b = true.
Proof. destruct b; reflexivity. Qed.

Lemma step_sound c h s o :
  R h s -> Inv s ->
  step_ok c h (observe s) o (observe (step c s o)) = true /\ R (hstep c h o (observe (step c s o))) (step c s o).
Proof.
  intros HR HI. destruct s as [p cm hv lr lw nw bl pf], h as [hn hu hd hh hc hp].
  unfold R in HR. cbn in HR. destruct HR as (-> & -> & -> & -> & -> & ->).
  unfold Inv in HI. cbn in HI. destruct HI as [I1 I2].
  destruct o as [dt|i cl|i g| |];
    unfold step_ok, hstep, step, step_gen, R, observe, readable, idle_seeder, idle_leecher;
    cbn [present complete have lastr lastw now blob partialf
         h_now h_last_up h_last_down h_have h_complete h_present
         o_present o_complete o_lastr o_lastw o_blob o_partial].
  - destruct p, bl; cbn; repeat split; reflexivity.
  - destruct p, (i <? npieces c), cm, (memb i hv), cl, bl; cbn; repeat split; reflexivity.
  - destruct p, cm, (i <? npieces c), (memb i hv), g; cbn;
      try (destruct bl; cbn; repeat split; reflexivity).
    destruct (all_have c (i :: hv)) eqn:Ea; cbn; rewrite ?Ea;
      destruct bl; cbn; repeat split; reflexivity.
  - destruct p, cm; cbn [andb orb negb];
      try (destruct (seeder_tti c <=? nw - lr) eqn:E1);
      try (destruct (leecher_tti c <=? nw - lw) eqn:E2);
      cbn; rewrite ?E1, ?E2; cbn;
      try (destruct bl, pf; cbn; repeat split; reflexivity).
    all: try (rewrite (I1 eq_refl); cbn; repeat split; reflexivity).
  - cbn. repeat split; reflexivity.
Qed.

Lemma check_from_sound c ops : forall h s,
  R h s -> Inv s -> check_from c h (observe s) ops (trace c s ops) = true.
Proof.
  induction ops as [|o ops IH]; intros h s HR HI; [reflexivity|].
  cbn [trace trace_gen check_from]. fold (step c s o). fold (trace c (step c s o) ops).
  destruct (step_sound c h s o HR HI) as [Hok HR'].
  rewrite Hok. cbn [andb]. apply IH; [exact HR' | apply Inv_step; exact HI].
Qed.

Lemma check_sound sd c t0 ops : C18_check sd c t0 ops (trace c (init sd c t0) ops) = true.
Proof.
  unfold C18_check. apply check_from_sound; [|apply Inv_init].
  unfold R, init. destruct sd; cbn; repeat split.
Qed.

(* ---------- the code before the fix violates the seeder clause ---------- *)
Lemma inverted_close_refuted :
  exists c t0 ops,
    let s := run_prefix c (init true c t0) ops in
    present s = true /\ complete s = true /\ present (step_prefix c s Tick) = false /\
    exists t, In t (uploads c (init true c t0) ops) /\ now s - t < seeder_tti c.
Proof.
  exists (mkCfg 10 60 3), 100, [Advance 9; Serve 0 true; Advance 2].
  vm_compute. repeat split; try reflexivity. exists 109. split; [left; reflexivity | reflexivity].
Qed.
