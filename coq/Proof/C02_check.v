(* Proofs for C02, part 4: Generator.Generate, and soundness of the boolean oracle C02_check
   on the model's own observables. *)
From Coq Require Import List NArith ZArith Bool Lia ZifyBool ZifyN ZifyNat.
From K.Model Require Import C02.
From K.Proof Require Import C02 C02_json C02_table.
Import ListNotations.
Local Open Scope N_scope.

Lemma list_eqb_refl {A} (eqb : A -> A -> bool) : (forall x, eqb x x = true) -> forall l, list_eqb eqb l l = true.
Proof. intros H. induction l as [|x l IH]; [reflexivity|]. cbn. now rewrite H, IH. Qed.
Lemma bytes_eqb_refl l : bytes_eqb l l = true.
Proof. apply list_eqb_refl. apply N.eqb_refl. Qed.
Lemma Z_list_eqb_refl l : Z_list_eqb l l = true.
Proof. apply list_eqb_refl. apply Z.eqb_refl. Qed.
Lemma mobs_eqb_refl m : mobs_eqb m m = true.
Proof. unfold mobs_eqb. now rewrite !Z.eqb_refl, !bytes_eqb_refl, Z_list_eqb_refl. Qed.

Lemma rel_obs_same m : rel_obs (Some m) (Some m) = SSame.
Proof. cbn. now rewrite mobs_eqb_refl. Qed.

(* ------------------------------------------------------------------ the table as the oracle guards it *)
Lemma table_ok_nodup tbl : table_ok tbl = true -> NoDup (keys (conv_tbl tbl)).
Proof. unfold table_ok. intros H. apply andb_true_iff in H. apply nodupb_sound. apply H. Qed.

Lemma to_i64_range u : u < 18446744073709551616 -> in_i64P (to_i64 u).
Proof. unfold to_i64, in_i64P. intros H. destruct (N.ltb_spec u 9223372036854775808); lia. Qed.

Lemma table_ok_values tbl : table_ok tbl = true -> Forall (fun x => in_i64P (snd x)) (conv_tbl tbl).
Proof.
  unfold table_ok. intros H. apply andb_true_iff in H. destruct H as [_ H].
  rewrite forallb_forall in H. unfold conv_tbl. apply Forall_forall. intros x Hx.
  apply in_map_iff in Hx. destruct Hx as (p & <- & Hp). cbn [snd]. apply to_i64_range.
  specialize (H p Hp). lia.
Qed.

Lemma scan_in rs : forall cur size, plconfig_scan rs cur size = cur \/ In (plconfig_scan rs cur size) (map snd rs).
Proof.
  induction rs as [|r t IH]; intros cur size; cbn [plconfig_scan]; [now left|].
  destruct (size <? fst r)%Z; [now left|]. right. cbn [map].
  destruct (IH (snd r) size) as [->|H]; [now left|now right].
Qed.

Lemma get_in rs size : rs <> [] -> In (plconfig_get rs size) (map snd rs).
Proof.
  destruct rs as [|r0 t]; [congruence|]. intros _. cbn [plconfig_get].
  destruct (scan_in (r0 :: t) (snd r0) size) as [->|H]; [now left|assumption].
Qed.

Lemma get_range tbl size : table_ok tbl = true -> tbl <> [] ->
  in_i64P (plconfig_get (sort_ranges (conv_tbl tbl)) size).
Proof.
  intros Hok Hne. pose proof (table_ok_values tbl Hok) as Hv. rewrite Forall_forall in Hv.
  assert (Hs : sort_ranges (conv_tbl tbl) <> []).
  { intros E. destruct tbl as [|p tbl]; [congruence|].
    assert (Hin : In (to_i64 (fst p), to_i64 (snd p)) (sort_ranges (conv_tbl (p :: tbl)))) by (apply sort_in; now left).
    rewrite E in Hin. contradiction. }
  pose proof (get_in _ size Hs) as Hin. apply in_map_iff in Hin. destruct Hin as (x & <- & Hx).
  apply Hv. now apply sort_in.
Qed.

Section Gen.
Variable sum : list N -> N.
Variable sha1 : list N -> list N.
Hypothesis sum_u32 : forall b, sum b < 4294967296.

(* Generator.Generate followed by reading the stored metadata back: the stored torrent
   metainfo is the one NewMetaInfoFromBytes would build with the table's piece length *)
Theorem generate_spec tbl d chunks :
  table_ok tbl = true -> tbl <> [] -> valid_name d = true ->
  (lenZ (concat chunks) < 9223372036854775808)%Z ->
  let pl := plconfig_get (sort_ranges (conv_tbl tbl)) (lenZ (concat chunks)) in
  generate sum sha1 tbl d (mkrd chunks false) =
    if (pl <=? 0)%Z then Err else Ok (expected sum sha1 d (concat chunks) pl).
Proof.
  intros Hok Hne Hd Hlen pl. unfold generate. rewrite plconfig_new_spec by assumption.
  cbn [rd_chunks]. fold pl. pose proof (get_range tbl (lenZ (concat chunks)) Hok Hne) as Hr. fold pl in Hr.
  destruct (Z.leb_spec pl 0) as [Hle|Hgt].
  - now rewrite (proj1 (rejects_nonpositive sum sha1 d (mkrd chunks false) [] pl Hle)).
  - rewrite new_metainfo_stream_spec by assumption. cbn [rd_fail]. unfold content. cbn [rd_chunks].
    apply roundtrip_generated; [assumption|unfold in_i64P in Hr; lia|assumption|assumption].
Qed.

Theorem generate_empty_table d r : generate sum sha1 [] d r = Err.
Proof. reflexivity. Qed.

(* ------------------------------------------------------------------ oracle soundness *)
Lemma in_i64_P z : in_i64 z = true -> in_i64P z.
Proof. unfold in_i64, in_i64P. lia. Qed.

Lemma spec_layout_expected d data pl :
  (0 < pl < 9223372036854775808)%Z -> (lenZ data < 9223372036854775808)%Z ->
  spec_layout_ok sum d pl data (observe (expected sum sha1 d data pl)) = true.
Proof.
  intros Hpl Hlen. unfold spec_layout_ok, observe, expected, assemble.
  cbn [mi_info mi_digest i_len i_pl i_sums o_len o_pl o_sums o_name o_gpl].
  rewrite !Z.eqb_refl, !bytes_eqb_refl. cbn [andb]. rewrite map_length.
  pose proof (observed_gpl sum sha1 d data pl Hpl Hlen) as E. cbv zeta in E.
  unfold expected, assemble in E. rewrite E. apply Z_list_eqb_refl.
Qed.

Lemma table_case_sound tbl sizes : table_ok tbl = true -> tbl <> [] ->
  list_eqb (fun a b => match a, b with Some z, Some w => Z.eqb z w | _, _ => false end)
    (map (lookup_spec (conv_tbl tbl)) sizes)
    (map Some (map (plconfig_get (sort_ranges (conv_tbl tbl))) sizes)) = true.
Proof.
  intros Hok Hne. induction sizes as [|z sizes IH]; [reflexivity|]. cbn [map list_eqb].
  rewrite lookup_spec_correct; [|now apply table_ok_nodup|now rewrite conv_tbl_nil].
  now rewrite Z.eqb_refl, IH.
Qed.

Theorem check_sound c : C02_check sum sha1 c (case_model sum sha1 c) = true.
Proof.
  destruct c as [name pl chunks fail|raw|tbl sizes|tbl name data]; cbn [case_model C02_check].
  - (* NewMetaInfo / NewMetaInfoFromBytes / round trip *)
    destruct (in_i64 pl) eqn:Hi; [|reflexivity]. cbn [negb orb].
    destruct (Z.ltb_spec (lenZ (concat chunks)) 9223372036854775808) as [Hlen|]; [|reflexivity]. cbn [negb].
    apply in_i64_P in Hi. unfold in_i64P in Hi.
    destruct (Z.leb_spec pl 0) as [Hle|Hgt].
    + destruct (rejects_nonpositive sum sha1 name (mkrd chunks fail) (concat chunks) pl Hle) as [-> ->].
      reflexivity.
    + rewrite new_metainfo_bytes_spec, new_metainfo_stream_spec by assumption.
      cbn [rd_fail observe_res]. unfold content. cbn [rd_chunks].
      rewrite spec_layout_expected by lia. cbn [andb].
      destruct fail.
      * cbn [andb]. destruct (valid_name name) eqn:Hn; [|reflexivity].
        rewrite roundtrip_generated; [|assumption|lia|assumption|assumption].
        cbn [observe_res]. now rewrite rel_obs_same.
      * cbn [observe_res]. rewrite rel_obs_same. cbn [andb].
        destruct (valid_name name) eqn:Hn; [|reflexivity].
        rewrite roundtrip_generated; [|assumption|lia|assumption|assumption].
        cbn [observe_res]. now rewrite rel_obs_same.
  - (* foreign document *)
    destruct (deserialize sha1 raw) as [mi| |] eqn:E; cbn [observe_res]; try reflexivity.
    cbn [observe o_ser]. fold (observe mi). rewrite (reserialize_stable sha1 raw mi E).
    cbn [observe_res]. apply mobs_eqb_refl.
  - (* table lookup *)
    destruct (table_ok tbl) eqn:Hok; [|reflexivity]. cbn [negb].
    destruct tbl as [|p tbl]; [reflexivity|].
    rewrite plconfig_new_spec by discriminate. apply table_case_sound; [assumption|discriminate].
  - (* Generate *)
    destruct (Z.ltb_spec (lenZ data) 9223372036854775808) as [Hlen|]; [|reflexivity]. cbn [negb orb].
    destruct (table_ok tbl) eqn:Hok; [|reflexivity]. cbn [negb].
    destruct tbl as [|p tbl]; [reflexivity|].
    assert (Hne : p :: tbl <> []) by discriminate.
    rewrite lookup_spec_correct; [|now apply table_ok_nodup|now rewrite conv_tbl_nil].
    set (pl := plconfig_get (sort_ranges (conv_tbl (p :: tbl))) (lenZ data)).
    pose proof (get_range (p :: tbl) (lenZ data) Hok Hne) as Hr. fold pl in Hr. unfold in_i64P in Hr.
    assert (Ed : concat [data] = data) by (cbn; apply app_nil_r).
    destruct (valid_name name) eqn:Hn.
    + pose proof (generate_spec (p :: tbl) name [data] Hok Hne Hn) as G. rewrite Ed in G.
      specialize (G Hlen). cbv zeta in G. fold pl in G. rewrite G.
      destruct (Z.leb_spec pl 0); [reflexivity|]. cbn [observe_res].
      apply spec_layout_expected; lia.
    + destruct (Z.leb_spec pl 0) as [Hle|Hgt]; [|reflexivity].
      unfold generate. rewrite plconfig_new_spec by assumption. cbn [rd_chunks]. rewrite Ed. fold pl.
      now rewrite (proj1 (rejects_nonpositive sum sha1 name (mkrd [data] false) [] pl Hle)).
Qed.

End Gen.

Theorem check_sound_crc32 c : C02_check crc32 sha1_bytes c (case_model crc32 sha1_bytes c) = true.
Proof. apply check_sound. exact crc32_u32. Qed.

Theorem zero_digest_witness : exists data pl,
  (0 < pl)%Z /\ deserialize sha1_bytes (serialize (expected crc32 sha1_bytes [] data pl)) = Err.
Proof. exists [1; 2; 3; 4; 5; 6], 4%Z. split; [reflexivity|]. vm_compute. reflexivity. Qed.
