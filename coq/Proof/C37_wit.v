(* C37 — concrete witnesses (outside the contract's domain) and non-vacuity examples, by computation. *)
From Coq Require Import List NArith Bool.
From K.Model Require Import C37.
Import ListNotations.
Local Open Scope N_scope.

Definition w_blobs : str := [98;108;111;98;115].      (* "blobs" *)
Definition w_root : str := [47;114;111;111;116].      (* "/root" *)
Definition w_a : str := [97].
Definition w_ab : str := [97;98].
Definition w_a_b : str := [97;47;98].                 (* "a/b" *)
Definition w_b : str := [98].
Definition w_c : str := [99].
Definition w_b_c : str := [98;47;99].                 (* "b/c" *)
Definition w_b_d : str := [98;47;100].                (* "b/d" *)
Definition w_rt : str := [114;58;116].                (* "r:t" *)
Definition w_ru : str := [114;58;117].                (* "r:u" *)
Definition w_st : str := [115;58;116].                (* "s:t" *)
Definition w_r_t : str := [114;47;116].               (* "r/t" *)
Definition w_r : str := [114].
Definition w_zz : str := [122;122].
Definition w_x : str := [120].
Definition w_1 : str := [49].
Definition w_2 : str := [50].
Definition w_3 : str := [51].

Definition cfg_of (b : bk) (lmax : N) (zero : bool) : cfg := mkcfg b w_blobs w_root lmax zero.

(* sqlbackend, engine oracle sql_zero = true (what the pinned gorm usage does): empty content
   uploaded over existing content leaves the old bytes *)
Lemma sql_empty_overwrite :
  snd (run (cfg_of (Single KSql) 3 true) (init (cfg_of (Single KSql) 3 true))
           [Upload w_rt w_x; Upload w_rt []; Download w_rt]) = [OOk; OOk; OBytes w_x].
Proof. vm_compute. reflexivity. Qed.

(* ... and with the oracle false (an engine that applies the zero value) the contract holds there *)
Lemma sql_empty_overwrite_fixed :
  snd (run (cfg_of (Single KSql) 3 false) (init (cfg_of (Single KSql) 3 false))
           [Upload w_rt w_x; Upload w_rt []; Download w_rt]) = [OOk; OOk; OBytes []].
Proof. vm_compute. reflexivity. Qed.

(* s3backend, non-paginated List with ListMaxKeys = 2 and three stored names: two names and a token *)
Lemma s3_unpaged_truncates :
  snd (run (cfg_of (Single KS3) 2 true) (init (cfg_of (Single KS3) 2 true))
           [Upload w_a w_1; Upload w_b w_2; Upload w_c w_3; List [] Unpaged []]) =
  [OOk; OOk; OOk; OPages [([w_a; w_b], 3)]].
Proof. vm_compute. reflexivity. Qed.

(* testfs: Stat of a never-uploaded name that is a directory of an uploaded one is not "not found" *)
Lemma fs_dir_stat :
  snd (run (cfg_of (Single KFs) 3 true) (init (cfg_of (Single KFs) 3 true))
           [Upload w_b_c w_1; Stat w_b; Download w_b]) = [OOk; OSizeAny; OErr].
Proof. vm_compute. reflexivity. Qed.

(* testfs: "r:t" and "r/t" are one file (server.go path() replaces ':' by '/') *)
Lemma fs_colon_alias :
  snd (run (cfg_of (Single KFs) 3 true) (init (cfg_of (Single KFs) 3 true))
           [Upload w_rt w_1; Download w_r_t; List w_r Unpaged []]) =
  [OOk; OBytes w_1; OPages [([w_r_t], 0)]].
Proof. vm_compute. reflexivity. Qed.

(* testfs: listing a prefix under which nothing is stored is an error, not the empty list *)
Lemma fs_list_missing :
  snd (run (cfg_of (Single KFs) 3 true) (init (cfg_of (Single KFs) 3 true))
           [Upload w_a w_1; List w_zz Unpaged []]) = [OOk; OErr].
Proof. vm_compute. reflexivity. Qed.

(* shadow: a name present in the active component only — Stat says not found, Download returns it *)
Lemma shadow_diverged :
  snd (run (cfg_of (Shadow KFs KSql) 3 true) (init (cfg_of (Shadow KFs KSql) 3 true))
           [SideUpload false w_st w_1; Stat w_st; Download w_st]) = [OOk; ONotFound; OBytes w_1].
Proof. vm_compute. reflexivity. Qed.

(* ---- non-vacuity: histories inside the contract's domain, for every client *)

Definition h_s3 : list op :=
  [Upload w_a w_1; Upload w_ab w_2; Upload w_a_b w_3; Upload w_a w_x; Download w_a; Stat w_a; Download w_c;
   List [] (Paged 2) [[1]; [0; 1]]; List w_a Unpaged []; List [] (Paged 1) []].
Lemma nonvacuous_s3 :
  guard (cfg_of (Single KS3) 5 true) h_s3 = true /\ guard_list (cfg_of (Single KS3) 5 true) KS3 h_s3 = true /\
  snd (run (cfg_of (Single KS3) 5 true) (init (cfg_of (Single KS3) 5 true)) h_s3) =
  [OOk; OOk; OOk; OOk; OBytes w_x; OSize 1; ONotFound;
   OPages [([w_a; w_a_b; w_ab], 0)];
   OPages [([w_a; w_a_b; w_ab], 0)];
   OPages [([w_a], 2); ([w_a_b], 3); ([w_ab], 0)]].
Proof. vm_compute. repeat split; reflexivity. Qed.

Definition h_fs : list op :=
  [Upload w_a w_1; Upload w_b_c w_2; Upload w_b_d w_3; Upload w_a []; Download w_a; Stat w_b_c; Stat w_zz;
   List w_b Unpaged []; List [] Unpaged []].
Lemma nonvacuous_fs :
  guard (cfg_of (Single KFs) 5 true) h_fs = true /\ guard_list (cfg_of (Single KFs) 5 true) KFs h_fs = true /\
  snd (run (cfg_of (Single KFs) 5 true) (init (cfg_of (Single KFs) 5 true)) h_fs) =
  [OOk; OOk; OOk; OOk; OBytes []; OSize 1; ONotFound; OPages [([w_b_c; w_b_d], 0)]; OPages [([w_a; w_b_c; w_b_d], 0)]].
Proof. vm_compute. repeat split; reflexivity. Qed.

Definition h_sql : list op :=
  [Upload w_rt w_1; Upload w_ru w_2; Upload w_st w_3; Upload w_rt w_x; Download w_rt; Stat w_rt; Stat [114;58;122];
   List w_r Unpaged []; List [] Unpaged []].
Lemma nonvacuous_sql :
  guard (cfg_of (Single KSql) 5 true) h_sql = true /\ guard_list (cfg_of (Single KSql) 5 true) KSql h_sql = true /\
  snd (run (cfg_of (Single KSql) 5 true) (init (cfg_of (Single KSql) 5 true)) h_sql) =
  [OOk; OOk; OOk; OOk; OBytes w_x; OSize 0; ONotFound; OPages [([w_rt; w_ru], 0)];
   OPages [([tag_name w_r dummy; tag_name [115] dummy], 0)]].
Proof. vm_compute. repeat split; reflexivity. Qed.

Definition h_shadow : list op :=
  [Upload w_rt w_1; Upload w_rt w_x; Download w_rt; Stat w_rt; SideUpload false w_st w_2; Stat w_st; Download w_st;
   SideUpload true w_ru w_3; Stat w_ru; Download w_ru; List w_r Unpaged []].
Lemma nonvacuous_shadow :
  guard (cfg_of (Shadow KSql KFs) 5 true) h_shadow = true /\
  snd (run (cfg_of (Shadow KSql KFs) 5 true) (init (cfg_of (Shadow KSql KFs) 5 true)) h_shadow) =
  [OOk; OOk; OBytes w_x; OSize 0; OOk; ONotFound; OBytes w_2; OOk; ONotFound; ONotFound; OPages [([w_rt], 0)]].
Proof. vm_compute. repeat split; reflexivity. Qed.

(* the oracle is not trivially true: it rejects a wrong answer on a guarded history *)
Lemma check_can_fail :
  C37_check (cfg_of (Single KS3) 5 true) [Upload w_a w_1; Upload w_a w_x; Download w_a] [OOk; OOk; OBytes w_1] = false /\
  C37_check (cfg_of (Single KS3) 5 true) [Upload w_a w_1; Upload w_b w_2; List [] (Paged 1) []]
            [OOk; OOk; OPages [([w_a], 2); ([w_a], 0)]] = false /\
  C37_check (cfg_of (Single KS3) 5 true) [Upload w_a w_1; Upload w_b w_2; List [] (Paged 1) []]
            [OOk; OOk; OPages [([w_a], 2)]] = false /\
  C37_check (cfg_of (Single KSql) 5 true) [Stat w_rt] [OSize 0] = false.
Proof. vm_compute. repeat split; reflexivity. Qed.
