(* Proofs for C36: name -> BlobPath -> NameFromBlobPath is the identity for every valid name and
   every root, for the three schemes of lib/backend/namepath/pather.go (fixed code), plus the
   refutations for the code at the pinned commit. *)
From Coq Require Import List NArith Bool Lia PeanoNat.
From K.Model Require Import PathLib C36.
From K.Gen Require Import C36_consts.
From K.Proof Require Import PathLib.
Import ListNotations.
Local Open Scope N_scope.

(* ================================================================== A. the matcher *)

Lemma m_segs_lits : forall l r s caps, m_segs (lits l ++ r) (l ++ s) caps = m_segs r s caps.
Proof.
  induction l as [|c l IH]; intros r s caps; [reflexivity|].
  cbn. rewrite N.eqb_refl. apply IH.
Qed.

Lemma m_plus_none {R} : forall a (k : str -> option R) rest,
  (forall x q, x <> [] -> rest = x ++ q -> k q = None) -> m_plus a rest k = None.
Proof.
  intros a k rest. induction rest as [|c rest IH]; intro H; cbn; [reflexivity|].
  destruct (atom_ok a c); [|reflexivity].
  rewrite IH.
  - apply (H [c] rest); [discriminate|reflexivity].
  - intros x q Hx E. apply (H (c :: x) q); [discriminate|]. rewrite E. reflexivity.
Qed.

(* greedy choice: x+ takes exactly p when the continuation accepts what follows p and rejects every
   later position *)
Lemma m_plus_greedy {R} : forall a p rest (k : str -> option R) r,
  p <> [] -> forallb (atom_ok a) p = true ->
  (forall x q, x <> [] -> rest = x ++ q -> k q = None) ->
  k rest = Some r ->
  m_plus a (p ++ rest) k = Some r.
Proof.
  intros a p rest k r Hp Hok Hin Hk. induction p as [|c p IH]; [congruence|].
  cbn in Hok. apply andb_true_iff in Hok as [Hc Hok]. cbn. rewrite Hc.
  destruct p as [|c' p'].
  - cbn. rewrite (m_plus_none a k rest Hin). exact Hk.
  - rewrite IH; [reflexivity|discriminate|exact Hok].
Qed.

Lemma m_plus_inv {R} : forall a s (k : str -> option R) r,
  m_plus a s k = Some r ->
  exists pre s1, s = pre ++ s1 /\ pre <> [] /\ forallb (atom_ok a) pre = true /\ k s1 = Some r.
Proof.
  intros a s k r. induction s as [|c s IH]; intro H; cbn in H; [discriminate|].
  destruct (atom_ok a c) eqn:Hc; [|discriminate].
  destruct (m_plus a s k) as [r'|] eqn:E.
  - inversion H; subst. destruct (IH eq_refl) as [pre [s1 [E1 [_ [Hall Hk]]]]].
    exists (c :: pre), s1. repeat split; [rewrite E1; reflexivity|discriminate|cbn; rewrite Hc, Hall; reflexivity|exact Hk].
  - exists [c], s. repeat split; [discriminate|cbn; rewrite Hc; reflexivity|exact H].
Qed.

(* the number of '/' a pattern consumes at least *)
Definition atom_need (a : atom) : nat :=
  match a with AChr c => if c =? slash then 1%nat else 0%nat | AAny => 0%nat end.
Definition item_need (i : item) : nat := match i with IOne a => atom_need a | IPlus a => atom_need a end.
Fixpoint items_need (l : list item) : nat :=
  match l with [] => 0%nat | i :: l' => (item_need i + items_need l')%nat end.
Definition seg_need (s : seg) : nat := match s with SItem i => item_need i | SGroup l => items_need l end.
Fixpoint need (r : list seg) : nat :=
  match r with [] => 0%nat | s :: r' => (seg_need s + need r')%nat end.

Lemma count_slash_app : forall a b, count_slash (a ++ b) = (count_slash a + count_slash b)%nat.
Proof. intros. unfold count_slash. rewrite filter_app, app_length. reflexivity. Qed.

Lemma count_slash_cons_slash : forall s, count_slash (slash :: s) = S (count_slash s).
Proof. reflexivity. Qed.

Lemma atom_need_ok : forall a c, atom_ok a c = true -> (atom_need a <= count_slash [c])%nat.
Proof.
  intros [x|] c H; cbn in *; [|lia].
  apply N.eqb_eq in H; subst. unfold count_slash. cbn. destruct (x =? slash); cbn; lia.
Qed.

Lemma m_items_inv {R} : forall l s (k : str -> option R) r,
  m_items l s k = Some r ->
  exists pre s1, s = pre ++ s1 /\ k s1 = Some r /\ (items_need l <= count_slash pre)%nat.
Proof.
  induction l as [|i l IH]; intros s k r H.
  - exists [], s. repeat split; [exact H|cbn; lia].
  - destruct i as [a|a]; cbn [m_items] in H.
    + destruct s as [|c s]; [discriminate|]. destruct (atom_ok a c) eqn:Hc; [|discriminate].
      destruct (IH _ _ _ H) as [pre [s1 [E [Hk Hn]]]].
      exists (c :: pre), s1. repeat split; [rewrite E; reflexivity|exact Hk|].
      change (c :: pre) with ([c] ++ pre). rewrite count_slash_app. pose proof (atom_need_ok _ _ Hc). cbn [items_need item_need]. lia.
    + apply m_plus_inv in H as [pre [s1 [E [Hne [Hall Hk]]]]].
      destruct (IH _ _ _ Hk) as [pre2 [s2 [E2 [Hk2 Hn]]]].
      exists (pre ++ pre2), s2. repeat split; [rewrite E, E2, app_assoc; reflexivity|exact Hk2|].
      rewrite count_slash_app. cbn [items_need item_need].
      destruct pre as [|c pre]; [congruence|]. cbn in Hall. apply andb_true_iff in Hall as [Hc _].
      pose proof (atom_need_ok _ _ Hc). change (c :: pre) with ([c] ++ pre). rewrite count_slash_app. lia.
Qed.

Lemma m_segs_need : forall r s caps out, m_segs r s caps = Some out -> (need r <= count_slash s)%nat.
Proof.
  induction r as [|sg r IH]; intros s caps out H; [cbn; lia|].
  destruct sg as [i|l]; cbn [m_segs] in H; apply m_items_inv in H as [pre [s1 [E [Hk Hn]]]];
    apply IH in Hk; subst s; rewrite count_slash_app; cbn [need seg_need]; cbn [items_need] in Hn; lia.
Qed.

Lemma need_app : forall a b, need (a ++ b) = (need a + need b)%nat.
Proof. induction a as [|x a IH]; intro b; cbn; [reflexivity|]. rewrite IH. lia. Qed.

Lemma need_lits : forall l, need (lits l) = count_slash l.
Proof.
  induction l as [|c l IH]; [reflexivity|]. cbn [lits map need seg_need item_need atom_need].
  fold (lits l). rewrite IH. unfold count_slash. cbn. destruct (c =? slash); cbn; lia.
Qed.

(* after a '/', a pattern that needs all the slashes that are left cannot match any later *)
Lemma no_match_inside : forall r rest',
  (count_slash (slash :: rest') <= need r)%nat ->
  forall x q caps, x <> [] -> slash :: rest' = x ++ q -> m_segs r q caps = None.
Proof.
  intros r rest' Hcnt x q caps Hx E.
  destruct (m_segs r q caps) as [out|] eqn:Hm; [|reflexivity].
  apply m_segs_need in Hm. destruct x as [|c x]; [congruence|]. cbn in E. inversion E; subst c.
  rewrite E in Hcnt. change (slash :: x ++ q) with ((slash :: x) ++ q) in Hcnt.
  rewrite count_slash_app, count_slash_cons_slash in Hcnt. lia.
Qed.

(* one step of the proofs below: the group (.+) captures exactly p *)
Lemma group_any_step : forall p rest' r' caps out,
  p <> [] -> forallb (atom_ok AAny) p = true ->
  (count_slash (slash :: rest') <= need r')%nat ->
  m_segs r' (slash :: rest') (p :: caps) = Some out ->
  m_segs (SGroup [IPlus AAny] :: r') (p ++ slash :: rest') caps = Some out.
Proof.
  intros p rest' r' caps out Hp Hok Hcnt Hk. cbn [m_segs m_items].
  apply m_plus_greedy; [exact Hp|exact Hok| |].
  - intros x q Hx E. apply (no_match_inside r' rest' Hcnt x q _ Hx E).
  - rewrite firstn_app_len. exact Hk.
Qed.

Lemma any_step : forall c s r caps, atom_ok AAny c = true ->
  m_segs (SItem (IOne AAny) :: r) (c :: s) caps = m_segs r s caps.
Proof. intros c s r caps H. cbn [m_segs m_items]. rewrite H. reflexivity. Qed.

Lemma find_from_hit : forall r s caps rest, m_segs r s [] = Some (caps, rest) ->
  find_from r s = Some (firstn (length s - length rest) s, caps).
Proof. intros r s caps rest H. destruct s; cbn [find_from]; rewrite H; reflexivity. Qed.

(* ================================================================== B. compiling a quoted prefix *)

Lemma special_false : forall c, special c = false ->
  (c =? 92) = false /\ (c =? 46) = false /\ (c =? 43) = false /\ (c =? 40) = false /\ (c =? 41) = false.
Proof.
  intros c H. unfold special in H. cbn [existsb] in H.
  repeat match type of H with (_ || _) = false => apply orb_false_iff in H as [? H] end.
  repeat split; assumption.
Qed.

Lemma tokenize_quote : forall b t, tokenize (quote_meta b ++ t) = map TChr b ++ tokenize t.
Proof.
  induction b as [|c b IH]; intro t; [reflexivity|].
  unfold quote_meta. cbn [flat_map]. fold (quote_meta b). destruct (special c) eqn:Hs.
  - cbn [app tokenize]. rewrite N.eqb_refl, Hs, IH. reflexivity.
  - apply special_false in Hs as Hc. destruct Hc as [H1 [H2 [H3 [H4 H5]]]].
    cbn [app tokenize]. rewrite H1, H2, H3, H4, H5, Hs, IH. reflexivity.
Qed.

Lemma parse_lits : forall b acc ts,
  parse_go None acc (map TChr b ++ ts) = parse_go None (rev (lits b) ++ acc) ts.
Proof.
  induction b as [|c b IH]; intros acc ts; [reflexivity|].
  cbn [map app parse_go]. rewrite IH. cbn [lits map rev]. fold (lits b). rewrite <- app_assoc. reflexivity.
Qed.

Lemma parse_acc : forall ts grp acc acc0,
  (grp = None -> acc = [] -> hd_error ts <> Some TPlus) ->
  parse_go grp (acc ++ acc0) ts = option_map (fun r => rev acc0 ++ r) (parse_go grp acc ts).
Proof.
  induction ts as [|t ts IH]; intros grp acc acc0 Hhd.
  - cbn. destruct grp; [reflexivity|]. cbn. rewrite rev_app_distr. reflexivity.
  - destruct t; cbn [parse_go].
    + destruct grp as [l|].
      * apply IH. intros; discriminate.
      * apply (IH None (_ :: acc)). intros _ ?; discriminate.
    + destruct grp as [l|].
      * apply IH. intros; discriminate.
      * apply (IH None (_ :: acc)). intros _ ?; discriminate.
    + destruct grp as [[|[a|a] l]|]; try reflexivity.
      * apply IH. intros; discriminate.
      * destruct acc as [|x acc]; [exfalso; apply Hhd; reflexivity|].
        cbn [app]. destruct x as [[a|a]|l]; try reflexivity.
        apply (IH None (_ :: acc)). intros _ ?; discriminate.
    + destruct grp as [l|]; [reflexivity|]. apply IH. intros; discriminate.
    + destruct grp as [l|]; [|reflexivity]. apply (IH None (_ :: acc)). intros _ ?; discriminate.
    + reflexivity.
Qed.

Lemma compile_quoted : forall b lit R,
  compile lit = Some R -> hd_error (tokenize lit) <> Some TPlus ->
  compile (quote_meta b ++ lit) = Some (lits b ++ R).
Proof.
  intros b lit R Hc Hhd. unfold compile in *. rewrite tokenize_quote, parse_lits, app_nil_r.
  pose proof (parse_acc (tokenize lit) None [] (rev (lits b)) (fun _ _ => Hhd)) as P.
  cbn [app] in P. rewrite P, Hc. cbn. rewrite rev_involutive. reflexivity.
Qed.

(* ================================================================== C. Join of the path elements *)

Lemma filter_nonnil : forall l : list str, Forall (fun e => e <> []) l ->
  filter (fun e => negb (is_nil e)) l = l.
Proof.
  induction l as [|x l IH]; intro H; [reflexivity|]. inversion H; subst. cbn.
  destruct x; [congruence|]. cbn. rewrite IH by assumption. reflexivity.
Qed.

Lemma join_all : forall x l, Forall (fun e => e <> []) (x :: l) -> join (x :: l) = clean (join_slash (x :: l)).
Proof. intros x l H. unfold join. rewrite filter_nonnil by exact H. reflexivity. Qed.

(* Join(Join(root, lit), q...) = Join(root, lit) + "/" + q  for a clean relative q of ordinary elements *)
Lemma join_base : forall root lit q, normal_path lit = true -> normal_path q = true ->
  clean (join [root; lit] ++ slash :: q) = join [root; lit] ++ slash :: q.
Proof.
  intros root lit q Hl Hq. destruct (join_root_lit root lit Hl) as [X [E Hst]].
  rewrite E. apply clean_app_normal; assumption.
Qed.

Lemma join_root_lit_nonnil : forall root lit, normal_path lit = true -> join [root; lit] <> [].
Proof. intros root lit Hl. destruct (join_root_lit root lit Hl) as [X [E _]]. rewrite E. apply clean_nonnil. Qed.

(* ================================================================== D. byte classes *)

Lemma forallb_impl {A} : forall (f g : A -> bool) l, (forall x, f x = true -> g x = true) ->
  forallb f l = true -> forallb g l = true.
Proof.
  intros f g l H. induction l as [|x l IH]; intro Hf; [reflexivity|].
  cbn in *. apply andb_true_iff in Hf as [H1 H2]. rewrite (H _ H1), (IH H2). reflexivity.
Qed.

Lemma name_byte_any : forall c, name_byte c = true -> atom_ok AAny c = true.
Proof. intros c H. unfold name_byte in H. apply andb_true_iff in H as [_ H]. exact H. Qed.

Lemma forallb_nochar : forall (f : N -> bool) c l, (forall x, f x = true -> x <> c) ->
  forallb f l = true -> nochar c l.
Proof.
  intros f c l H Hf Hin. rewrite forallb_forall in Hf. apply (H c); [apply Hf; exact Hin|reflexivity].
Qed.

Lemma nochar_count : forall l, nochar slash l -> count_slash l = 0%nat.
Proof.
  induction l as [|x l IH]; intro H; [reflexivity|]. unfold count_slash in *. cbn.
  destruct (x =? slash) eqn:E; [apply N.eqb_eq in E; subst; exfalso; apply H; left; reflexivity|].
  apply IH. intro Hin. apply H. right. exact Hin.
Qed.

(* ================================================================== E. docker_tag *)

Lemma tag_extract : forall base mid end_ repo tag,
  repo <> [] -> forallb (atom_ok AAny) repo = true ->
  tag <> [] -> forallb (atom_ok AAny) tag = true -> count_slash tag = 0%nat ->
  exists w, find_from (lits base ++ tag_shape mid end_)
              (base ++ slash :: repo ++ slash :: mid ++ slash :: tag ++ slash :: end_) = Some (w, [repo; tag]).
Proof.
  intros base mid end_ repo tag Hr Hrok Ht Htok Htc.
  eexists. apply find_from_hit with (rest := []).
  rewrite m_segs_lits. unfold tag_shape.
  cbn [m_segs m_items]. cbn [atom_ok]. rewrite N.eqb_refl.
  apply group_any_step; [exact Hr|exact Hrok| |].
  - rewrite need_app, need_lits. cbn [need seg_need items_need item_need atom_need]. rewrite need_lits.
    repeat (rewrite count_slash_cons_slash || rewrite count_slash_app).
    change (count_slash []) with 0%nat. rewrite Htc. lia.
  - replace (slash :: mid ++ slash :: tag ++ slash :: end_)
      with ((slash :: mid ++ [slash]) ++ tag ++ slash :: end_)
      by (cbn; rewrite <- app_assoc; reflexivity).
    rewrite m_segs_lits.
    apply group_any_step; [exact Ht|exact Htok|rewrite need_lits; lia|].
    rewrite <- (app_nil_r (slash :: end_)) at 2. rewrite <- (app_nil_r (lits (slash :: end_))).
    rewrite m_segs_lits. reflexivity.
Qed.

(* ---- facts about the literals extracted from pather.go (these are the obligations that break
   when a literal changes) *)
Fact tag_re_compiles : compile tag_re_lit = Some (tag_shape tag_mid_lit tag_end_lit).
Proof. vm_compute. reflexivity. Qed.
Fact tag_re_head : hd_error (tokenize tag_re_lit) <> Some TPlus.
Proof. vm_compute. discriminate. Qed.
Fact tag_base_normal : normal_path tag_base_lit = true.
Proof. vm_compute. reflexivity. Qed.
Fact tag_mid_normal : normal_path tag_mid_lit = true.
Proof. vm_compute. reflexivity. Qed.
Fact tag_end_normal : normal_path tag_end_lit = true.
Proof. vm_compute. reflexivity. Qed.
Fact tag_sep_colon : tag_sep_lit = [colon].
Proof. vm_compute. reflexivity. Qed.
Fact tag_fmt_two : forall a b, sprintf tag_fmt_lit [a; b] = a ++ colon :: b.
Proof. intros a b. cbn. rewrite app_nil_r. reflexivity. Qed.

Lemma valid_tag_name_inv : forall n, valid_tag_name n = true ->
  exists repo tag, split_on colon n = [repo; tag] /\ n = repo ++ colon :: tag /\
    normal_path repo = true /\ forallb (atom_ok AAny) repo = true /\
    normal_path tag = true /\ forallb (atom_ok AAny) tag = true /\ count_slash tag = 0%nat.
Proof.
  intros n H. unfold valid_tag_name in H.
  destruct (split_on colon n) as [|repo [|tag [|x l]]] eqn:E; try discriminate.
  apply andb_true_iff in H as [Hr Ht]. unfold valid_repo in Hr. unfold valid_tag in Ht.
  apply andb_true_iff in Hr as [Hr1 Hr2]. apply andb_true_iff in Ht as [Ht1 Ht2].
  assert (Hns : nochar slash tag).
  { eapply forallb_nochar; [|exact Ht2]. intros x Hx ->.
    apply andb_true_iff in Hx as [_ Hx]. discriminate. }
  exists repo, tag. repeat split.
  - apply split_two. exact E.
  - exact Hr1.
  - eapply forallb_impl; [|exact Hr2]. intros x Hx. apply andb_true_iff in Hx as [Hx _]. apply name_byte_any. exact Hx.
  - apply normal_path_single; assumption.
  - eapply forallb_impl; [|exact Ht2]. intros x Hx. apply andb_true_iff in Hx as [Hx _].
    apply andb_true_iff in Hx as [Hx _]. apply name_byte_any. exact Hx.
  - apply nochar_count. exact Hns.
Qed.

Theorem roundtrip_tag_any_root : forall root name, valid_tag_name name = true ->
  exists bp, roundtrip STag root name = (Ok bp, Ok name).
Proof.
  intros root name Hv.
  destruct (valid_tag_name_inv _ Hv) as [repo [tag [Hsp [Hn [Hrn [Hrok [Htn [Htok Htc]]]]]]]].
  pose proof (normal_path_nonnil _ Hrn) as Hr0. pose proof (normal_path_nonnil _ Htn) as Ht0.
  set (base := join [root; tag_base_lit]).
  set (bp := base ++ slash :: repo ++ slash :: tag_mid_lit ++ slash :: tag ++ slash :: tag_end_lit).
  assert (Hbp : blob_path STag root name = Ok bp).
  { unfold blob_path. rewrite tag_sep_colon, Hsp.
    destruct repo as [|? ?]; [congruence|]. destruct tag as [|? ?]; [congruence|].
    cbn [is_nil]. f_equal. cbn [base_path]. fold base.
    rewrite join_all.
    - cbn [join_slash join_on]. unfold bp. apply join_base; [exact tag_base_normal|].
      repeat apply normal_path_app; assumption || exact tag_mid_normal || exact tag_end_normal.
    - repeat constructor; try discriminate.
      apply join_root_lit_nonnil. exact tag_base_normal. }
  exists bp. unfold roundtrip. rewrite Hbp. f_equal.
  unfold name_from_path, name_from_path_tag, rx_extract. cbn [base_path]. fold base.
  rewrite (compile_quoted base _ _ tag_re_compiles tag_re_head).
  destruct (tag_extract base tag_mid_lit tag_end_lit repo tag Hr0 Hrok Ht0 Htok Htc) as [w Hf].
  fold bp in Hf. rewrite Hf. cbn [length Nat.eqb]. rewrite tag_fmt_two, Hn. reflexivity.
Qed.

(* ================================================================== F. sharded_docker_blob *)

Lemma blob_extract : forall base alg end_ c1 c2 name,
  atom_ok AAny c1 = true -> atom_ok AAny c2 = true ->
  name <> [] -> forallb (atom_ok AAny) name = true ->
  exists w, find_from (lits base ++ blob_shape alg end_)
              (base ++ slash :: alg ++ slash :: [c1; c2] ++ slash :: name ++ slash :: end_) = Some (w, [name]).
Proof.
  intros base alg end_ c1 c2 name H1 H2 Hn Hok.
  eexists. apply find_from_hit with (rest := []).
  rewrite m_segs_lits. unfold blob_shape.
  replace (slash :: alg ++ slash :: [c1; c2] ++ slash :: name ++ slash :: end_)
    with ((slash :: alg ++ [slash]) ++ c1 :: c2 :: slash :: name ++ slash :: end_)
    by (cbn; rewrite <- app_assoc; reflexivity).
  rewrite m_segs_lits, (any_step c1) by exact H1. rewrite (any_step c2) by exact H2.
  cbn [m_segs m_items]. cbn [atom_ok]. rewrite N.eqb_refl.
  apply group_any_step; [exact Hn|exact Hok|rewrite need_lits; lia|].
  rewrite <- (app_nil_r (slash :: end_)) at 2. rewrite <- (app_nil_r (lits (slash :: end_))).
  rewrite m_segs_lits. reflexivity.
Qed.

Fact blob_re_compiles : compile blob_re_lit = Some (blob_shape blob_alg_lit blob_end_lit).
Proof. vm_compute. reflexivity. Qed.
Fact blob_re_head : hd_error (tokenize blob_re_lit) <> Some TPlus.
Proof. vm_compute. discriminate. Qed.
Fact blob_base_normal : normal_path blob_base_lit = true.
Proof. vm_compute. reflexivity. Qed.
Fact blob_alg_normal : normal_path blob_alg_lit = true.
Proof. vm_compute. reflexivity. Qed.
Fact blob_end_normal : normal_path blob_end_lit = true.
Proof. vm_compute. reflexivity. Qed.

Lemma valid_blob_name_inv : forall n, valid_blob_name n = true ->
  exists c1 c2 c3 t, n = c1 :: c2 :: c3 :: t /\
    forallb (atom_ok AAny) n = true /\ nochar slash n /\ is_normal [c1; c2] = true /\ is_normal n = true.
Proof.
  intros n H. unfold valid_blob_name in H.
  apply andb_true_iff in H as [H Hdd]. apply andb_true_iff in H as [Hlen Hb].
  destruct n as [|c1 [|c2 [|c3 t]]]; try discriminate.
  exists c1, c2, c3, t. repeat split.
  - eapply forallb_impl; [|exact Hb]. intros x Hx. apply andb_true_iff in Hx as [Hx _]. apply name_byte_any. exact Hx.
  - eapply forallb_nochar; [|exact Hb]. intros x Hx ->. apply andb_true_iff in Hx as [_ Hx]. discriminate.
  - cbn [prefixb] in Hdd. unfold is_normal, is_nil, is_dot, is_dotdot. cbn [str_eqb].
    rewrite (N.eqb_sym dot c1), (N.eqb_sym dot c2) in Hdd.
    destruct (c1 =? dot), (c2 =? dot); cbn in *; congruence.
  - unfold is_normal, is_nil, is_dot, is_dotdot. cbn [str_eqb]. rewrite !andb_false_r. reflexivity.
Qed.

Theorem roundtrip_blob_any_root : forall root name, valid_blob_name name = true ->
  exists bp, roundtrip SBlob root name = (Ok bp, Ok name).
Proof.
  intros root name Hv.
  destruct (valid_blob_name_inv _ Hv) as [c1 [c2 [c3 [t [Hn [Hok [Hns [Hsh Hnn]]]]]]]].
  set (base := join [root; blob_base_lit]).
  set (bp := base ++ slash :: blob_alg_lit ++ slash :: [c1; c2] ++ slash :: name ++ slash :: blob_end_lit).
  assert (Hc12 : atom_ok AAny c1 = true /\ atom_ok AAny c2 = true).
  { rewrite Hn in Hok. cbn [forallb] in Hok. apply andb_true_iff in Hok as [Ha Hok].
    apply andb_true_iff in Hok as [Hb _]. split; assumption. }
  assert (Hns12 : nochar slash [c1; c2]).
  { intros Hin. apply Hns. rewrite Hn. destruct Hin as [<-|[<-|[]]]; [left|right; left]; reflexivity. }
  assert (Hbp : blob_path SBlob root name = Ok bp).
  { unfold blob_path. rewrite Hn at 1. cbn [length Nat.leb]. f_equal. cbn [base_path]. fold base.
    replace (firstn 2 name) with [c1; c2] by (rewrite Hn; reflexivity).
    rewrite join_all.
    - cbn [join_slash join_on]. unfold bp. apply join_base; [exact blob_base_normal|].
      repeat apply normal_path_app; try exact blob_alg_normal; try exact blob_end_normal;
        apply normal_path_single; assumption.
    - repeat constructor; try discriminate; try (rewrite Hn; discriminate).
      apply join_root_lit_nonnil. exact blob_base_normal. }
  exists bp. unfold roundtrip. rewrite Hbp. f_equal.
  unfold name_from_path, name_from_path_blob, rx_extract. cbn [base_path]. fold base.
  rewrite (compile_quoted base _ _ blob_re_compiles blob_re_head).
  destruct Hc12 as [Ha Hb].
  destruct (blob_extract base blob_alg_lit blob_end_lit c1 c2 name Ha Hb) as [w Hf];
    [rewrite Hn; discriminate|exact Hok|].
  fold bp in Hf. rewrite Hf. reflexivity.
Qed.

(* ================================================================== G. identity *)

Theorem roundtrip_ident_abs_root : forall root name,
  is_rooted root = true -> valid_ident_name name = true ->
  exists bp, roundtrip SIdent root name = (Ok bp, Ok name).
Proof.
  intros root name Hr Hv. unfold valid_ident_name in Hv.
  pose proof (normal_path_nonnil _ Hv) as Hn0.
  assert (Hroot0 : root <> []) by (destruct root; [discriminate|discriminate]).
  unfold roundtrip, blob_path. eexists. f_equal.
  unfold name_from_path, name_from_path_ident.
  rewrite join_two_nonnil by assumption. rewrite <- clean_clean_app by exact Hroot0.
  destruct (cstack true root) as [|top st] eqn:Est.
  - destruct (clean_app_normal_root root name Hr Est Hv) as [Hc Hbp].
    rewrite Hbp, Hc. cbn [trim_slash]. rewrite N.eqb_refl. cbn [app prefixb length skipn].
    rewrite N.eqb_refl. reflexivity.
  - rewrite clean_app_normal by (try (rewrite Hr, Est; discriminate); exact Hv).
    assert (Htrim : trim_slash (clean root) = clean root).
    { rewrite clean_eq, Hr, Est. unfold render.
      destruct (join_slash_last (rev (top :: st))) as [a [c [E Hc]]].
      - cbn. destruct (rev st); discriminate.
      - apply Forall_rev. rewrite <- Est. apply cstack_elem_ok.
      - rewrite E. change (slash :: a ++ [c]) with ((slash :: a) ++ [c]). apply trim_slash_last. exact Hc. }
    rewrite Htrim. change (clean root ++ slash :: name) with (clean root ++ [slash] ++ name).
    rewrite app_assoc, prefixb_app, skipn_app_len. reflexivity.
Qed.

(* the same for every root (relative ones too) that does not clean to "." *)
Lemma trim_clean : forall root, cstack (is_rooted root) root <> [] -> trim_slash (clean root) = clean root.
Proof.
  intros root Hst. rewrite clean_eq. set (r := is_rooted root) in *.
  destruct (cstack r root) as [|top st] eqn:Est; [congruence|].
  destruct (join_slash_last (rev (top :: st))) as [a [c [E Hc]]].
  - cbn. destruct (rev st); discriminate.
  - apply Forall_rev. rewrite <- Est. apply cstack_elem_ok.
  - unfold render. destruct r.
    + rewrite E. change (slash :: a ++ [c]) with ((slash :: a) ++ [c]). apply trim_slash_last. exact Hc.
    + destruct (rev (top :: st)) eqn:Er; [cbn in Er; destruct (rev st); discriminate|].
      rewrite E. apply trim_slash_last. exact Hc.
Qed.

Definition ident_root_ok (root : str) : bool := negb (str_eqb (clean root) [dot]).

Theorem roundtrip_ident_any_root : forall root name,
  ident_root_ok root = true -> valid_ident_name name = true ->
  exists bp, roundtrip SIdent root name = (Ok bp, Ok name).
Proof.
  intros root name Hok Hv.
  destruct (is_rooted root) eqn:Hr; [apply roundtrip_ident_abs_root; assumption|].
  unfold valid_ident_name in Hv. pose proof (normal_path_nonnil _ Hv) as Hn0.
  assert (Hst : cstack (is_rooted root) root <> []).
  { intro E. unfold ident_root_ok in Hok. rewrite clean_eq, Hr in Hok. rewrite Hr in E. rewrite E in Hok. discriminate. }
  assert (Hroot0 : root <> []).
  { intro; subst. apply Hst. reflexivity. }
  unfold roundtrip, blob_path. eexists. f_equal.
  unfold name_from_path, name_from_path_ident.
  rewrite join_two_nonnil by assumption. rewrite <- clean_clean_app by exact Hroot0.
  rewrite clean_app_normal by assumption. rewrite trim_clean by exact Hst.
  change (clean root ++ slash :: name) with (clean root ++ [slash] ++ name).
  rewrite app_assoc, prefixb_app, skipn_app_len. reflexivity.
Qed.

(* what NameFromBlobPath returns is what followed the cleaned root *)
Theorem ident_extract_sound : forall root bp n,
  name_from_path_ident root bp = Ok n -> bp = trim_slash (clean root) ++ slash :: n.
Proof.
  intros root bp n H. unfold name_from_path_ident in H.
  set (pre := trim_slash (clean root) ++ [slash]) in *.
  destruct (prefixb pre bp) eqn:Hp; [|discriminate]. inversion H; subst n.
  assert (G : forall p s, prefixb p s = true -> s = p ++ skipn (length p) s).
  { induction p as [|x p IH]; intros s Hs; [reflexivity|]. destruct s as [|y s]; [discriminate|].
    cbn in Hs. apply andb_true_iff in Hs as [Hx Hs]. apply N.eqb_eq in Hx; subst. cbn. f_equal. apply IH. exact Hs. }
  rewrite (G _ _ Hp) at 1. unfold pre. rewrite <- app_assoc. reflexivity.
Qed.

(* the fixed code never panics (the pinned code does: unquoted_root_panic_refuted) *)
Theorem no_panic : forall sch root name bp,
  blob_path sch root name <> Panic /\ name_from_path sch root bp <> Panic.
Proof.
  intros sch root name bp. split.
  - destruct sch; unfold blob_path.
    + rewrite tag_sep_colon. destruct (split_on colon name) as [|a [|b [|c l]]]; try discriminate.
      destruct (is_nil a), (is_nil b); discriminate.
    + destruct (Nat.leb (length name) 2); discriminate.
    + discriminate.
  - destruct sch; unfold name_from_path.
    + unfold name_from_path_tag, rx_extract. rewrite (compile_quoted _ _ _ tag_re_compiles tag_re_head).
      destruct (find_from _ bp) as [[w caps]|]; [destruct (Nat.eqb (length caps) 2)|]; discriminate.
    + unfold name_from_path_blob, rx_extract. rewrite (compile_quoted _ _ _ blob_re_compiles blob_re_head).
      destruct (find_from _ bp) as [[w caps]|]; [destruct (Nat.eqb (length caps) 1)|]; discriminate.
    + unfold name_from_path_ident. destruct (prefixb _ bp); discriminate.
Qed.

(* ================================================================== H. the property, all schemes *)

Theorem roundtrip_all : forall sch root name,
  valid_root root = true -> valid_name sch name = true ->
  exists bp, roundtrip sch root name = (Ok bp, Ok name).
Proof.
  intros sch root name Hr Hn. unfold valid_root in Hr. apply andb_true_iff in Hr as [Hr _].
  destruct sch; cbn [valid_name] in Hn.
  - apply roundtrip_tag_any_root. exact Hn.
  - apply roundtrip_blob_any_root. exact Hn.
  - apply roundtrip_ident_abs_root; assumption.
Qed.

Lemma roundtrip_split : forall sch root name bp n',
  roundtrip sch root name = (Ok bp, Ok n') ->
  blob_path sch root name = Ok bp /\ name_from_path sch root bp = Ok n'.
Proof.
  intros sch root name bp n' H. unfold roundtrip in H.
  destruct (blob_path sch root name) as [b| |]; try discriminate.
  inversion H as [[Hb Hn]]. split; reflexivity.
Qed.

Theorem roundtrip_tag : forall root name, valid_root root = true -> valid_tag_name name = true ->
  exists bp, blob_path STag root name = Ok bp /\ name_from_path STag root bp = Ok name.
Proof.
  intros root name Hr Hn. destruct (roundtrip_all STag root name Hr Hn) as [bp H].
  exists bp. apply roundtrip_split. exact H.
Qed.

Theorem roundtrip_blob : forall root name, valid_root root = true -> valid_blob_name name = true ->
  exists bp, blob_path SBlob root name = Ok bp /\ name_from_path SBlob root bp = Ok name.
Proof.
  intros root name Hr Hn. destruct (roundtrip_all SBlob root name Hr Hn) as [bp H].
  exists bp. apply roundtrip_split. exact H.
Qed.

Theorem roundtrip_identity : forall root name, valid_root root = true -> valid_ident_name name = true ->
  exists bp, blob_path SIdent root name = Ok bp /\ name_from_path SIdent root bp = Ok name.
Proof.
  intros root name Hr Hn. destruct (roundtrip_all SIdent root name Hr Hn) as [bp H].
  exists bp. apply roundtrip_split. exact H.
Qed.

(* what a listing reports: two valid names stored under different names have different paths *)
Theorem blob_path_injective : forall sch root n1 n2 bp,
  valid_root root = true -> valid_name sch n1 = true -> valid_name sch n2 = true ->
  blob_path sch root n1 = Ok bp -> blob_path sch root n2 = Ok bp -> n1 = n2.
Proof.
  intros sch root n1 n2 bp Hr H1 H2 E1 E2.
  destruct (roundtrip_all sch root n1 Hr H1) as [b1 R1]. destruct (roundtrip_all sch root n2 Hr H2) as [b2 R2].
  apply roundtrip_split in R1 as [B1 N1]. apply roundtrip_split in R2 as [B2 N2].
  rewrite E1 in B1. rewrite E2 in B2. inversion B1; subst b1. inversion B2; subst b2.
  rewrite N1 in N2. inversion N2. reflexivity.
Qed.

(* lower-case hex digests (what Kraken stores under sharded_docker_blob) are valid names *)
Lemma hex_valid : forall n, is_hex n = true -> (2 < length n)%nat -> valid_blob_name n = true.
Proof.
  intros n Hh Hl. unfold valid_blob_name. apply Nat.ltb_lt in Hl. rewrite Hl. cbn [andb].
  assert (Hb : forall x, is_hex_byte x = true -> name_byte x && negb (x =? slash) = true /\ (x =? dot) = false).
  { intros x Hx. unfold is_hex_byte in Hx. unfold name_byte, slash, dot.
    apply orb_true_iff in Hx as [Hx|Hx]; apply andb_true_iff in Hx as [Ha Hb];
      apply N.leb_le in Ha; apply N.leb_le in Hb;
      repeat split; rewrite ?andb_true_iff, ?negb_true_iff; repeat split;
      try (apply N.leb_le; lia); apply N.eqb_neq; lia. }
  apply andb_true_iff. split.
  - eapply forallb_impl; [|exact Hh]. intros x Hx. apply Hb. exact Hx.
  - destruct n as [|c1 [|c2 t]]; [reflexivity|cbn [prefixb]; rewrite andb_false_r; reflexivity|].
    cbn [prefixb]. cbn [is_hex forallb] in Hh.
    apply andb_true_iff in Hh as [H1 _]. apply Hb in H1 as [_ H1]. rewrite (N.eqb_sym dot c1), H1. reflexivity.
Qed.

(* executable form used on observed round trips *)
Theorem check_sound : forall sch root name, C36_check sch root name (roundtrip sch root name) = true.
Proof.
  intros sch root name. unfold C36_check.
  destruct (valid_root root && valid_name sch name) eqn:E; [|reflexivity].
  apply andb_true_iff in E as [Hr Hn]. destruct (roundtrip_all sch root name Hr Hn) as [bp H].
  rewrite H. cbn. apply str_eqb_refl.
Qed.

(* ================================================================== I. the code at the pinned commit *)

(* identity: a root with a trailing slash (or "/") loses the first byte of the name *)
Theorem identity_trailing_slash_refuted :
  exists root name, valid_root root = true /\ valid_ident_name name = true /\
    roundtrip_pre SIdent root name = (Ok (root ++ name), Ok (tl name)) /\ tl name <> name.
Proof. exists [47; 97; 47], [98; 99]. vm_compute. repeat split; discriminate. Qed.

Theorem identity_fs_root_refuted :
  exists name, valid_ident_name name = true /\ snd (roundtrip_pre SIdent [slash] name) = Ok (tl name) /\ tl name <> name.
Proof. exists [98; 99]. vm_compute. repeat split; discriminate. Qed.

(* identity: a root that Join cleans (doubled slash) is not recognised at all *)
Theorem identity_unclean_root_refuted :
  exists root name, valid_root root = true /\ valid_ident_name name = true /\
    snd (roundtrip_pre SIdent root name) = Err.
Proof. exists [47; 97; 47; 47; 98], [99]. vm_compute. repeat split. Qed.

(* docker_tag / sharded_docker_blob: the root is spliced into the pattern unquoted *)
Theorem unquoted_root_refuted :
  exists root tname bname, valid_root root = true /\ valid_tag_name tname = true /\ valid_blob_name bname = true /\
    snd (roundtrip_pre STag root tname) = Err /\ snd (roundtrip_pre SBlob root bname) = Err.
Proof. exists [47; 97; 43; 98], [114; 58; 116], [97; 98; 99]. vm_compute. repeat split. Qed.

Theorem unquoted_root_panic_refuted :
  exists root tname, valid_root root = true /\ valid_tag_name tname = true /\
    snd (roundtrip_pre STag root tname) = Panic.
Proof. exists [47; 99; 43; 43], [114; 58; 116]. vm_compute. repeat split. Qed.
