(* C37 — the contract's domain contains every natural name space: for clean roots and clean
   relative names (the identity pather's valid names, C36) the clients' key mappings are
   injective and round-trip, so `guard` / `guard_list` hold.  String-level reasoning over PathLib. *)
From Coq Require Import List NArith Bool Lia PeanoNat.
From K.Model Require Import C37.
From K.Proof Require Import PathLib C37_base C37_engines.
Import ListNotations.
Local Open Scope N_scope.

(* ------------------------------------------------------------------ path.Clean on clean paths *)

Lemma comps_cons_slash : forall q, comps (slash :: q) = [] :: comps q.
Proof. intros q. unfold comps. cbn [split_on]. rewrite N.eqb_refl. reflexivity. Qed.

Lemma clean_rooted_normal : forall q, normal_path q = true -> clean (slash :: q) = slash :: q.
Proof.
  intros q H. rewrite clean_eq. cbn [is_rooted]. rewrite N.eqb_refl.
  unfold cstack. rewrite comps_cons_slash. cbn [fold_left]. unfold push at 2. cbn [is_nil].
  unfold normal_path in H. rewrite fold_push_normal by exact H.
  rewrite app_nil_r, rev_involutive. unfold render. rewrite join_comps. reflexivity.
Qed.

Lemma clean_slash_slash_normal : forall q, normal_path q = true -> clean (slash :: slash :: q) = slash :: q.
Proof.
  intros q H. rewrite clean_eq. cbn [is_rooted]. rewrite N.eqb_refl.
  unfold cstack. rewrite !comps_cons_slash. cbn [fold_left]. unfold push at 2 3. cbn [is_nil].
  unfold normal_path in H. rewrite fold_push_normal by exact H.
  rewrite app_nil_r, rev_involutive. unfold render. rewrite join_comps. reflexivity.
Qed.

Lemma normal_not_rooted : forall q, normal_path q = true -> is_rooted q = false /\ q <> [].
Proof.
  intros q H. unfold normal_path in H. destruct q as [|c t]; [discriminate|].
  split; [|discriminate]. cbn [is_rooted]. destruct (c =? slash) eqn:E; [|reflexivity].
  apply N.eqb_eq in E. subst. rewrite comps_cons_slash in H. discriminate.
Qed.

Lemma clean_rel_normal : forall q, normal_path q = true -> clean q = q.
Proof.
  intros q H. destruct (normal_not_rooted q H) as [Hr _]. rewrite clean_eq, Hr.
  unfold cstack. unfold normal_path in H. rewrite fold_push_normal by exact H.
  rewrite app_nil_r, rev_involutive. unfold render.
  destruct (comps q) eqn:E; [exfalso; eapply split_on_nonempty; exact E|]. rewrite <- E. apply join_comps.
Qed.

Lemma normal_last : forall q, normal_path q = true -> exists a c, q = a ++ [c] /\ c <> slash.
Proof.
  intros q H. rewrite <- (join_comps q). apply join_slash_last.
  - apply split_on_nonempty.
  - unfold normal_path in H. rewrite forallb_forall in H.
    pose proof (split_on_elems_nochar slash q) as Hn. rewrite Forall_forall in Hn.
    apply Forall_forall. intros x Hx. split; [apply is_normal_nonnil; apply H; exact Hx|apply Hn; exact Hx].
Qed.

Lemma trim_slash_normal : forall q, normal_path q = true -> trim_slash q = q.
Proof. intros q H. destruct (normal_last q H) as [a [c [-> Hc]]]. apply trim_slash_last. exact Hc. Qed.

(* ------------------------------------------------------------------ the identity pather on clean names *)

(* relative root (testfs) *)
Lemma blob_path_rel : forall R n, normal_path R = true -> normal_path n = true ->
  blob_path R n = R ++ slash :: n.
Proof.
  intros R n HR Hn. unfold blob_path.
  rewrite join_two_nonnil by (apply normal_path_nonnil; assumption).
  apply clean_rel_normal. apply normal_path_app; assumption.
Qed.

Lemma name_from_path_rel : forall R n, normal_path R = true ->
  name_from_path R (R ++ slash :: n) = Some n.
Proof.
  intros R n HR. unfold name_from_path. rewrite (clean_rel_normal R HR), (trim_slash_normal R HR).
  replace (R ++ slash :: n) with ((R ++ [slash]) ++ n) by (rewrite <- app_assoc; reflexivity).
  rewrite prefixb_app, skipn_all_app. reflexivity.
Qed.

(* absolute root "/" ++ r (s3) *)
Lemma blob_path_abs : forall r n, normal_path r = true -> normal_path n = true ->
  blob_path (slash :: r) n = slash :: r ++ slash :: n.
Proof.
  intros r n Hr Hn. unfold blob_path.
  rewrite join_two_nonnil by (try discriminate; apply normal_path_nonnil; assumption).
  cbn [app]. apply clean_rooted_normal. apply normal_path_app; assumption.
Qed.

Lemma name_from_path_abs : forall r n, normal_path r = true ->
  name_from_path (slash :: r) (slash :: r ++ slash :: n) = Some n.
Proof.
  intros r n Hr. unfold name_from_path. rewrite (clean_rooted_normal r Hr).
  destruct (normal_last r Hr) as [a [c [-> Hc]]].
  change (slash :: a ++ [c]) with ((slash :: a) ++ [c]). rewrite trim_slash_last by exact Hc.
  replace (slash :: (a ++ [c]) ++ slash :: n) with ((((slash :: a) ++ [c]) ++ [slash]) ++ n)
    by (cbn [app]; rewrite <- !app_assoc; reflexivity).
  rewrite prefixb_app, skipn_all_app. reflexivity.
Qed.

(* ------------------------------------------------------------------ s3: every clean name space is in the domain *)

Definition s3_root_ok (R : str) : bool :=
  match R with c :: r => (c =? slash) && normal_path r | [] => false end.

Lemma s3_key_valid : forall r n, normal_path r = true -> normal_path n = true ->
  s3_key (slash :: r) n = r ++ slash :: n.
Proof.
  intros r n Hr Hn. unfold s3_key. rewrite (blob_path_abs r n Hr Hn). cbn [strip1]. rewrite N.eqb_refl. reflexivity.
Qed.

Lemma s3_round_valid : forall r n, normal_path r = true -> normal_path n = true ->
  s3_name_of (slash :: r) (s3_key (slash :: r) n) = Some n.
Proof.
  intros r n Hr Hn. rewrite (s3_key_valid r n Hr Hn). unfold s3_name_of.
  assert (Hq : normal_path (r ++ slash :: n) = true) by (apply normal_path_app; assumption).
  rewrite join_two_nonnil by (try discriminate; apply normal_path_nonnil; exact Hq).
  cbn [app]. rewrite (clean_slash_slash_normal _ Hq). apply name_from_path_abs. exact Hr.
Qed.

Theorem s3_guard_of_valid : forall c ops,
  c_bk c = Single KS3 -> s3_root_ok (s3_root c) = true ->
  forallb normal_path (names_of ops) = true -> no_raw ops = true -> no_side ops = true ->
  guard c ops = true /\ guard_list c KS3 ops = true.
Proof.
  intros c ops Hb HR Hn Hr Hs. unfold s3_root_ok in HR.
  destruct (s3_root c) as [|c0 r] eqn:ER; [discriminate|].
  apply andb_true_iff in HR. destruct HR as [Hc0 Hrn]. apply N.eqb_eq in Hc0. subst c0.
  rewrite forallb_forall in Hn.
  split.
  - unfold guard. rewrite Hb, Hs, andb_true_r. unfold guard_e. rewrite Hr, !andb_true_r.
    apply andb_true_iff. split.
    + apply forallb_forall. intros n _. reflexivity.
    + apply forallb_forall. intros a Ha. apply forallb_forall. intros b Hb'. unfold apart.
      destruct (str_eqb a b) eqn:E; [reflexivity|]. cbn [orb]. rewrite ER.
      rewrite (s3_key_valid r a Hrn (Hn a Ha)), (s3_key_valid r b Hrn (Hn b Hb')).
      apply negb_true_iff. apply str_eqb_neq. intros Heq. apply app_inv_head in Heq.
      apply str_eqb_neq in E. congruence.
  - unfold guard_list. apply forallb_forall. intros n Hin. unfold round_ok. rewrite ER.
    rewrite (s3_round_valid r n Hrn (Hn n Hin)). apply str_eqb_refl.
Qed.

(* ------------------------------------------------------------------ testfs: clean colon-free names, pairwise not directories of each other *)

Definition nocolon (s : str) : bool := forallb (fun c => negb (c =? colon)) s.
Definition fs_name_ok (n : str) : bool := normal_path n && nocolon n.
(* no name is a proper directory prefix of another *)
Definition prefix_free (ns : list str) : bool :=
  forallb (fun a => forallb (fun b => str_eqb a b ||
             (negb (prefixb (a ++ [slash]) b) && negb (prefixb (b ++ [slash]) a))) ns) ns.

Lemma replace_colon_nocolon : forall s, nocolon s = true -> replace_colon s = s.
Proof.
  induction s as [|c t IH]; intros H; [reflexivity|]. cbn [nocolon forallb] in H.
  apply andb_true_iff in H. destruct H as [H1 H2]. cbn [replace_colon map].
  apply negb_true_iff in H1. rewrite H1. f_equal. apply IH. exact H2.
Qed.

Lemma nocolon_app : forall a b, nocolon (a ++ b) = nocolon a && nocolon b.
Proof. intros a b. unfold nocolon. apply forallb_app. Qed.

Lemma fs_key_valid : forall R n, fs_name_ok R = true -> fs_name_ok n = true ->
  fs_key R n = R ++ slash :: n.
Proof.
  intros R n HR Hn. unfold fs_name_ok in *. apply andb_true_iff in HR. apply andb_true_iff in Hn.
  destruct HR as [HR1 HR2]. destruct Hn as [Hn1 Hn2].
  unfold fs_key. rewrite (blob_path_rel R n HR1 Hn1). unfold fs_path.
  rewrite replace_colon_nocolon.
  - rewrite clean_rooted_normal by (apply normal_path_app; assumption). reflexivity.
  - rewrite nocolon_app, HR2. cbn [nocolon forallb andb]. exact Hn2.
Qed.

Lemma prefixb_app_same : forall p x y, prefixb (p ++ x) (p ++ y) = prefixb x y.
Proof.
  induction p as [|c p IH]; intros x y; [reflexivity|]. cbn [app prefixb]. rewrite N.eqb_refl. apply IH.
Qed.

Theorem fs_guard_of_valid : forall c ops,
  c_bk c = Single KFs -> fs_name_ok (fs_root c) = true ->
  forallb fs_name_ok (names_of ops) = true -> prefix_free (names_of ops) = true ->
  no_raw ops = true -> no_side ops = true ->
  guard c ops = true /\ guard_list c KFs ops = true.
Proof.
  intros c ops Hb HR Hn Hpf Hr Hs. rewrite forallb_forall in Hn.
  split.
  - unfold guard. rewrite Hb, Hs, andb_true_r. unfold guard_e. rewrite Hr, !andb_true_r.
    apply andb_true_iff. split.
    + apply forallb_forall. intros n Hin. unfold key_ok. rewrite (fs_key_valid _ n HR (Hn n Hin)).
      destruct (fs_root c); reflexivity.
    + apply forallb_forall. intros a Ha. apply forallb_forall. intros b Hb'. unfold apart.
      unfold prefix_free in Hpf. rewrite forallb_forall in Hpf. specialize (Hpf a Ha).
      rewrite forallb_forall in Hpf. specialize (Hpf b Hb').
      destruct (str_eqb a b) eqn:E; [reflexivity|]. cbn [orb] in *.
      rewrite (fs_key_valid _ a HR (Hn a Ha)), (fs_key_valid _ b HR (Hn b Hb')).
      apply andb_true_iff in Hpf. destruct Hpf as [P1 P2].
      rewrite <- !app_assoc. cbn [app]. rewrite !prefixb_app_same. cbn [prefixb]. rewrite N.eqb_refl. cbn [andb].
      rewrite P1, P2, !andb_true_r. apply negb_true_iff. apply str_eqb_neq. intros Heq.
      apply app_inv_head in Heq. apply str_eqb_neq in E. congruence.
  - unfold guard_list. apply forallb_forall. intros n Hin. unfold round_ok.
    rewrite (fs_key_valid _ n HR (Hn n Hin)).
    assert (HR1 : normal_path (fs_root c) = true) by (unfold fs_name_ok in HR; apply andb_true_iff in HR; tauto).
    rewrite (name_from_path_rel _ n HR1). apply str_eqb_refl.
Qed.

(* ------------------------------------------------------------------ sql: every set of repo:tag names *)

Theorem sql_guard_of_valid : forall c ops,
  c_bk c = Single KSql ->
  forallb (fun n => match decompose n with Some _ => true | None => false end) (names_of ops) = true ->
  negb (sql_zero c) || forallb (fun v => negb (is_nil v)) (contents_of ops) = true ->
  no_raw ops = true -> no_side ops = true ->
  guard c ops = true /\ guard_list c KSql ops = true.
Proof.
  intros c ops Hb Hn Hz Hr Hs. split.
  - unfold guard. rewrite Hb, Hs, andb_true_r. unfold guard_e. rewrite Hr, Hz, !andb_true_r.
    apply andb_true_iff. split; [exact Hn|].
    apply forallb_forall. intros a _. apply forallb_forall. intros b _. unfold apart. apply orb_true_r.
  - unfold guard_list. apply forallb_forall. intros n _. reflexivity.
Qed.

(* repo:tag names: any non-empty colon-free repo and tag *)
Lemma decompose_tag_name : forall r t, r <> [] -> t <> [] -> nocolon r = true -> nocolon t = true ->
  decompose (tag_name r t) = Some (r, t).
Proof.
  intros r t Hr Ht Cr Ct. unfold decompose, tag_name.
  assert (Hnc : forall s, nocolon s = true -> nochar colon s).
  { intros s H Hin. unfold nocolon in H. rewrite forallb_forall in H. specialize (H _ Hin).
    rewrite N.eqb_refl in H. discriminate. }
  rewrite split_on_app, (split_on_nochar _ r (Hnc r Cr)), (split_on_nochar _ t (Hnc t Ct)). cbn [app].
  destruct r; [congruence|]. destruct t; [congruence|]. reflexivity.
Qed.
