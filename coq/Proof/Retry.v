(* Lemmas about K.Model.Retry: the inductive invariant of the task store + manager state machine
   and its consequences.  Imported read-only by C31-C33. *)
From Coq Require Import List NArith Bool Lia Arith.
From K.Model Require Import Retry.
Import ListNotations.
Local Open Scope N_scope.

Notation cnt l t := (count_occ N.eq_dec l t).

(* ------------------------------------------------------------------ generic helpers *)

Lemma pick_spec {A} (f : A -> bool) l b x a :
  pick f l = Some (b, x, a) -> l = b ++ x :: a /\ f x = true.
Proof.
  revert b x a. induction l as [|y l IH]; intros b x a H; cbn in H; [discriminate|].
  destruct (f y) eqn:E.
  - inversion H; subst. split; [reflexivity|assumption].
  - destruct (pick f l) as [[[b' y'] a']|] eqn:P; [|discriminate].
    inversion H; subst. destruct (IH _ _ _ eq_refl) as [-> Hf]. split; [reflexivity|assumption].
Qed.

Lemma pick_none {A} (f : A -> bool) l : pick f l = None -> forall x, In x l -> f x = false.
Proof.
  induction l as [|y l IH]; intros H x Hin; [destruct Hin|].
  cbn in H. destruct (f y) eqn:E; [discriminate|].
  destruct (pick f l) as [[[b' y'] a']|] eqn:P; [discriminate|].
  destruct Hin as [<-|Hin]; [assumption|]. apply IH; auto.
Qed.

Lemma pick_some {A} (f : A -> bool) l x : In x l -> f x = true -> pick f l <> None.
Proof. intros Hin Hf Hn. rewrite (pick_none f l Hn x Hin) in Hf. discriminate. Qed.

Lemma memb_In t l : memb t l = true <-> In t l.
Proof.
  unfold memb. rewrite existsb_exists. split.
  - intros [x [Hin E]]. apply N.eqb_eq in E. subst. assumption.
  - intros H. exists t. split; [assumption|apply N.eqb_refl].
Qed.

Lemma nodupb_NoDup l : nodupb l = true -> NoDup l.
Proof.
  induction l as [|x l IH]; cbn; intros H; [constructor|].
  apply andb_true_iff in H as [H1 H2]. constructor; [|auto].
  intros Hin. apply memb_In in Hin. rewrite Hin in H1. discriminate.
Qed.

Lemma NoDup_nodupb l : NoDup l -> nodupb l = true.
Proof.
  induction 1 as [|x l Hn _ IH]; cbn; [reflexivity|]. rewrite IH, andb_true_r.
  destruct (memb x l) eqn:E; [|reflexivity]. apply memb_In in E. contradiction.
Qed.

Lemma order_ok_spec order want :
  order_ok order want = true -> NoDup order /\ (forall t, In t order <-> In t want).
Proof.
  unfold order_ok. intros H. apply andb_true_iff in H as [H H3]. apply andb_true_iff in H as [H1 H2].
  split; [apply nodupb_NoDup; assumption|].
  rewrite forallb_forall in H2, H3. intros t. split; intros Hin.
  - apply memb_In. auto.
  - apply memb_In. auto.
Qed.

Lemma order_ok_refl l : NoDup l -> order_ok l l = true.
Proof.
  intros H. unfold order_ok. rewrite (NoDup_nodupb _ H). cbn.
  assert (F : forallb (fun t => memb t l) l = true) by (apply forallb_forall; intros; apply memb_In; assumption).
  rewrite F. reflexivity.
Qed.

(* ------------------------------------------------------------------ the store *)

Lemma ids_upd t f s : (forall r, r_id (f r) = r_id r) -> ids (upd t f s) = ids s.
Proof.
  intros Hf. unfold ids, upd. rewrite map_map. apply map_ext. intros r.
  destruct (r_id r =? t); auto.
Qed.

Lemma ids_mark_failed t now s : ids (mark_failed t now s) = ids s.
Proof. apply ids_upd. reflexivity. Qed.
Lemma ids_mark_pending t s : ids (mark_pending t s) = ids s.
Proof. apply ids_upd. reflexivity. Qed.

Lemma storedb_In t s : storedb t s = true <-> In t (ids s).
Proof.
  unfold storedb, ids. rewrite existsb_exists, in_map_iff. split.
  - intros [r [Hin E]]. apply N.eqb_eq in E. eauto.
  - intros [r [E Hin]]. exists r. split; [assumption|]. apply N.eqb_eq. assumption.
Qed.

Lemma storedb_ids s s' t : ids s = ids s' -> storedb t s = storedb t s'.
Proof.
  intros E. destruct (storedb t s) eqn:A; destruct (storedb t s') eqn:B; try reflexivity.
  - apply storedb_In in A. rewrite E in A. apply storedb_In in A. congruence.
  - apply storedb_In in B. rewrite <- E in B. apply storedb_In in B. congruence.
Qed.

Lemma storedb_mark_failed t' t now s : storedb t' (mark_failed t now s) = storedb t' s.
Proof. apply storedb_ids, ids_mark_failed. Qed.
Lemma storedb_mark_pending t' t s : storedb t' (mark_pending t s) = storedb t' s.
Proof. apply storedb_ids, ids_mark_pending. Qed.

Lemma ids_mark_failed_all order now s : ids (mark_failed_all order now s) = ids s.
Proof.
  unfold mark_failed_all. revert s. induction order as [|t o IH]; intros s; cbn; [reflexivity|].
  rewrite IH. apply ids_mark_failed.
Qed.

Lemma storedb_remove t' t s : storedb t' (remove_row t s) = negb (t' =? t) && storedb t' s.
Proof.
  unfold storedb, remove_row. induction s as [|r s IH]; cbn; [rewrite andb_false_r; reflexivity|].
  destruct (r_id r =? t) eqn:E; cbn.
  - rewrite IH. apply N.eqb_eq in E. rewrite E.
    destruct (t =? t') eqn:E2.
    + apply N.eqb_eq in E2. subst. rewrite N.eqb_refl. reflexivity.
    + reflexivity.
  - rewrite IH. destruct (r_id r =? t') eqn:E2; cbn; [|reflexivity].
    apply N.eqb_eq in E2. subst. rewrite E. reflexivity.
Qed.

Lemma pendingb_upd_failed t' t now s :
  pendingb t' (mark_failed t now s) = negb (t' =? t) && pendingb t' s.
Proof.
  unfold pendingb, mark_failed, upd. induction s as [|r s IH]; cbn; [rewrite andb_false_r; reflexivity|].
  rewrite IH. destruct (r_id r =? t) eqn:E; cbn.
  - apply N.eqb_eq in E. rewrite E. destruct (t =? t') eqn:E2; cbn.
    + apply N.eqb_eq in E2. subst. rewrite N.eqb_refl. reflexivity.
    + rewrite N.eqb_sym in E2. rewrite E2. reflexivity.
  - destruct (r_id r =? t') eqn:E2; cbn; [|reflexivity].
    apply N.eqb_eq in E2. subst. rewrite E. reflexivity.
Qed.

Lemma pendingb_remove t' t s : pendingb t' (remove_row t s) = negb (t' =? t) && pendingb t' s.
Proof.
  unfold pendingb, remove_row. induction s as [|r s IH]; cbn; [rewrite andb_false_r; reflexivity|].
  destruct (r_id r =? t) eqn:E; cbn.
  - rewrite IH. apply N.eqb_eq in E. rewrite E.
    destruct (t =? t') eqn:E2; cbn.
    + apply N.eqb_eq in E2. subst. rewrite N.eqb_refl. reflexivity.
    + reflexivity.
  - rewrite IH. destruct (r_id r =? t') eqn:E2; cbn; [|reflexivity].
    apply N.eqb_eq in E2. subst. rewrite E. reflexivity.
Qed.

Lemma pendingb_stored t s : pendingb t s = true -> storedb t s = true.
Proof.
  unfold pendingb, storedb. rewrite !existsb_exists. intros [r [Hin E]].
  apply andb_true_iff in E as [E _]. eauto.
Qed.

Lemma pendingb_mark_pending t' t s :
  pendingb t' (mark_pending t s) = if t' =? t then storedb t s else pendingb t' s.
Proof.
  unfold pendingb, storedb, mark_pending, upd. induction s as [|r s IH]; cbn.
  - destruct (t' =? t); reflexivity.
  - rewrite IH. destruct (r_id r =? t) eqn:E; cbn.
    + apply N.eqb_eq in E. rewrite E. destruct (t' =? t) eqn:E2.
      * apply N.eqb_eq in E2. subst. rewrite N.eqb_refl. reflexivity.
      * rewrite N.eqb_sym, E2. reflexivity.
    + destruct (t' =? t) eqn:E2; [|reflexivity].
      apply N.eqb_eq in E2. subst. rewrite E. reflexivity.
Qed.

Lemma pendingb_app t s1 s2 : pendingb t (s1 ++ s2) = pendingb t s1 || pendingb t s2.
Proof. apply existsb_app. Qed.

Lemma add_row_some t stt d now s s' :
  add_row t stt d now s = Some s' -> storedb t s = false /\ s' = s ++ [mkrow t stt 0 now d None].
Proof. unfold add_row. destruct (storedb t s); [discriminate|]. intros H; inversion H; auto. Qed.

Lemma add_row_none t stt d now s : add_row t stt d now s = None -> storedb t s = true.
Proof. unfold add_row. destruct (storedb t s); [reflexivity|discriminate]. Qed.

Lemma NoDup_ids_add t stt d now s :
  NoDup (ids s) -> storedb t s = false -> NoDup (ids (s ++ [mkrow t stt 0 now d None])).
Proof.
  intros Hn Hs. unfold ids. rewrite map_app. cbn.
  rewrite <- (rev_involutive (map r_id s ++ [t])). apply NoDup_rev. rewrite rev_app_distr. cbn.
  constructor.
  - rewrite <- in_rev. intros Hin. apply storedb_In in Hin. congruence.
  - apply NoDup_rev. assumption.
Qed.

Lemma NoDup_ids_remove t s : NoDup (ids s) -> NoDup (ids (remove_row t s)).
Proof.
  unfold ids, remove_row. induction s as [|r s IH]; cbn; intros H; [constructor|].
  inversion H; subst. destruct (r_id r =? t); cbn; [auto|].
  constructor; [|auto]. intros Hin. apply H2. apply in_map_iff in Hin as [x [E Hx]].
  apply filter_In in Hx as [Hx _]. apply in_map_iff. eauto.
Qed.

(* a stored row decides the status of its id when ids are unique *)
Lemma row_unique s r1 r2 : NoDup (ids s) -> In r1 s -> In r2 s -> r_id r1 = r_id r2 -> r1 = r2.
Proof.
  unfold ids. induction s as [|r s IH]; cbn; intros Hn H1 H2 E; [destruct H1|].
  inversion Hn; subst.
  destruct H1 as [<-|H1], H2 as [<-|H2]; auto.
  - exfalso. apply H3. rewrite E. apply in_map. assumption.
  - exfalso. apply H3. rewrite <- E. apply in_map. assumption.
Qed.

Lemma pendingb_true_row t s : pendingb t s = true -> exists r, In r s /\ r_id r = t /\ r_st r = Pending.
Proof.
  unfold pendingb. rewrite existsb_exists. intros [r [Hin E]]. apply andb_true_iff in E as [E1 E2].
  apply N.eqb_eq in E1. exists r. repeat split; auto. unfold is_pending in E2. destruct (r_st r); [reflexivity|discriminate].
Qed.

Lemma row_pendingb r s : In r s -> r_st r = Pending -> pendingb (r_id r) s = true.
Proof.
  intros Hin E. unfold pendingb. apply existsb_exists. exists r. split; [assumption|].
  rewrite N.eqb_refl. unfold is_pending. rewrite E. reflexivity.
Qed.

Lemma failed_not_pending s r : NoDup (ids s) -> In r s -> r_st r = Failed -> pendingb (r_id r) s = false.
Proof.
  intros Hn Hin E. destruct (pendingb (r_id r) s) eqn:P; [|reflexivity].
  apply pendingb_true_row in P as [r' [Hin' [E1 E2]]].
  rewrite (row_unique s r' r Hn Hin' Hin E1) in E2. congruence.
Qed.

Lemma In_upd_other r t f s : In r s -> r_id r <> t -> In r (upd t f s).
Proof.
  intros Hin Hne. unfold upd. apply in_map_iff. exists r. split; [|assumption].
  destruct (r_id r =? t) eqn:E; [|reflexivity]. apply N.eqb_eq in E. contradiction.
Qed.

Lemma In_remove_other r t s : In r s -> r_id r <> t -> In r (remove_row t s).
Proof.
  intros Hin Hne. unfold remove_row. apply filter_In. split; [assumption|].
  destruct (r_id r =? t) eqn:E; [|reflexivity]. apply N.eqb_eq in E. contradiction.
Qed.

Lemma find_row_In t s r : find_row t s = Some r -> In r s /\ r_id r = t.
Proof. unfold find_row. intros H. apply find_some in H as [H1 H2]. apply N.eqb_eq in H2. auto. Qed.

Lemma In_find_row s r : NoDup (ids s) -> In r s -> find_row (r_id r) s = Some r.
Proof.
  intros Hn Hin. destruct (find_row (r_id r) s) as [r'|] eqn:F.
  - apply find_row_In in F as [H1 H2]. f_equal. apply (row_unique s); auto.
  - unfold find_row in F. pose proof (find_none _ _ F r Hin) as H. cbn in H. rewrite N.eqb_refl in H. discriminate.
Qed.

Lemma in_get_rows order s r : In r (get_rows order s) -> In r s /\ In (r_id r) order.
Proof.
  unfold get_rows. rewrite in_flat_map. intros [t [Hin Hr]].
  destruct (find_row t s) as [r'|] eqn:F; [|destruct Hr].
  destruct Hr as [<-|[]]. apply find_row_In in F as [H1 H2]. subst. auto.
Qed.

Lemma ids_get_rows order s : (forall t, In t order -> storedb t s = true) -> map r_id (get_rows order s) = order.
Proof.
  unfold get_rows. induction order as [|t o IH]; intros H; cbn; [reflexivity|].
  destruct (find_row t s) as [r|] eqn:F.
  - cbn. apply find_row_In in F as [_ ->]. f_equal. apply IH. intros; apply H; right; assumption.
  - exfalso. specialize (H t (or_introl eq_refl)). apply storedb_In in H.
    apply in_map_iff in H as [r [E Hin]]. unfold find_row in F.
    pose proof (find_none _ _ F r Hin) as X. cbn in X. rewrite E, N.eqb_refl in X. discriminate.
Qed.

Lemma get_rows_ids s : NoDup (ids s) -> get_rows (ids s) s = s.
Proof.
  intros Hn. unfold get_rows.
  assert (G : forall l, (forall r, In r l -> In r s) -> flat_map (fun t => match find_row t s with Some r => [r] | None => [] end) (ids l) = l).
  { induction l as [|r l IH]; intros Hl; cbn; [reflexivity|].
    rewrite (In_find_row s r Hn (Hl r (or_introl eq_refl))). cbn. f_equal. apply IH. intros; apply Hl; right; assumption. }
  apply G. auto.
Qed.

Lemma in_pending_ids t s : In t (pending_ids s) <-> pendingb t s = true.
Proof.
  unfold pending_ids, ids, pendingb. rewrite in_map_iff, existsb_exists. split.
  - intros [r [E Hin]]. apply filter_In in Hin as [Hin P]. exists r. split; [assumption|].
    rewrite E, N.eqb_refl. assumption.
  - intros [r [Hin E]]. apply andb_true_iff in E as [E1 E2]. apply N.eqb_eq in E1.
    exists r. split; [assumption|]. apply filter_In. auto.
Qed.

Lemma in_failed_ids t s : In t (failed_ids s) <-> failedb t s = true.
Proof.
  unfold failed_ids, ids, failedb. rewrite in_map_iff, existsb_exists. split.
  - intros [r [E Hin]]. apply filter_In in Hin as [Hin P]. exists r. split; [assumption|].
    rewrite E, N.eqb_refl. assumption.
  - intros [r [Hin E]]. apply andb_true_iff in E as [E1 E2]. apply N.eqb_eq in E1.
    exists r. split; [assumption|]. apply filter_In. auto.
Qed.

Lemma NoDup_ids_filter f s : NoDup (ids s) -> NoDup (ids (filter f s)).
Proof.
  unfold ids. induction s as [|r s IH]; cbn; intros H; [constructor|].
  inversion H; subst. destruct (f r); cbn; [|auto].
  constructor; [|auto]. intros Hin. apply H2. apply in_map_iff in Hin as [x [E Hx]].
  apply filter_In in Hx as [Hx _]. apply in_map_iff. eauto.
Qed.

(* ------------------------------------------------------------------ the invariant *)

(* every stored pending task has exactly one holder (a queue slot, a worker, an Add call or the
   poller on its way to a queue); nothing else is held *)
Definition held_ok (sto : store) (m : mgr) : Prop :=
  forall t, cnt (held m) t = if pendingb t sto then 1%nat else 0%nat.
(* the rows the poller still has to look at are stored, failed and unchanged *)
Definition snap_ok (sto : store) (m : mgr) : Prop :=
  NoDup (map r_id (p_rest (m_poll m))) /\
  forall r, In r (p_rest (m_poll m)) -> In r sto /\ r_st r = Failed.
(* the latest executor event about a task in a worker's hands is that worker's *)
Definition log_ok (log : list ev) (m : mgr) : Prop :=
  forall w, In w (m_work m) ->
    last_ev (w_t w) log = Some (match w_ph w with WRun => EStart (w_t w) | WFin ok => ERet (w_t w) ok end).

Definition Inv (s : st) : Prop :=
  NoDup (ids (s_store s)) /\
  match s_mgr s with
  | None => True
  | Some m => held_ok (s_store s) m /\ snap_ok (s_store s) m /\ log_ok (s_log s) m
  end.

Lemma held_pending sto m t : held_ok sto m -> In t (held m) -> pendingb t sto = true.
Proof.
  intros H Hin. specialize (H t). apply (count_occ_In N.eq_dec) in Hin.
  destruct (pendingb t sto); [reflexivity|lia].
Qed.

Lemma add_held_app b x a : add_held (b ++ x :: a) = add_held b ++ a_held (snd x) ++ add_held a.
Proof. unfold add_held. rewrite flat_map_app. reflexivity. Qed.

Lemma add_held_app2 b a : add_held (b ++ a) = add_held b ++ add_held a.
Proof. unfold add_held. apply flat_map_app. Qed.

Lemma pendingb_mark_failed_all t order now s :
  pendingb t (mark_failed_all order now s) = negb (memb t order) && pendingb t s.
Proof.
  unfold mark_failed_all. revert s. induction order as [|x o IH]; intros s.
  - reflexivity.
  - cbn [fold_left]. rewrite IH, pendingb_upd_failed. unfold memb. cbn [existsb].
    destruct (t =? x); destruct (existsb (N.eqb t) o); reflexivity.
Qed.

Lemma held_set_closed m : held (set_closed m) = held m.
Proof. destruct m; reflexivity. Qed.

Ltac hnorm :=
  unfold held, executing, push, set_add, set_poll, set_work, set_queue, set_idle, set_closed, queue_of in *;
  cbn [m_in m_re m_work m_add m_poll m_closed m_idle_in m_idle_re] in *;
  repeat rewrite ?add_held_app, ?add_held_app2, ?map_app, ?count_occ_app in *;
  cbn [a_held p_held p_rest snd map add_held flat_map app w_t] in *.

Lemma pendingb_single t0 t stt f c d l :
  pendingb t0 [mkrow t stt f c d l] = (t =? t0) && status_eqb stt Pending.
Proof. unfold pendingb. cbn. rewrite orb_false_r. reflexivity. Qed.

Lemma not_stored_not_pending t s : storedb t s = false -> pendingb t s = false.
Proof. intros H. destruct (pendingb t s) eqn:P; [|reflexivity]. apply pendingb_stored in P. congruence. Qed.

Ltac deq x y :=
  destruct (N.eq_dec x y) as [?E|?E];
  [subst; rewrite ?N.eqb_refl in *
  |rewrite ?(proj2 (N.eqb_neq x y) E), ?(proj2 (N.eqb_neq y x) (not_eq_sym E)) in *].

Lemma snap_ok_store sto sto' m m' :
  snap_ok sto m -> p_rest (m_poll m') = p_rest (m_poll m) ->
  (forall r, In r sto -> r_st r = Failed -> In r sto') -> snap_ok sto' m'.
Proof.
  intros [H1 H2] E K. unfold snap_ok. rewrite E. split; [assumption|].
  intros r Hr. destruct (H2 r Hr). split; auto.
Qed.

Lemma keep_failed_mark sto t now :
  NoDup (ids sto) -> pendingb t sto = true ->
  forall r, In r sto -> r_st r = Failed -> In r (mark_failed t now sto).
Proof.
  intros Hn P r Hin F. apply In_upd_other; [assumption|]. intros E. subst t.
  rewrite (failed_not_pending sto r Hn Hin F) in P. discriminate.
Qed.

Lemma keep_failed_remove sto t :
  NoDup (ids sto) -> pendingb t sto = true ->
  forall r, In r sto -> r_st r = Failed -> In r (remove_row t sto).
Proof.
  intros Hn P r Hin F. apply In_remove_other; [assumption|]. intros E. subst t.
  rewrite (failed_not_pending sto r Hn Hin F) in P. discriminate.
Qed.

Lemma NoDup_ids_mark_failed t now s : NoDup (ids s) -> NoDup (ids (mark_failed t now s)).
Proof. rewrite ids_mark_failed. auto. Qed.
Lemma NoDup_ids_mark_pending t s : NoDup (ids s) -> NoDup (ids (mark_pending t s)).
Proof. rewrite ids_mark_pending. auto. Qed.

Lemma held_iff m t :
  In t (held m) <-> In t (m_in m) \/ In t (m_re m) \/ In t (executing m) \/ In t (add_held (m_add m)) \/ In t (p_held (m_poll m)).
Proof. unfold held. rewrite !in_app_iff. tauto. Qed.

Lemma failedb_true_row t s : failedb t s = true -> exists r, In r s /\ r_id r = t /\ r_st r = Failed.
Proof.
  unfold failedb. rewrite existsb_exists. intros [r [Hin E]]. apply andb_true_iff in E as [E1 E2].
  apply N.eqb_eq in E1. exists r. repeat split; auto. unfold is_failed in E2. destruct (r_st r); [discriminate|reflexivity].
Qed.

Lemma failedb_stored t s : failedb t s = true -> storedb t s = true.
Proof. intros H. apply failedb_true_row in H as [r [H1 [H2 _]]]. apply storedb_In. subst. apply in_map. assumption. Qed.

Lemma snap_ok_tail sto sto' r rest :
  NoDup (map r_id (r :: rest)) -> (forall x, In x (r :: rest) -> In x sto /\ r_st x = Failed) ->
  (forall x, In x sto -> r_id x <> r_id r -> In x sto') ->
  NoDup (map r_id rest) /\ (forall x, In x rest -> In x sto' /\ r_st x = Failed).
Proof.
  intros Hn H K. cbn in Hn. inversion Hn; subst. split; [assumption|].
  intros x Hx. destruct (H x (or_intror Hx)) as [H4 H5]. split; [|assumption].
  apply K; [assumption|]. intros E. apply H2. rewrite <- E. apply in_map. assumption.
Qed.

Lemma last_ev_cons_other e log t : ev_task e <> t -> last_ev t (e :: log) = last_ev t log.
Proof. intros H. unfold last_ev. cbn. destruct (ev_task e =? t) eqn:E; [apply N.eqb_eq in E; contradiction|reflexivity]. Qed.
Lemma last_ev_cons_same e log : last_ev (ev_task e) (e :: log) = Some e.
Proof. unfold last_ev. cbn. rewrite N.eqb_refl. reflexivity. Qed.

Lemma held_le1 sto m t : held_ok sto m -> (cnt (held m) t <= 1)%nat.
Proof. intros H. rewrite (H t). destruct (pendingb t sto); lia. Qed.

Lemma cnt_in_ge1 l t : In t l -> (1 <= cnt l t)%nat.
Proof. intros H. apply (count_occ_In N.eq_dec) in H. lia. Qed.

Lemma inv_step s o : Inv s -> Inv (fst (step s o)).
Proof.
  destruct s as [c sto now mg log]. unfold Inv. cbn [s_store s_mgr s_log]. intros [Hn Hm].
  destruct o; unfold step; cbn [s_store s_mgr s_log s_cfg s_now].
  - (* Start *) destruct mg as [m|]; [cbn; auto|].
    destruct (order_ok order (pending_ids sto)) eqn:O; [|cbn; auto].
    cbn. split; [change (NoDup (ids (mark_failed_all order now sto))); rewrite ids_mark_failed_all; assumption|].
    split; [|split].
    + intros t. cbn. rewrite pendingb_mark_failed_all. destruct (memb t order) eqn:E; cbn; [reflexivity|].
      destruct (pendingb t sto) eqn:P; [|reflexivity]. apply in_pending_ids in P.
      apply (order_ok_spec _ _ O) in P. apply memb_In in P. congruence.
    + split; cbn; [constructor|intros r []].
    + intros w [].
  - (* StartCrash *) destruct mg as [m|]; [cbn; auto|].
    destruct (order_ok order (pending_ids sto)) eqn:O; [|cbn; auto].
    cbn. split; [change (NoDup (ids (mark_failed_all (firstn_N k order) now sto))); rewrite ids_mark_failed_all; assumption|exact I].
  - (* Crash *) cbn. auto.
  - (* Close *) destruct mg as [m|]; [|cbn; auto]. cbn. split; [assumption|].
    destruct Hm as [Hh [Hs Hl]]. destruct m as [cl qi qr ii ir wk ad pl]; auto.
  - (* CloseDone *) destruct mg as [m|]; [|cbn; auto].
    destruct (m_closed m && match m_work m with [] => true | _ => false end); cbn; auto.
  - (* Tick *) cbn. auto.
  - (* AddCheck *) destruct mg as [m|]; [|cbn; auto]. destruct Hm as [Hh [Hs Hl]].
    destruct (existsb (fun p => fst p =? a) (m_add m)); [cbn; auto|].
    destruct (m_closed m); [cbn; auto|]. cbn. split; [assumption|].
    destruct m as [cl qi qr ii ir wk ad pl]; auto.
  - (* AddStore *) destruct mg as [m|]; [|cbn; auto]. destruct Hm as [Hh [Hs Hl]].
    destruct (pick (fun p => fst p =? a) (m_add m)) as [[[b [a' [t d| |]]] af]|] eqn:P; try (cbn; auto; fail).
    apply pick_spec in P as [P _].
    destruct (add_row t (if d =? 0 then Pending else Failed) d now sto) as [sto'|] eqn:A.
    + apply add_row_some in A as [A ->]. pose proof (not_stored_not_pending _ _ A) as A'.
      destruct (d =? 0); cbn.
      * split; [apply NoDup_ids_add; assumption|]. split; [|split].
        -- intros t0. specialize (Hh t0). destruct m as [cl qi qr ii ir wk ad pl]. cbn [m_add] in P. subst. hnorm.
           rewrite pendingb_app, pendingb_single. cbn [count_occ status_eqb] in *. deq t t0.
           ++ rewrite A' in *. cbn. lia.
           ++ cbn [andb]. rewrite orb_false_r. lia.
        -- destruct m as [cl qi qr ii ir wk ad pl]. destruct Hs as [Hs1 Hs2]. split; [exact Hs1|]. intros r Hr. destruct (Hs2 r Hr). split; [apply in_or_app; auto|assumption].
        -- destruct m as [cl qi qr ii ir wk ad pl]. exact Hl.
      * split; [apply NoDup_ids_add; assumption|]. split; [|split].
        -- intros t0. specialize (Hh t0). destruct m as [cl qi qr ii ir wk ad pl]. cbn [m_add] in P. subst. hnorm.
           rewrite pendingb_app, pendingb_single. cbn [count_occ status_eqb] in *. rewrite andb_false_r, orb_false_r. lia.
        -- destruct m as [cl qi qr ii ir wk ad pl]. destruct Hs as [Hs1 Hs2]. split; [exact Hs1|]. intros r Hr. destruct (Hs2 r Hr). split; [apply in_or_app; auto|assumption].
        -- destruct m as [cl qi qr ii ir wk ad pl]. exact Hl.
    + cbn. split; [assumption|]. split; [|split].
      * intros t0. specialize (Hh t0). destruct m as [cl qi qr ii ir wk ad pl]. cbn [m_add] in P. subst. hnorm. cbn [count_occ] in *. lia.
      * destruct m as [cl qi qr ii ir wk ad pl]. exact Hs.
      * destruct m as [cl qi qr ii ir wk ad pl]. exact Hl.
  - (* AddEnq *) destruct mg as [m|]; [|cbn; auto]. destruct Hm as [Hh [Hs Hl]].
    destruct (pick (fun p => fst p =? a) (m_add m)) as [[[b [a' [t d|t|t]]] af]|] eqn:P; try (cbn; auto; fail).
    apply pick_spec in P as [P _].
    destruct (has_room QIn c m); cbn; (split; [assumption|]); (split; [|split]).
    + intros t0. specialize (Hh t0). destruct m as [cl qi qr ii ir wk ad pl]. cbn [m_add] in P. subst. hnorm.
      cbn [count_occ] in *. lia.
    + destruct m as [cl qi qr ii ir wk ad pl]. exact Hs.
    + destruct m as [cl qi qr ii ir wk ad pl]. exact Hl.
    + intros t0. specialize (Hh t0). destruct m as [cl qi qr ii ir wk ad pl]. cbn [m_add] in P. subst. hnorm.
      cbn [count_occ] in *. lia.
    + destruct m as [cl qi qr ii ir wk ad pl]. exact Hs.
    + destruct m as [cl qi qr ii ir wk ad pl]. exact Hl.
  - (* AddMark *) destruct mg as [m|]; [|cbn; auto]. destruct Hm as [Hh [Hs Hl]].
    destruct (pick (fun p => fst p =? a) (m_add m)) as [[[b [a' [t d|t|t]]] af]|] eqn:P; try (cbn; auto; fail).
    apply pick_spec in P as [P _]. cbn.
    assert (Pt : pendingb t sto = true).
    { apply (held_pending sto m); [assumption|]. apply held_iff. right. right. right. left.
      rewrite P, add_held_app. cbn. apply in_or_app. right. left. reflexivity. }
    split; [apply NoDup_ids_mark_failed; assumption|]. split; [|split].
    + intros t0. specialize (Hh t0). destruct m as [cl qi qr ii ir wk ad pl]. cbn [m_add] in P. subst. hnorm.
      rewrite pendingb_upd_failed. cbn [count_occ] in *. deq t t0.
      * rewrite Pt in Hh. cbn. lia.
      * cbn. lia.
    + apply (snap_ok_store sto _ m); [assumption|destruct m; reflexivity|]. apply keep_failed_mark; assumption.
    + destruct m as [cl qi qr ii ir wk ad pl]. exact Hl.
  - (* PollGet *) destruct mg as [m|]; [|cbn; auto]. destruct Hm as [Hh [Hs Hl]].
    destruct (m_poll m) eqn:Pl; [cbn; auto|].
    destruct (order_ok order (failed_ids sto)) eqn:O; [|cbn; auto]. cbn.
    apply order_ok_spec in O as [O1 O2].
    split; [assumption|]. split; [|split].
    + intros t0. specialize (Hh t0). destruct m as [cl qi qr ii ir wk ad pl]. cbn [m_poll] in Pl. subst. exact Hh.
    + destruct m as [cl qi qr ii ir wk ad pl]. unfold snap_ok. cbn. split.
      * rewrite ids_get_rows; [assumption|]. intros t Ht. apply O2, in_failed_ids in Ht. apply failedb_stored. assumption.
      * intros r Hr. apply in_get_rows in Hr as [H1 H2]. split; [assumption|].
        apply O2, in_failed_ids, failedb_true_row in H2 as [r' [K1 [K2 K3]]].
        rewrite <- (row_unique sto r' r Hn K1 H1 K2). assumption.
    + destruct m as [cl qi qr ii ir wk ad pl]. exact Hl.
  - (* PollNext *) destruct mg as [m|]; [|cbn; auto]. destruct Hm as [Hh [Hs Hl]].
    destruct (m_poll m) as [[[|r rest]|t rest|t rest]|] eqn:Pl; try (cbn; auto; fail).
    + cbn. split; [assumption|]. split; [|split].
      * intros t0. specialize (Hh t0). destruct m as [cl qi qr ii ir wk ad pl]. cbn [m_poll] in Pl. subst. exact Hh.
      * destruct m as [cl qi qr ii ir wk ad pl]. split; cbn; [constructor|intros ? []].
      * destruct m as [cl qi qr ii ir wk ad pl]. exact Hl.
    + destruct Hs as [Hs1 Hs2]. rewrite Pl in Hs1, Hs2. cbn [p_rest] in Hs1, Hs2.
      destruct (due (c_ri c) now r); [destruct (storedb (r_id r) sto) eqn:St|]; cbn.
      * split; [apply NoDup_ids_mark_pending; assumption|]. split; [|split].
        -- destruct (Hs2 r (or_introl eq_refl)) as [K1 K2].
           pose proof (failed_not_pending sto r Hn K1 K2) as K3.
           intros t0. specialize (Hh t0). destruct m as [cl qi qr ii ir wk ad pl]. cbn [m_poll] in Pl. subst. hnorm.
           rewrite pendingb_mark_pending. cbn [count_occ] in *. deq (r_id r) t0.
           ++ rewrite K3 in Hh. rewrite St. lia.
           ++ lia.
        -- destruct m as [cl qi qr ii ir wk ad pl]. unfold snap_ok. cbn.
           apply (snap_ok_tail sto _ r rest Hs1 Hs2). intros x Hx Hne. apply In_upd_other; assumption.
        -- destruct m as [cl qi qr ii ir wk ad pl]. exact Hl.
      * split; [assumption|]. split; [|split].
        -- intros t0. specialize (Hh t0). destruct m as [cl qi qr ii ir wk ad pl]. cbn [m_poll] in Pl. subst. exact Hh.
        -- destruct m as [cl qi qr ii ir wk ad pl]. unfold snap_ok. cbn.
           apply (snap_ok_tail sto _ r rest Hs1 Hs2). auto.
        -- destruct m as [cl qi qr ii ir wk ad pl]. exact Hl.
      * split; [assumption|]. split; [|split].
        -- intros t0. specialize (Hh t0). destruct m as [cl qi qr ii ir wk ad pl]. cbn [m_poll] in Pl. subst. exact Hh.
        -- destruct m as [cl qi qr ii ir wk ad pl]. unfold snap_ok. cbn.
           apply (snap_ok_tail sto _ r rest Hs1 Hs2). auto.
        -- destruct m as [cl qi qr ii ir wk ad pl]. exact Hl.
  - (* PollEnq *) destruct mg as [m|]; [|cbn; auto]. destruct Hm as [Hh [Hs Hl]].
    destruct (m_poll m) as [[rest|t rest|t rest]|] eqn:Pl; try (cbn; auto; fail).
    destruct (has_room QRe c m); cbn; (split; [assumption|]); (split; [|split]).
    + intros t0. specialize (Hh t0). destruct m as [cl qi qr ii ir wk ad pl]. cbn [m_poll] in Pl. subst. hnorm.
      cbn [count_occ] in *. lia.
    + destruct m as [cl qi qr ii ir wk ad pl]. cbn [m_poll] in Pl. subst. exact Hs.
    + destruct m as [cl qi qr ii ir wk ad pl]. exact Hl.
    + intros t0. specialize (Hh t0). destruct m as [cl qi qr ii ir wk ad pl]. cbn [m_poll] in Pl. subst. exact Hh.
    + destruct m as [cl qi qr ii ir wk ad pl]. cbn [m_poll] in Pl. subst. exact Hs.
    + destruct m as [cl qi qr ii ir wk ad pl]. exact Hl.
  - (* PollMark *) destruct mg as [m|]; [|cbn; auto]. destruct Hm as [Hh [Hs Hl]].
    destruct (m_poll m) as [[rest|t rest|t rest]|] eqn:Pl; try (cbn; auto; fail). cbn.
    assert (Pt : pendingb t sto = true).
    { apply (held_pending sto m); [assumption|]. apply held_iff. right. right. right. right.
      rewrite Pl. left. reflexivity. }
    split; [apply NoDup_ids_mark_failed; assumption|]. split; [|split].
    + intros t0. specialize (Hh t0). destruct m as [cl qi qr ii ir wk ad pl]. cbn [m_poll] in Pl. subst. hnorm.
      rewrite pendingb_upd_failed. cbn [count_occ] in *. deq t t0.
      * rewrite Pt in Hh. cbn. lia.
      * cbn. lia.
    + apply (snap_ok_store sto _ m); [assumption|destruct m; cbn in *; rewrite Pl; reflexivity|]. apply keep_failed_mark; assumption.
    + destruct m as [cl qi qr ii ir wk ad pl]. exact Hl.
  - (* Deq *) destruct mg as [m|]; [|cbn; auto]. destruct Hm as [Hh [Hs Hl]].
    destruct (queue_of q m) as [|t tl] eqn:Q; [cbn; auto|].
    destruct (0 <? idle_of q m); [|cbn; auto]. cbn.
    split; [assumption|]. split; [|split].
    + intros t0. specialize (Hh t0). destruct m as [cl qi qr ii ir wk ad pl]. destruct q; cbn in Q; subst; hnorm;
        cbn [count_occ] in *; destruct (N.eq_dec t t0); lia.
    + destruct m as [cl qi qr ii ir wk ad pl]. destruct q; exact Hs.
    + assert (Hq : In t (m_in m) \/ In t (m_re m)).
      { destruct q; cbn in Q; rewrite Q; [left|right]; left; reflexivity. }
      assert (Hw : forall w, In w (m_work m) -> w_t w <> t).
      { intros w Hw E. pose proof (held_le1 sto m t Hh) as L. unfold held in L. rewrite !count_occ_app in L.
        assert (1 <= cnt (executing m) t)%nat by (apply cnt_in_ge1; unfold executing; rewrite <- E; apply in_map; assumption).
        destruct Hq as [Hq|Hq]; apply cnt_in_ge1 in Hq; lia. }
      destruct m as [cl qi qr ii ir wk ad pl]. intros w Hin.
      assert (Hin' : w = mkw q t WRun \/ In w wk) by (destruct q; cbn in Hin; destruct Hin; auto).
      destruct Hin' as [->|Hin'].
      * cbn. apply (last_ev_cons_same (EStart t)).
      * rewrite last_ev_cons_other; [apply Hl; assumption|]. cbn. intros E. apply (Hw w Hin'). auto.
  - (* ExecRet *) destruct mg as [m|]; [|cbn; auto]. destruct Hm as [Hh [Hs Hl]].
    destruct (pick (fun w => (w_t w =? t) && is_run w) (m_work m)) as [[[b w] af]|] eqn:P; [|cbn; auto].
    apply pick_spec in P as [P Pf]. apply andb_true_iff in Pf as [Pf1 Pf2]. apply N.eqb_eq in Pf1. subst t. cbn.
    split; [assumption|]. split; [|split].
    + intros t0. specialize (Hh t0). destruct m as [cl qi qr ii ir wk ad pl]. cbn [m_work] in P. subst. hnorm. exact Hh.
    + destruct m as [cl qi qr ii ir wk ad pl]. exact Hs.
    + assert (Hw : forall w', In w' (b ++ af) -> w_t w' <> w_t w).
      { intros w' Hw' E. pose proof (held_le1 sto m (w_t w) Hh) as L. unfold held, executing in L. rewrite P in L.
        rewrite !count_occ_app, map_app, count_occ_app in L. cbn [map] in L. rewrite count_occ_cons_eq in L by reflexivity.
        apply in_app_or in Hw'. destruct Hw' as [Hw'|Hw'];
          apply (in_map w_t) in Hw'; rewrite E in Hw'; apply cnt_in_ge1 in Hw'; lia. }
      destruct m as [cl qi qr ii ir wk ad pl]. cbn [m_work] in P. subst wk. intros w' Hin. cbn [m_work set_work] in Hin.
      apply in_app_or in Hin. cbn [In] in Hin.
      assert (Hin' : mkw (w_q w) (w_t w) (WFin ok) = w' \/ In w' (b ++ af)) by (rewrite in_app_iff; tauto).
      destruct Hin' as [<-|Hin'].
      * cbn. apply (last_ev_cons_same (ERet (w_t w) ok)).
      * rewrite last_ev_cons_other; [|cbn; intros E; apply (Hw w' Hin'); auto].
        apply Hl. cbn. apply in_app_or in Hin'. apply in_or_app. cbn. tauto.
  - (* ExecFin *) destruct mg as [m|]; [|cbn; auto]. destruct Hm as [Hh [Hs Hl]].
    destruct (pick (fun w => (w_t w =? t) && is_fin w) (m_work m)) as [[[b w] af]|] eqn:P; [|cbn; auto].
    apply pick_spec in P as [P Pf]. apply andb_true_iff in Pf as [Pf1 Pf2]. apply N.eqb_eq in Pf1.
    assert (Pt : pendingb t sto = true).
    { apply (held_pending sto m); [assumption|]. apply held_iff. right. right. left.
      unfold executing. rewrite P, map_app. apply in_or_app. right. left. assumption. }
    assert (Hl' : log_ok log (set_idle (w_q w) (idle_of (w_q w) m + 1) (set_work (b ++ af) m))).
    { intros w' Hin. apply Hl. destruct m as [cl qi qr ii ir wk ad pl]. cbn [m_work] in *. subst wk.
      destruct (w_q w); cbn in Hin; apply in_app_or in Hin; apply in_or_app; cbn; tauto. }
    assert (Hc : forall t0, (cnt (held (set_idle (w_q w) (idle_of (w_q w) m + 1) (set_work (b ++ af) m))) t0
                             + (if N.eq_dec t t0 then 1 else 0) = cnt (held m) t0)%nat).
    { intros t0. destruct m as [cl qi qr ii ir wk ad pl]. cbn [m_work] in *. subst wk.
      destruct (w_q w); hnorm; cbn [count_occ]; rewrite Pf1; destruct (N.eq_dec t t0); lia. }
    destruct (w_ph w) as [|[|]]; cbn.
    + split; [apply NoDup_ids_mark_failed; assumption|]. split; [|split; [|exact Hl']].
      * intros t0. specialize (Hh t0). specialize (Hc t0). rewrite pendingb_upd_failed.
        destruct (N.eq_dec t t0) as [E|E]; [subst; rewrite N.eqb_refl; rewrite Pt in Hh; cbn; lia|].
        rewrite (proj2 (N.eqb_neq t0 t)) by auto. cbn. lia.
      * apply (snap_ok_store sto _ m); [assumption|destruct m, (w_q w); reflexivity|]. apply keep_failed_mark; assumption.
    + split; [apply NoDup_ids_remove; assumption|]. split; [|split; [|exact Hl']].
      * intros t0. specialize (Hh t0). specialize (Hc t0). rewrite pendingb_remove.
        destruct (N.eq_dec t t0) as [E|E]; [subst; rewrite N.eqb_refl; rewrite Pt in Hh; cbn; lia|].
        rewrite (proj2 (N.eqb_neq t0 t)) by auto. cbn. lia.
      * apply (snap_ok_store sto _ m); [assumption|destruct m, (w_q w); reflexivity|]. apply keep_failed_remove; assumption.
    + split; [apply NoDup_ids_mark_failed; assumption|]. split; [|split; [|exact Hl']].
      * intros t0. specialize (Hh t0). specialize (Hc t0). rewrite pendingb_upd_failed.
        destruct (N.eq_dec t t0) as [E|E]; [subst; rewrite N.eqb_refl; rewrite Pt in Hh; cbn; lia|].
        rewrite (proj2 (N.eqb_neq t0 t)) by auto. cbn. lia.
      * apply (snap_ok_store sto _ m); [assumption|destruct m, (w_q w); reflexivity|]. apply keep_failed_mark; assumption.
  - (* Observe *) cbn. auto.
Qed.

(* ------------------------------------------------------------------ reachability *)

Lemma run_app s a b :
  run s (a ++ b) = let '(s1, o1) := run s a in let '(s2, o2) := run s1 b in (s2, o1 ++ o2).
Proof.
  revert s. induction a as [|o a IH]; intros s; cbn.
  - destruct (run s b). reflexivity.
  - destruct (step s o) as [s1 r]. rewrite IH. destruct (run s1 a) as [s2 rs]. destruct (run s2 b). reflexivity.
Qed.

Lemma inv_init c : Inv (init c).
Proof. split; cbn; [constructor|exact I]. Qed.

Lemma inv_run s ops : Inv s -> Inv (fst (run s ops)).
Proof.
  revert s. induction ops as [|o ops IH]; intros s H; cbn; [assumption|].
  pose proof (inv_step s o H) as H1. destruct (step s o) as [s1 r]. cbn in H1.
  specialize (IH s1 H1). destruct (run s1 ops). assumption.
Qed.

(* every state of every history of operations (illegal ones have no effect) from an empty store *)
Definition reachable (s : st) : Prop := exists c ops, s = fst (run (init c) ops).

Lemma reachable_inv s : reachable s -> Inv s.
Proof. intros [c [ops ->]]. apply inv_run, inv_init. Qed.

Lemma reachable_step s o : reachable s -> reachable (fst (step s o)).
Proof.
  intros [c [ops ->]]. exists c, (ops ++ [o]). rewrite run_app.
  destruct (run (init c) ops) as [s1 o1]. cbn. destruct (step s1 o). reflexivity.
Qed.

Lemma reachable_run s ops : reachable s -> reachable (fst (run s ops)).
Proof.
  intros [c [ops0 ->]]. exists c, (ops0 ++ ops). rewrite run_app.
  destruct (run (init c) ops0) as [s1 o1]. cbn. destruct (run s1 ops). reflexivity.
Qed.

(* ------------------------------------------------------------------ consequences *)

(* C30 clause: a stored pending task is never outside the queues / the executor / an enqueue in flight *)
Lemma no_lost_task s m t :
  Inv s -> s_mgr s = Some m -> pendingb t (s_store s) = true ->
  cnt (held m) t = 1%nat /\
  (In t (m_in m) \/ In t (m_re m) \/ In t (executing m) \/ In t (add_held (m_add m)) \/ In t (p_held (m_poll m))).
Proof.
  intros [_ H] M P. rewrite M in H. destruct H as [Hh _]. pose proof (Hh t) as K. rewrite P in K.
  split; [assumption|]. apply held_iff. apply (count_occ_In N.eq_dec). lia.
Qed.

(* conversely nothing is held that is not a stored pending task, and never twice *)
Lemma held_is_pending s m t :
  Inv s -> s_mgr s = Some m -> In t (held m) -> pendingb t (s_store s) = true /\ cnt (held m) t = 1%nat.
Proof.
  intros [_ H] M Hin. rewrite M in H. destruct H as [Hh _].
  pose proof (held_pending _ _ _ Hh Hin) as P. split; [assumption|]. rewrite (Hh t), P. reflexivity.
Qed.

Lemma storedb_app t s1 s2 : storedb t (s1 ++ s2) = storedb t s1 || storedb t s2.
Proof. apply existsb_app. Qed.

(* C30 clause: a task leaves the store only by the worker's Remove after a successful execution *)
Lemma removal_step s o t :
  Inv s -> storedb t (s_store s) = true -> storedb t (s_store (fst (step s o))) = false ->
  o = OpExecFin t /\ last_ev t (s_log s) = Some (ERet t true).
Proof.
  destruct s as [c sto now mg log]. unfold Inv. cbn [s_store s_mgr s_log]. intros [Hn Hm] S S'.
  destruct o; unfold step in S'; cbn [s_store s_mgr s_log s_cfg s_now] in S'.
  all: try (destruct mg as [m|]; [|cbn [s_store fst with_mgr with_sm] in S'; congruence]).
  all: try (cbn [s_store fst with_mgr with_sm] in S'; congruence).
  - destruct mg; [cbn [s_store fst with_mgr with_sm] in S'; congruence|].
    destruct (order_ok order (pending_ids sto)); cbn [s_store fst with_mgr with_sm] in S'; [|congruence].
    rewrite (storedb_ids _ sto) in S' by apply ids_mark_failed_all. congruence.
  - destruct mg; [cbn [s_store fst with_mgr with_sm] in S'; congruence|].
    destruct (order_ok order (pending_ids sto)); cbn [s_store fst with_mgr with_sm] in S'; [|congruence].
    rewrite (storedb_ids _ sto) in S' by apply ids_mark_failed_all. congruence.
  - destruct (m_closed m && _); cbn [s_store fst with_mgr with_sm] in S'; congruence.
  - destruct (existsb _ _); [cbn [s_store fst with_mgr with_sm] in S'; congruence|]. destruct (m_closed m); cbn [s_store fst with_mgr with_sm] in S'; congruence.
  - destruct (pick _ _) as [[[b [a' [t1 d| |]]] af]|]; try (cbn [s_store fst with_mgr with_sm] in S'; congruence).
    destruct (add_row _ _ _ _ _) eqn:A; [|cbn [s_store fst with_mgr with_sm] in S'; congruence].
    apply add_row_some in A as [_ ->]. destruct (d =? 0); cbn [s_store fst with_mgr with_sm] in S'; rewrite storedb_app, S in S'; discriminate.
  - destruct (pick _ _) as [[[b [a' [t1 d|t1|t1]]] af]|]; try (cbn [s_store fst with_mgr with_sm] in S'; congruence).
    destruct (has_room QIn c m); cbn [s_store fst with_mgr with_sm] in S'; congruence.
  - destruct (pick _ _) as [[[b [a' [t1 d|t1|t1]]] af]|]; try (cbn [s_store fst with_mgr with_sm] in S'; congruence).
    cbn [s_store fst with_mgr with_sm] in S'. rewrite storedb_mark_failed in S'. congruence.
  - destruct (m_poll m); [cbn [s_store fst with_mgr with_sm] in S'; congruence|]. destruct (order_ok _ _); cbn [s_store fst with_mgr with_sm] in S'; congruence.
  - destruct (m_poll m) as [[[|r rest]|t1 rest|t1 rest]|]; try (cbn [s_store fst with_mgr with_sm] in S'; congruence).
    destruct (due _ _ _); [destruct (storedb (r_id r) sto)|]; cbn [s_store fst with_mgr with_sm] in S'; rewrite ?storedb_mark_pending in S'; congruence.
  - destruct (m_poll m) as [[rest|t1 rest|t1 rest]|]; try (cbn [s_store fst with_mgr with_sm] in S'; congruence).
    destruct (has_room QRe c m); cbn [s_store fst with_mgr with_sm] in S'; congruence.
  - destruct (m_poll m) as [[rest|t1 rest|t1 rest]|]; try (cbn [s_store fst with_mgr with_sm] in S'; congruence).
    cbn [s_store fst with_mgr with_sm] in S'. rewrite storedb_mark_failed in S'. congruence.
  - destruct (queue_of q m); [cbn [s_store fst with_mgr with_sm] in S'; congruence|]. destruct (0 <? idle_of q m); cbn [s_store fst with_mgr with_sm] in S'; congruence.
  - destruct (pick _ _) as [[[b w] af]|]; cbn [s_store fst with_mgr with_sm] in S'; congruence.
  - destruct Hm as [Hh [Hs Hl]].
    destruct (pick _ _) as [[[b w] af]|] eqn:P; [|cbn [s_store fst with_mgr with_sm] in S'; congruence].
    apply pick_spec in P as [P Pf]. apply andb_true_iff in Pf as [Pf1 Pf2]. apply N.eqb_eq in Pf1.
    destruct (w_ph w) as [|[|]] eqn:Ph; cbn [s_store fst with_mgr with_sm] in S'; rewrite ?storedb_mark_failed in S'; try congruence.
    rewrite storedb_remove, S, andb_true_r in S'. destruct (t =? t0) eqn:E; [|discriminate].
    apply N.eqb_eq in E. rewrite <- E in *. split; [reflexivity|].
    assert (Hin : In w (m_work m)) by (rewrite P; apply in_or_app; right; left; reflexivity).
    specialize (Hl w Hin). rewrite Ph, Pf1 in Hl. exact Hl.
Qed.

(* C30 clause: adding a task that is already stored has no further effect: the complete Add call
   (closed check, then AddPending/AddFailed answering ErrTaskExists) leaves the state as it was *)
Lemma add_existing_noop s m a t d :
  s_mgr s = Some m -> m_closed m = false -> existsb (fun p => fst p =? a) (m_add m) = false ->
  storedb t (s_store s) = true ->
  run s [OpAddCheck a t d; OpAddStore a] = (s, [ODone; OExists]).
Proof.
  destruct s as [c sto now mg log]. cbn [s_mgr s_store]. intros -> Cl Fr St.
  destruct m as [cl qi qr ii ir wk ad pl]. cbn in Cl, Fr. subst cl.
  cbn [run]. unfold step at 1. cbn [s_mgr s_cfg s_store s_now m_add m_closed]. rewrite Fr.
  unfold with_mgr, set_add.
  cbn [s_cfg s_store s_now s_log m_closed m_in m_re m_idle_in m_idle_re m_work m_add m_poll].
  unfold step. cbn [s_mgr s_cfg s_store s_now m_add pick fst]. rewrite N.eqb_refl.
  unfold add_row. rewrite St. cbn. reflexivity.
Qed.

(* the same at the level of the store call, for any interleaving in between *)
Lemma add_store_existing s m a b af t d :
  s_mgr s = Some m -> pick (fun p => fst p =? a) (m_add m) = Some (b, (a, AStore t d), af) ->
  storedb t (s_store s) = true ->
  step s (OpAddStore a) = (with_mgr s (Some (set_add (b ++ af) m)), OExists).
Proof.
  destruct s as [c sto now mg log]. cbn [s_mgr s_store]. intros -> P St.
  unfold step. cbn [s_mgr s_cfg s_store s_now]. rewrite P. unfold add_row. rewrite St. reflexivity.
Qed.

Lemma all_failed sto : (forall t, pendingb t sto = false) -> forall r, In r sto -> r_st r = Failed.
Proof.
  intros H r Hin. destruct (r_st r) eqn:E; [|reflexivity].
  specialize (H (r_id r)). rewrite (row_pendingb r sto Hin E) in H. discriminate.
Qed.

Lemma start_order_exists s : Inv s -> order_ok (pending_ids (s_store s)) (pending_ids (s_store s)) = true.
Proof. intros [Hn _]. apply order_ok_refl. unfold pending_ids. apply NoDup_ids_filter. assumption. Qed.

(* C30 clause: a restart (at any point, also in the middle of an execution) recovers every
   unfinished task: nothing is dropped, every task is Failed (hence eligible for the poller),
   and the new manager starts with empty queues and idle workers *)
Lemma restart_recovers s order :
  order_ok order (pending_ids (s_store s)) = true ->
  let r := run s [OpCrash; OpStart order] in
  snd r = [ODone; ODone] /\
  ids (s_store (fst r)) = ids (s_store s) /\
  (forall x, In x (s_store (fst r)) -> r_st x = Failed) /\
  s_mgr (fst r) = Some (fresh_mgr (s_cfg s)) /\ s_log (fst r) = s_log s /\ s_now (fst r) = s_now s /\
  s_cfg (fst r) = s_cfg s.
Proof.
  destruct s as [c sto now mg log]. cbn [s_store s_cfg s_log s_now]. intros O. cbv zeta.
  assert (R : run (mks c sto now mg log) [OpCrash; OpStart order] =
              (mks c (mark_failed_all order now sto) now (Some (fresh_mgr c)) log, [ODone; ODone])).
  { cbn [run]. unfold step at 1. unfold with_mgr. cbn [s_cfg s_store s_now s_log].
    unfold step. cbn [s_mgr s_store s_cfg s_now s_log]. rewrite O. reflexivity. }
  rewrite R. cbn [fst snd s_store s_mgr s_log s_now s_cfg].
  repeat split; try reflexivity.
  - apply ids_mark_failed_all.
  - apply all_failed. intros t. rewrite pendingb_mark_failed_all.
    destruct (memb t order) eqn:E; cbn; [reflexivity|].
    destruct (pendingb t sto) eqn:P; [|reflexivity]. apply in_pending_ids in P.
    apply (order_ok_spec _ _ O) in P. apply memb_In in P. congruence.
Qed.

(* a start that dies after k MarkFailed calls drops nothing either *)
Lemma start_crash_keeps s order k :
  ids (s_store (fst (step s (OpStartCrash order k)))) = ids (s_store s).
Proof.
  destruct s as [c sto now mg log]. unfold step. cbn [s_mgr s_store s_cfg s_now s_log].
  destruct mg; [reflexivity|]. destruct (order_ok _ _); [|reflexivity]. cbn. apply ids_mark_failed_all.
Qed.

(* ------------------------------------------------------------------ progress *)

Definition legal (outs : list out) : Prop := ~ In OIllegal outs.

(* the fair schedule for one element of the poller's snapshot: retry it, the retry worker takes
   it at once, the execution fails, the worker records the failure *)
Definition round_fail (t : N) : list op := [OpPollNext; OpPollEnq; OpDeq QRe; OpExecRet t false; OpExecFin t].
Definition round_exec : list op := [OpPollNext; OpPollEnq; OpDeq QRe].

Ltac nf :=
  unfold with_mgr, with_sm, push, has_room;
  repeat (unfold set_add, set_poll, set_work, set_queue, set_idle, queue_of, idle_of, cap_of;
          cbn [s_cfg s_store s_now s_mgr s_log m_closed m_in m_re m_idle_in m_idle_re m_work m_add m_poll
               fst snd w_q w_t w_ph is_run is_fin pick]).

Lemma cfg_ok_rebuf c : cfg_ok c = true -> 0 <? c_rebuf c = true.
Proof.
  unfold cfg_ok. intros H. repeat (apply andb_true_iff in H as [H ?]).
  apply N.ltb_lt. match goal with K : (1 <=? c_rebuf c) = true |- _ => apply N.leb_le in K; lia end.
Qed.

Lemma round_exec_run c sto now cl qi ii ir ad r rest log :
  cfg_ok c = true -> 0 <? ir = true -> due (c_ri c) now r = true -> storedb (r_id r) sto = true ->
  run (mks c sto now (Some (mkm cl qi [] ii ir [] ad (Some (PLoop (r :: rest))))) log) round_exec
  = (mks c (mark_pending (r_id r) sto) now
         (Some (mkm cl qi [] ii (ir - 1) [mkw QRe (r_id r) WRun] ad (Some (PLoop rest)))) (EStart (r_id r) :: log),
     [OMarked (r_id r); OSent; ODeq (r_id r)]).
Proof.
  intros C I D S. unfold round_exec. cbn [run].
  unfold step at 1. nf. rewrite D, S. nf.
  unfold step at 1. nf. unfold len. cbn [length N.of_nat]. rewrite (cfg_ok_rebuf c C). nf. cbn [app].
  unfold step at 1. nf. rewrite I. reflexivity.
Qed.

Lemma round_fail_run c sto now cl qi ii ir ad r rest log :
  cfg_ok c = true -> 0 <? ir = true -> due (c_ri c) now r = true -> storedb (r_id r) sto = true ->
  exists sto' o5,
  run (mks c sto now (Some (mkm cl qi [] ii ir [] ad (Some (PLoop (r :: rest))))) log) (round_fail (r_id r))
  = (mks c sto' now (Some (mkm cl qi [] ii ir [] ad (Some (PLoop rest))))
         (ERet (r_id r) false :: EStart (r_id r) :: log),
     [OMarked (r_id r); OSent; ODeq (r_id r); ODone; o5]) /\ o5 <> OIllegal /\ ids sto' = ids sto.
Proof.
  intros C I D S.
  change (round_fail (r_id r)) with (round_exec ++ [OpExecRet (r_id r) false; OpExecFin (r_id r)]).
  rewrite run_app, (round_exec_run c sto now cl qi ii ir ad r rest log C I D S).
  cbn [run].
  unfold step at 1. nf. rewrite N.eqb_refl. cbn [andb]. nf. cbn [app].
  unfold step at 1. nf. rewrite N.eqb_refl. cbn [andb]. nf. cbn [app].
  assert (E : ir - 1 + 1 = ir) by (apply N.ltb_lt in I; lia). rewrite E.
  eexists. eexists. split; [reflexivity|]. split.
  - destruct (storedb (r_id r) (mark_pending (r_id r) sto)); discriminate.
  - rewrite ids_mark_failed, ids_mark_pending. reflexivity.
Qed.

Lemma legal_app a b : legal a -> legal b -> legal (a ++ b).
Proof. unfold legal. intros Ha Hb H. apply in_app_or in H. tauto. Qed.

Lemma poll_progress c now cl qi ii ir ad t :
  cfg_ok c = true -> 0 <? ir = true ->
  forall snap sto log,
  (forall r, In r snap -> due (c_ri c) now r = true /\ storedb (r_id r) sto = true) ->
  In t (map r_id snap) ->
  exists ops s' outs l,
    run (mks c sto now (Some (mkm cl qi [] ii ir [] ad (Some (PLoop snap)))) log) ops = (s', outs) /\
    legal outs /\ s_log s' = l ++ log /\ In (EStart t) l.
Proof.
  intros C I. induction snap as [|r rest IH]; intros sto log H Hin; [destruct Hin|].
  destruct (H r (or_introl eq_refl)) as [D S].
  destruct (N.eq_dec (r_id r) t) as [E|E].
  - exists round_exec. eexists. eexists. exists [EStart t].
    rewrite (round_exec_run c sto now cl qi ii ir ad r rest log C I D S). rewrite E.
    split; [reflexivity|]. split; [|split; [reflexivity|left; reflexivity]].
    intros K. cbn in K. repeat (destruct K as [K|K]; [discriminate|]). exact K.
  - destruct (round_fail_run c sto now cl qi ii ir ad r rest log C I D S) as [sto' [o5 [R [O5 Ids]]]].
    destruct (IH sto' (ERet (r_id r) false :: EStart (r_id r) :: log)) as [ops [s' [outs [l [R2 [L2 [Lg In2]]]]]]].
    + intros x Hx. destruct (H x (or_intror Hx)) as [D' S']. split; [assumption|].
      rewrite (storedb_ids sto' sto) by assumption. assumption.
    + destruct Hin as [Hin|Hin]; [contradiction|assumption].
    + exists (round_fail (r_id r) ++ ops), s'. eexists. exists (l ++ [ERet (r_id r) false; EStart (r_id r)]).
      rewrite run_app, R, R2. split; [reflexivity|]. split; [|split].
      * apply legal_app; [|assumption]. intros K. cbn in K.
        repeat (destruct K as [K|K]; [try discriminate; try contradiction|]); exact K.
      * rewrite Lg, <- app_assoc. reflexivity.
      * apply in_or_app. left. assumption.
Qed.

Definition row_span (r : row) : N := r_delay r + r_created r + match r_last r with Some l => l | None => 0 end.
Definition span (s : store) : N := fold_right (fun r acc => row_span r + acc) 0 s.

Lemma span_ge s r : In r s -> row_span r <= span s.
Proof.
  induction s as [|x s IH]; intros H; [destruct H|].
  change (span (x :: s)) with (row_span x + span s). destruct H as [->|H]; [lia|].
  specialize (IH H). lia.
Qed.

Lemma due_after ri now s r : In r s -> due ri (now + (ri + 1 + span s)) r = true.
Proof.
  intros H. pose proof (span_ge s r H) as G. unfold row_span in G. unfold due, ready.
  apply andb_true_iff. split.
  - apply N.leb_le. lia.
  - destruct (r_last r) as [l|]; [|reflexivity]. apply N.ltb_lt. lia.
Qed.

Lemma filter_all {A} (f : A -> bool) l : (forall x, In x l -> f x = true) -> filter f l = l.
Proof.
  induction l as [|x l IH]; intros H; cbn; [reflexivity|].
  rewrite (H x (or_introl eq_refl)). f_equal. apply IH. intros; apply H; right; assumption.
Qed.

Lemma cfg_ok_rew c : cfg_ok c = true -> 0 <? c_rew c = true.
Proof.
  unfold cfg_ok. intros H. repeat (apply andb_true_iff in H as [H ?]).
  apply N.ltb_lt. match goal with K : (1 <=? c_rew c) = true |- _ => apply N.leb_le in K; lia end.
Qed.

(* C30 clause (progress is always possible): from every state satisfying the invariant, for every
   stored task there is a legal continuation (restart, let the retry interval pass, one pass of
   the poller with the retry worker taking each task at once) in which the executor is invoked
   on that task once more *)
Theorem progress_possible s t :
  Inv s -> cfg_ok (s_cfg s) = true -> storedb t (s_store s) = true ->
  exists ops s' outs l, run s ops = (s', outs) /\ legal outs /\ s_log s' = l ++ s_log s /\ In (EStart t) l.
Proof.
  destruct s as [c sto now mg log]. intros [Hn _] C S. cbn [s_cfg s_store s_log] in *.
  set (order := pending_ids sto).
  assert (O : order_ok order (pending_ids sto) = true)
    by (apply order_ok_refl; unfold order, pending_ids; apply NoDup_ids_filter; assumption).
  destruct (restart_recovers (mks c sto now mg log) order O) as [R1 [R2 [R3 [R4 [R5 [R6 R7]]]]]].
  destruct (run (mks c sto now mg log) [OpCrash; OpStart order]) as [s1 o1] eqn:Run1.
  cbn [fst snd s_store s_cfg s_log s_now] in *. destruct s1 as [c1 sto1 now1 mg1 log1].
  cbn [s_store s_cfg s_log s_now s_mgr] in *. subst c1 now1 log1 mg1 o1.
  assert (Hn1 : NoDup (ids sto1)) by (rewrite R2; assumption).
  set (big := c_ri c + 1 + span sto1).
  assert (F : failed_ids sto1 = ids sto1).
  { unfold failed_ids. rewrite filter_all; [reflexivity|]. intros x Hx. unfold is_failed. rewrite (R3 x Hx). reflexivity. }
  assert (Run2 : run (mks c sto1 now (Some (fresh_mgr c)) log) [OpTick big; OpPollGet (ids sto1)] =
                 (mks c sto1 (now + big) (Some (mkm false [] [] (c_inw c) (c_rew c) [] [] (Some (PLoop sto1)))) log, [ODone; ODone])).
  { cbn [run]. unfold step at 1. cbn [s_cfg s_store s_now s_mgr s_log].
    unfold step. cbn [s_cfg s_store s_now s_mgr s_log fresh_mgr m_poll]. rewrite F, (order_ok_refl _ Hn1).
    rewrite (get_rows_ids sto1 Hn1). reflexivity. }
  destruct (poll_progress c (now + big) false [] (c_inw c) (c_rew c) [] t C (cfg_ok_rew c C) sto1 sto1 log)
    as [ops [s' [outs [l [R [L [Lg Hin]]]]]]].
  - intros r Hr. split; [apply due_after; assumption|]. apply storedb_In. apply in_map. assumption.
  - change (In t (ids sto1)). rewrite R2. apply storedb_In. assumption.
  - exists ([OpCrash; OpStart order] ++ [OpTick big; OpPollGet (ids sto1)] ++ ops), s'. eexists. exists l.
    rewrite run_app, Run1, run_app, Run2, R. split; [reflexivity|]. split; [|auto].
    apply legal_app; [|apply legal_app; [|assumption]]; intros K; cbn in K;
      repeat (destruct K as [K|K]; [discriminate|]); exact K.
Qed.

Lemma mark_all_failed order now sto :
  order_ok order (pending_ids sto) = true -> forall r, In r (mark_failed_all order now sto) -> r_st r = Failed.
Proof.
  intros O. apply all_failed. intros t. rewrite pendingb_mark_failed_all.
  destruct (memb t order) eqn:E; cbn; [reflexivity|].
  destruct (pendingb t sto) eqn:P; [|reflexivity]. apply in_pending_ids in P.
  apply (order_ok_spec _ _ O) in P. apply memb_In in P. congruence.
Qed.

Lemma storedb_mark_failed_all t order now s : storedb t (mark_failed_all order now s) = storedb t s.
Proof. apply storedb_ids, ids_mark_failed_all. Qed.

(* ------------------------------------------------------------------ executed until it succeeds *)

Lemma poll_progress_shape c now cl qi ii ir ad t :
  cfg_ok c = true -> 0 <? ir = true ->
  forall snap sto log,
  (forall r, In r snap -> due (c_ri c) now r = true /\ storedb (r_id r) sto = true) ->
  In t (map r_id snap) ->
  exists ops sto' rest outs l,
    run (mks c sto now (Some (mkm cl qi [] ii ir [] ad (Some (PLoop snap)))) log) ops =
      (mks c sto' now (Some (mkm cl qi [] ii (ir - 1) [mkw QRe t WRun] ad (Some (PLoop rest))))
           (EStart t :: l ++ log), outs) /\
    legal outs /\ (forall e, In e l -> ev_task e <> t) /\ ids sto' = ids sto.
Proof.
  intros C I. induction snap as [|r rest IH]; intros sto log H Hin; [destruct Hin|].
  destruct (H r (or_introl eq_refl)) as [D S].
  destruct (N.eq_dec (r_id r) t) as [E|E].
  - exists round_exec, (mark_pending (r_id r) sto), rest. eexists. exists [].
    rewrite (round_exec_run c sto now cl qi ii ir ad r rest log C I D S). rewrite E.
    split; [reflexivity|]. split; [|split; [intros e []|apply ids_mark_pending]].
    intros K. cbn in K. repeat (destruct K as [K|K]; [discriminate|]). exact K.
  - destruct (round_fail_run c sto now cl qi ii ir ad r rest log C I D S) as [sto' [o5 [R [O5 Ids]]]].
    destruct (IH sto' (ERet (r_id r) false :: EStart (r_id r) :: log)) as [ops [sto2 [rest2 [outs [l [R2 [L2 [Ne Ids2]]]]]]]].
    + intros x Hx. destruct (H x (or_intror Hx)) as [D' S']. split; [assumption|].
      rewrite (storedb_ids sto' sto) by assumption. assumption.
    + destruct Hin as [Hin|Hin]; [contradiction|assumption].
    + exists (round_fail (r_id r) ++ ops), sto2, rest2. eexists. exists (l ++ [ERet (r_id r) false; EStart (r_id r)]).
      rewrite run_app, R, R2. rewrite <- app_assoc. split; [reflexivity|]. split; [|split].
      * apply legal_app; [|assumption]. intros K. cbn in K.
        repeat (destruct K as [K|K]; [try discriminate; try contradiction|]); exact K.
      * intros e He. apply in_app_or in He. destruct He as [He|He]; [auto|].
        cbn in He. destruct He as [<-|[<-|[]]]; cbn; assumption.
      * rewrite Ids2. assumption.
Qed.

(* one more execution of a stored task, with the verdict chosen by the environment, is always
   possible; a failure keeps the task, a success removes it *)
Theorem exec_once s t ok :
  Inv s -> cfg_ok (s_cfg s) = true -> storedb t (s_store s) = true ->
  exists ops s' outs l, run s ops = (s', outs) /\ legal outs /\
    s_log s' = ERet t ok :: EStart t :: l ++ s_log s /\ (forall e, In e l -> ev_task e <> t) /\
    storedb t (s_store s') = negb ok /\ s_cfg s' = s_cfg s.
Proof.
  destruct s as [c sto now mg log]. intros [Hn _] C S. cbn [s_cfg s_store s_log] in *.
  set (order := pending_ids sto).
  assert (O : order_ok order (pending_ids sto) = true)
    by (apply order_ok_refl; unfold order, pending_ids; apply NoDup_ids_filter; assumption).
  destruct (restart_recovers (mks c sto now mg log) order O) as [R1 [R2 [R3 [R4 [R5 [R6 R7]]]]]].
  destruct (run (mks c sto now mg log) [OpCrash; OpStart order]) as [s1 o1] eqn:Run1.
  cbn [fst snd s_store s_cfg s_log s_now] in *. destruct s1 as [c1 sto1 now1 mg1 log1].
  cbn [s_store s_cfg s_log s_now s_mgr] in *. subst c1 now1 log1 mg1 o1.
  assert (Hn1 : NoDup (ids sto1)) by (rewrite R2; assumption).
  set (big := c_ri c + 1 + span sto1).
  assert (F : failed_ids sto1 = ids sto1).
  { unfold failed_ids. rewrite filter_all; [reflexivity|]. intros x Hx. unfold is_failed. rewrite (R3 x Hx). reflexivity. }
  assert (Run2 : run (mks c sto1 now (Some (fresh_mgr c)) log) [OpTick big; OpPollGet (ids sto1)] =
                 (mks c sto1 (now + big) (Some (mkm false [] [] (c_inw c) (c_rew c) [] [] (Some (PLoop sto1)))) log, [ODone; ODone])).
  { cbn [run]. unfold step at 1. cbn [s_cfg s_store s_now s_mgr s_log].
    unfold step. cbn [s_cfg s_store s_now s_mgr s_log fresh_mgr m_poll]. rewrite F, (order_ok_refl _ Hn1).
    rewrite (get_rows_ids sto1 Hn1). reflexivity. }
  destruct (poll_progress_shape c (now + big) false [] (c_inw c) (c_rew c) [] t C (cfg_ok_rew c C) sto1 sto1 log)
    as [ops [sto2 [rest [outs [l [R [L [Ne Ids]]]]]]]].
  - intros r Hr. split; [apply due_after; assumption|]. apply storedb_In. apply in_map. assumption.
  - change (In t (ids sto1)). rewrite R2. apply storedb_In. assumption.
  - assert (S2 : storedb t sto2 = true) by (rewrite (storedb_ids sto2 sto1), (storedb_ids sto1 sto); assumption).
    assert (I1 : c_rew c - 1 + 1 = c_rew c) by (pose proof (cfg_ok_rew c C) as X; apply N.ltb_lt in X; lia).
    exists ([OpCrash; OpStart order] ++ [OpTick big; OpPollGet (ids sto1)] ++ ops ++ [OpExecRet t ok; OpExecFin t]).
    rewrite run_app, Run1, run_app, Run2, run_app, R.
    cbn [run].
    unfold step at 1. nf. rewrite N.eqb_refl. cbn [andb]. nf. cbn [app].
    unfold step at 1. nf. rewrite N.eqb_refl. cbn [andb]. nf. cbn [app]. rewrite I1.
    assert (LG : forall x y, x <> OIllegal -> y <> OIllegal -> legal (ODone :: ODone :: ODone :: ODone :: outs ++ [x; y])).
    { intros x y Hx Hy K. cbn [In] in K. repeat (destruct K as [K|K]; [discriminate|]).
      apply in_app_or in K. destruct K as [K|K]; [exact (L K)|]. cbn [In] in K.
      destruct K as [K|[K|[]]]; auto. }
    destruct ok.
    + eexists. eexists. exists l. split; [reflexivity|]. split; [|split; [reflexivity|split; [assumption|split; [|reflexivity]]]].
      * apply LG; discriminate.
      * cbn [s_store negb]. rewrite storedb_remove, N.eqb_refl. reflexivity.
    + eexists. eexists. exists l. split; [reflexivity|]. split; [|split; [reflexivity|split; [assumption|split; [|reflexivity]]]].
      * apply LG; [discriminate|]. rewrite S2. discriminate.
      * cbn [s_store negb]. rewrite storedb_mark_failed. assumption.
Qed.

(* n failed executions of t, newest first *)
Fixpoint fails (t : N) (n : nat) : list ev :=
  match n with O => [] | S n' => ERet t false :: EStart t :: fails t n' end.
Definition about (t : N) (l : list ev) : list ev := filter (fun e => ev_task e =? t) l.

Lemma fails_snoc t n : fails t n ++ [ERet t false; EStart t] = fails t (S n).
Proof. induction n as [|n IH]; [reflexivity|]. cbn [fails app]. rewrite IH. reflexivity. Qed.

Lemma about_none t l : (forall e, In e l -> ev_task e <> t) -> about t l = [].
Proof.
  induction l as [|e l IH]; intros H; [reflexivity|]. cbn.
  destruct (ev_task e =? t) eqn:E; [apply N.eqb_eq in E; exfalso; apply (H e); [left; reflexivity|assumption]|].
  apply IH. intros; apply H; right; assumption.
Qed.

Lemma about_app t a b : about t (a ++ b) = about t a ++ about t b.
Proof. apply filter_app. Qed.

(* C30 "executed until an execution succeeds", the part that holds without a scheduler: however
   often the executor fails (n times), the continuation in which the task is retried each time
   exists; in it the task is executed n+1 times and leaves the store after the success only.
   MISSING (the fairness assumption): that the scheduler actually takes such a continuation, i.e.
   the poller and a retry worker run again and again AND the task finds room in the retry queue
   when its turn comes (thread fairness alone does not give the latter, see starvation below). *)
Theorem until_success s t n :
  Inv s -> cfg_ok (s_cfg s) = true -> storedb t (s_store s) = true ->
  exists ops s' outs l, run s ops = (s', outs) /\ legal outs /\ s_log s' = l ++ s_log s /\
    about t l = ERet t true :: EStart t :: fails t n /\ storedb t (s_store s') = false.
Proof.
  revert s. induction n as [|n IH]; intros s HI C S.
  - destruct (exec_once s t true HI C S) as [ops [s' [outs [l [R [L [Lg [Ne [St _]]]]]]]]].
    exists ops, s', outs, (ERet t true :: EStart t :: l). repeat split; try assumption.
    unfold about. cbn. rewrite N.eqb_refl. fold (about t l). rewrite (about_none t l Ne). reflexivity.
  - destruct (exec_once s t false HI C S) as [ops [s1 [outs [l [R [L [Lg [Ne [St Cf]]]]]]]]].
    assert (HI1 : Inv s1) by (pose proof (inv_run s ops HI) as X; rewrite R in X; exact X).
    destruct (IH s1 HI1) as [ops2 [s2 [outs2 [l2 [R2 [L2 [Lg2 [Ab St2]]]]]]]]; [rewrite Cf; assumption|assumption|].
    exists (ops ++ ops2), s2, (outs ++ outs2), (l2 ++ ERet t false :: EStart t :: l).
    rewrite run_app, R, R2. repeat split; try assumption.
    + apply legal_app; assumption.
    + rewrite Lg2, Lg, <- app_assoc. reflexivity.
    + rewrite about_app, Ab. unfold about at 1. cbn [filter ev_task]. rewrite N.eqb_refl. fold (about t l).
      rewrite (about_none t l Ne). cbn [app]. f_equal. f_equal. apply fails_snoc.
Qed.
