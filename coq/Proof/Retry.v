(* Lemmas about K.Model.Retry: the inductive invariant of the task store + manager state machine
   and its consequences.  Imported read-only by C31-C33. *)
From Coq Require Import List NArith Bool Lia Arith.
From K.Model Require Import Retry.
Import ListNotations.
Local Open Scope N_scope.

Notation cnt l t := (count_occ N.eq_dec l t).

(* ------------------------------------------------------------------ generic helpers *)

Lemma pick_spec {A} (f : A -> bool) l b x a :
  pick f l = Some (b, x, a) -> l = b ++ x :: a /\ f x = true.
Proof.
  revert b x a. induction l as [|y l IH]; intros b x a H; cbn in H; [discriminate|].
  destruct (f y) eqn:E.
  - inversion H; subst. split; [reflexivity|assumption].
  - destruct (pick f l) as [[[b' y'] a']|] eqn:P; [|discriminate].
    inversion H; subst. destruct (IH _ _ _ eq_refl) as [-> Hf]. split; [reflexivity|assumption].
Qed.

Lemma pick_none {A} (f : A -> bool) l : pick f l = None -> forall x, In x l -> f x = false.
Proof.
  induction l as [|y l IH]; intros H x Hin; [destruct Hin|].
  cbn in H. destruct (f y) eqn:E; [discriminate|].
  destruct (pick f l) as [[[b' y'] a']|] eqn:P; [discriminate|].
  destruct Hin as [<-|Hin]; [assumption|]. apply IH; auto.
Qed.

Lemma pick_some {A} (f : A -> bool) l x : In x l -> f x = true -> pick f l <> None.
Proof. intros Hin Hf Hn. rewrite (pick_none f l Hn x Hin) in Hf. discriminate. Qed.

Lemma memb_In t l : memb t l = true <-> In t l.
Proof.
  unfold memb. rewrite existsb_exists. split.
  - intros [x [Hin E]]. apply N.eqb_eq in E. subst. assumption.
  - intros H. exists t. split; [assumption|apply N.eqb_refl].
Qed.

Lemma nodupb_NoDup l : nodupb l = true -> NoDup l.
Proof.
  induction l as [|x l IH]; cbn; intros H; [constructor|].
  apply andb_true_iff in H as [H1 H2]. constructor; [|auto].
  intros Hin. apply memb_In in Hin. rewrite Hin in H1. discriminate.
Qed.

Lemma NoDup_nodupb l : NoDup l -> nodupb l = true.
Proof.
  induction 1 as [|x l Hn _ IH]; cbn; [reflexivity|]. rewrite IH, andb_true_r.
  destruct (memb x l) eqn:E; [|reflexivity]. apply memb_In in E. contradiction.
Qed.

Lemma order_ok_spec order want :
  order_ok order want = true -> NoDup order /\ (forall t, In t order <-> In t want).
Proof.
  unfold order_ok. intros H. apply andb_true_iff in H as [H H3]. apply andb_true_iff in H as [H1 H2].
  split; [apply nodupb_NoDup; assumption|].
  rewrite forallb_forall in H2, H3. intros t. split; intros Hin.
  - apply memb_In. auto.
  - apply memb_In. auto.
Qed.

Lemma order_ok_refl l : NoDup l -> order_ok l l = true.
Proof.
  intros H. unfold order_ok. rewrite (NoDup_nodupb _ H). cbn.
  assert (F : forallb (fun t => memb t l) l = true) by (apply forallb_forall; intros; apply memb_In; assumption).
  rewrite F. reflexivity.
Qed.

(* ------------------------------------------------------------------ the store *)

Lemma ids_upd t f s : (forall r, r_id (f r) = r_id r) -> ids (upd t f s) = ids s.
Proof.
  intros Hf. unfold ids, upd. rewrite map_map. apply map_ext. intros r.
  destruct (r_id r =? t); auto.
Qed.

Lemma ids_mark_failed t now s : ids (mark_failed t now s) = ids s.
Proof. apply ids_upd. reflexivity. Qed.
Lemma ids_mark_pending t s : ids (mark_pending t s) = ids s.
Proof. apply ids_upd. reflexivity. Qed.

Lemma storedb_In t s : storedb t s = true <-> In t (ids s).
Proof.
  unfold storedb, ids. rewrite existsb_exists, in_map_iff. split.
  - intros [r [Hin E]]. apply N.eqb_eq in E. eauto.
  - intros [r [E Hin]]. exists r. split; [assumption|]. apply N.eqb_eq. assumption.
Qed.

Lemma storedb_ids s s' t : ids s = ids s' -> storedb t s = storedb t s'.
Proof.
  intros E. destruct (storedb t s) eqn:A; destruct (storedb t s') eqn:B; try reflexivity.
  - apply storedb_In in A. rewrite E in A. apply storedb_In in A. congruence.
  - apply storedb_In in B. rewrite <- E in B. apply storedb_In in B. congruence.
Qed.

Lemma storedb_mark_failed t' t now s : storedb t' (mark_failed t now s) = storedb t' s.
Proof. apply storedb_ids, ids_mark_failed. Qed.
Lemma storedb_mark_pending t' t s : storedb t' (mark_pending t s) = storedb t' s.
Proof. apply storedb_ids, ids_mark_pending. Qed.

Lemma ids_mark_failed_all order now s : ids (mark_failed_all order now s) = ids s.
Proof.
  unfold mark_failed_all. revert s. induction order as [|t o IH]; intros s; cbn; [reflexivity|].
  rewrite IH. apply ids_mark_failed.
Qed.

Lemma storedb_remove t' t s : storedb t' (remove_row t s) = negb (t' =? t) && storedb t' s.
Proof.
  unfold storedb, remove_row. induction s as [|r s IH]; cbn; [rewrite andb_false_r; reflexivity|].
  destruct (r_id r =? t) eqn:E; cbn.
  - rewrite IH. apply N.eqb_eq in E. rewrite E.
    destruct (t =? t') eqn:E2.
    + apply N.eqb_eq in E2. subst. rewrite N.eqb_refl. reflexivity.
    + reflexivity.
  - rewrite IH. destruct (r_id r =? t') eqn:E2; cbn; [|reflexivity].
    apply N.eqb_eq in E2. subst. rewrite E. reflexivity.
Qed.

Lemma pendingb_upd_failed t' t now s :
  pendingb t' (mark_failed t now s) = negb (t' =? t) && pendingb t' s.
Proof.
  unfold pendingb, mark_failed, upd. induction s as [|r s IH]; cbn; [rewrite andb_false_r; reflexivity|].
  rewrite IH. destruct (r_id r =? t) eqn:E; cbn.
  - apply N.eqb_eq in E. rewrite E. destruct (t =? t') eqn:E2; cbn.
    + apply N.eqb_eq in E2. subst. rewrite N.eqb_refl. reflexivity.
    + rewrite N.eqb_sym in E2. rewrite E2. reflexivity.
  - destruct (r_id r =? t') eqn:E2; cbn; [|reflexivity].
    apply N.eqb_eq in E2. subst. rewrite E. reflexivity.
Qed.

Lemma pendingb_remove t' t s : pendingb t' (remove_row t s) = negb (t' =? t) && pendingb t' s.
Proof.
  unfold pendingb, remove_row. induction s as [|r s IH]; cbn; [rewrite andb_false_r; reflexivity|].
  destruct (r_id r =? t) eqn:E; cbn.
  - rewrite IH. apply N.eqb_eq in E. rewrite E.
    destruct (t =? t') eqn:E2; cbn.
    + apply N.eqb_eq in E2. subst. rewrite N.eqb_refl. reflexivity.
    + reflexivity.
  - rewrite IH. destruct (r_id r =? t') eqn:E2; cbn; [|reflexivity].
    apply N.eqb_eq in E2. subst. rewrite E. reflexivity.
Qed.

Lemma pendingb_stored t s : pendingb t s = true -> storedb t s = true.
Proof.
  unfold pendingb, storedb. rewrite !existsb_exists. intros [r [Hin E]].
  apply andb_true_iff in E as [E _]. eauto.
Qed.

Lemma pendingb_mark_pending t' t s :
  pendingb t' (mark_pending t s) = if t' =? t then storedb t s else pendingb t' s.
Proof.
  unfold pendingb, storedb, mark_pending, upd. induction s as [|r s IH]; cbn.
  - destruct (t' =? t); reflexivity.
  - rewrite IH. destruct (r_id r =? t) eqn:E; cbn.
    + apply N.eqb_eq in E. rewrite E. destruct (t' =? t) eqn:E2.
      * apply N.eqb_eq in E2. subst. rewrite N.eqb_refl. reflexivity.
      * rewrite N.eqb_sym, E2. reflexivity.
    + destruct (t' =? t) eqn:E2; [|reflexivity].
      apply N.eqb_eq in E2. subst. rewrite E. reflexivity.
Qed.

Lemma pendingb_app t s1 s2 : pendingb t (s1 ++ s2) = pendingb t s1 || pendingb t s2.
Proof. apply existsb_app. Qed.

Lemma add_row_some t stt d now s s' :
  add_row t stt d now s = Some s' -> storedb t s = false /\ s' = s ++ [mkrow t stt 0 now d None].
Proof. unfold add_row. destruct (storedb t s); [discriminate|]. intros H; inversion H; auto. Qed.

Lemma add_row_none t stt d now s : add_row t stt d now s = None -> storedb t s = true.
Proof. unfold add_row. destruct (storedb t s); [reflexivity|discriminate]. Qed.

Lemma NoDup_ids_add t stt d now s :
  NoDup (ids s) -> storedb t s = false -> NoDup (ids (s ++ [mkrow t stt 0 now d None])).
Proof.
  intros Hn Hs. unfold ids. rewrite map_app. cbn.
  rewrite <- (rev_involutive (map r_id s ++ [t])). apply NoDup_rev. rewrite rev_app_distr. cbn.
  constructor.
  - rewrite <- in_rev. intros Hin. apply storedb_In in Hin. congruence.
  - apply NoDup_rev. assumption.
Qed.

Lemma NoDup_ids_remove t s : NoDup (ids s) -> NoDup (ids (remove_row t s)).
Proof.
  unfold ids, remove_row. induction s as [|r s IH]; cbn; intros H; [constructor|].
  inversion H; subst. destruct (r_id r =? t); cbn; [auto|].
  constructor; [|auto]. intros Hin. apply H2. apply in_map_iff in Hin as [x [E Hx]].
  apply filter_In in Hx as [Hx _]. apply in_map_iff. eauto.
Qed.

(* a stored row decides the status of its id when ids are unique *)
Lemma row_unique s r1 r2 : NoDup (ids s) -> In r1 s -> In r2 s -> r_id r1 = r_id r2 -> r1 = r2.
Proof.
  unfold ids. induction s as [|r s IH]; cbn; intros Hn H1 H2 E; [destruct H1|].
  inversion Hn; subst.
  destruct H1 as [<-|H1], H2 as [<-|H2]; auto.
  - exfalso. apply H3. rewrite E. apply in_map. assumption.
  - exfalso. apply H3. rewrite <- E. apply in_map. assumption.
Qed.

Lemma pendingb_true_row t s : pendingb t s = true -> exists r, In r s /\ r_id r = t /\ r_st r = Pending.
Proof.
  unfold pendingb. rewrite existsb_exists. intros [r [Hin E]]. apply andb_true_iff in E as [E1 E2].
  apply N.eqb_eq in E1. exists r. repeat split; auto. unfold is_pending in E2. destruct (r_st r); [reflexivity|discriminate].
Qed.

Lemma row_pendingb r s : In r s -> r_st r = Pending -> pendingb (r_id r) s = true.
Proof.
  intros Hin E. unfold pendingb. apply existsb_exists. exists r. split; [assumption|].
  rewrite N.eqb_refl. unfold is_pending. rewrite E. reflexivity.
Qed.

Lemma failed_not_pending s r : NoDup (ids s) -> In r s -> r_st r = Failed -> pendingb (r_id r) s = false.
Proof.
  intros Hn Hin E. destruct (pendingb (r_id r) s) eqn:P; [|reflexivity].
  apply pendingb_true_row in P as [r' [Hin' [E1 E2]]].
  rewrite (row_unique s r' r Hn Hin' Hin E1) in E2. congruence.
Qed.

Lemma In_upd_other r t f s : In r s -> r_id r <> t -> In r (upd t f s).
Proof.
  intros Hin Hne. unfold upd. apply in_map_iff. exists r. split; [|assumption].
  destruct (r_id r =? t) eqn:E; [|reflexivity]. apply N.eqb_eq in E. contradiction.
Qed.

Lemma In_remove_other r t s : In r s -> r_id r <> t -> In r (remove_row t s).
Proof.
  intros Hin Hne. unfold remove_row. apply filter_In. split; [assumption|].
  destruct (r_id r =? t) eqn:E; [|reflexivity]. apply N.eqb_eq in E. contradiction.
Qed.

Lemma find_row_In t s r : find_row t s = Some r -> In r s /\ r_id r = t.
Proof. unfold find_row. intros H. apply find_some in H as [H1 H2]. apply N.eqb_eq in H2. auto. Qed.

Lemma In_find_row s r : NoDup (ids s) -> In r s -> find_row (r_id r) s = Some r.
Proof.
  intros Hn Hin. destruct (find_row (r_id r) s) as [r'|] eqn:F.
  - apply find_row_In in F as [H1 H2]. f_equal. apply (row_unique s); auto.
  - unfold find_row in F. pose proof (find_none _ _ F r Hin) as H. cbn in H. rewrite N.eqb_refl in H. discriminate.
Qed.

Lemma in_get_rows order s r : In r (get_rows order s) -> In r s /\ In (r_id r) order.
Proof.
  unfold get_rows. rewrite in_flat_map. intros [t [Hin Hr]].
  destruct (find_row t s) as [r'|] eqn:F; [|destruct Hr].
  destruct Hr as [<-|[]]. apply find_row_In in F as [H1 H2]. subst. auto.
Qed.

Lemma ids_get_rows order s : (forall t, In t order -> storedb t s = true) -> map r_id (get_rows order s) = order.
Proof.
  unfold get_rows. induction order as [|t o IH]; intros H; cbn; [reflexivity|].
  destruct (find_row t s) as [r|] eqn:F.
  - cbn. apply find_row_In in F as [_ ->]. f_equal. apply IH. intros; apply H; right; assumption.
  - exfalso. specialize (H t (or_introl eq_refl)). apply storedb_In in H.
    apply in_map_iff in H as [r [E Hin]]. unfold find_row in F.
    pose proof (find_none _ _ F r Hin) as X. cbn in X. rewrite E, N.eqb_refl in X. discriminate.
Qed.

Lemma get_rows_ids s : NoDup (ids s) -> get_rows (ids s) s = s.
Proof.
  intros Hn. unfold get_rows.
  assert (G : forall l, (forall r, In r l -> In r s) -> flat_map (fun t => match find_row t s with Some r => [r] | None => [] end) (ids l) = l).
  { induction l as [|r l IH]; intros Hl; cbn; [reflexivity|].
    rewrite (In_find_row s r Hn (Hl r (or_introl eq_refl))). cbn. f_equal. apply IH. intros; apply Hl; right; assumption. }
  apply G. auto.
Qed.

Lemma in_pending_ids t s : In t (pending_ids s) <-> pendingb t s = true.
Proof.
  unfold pending_ids, ids, pendingb. rewrite in_map_iff, existsb_exists. split.
  - intros [r [E Hin]]. apply filter_In in Hin as [Hin P]. exists r. split; [assumption|].
    rewrite E, N.eqb_refl. assumption.
  - intros [r [Hin E]]. apply andb_true_iff in E as [E1 E2]. apply N.eqb_eq in E1.
    exists r. split; [assumption|]. apply filter_In. auto.
Qed.

Lemma in_failed_ids t s : In t (failed_ids s) <-> failedb t s = true.
Proof.
  unfold failed_ids, ids, failedb. rewrite in_map_iff, existsb_exists. split.
  - intros [r [E Hin]]. apply filter_In in Hin as [Hin P]. exists r. split; [assumption|].
    rewrite E, N.eqb_refl. assumption.
  - intros [r [Hin E]]. apply andb_true_iff in E as [E1 E2]. apply N.eqb_eq in E1.
    exists r. split; [assumption|]. apply filter_In. auto.
Qed.

Lemma NoDup_ids_filter f s : NoDup (ids s) -> NoDup (ids (filter f s)).
Proof.
  unfold ids. induction s as [|r s IH]; cbn; intros H; [constructor|].
  inversion H; subst. destruct (f r); cbn; [|auto].
  constructor; [|auto]. intros Hin. apply H2. apply in_map_iff in Hin as [x [E Hx]].
  apply filter_In in Hx as [Hx _]. apply in_map_iff. eauto.
Qed.

(* ------------------------------------------------------------------ the invariant *)

(* every stored pending task has exactly one holder (a queue slot, a worker, an Add call or the
   poller on its way to a queue); nothing else is held *)
Definition held_ok (sto : store) (m : mgr) : Prop :=
  forall t, cnt (held m) t = if pendingb t sto then 1%nat else 0%nat.
(* the rows the poller still has to look at are stored, failed and unchanged *)
Definition snap_ok (sto : store) (m : mgr) : Prop :=
  NoDup (map r_id (p_rest (m_poll m))) /\
  forall r, In r (p_rest (m_poll m)) -> In r sto /\ r_st r = Failed.
(* the latest executor event about a task in a worker's hands is that worker's *)
Definition log_ok (log : list ev) (m : mgr) : Prop :=
  forall w, In w (m_work m) ->
    last_ev (w_t w) log = Some (match w_ph w with WRun => EStart (w_t w) | WFin ok => ERet (w_t w) ok end).

Definition Inv (s : st) : Prop :=
  NoDup (ids (s_store s)) /\
  match s_mgr s with
  | None => True
  | Some m => held_ok (s_store s) m /\ snap_ok (s_store s) m /\ log_ok (s_log s) m
  end.

Lemma held_pending sto m t : held_ok sto m -> In t (held m) -> pendingb t sto = true.
Proof.
  intros H Hin. specialize (H t). apply (count_occ_In N.eq_dec) in Hin.
  destruct (pendingb t sto); [reflexivity|lia].
Qed.

Lemma add_held_app b x a : add_held (b ++ x :: a) = add_held b ++ a_held (snd x) ++ add_held a.
Proof. unfold add_held. rewrite flat_map_app. reflexivity. Qed.

Lemma add_held_app2 b a : add_held (b ++ a) = add_held b ++ add_held a.
Proof. unfold add_held. apply flat_map_app. Qed.

Lemma inv_step s o : Inv s -> Inv (fst (step s o)).
Proof.
  destruct s as [c sto now mg log]. unfold Inv. cbn [s_store s_mgr s_log]. intros [Hn Hm].
  destruct o; unfold step; cbn [s_store s_mgr s_log s_cfg s_now].
  - (* Start *) destruct mg as [m|]; [cbn; auto|].
    destruct (order_ok order (pending_ids sto)) eqn:O; [|cbn; auto].
    cbn.
