(* C28, part 1: the ':'-joined encoding (fmt %d / Atoi, hex, Split / Join, serialize / deserialize)
   and the key names. *)
From Coq Require Import List NArith ZArith Bool Lia.
From K.Model Require Import C28.
Import ListNotations.

(* ---------- equality tests ---------- *)
Lemma str_eqb_eq a b : str_eqb a b = true <-> a = b.
Proof.
  revert b. induction a as [|x a IH]; intros [|y b]; cbn [str_eqb]; split; intros H;
    try reflexivity; try discriminate.
  - apply andb_true_iff in H. destruct H as [H1 H2]. apply N.eqb_eq in H1. apply IH in H2. congruence.
  - inversion H; subst. rewrite N.eqb_refl. cbn [andb]. apply IH. reflexivity.
Qed.
Lemma str_eqb_refl a : str_eqb a a = true.
Proof. apply str_eqb_eq. reflexivity. Qed.
Lemma str_eqb_neq a b : str_eqb a b = false <-> a <> b.
Proof. rewrite <- str_eqb_eq. destruct (str_eqb a b); intuition congruence. Qed.

Lemma ident_eqb_eq a b : ident_eqb a b = true <-> a = b.
Proof.
  unfold ident_eqb. destruct a as [a1 a2 a3], b as [b1 b2 b3]. cbn [i_id i_ip i_port].
  rewrite !andb_true_iff, !str_eqb_eq, Z.eqb_eq. split.
  - intros [[-> ->] ->]. reflexivity.
  - intros H. inversion H. auto.
Qed.
Lemma ident_eqb_refl a : ident_eqb a a = true.
Proof. apply ident_eqb_eq. reflexivity. Qed.

Lemma mem_str_In s l : mem_str s l = true <-> In s l.
Proof.
  unfold mem_str. rewrite existsb_exists. split.
  - intros [x [Hx He]]. apply str_eqb_eq in He. subst. exact Hx.
  - intros H. exists s. split; [exact H | apply str_eqb_refl].
Qed.

(* ---------- decimal ---------- *)
Definition value_le (l : list N) : N := fold_right (fun d acc => acc * 10 + d)%N 0%N l.

Lemma digits_le_S f n :
  digits_le (S f) n = if (n <? 10)%N then [n] else (n mod 10)%N :: digits_le f (n / 10)%N.
Proof. reflexivity. Qed.

Lemma digits_le_spec f : forall n, (n < 2 ^ N.of_nat f)%N ->
  value_le (digits_le (S f) n) = n /\
  Forall (fun d => d < 10)%N (digits_le (S f) n) /\
  digits_le (S f) n <> [].
Proof.
  induction f as [|f IH]; intros n Hn; rewrite digits_le_S.
  - assert (Hz : n = 0%N) by (cbn in Hn; lia). subst n. cbn.
    split; [reflexivity|]. split; [constructor; [lia|constructor] | discriminate].
  - destruct (N.ltb_spec n 10) as [Hlt|Hge].
    + cbn. split; [lia|]. split; [constructor; [exact Hlt|constructor] | discriminate].
    + assert (Hq : (n / 10 < 2 ^ N.of_nat f)%N).
      { rewrite Nat2N.inj_succ, N.pow_succ_r' in Hn. apply N.div_lt_upper_bound; lia. }
      destruct (IH _ Hq) as (Hv & Hd & _).
      split; [|split].
      * cbn [value_le fold_right]. fold (value_le (digits_le (S f) (n / 10))). rewrite Hv.
        pose proof (N.div_mod n 10). lia.
      * constructor; [apply N.mod_lt; lia | exact Hd].
      * discriminate.
Qed.

Definition dec_digits (n : N) : list N := rev (digits_le (S (N.to_nat (N.size n))) n).
Lemma dec_N_eq n : dec_N n = map (fun d => 48 + d)%N (dec_digits n).
Proof. reflexivity. Qed.

Lemma dec_digits_spec n :
  fold_left (fun a d => a * 10 + d)%N (dec_digits n) 0%N = n /\
  Forall (fun d => d < 10)%N (dec_digits n) /\ dec_digits n <> [].
Proof.
  unfold dec_digits.
  assert (Hn : (n < 2 ^ N.of_nat (N.to_nat (N.size n)))%N).
  { rewrite N2Nat.id. apply N.size_gt. }
  destruct (digits_le_spec _ _ Hn) as (Hv & Hd & Hne).
  split; [|split].
  - pose proof (fold_left_rev_right (fun d acc => (acc * 10 + d)%N)
                  (rev (digits_le (S (N.to_nat (N.size n))) n)) 0%N) as E.
    rewrite rev_involutive in E. cbn beta in E. rewrite <- E. exact Hv.
  - apply Forall_rev. exact Hd.
  - intros H. apply Hne. apply (f_equal (@rev N)) in H. rewrite rev_involutive in H. exact H.
Qed.

Lemma parse_digits_map l : forall acc, Forall (fun d => d < 10)%N l ->
  parse_digits acc (map (fun d => 48 + d)%N l) = Some (fold_left (fun a d => a * 10 + d)%N l acc).
Proof.
  induction l as [|d l IH]; intros acc Hl; cbn [map parse_digits fold_left]; [reflexivity|].
  inversion Hl as [|? ? Hd Hl']; subst.
  assert (Hdig : is_digit (48 + d) = true).
  { unfold is_digit. apply andb_true_iff. split; apply N.leb_le; lia. }
  rewrite Hdig. replace (48 + d - 48)%N with d by lia. apply IH. exact Hl'.
Qed.

Lemma parse_digits_dec_N n : parse_digits 0 (dec_N n) = Some n.
Proof.
  rewrite dec_N_eq. destruct (dec_digits_spec n) as (Hv & Hd & _).
  rewrite parse_digits_map by exact Hd. rewrite Hv. reflexivity.
Qed.

(* a printed natural starts with a digit and consists of digits *)
Lemma dec_N_shape n :
  exists c t, dec_N n = c :: t /\ (48 <= c <= 57)%N /\ Forall (fun x => 48 <= x <= 57)%N (dec_N n).
Proof.
  rewrite dec_N_eq. destruct (dec_digits_spec n) as (_ & Hd & Hne).
  assert (Hall : Forall (fun x => 48 <= x <= 57)%N (map (fun d => 48 + d)%N (dec_digits n))).
  { apply Forall_forall. intros x Hx. apply in_map_iff in Hx. destruct Hx as [d [<- Hin]].
    rewrite Forall_forall in Hd. specialize (Hd _ Hin). cbn beta in Hd. lia. }
  destruct (dec_digits n) as [|d l]; [congruence|].
  cbn [map] in *. exists (48 + d)%N, (map (fun d => 48 + d)%N l).
  split; [reflexivity|]. split; [|exact Hall]. inversion Hall; assumption.
Qed.

Lemma parse_int_dec_Z z : parse_int (dec_Z z) = Some z.
Proof.
  unfold dec_Z. destruct (dec_N_shape (Z.abs_N z)) as (c & t & He & Hc & _).
  destruct (Z.ltb_spec z 0) as [Hneg|Hpos].
  - cbn [parse_int]. rewrite N.eqb_refl. rewrite He. rewrite <- He.
    rewrite parse_digits_dec_N. cbn [option_map]. f_equal. rewrite N2Z.inj_abs_N. lia.
  - rewrite He. cbn [parse_int].
    assert (H1 : (c =? 45)%N = false) by (apply N.eqb_neq; lia).
    assert (H2 : (c =? 43)%N = false) by (apply N.eqb_neq; lia).
    rewrite H1, H2. rewrite <- He. rewrite parse_digits_dec_N. cbn [option_map].
    f_equal. rewrite N2Z.inj_abs_N. lia.
Qed.

Lemma atoi_dec_Z z : in_int64 z = true -> atoi (dec_Z z) = Some z.
Proof. intros H. unfold atoi. rewrite parse_int_dec_Z, H. reflexivity. Qed.

Lemma dec_Z_inj a b : dec_Z a = dec_Z b -> a = b.
Proof.
  intros H. pose proof (parse_int_dec_Z a) as Ha. rewrite H, parse_int_dec_Z in Ha. congruence.
Qed.

Definition nocolon (s : str) : Prop := Forall (fun x => x <> 58%N) s.

Lemma dec_Z_nocolon z : nocolon (dec_Z z).
Proof.
  unfold dec_Z, nocolon. destruct (dec_N_shape (Z.abs_N z)) as (_ & _ & _ & _ & Hall).
  assert (Hn : Forall (fun x => x <> 58%N) (dec_N (Z.abs_N z))).
  { eapply Forall_impl; [|exact Hall]. cbn beta. intros; lia. }
  destruct (z <? 0)%Z; [constructor; [lia | exact Hn] | exact Hn].
Qed.

(* ---------- hex ---------- *)
Lemma unhexdig_hexdig d : (d < 16)%N -> unhexdig (hexdig d) = Some d /\ hexdig d <> 58%N.
Proof.
  intros Hd. unfold hexdig, unhexdig. destruct (N.ltb_spec d 10) as [H|H].
  - assert (E1 : (48 <=? 48 + d)%N = true) by (apply N.leb_le; lia).
    assert (E2 : (48 + d <=? 57)%N = true) by (apply N.leb_le; lia).
    rewrite E1, E2. cbn [andb]. split; [f_equal; lia | lia].
  - assert (E1 : (48 + d <=? 57)%N = false) by (apply N.leb_gt; lia).
    assert (E2 : (48 <=? 87 + d)%N = true) by (apply N.leb_le; lia).
    assert (E3 : (87 + d <=? 57)%N = false) by (apply N.leb_gt; lia).
    assert (E4 : (97 <=? 87 + d)%N = true) by (apply N.leb_le; lia).
    assert (E5 : (87 + d <=? 102)%N = true) by (apply N.leb_le; lia).
    rewrite E2, E3, E4, E5. cbn [andb]. split; [f_equal; lia | lia].
Qed.

Lemma unhex_hex b : forallb byte_ok b = true -> unhex (hex b) = Some b.
Proof.
  induction b as [|x b IH]; intros Hb; [reflexivity|].
  cbn [forallb] in Hb. apply andb_true_iff in Hb. destruct Hb as [Hx Hb].
  unfold byte_ok in Hx. apply N.ltb_lt in Hx.
  cbn [hex unhex].
  assert (H1 : (x / 16 < 16)%N) by (apply N.div_lt_upper_bound; lia).
  assert (H2 : (x mod 16 < 16)%N) by (apply N.mod_lt; lia).
  destruct (unhexdig_hexdig _ H1) as [-> _]. destruct (unhexdig_hexdig _ H2) as [-> _].
  rewrite (IH Hb). f_equal. f_equal. pose proof (N.div_mod x 16). lia.
Qed.

Lemma hex_nocolon b : forallb byte_ok b = true -> nocolon (hex b).
Proof.
  unfold nocolon. induction b as [|x b IH]; intros Hb; [constructor|].
  cbn [forallb] in Hb. apply andb_true_iff in Hb. destruct Hb as [Hx Hb].
  unfold byte_ok in Hx. apply N.ltb_lt in Hx. cbn [hex].
  assert (H1 : (x / 16 < 16)%N) by (apply N.div_lt_upper_bound; lia).
  assert (H2 : (x mod 16 < 16)%N) by (apply N.mod_lt; lia).
  constructor; [apply (unhexdig_hexdig _ H1)|]. constructor; [apply (unhexdig_hexdig _ H2)|].
  apply IH. exact Hb.
Qed.

Lemma hex_inj a b : forallb byte_ok a = true -> forallb byte_ok b = true -> hex a = hex b -> a = b.
Proof.
  intros Ha Hb H. pose proof (unhex_hex a Ha) as E. rewrite H, (unhex_hex b Hb) in E. congruence.
Qed.

Lemma new_peer_id_hex b :
  forallb byte_ok b = true -> length b = 20 -> new_peer_id (hex b) = Some b.
Proof. intros Hb Hl. unfold new_peer_id. rewrite (unhex_hex b Hb), Hl. reflexivity. Qed.

(* ---------- Split / Join ---------- *)
Lemma split_nonempty s : split_colon s <> [].
Proof.
  destruct s as [|c t]; cbn [split_colon]; [discriminate|].
  destruct (c =? 58)%N; [discriminate|]. destruct (split_colon t); discriminate.
Qed.

Lemma split_app a b : split_colon (a ++ 58%N :: b) = split_colon a ++ split_colon b.
Proof.
  induction a as [|c a IH]; cbn [app split_colon].
  - reflexivity.
  - destruct (c =? 58)%N.
    + rewrite IH. reflexivity.
    + rewrite IH. pose proof (split_nonempty a) as Hne.
      destruct (split_colon a) as [|p ps]; [congruence|]. reflexivity.
Qed.

Lemma split_nocolon a : nocolon a -> split_colon a = [a].
Proof.
  unfold nocolon. induction a as [|c a IH]; intros H; [reflexivity|].
  inversion H as [|? ? Hc Ha]; subst. cbn [split_colon].
  apply N.eqb_neq in Hc. rewrite Hc. rewrite (IH Ha). reflexivity.
Qed.

Lemma join_split s : join_colon (split_colon s) = s.
Proof.
  induction s as [|c t IH]; [reflexivity|]. cbn [split_colon].
  destruct (N.eqb_spec c 58) as [->|Hc].
  - pose proof (split_nonempty t) as Hne. cbn [join_colon].
    destruct (split_colon t) as [|p ps]; [congruence|]. cbn [app]. f_equal. exact IH.
  - pose proof (split_nonempty t) as Hne.
    destruct (split_colon t) as [|p ps]; [congruence|].
    cbn [join_colon] in *. destruct ps; [congruence|]. cbn [app]. f_equal. exact IH.
Qed.

Lemma split_serialize p : valid_peer p = true ->
  split_colon (serialize p) =
  hex (i_id (fst p)) :: split_colon (i_ip (fst p))
    ++ [dec_Z (i_port (fst p)); [if snd p then 49%N else 48%N]].
Proof.
  intros Hv. unfold valid_peer, valid_ident in Hv. rewrite !andb_true_iff in Hv.
  destruct Hv as [[[_ Hid] _] _].
  unfold serialize. rewrite split_app, (split_nocolon _ (hex_nocolon _ Hid)).
  cbn [app]. f_equal. rewrite split_app. f_equal. rewrite split_app.
  rewrite (split_nocolon _ (dec_Z_nocolon _)). cbn [app]. f_equal.
  apply split_nocolon. constructor; [destruct (snd p); lia | constructor].
Qed.

(* ---------- the codec ---------- *)
Theorem roundtrip p : valid_peer p = true -> deserialize (serialize p) = Some p.
Proof.
  intros Hv. unfold deserialize. rewrite (split_serialize p Hv).
  rewrite rev_app_distr. cbn [rev app].
  pose proof (split_nonempty (i_ip (fst p))) as Hne.
  destruct (rev (split_colon (i_ip (fst p)))) as [|r rs] eqn:Hr.
  { apply (f_equal (@rev str)) in Hr. rewrite rev_involutive in Hr. cbn in Hr. congruence. }
  rewrite <- Hr, rev_involutive, join_split.
  unfold valid_peer, valid_ident in Hv. rewrite !andb_true_iff in Hv.
  destruct Hv as [[[Hl Hid] _] Hport]. apply Nat.eqb_eq in Hl.
  rewrite (new_peer_id_hex _ Hid Hl), (atoi_dec_Z _ Hport).
  destruct p as [[id ip port] c]. cbn [fst snd i_id i_ip i_port]. f_equal. f_equal.
  destruct c; reflexivity.
Qed.

Theorem serialize_inj p q :
  valid_peer p = true -> valid_peer q = true -> serialize p = serialize q -> p = q.
Proof.
  intros Hp Hq H. pose proof (roundtrip p Hp) as E. rewrite H, (roundtrip q Hq) in E. congruence.
Qed.

(* every entry the pinned decoder could read is read identically by the repaired one *)
Theorem backcompat s r : deserialize_old s = Some r -> deserialize s = Some r.
Proof.
  unfold deserialize_old, deserialize.
  destruct (split_colon s) as [|pid [|ip [|port [|bit [|x l]]]]]; try discriminate.
  cbn [rev app join_colon]. intros H. exact H.
Qed.

Lemma deserialize_old_len s : length (split_colon s) <> 4 -> deserialize_old s = None.
Proof.
  unfold deserialize_old.
  destruct (split_colon s) as [|pid [|ip [|port [|bit [|x l]]]]]; cbn [length]; intros H;
    try reflexivity. congruence.
Qed.

(* the pinned decoder round-trips exactly the addresses without ':' *)
Theorem old_roundtrip_nocolon p :
  valid_peer p = true -> nocolon (i_ip (fst p)) -> deserialize_old (serialize p) = Some p.
Proof.
  intros Hv Hnc. unfold deserialize_old. rewrite (split_serialize p Hv), (split_nocolon _ Hnc).
  cbn [app].
  unfold valid_peer, valid_ident in Hv. rewrite !andb_true_iff in Hv.
  destruct Hv as [[[Hl Hid] _] Hport]. apply Nat.eqb_eq in Hl.
  rewrite (new_peer_id_hex _ Hid Hl), (atoi_dec_Z _ Hport).
  destruct p as [[id ip port] c]. cbn [fst snd i_id i_ip i_port]. f_equal. f_equal.
  destruct c; reflexivity.
Qed.

Theorem old_roundtrip_notin p :
  valid_peer p = true -> ~ In 58%N (i_ip (fst p)) -> deserialize_old (serialize p) = Some p.
Proof.
  intros Hv Hn. apply old_roundtrip_nocolon; [exact Hv|]. unfold nocolon. apply Forall_forall.
  intros x Hx ->. contradiction.
Qed.

Theorem old_drops_colon p :
  valid_peer p = true -> In 58%N (i_ip (fst p)) -> deserialize_old (serialize p) = None.
Proof.
  intros Hv Hin. apply deserialize_old_len. rewrite (split_serialize p Hv).
  apply in_split in Hin. destruct Hin as (a & b & ->).
  rewrite split_app. cbn [length]. rewrite !app_length. cbn [length].
  pose proof (split_nonempty a). pose proof (split_nonempty b).
  destruct (split_colon a); [congruence|]. destruct (split_colon b); [congruence|].
  cbn [length]. lia.
Qed.

(* ---------- key names ---------- *)
Theorem key_string_inj h w h' w' :
  forallb byte_ok h = true -> forallb byte_ok h' = true ->
  key_string h w = key_string h' w' -> h = h' /\ w = w'.
Proof.
  intros Hh Hh' H. unfold key_string in H. apply app_inv_head in H.
  apply (f_equal split_colon) in H. rewrite !split_app in H.
  rewrite (split_nocolon _ (hex_nocolon _ Hh)), (split_nocolon _ (hex_nocolon _ Hh')) in H.
  rewrite !(split_nocolon _ (dec_Z_nocolon _)) in H. cbn [app] in H.
  inversion H as [[H1 H2]]. split; [apply hex_inj; assumption | apply dec_Z_inj; assumption].
Qed.

(* decode_all keeps exactly the decodable members *)
Lemma decode_all_In ss p : In p (decode_all ss) <-> exists s, In s ss /\ deserialize s = Some p.
Proof.
  induction ss as [|s ss IH]; cbn [decode_all].
  - split; [intros [] | intros [s [[] _]]].
  - destruct (deserialize s) as [q|] eqn:Hd.
    + cbn [In]. rewrite IH. split.
      * intros [->|[s' [Hi Hs']]]; [exists s; split; [left; reflexivity|exact Hd] | exists s'; split; [right; exact Hi|exact Hs']].
      * intros [s' [[->|Hi] Hs']]; [left; congruence | right; exists s'; split; assumption].
    + rewrite IH. split.
      * intros [s' [Hi Hs']]. exists s'. split; [right; exact Hi|exact Hs'].
      * intros [s' [[->|Hi] Hs']]; [congruence | exists s'; split; assumption].
Qed.

Lemma decode_all_length ss : length (decode_all ss) <= length ss.
Proof.
  induction ss as [|s ss IH]; cbn [decode_all length]; [lia|].
  destruct (deserialize s); cbn [length]; lia.
Qed.
