(* C38: the _layers and blobs patterns on built paths; ParsePath's earlier matchers reject them. *)
From Coq Require Import List NArith Arith Bool Lia.
From K.Gen Require Import C38_consts.
From K.Model Require Import C38.
From K.Proof Require Import C38_engine C38_segs C38_tac.
Import ListNotations.
Local Open Scope N_scope.

Ltac none_scan := apply exec_none;
  let t1 := fresh "t1" in let t2 := fresh "t2" in let c' := fresh "c'" in
  let Hp := fresh "Hp" in let HD := fresh "HD" in
  intros t1 t2 c' Hp HD; dD HD; subst; facts; to_segs Hp; cbn [app] in Hp;
  (eapply kw_scan_root in Hp; [|reflexivity|assumption]); scan_suffix Hp; finish2.

Definition lnk (d : bool) := if d then s_data else s_link.
Lemma build_layer d r h : build (KLayer d r h) = repo_dir r ++ (sls s_layers ++ s_sha256 ++ [SL]) ++ h ++ [SL] ++ lnk d ++ [].
Proof. cbn [build]. unfold sls, sl, lnk. repeat (progress (rewrite <- ?app_assoc; cbn [app])). rewrite ?app_nil_r. destruct d; reflexivity. Qed.

Lemma layer_digest d r h : repo_ok r = true -> valid_hex h = true ->
  exec ast_get_layer_digest (build (KLayer d r h)) = Some [h].
Proof.
  intros Hr Hh. by_unique.
  - rewrite build_layer. unf_ast_goal. dI'; auto using repo_dir_nonnil, repo_dir_nonl, valid_hex_nonnil, valid_hex_cls.
    destruct d; [apply D_alt_r|apply D_alt_l]; apply D_lit. reflexivity.
  - destruct d; uniq.
Qed.
Lemma ml_layer d r h : repo_ok r = true -> valid_hex h = true ->
  exec ast_match_layers (build (KLayer d r h)) = Some [lnk d].
Proof.
  intros Hr Hh. by_unique.
  - rewrite build_layer. unf_ast_goal. dI'; auto using repo_dir_nonnil, repo_dir_nonl, valid_hex_nonnil, valid_hex_cls.
    destruct d; [apply D_alt_r|apply D_alt_l]; apply D_lit. reflexivity.
  - destruct d; uniq.
Qed.
Lemma mm_layer d r h : repo_ok r = true -> valid_hex h = true -> exec ast_match_manifests (build (KLayer d r h)) = None.
Proof. intros Hr Hh. destruct d; none_scan. Qed.
Lemma mu_layer d r h : repo_ok r = true -> valid_hex h = true -> exec ast_match_uploads (build (KLayer d r h)) = None.
Proof. intros Hr Hh. destruct d; none_scan. Qed.

(* ---- blobs ---- *)
Lemma build_blob h : build (KBlob h) = v2_root ++ (sls s_blobs ++ s_sha256 ++ [SL]) ++ firstn 2 h ++ [SL] ++ h ++ sl s_data ++ [].
Proof. cbn [build]. unfold sls, sl. repeat (progress (rewrite <- ?app_assoc; cbn [app])). rewrite ?app_nil_r. reflexivity. Qed.

Lemma blob_digest h : valid_hex h = true -> exec ast_get_blob_digest (build (KBlob h)) = Some [h].
Proof.
  intros Hh. by_unique.
  - rewrite build_blob. unf_ast_goal.
    dI'; auto using valid_hex_nonnil, valid_hex_cls, firstn2_len, valid_hex_len, forallb_firstn; try discriminate.
  - uniq.
Qed.
Lemma mb_blob h : valid_hex h = true -> exec ast_match_blobs (build (KBlob h)) <> None.
Proof.
  intros Hh. rewrite build_blob. rewrite <- (app_nil_r (v2_root ++ _)). eapply exec_complete. unf_ast_goal.
  dI'; auto using valid_hex_nonnil, valid_hex_cls, firstn2_len, valid_hex_len, forallb_firstn; try discriminate.
Qed.
Ltac none_front := apply exec_none;
  let t1 := fresh "t1" in let t2 := fresh "t2" in let c' := fresh "c'" in
  let Hp := fresh "Hp" in let HD := fresh "HD" in
  intros t1 t2 c' Hp HD; dD HD; subst; facts; to_segs Hp; cbn [app] in Hp; scan_front Hp; finish2.
Lemma mm_blob h : valid_hex h = true -> exec ast_match_manifests (build (KBlob h)) = None.
Proof. intros Hh. none_front. Qed.
Lemma mu_blob h : valid_hex h = true -> exec ast_match_uploads (build (KBlob h)) = None.
Proof. intros Hh. none_front. Qed.
Lemma ml_blob h : valid_hex h = true -> exec ast_match_layers (build (KBlob h)) = None.
Proof. intros Hh. none_front. Qed.
