(* C28, part 3: the store on the modelled Redis server, over all histories. *)
From Coq Require Import List NArith ZArith Bool Lia.
From K.Model Require Import C28.
From K.Proof Require Export C28_codec C28_store.
Import ListNotations.
Local Open Scope Z_scope.

(* ---------- the Redis primitives ---------- *)
Lemma key_eqb_eq a b : key_eqb a b = true <-> a = b.
Proof.
  unfold key_eqb. destruct a as [h w], b as [h' w']. cbn [fst snd].
  rewrite andb_true_iff, str_eqb_eq, Z.eqb_eq. split; [intros [-> ->]; reflexivity | intros H; inversion H; auto].
Qed.
Lemma key_eqb_refl a : key_eqb a a = true.
Proof. apply key_eqb_eq. reflexivity. Qed.
Lemma key_eqb_false a b : key_eqb a b = false -> a <> b.
Proof. intros E H. subst b. rewrite key_eqb_refl in E. discriminate. Qed.
Lemma key_eqb_neq a b : a <> b -> key_eqb a b = false.
Proof. intros H. destruct (key_eqb a b) eqn:E; [apply key_eqb_eq in E; contradiction | reflexivity]. Qed.

Definition addm (x : str) (ms : list str) : list str := if mem_str x ms then ms else ms ++ [x].

Lemma In_addm x ms y : In y (addm x ms) <-> In y ms \/ y = x.
Proof.
  unfold addm. destruct (mem_str x ms) eqn:E.
  - apply mem_str_In in E. split; [auto | intros [H| ->]; assumption].
  - rewrite in_app_iff. cbn [In]. split; [intros [H|[H|[]]]; auto | intros [H|H]; auto].
Qed.
Lemma NoDup_addm x ms : NoDup ms -> NoDup (addm x ms).
Proof.
  intros H. unfold addm. destruct (mem_str x ms) eqn:E; [exact H|].
  assert (Hn : ~ In x ms) by (rewrite <- mem_str_In; congruence).
  clear E. induction ms as [|m ms IH]; cbn [app].
  - constructor; [intros []|constructor].
  - inversion H as [|? ? Hm Hms]; subst. constructor.
    + rewrite in_app_iff. cbn [In]. intros [Hi|[Hi|[]]]; [contradiction|]. subst. apply Hn. left. reflexivity.
    + apply IH; [exact Hms|]. intros Hi. apply Hn. right. exact Hi.
Qed.

Lemma sadd_same k x d :
  sadd k x d k = Some (mkent (addm x (members d k)) (match d k with Some e => e_exp e | None => None end)).
Proof.
  unfold sadd, members, addm. rewrite key_eqb_refl. destruct (d k) as [e|]; reflexivity.
Qed.
Lemma sadd_other k x d k' : k' <> k -> sadd k x d k' = d k'.
Proof. intros H. unfold sadd. rewrite (key_eqb_neq _ _ H). reflexivity. Qed.
Lemma expireat_same k ts d :
  expireat k ts d k = match d k with Some e => Some (mkent (e_members e) (Some ts)) | None => None end.
Proof. unfold expireat. rewrite key_eqb_refl. reflexivity. Qed.
Lemma expireat_other k ts d k' : k' <> k -> expireat k ts d k' = d k'.
Proof. intros H. unfold expireat. rewrite (key_eqb_neq _ _ H). reflexivity. Qed.
Lemma expireat_members k ts d k' : members (expireat k ts d) k' = members d k'.
Proof.
  unfold members. destruct (key_eqb k' k) eqn:E.
  - apply key_eqb_eq in E. subst k'. rewrite expireat_same. destruct (d k); reflexivity.
  - unfold expireat. rewrite E. reflexivity.
Qed.

(* ---------- the invariant: live keys hold exactly what was written to them ---------- *)
Definition wlist := list (key * str).

Record InvD (c : cfg) (t : Z) (d : rdb) (L : wlist) : Prop := {
  inv_mem : forall h w, live c t w -> forall x, In x (members d (h, w)) <-> In ((h, w), x) L;
  inv_nodup : forall k, NoDup (members d k);
  inv_exp : forall k e, d k = Some e -> e_exp e = None \/ e_exp e = Some (expire_at c (snd k))
}.

Lemma purge_sub t d k e : purge t d k = Some e -> d k = Some e.
Proof. unfold purge. destruct (d k) as [e'|]; [|discriminate]. destruct (live_entry t e'); congruence. Qed.

Lemma purge_live c t d L h w : InvD c t d L -> live c t w -> purge t d (h, w) = d (h, w).
Proof.
  intros HI Hl. unfold purge. destruct (d (h, w)) as [e|] eqn:E; [|reflexivity].
  destruct (inv_exp _ _ _ _ HI _ _ E) as [Hx|Hx]; unfold live_entry; rewrite Hx; [reflexivity|].
  cbn [snd]. unfold live in Hl. apply Z.ltb_lt in Hl. rewrite Hl. reflexivity.
Qed.

Lemma purge_members_sub t d k x : In x (members (purge t d) k) -> In x (members d k).
Proof.
  unfold members. destruct (purge t d k) as [e|] eqn:E; [|intros []].
  rewrite (purge_sub _ _ _ _ E). auto.
Qed.

Lemma purge_inv c t d L : InvD c t d L -> InvD c t (purge t d) L.
Proof.
  intros HI. constructor.
  - intros h w Hl x. unfold members. rewrite (purge_live _ _ _ _ _ _ HI Hl). apply (inv_mem _ _ _ _ HI h w Hl).
  - intros k. unfold members. destruct (purge t d k) as [e|] eqn:E; [|constructor].
    pose proof (inv_nodup _ _ _ _ HI k) as Hn. unfold members in Hn. rewrite (purge_sub _ _ _ _ E) in Hn. exact Hn.
  - intros k e E. apply (inv_exp _ _ _ _ HI). apply (purge_sub _ _ _ _ E).
Qed.

Lemma later_inv c t t' d L : t <= t' -> InvD c t d L -> InvD c t' d L.
Proof.
  intros Ht HI. constructor.
  - intros h w Hl. apply (inv_mem _ _ _ _ HI). unfold live in *. lia.
  - apply (inv_nodup _ _ _ _ HI).
  - apply (inv_exp _ _ _ _ HI).
Qed.

Lemma sadd_inv c t d L k x : InvD c t d L -> InvD c t (sadd k x d) (L ++ [(k, x)]).
Proof.
  intros HI. constructor.
  - intros h w Hl y. rewrite in_app_iff. cbn [In].
    destruct (key_eqb (h, w) k) eqn:E.
    + apply key_eqb_eq in E. subst k. unfold members at 1. rewrite sadd_same. cbn [e_members].
      rewrite In_addm, (inv_mem _ _ _ _ HI h w Hl). split.
      * intros [H| ->]; [left; exact H | right; left; reflexivity].
      * intros [H|[H|[]]]; [left; exact H | right; congruence].
    + assert (Hne : (h, w) <> k) by (apply key_eqb_false; exact E).
      unfold members at 1. rewrite (sadd_other _ _ _ _ Hne). fold (members d (h, w)).
      rewrite (inv_mem _ _ _ _ HI h w Hl). split; [auto|]. intros [H|[H|[]]]; [exact H | congruence].
  - intros k'. destruct (key_eqb k' k) eqn:E.
    + apply key_eqb_eq in E. subst k'. unfold members. rewrite sadd_same. cbn [e_members].
      apply NoDup_addm. apply (inv_nodup _ _ _ _ HI).
    + assert (Hne : k' <> k) by (apply key_eqb_false; exact E).
      unfold members. rewrite (sadd_other _ _ _ _ Hne). apply (inv_nodup _ _ _ _ HI).
  - intros k' e He. destruct (key_eqb k' k) eqn:E.
    + apply key_eqb_eq in E. subst k'. rewrite sadd_same in He. inversion He; subst e. cbn [e_exp].
      destruct (d k) as [e0|] eqn:E0; [apply (inv_exp _ _ _ _ HI _ _ E0) | left; reflexivity].
    + assert (Hne : k' <> k) by (apply key_eqb_false; exact E).
      rewrite (sadd_other _ _ _ _ Hne) in He. apply (inv_exp _ _ _ _ HI _ _ He).
Qed.

Lemma expireat_inv c t d L k : InvD c t d L -> InvD c t (expireat k (expire_at c (snd k)) d) L.
Proof.
  intros HI. constructor.
  - intros h w Hl x. rewrite expireat_members. apply (inv_mem _ _ _ _ HI h w Hl).
  - intros k'. rewrite expireat_members. apply (inv_nodup _ _ _ _ HI).
  - intros k' e He. destruct (key_eqb k' k) eqn:E.
    + apply key_eqb_eq in E. subst k'. rewrite expireat_same in He.
      destruct (d k); inversion He; subst e. right. reflexivity.
    + assert (Hne : k' <> k) by (apply key_eqb_false; exact E).
      rewrite (expireat_other _ _ _ _ Hne) in He. apply (inv_exp _ _ _ _ HI _ _ He).
Qed.

(* ---------- events of a history ---------- *)
Inductive ev := EA (t : Z) (h : list N) (p : peer) | EI (h : list N) (w : Z) (x : str).

Definition ev_write (c : cfg) (e : ev) : key * str :=
  match e with
  | EA t h p => ((h, curw c t), serialize p)
  | EI h w x => ((h, w), x)
  end.
Definition writes_of (c : cfg) (evs : list ev) : wlist := map (ev_write c) evs.
Fixpoint anns_of (evs : list ev) : list ann :=
  match evs with
  | [] => []
  | EA t h p :: r => mkann t h p :: anns_of r
  | EI _ _ _ :: r => anns_of r
  end.
Fixpoint ninj_of (evs : list ev) : nat :=
  match evs with
  | [] => O
  | EA _ _ _ :: r => ninj_of r
  | EI _ _ _ :: r => S (ninj_of r)
  end.
Definition ev_valid (e : ev) : Prop := match e with EA _ _ p => valid_peer p = true | EI _ _ _ => True end.

Definition ev_of_op (t : Z) (o : op) : list ev :=
  match o with
  | Upd h p => [EA t h p]
  | Inj h w x => [EI h w x]
  | _ => []
  end.

Lemma anns_of_app a b : anns_of (a ++ b) = anns_of a ++ anns_of b.
Proof. induction a as [|[t h p|h w x] a IH]; cbn [app anns_of]; [reflexivity| |]; rewrite IH; reflexivity. Qed.
Lemma ninj_of_app a b : ninj_of (a ++ b) = (ninj_of a + ninj_of b)%nat.
Proof. induction a as [|[t h p|h w x] a IH]; cbn [app ninj_of]; [reflexivity| |]; rewrite IH; reflexivity. Qed.

Definition Inv (c : cfg) (s : st) (evs : list ev) : Prop :=
  InvD c (now s) (dbs s) (writes_of c evs) /\ Forall ev_valid evs.

Lemma init_inv c t0 : Inv c (init_at t0) [].
Proof.
  split; [|constructor]. constructor.
  - intros h w _ x. cbn. tauto.
  - intros k. cbn. constructor.
  - intros k e H. cbn in H. discriminate.
Qed.

Lemma step_inv c s o evs :
  cfg_ok c = true -> valid_op o = true -> Inv c s evs ->
  Inv c (fst (step c s o)) (evs ++ ev_of_op (now s) o).
Proof.
  intros Hc Hv [HI HF]. destruct o as [dt|h p|h w x|h n res]; cbn [step fst ev_of_op].
  - rewrite app_nil_r. split; [|exact HF]. cbn [now dbs].
    apply (later_inv c (now s)); [lia | exact HI].
  - split.
    + cbn [now dbs]. unfold writes_of. rewrite map_app. cbn [map ev_write].
      apply (expireat_inv c (now s) _ _ (h, curw c (now s))).
      apply sadd_inv. unfold view. apply purge_inv. exact HI.
    + apply Forall_app. split; [exact HF|]. constructor; [|constructor].
      cbn [valid_op] in Hv. apply andb_true_iff in Hv. apply Hv.
  - split.
    + cbn [now dbs]. unfold writes_of. rewrite map_app. cbn [map ev_write].
      apply sadd_inv. unfold view. apply purge_inv. exact HI.
    + apply Forall_app. split; [exact HF|]. constructor; [exact I|constructor].
  - rewrite app_nil_r.
    destruct (Z.of_nat (length (visible_members c (view s) h (now s))) <=? n); cbn [fst]; split; assumption.
Qed.

Lemma step_now c s o :
  now (fst (step c s o)) = match o with Adv dt => now s + Z.of_N dt | _ => now s end.
Proof.
  destruct o as [dt|h p|h w x|h n res]; cbn [step fst now]; try reflexivity.
  destruct (Z.of_nat (length (visible_members c (view s) h (now s))) <=? n); reflexivity.
Qed.

(* events / clock of a whole history *)
Fixpoint hist_evs (t : Z) (ops : list op) : list ev :=
  match ops with
  | [] => []
  | o :: r => ev_of_op t o ++ hist_evs (match o with Adv dt => t + Z.of_N dt | _ => t end) r
  end.

Lemma hist_anns_evs t ops : anns_of (hist_evs t ops) = hist_anns t ops.
Proof.
  revert t. induction ops as [|o r IH]; intros t; [reflexivity|].
  cbn [hist_evs hist_anns]. rewrite anns_of_app.
  destruct o as [dt|h p|h w x|h n res]; cbn [ev_of_op anns_of app]; rewrite IH; reflexivity.
Qed.

Lemma no_inj_evs t ops : no_inj ops = true -> ninj_of (hist_evs t ops) = O.
Proof.
  revert t. induction ops as [|o r IH]; intros t H; [reflexivity|].
  unfold no_inj in H. cbn [forallb] in H. apply andb_true_iff in H. destruct H as [H1 H2].
  cbn [hist_evs]. rewrite ninj_of_app, (IH _ H2).
  destruct o; cbn [ev_of_op ninj_of]; try reflexivity. discriminate.
Qed.

Lemma run_inv c : cfg_ok c = true -> forall ops s evs,
  forallb valid_op ops = true -> Inv c s evs ->
  Inv c (fst (run c s ops)) (evs ++ hist_evs (now s) ops) /\
  now (fst (run c s ops)) = end_time (now s) ops.
Proof.
  intros Hc. induction ops as [|o r IH]; intros s evs Hv HI.
  - cbn [run fst hist_evs end_time]. rewrite app_nil_r. split; [exact HI|reflexivity].
  - cbn [forallb] in Hv. apply andb_true_iff in Hv. destruct Hv as [Hv1 Hv2].
    pose proof (step_inv c s o evs Hc Hv1 HI) as HS. pose proof (step_now c s o) as HN.
    cbn [run]. destruct (step c s o) as [s1 r1]. cbn [fst] in HS, HN.
    destruct (IH s1 _ Hv2 HS) as [HR HT]. destruct (run c s1 r) as [s2 rs]. cbn [fst] in *.
    cbn [hist_evs end_time]. rewrite app_assoc. rewrite HN in HR, HT.
    split; [exact HR|]. rewrite HT. destruct o; reflexivity.
Qed.

(* ---------- what a reader finds ---------- *)
Section Reader.
  Variable c : cfg.
  Hypothesis Hc : cfg_ok c = true.
  Variable s : st.
  Variable evs : list ev.
  Hypothesis HI : Inv c s evs.
  Variable h : list N.

  Let ms := visible_members c (view s) h (now s).
  Let spec := vis_anns c (anns_of evs) h (now s).

  Lemma HW : 1 <= W c.
  Proof. apply (cfg_ok_spec c Hc). Qed.

  Lemma ms_In x : In x ms <-> exists w, In w (windows c (now s)) /\ In ((h, w), x) (writes_of c evs).
  Proof.
    unfold ms, visible_members. rewrite in_flat_map. destruct HI as [HD _].
    split; intros [w [Hw Hx]]; exists w; (split; [exact Hw|]).
    - apply (inv_mem _ _ _ _ (purge_inv _ _ _ _ HD) h w (windows_live c _ _ Hc Hw)). exact Hx.
    - apply (inv_mem _ _ _ _ (purge_inv _ _ _ _ HD) h w (windows_live c _ _ Hc Hw)). exact Hx.
  Qed.

  Lemma spec_In p : In p spec <-> exists t0, In (mkann t0 h p) (anns_of evs) /\ visible c t0 (now s) = true.
  Proof.
    unfold spec, vis_anns. rewrite in_map_iff. split.
    - intros [[t0 h' p'] [He Hf]]. cbn [a_peer] in He. subst p'. apply filter_In in Hf.
      destruct Hf as [Hin Hb]. cbn [a_hash a_time] in Hb. apply andb_true_iff in Hb. destruct Hb as [Hh Hvis].
      apply str_eqb_eq in Hh. subst h'. exists t0. split; assumption.
    - intros [t0 [Hin Hvis]]. exists (mkann t0 h p). split; [reflexivity|]. apply filter_In.
      split; [exact Hin|]. cbn [a_hash a_time]. rewrite str_eqb_refl, Hvis. reflexivity.
  Qed.

  Lemma anns_of_In t0 h' p : In (mkann t0 h' p) (anns_of evs) <-> In (EA t0 h' p) evs.
  Proof.
    clear HI ms spec. induction evs as [|[t1 h1 p1|h1 w1 x1] r IH]; cbn [anns_of In].
    - tauto.
    - rewrite IH. split; (intros [H|H]; [left; inversion H; reflexivity | right; exact H]).
    - rewrite IH. split; [intros H; right; exact H | intros [H|H]; [discriminate | exact H]].
  Qed.

  (* F3: every announcement still within reach is found and decoded *)
  Lemma spec_found p : In p spec -> In p (decode_all ms).
  Proof.
    intros Hp. apply spec_In in Hp. destruct Hp as [t0 [Hin Hvis]]. apply anns_of_In in Hin.
    apply decode_all_In. exists (serialize p). split.
    - apply ms_In. exists (curw c t0). split; [apply visible_iff; [apply HW | exact Hvis]|].
      unfold writes_of. apply in_map_iff. exists (EA t0 h p). split; [reflexivity | exact Hin].
    - apply roundtrip. destruct HI as [_ HF]. rewrite Forall_forall in HF. apply (HF _ Hin).
  Qed.

  (* F2: when nobody else writes, nothing else is found *)
  Lemma found_spec p : ninj_of evs = O -> In p (decode_all ms) -> In p spec.
  Proof.
    intros Hn Hp. apply decode_all_In in Hp. destruct Hp as [x [Hx Hd]].
    apply ms_In in Hx. destruct Hx as [w [Hw Hin]]. unfold writes_of in Hin. apply in_map_iff in Hin.
    destruct Hin as [e [He Hin]]. destruct e as [t0 h' p'|h' w' x'].
    - cbn [ev_write] in He. inversion He; subst h' w x.
      destruct HI as [_ HF]. rewrite Forall_forall in HF. pose proof (HF _ Hin) as Hval. cbn [ev_valid] in Hval.
      rewrite (roundtrip _ Hval) in Hd. inversion Hd; subst p'.
      apply spec_In. exists t0. split; [apply anns_of_In; exact Hin|].
      apply visible_iff; [apply HW | exact Hw].
    - exfalso. clear - Hn Hin. induction evs as [|[t1 h1 p1|h1 w1 x1] r IH]; cbn [ninj_of In] in *.
      + exact Hin.
      + destruct Hin as [H|H]; [discriminate | auto].
      + discriminate.
  Qed.

  (* F1: a reader sees at most one member per write that went to a visible window *)
  Definition ev_match (e : ev) : bool :=
    let '((h', w'), _) := ev_write c e in str_eqb h' h && existsb (Z.eqb w') (windows c (now s)).

  Lemma flat_map_length {A B C} (f : A -> list B) (g : A -> list C) l :
    (forall a, length (f a) = length (g a)) -> length (flat_map f l) = length (flat_map g l).
  Proof.
    intros H. induction l as [|a l IH]; cbn [flat_map]; [reflexivity|]. rewrite !app_length, H, IH. reflexivity.
  Qed.

  Lemma NoDup_app_intro {A} (a b : list A) :
    NoDup a -> NoDup b -> (forall x, In x a -> ~ In x b) -> NoDup (a ++ b).
  Proof.
    intros Ha Hb Hd. induction a as [|x a IH]; cbn [app]; [exact Hb|].
    inversion Ha as [|? ? Hx Ha']; subst. constructor.
    - rewrite in_app_iff. intros [H|H]; [contradiction|]. apply (Hd x); [left; reflexivity | exact H].
    - apply IH; [exact Ha'|]. intros y Hy. apply Hd. right. exact Hy.
  Qed.

  Let tagged := flat_map (fun w => map (fun x => ((h, w), x)) (members (view s) (h, w))) (windows c (now s)).

  Lemma tagged_length : length tagged = length ms.
  Proof.
    unfold tagged, ms, visible_members. apply flat_map_length. intros w. apply map_length.
  Qed.

  Lemma tagged_NoDup : NoDup tagged.
  Proof.
    unfold tagged. pose proof (windows_NoDup c (now s) HW) as Hnd.
    induction (windows c (now s)) as [|w ws IH]; cbn [flat_map]; [constructor|].
    inversion Hnd as [|? ? Hw Hws]; subst. apply NoDup_app_intro.
    - destruct HI as [HD _]. pose proof (inv_nodup _ _ _ _ (purge_inv _ _ _ _ HD) (h, w)) as Hn.
      unfold view. induction Hn as [|x l Hx Hl IHl]; cbn [map]; [constructor|].
      constructor; [|exact IHl]. intros Hin. apply in_map_iff in Hin. destruct Hin as [y [He Hy]].
      inversion He; subst. contradiction.
    - apply IH. exact Hws.
    - intros [[h' w'] x] H1 H2. apply in_map_iff in H1. destruct H1 as [y [He _]]. inversion He; subst.
      apply in_flat_map in H2. destruct H2 as [w2 [Hw2 Hin2]]. apply in_map_iff in Hin2.
      destruct Hin2 as [y2 [He2 _]]. inversion He2; subst. contradiction.
  Qed.

  Lemma tagged_incl : incl tagged (map (ev_write c) (filter ev_match evs)).
  Proof.
    intros [[h' w] x] Hin. unfold tagged in Hin. apply in_flat_map in Hin. destruct Hin as [w0 [Hw Hin]].
    apply in_map_iff in Hin. destruct Hin as [y [He Hy]]. inversion He; subst h' w0 y.
    assert (Hm : In x ms). { unfold ms, visible_members. apply in_flat_map. exists w. split; assumption. }
    destruct HI as [HD _].
    apply (inv_mem _ _ _ _ (purge_inv _ _ _ _ HD) h w (windows_live c _ _ Hc Hw)) in Hy.
    unfold writes_of in Hy. apply in_map_iff in Hy. destruct Hy as [e [He' Hin]].
    apply in_map_iff. exists e. split; [exact He'|]. apply filter_In. split; [exact Hin|].
    unfold ev_match. rewrite He'. rewrite str_eqb_refl. cbn [andb]. apply existsb_exists.
    exists w. split; [exact Hw | apply Z.eqb_refl].
  Qed.

  Lemma match_count : (length (filter ev_match evs) <= length spec + ninj_of evs)%nat.
  Proof.
    unfold spec, vis_anns. rewrite map_length. clear HI ms spec tagged.
    induction evs as [|[t0 h' p|h' w x] r IH]; cbn [filter anns_of ninj_of length]; [lia| |].
    - unfold ev_match at 1. cbn [ev_write a_hash a_time]. rewrite (visible_existsb c t0 (now s) HW).
      destruct (str_eqb h' h && visible c t0 (now s)); cbn [length]; lia.
    - destruct (ev_match (EI h' w x)); cbn [length]; lia.
  Qed.

  Lemma ms_count : (length ms <= length spec + ninj_of evs)%nat.
  Proof.
    rewrite <- tagged_length.
    pose proof (NoDup_incl_length tagged_NoDup tagged_incl) as H. rewrite map_length in H.
    pose proof match_count. lia.
  Qed.

  (* the answer to one GetPeers, as the model computes it, passes the specification check *)
  Lemma get_sound n res :
    let out := snd (step c s (Get h n res)) in
    match out with
    | OGet ok ps => ok = true -> check_get c (anns_of evs) (ninj_of evs) (now s) h n ps = true
    | _ => False
    end.
  Proof.
    cbn [step]. fold ms. unfold check_get. fold spec.
    pose proof ms_count as Hcount.
    destruct (Z.leb_spec (Z.of_nat (length ms)) n) as [Hfull|Hlim]; cbn [snd andb]; intros Hok.
    - (* the model answers with everything *)
      unfold get_full. fold ms.
      destruct (Z.leb_spec (Z.of_nat (length spec + ninj_of evs)) n) as [Hs|Hs].
      + destruct (ninj_of evs) eqn:Hn.
        * apply peers_seteq_intro; [apply collapse_nodup | apply collapse_nodup|].
          apply collapse_ext. intros p. split; [apply found_spec; exact Hn | apply spec_found].
        * rewrite collapse_nodup. cbn [andb]. unfold covers. apply forallb_forall. intros [i c0] Hp.
          apply collapse_spec in Hp. destruct Hp as [[c1 H1] H2].
          apply existsb_exists. exists (i, any_c (decode_all ms) i). split.
          -- apply (nodup_ident_In _ (collapse_nodup _)). unfold collapse.
             rewrite collapse_into_has_ident, collapse_into_any_c. cbn [has_ident any_c existsb orb].
             split; [|reflexivity]. apply has_ident_In. exists c1. apply spec_found. exact H1.
          -- cbn [fst snd]. rewrite ident_eqb_refl. cbn [andb]. destruct c0; [|reflexivity].
             cbn [implb]. apply any_c_In. apply spec_found. apply H2. reflexivity.
      + destruct (ninj_of evs) eqn:Hn; [|reflexivity].
        unfold legal_sample. rewrite collapse_nodup.
        assert (Hlen : Z.of_nat (length (collapse (decode_all ms))) <= Z.max n 0).
        { pose proof (collapse_length (decode_all ms)). pose proof (decode_all_length ms). lia. }
        apply Z.leb_le in Hlen. rewrite Hlen. cbn [andb]. apply forallb_forall. intros p Hp.
        apply has_peer_In. apply found_spec; [exact Hn|]. apply collapse_sub. exact Hp.
    - (* a sample: the model accepted what the oracle reports *)
      destruct (Z.leb_spec (Z.of_nat (length spec + ninj_of evs)) n) as [Hs|Hs]; [lia|].
      destruct (ninj_of evs) eqn:Hn; [|reflexivity].
      apply (legal_sample_mono n (decode_all ms)); [|exact Hok]. intros p. apply found_spec. exact Hn.
  Qed.

  (* the full read, in propositional form *)
  Lemma full_read_exact :
    ninj_of evs = O -> forall p, In p (get_full c s h) <-> In p (collapse spec).
  Proof.
    intros Hn. unfold get_full. fold ms. apply collapse_ext. intros p.
    split; [apply found_spec; exact Hn | apply spec_found].
  Qed.

  Lemma full_read_covers i c0 :
    In (i, c0) spec -> exists c1, In (i, c1) (get_full c s h) /\ (c0 = true -> c1 = true).
  Proof.
    intros Hp. unfold get_full. fold ms. exists (any_c (decode_all ms) i). split.
    - apply (nodup_ident_In _ (collapse_nodup _)). unfold collapse.
      rewrite collapse_into_has_ident, collapse_into_any_c. cbn [has_ident any_c existsb orb].
      split; [|reflexivity]. apply has_ident_In. exists c0. apply spec_found. exact Hp.
    - intros ->. apply any_c_In. apply spec_found. exact Hp.
  Qed.

  (* every possible run of the sampling loop over what a reader can see *)
  Lemma sample_read n orc res :
    ninj_of evs = O ->
    (forall ss, In ss orc -> incl ss ms) ->
    sample_run n [] orc = Some res -> legal_sample n spec res = true.
  Proof.
    intros Hn Ho Hr. apply (sample_sound n spec orc [] res); try assumption.
    - intros ss Hin p Hp. apply found_spec; [exact Hn|]. apply decode_all_In in Hp.
      destruct Hp as [x [Hx Hd]]. apply decode_all_In. exists x. split; [apply (Ho ss Hin); exact Hx | exact Hd].
    - reflexivity.
    - intros p [].
    - cbn. lia.
  Qed.
End Reader.

(* ---------- the oracle on the model's own trace ---------- *)
Lemma check_from_sound c : cfg_ok c = true -> forall ops s evs,
  forallb valid_op ops = true -> Inv c s evs -> oks (snd (run c s ops)) = true ->
  check_from c (now s) (anns_of evs) (ninj_of evs) ops (snd (run c s ops)) = true.
Proof.
  intros Hc. induction ops as [|o r IH]; intros s evs Hv HI Hoks; [reflexivity|].
  cbn [forallb] in Hv. apply andb_true_iff in Hv. destruct Hv as [Hv1 Hv2].
  pose proof (step_inv c s o evs Hc Hv1 HI) as HS. pose proof (step_now c s o) as HN.
  pose proof (fun res n h => get_sound c Hc s evs HI h n res) as HG.
  cbn [run] in Hoks |- *.
  destruct (step c s o) as [s1 r1] eqn:Hst. cbn [fst] in HS, HN.
  specialize (IH s1 _ Hv2 HS).
  destruct (run c s1 r) as [s2 rs]. cbn [snd] in *.
  unfold oks in Hoks. cbn [forallb] in Hoks. apply andb_true_iff in Hoks. destruct Hoks as [Hok1 Hoks].
  specialize (IH Hoks). rewrite HN in IH.
  destruct o as [dt|h p|h w x|h n res]; cbn [ev_of_op] in IH.
  - cbn [step] in Hst. inversion Hst; subst. rewrite app_nil_r in IH. cbn [check_from]. exact IH.
  - cbn [step] in Hst. inversion Hst; subst. rewrite anns_of_app, ninj_of_app in IH.
    cbn [anns_of ninj_of] in IH. rewrite Nat.add_0_r in IH. cbn [check_from]. exact IH.
  - cbn [step] in Hst. inversion Hst; subst. rewrite anns_of_app, ninj_of_app in IH.
    cbn [anns_of ninj_of] in IH. rewrite app_nil_r, Nat.add_1_r in IH. cbn [check_from]. exact IH.
  - specialize (HG res n h). cbn zeta in HG. rewrite Hst in HG. cbn [snd] in HG.
    rewrite app_nil_r in IH.
    destruct r1 as [ks|rows|ok ps]; try contradiction. cbn [check_from].
    rewrite Hok1, (HG Hok1), IH. reflexivity.
Qed.

Theorem check_sound c t0 ops :
  oks (snd (run c (init_at t0) ops)) = true ->
  C28_check c t0 ops (snd (run c (init_at t0) ops)) = true.
Proof.
  intros Hoks. unfold C28_check. destruct (wf c ops) eqn:Hwf; [|reflexivity].
  unfold wf in Hwf. apply andb_true_iff in Hwf. destruct Hwf as [Hc Hv].
  apply (check_from_sound c Hc ops (init_at t0) [] Hv (init_inv c t0) Hoks).
Qed.

(* ---------- the store over every history, propositional form ---------- *)
Section History.
  Variables (c : cfg) (t0 : Z) (ops : list op).
  Hypothesis Hwf : wf c ops = true.

  Let s := fst (run c (init_at t0) ops).

  Lemma hist_facts : cfg_ok c = true /\ Inv c s (hist_evs t0 ops) /\ now s = end_time t0 ops.
  Proof.
    unfold wf in Hwf. apply andb_true_iff in Hwf. destruct Hwf as [Hc Hv]. split; [exact Hc|].
    destruct (run_inv c Hc ops (init_at t0) [] Hv (init_inv c t0)) as [H1 H2]. split; assumption.
  Qed.

  (* nobody else writes: the reader gets exactly the announcements within reach, one entry
     per identity, complete iff one of them was complete *)
  Theorem store_roundtrip h :
    no_inj ops = true ->
    let spec := vis_anns c (hist_anns t0 ops) h (end_time t0 ops) in
    nodup_ident (get_full c s h) = true /\
    forall i cf, In (i, cf) (get_full c s h) <->
                 (exists c0, In (i, c0) spec) /\ (cf = true <-> In (i, true) spec).
  Proof.
    intros Hn spec. destruct hist_facts as (Hc & HI & Ht).
    split; [apply collapse_nodup|]. intros i cf.
    rewrite (full_read_exact c Hc s _ HI h (no_inj_evs t0 ops Hn)).
    rewrite hist_anns_evs, Ht. apply collapse_spec.
  Qed.

  (* whoever else writes into the sets: no announcement within reach is lost or downgraded *)
  Theorem store_never_loses h i c0 :
    In (i, c0) (vis_anns c (hist_anns t0 ops) h (end_time t0 ops)) ->
    nodup_ident (get_full c s h) = true /\
    exists c1, In (i, c1) (get_full c s h) /\ (c0 = true -> c1 = true).
  Proof.
    intros Hp. destruct hist_facts as (Hc & HI & Ht). split; [apply collapse_nodup|].
    apply (full_read_covers c Hc s _ HI h i c0). rewrite hist_anns_evs, Ht. exact Hp.
  Qed.

  (* any run of the sampling loop (any window order, any SRANDMEMBER answers drawn from the
     visible members, any n) *)
  Theorem store_sample h n orc res :
    no_inj ops = true ->
    (forall ss, In ss orc -> incl ss (visible_members c (view s) h (now s))) ->
    sample_run n [] orc = Some res ->
    legal_sample n (vis_anns c (hist_anns t0 ops) h (end_time t0 ops)) res = true.
  Proof.
    intros Hn Ho Hr. destruct hist_facts as (Hc & HI & Ht).
    pose proof (sample_read c Hc s _ HI h n orc res (no_inj_evs t0 ops Hn) Ho Hr) as H.
    rewrite hist_anns_evs, Ht in H. exact H.
  Qed.
End History.

(* what legal_sample says, in words *)
Lemma legal_sample_spec n entries res :
  legal_sample n entries res = true ->
  Z.of_nat (length res) <= Z.max n 0 /\ nodup_ident res = true /\ incl res entries.
Proof.
  unfold legal_sample. rewrite !andb_true_iff, Z.leb_le. intros [[H1 H2] H3].
  split; [exact H1|]. split; [exact H2|]. intros p Hp. rewrite forallb_forall in H3.
  apply has_peer_In. apply H3. exact Hp.
Qed.

(* ---------- the pinned commit ---------- *)
Definition w_id : list N := [1;8;15;22;29;36;43;50;57;64;71;78;85;92;99;106;113;120;127;134]%N.
Definition w_hash : list N := [3;14;25;36;47;58;69;80;91;102;113;124;135;146;157;168;179;190;201;212]%N.
Definition w_peer : peer := (mkid w_id [58;58;49]%N 16001, false).           (* "::1" *)
Definition w_cfg : cfg := mkcfg 30 4.
Definition w_ops : list op := [Upd w_hash w_peer].

Lemma old_decoder_ipv6_refuted :
  exists p, valid_peer p = true /\ deserialize_old (serialize p) = None.
Proof. exists w_peer. vm_compute. split; reflexivity. Qed.

Lemma old_store_loses_ipv6_refuted :
  exists c t0 ops h p,
    wf c ops = true /\ no_inj ops = true /\
    In p (vis_anns c (hist_anns t0 ops) h (end_time t0 ops)) /\
    get_full_old c (fst (run c (init_at t0) ops)) h = [].
Proof.
  exists w_cfg, 1700000000, w_ops, w_hash, w_peer. vm_compute.
  split; [reflexivity|]. split; [reflexivity|]. split; [left; reflexivity | reflexivity].
Qed.
