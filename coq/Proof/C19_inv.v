(* C19: the swarm invariant, its preservation by every label, safety and monotonicity. *)
From Coq Require Import List NArith Bool Arith Lia.
From K.Model Require Import C19.
From K.Proof Require Import C19_base.
Import ListNotations.

Section Inv.
Variable P : Type.
Variable plen : P -> N.
Variable sum : P -> N.
Variable g : cfg P.

Local Notation peer := (peer P).
Local Notation state := (state P).
Local Notation label := (label P).
Local Notation step := (step P plen sum g).
Local Notation n := (npieces P g).
Local Notation blob := (g_blob P g).

(* a payload for piece i that is the piece, or on which the checksum does not collide *)
Definition good (i : nat) (b : P) : Prop := nth_error blob i = Some b \/ cf P plen sum g b.

Record PInv (x : peer) : Prop := mkPInv {
  pi_data : forall i, is_complete (p_st P x i) = true -> i < n /\ p_dat P x i = nth_error blob i;
  pi_comm : p_committed P x = true -> forall i, i < n -> is_complete (p_st P x i) = true;
  pi_wr : forall w, In w (p_wr P x) -> good (w_piece P w) (w_data P w) /\ len_ok P plen g (w_piece P w) (w_data P w) = true;
  pi_dirty : forall w, In w (p_wr P x) -> is_dirty (p_st P x (w_piece P w)) = true;
  pi_nodup : NoDup (map (w_piece P) (p_wr P x));
  pi_owner : p_up P x = true -> forall i, is_dirty (p_st P x i) = true -> exists w, In w (p_wr P x) /\ w_piece P w = i;
  pi_cap : length (p_conns P x) <= g_maxconn P g }.

Definition MInv (s : state) : Prop := forall p a i b, In (MPay p a i b) (msgs P s) -> good i b.
Definition Inv (s : state) : Prop := (forall x, PInv (peers P s x)) /\ MInv s.

Lemma len_ok_lt : forall i b, len_ok P plen g i b = true -> i < n.
Proof.
  intros i b H. unfold len_ok in H. destruct (nth_error blob i) eqn:E; [|discriminate].
  apply nth_error_Some. congruence.
Qed.

Lemma PInv_set_reqs : forall x v, PInv x -> PInv (set_reqs P x v).
Proof. intros x v [A B C D E F G]. constructor; cbn; auto. Qed.

Lemma PInv_set_conns : forall x v, length v <= g_maxconn P g -> PInv x -> PInv (set_conns P x v).
Proof. intros x v Hv [A B C D E F G]. constructor; cbn; auto. Qed.

Lemma PInv_depart : forall x, PInv x -> PInv (set_up P x false).
Proof. intros x [A B C D E F G]. constructor; cbn; auto. discriminate. Qed.

Lemma all_complete_spec : forall st, all_complete P g st = true -> forall i, i < n -> is_complete (st i) = true.
Proof.
  intros st H i Hi. unfold all_complete in H. rewrite forallb_forall in H. apply H. apply in_seq. lia.
Qed.

Lemma PInv_join : forall y,
  PInv y ->
  PInv (mkpeer P (p_kind P y) (p_origin P y) true
          (fun i => match p_st P y i with Complete => Complete | _ => Empty end) (p_dat P y)
          (all_complete P g (fun i => match p_st P y i with Complete => Complete | _ => Empty end)) [] [] []).
Proof.
  intros y [A B C D E F G]. constructor; cbn.
  - intros i Hi. apply A. destruct (p_st P y i); auto; discriminate.
  - intros H i Hi. now apply (all_complete_spec _ H).
  - intros w [].
  - intros w [].
  - constructor.
  - intros _ i Hi. destruct (p_st P y i); discriminate.
  - lia.
Qed.

Lemma PInv_disc : forall x p,
  PInv x ->
  PInv (mkpeer P (p_kind P x) (p_origin P x) (p_up P x) (p_st P x) (p_dat P x) (p_committed P x)
          (clearpeer (p_reqs P x) p) (del_conn (p_conns P x) p) (p_wr P x)).
Proof.
  intros x p [A B C D E F G]. constructor; cbn; auto.
  pose proof (del_conn_length (p_conns P x) p). lia.
Qed.

Lemma PInv_begin : forall x i p b,
  PInv x -> p_st P x i = Empty -> good i b -> len_ok P plen g i b = true ->
  PInv (mkpeer P (p_kind P x) (p_origin P x) (p_up P x) (upd (p_st P x) i Dirty) (p_dat P x)
          (p_committed P x) (p_reqs P x) (p_conns P x) (p_wr P x ++ [mkwrt P i p b])).
Proof.
  intros x i p b [A B C D E F G] Hst Hg Hl. constructor; cbn.
  - intros j Hj. destruct (Nat.eq_dec j i) as [->|Hji].
    + rewrite upd_same in Hj. discriminate.
    + rewrite upd_other in Hj by auto. auto.
  - intros Hc j Hj. pose proof (B Hc i (len_ok_lt _ _ Hl)) as Hi. rewrite Hst in Hi. discriminate.
  - intros w Hw. apply in_app_or in Hw as [Hw|[<-|[]]]; auto.
  - intros w Hw. apply in_app_or in Hw as [Hw|[<-|[]]]; cbn.
    + destruct (Nat.eq_dec (w_piece P w) i) as [Hwi|Hwi].
      * pose proof (D w Hw) as Hd. rewrite Hwi, Hst in Hd. discriminate.
      * rewrite upd_other by auto. auto.
    + now rewrite upd_same.
  - rewrite map_app. cbn. apply nodup_app_single; auto.
    intro Hi. apply in_map_iff in Hi as (w & Hwi & Hw). pose proof (D w Hw) as Hd.
    rewrite Hwi, Hst in Hd. discriminate.
  - intros Hup j Hj. destruct (Nat.eq_dec j i) as [->|Hji].
    + exists (mkwrt P i p b). split; auto. apply in_or_app. right. now left.
    + rewrite upd_other in Hj by auto. destruct (F Hup j Hj) as (w & Hw & Hwj).
      exists w. split; auto. apply in_or_app. now left.
  - auto.
Qed.

(* what take_first on the writes gives *)
Lemma wr_split : forall x i w rest,
  PInv x -> take_first (fun w => Nat.eqb (w_piece P w) i) (p_wr P x) = Some (w, rest) ->
  w_piece P w = i /\ In w (p_wr P x) /\ (forall v, In v rest -> In v (p_wr P x) /\ w_piece P v <> i)
  /\ NoDup (map (w_piece P) rest)
  /\ (forall v, In v (p_wr P x) -> w_piece P v <> i -> In v rest).
Proof.
  intros x i w rest [A B C D E F G] H.
  destruct (take_first_split _ _ _ _ _ H) as (l1 & l2 & Hl & -> & Fw & Hl1).
  apply Nat.eqb_eq in Fw. rewrite Hl in E. rewrite map_app in E. cbn in E.
  destruct (nodup_remove_mid _ _ _ E) as [E1 E2]. rewrite <- map_app in E1, E2.
  split; [auto|]. split; [rewrite Hl; apply in_or_app; right; now left|].
  split; [|split].
  - intros v Hv. split.
    + rewrite Hl. apply in_app_or in Hv. apply in_or_app. destruct Hv; [left|right; right]; auto.
    + intro Hvi. apply E2. rewrite Fw, <- Hvi. now apply in_map.
  - auto.
  - intros v Hv Hvi. rewrite Hl in Hv. apply in_app_or in Hv as [Hv|[<-|Hv]].
    + apply in_or_app. now left. + congruence. + apply in_or_app. now right.
Qed.

Hypothesis Hsums : sums_ok P sum g.

Lemma sum_ok_good : forall i b,
  good i b -> len_ok P plen g i b = true -> sum_ok P sum g i b = true -> nth_error blob i = Some b.
Proof.
  intros i b [Hb|Hcf] Hl Hs; auto.
  unfold len_ok in Hl. destruct (nth_error blob i) as [pj|] eqn:E; [|discriminate].
  apply N.eqb_eq in Hl. unfold sum_ok in Hs. rewrite Hsums in Hs.
  rewrite nth_error_map, E in Hs. cbn in Hs. apply N.eqb_eq in Hs.
  f_equal. symmetry. apply Hcf; auto. eapply nth_error_In; eauto.
Qed.

Lemma PInv_end_ok : forall x i w rest,
  PInv x -> is_dirty (p_st P x i) = true ->
  take_first (fun w => Nat.eqb (w_piece P w) i) (p_wr P x) = Some (w, rest) ->
  sum_ok P sum g i (w_data P w) = true ->
  PInv (mkpeer P (p_kind P x) (p_origin P x) (p_up P x) (upd (p_st P x) i Complete)
          (upd (p_dat P x) i (Some (w_data P w)))
          (p_committed P x || all_complete P g (upd (p_st P x) i Complete))
          (clear (p_reqs P x) i) (p_conns P x) rest).
Proof.
  intros x i w rest HI Hd Ht Hs.
  destruct (wr_split _ _ _ _ HI Ht) as (Hwi & Hw & Hrest & Hnd & Hkeep).
  destruct HI as [A B C D E F G].
  destruct (C w Hw) as [Hg Hl]. rewrite Hwi in Hg, Hl.
  pose proof (sum_ok_good _ _ Hg Hl Hs) as Hb.
  constructor; cbn.
  - intros j Hj. destruct (Nat.eq_dec j i) as [->|Hji].
    + rewrite upd_same. split; auto. eapply len_ok_lt; eauto.
    + rewrite upd_other in * by auto. auto.
  - intros Hc j Hj. apply orb_true_iff in Hc as [Hc|Hc].
    + destruct (Nat.eq_dec j i) as [->|Hji]; [now rewrite upd_same|]. rewrite upd_other by auto. auto.
    + now apply (all_complete_spec _ Hc).
  - intros v Hv. apply C. now apply Hrest.
  - intros v Hv. destruct (Hrest v Hv) as [Hv1 Hv2]. rewrite upd_other by auto. auto.
  - auto.
  - intros Hup j Hj. destruct (Nat.eq_dec j i) as [->|Hji].
    + rewrite upd_same in Hj. discriminate.
    + rewrite upd_other in Hj by auto. destruct (F Hup j Hj) as (v & Hv & Hvj).
      exists v. split; auto. apply Hkeep; auto. congruence.
  - auto.
Qed.

Lemma PInv_end_bad : forall x i w rest,
  PInv x -> is_dirty (p_st P x i) = true ->
  take_first (fun w => Nat.eqb (w_piece P w) i) (p_wr P x) = Some (w, rest) ->
  PInv (mkpeer P (p_kind P x) (p_origin P x) (p_up P x) (upd (p_st P x) i Empty)
          (upd (p_dat P x) i (Some (w_data P w))) (p_committed P x)
          (mark (p_reqs P x) (w_from P w) i RInvalid) (p_conns P x) rest).
Proof.
  intros x i w rest HI Hd Ht.
  destruct (wr_split _ _ _ _ HI Ht) as (Hwi & Hw & Hrest & Hnd & Hkeep).
  destruct HI as [A B C D E F G].
  constructor; cbn.
  - intros j Hj. destruct (Nat.eq_dec j i) as [->|Hji].
    + rewrite upd_same in Hj. discriminate.
    + rewrite upd_other in * by auto. auto.
  - intros Hc j Hj. destruct (Nat.eq_dec j i) as [->|Hji].
    + pose proof (B Hc i Hj) as Hi. destruct (p_st P x i); discriminate.
    + rewrite upd_other by auto. auto.
  - intros v Hv. apply C. now apply Hrest.
  - intros v Hv. destruct (Hrest v Hv) as [Hv1 Hv2]. rewrite upd_other by auto. auto.
  - auto.
  - intros Hup j Hj. destruct (Nat.eq_dec j i) as [->|Hji].
    + rewrite upd_same in Hj. discriminate.
    + rewrite upd_other in Hj by auto. destruct (F Hup j Hj) as (v & Hv & Hvj).
      exists v. split; auto. apply Hkeep; auto. congruence.
  - auto.
Qed.

(* ---- message invariant under the list operations the steps use *)
Lemma MInv_sub : forall (s : state) ms, MInv s -> (forall m, In m ms -> In m (msgs P s)) -> forall ps, MInv (mkstate P ps ms).
Proof. intros s ms H Hs ps p a i b Hin. cbn in Hin. eapply H. apply Hs. eauto. Qed.

Lemma MInv_add : forall (s : state) ms m ps,
  MInv s -> (forall m, In m ms -> In m (msgs P s)) ->
  (forall p a i b, m = MPay p a i b -> good i b) -> MInv (mkstate P ps (ms ++ [m])).
Proof.
  intros s ms m ps H Hs Hm p a i b Hin. cbn in Hin. apply in_app_or in Hin as [Hin|[Hin|[]]].
  - eapply H. apply Hs. eauto. - eapply Hm; eauto.
Qed.

Lemma peers_upd_inv : forall (f : nat -> peer) a v, (forall x, PInv (f x)) -> PInv v -> forall x, PInv (upd f a v x).
Proof. intros f a v Hf Hv x. unfold upd. destruct (Nat.eqb x a); auto. Qed.

Lemma do_request_inv : forall s a p pieces k s',
  Inv s -> do_request P g s a p pieces k = Some s' -> Inv s'.
Proof.
  intros s a p pieces k s' [HP HM] H. unfold do_request in H.
  destruct (negb (p_up P (peers P s a) && honest P (peers P s a))); [discriminate|].
  destruct (find_conn (p_conns P (peers P s a)) p) as [cn|]; [|discriminate].
  match type of H with (if ?c then _ else _) = _ => destruct c; [|discriminate] end.
  inversion H; subst; clear H. split; cbn.
  - apply peers_upd_inv; auto. apply PInv_set_reqs; auto.
  - intros q b i c Hin. apply in_app_or in Hin as [Hin|Hin]; [eapply HM; eauto|].
    apply in_map_iff in Hin as (j & Hj & _). discriminate.
Qed.

Theorem step_inv : forall s l s',
  Forall (cf P plen sum g) (label_payloads P l) -> Inv s -> step s l = Some s' -> Inv s'.
Proof.
  intros s l s' Hcf [HP HM] H. destruct l; cbn [C19.step] in H.
  - (* Join *)
    destruct (p_up P (peers P s x)); [discriminate|]. inversion H; subst; clear H. split; cbn.
    + apply peers_upd_inv; auto. apply PInv_join; auto.
    + eapply MInv_sub; eauto. intros m Hm. apply filter_In in Hm. tauto.
  - (* Depart *)
    destruct (p_up P (peers P s x)); [|discriminate]. inversion H; subst; clear H. split; cbn.
    + apply peers_upd_inv; auto. apply PInv_depart; auto.
    + eapply MInv_sub; eauto. intros m Hm. apply filter_In in Hm. tauto.
  - (* Connect *)
    match type of H with (if ?c then _ else _) = _ => destruct c eqn:C; [|discriminate] end.
    inversion H; subst; clear H.
    repeat (apply andb_true_iff in C as [C ?]).
    apply Nat.ltb_lt in H, H0.
    split; cbn.
    + apply peers_upd_inv; [apply peers_upd_inv; auto|].
      * apply PInv_set_conns; auto. rewrite app_length. cbn. lia.
      * apply PInv_set_conns; auto. rewrite app_length. cbn. lia.
    + eapply MInv_sub; eauto. intros m Hm. apply filter_In in Hm. tauto.
  - (* Disconnect *)
    match type of H with (if ?c then _ else _) = _ => destruct c eqn:C; [|discriminate] end.
    inversion H; subst; clear H. split; cbn.
    + apply peers_upd_inv; auto. apply PInv_disc; auto.
    + eapply MInv_sub; eauto. intros m Hm. apply filter_In in Hm. tauto.
  - (* Request *) eapply do_request_inv; eauto. split; auto.
  - (* Resend *)
    match type of H with (if ?c then _ else _) = _ => destruct c eqn:C; [|discriminate] end.
    eapply do_request_inv; eauto. split; auto.
  - (* Expire *)
    destruct (p_up P (peers P s a)); [|discriminate]. inversion H; subst; clear H. split; cbn.
    + apply peers_upd_inv; auto. apply PInv_set_reqs; auto.
    + eapply MInv_sub; eauto.
  - (* Serve *)
    match type of H with (if ?c then _ else _) = _ => destruct c eqn:C; [|discriminate] end.
    destruct (take_first (is_req P a p i) (msgs P s)) as [[m rest]|] eqn:T; [|discriminate].
    destruct (take_first_in _ _ _ _ _ T) as (_ & _ & Hrest).
    match type of H with (match ?c with _ => _ end) = _ => destruct c as [b|] eqn:B end;
      inversion H; subst; clear H; split; cbn.
    + apply peers_upd_inv; auto. apply PInv_set_conns; auto.
      rewrite view_set_length. apply pi_cap. auto.
    + eapply MInv_add; eauto. intros q c0 j d E. inversion E; subst. left.
      destruct (Nat.ltb j n && is_complete (p_st P (peers P s q) j)) eqn:G; [|discriminate].
      apply andb_true_iff in G as [_ G]. destruct (pi_data _ (HP q) j G) as [_ Hd]. congruence.
    + auto.
    + eapply MInv_add; eauto. intros; discriminate.
  - (* Inject *)
    match type of H with (if ?c then _ else _) = _ => destruct c eqn:C; [|discriminate] end.
    inversion H; subst; clear H. split; cbn; auto.
    eapply MInv_add; eauto. intros q c0 j d E. subst m. cbn in Hcf. inversion Hcf; subst. now right.
  - (* RecvBegin *)
    match type of H with (if ?c then _ else _) = _ => destruct c eqn:C; [|discriminate] end.
    destruct (take_first (is_pay P p a i) (msgs P s)) as [[m rest]|] eqn:T; [|discriminate].
    destruct (take_first_in _ _ _ _ _ T) as (Hm & Fm & Hrest).
    destruct m as [| f t j b |]; try discriminate.
    cbn in Fm. apply andb_true_iff in Fm as [Fm Fj]. apply Nat.eqb_eq in Fj. subst j.
    pose proof (HM _ _ _ _ Hm) as Hg.
    destruct (len_ok P plen g i b) eqn:L.
    + destruct (p_st P (peers P s a) i) eqn:S; inversion H; subst; clear H; split; cbn.
      * apply peers_upd_inv; auto. apply PInv_begin; auto.
      * eapply MInv_sub; eauto.
      * apply peers_upd_inv; auto. apply PInv_set_reqs; auto.
      * eapply MInv_sub; eauto.
      * auto.
      * eapply MInv_sub; eauto.
    + inversion H; subst; clear H; split; cbn.
      * apply peers_upd_inv; auto. apply PInv_set_reqs; auto.
      * eapply MInv_sub; eauto.
  - (* RecvEnd *)
    match type of H with (if ?c then _ else _) = _ => destruct c eqn:C; [|discriminate] end.
    apply andb_true_iff in C as [Cu Cd].
    destruct (take_first _ (p_wr P (peers P s a))) as [[w rest]|] eqn:T; [|discriminate].
    destruct (sum_ok P sum g i (w_data P w)) eqn:S; inversion H; subst; clear H; split; cbn.
    + apply peers_upd_inv; auto. eapply PInv_end_ok; eauto.
    + eapply MInv_sub; eauto.
    + apply peers_upd_inv; auto. eapply PInv_end_bad; eauto.
    + eapply MInv_sub; eauto.
  - (* RecvErr *)
    match type of H with (if ?c then _ else _) = _ => destruct c eqn:C; [|discriminate] end.
    destruct (take_first (is_err P p a i) (msgs P s)) as [[m rest]|] eqn:T; [|discriminate].
    destruct (take_first_in _ _ _ _ _ T) as (_ & _ & Hrest).
    inversion H; subst; clear H; split; cbn.
    + apply peers_upd_inv; auto. apply PInv_set_reqs; auto.
    + eapply MInv_sub; eauto.
  - (* AnnouncePiece *)
    match type of H with (if ?c then _ else _) = _ => destruct c eqn:C; [|discriminate] end.
    inversion H; subst; clear H; split; cbn.
    + apply peers_upd_inv; auto. apply PInv_set_conns; auto.
      rewrite view_set_length. apply pi_cap. auto.
    + eapply MInv_sub; eauto.
  - (* Drop *)
    destruct (nth_error (msgs P s) k) eqn:E; [|discriminate]. inversion H; subst; clear H. split; cbn; auto.
    eapply MInv_sub; eauto. intros m0 Hm. apply in_app_or in Hm as [Hm|Hm].
    + rewrite <- (firstn_skipn k (msgs P s)). apply in_or_app. now left.
    + rewrite <- (firstn_skipn (S k) (msgs P s)). apply in_or_app. now right.
Qed.

(* ---- the initial swarm *)
Lemma PInv_fresh : forall k o have, PInv (fresh_peer P g k o have).
Proof.
  intros. unfold fresh_peer. constructor; cbn -[Nat.ltb memb].
  - intros i Hi. revert Hi. destruct (Nat.ltb i n && memb i have) eqn:E; intro Hi; [|discriminate].
    apply andb_true_iff in E as [E _]. apply Nat.ltb_lt in E. auto.
  - discriminate.
  - intros w [].
  - intros w [].
  - constructor.
  - discriminate.
  - lia.
Qed.

Lemma init_inv : forall ps, Inv (init P g ps).
Proof.
  intros ps. split.
  - intros x. cbn. destruct (nth_error ps x) as [[[k o] have]|]; apply PInv_fresh.
  - intros p a i b [].
Qed.

Lemma payloads_app : forall l1 l2, payloads P (l1 ++ l2) = payloads P l1 ++ payloads P l2.
Proof. intros. unfold payloads. apply flat_map_app. Qed.

Lemma exec_inv : forall s l, Forall (cf P plen sum g) (label_payloads P l) -> Inv s -> Inv (exec P plen sum g s l).
Proof.
  intros s l Hcf HI. unfold exec. destruct (step s l) eqn:E; auto. eapply step_inv; eauto.
Qed.

Theorem run_inv : forall ls s, Forall (cf P plen sum g) (payloads P ls) -> Inv s -> Inv (run P plen sum g s ls).
Proof.
  induction ls as [|l t IH]; intros s Hcf HI; cbn; auto.
  cbn in Hcf. apply Forall_app in Hcf as [H1 H2]. apply IH; auto. apply exec_inv; auto.
Qed.

(* ---- safety: a completed agent holds exactly the blob *)
Theorem inv_safety : forall s x,
  Inv s -> completed P s x = true -> file P g s x = map Some blob.
Proof.
  intros s x [HP _] Hc. unfold file, completed in *. apply map_seq_nth. intros i Hi. cbn.
  pose proof (pi_comm _ (HP x) Hc i Hi) as Hd. now destruct (pi_data _ (HP x) i Hd).
Qed.

(* a verified piece is the blob's piece, completed or not *)
Theorem inv_verified_data : forall s x i,
  Inv s -> verified P s x i = true -> i < n /\ p_dat P (peers P s x) i = nth_error blob i.
Proof. intros s x i [HP _] H. now apply (pi_data _ (HP x)). Qed.

Theorem inv_completed_all : forall s x i,
  Inv s -> completed P s x = true -> i < n -> verified P s x i = true.
Proof. intros s x i [HP _] H Hi. now apply (pi_comm _ (HP x)). Qed.

(* ---- monotonicity: no label ever takes a verified piece away (no invariant needed) *)
Lemma st_upd_peer : forall (f : nat -> peer) a v x i,
  (is_complete (p_st P (f a) i) = true -> is_complete (p_st P v i) = true) ->
  is_complete (p_st P (f x) i) = true -> is_complete (p_st P (upd f a v x) i) = true.
Proof.
  intros f a v x i Hv Hx. unfold upd. destruct (Nat.eqb x a) eqn:E; auto.
  apply Nat.eqb_eq in E. subst. auto.
Qed.

Lemma do_request_st : forall s a p pieces k s' x i,
  do_request P g s a p pieces k = Some s' -> p_st P (peers P s' x) i = p_st P (peers P s x) i.
Proof.
  intros s a p pieces k s' x i H. unfold do_request in H.
  destruct (negb (p_up P (peers P s a) && honest P (peers P s a))); [discriminate|].
  destruct (find_conn (p_conns P (peers P s a)) p) as [cn|]; [|discriminate].
  match type of H with (if ?c then _ else _) = _ => destruct c; [|discriminate] end.
  inversion H; subst; clear H. cbn. unfold upd. destruct (Nat.eqb x a) eqn:E; auto.
  apply Nat.eqb_eq in E. now subst.
Qed.

Theorem step_mono : forall s l s' x i,
  step s l = Some s' -> verified P s x i = true -> verified P s' x i = true.
Proof.
  unfold verified. intros s l s' x i H V. destruct l; cbn [C19.step] in H;
    try (erewrite do_request_st; eauto; fail).
  - destruct (p_up P (peers P s x0)); [discriminate|]. inversion H; subst; clear H. cbn.
    apply st_upd_peer; auto. cbn. intros Hc. destruct (p_st P (peers P s x0) i); auto.
  - destruct (p_up P (peers P s x0)); [|discriminate]. inversion H; subst; clear H. cbn.
    apply st_upd_peer; auto.
  - match type of H with (if ?c then _ else _) = _ => destruct c eqn:C; [|discriminate] end.
    inversion H; subst; clear H. cbn. apply st_upd_peer.
    + intros Hc. cbn. unfold upd in Hc. destruct (Nat.eqb p a) eqn:E; auto.
      apply Nat.eqb_eq in E. subst. exact Hc.
    + apply st_upd_peer; auto.
  - match type of H with (if ?c then _ else _) = _ => destruct c eqn:C; [|discriminate] end.
    inversion H; subst; clear H. cbn. apply st_upd_peer; auto.
  - match type of H with (if ?c then _ else _) = _ => destruct c eqn:C; [|discriminate] end.
    erewrite do_request_st; eauto.
  - destruct (p_up P (peers P s a)); [|discriminate]. inversion H; subst; clear H. cbn.
    apply st_upd_peer; auto.
  - match type of H with (if ?c then _ else _) = _ => destruct c eqn:C; [|discriminate] end.
    destruct (take_first (is_req P a p i0) (msgs P s)) as [[m rest]|]; [|discriminate].
    match type of H with (match ?c with _ => _ end) = _ => destruct c as [b|] end;
      inversion H; subst; clear H; cbn; auto. apply st_upd_peer; auto.
  - match type of H with (if ?c then _ else _) = _ => destruct c eqn:C; [|discriminate] end.
    inversion H; subst; clear H. auto.
  - match type of H with (if ?c then _ else _) = _ => destruct c eqn:C; [|discriminate] end.
    destruct (take_first (is_pay P p a i0) (msgs P s)) as [[m rest]|]; [|discriminate].
    destruct m as [| f t j b |]; try discriminate.
    destruct (len_ok P plen g i0 b).
    + destruct (p_st P (peers P s a) i0) eqn:S; inversion H; subst; clear H; cbn; auto;
        apply st_upd_peer; auto. cbn. intros Hc.
      destruct (Nat.eq_dec i i0) as [->|Hi]; [rewrite S in Hc; discriminate|]. now rewrite upd_other.
    + inversion H; subst; clear H; cbn. apply st_upd_peer; auto.
  - match type of H with (if ?c then _ else _) = _ => destruct c eqn:C; [|discriminate] end.
    apply andb_true_iff in C as [_ Cd].
    destruct (take_first _ (p_wr P (peers P s a))) as [[w rest]|]; [|discriminate].
    destruct (sum_ok P sum g i0 (w_data P w)); inversion H; subst; clear H; cbn;
      apply st_upd_peer; auto; cbn; intros Hc;
      (destruct (Nat.eq_dec i i0) as [->|Hi];
       [destruct (p_st P (peers P s a) i0); discriminate | now rewrite upd_other]).
  - match type of H with (if ?c then _ else _) = _ => destruct c eqn:C; [|discriminate] end.
    destruct (take_first (is_err P p a i0) (msgs P s)) as [[m rest]|]; [|discriminate].
    inversion H; subst; clear H; cbn. apply st_upd_peer; auto.
  - match type of H with (if ?c then _ else _) = _ => destruct c eqn:C; [|discriminate] end.
    inversion H; subst; clear H; cbn. apply st_upd_peer; auto.
  - destruct (nth_error (msgs P s) k); [|discriminate]. inversion H; subst; clear H. auto.
Qed.

Theorem run_mono : forall ls s x i,
  verified P s x i = true -> verified P (run P plen sum g s ls) x i = true.
Proof.
  induction ls as [|l t IH]; intros s x i V; cbn; auto. apply IH. unfold exec.
  destruct (step s l) eqn:E; auto. eapply step_mono; eauto.
Qed.

(* completion is permanent as well *)

End Inv.
