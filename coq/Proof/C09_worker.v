(* C09: every atomic step of the flush worker preserves the invariant *)
From Coq Require Import List NArith Bool Lia.
From K.Model Require Import C09.
From K.Proof Require Import C09_base C09_inv C09_frame C09_reads C09_client.
Import ListNotations.
Local Open Scope N_scope.

Lemma won_true_eq : forall p k k', won p k = true -> won p k' = false -> k <> k'.
Proof. intros p k k' A B E. subst. congruence. Qed.

(* the worker's heap object is not the one of another key *)
Lemma heap_other : forall s g id k', Inv s g -> pc_id (wpc s) = Some id -> won (wpc s) k' = false ->
  forall id', get k' (fblobs s) = Some id' -> id' <> id.
Proof.
  intros s g id k' [HW H] Hid Hw id' Hf E. subst id'.
  destruct (H k') as [[G1 _] _]. destruct (G1 id Hf) as [_ [[fo [A B]] _]].
  unfold w_inv in HW. rewrite Hid in HW. destruct (wkey (wpc s)) as [k|] eqn:K.
  - destruct HW as [_ HW]. specialize (HW fo A). apply won_false_wkey in Hw. congruence.
  - destruct (wpc s); cbn in *; congruence.
Qed.

Lemma wstep_other : forall s g ns k', Inv s g ->
  won (wpc s) k' = false -> won (wpc (fst (wstep s ns))) k' = false ->
  gen_inv (fst (wstep s ns)) k' /\ ghost_inv (fst (wstep s ns)) (gget g k') k'.
Proof.
  intros s g ns k' HI W1 W2.
  pose proof (heap_other s g) as HO.
  destruct HI as [HW H].
  apply (kinv_frame s); try apply H; auto; revert W2; unfold wstep;
    repeat match goal with
           | |- context [match ?x with _ => _ end] => destruct x eqn:?
           end; intros W2; cbn [fst snd] in *; simp; auto; try lia;
    cbn in W1; try (apply N.eqb_neq in W1); simp; auto;
    (intros id0 Hf; rewrite get_put_ne; auto; intro; subst id0;
     eapply (HO id k' (conj HW H)); [reflexivity| cbn; apply N.eqb_neq; auto | exact Hf | reflexivity]).
Qed.

Lemma wstep_winv : forall s g ns, Inv s g -> w_inv (fst (wstep s ns)).
Proof.
  intros s g ns [HW H]. unfold wstep.
  destruct (wpc s) eqn:P; unfold w_inv in HW; rewrite P in HW; cbn [pc_id wkey] in HW;
    repeat match goal with
           | |- context [match ?x with _ => _ end] => destruct x eqn:?
           end; cbn [fst snd]; unfold w_inv; simp; cbn [pc_id wkey]; auto;
    try (destruct HW as [A B]; split; [lia|]; intros fo Hf; simp; eauto; fail).
  - (* WIdle -> WStart *)
    apply pop_some in Heqp. destruct (H k) as [[G1 _] _]. destruct (G1 _ Heqp) as [A [[fo [B C]] _]].
    split; auto. intros fo' Hf. congruence.
  - rewrite P; cbn; auto.
  - destruct HW as [A B]. split; auto. intros fo Hf. simp. injection Hf as <-. cbn. eauto.
  - rewrite Heqo. exact HW.
  - destruct HW as [A B]. split; auto. intros fo Hf. simp. injection Hf as <-. cbn. eauto.
  - rewrite Heqo. exact HW.
Qed.

(* ---- the key the worker is flushing *)
Lemma live_on : forall s k d mds, won (wpc s) k = true -> wpc s <> WUnban k ->
  live_inv s k d mds ->
  exists m, get k (mem s) = Some m /\ m_complete m = true /\ m_data m = d /\ mds_eq (m_mds m) mds /\
            m_banned m = true /\ flushing s k m d.
Proof.
  intros s k d mds W NU L. unfold live_inv in L. destruct (get k (mem s)) as [m|].
  - destruct L as [A [B [C [D|[D1 D2]]]]].
    + destruct D as [e [_ [_ [_ [_ [_ D]]]]]]. specialize (D W). congruence.
    + exists m. repeat split; auto.
  - destruct L as [e [_ [_ [_ [_ [_ D]]]]]]. specialize (D W). congruence.
Qed.

Lemma inc_off : forall s k d mds, gen_inv s k -> ghost_inv s (GInc d mds) k -> won (wpc s) k = false.
Proof.
  intros s k d mds [_ [G2 _]] X. cbn in X. destruct X as [[m [A [B _]]]|[_ [A _]]]; auto.
  destruct (G2 m A B) as [_ [_ ?]]; auto.
Qed.

Lemma wpos_on : forall p k, won p k = true -> wpos p k = p.
Proof. intros; unfold wpos; rewrite H; auto. Qed.

(* pop: WIdle -> WStart k id *)
Lemma own_idle : forall s g k id q, Inv s g -> wpc s = WIdle -> get k (fblobs s) = Some id ->
  let s' := set_pc (set_queue s q) (WStart k id) in
  gen_inv s' k /\ ghost_inv s' (gget g k) k.
Proof.
  intros s g k id q [HW H] P F s'. destruct (H k) as [[G1 [G2 G3]] X].
  destruct (G1 id F) as [Hlt [[fo [Hfo Hk]] [m [EM [HB HC]]]]].
  split.
  - unfold gen_inv, s'. simp. rewrite F, EM. cbn [won]. rewrite N.eqb_refl. split; [|split].
    + intros id' E. injection E as <-. split; auto. split; eauto.
    + intros m0 E C. injection E as <-. congruence.
    + intros _. cbn. auto.
  - destruct (gget g k) as [|d mds|d mds|] eqn:E; cbn [ghost_inv] in *; auto.
    + destruct X; congruence.
    + destruct X as [[m0 [A [B _]]]|[A _]]; congruence.
    + unfold live_inv in *. unfold s'. simp. rewrite EM in *. destruct X as [X1 [X2 [X3 X4]]]. repeat split; auto.
      destruct X4 as [[e [_ [_ [_ [_ [X4 _]]]]]]|[_ X4]]; [congruence|]. right. split; auto.
      destruct X4 as [id0 [fo0 [F1 [F2 [F3 F4]]]]]. exists id0, fo0. unfold flushing. simp.
      rewrite P in F3, F4. unfold wpos in *. cbn [won] in *. rewrite N.eqb_refl. repeat split; auto.
Qed.

Ltac own_setup HI k P :=
  let HW := fresh "HW" in let H := fresh "H" in
  destruct HI as [HW H];
  let G1 := fresh "G1" in let G2 := fresh "G2" in let G3 := fresh "G3" in let X := fresh "X" in
  destruct (H k) as [[G1 [G2 G3]] X];
  let W := fresh "W" in
  assert (W : won (wpc _) k = true) by (rewrite P; cbn; apply N.eqb_refl);
  pose proof (G3 W) as G3'; rewrite P in G3'; cbn [wk_inv pc_id] in G3'.

(* G2 for the successor state of a worker step on k: an incomplete memory entry is impossible *)
Lemma g2_on : forall s k (R : Prop), gen_inv s k -> won (wpc s) k = true ->
  forall m, get k (mem s) = Some m -> m_complete m = false -> R.
Proof. intros s k R [_ [G2 _]] W m A B. destruct (G2 m A B) as [_ [_ C]]. congruence. Qed.

Lemma live_on_id : forall s k d mds id, won (wpc s) k = true -> wpc s <> WUnban k ->
  (get k (fblobs s) = Some id \/ (get k (fblobs s) = None /\ get k (mem s) = None)) ->
  live_inv s k d mds ->
  exists m fo, get k (mem s) = Some m /\ m_complete m = true /\ m_data m = d /\ mds_eq (m_mds m) mds /\
            m_banned m = true /\ get k (fblobs s) = Some id /\ get id (heap s) = Some fo /\
            data_inv (wpc s) fo m (get k (disk s)) d /\ md_inv (wpc s) fo m (get k (disk s)).
Proof.
  intros s k d mds id W NU G L. destruct (live_on s k d mds W NU L) as [m [A [B [C [D [E F]]]]]].
  destruct F as [id0 [fo [F1 [F2 [F3 F4]]]]]. rewrite wpos_on in * by auto.
  assert (id0 = id) by (destruct G as [G|[G _]]; congruence). subst id0.
  exists m, fo. repeat split; auto.
Qed.

Lemma own_start : forall s g k id, Inv s g -> wpc s = WStart k id ->
  let s' := set_pc s (if dd_of s id then match get k (mem s) with
                                          | Some m => WOpened k id (m_inc m)
                                          | None => WDataDone k id end
                      else WDataDone k id) in
  gen_inv s' k /\ ghost_inv s' (gget g k) k.
Proof.
  intros s g k id HI P s'. own_setup HI k P.
  assert (NU : wpc s <> WUnban k) by (rewrite P; discriminate).
  assert (W' : won (wpc s') k = true).
  { unfold s'. simp. destruct (dd_of s id); [destruct (get k (mem s))|]; cbn; apply N.eqb_refl. }
  split.
  - unfold gen_inv. rewrite W'. unfold s' at 1 2 3 4 5 6 7 8. simp. split; [exact G1|split].
    + intros m A B. exact (g2_on s k _ (proj1 (H k)) W m A B).
    + intros _. unfold s'. simp. destruct (dd_of s id); [destruct (get k (mem s))|]; cbn; auto.
  - destruct (gget g k) as [|d mds|d mds|] eqn:E; cbn [ghost_inv] in *; auto.
    + unfold s'. simp. destruct X as [A [B|B]]; [|rewrite P in B; discriminate]. split; [auto|left; auto].
    + pose proof (inc_off s k d mds (proj1 (H k)) X) as Q. congruence.
    + destruct (live_on_id s k d mds id W NU G3' X) as [m [fo [EM [XC [XD [XM [XB [F1 [F2 [F3 F4]]]]]]]]]].
      unfold live_inv. unfold s' at 1. simp. rewrite EM. repeat split; auto. right. split; auto.
      exists id, fo. unfold s'. simp. rewrite wpos_on by (unfold s' in W'; simp; auto).
      unfold dd_of. rewrite F2, EM. rewrite P in F3, F4. unfold data_inv, md_inv in *.
      destruct (f_dd fo); repeat split; auto.
Qed.

Lemma wk_inv_id : forall p id F M, pc_id p = Some id ->
  (wk_inv p F M <-> (F = Some id \/ (F = None /\ M = None))).
Proof. destruct p; cbn; intros; try discriminate; injection H as <-; tauto. Qed.

Lemma pc_id_not_unban : forall p id k, pc_id p = Some id -> p <> WUnban k.
Proof. destruct p; cbn; intros; discriminate. Qed.

(* a worker step that only moves the program counter (both on key k, same heap object) *)
Lemma own_pc_only : forall s g k id p p', Inv s g -> wpc s = p ->
  won p k = true -> won p' k = true -> pc_id p = Some id -> pc_id p' = Some id ->
  at_created p' k = false ->
  (at_created p k = true -> get k (fblobs s) <> None) ->
  (forall m fo d, get k (mem s) = Some m -> get id (heap s) = Some fo -> get k (fblobs s) = Some id ->
     data_inv p fo m (get k (disk s)) d -> md_inv p fo m (get k (disk s)) ->
     data_inv p' fo m (get k (disk s)) d /\ md_inv p' fo m (get k (disk s))) ->
  gen_inv (set_pc s p') k /\ ghost_inv (set_pc s p') (gget g k) k.
Proof.
  intros s g k id p p' HI P W W' I I' AC HA HD.
  destruct HI as [HW H]. destruct (H k) as [[G1 [G2 G3]] X].
  rewrite <- P in W. pose proof (G3 W) as G3'. rewrite P in G3'. apply (wk_inv_id p id _ _ I) in G3'.
  assert (NU : wpc s <> WUnban k) by (rewrite P; eapply pc_id_not_unban; eauto).
  split.
  - unfold gen_inv. simp. rewrite W'. split; [exact G1|split].
    + intros m A B. exact (g2_on s k _ (proj1 (H k)) W m A B).
    + intros _. apply (wk_inv_id p' id _ _ I'). auto.
  - destruct (gget g k) as [|d mds|d mds|] eqn:E; cbn [ghost_inv] in *; auto.
    + simp. destruct X as [A [B|B]]; [split; [auto|left; auto]|].
      rewrite P in B. specialize (HA B). exfalso. apply HA.
      destruct (get k (fblobs s)) as [i|] eqn:F; auto.
      destruct (G1 i eq_refl) as [_ [_ [m [C _]]]]. congruence.
    + pose proof (inc_off s k d mds (proj1 (H k)) X) as Q. congruence.
    + destruct (live_on_id s k d mds id W NU G3' X) as [m [fo [EM [XC [XD [XM [XB [F1 [F2 [F3 F4]]]]]]]]]].
      unfold live_inv. simp. rewrite EM. repeat split; auto. right. split; auto.
      exists id, fo. simp. rewrite wpos_on by auto. rewrite P in F3, F4.
      destruct (HD m fo d EM F2 F1 F3 F4). auto.
Qed.

(* a worker step on key k that changes (at most) k's disk entry *)
Lemma own_disk : forall s s' g k id p p', Inv s g -> wpc s = p -> wpc s' = p' ->
  mem s' = mem s -> fblobs s' = fblobs s -> heap s' = heap s -> nxt s <= nxt s' ->
  won p k = true -> won p' k = true -> pc_id p = Some id -> pc_id p' = Some id ->
  (get k (mem s) = None -> get k (fblobs s) = None ->
     (get k (disk s) = None \/ at_created p k = true) ->
     (get k (disk s') = None \/ at_created p' k = true)) ->
  (forall m fo d, get k (mem s) = Some m -> m_data m = d -> get id (heap s) = Some fo -> get k (fblobs s) = Some id ->
     data_inv p fo m (get k (disk s)) d -> md_inv p fo m (get k (disk s)) ->
     data_inv p' fo m (get k (disk s')) d /\ md_inv p' fo m (get k (disk s'))) ->
  gen_inv s' k /\ ghost_inv s' (gget g k) k.
Proof.
  intros s s' g k id p p' HI P P' EMem EFb EHeap HN W W' I I' HA HD.
  destruct HI as [HW H]. destruct (H k) as [[G1 [G2 G3]] X].
  rewrite <- P in W. pose proof (G3 W) as G3'. rewrite P in G3'. apply (wk_inv_id p id _ _ I) in G3'.
  assert (NU : wpc s <> WUnban k) by (rewrite P; eapply pc_id_not_unban; eauto).
  split.
  - unfold gen_inv. rewrite EMem, EFb, EHeap, P', W'. split; [|split].
    + intros i Hi. destruct (G1 i Hi) as [A B]. split; [lia|auto].
    + intros m A B. exact (g2_on s k _ (proj1 (H k)) W m A B).
    + intros _. apply (wk_inv_id p' id _ _ I'). auto.
  - destruct (gget g k) as [|d mds|d mds|] eqn:E; cbn [ghost_inv] in *; auto.
    + rewrite EMem, P'. destruct X as [A B]. split; auto. rewrite P in B. apply HA; auto.
      destruct (get k (fblobs s)) as [i|] eqn:F; auto.
      destruct (G1 i eq_refl) as [_ [_ [m [C _]]]]. congruence.
    + pose proof (inc_off s k d mds (proj1 (H k)) X) as Q. congruence.
    + destruct (live_on_id s k d mds id W NU G3' X) as [m [fo [EM [XC [XD [XM [XB [F1 [F2 [F3 F4]]]]]]]]]].
      unfold live_inv. rewrite EMem, EM. repeat split; auto. right. split; auto.
      exists id, fo. rewrite EFb, EHeap, P'. rewrite wpos_on by auto. rewrite P in F3, F4.
      destruct (HD m fo d EM XD F2 F1 F3 F4). auto.
Qed.

(* live blobs are never in the failure path, nor at WOpened with the key already on disk *)
Lemma live_not_fail : forall s k d mds, won (wpc s) k = true ->
  (match wpc s with
   | WFail1 _ | WFail2 _ => True
   | WOpened _ _ _ => get k (disk s) <> None
   | _ => False end) ->
  live_inv s k d mds -> False.
Proof.
  intros s k d mds W Hp L.
  assert (NU : wpc s <> WUnban k) by (destruct (wpc s); try tauto; discriminate).
  destruct (live_on s k d mds W NU L) as [m [_ [_ [_ [_ [_ [id [fo [_ [_ [F3 _]]]]]]]]]]].
  rewrite wpos_on in F3 by auto. unfold data_inv in F3.
  destruct (wpc s); try tauto; destruct (f_dd fo); tauto.
Qed.

Lemma own_to_fail1 : forall s g k id inc, Inv s g -> wpc s = WOpened k id inc ->
  let s' := set_pc s (WFail1 k) in
  gen_inv s' k /\
  (get k (disk s) <> None -> ghost_inv s' (gget g k) k) /\
  (get k (disk s) = None -> ghost_inv s' (match gget g k with GLive _ _ => GLimbo | x => x end) k).
Proof.
  intros s g k id inc HI P s'. own_setup HI k P.
  split; [|split].
  - unfold gen_inv, s'. simp. cbn [won]. rewrite N.eqb_refl. split; [exact G1|split].
    + intros m A B. exact (g2_on s k _ (proj1 (H k)) W m A B).
    + intros _. cbn. intros F. destruct G3' as [G|[_ G]]; congruence.
  - intros ND. destruct (gget g k) as [|d mds|d mds|] eqn:E; cbn [ghost_inv] in *; auto.
    + destruct X as [_ [B|B]]; [congruence|rewrite P in B; discriminate].
    + pose proof (inc_off s k d mds (proj1 (H k)) X) as Q. congruence.
    + exfalso. eapply (live_not_fail s k d mds W); [rewrite P; auto|exact X].
  - intros ND. destruct (gget g k) as [|d mds|d mds|] eqn:E; cbn [ghost_inv] in *; auto.
    + unfold s'. simp. destruct X as [A _]. auto.
    + pose proof (inc_off s k d mds (proj1 (H k)) X) as Q. congruence.
Qed.

Lemma own_fail1 : forall s g k, Inv s g -> wpc s = WFail1 k ->
  let s' := set_pc (set_disk s (del k (disk s))) (WFail2 k) in
  gen_inv s' k /\ ghost_inv s' (gget g k) k.
Proof.
  intros s g k HI P s'. own_setup HI k P.
  split.
  - unfold gen_inv, s'. simp. cbn [won]. rewrite N.eqb_refl. split; [exact G1|split].
    + intros m A B. exact (g2_on s k _ (proj1 (H k)) W m A B).
    + intros _. cbn. auto.
  - destruct (gget g k) as [|d mds|d mds|] eqn:E; cbn [ghost_inv] in *; auto.
    + unfold s'. simp. destruct X as [A _]. auto.
    + pose proof (inc_off s k d mds (proj1 (H k)) X) as Q. congruence.
    + exfalso. eapply (live_not_fail s k d mds W); [rewrite P; auto|exact X].
Qed.

Lemma own_fail2 : forall s g k, Inv s g -> wpc s = WFail2 k ->
  let s' := set_pc (set_fblobs s (del k (fblobs s))) (WUnban k) in
  gen_inv s' k /\ ghost_inv s' (gget g k) k.
Proof.
  intros s g k HI P s'. own_setup HI k P.
  split.
  - unfold gen_inv, s'. simp. cbn [won]. rewrite N.eqb_refl. split; [|split].
    + intros i Hi. discriminate.
    + intros m A B. exact (g2_on s k _ (proj1 (H k)) W m A B).
    + intros _. cbn. auto.
  - destruct (gget g k) as [|d mds|d mds|] eqn:E; cbn [ghost_inv] in *; auto.
    + unfold s'. simp. destruct X as [A [B|B]]; [auto|rewrite P in B; discriminate].
    + pose proof (inc_off s k d mds (proj1 (H k)) X) as Q. congruence.
    + exfalso. eapply (live_not_fail s k d mds W); [rewrite P; auto|exact X].
Qed.

(* snapshot of the dirty set: WDataDone / WLoop -> WMd *)
Lemma own_snapshot : forall s g k id fo, Inv s g ->
  (wpc s = WDataDone k id \/ wpc s = WLoop k id) -> get id (heap s) = Some fo ->
  let s' := set_pc (set_heap s (put id (mkf (f_key fo) (f_dd fo) []) (heap s))) (WMd k id (f_dirty fo)) in
  gen_inv s' k /\ ghost_inv s' (gget g k) k.
Proof.
  intros s g k id fo HI P Hfo s'.
  destruct HI as [HW H]. destruct (H k) as [[G1 [G2 G3]] X].
  assert (W : won (wpc s) k = true) by (destruct P as [P|P]; rewrite P; cbn; apply N.eqb_refl).
  assert (I : pc_id (wpc s) = Some id) by (destruct P as [P|P]; rewrite P; auto).
  pose proof (G3 W) as G3'. apply (wk_inv_id _ id _ _ I) in G3'.
  assert (NU : wpc s <> WUnban k) by (eapply pc_id_not_unban; eauto).
  assert (AC : at_created (wpc s) k = false) by (destruct P as [P|P]; rewrite P; auto).
  split.
  - unfold gen_inv, s'. simp. cbn [won]. rewrite N.eqb_refl. split; [|split].
    + intros i Hi. destruct (G1 i Hi) as [A [[fo' [B C]] D]]. split; auto. split; auto.
      assert (i = id) by (destruct G3' as [G|[G _]]; congruence). subst i. simp.
      eexists. split; [reflexivity|]. cbn. congruence.
    + intros m A B. exact (g2_on s k _ (proj1 (H k)) W m A B).
    + intros _. cbn. auto.
  - destruct (gget g k) as [|d mds|d mds|] eqn:E; cbn [ghost_inv] in *; auto.
    + unfold s'. simp. destruct X as [A [B|B]]; [auto|congruence].
    + pose proof (inc_off s k d mds (proj1 (H k)) X) as Q. congruence.
    + destruct (live_on_id s k d mds id W NU G3' X) as [m [fo0 [EM [XC [XD [XM [XB [F1 [F2 [F3 F4]]]]]]]]]].
      assert (fo0 = fo) by congruence. subst fo0.
      unfold live_inv, s'. simp. rewrite EM. repeat split; auto. right. split; auto.
      eexists id, _. simp. split; [exact F1|]. split; [reflexivity|].
      unfold wpos. cbn [won]. rewrite N.eqb_refl.
      unfold data_inv, md_inv in *. cbn [f_dd f_dirty].
      destruct P as [P|P]; rewrite P in F3, F4; split; try (destruct (f_dd fo); exact F3);
        intros x; specialize (F4 x); cbn [In]; tauto.
Qed.

(* the final re-check found nothing dirty: delete(f.blobs, k) *)
Lemma own_unmark : forall s g k id, Inv s g -> wpc s = WMdFlushed k id -> dirty_of s id = [] ->
  let s' := set_pc (set_fblobs s (del k (fblobs s))) (WUnban k) in
  gen_inv s' k /\ ghost_inv s' (gget g k) k.
Proof.
  intros s g k id HI P HDty s'. own_setup HI k P.
  assert (NU : wpc s <> WUnban k) by (rewrite P; discriminate).
  split.
  - unfold gen_inv, s'. simp. cbn [won]. rewrite N.eqb_refl. split; [|split].
    + intros i Hi. discriminate.
    + intros m A B. exact (g2_on s k _ (proj1 (H k)) W m A B).
    + intros _. cbn. auto.
  - destruct (gget g k) as [|d mds|d mds|] eqn:E; cbn [ghost_inv] in *; auto.
    + unfold s'. simp. destruct X as [A [B|B]]; [auto|rewrite P in B; discriminate].
    + pose proof (inc_off s k d mds (proj1 (H k)) X) as Q. congruence.
    + destruct (live_on_id s k d mds id W NU G3' X) as [m [fo [EM [XC [XD [XM [XB [F1 [F2 [F3 F4]]]]]]]]]].
      unfold dirty_of in HDty. rewrite F2 in HDty.
      rewrite P in F3, F4. unfold data_inv, md_inv in *.
      assert (DD : disk_data (get k (disk s)) d) by (destruct (f_dd fo); auto).
      destruct DD as [e [D1 [D2 D3]]].
      unfold live_inv, s'. simp. rewrite EM. repeat split; auto. left.
      unfold synced. simp. exists e. repeat split; auto.
      intros x. specialize (F4 x). rewrite HDty, D1 in F4. cbn in F4. rewrite <- XM. tauto.
Qed.

(* UnbanEviction *)
Lemma own_unban : forall s g k, Inv s g -> wpc s = WUnban k ->
  let s' := match get k (mem s) with
            | Some m => set_pc (set_mem s (put k (m_set_banned m false) (mem s))) WIdle
            | None => set_pc s WIdle end in
  gen_inv s' k /\ ghost_inv s' (gget g k) k.
Proof.
  intros s g k HI P s'. own_setup HI k P.
  destruct (get k (mem s)) as [m|] eqn:EM; unfold s'.
  - split.
    + unfold gen_inv. simp. rewrite G3'. cbn [won]. split; [|split]; try discriminate.
      intros m0 A B. injection A as <-. cbn in B. exact (g2_on s k _ (proj1 (H k)) W m EM B).
    + destruct (gget g k) as [|d mds|d mds|] eqn:E; cbn [ghost_inv] in *; auto.
      * destruct X; congruence.
      * pose proof (inc_off s k d mds (proj1 (H k)) X) as Q. congruence.
      * unfold live_inv in *. simp. rewrite EM in X. destruct X as [X1 [X2 [X3 X4]]]. repeat split; auto. left.
        destruct X4 as [X4|[_ [i [fo [F1 _]]]]]; [|congruence].
        unfold synced in *. simp. destruct X4 as [e [A [B [C [D [F _]]]]]]. exists e. repeat split; auto.
        cbn. discriminate.
  - split.
    + unfold gen_inv. simp. rewrite G3', EM. cbn [won]. split; [|split]; discriminate.
    + destruct (gget g k) as [|d mds|d mds|] eqn:E; cbn [ghost_inv] in *; auto.
      * simp. destruct X as [A [B|B]]; [auto|rewrite P in B; discriminate].
      * pose proof (inc_off s k d mds (proj1 (H k)) X) as Q. congruence.
      * unfold live_inv, synced in *. simp. rewrite EM in *.
        destruct X as [e [A [B [C [D [F _]]]]]]. exists e. repeat split; auto. cbn. discriminate.
Qed.

Ltac odisk HI P k id :=
  eapply (own_disk _ _ _ k id _ _ HI P);
  [ simp; reflexivity | simp; reflexivity | simp; reflexivity | simp; reflexivity | simp; lia
  | cbn; apply N.eqb_refl | cbn; apply N.eqb_refl | reflexivity | reflexivity | simp | simp ].

Ltac others O NE := apply O; cbn; simp; try apply N.eqb_neq; auto.

Lemma dmd_same_mds : forall e e', d_mds e' = d_mds e -> forall x, dmd (Some e') x = dmd (Some e) x.
Proof. intros e e' E x. cbn. rewrite E. auto. Qed.

Lemma inv_work : forall s g ns, Inv s g ->
  let '(s', e) := wstep s ns in
  let '(g', ok) := gstep g (Work ns) (OW e) in ok = true /\ Inv s' g'.
Proof.
  intros s g ns HI.
  assert (O := fun k' => wstep_other s g ns k' HI). assert (WI := wstep_winv s g ns HI).
  revert O WI. unfold wstep.
  destruct (wpc s) eqn:P;
    repeat match goal with
           | |- context [match ?x with _ => _ end] =>
               lazymatch x with
               | gstep _ _ _ => fail
               | _ => destruct x eqn:?
               end
           end; intros O WI; cbn [fst snd] in *.
  all: cbn [gstep].
  - (* 1 WIdle: pop *)
    match goal with Hp : pop _ _ = _ |- _ => apply pop_some in Hp; rename Hp into HF end.
    split; [reflexivity|]. split; [exact WI|]. intros k'. destruct (N.eq_dec k k') as [<-|NE].
    + apply (own_idle s g k _ _ HI P HF).
    + others O NE.
  - (* 2 WIdle: nothing to do *)
    split; [reflexivity|]. split; [exact WI|]. intros k'. apply O; auto. simp. rewrite P. auto.
  - (* 3 WStart -> WOpened *)
    split; [reflexivity|]. split; [exact WI|]. intros k'. destruct (N.eq_dec k k') as [<-|NE]; [|others O NE].
    pose proof (own_start s g k id HI P) as Q. cbn zeta in Q. rewrite Heqb, Heqo in Q. exact Q.
  - (* 4 *)
    split; [reflexivity|]. split; [exact WI|]. intros k'. destruct (N.eq_dec k k') as [<-|NE]; [|others O NE].
    pose proof (own_start s g k id HI P) as Q. cbn zeta in Q. rewrite Heqb, Heqo in Q. exact Q.
  - (* 5 *)
    split; [reflexivity|]. split; [exact WI|]. intros k'. destruct (N.eq_dec k k') as [<-|NE]; [|others O NE].
    pose proof (own_start s g k id HI P) as Q. cbn zeta in Q. rewrite Heqb in Q. exact Q.
  - (* 6 WOpened: already on disk *)
    split; [reflexivity|]. split; [exact WI|]. intros k'. destruct (N.eq_dec k k') as [<-|NE]; [|others O NE].
    destruct (own_to_fail1 s g k id inc HI P) as [A [B _]]. split; [exact A|]. apply B. congruence.
  - (* 7 WOpened: no space *)
    destruct (own_to_fail1 s g k id inc HI P) as [A [_ B]]. specialize (B Heqo).
    destruct (gget g k) eqn:E; (split; [reflexivity|]; split; [exact WI|]; intros k';
      destruct (N.eq_dec k k') as [<-|NE]; [simp; rewrite ?E; split; [exact A|exact B]| simp; others O NE]).
  - (* 8 WOpened: disk.Create *)
    split; [reflexivity|]. split; [exact WI|]. intros k'. destruct (N.eq_dec k k') as [<-|NE]; [|others O NE].
    odisk HI P k id.
    + intros _ _ _. right. apply N.eqb_refl.
    + intros m fo d EM XD Hfo HF D1 D2. rewrite Heqo in *. split.
      * unfold data_inv in *. destruct (f_dd fo); [|tauto]. destruct D1 as [_ D1]. split; auto.
        eexists. split; [reflexivity|]. auto.
      * unfold md_inv in *. intros x. specialize (D2 x). cbn in *. auto.
  - (* 9 WCreated -> WChecked *)
    split; [reflexivity|]. split; [exact WI|]. intros k'. destruct (N.eq_dec k k') as [<-|NE]; [|others O NE].
    odisk HI P k id.
    + intros _ F0. congruence.
    + intros m fo d EM XD Hfo HF D1 D2. unfold data_inv, md_inv in *. split; auto.
  - (* 10 WCreated: aborted, remove the disk entry *)
    split; [reflexivity|]. split; [exact WI|]. intros k'. destruct (N.eq_dec k k') as [<-|NE]; [|others O NE].
    odisk HI P k id.
    + intros _ _ _. left. reflexivity.
    + intros m fo d EM XD Hfo HF. congruence.
  - (* 11 WChecked: copy *)
    apply N.eqb_eq in Heqb, Heqb0.
    split; [reflexivity|]. split; [exact WI|]. intros k'. destruct (N.eq_dec k k') as [<-|NE]; [|others O NE].
    odisk HI P k id.
    + intros A. congruence.
    + intros m0 fo d0 EM XD Hfo HF D1 D2. assert (m0 = m) by congruence. subst m0. rewrite Heqo0 in *. split.
      * unfold data_inv in *. destruct (f_dd fo); [|tauto]. destruct D1 as [_ [e [A [B C]]]]. injection A as <-.
        eexists. split; [reflexivity|]. simp. auto.
      * unfold md_inv in *. intros x. specialize (D2 x). cbn in *. auto.
  - (* 12 *)
    apply N.eqb_neq in Heqb0.
    split; [reflexivity|]. split; [exact WI|]. intros k'. destruct (N.eq_dec k k') as [<-|NE]; [|others O NE].
    odisk HI P k id.
    + intros _ _ [A|A]; [left; auto|discriminate].
    + intros m0 fo d0 EM XD Hfo HF D1 D2. exfalso. unfold data_inv in D1. rewrite Heqo0 in D1.
      destruct (f_dd fo); [|tauto]. destruct D1 as [_ [e [A [B C]]]]. injection A as <-. congruence.
  - (* 13 *)
    split; [reflexivity|]. split; [exact WI|]. intros k'. destruct (N.eq_dec k k') as [<-|NE]; [|others O NE].
    odisk HI P k id.
    + intros _ _ [A|A]; [left; auto|discriminate].
    + intros m0 fo d0 EM XD Hfo HF D1 D2. exfalso. unfold data_inv in D1. rewrite Heqo0 in D1.
      destruct (f_dd fo); [|tauto]. destruct D1 as [_ [e [A _]]]. discriminate.
  - (* 14 *)
    apply N.eqb_neq in Heqb.
    split; [reflexivity|]. split; [exact WI|]. intros k'. destruct (N.eq_dec k k') as [<-|NE]; [|others O NE].
    odisk HI P k id.
    + intros _ _ [A|A]; [left; auto|discriminate].
    + intros m0 fo d0 EM XD Hfo HF D1 D2. exfalso. assert (m0 = m) by congruence. subst m0.
      unfold data_inv in D1. destruct (f_dd fo); [|tauto]. destruct D1 as [A _]. congruence.
  - (* 15 *)
    split; [reflexivity|]. split; [exact WI|]. intros k'. destruct (N.eq_dec k k') as [<-|NE]; [|others O NE].
    odisk HI P k id.
    + intros _ _ [A|A]; [left; auto|discriminate].
    + intros m0 fo d0 EM. congruence.
  - (* 16 WCopied: disk.MarkComplete *)
    split; [reflexivity|]. split; [exact WI|]. intros k'. destruct (N.eq_dec k k') as [<-|NE]; [|others O NE].
    odisk HI P k id.
    + intros _ _ [A|A]; [congruence|discriminate].
    + intros m0 fo d0 EM XD Hfo HF D1 D2. rewrite Heqo in *. split.
      * unfold data_inv in *. destruct (f_dd fo); [|tauto]. destruct D1 as [e [A [B [C D]]]]. injection A as <-.
        unfold disk_data. eexists. split; [reflexivity|]. simp. auto.
      * unfold md_inv in *. intros x. specialize (D2 x). cbn in *. auto.
  - (* 17 *)
    split; [reflexivity|]. split; [exact WI|]. intros k'. destruct (N.eq_dec k k') as [<-|NE]; [|others O NE].
    odisk HI P k id.
    + intros _ _ [A|A]; [left; auto|discriminate].
    + intros m0 fo d0 EM XD Hfo HF D1 D2. exfalso. unfold data_inv in D1. rewrite Heqo in D1.
      destruct (f_dd fo); [|tauto]. destruct D1 as [e [A _]]. discriminate.
  - (* 18 snapshot *)
    split; [reflexivity|]. split; [exact WI|]. intros k'. destruct (N.eq_dec k k') as [<-|NE]; [|others O NE].
    apply (own_snapshot s g k id f HI (or_introl P) Heqo).
  - (* 19 *)
    split; [reflexivity|]. split; [exact WI|]. intros k'. destruct (N.eq_dec k k') as [<-|NE]; [|others O NE].
    odisk HI P k id.
    + intros _ _ [A|A]; [left; auto|discriminate].
    + intros m0 fo d0 EM XD Hfo. congruence.
  - (* 20 *)
    split; [reflexivity|]. split; [exact WI|]. intros k'. destruct (N.eq_dec k k') as [<-|NE]; [|others O NE].
    apply (own_snapshot s g k id f HI (or_intror P) Heqo).
  - (* 21 *)
    split; [reflexivity|]. split; [exact WI|]. intros k'. destruct (N.eq_dec k k') as [<-|NE]; [|others O NE].
    odisk HI P k id.
    + intros _ _ [A|A]; [left; auto|discriminate].
    + intros m0 fo d0 EM XD Hfo. congruence.
  - (* 22 WMd [] -> WMdFlushed *)
    split; [reflexivity|]. split; [exact WI|]. intros k'. destruct (N.eq_dec k k') as [<-|NE]; [|others O NE].
    odisk HI P k id.
    + intros _ _ [A|A]; [left; auto|discriminate].
    + intros m0 fo d0 EM XD Hfo HF D1 D2. unfold data_inv, md_inv in *. split; auto.
      intros x. specialize (D2 x). cbn [In] in D2. tauto.
  - (* 23 WMd (x :: r): mem.GetMetadata *)
    split; [reflexivity|]. split; [exact WI|]. intros k'. destruct (N.eq_dec k k') as [<-|NE]; [|others O NE].
    odisk HI P k id.
    + intros _ _ [A|A]; [left; auto|discriminate].
    + intros m0 fo d0 EM XD Hfo HF D1 D2. assert (m0 = m) by congruence. subst m0.
      unfold data_inv, md_inv in *. split; auto.
      intros x. specialize (D2 x). cbn [In] in D2. destruct (x =? s0) eqn:EX.
      * apply N.eqb_eq in EX. subst x. auto.
      * apply N.eqb_neq in EX. destruct D2 as [D2|[D2|[D2|D2]]]; auto. congruence.
  - (* 24 *)
    split; [reflexivity|]. split; [exact WI|]. intros k'. destruct (N.eq_dec k k') as [<-|NE]; [|others O NE].
    odisk HI P k id.
    + intros _ _ [A|A]; [left; auto|discriminate].
    + intros m0 fo d0 EM. congruence.
  - (* 25 WMdW: disk.SetMetadata / DeleteMetadata *)
    split; [reflexivity|]. split; [exact WI|]. intros k'. destruct (N.eq_dec k k') as [<-|NE]; [|others O NE].
    odisk HI P k id.
    + intros _ _ [A|A]; [congruence|discriminate].
    + intros m0 fo d0 EM XD Hfo HF D1 D2. rewrite Heqo in *. split.
      * unfold data_inv, disk_data in *.
        assert (DD : exists e, Some d = Some e /\ d_complete e = true /\ d_data e = d0) by (destruct (f_dd fo); auto).
        destruct DD as [e [A [B C]]]. injection A as <-.
        assert (exists e, Some (d_set_mds d (putopt s0 v (d_mds d))) = Some e /\ d_complete e = true /\ d_data e = d0)
          by (eexists; split; [reflexivity|]; simp; auto).
        destruct (f_dd fo); auto.
      * unfold md_inv in *. intros x. specialize (D2 x). cbn [dmd d_mds d_set_mds] in *.
        destruct (x =? s0) eqn:EX.
        -- apply N.eqb_eq in EX. subst x. rewrite get_putopt_eq. auto.
        -- apply N.eqb_neq in EX. rewrite get_putopt_ne by auto. auto.
  - (* 26 *)
    split; [reflexivity|]. split; [exact WI|]. intros k'. destruct (N.eq_dec k k') as [<-|NE]; [|others O NE].
    odisk HI P k id.
    + intros _ _ [A|A]; [left; auto|discriminate].
    + intros m0 fo d0 EM XD Hfo HF D1 D2. exfalso. unfold data_inv, disk_data in D1. rewrite Heqo in D1.
      destruct (f_dd fo); destruct D1 as [e [A _]]; discriminate.
  - (* 27 nothing dirty: delete(f.blobs) *)
    split; [reflexivity|]. split; [exact WI|]. intros k'. destruct (N.eq_dec k k') as [<-|NE]; [|others O NE].
    apply (own_unmark s g k id HI P Heql).
  - (* 28 dirty again: loop *)
    split; [reflexivity|]. split; [exact WI|]. intros k'. destruct (N.eq_dec k k') as [<-|NE]; [|others O NE].
    odisk HI P k id.
    + intros _ _ [A|A]; [left; auto|discriminate].
    + intros m0 fo d0 EM XD Hfo HF D1 D2. unfold data_inv, md_inv in *. split; auto.
  - (* 29 *)
    split; [reflexivity|]. split; [exact WI|]. intros k'. destruct (N.eq_dec k k') as [<-|NE]; [|others O NE].
    apply (own_fail1 s g k HI P).
  - (* 30 *)
    split; [reflexivity|]. split; [exact WI|]. intros k'. destruct (N.eq_dec k k') as [<-|NE]; [|others O NE].
    apply (own_fail2 s g k HI P).
  - (* 31 *)
    split; [reflexivity|]. split; [exact WI|]. intros k'. destruct (N.eq_dec k k') as [<-|NE]; [|others O NE].
    pose proof (own_unban s g k HI P) as Q. cbn zeta in Q. rewrite Heqo in Q. exact Q.
  - (* 32 *)
    split; [reflexivity|]. split; [exact WI|]. intros k'. destruct (N.eq_dec k k') as [<-|NE]; [|others O NE].
    pose proof (own_unban s g k HI P) as Q. cbn zeta in Q. rewrite Heqo in Q. exact Q.
Qed.

