(* C37 — each client refines the contract  name |-> bytes  on upload / download / stat:
   a simulation between the engine's map (keyed by the client's path / (repo,tag) / key mapping)
   and the store keyed by names, on a name space where the mapping is defined and injective. *)
From Coq Require Import List NArith Bool Lia PeanoNat.
From K.Model Require Import C37.
From K.Proof Require Import PathLib C37_base.
Import ListNotations.
Local Open Scope N_scope.

(* ------------------------------------------------------------------ generic keyed simulation *)

Section KV.
  Context {K : Type} (keqb : K -> K -> bool).
  Hypothesis keqb_eq : forall a b, keqb a b = true <-> a = b.
  Variable key : str -> K.
  Variable ns : list str.
  Hypothesis key_inj : forall a b, In a ns -> In b ns -> key a = key b -> a = b.

  Record rel (m : @amap K) (s : store) : Prop := mkrel {
    rel_get : forall n, In n ns -> aget keqb (key n) m = sget n s;
    rel_keys : forall k, In k (akeys m) -> exists n, In n ns /\ k = key n /\ In n (akeys s);
    rel_nodup : NoDup (akeys m);
    rel_dom : forall n, In n (akeys s) -> In n ns;
    rel_snodup : NoDup (akeys s) }.

  Lemma rel_init : rel [] [].
  Proof.
    constructor; cbn.
    - intros; reflexivity.
    - intros k [].
    - constructor.
    - intros n [].
    - constructor.
  Qed.

  Lemma rel_set : forall m s n v, rel m s -> In n ns -> rel (aset keqb (key n) v m) (sset n v s).
  Proof.
    intros m s n v [Hg Hk Hnd Hd Hsn] Hn. unfold sset, sget in *. constructor.
    - intros n' Hn'. destruct (str_eqb n n') eqn:E.
      + apply str_eqb_eq in E. subst n'. rewrite (aget_aset_same keqb keqb_eq), (aget_aset_same str_eqb str_eqb_eq). reflexivity.
      + apply str_eqb_neq in E.
        rewrite (aget_aset_other keqb keqb_eq) by (intros Hc; apply E; apply key_inj; assumption).
        rewrite (aget_aset_other str_eqb str_eqb_eq) by exact E. apply Hg. exact Hn'.
    - intros k Hin. apply (akeys_aset keqb keqb_eq) in Hin. destruct Hin as [->|Hin].
      + exists n. split; [exact Hn|]. split; [reflexivity|]. apply (akeys_aset str_eqb str_eqb_eq). left. reflexivity.
      + destruct (Hk k Hin) as [n0 [H1 [H2 H3]]]. exists n0. split; [exact H1|]. split; [exact H2|].
        apply (akeys_aset str_eqb str_eqb_eq). right. exact H3.
    - apply (akeys_aset_nodup keqb keqb_eq). exact Hnd.
    - intros n' Hin. apply (akeys_aset str_eqb str_eqb_eq) in Hin. destruct Hin as [->|Hin]; [exact Hn|apply Hd; exact Hin].
    - apply (akeys_aset_nodup str_eqb str_eqb_eq). exact Hsn.
  Qed.

  (* the keys of the engine are exactly the images of the stored names *)
  Lemma rel_key_of_stored : forall m s n, rel m s -> In n (akeys s) -> In (key n) (akeys m).
  Proof.
    intros m s n R Hin. pose proof (rel_dom _ _ R n Hin) as Hn.
    destruct (aget_in_some str_eqb str_eqb_eq n s Hin) as [v Hv].
    pose proof (rel_get _ _ R n Hn) as Hg. unfold sget in Hg. rewrite Hv in Hg.
    eapply aget_some_in; eassumption.
  Qed.
End KV.

Arguments rel {K} keqb key ns m s.

(* ------------------------------------------------------------------ the guards, as propositions *)

Definition sql_key (n : str) : str * str :=
  match decompose n with Some rt => rt | None => ([], []) end.

Definition cont_ok (c : cfg) (e : ek) (v : str) : bool :=
  match e with KSql => negb (sql_zero c) || negb (is_nil v) | _ => true end.

Record EGuard (c : cfg) (e : ek) (ns : list str) : Prop := mkEG {
  eg_key : forall n, In n ns -> key_ok c e n = true;
  eg_apart : forall a b, In a ns -> In b ns -> apart c e a b = true }.

Lemma decompose_some : forall n r t, decompose n = Some (r, t) -> n = tag_name r t /\ r <> [] /\ t <> [].
Proof.
  intros n r t H. unfold decompose in H.
  destruct (split_on colon n) as [|a [|b [|x l]]] eqn:E; try discriminate.
  destruct (is_nil a || is_nil b) eqn:Hn; [discriminate|]. inversion H; subst.
  apply orb_false_iff in Hn. destruct Hn as [Ha Hb]. split; [apply split_two; exact E|].
  split; intros ->; discriminate.
Qed.

Lemma decompose_inj : forall a b rt, decompose a = Some rt -> decompose b = Some rt -> a = b.
Proof.
  intros a b [r t] Ha Hb. apply decompose_some in Ha. apply decompose_some in Hb.
  destruct Ha as [-> _]. destruct Hb as [-> _]. reflexivity.
Qed.

Lemma sql_key_ok : forall c n, key_ok c KSql n = true -> decompose n = Some (sql_key n).
Proof.
  intros c n H. unfold key_ok in H. unfold sql_key. destruct (decompose n); [reflexivity|discriminate].
Qed.

Lemma fs_apart : forall c a b, apart c KFs a b = true ->
  a = b \/ (fs_key (fs_root c) a <> fs_key (fs_root c) b /\
            prefixb (fs_key (fs_root c) a ++ [slash]) (fs_key (fs_root c) b) = false /\
            prefixb (fs_key (fs_root c) b ++ [slash]) (fs_key (fs_root c) a) = false).
Proof.
  intros c a b H. unfold apart in H. apply orb_true_iff in H. destruct H as [H|H].
  - left. apply str_eqb_eq. exact H.
  - right. rewrite !andb_true_iff, !negb_true_iff in H. destruct H as [[H1 H2] H3].
    split; [apply str_eqb_neq; exact H1|]. split; assumption.
Qed.

Lemma s3_apart : forall c a b, apart c KS3 a b = true ->
  a = b \/ s3_key (s3_root c) a <> s3_key (s3_root c) b.
Proof.
  intros c a b H. unfold apart in H. apply orb_true_iff in H. destruct H as [H|H].
  - left. apply str_eqb_eq. exact H.
  - right. rewrite negb_true_iff in H. apply str_eqb_neq. exact H.
Qed.

Lemma fs_key_inj : forall c ns, EGuard c KFs ns ->
  forall a b, In a ns -> In b ns -> fs_key (fs_root c) a = fs_key (fs_root c) b -> a = b.
Proof.
  intros c ns G a b Ha Hb He. destruct (fs_apart c a b (eg_apart _ _ _ G a b Ha Hb)) as [H|[H _]]; [exact H|contradiction].
Qed.

Lemma s3_key_inj : forall c ns, EGuard c KS3 ns ->
  forall a b, In a ns -> In b ns -> s3_key (s3_root c) a = s3_key (s3_root c) b -> a = b.
Proof.
  intros c ns G a b Ha Hb He. destruct (s3_apart c a b (eg_apart _ _ _ G a b Ha Hb)) as [H|H]; [exact H|contradiction].
Qed.

Lemma sql_key_inj : forall c ns, EGuard c KSql ns ->
  forall a b, In a ns -> In b ns -> sql_key a = sql_key b -> a = b.
Proof.
  intros c ns G a b Ha Hb He.
  pose proof (sql_key_ok c a (eg_key _ _ _ G a Ha)) as Da.
  pose proof (sql_key_ok c b (eg_key _ _ _ G b Hb)) as Db.
  rewrite He in Da. eapply decompose_inj; eassumption.
Qed.

(* ------------------------------------------------------------------ the simulation relation per engine *)

Definition ERel (c : cfg) (ns : list str) (e : ek) (x : est) (s : store) : Prop :=
  match e, x with
  | KFs, EFs m => rel str_eqb (fs_key (fs_root c)) ns m s
  | KSql, ESql m => rel pair_eqb sql_key ns m s
  | KS3, ES3 m => rel str_eqb (s3_key (s3_root c)) ns m s
  | _, _ => False
  end.

Lemma ERel_init : forall c ns e, ERel c ns e (einit e) [].
Proof. intros c ns []; cbn; apply rel_init. Qed.

(* testfs: on the guarded name space no key is a directory or lies below a file *)
Lemma fs_no_conflict : forall c ns m s n,
  EGuard c KFs ns -> rel str_eqb (fs_key (fs_root c)) ns m s -> In n ns ->
  is_dir (fs_key (fs_root c) n) m = false /\ under_file (fs_key (fs_root c) n) m = false.
Proof.
  intros c ns m s n G R Hn.
  pose proof (eg_key _ _ _ G n Hn) as Hk. unfold key_ok in Hk. apply negb_true_iff in Hk.
  split.
  - unfold is_dir. rewrite Hk. cbn [orb].
    match goal with |- ?ex = false => destruct ex eqn:E end; [|reflexivity]. exfalso.
    apply existsb_exists in E. destruct E as [k [Hin Hp]].
    destruct (rel_keys _ _ _ _ _ R k Hin) as [n0 [Hn0 [-> _]]].
    destruct (fs_apart c n n0 (eg_apart _ _ _ G n n0 Hn Hn0)) as [<-|[_ [H _]]].
    + rewrite prefixb_longer in Hp. discriminate.
    + congruence.
  - unfold under_file.
    match goal with |- ?ex = false => destruct ex eqn:E end; [|reflexivity]. exfalso.
    apply existsb_exists in E. destruct E as [k [Hin Hp]].
    destruct (rel_keys _ _ _ _ _ R k Hin) as [n0 [Hn0 [-> _]]].
    destruct (fs_apart c n n0 (eg_apart _ _ _ G n n0 Hn Hn0)) as [<-|[_ [_ H]]].
    + rewrite prefixb_longer in Hp. discriminate.
    + congruence.
Qed.

(* ------------------------------------------------------------------ upload / download / stat *)

Lemma estep_upload : forall c ns e x s n v,
  EGuard c e ns -> ERel c ns e x s -> In n ns -> cont_ok c e v = true ->
  exists x', estep c x (Upload n v) = (x', OOk) /\ ERel c ns e x' (sset n v s).
Proof.
  intros c ns e x s n v G R Hn Hc. destruct e, x as [m|m|m]; cbn [ERel] in R; try contradiction.
  - (* testfs *)
    destruct (fs_no_conflict c ns m s n G R Hn) as [H1 H2].
    cbn [estep fs_step]. rewrite H1, H2. cbn [orb].
    eexists. split; [reflexivity|]. cbn [ERel].
    apply (rel_set str_eqb str_eqb_eq); [apply (fs_key_inj c ns G)|exact R|exact Hn].
  - (* sql *)
    pose proof (sql_key_ok c n (eg_key _ _ _ G n Hn)) as D.
    cbn [estep sql_step]. rewrite D.
    assert (Hz : sql_zero c && is_nil v = false).
    { unfold cont_ok in Hc. destruct (sql_zero c), (is_nil v); cbn in *; congruence. }
    rewrite Hz.
    destruct (aget pair_eqb (sql_key n) m); (eexists; split; [reflexivity|]; cbn [ERel];
      apply (rel_set pair_eqb pair_eqb_eq); [apply (sql_key_inj c ns G)|exact R|exact Hn]).
  - (* s3 *)
    cbn [estep s3_step]. eexists. split; [reflexivity|]. cbn [ERel].
    apply (rel_set str_eqb str_eqb_eq); [apply (s3_key_inj c ns G)|exact R|exact Hn].
Qed.

Lemma estep_download : forall c ns e x s n,
  EGuard c e ns -> ERel c ns e x s -> In n ns ->
  estep c x (Download n) = (x, get_spec (sget n s)).
Proof.
  intros c ns e x s n G R Hn. destruct e, x as [m|m|m]; cbn [ERel] in R; try contradiction.
  - destruct (fs_no_conflict c ns m s n G R Hn) as [H1 H2].
    cbn [estep fs_step]. rewrite (rel_get _ _ _ _ _ R n Hn), H1, H2. cbn [orb].
    destruct (sget n s); reflexivity.
  - pose proof (sql_key_ok c n (eg_key _ _ _ G n Hn)) as D.
    cbn [estep sql_step]. rewrite D, (rel_get _ _ _ _ _ R n Hn). destruct (sget n s); reflexivity.
  - cbn [estep s3_step]. rewrite (rel_get _ _ _ _ _ R n Hn). destruct (sget n s); reflexivity.
Qed.

Lemma estep_stat : forall c ns e x s n,
  EGuard c e ns -> ERel c ns e x s -> In n ns ->
  estep c x (Stat n) = (x, stat_spec (tracks_size e) (sget n s)).
Proof.
  intros c ns e x s n G R Hn. destruct e, x as [m|m|m]; cbn [ERel] in R; try contradiction.
  - destruct (fs_no_conflict c ns m s n G R Hn) as [H1 H2].
    cbn [estep fs_step]. rewrite (rel_get _ _ _ _ _ R n Hn), H1, H2.
    destruct (sget n s); reflexivity.
  - pose proof (sql_key_ok c n (eg_key _ _ _ G n Hn)) as D.
    cbn [estep sql_step]. rewrite D, (rel_get _ _ _ _ _ R n Hn). destruct (sget n s); reflexivity.
  - cbn [estep s3_step]. rewrite (rel_get _ _ _ _ _ R n Hn). destruct (sget n s); reflexivity.
Qed.

(* store facts shared by all engines *)
Lemma ERel_dom : forall c ns e x s n, ERel c ns e x s -> In n (akeys s) -> In n ns.
Proof.
  intros c ns e x s n R. destruct e, x as [m|m|m]; cbn [ERel] in R; try contradiction; apply (rel_dom _ _ _ _ _ R).
Qed.

Lemma ERel_snodup : forall c ns e x s, ERel c ns e x s -> NoDup (akeys s).
Proof.
  intros c ns e x s R. destruct e, x as [m|m|m]; cbn [ERel] in R; try contradiction; apply (rel_snodup _ _ _ _ _ R).
Qed.
