(* C37 — basic facts: boolean list predicates, the insertion sort, association lists. *)
From Coq Require Import List NArith Bool Lia PeanoNat Permutation.
From K.Model Require Import C37.
From K.Proof Require Import PathLib.
Import ListNotations.
Local Open Scope N_scope.

(* ------------------------------------------------------------------ boolean membership *)

Lemma mem_str_in : forall x l, mem_str x l = true <-> In x l.
Proof.
  intros x l. unfold mem_str. rewrite existsb_exists. split.
  - intros [y [Hy He]]. apply str_eqb_eq in He. subst. exact Hy.
  - intros H. exists x. split; [exact H|apply str_eqb_refl].
Qed.

Lemma mem_str_false : forall x l, mem_str x l = false <-> ~ In x l.
Proof.
  intros x l. rewrite <- mem_str_in. destruct (mem_str x l); split; congruence.
Qed.

Lemma nodupb_NoDup : forall l, nodupb l = true <-> NoDup l.
Proof.
  induction l as [|x t IH]; cbn [nodupb].
  - split; [constructor|reflexivity].
  - rewrite andb_true_iff, negb_true_iff, mem_str_false, IH. split.
    + intros [H1 H2]. constructor; assumption.
    + intros H. inversion H; subst. split; assumption.
Qed.

Lemma inclb_incl : forall a b, inclb a b = true <-> incl a b.
Proof.
  intros a b. unfold inclb. rewrite forallb_forall. unfold incl. split.
  - intros H x Hx. apply mem_str_in. apply H. exact Hx.
  - intros H x Hx. apply mem_str_in. apply H. exact Hx.
Qed.

Lemma same_names_iff : forall l e,
  same_names l e = true <-> NoDup l /\ forall x, In x l <-> In x e.
Proof.
  intros l e. unfold same_names. rewrite !andb_true_iff, nodupb_NoDup, !inclb_incl. unfold incl. split.
  - intros [[H1 H2] H3]. split; [exact H1|]. intros x. split; auto.
  - intros [H1 H2]. repeat split; try assumption; intros x Hx; apply H2; exact Hx.
Qed.

Lemma some_names_iff : forall l e,
  some_names l e = true <-> NoDup l /\ forall x, In x l -> In x e.
Proof.
  intros l e. unfold some_names. rewrite andb_true_iff, nodupb_NoDup, inclb_incl. reflexivity.
Qed.

Lemma str_eqb_neq : forall a b, str_eqb a b = false <-> a <> b.
Proof.
  intros a b. rewrite <- str_eqb_eq. destruct (str_eqb a b); split; congruence.
Qed.

Lemma str_eqb_sym : forall a b, str_eqb a b = str_eqb b a.
Proof.
  intros a b. destruct (str_eqb a b) eqn:E.
  - apply str_eqb_eq in E. subst. symmetry. apply str_eqb_refl.
  - symmetry. apply str_eqb_neq. apply str_eqb_neq in E. congruence.
Qed.

Lemma pair_eqb_eq : forall a b, pair_eqb a b = true <-> a = b.
Proof.
  intros [a1 a2] [b1 b2]. unfold pair_eqb. cbn [fst snd]. rewrite andb_true_iff, !str_eqb_eq. split.
  - intros [H1 H2]. subst. reflexivity.
  - intros H. inversion H. auto.
Qed.

(* ------------------------------------------------------------------ filter_map *)

Lemma filter_map_app : forall {A B} (f : A -> option B) l1 l2,
  filter_map f (l1 ++ l2) = filter_map f l1 ++ filter_map f l2.
Proof.
  intros A B f l1 l2. induction l1 as [|x t IH]; [reflexivity|].
  cbn [app filter_map]. destruct (f x); [cbn [app]; f_equal|]; exact IH.
Qed.

Lemma in_filter_map : forall {A B} (f : A -> option B) l y,
  In y (filter_map f l) <-> exists x, In x l /\ f x = Some y.
Proof.
  intros A B f l y. induction l as [|x t IH]; cbn [filter_map].
  - split; [intros []|intros [x [[] _]]].
  - destruct (f x) as [z|] eqn:E.
    + cbn [In]. rewrite IH. split.
      * intros [H|[x' [H1 H2]]]; [subst; exists x; split; [left; reflexivity|exact E]|exists x'; split; [right; exact H1|exact H2]].
      * intros [x' [[H|H] H2]]; [subst; left; congruence|right; exists x'; split; assumption].
    + rewrite IH. split.
      * intros [x' [H1 H2]]. exists x'. split; [right; exact H1|exact H2].
      * intros [x' [[H|H] H2]]; [subst; congruence|exists x'; split; assumption].
Qed.

(* f is injective where defined on l, l has no duplicates => neither has the image *)
Lemma NoDup_filter_map : forall {A B} (f : A -> option B) l,
  NoDup l ->
  (forall a b y, In a l -> In b l -> f a = Some y -> f b = Some y -> a = b) ->
  NoDup (filter_map f l).
Proof.
  intros A B f l Hnd. induction Hnd as [|x t Hx Hnd IH]; intros Hinj; cbn [filter_map]; [constructor|].
  assert (IH' : NoDup (filter_map f t)).
  { apply IH. intros a b y Ha Hb. apply Hinj; right; assumption. }
  destruct (f x) as [y|] eqn:E; [|exact IH'].
  constructor; [|exact IH'].
  intros Hin. apply in_filter_map in Hin. destruct Hin as [x' [H1 H2]].
  assert (x = x') by (apply (Hinj x x' y); [left; reflexivity|right; exact H1|exact E|exact H2]).
  subst. contradiction.
Qed.

(* ------------------------------------------------------------------ insertion sort *)

Lemma insert_str_perm : forall x l, Permutation (insert_str x l) (x :: l).
Proof.
  intros x l. induction l as [|y t IH]; cbn [insert_str]; [reflexivity|].
  destruct (str_leb x y); [reflexivity|].
  rewrite IH. apply perm_swap.
Qed.

Lemma sort_str_perm : forall l, Permutation (sort_str l) l.
Proof.
  induction l as [|x t IH]; cbn; [reflexivity|].
  fold (sort_str t). rewrite insert_str_perm. constructor. exact IH.
Qed.

Lemma sort_str_in : forall l x, In x (sort_str l) <-> In x l.
Proof.
  intros l x. split; apply Permutation_in; [apply sort_str_perm|symmetry; apply sort_str_perm].
Qed.

Lemma sort_str_nodup : forall l, NoDup l -> NoDup (sort_str l).
Proof.
  intros l H. eapply Permutation_NoDup; [symmetry; apply sort_str_perm|exact H].
Qed.

Lemma sort_str_length : forall l, length (sort_str l) = length l.
Proof. intros l. apply Permutation_length. apply sort_str_perm. Qed.

(* ------------------------------------------------------------------ dedup *)

Lemma dedup_in : forall l x, In x (dedup l) <-> In x l.
Proof.
  induction l as [|y t IH]; intros x; cbn [dedup]; [reflexivity|].
  cbn [In]. rewrite filter_In, IH, negb_true_iff, str_eqb_neq.
  destruct (str_eqb y x) eqn:E.
  - apply str_eqb_eq in E. subst. split; [intros [H|[H _]]; auto|intros _; left; reflexivity].
  - apply str_eqb_neq in E. split; [intros [H|[H _]]; auto|intros [H|H]; [congruence|right; split; assumption]].
Qed.

Lemma NoDup_filter : forall {A} (f : A -> bool) l, NoDup l -> NoDup (filter f l).
Proof.
  intros A f l H. induction H as [|x t Hx Hnd IH]; cbn [filter]; [constructor|].
  destruct (f x); [constructor; [rewrite filter_In; tauto|exact IH]|exact IH].
Qed.

Lemma dedup_nodup : forall l, NoDup (dedup l).
Proof.
  induction l as [|y t IH]; cbn [dedup]; constructor.
  - rewrite filter_In, negb_true_iff, str_eqb_neq. intros [_ H]. congruence.
  - apply NoDup_filter. exact IH.
Qed.

(* ------------------------------------------------------------------ association lists *)

Section AMapFacts.
  Context {K : Type} (keqb : K -> K -> bool).
  Hypothesis keqb_eq : forall a b, keqb a b = true <-> a = b.

  Lemma keqb_refl : forall a, keqb a a = true.
  Proof. intros a. apply keqb_eq. reflexivity. Qed.

  Lemma keqb_neq : forall a b, a <> b -> keqb a b = false.
  Proof.
    intros a b H. destruct (keqb a b) eqn:E; [|reflexivity]. apply keqb_eq in E. contradiction.
  Qed.

  Lemma aget_aset_same : forall k v m, aget keqb k (aset keqb k v m) = Some v.
  Proof.
    intros k v m. induction m as [|[k' v'] t IH]; cbn [aset aget].
    - rewrite keqb_refl. reflexivity.
    - destruct (keqb k k') eqn:E; cbn [aget]; [rewrite keqb_refl; reflexivity|rewrite E; exact IH].
  Qed.

  Lemma aget_aset_other : forall k k' v m, k <> k' -> aget keqb k' (aset keqb k v m) = aget keqb k' m.
  Proof.
    intros k k' v m Hne. induction m as [|[k0 v0] t IH]; cbn [aset aget].
    - rewrite keqb_neq by congruence. reflexivity.
    - destruct (keqb k k0) eqn:E; cbn [aget].
      + apply keqb_eq in E. subst k0. rewrite !keqb_neq by congruence. reflexivity.
      + destruct (keqb k' k0); [reflexivity|exact IH].
  Qed.

  Lemma akeys_aset : forall k v m k',
    In k' (akeys (aset keqb k v m)) <-> k' = k \/ In k' (akeys m).
  Proof.
    intros k v m k'. unfold akeys. induction m as [|[k0 v0] t IH]; cbn [aset map fst In].
    - split; [intros [H|[]]; left; congruence|intros [H|[]]; left; congruence].
    - destruct (keqb k k0) eqn:E; cbn [map fst In].
      + apply keqb_eq in E. subst k0. split; [intros [H|H]; [left; congruence|right; right; exact H]|].
        intros [H|[H|H]]; [left; congruence|left; congruence|right; exact H].
      + rewrite IH. tauto.
  Qed.

  Lemma akeys_aset_nodup : forall k v m, NoDup (akeys m) -> NoDup (akeys (aset keqb k v m)).
  Proof.
    intros k v m. unfold akeys. induction m as [|[k0 v0] t IH]; intros H; cbn [aset map fst].
    - constructor; [intros []|constructor].
    - inversion H as [|? ? Hn Hd]; subst. destruct (keqb k k0) eqn:E; cbn [map fst].
      + apply keqb_eq in E. subst k0. constructor; assumption.
      + constructor; [|apply IH; exact Hd].
        intros Hin. apply (akeys_aset k v t k0) in Hin. destruct Hin as [Hin|Hin]; [|contradiction].
        subst k0. rewrite keqb_refl in E. discriminate.
  Qed.

  Lemma aget_some_in : forall k m v, aget keqb k m = Some v -> In k (akeys m).
  Proof.
    intros k m v. unfold akeys. induction m as [|[k0 v0] t IH]; cbn [aget map fst In]; [discriminate|].
    destruct (keqb k k0) eqn:E; [intros _; left; symmetry; apply keqb_eq; exact E|intros H; right; apply IH; exact H].
  Qed.

  Lemma aget_in_some : forall k m, In k (akeys m) -> exists v, aget keqb k m = Some v.
  Proof.
    intros k m. unfold akeys. induction m as [|[k0 v0] t IH]; cbn [aget map fst In]; [intros []|].
    intros [H|H].
    - subst. rewrite keqb_refl. eexists; reflexivity.
    - destruct (keqb k k0); [eexists; reflexivity|apply IH; exact H].
  Qed.

  Lemma aget_none_notin : forall k m, aget keqb k m = None <-> ~ In k (akeys m).
  Proof.
    intros k m. split.
    - intros H Hin. apply aget_in_some in Hin. destruct Hin as [v Hv]. congruence.
    - intros H. destruct (aget keqb k m) eqn:E; [|reflexivity]. apply aget_some_in in E. contradiction.
  Qed.

  Lemma aget_in_pair : forall k m v, aget keqb k m = Some v -> In (k, v) m.
  Proof.
    intros k m v. induction m as [|[k0 v0] t IH]; cbn [aget In]; [discriminate|].
    destruct (keqb k k0) eqn:E.
    - intros H. inversion H; subst. apply keqb_eq in E. subst. left. reflexivity.
    - intros H. right. apply IH. exact H.
  Qed.

  Lemma in_pair_aget : forall k m v, NoDup (akeys m) -> In (k, v) m -> aget keqb k m = Some v.
  Proof.
    intros k m v. unfold akeys. induction m as [|[k0 v0] t IH]; cbn [aget map fst In]; [intros _ []|].
    intros Hnd [H|H]; inversion Hnd as [|? ? Hn Hd]; subst.
    - inversion H; subst. rewrite keqb_refl. reflexivity.
    - destruct (keqb k k0) eqn:E.
      + apply keqb_eq in E. subst k0. exfalso. apply Hn. change k with (fst (k, v)). apply in_map. exact H.
      + apply IH; assumption.
  Qed.
End AMapFacts.

(* ------------------------------------------------------------------ prefixes *)

Lemma prefixb_iff : forall p s, prefixb p s = true <-> exists t, s = p ++ t.
Proof.
  induction p as [|x p IH]; intros s; cbn [prefixb].
  - split; [intros _; exists s; reflexivity|reflexivity].
  - destruct s as [|y s].
    + split; [discriminate|intros [t H]; discriminate].
    + rewrite andb_true_iff, N.eqb_eq, IH. split.
      * intros [H [t Ht]]. subst. exists t. reflexivity.
      * intros [t Ht]. cbn [app] in Ht. inversion Ht. split; [reflexivity|exists t; reflexivity].
Qed.

Lemma prefixb_longer : forall k x, prefixb (k ++ [x]) k = false.
Proof.
  intros k x. destruct (prefixb (k ++ [x]) k) eqn:E; [|reflexivity].
  apply prefixb_iff in E. destruct E as [t Ht]. apply (f_equal (@length N)) in Ht.
  rewrite !app_length in Ht. cbn [length] in Ht. lia.
Qed.

Lemma skipn_all_app : forall {A} (a b : list A), skipn (length a) (a ++ b) = b.
Proof. intros A a b. induction a as [|x a IH]; [reflexivity|exact IH]. Qed.
