(* Proofs for the LRUCache part of C13. *)
From Coq Require Import List NArith ZArith Bool Lia Sorting.Sorted.
From K.Model Require Import C13.
Import ListNotations.
Local Open Scope N_scope.

(* ---------- generic list facts ---------- *)
Lemma In_skipn {A} (x : A) n l : In x (skipn n l) -> In x l.
Proof. intros H. rewrite <- (firstn_skipn n l). apply in_or_app. right. exact H. Qed.

Lemma NoDup_map_filter {A B} (f : A -> B) p l : NoDup (map f l) -> NoDup (map f (filter p l)).
Proof.
  induction l as [|x t IH]; cbn [filter map]; [auto|]. intros Hnd. inversion Hnd as [|? ? Hx Ht]; subst.
  destruct (p x); cbn [map]; [|auto]. constructor; [|auto].
  intros Hi. apply Hx. apply in_map_iff in Hi. destruct Hi as [y [Hy Hi]]. apply filter_In in Hi.
  apply in_map_iff. exists y. tauto.
Qed.

Lemma NoDup_app_r {A} (a b : list A) : NoDup (a ++ b) -> NoDup b.
Proof.
  induction a as [|x a IH]; cbn [app]; [auto|]. intros H. inversion H; subst. auto.
Qed.

Lemma NoDup_map_skipn {A B} (f : A -> B) n l : NoDup (map f l) -> NoDup (map f (skipn n l)).
Proof.
  intros H. rewrite <- (firstn_skipn n l) in H. rewrite map_app in H.
  apply NoDup_app_r in H. exact H.
Qed.

Lemma NoDup_snoc {A} (l : list A) x : NoDup l -> ~ In x l -> NoDup (l ++ [x]).
Proof.
  induction l as [|a l IH]; cbn [app]; intros Hnd Hx.
  - constructor; [intros []|constructor].
  - inversion Hnd as [|? ? Ha Hl]; subst. constructor.
    + rewrite in_app_iff. cbn [In]. intros [Hi|[He|[]]]; [exact (Ha Hi)|]. apply Hx. left. symmetry. exact He.
    + apply IH; [exact Hl|]. intros Hi. apply Hx. right. exact Hi.
Qed.

Lemma filter_length_le {A} (p : A -> bool) l : (length (filter p l) <= length l)%nat.
Proof. induction l as [|x t IH]; cbn [filter length]; [lia|]. destruct (p x); cbn [length]; lia. Qed.

Section Sorted.
  Context {A : Type} (R : A -> A -> Prop).

  Lemma SS_filter p l : StronglySorted R l -> StronglySorted R (filter p l).
  Proof.
    induction l as [|x t IH]; cbn [filter]; intros H; [constructor|].
    apply StronglySorted_inv in H. destruct H as [Ht Hx].
    destruct (p x); [|auto]. constructor; [auto|].
    rewrite Forall_forall in *. intros y Hy. apply filter_In in Hy. apply Hx. tauto.
  Qed.

  Lemma SS_skipn n : forall l, StronglySorted R l -> StronglySorted R (skipn n l).
  Proof.
    induction n as [|n IH]; intros l H; cbn [skipn]; [exact H|].
    destruct l as [|x t]; [constructor|]. apply IH. apply StronglySorted_inv in H. tauto.
  Qed.

  Lemma SS_snoc l y : StronglySorted R l -> (forall x, In x l -> R x y) -> StronglySorted R (l ++ [y]).
  Proof.
    induction l as [|x t IH]; cbn [app]; intros H Hy.
    - constructor; constructor.
    - apply StronglySorted_inv in H. destruct H as [Ht Hx]. constructor.
      + apply IH; [exact Ht|]. intros z Hz. apply Hy. right. exact Hz.
      + rewrite Forall_forall in *. intros z Hz. apply in_app_iff in Hz. destruct Hz as [Hz|[<-|[]]].
        * apply Hx. exact Hz.
        * apply Hy. left. reflexivity.
  Qed.

  Lemma SS_app_lt a b : StronglySorted R (a ++ b) -> forall x y, In x a -> In y b -> R x y.
  Proof.
    induction a as [|z a IH]; cbn [app]; intros H x y Hx Hy; [destruct Hx|].
    apply StronglySorted_inv in H. destruct H as [Ht Hz]. destruct Hx as [<-|Hx].
    - rewrite Forall_forall in Hz. apply Hz. apply in_or_app. right. exact Hy.
    - exact (IH Ht x y Hx Hy).
  Qed.
End Sorted.

(* ---------- association-list facts ---------- *)
Lemma lookT_cons_eq k v g : lookT k ((k, v) :: g) = Some v.
Proof. unfold lookT. cbn [find fst]. rewrite N.eqb_refl. reflexivity. Qed.

Lemma lookT_cons_ne k k' v g : k <> k' -> lookT k ((k', v) :: g) = lookT k g.
Proof. intros H. unfold lookT. cbn [find fst]. destruct (N.eqb_spec k k'); [contradiction|reflexivity]. Qed.

Lemma lookT_delT_ne k k' g : k <> k' -> lookT k (delT k' g) = lookT k g.
Proof.
  intros H. unfold lookT, delT. induction g as [|x g IH]; cbn [filter find]; [reflexivity|].
  destruct (N.eqb_spec k' (fst x)) as [He|Hne]; cbn [negb find].
  - destruct (N.eqb_spec k (fst x)) as [He'|_]; [congruence | exact IH].
  - destruct (N.eqb k (fst x)); [reflexivity | exact IH].
Qed.

Lemma lookT_delT_eq k g : lookT k (delT k g) = None.
Proof.
  unfold lookT, delT. induction g as [|x g IH]; cbn [filter find]; [reflexivity|].
  destruct (N.eqb_spec k (fst x)) as [He|Hne]; cbn [negb find]; [exact IH|].
  destruct (N.eqb_spec k (fst x)); [contradiction | exact IH].
Qed.

Lemma In_delL e k l : In e (delL k l) <-> In e l /\ l_key e <> k.
Proof.
  unfold delL. rewrite filter_In. split; intros [Hi Hn]; (split; [exact Hi|]).
  - intros He. rewrite He, N.eqb_refl in Hn. discriminate.
  - destruct (N.eqb_spec k (l_key e)); [congruence | reflexivity].
Qed.

Lemma findL_none k l : findL k l = None -> ~ In k (map l_key l).
Proof.
  unfold findL. induction l as [|e t IH]; cbn [find map In]; [tauto|].
  destruct (N.eqb_spec k (l_key e)) as [->|Hne]; [discriminate|].
  intros H [Heq|Hin]; [congruence | exact (IH H Hin)].
Qed.

Lemma findL_some k l e : findL k l = Some e -> In e l /\ l_key e = k.
Proof.
  unfold findL. intros H. apply find_some in H. destruct H as [Hi He].
  apply N.eqb_eq in He. split; [exact Hi | symmetry; exact He].
Qed.

Lemma findL_in k l : In k (map l_key l) -> exists e, findL k l = Some e.
Proof.
  intros Hi. destruct (findL k l) eqn:E; [eauto|]. exfalso. exact (findL_none _ _ E Hi).
Qed.

Lemma delL_shorter k l e : findL k l = Some e -> (S (length (delL k l)) <= length l)%nat.
Proof.
  unfold findL, delL. induction l as [|x t IH]; cbn [find filter length]; [discriminate|].
  destruct (N.eqb_spec k (l_key x)) as [He|Hne]; cbn [negb length].
  - intros _. pose proof (filter_length_le (fun e0 => negb (N.eqb k (l_key e0))) t). lia.
  - intros H. specialize (IH H). lia.
Qed.

(* ---------- the invariant ---------- *)
Definition stamp_lt (a b : lent) : Prop := l_stamp a < l_stamp b.
Definition touched (ttl : Z) (g : list touch) (e : lent) : Prop :=
  lookT (l_key e) g = Some ((l_exp e - ttl)%Z, l_stamp e).

Record LINV (c : lru) (g : list touch) : Prop := mkLINV {
  li_nodup : NoDup (map l_key (l_ents c));
  li_touch : forall e, In e (l_ents c) -> touched (l_ttl c) g e;
  li_sorted : StronglySorted stamp_lt (l_ents c);
  li_stamps : forall e, In e (l_ents c) -> l_stamp e < l_tick c;
  li_len : (0 < l_size c)%Z -> (Z.of_nat (length (l_ents c)) <= l_size c)%Z
}.

Lemma LINV_init size ttl : LINV (linit size ttl) [].
Proof.
  apply mkLINV; unfold linit; cbn [l_ents l_size map length].
  - constructor.
  - intros e [].
  - constructor.
  - intros e [].
  - intros. lia.
Qed.

(* the list an Add of a NEW key works on, before eviction *)
Lemma pre_evict c g k now :
  LINV c g -> findL k (l_ents c) = None ->
  let e := mkL k (now + l_ttl c)%Z (l_tick c) in
  let L0 := l_ents c ++ [e] in
  let g' := tstep g (l_tick c) (LAdd k now) in
  NoDup (map l_key L0) /\ (forall x, In x L0 -> touched (l_ttl c) g' x)
  /\ StronglySorted stamp_lt L0 /\ (forall x, In x L0 -> l_stamp x < l_tick c + 1).
Proof.
  intros [Hnd Hto Hso Hst Hle] Hf e L0 g'. pose proof (findL_none _ _ Hf) as Hk.
  repeat split.
  - unfold L0. rewrite map_app. apply NoDup_snoc; assumption.
  - intros x Hx. unfold L0 in Hx. apply in_app_iff in Hx. destruct Hx as [Hx|[<-|[]]].
    + unfold touched, g'. cbn [tstep].
      assert (Hne : l_key x <> k) by (intros He; apply Hk; rewrite <- He; apply in_map; exact Hx).
      rewrite lookT_cons_ne, lookT_delT_ne by exact Hne. apply Hto. exact Hx.
    + unfold touched, g'. cbn [tstep e l_key l_exp l_stamp]. rewrite lookT_cons_eq. f_equal. f_equal. lia.
  - unfold L0. apply SS_snoc; [exact Hso|]. intros x Hx. unfold stamp_lt, e. cbn [l_stamp]. apply Hst. exact Hx.
  - intros x Hx. unfold L0 in Hx. apply in_app_iff in Hx. destruct Hx as [Hx|[<-|[]]].
    + specialize (Hst x Hx). lia.
    + unfold e. cbn [l_stamp]. lia.
Qed.

Lemma evict_len size now l :
  (0 < size)%Z -> (Z.of_nat (length (evict size now l)) <= size)%Z.
Proof.
  intros Hs. unfold evict, drop_excess. rewrite skipn_length. lia.
Qed.

Lemma lstep_inv c g o :
  LINV c g -> LINV (fst (lstep c o)) (tstep g (l_tick c) o).
Proof.
  intros H. destruct o as [k now|k now|k| |]; cbn [lstep tstep].
  - destruct (findL k (l_ents c)) as [e0|] eqn:Ef; cbn [fst].
    + (* refresh *)
      destruct H as [Hnd Hto Hso Hst Hle].
      assert (Hkd : ~ In k (map l_key (delL k (l_ents c)))).
      { intros Hi. apply in_map_iff in Hi. destruct Hi as [x [Hx Hi]]. apply In_delL in Hi. tauto. }
      constructor; cbn [l_ents l_ttl l_tick l_size].
      * rewrite map_app. apply NoDup_snoc; [apply NoDup_map_filter; exact Hnd | exact Hkd].
      * intros x Hx. apply in_app_iff in Hx. destruct Hx as [Hx|[<-|[]]].
        -- apply In_delL in Hx. destruct Hx as [Hx Hne]. unfold touched.
           rewrite lookT_cons_ne, lookT_delT_ne by exact Hne. apply Hto. exact Hx.
        -- unfold touched. cbn [l_key l_exp l_stamp]. rewrite lookT_cons_eq. f_equal. f_equal. lia.
      * apply SS_snoc; [apply SS_filter; exact Hso|]. intros x Hx. apply In_delL in Hx.
        unfold stamp_lt. cbn [l_stamp]. apply Hst. tauto.
      * intros x Hx. apply in_app_iff in Hx. destruct Hx as [Hx|[<-|[]]].
        -- apply In_delL in Hx. destruct Hx as [Hx _]. specialize (Hst x Hx). lia.
        -- cbn [l_stamp]. lia.
      * intros Hs. specialize (Hle Hs). rewrite app_length. cbn [length].
        pose proof (delL_shorter _ _ _ Ef). lia.
    + (* new key, then evict *)
      pose proof (pre_evict c g k now H Ef) as [Hnd [Hto [Hso Hst]]]. cbn [tstep] in Hto.
      constructor; cbn [l_ents l_ttl l_tick l_size]; unfold evict, drop_excess.
      * apply NoDup_map_skipn, NoDup_map_filter. exact Hnd.
      * intros x Hx. apply In_skipn in Hx. apply filter_In in Hx. apply Hto. tauto.
      * apply SS_skipn, SS_filter. exact Hso.
      * intros x Hx. apply In_skipn in Hx. apply filter_In in Hx. apply Hst. tauto.
      * intros Hs. apply (evict_len _ now _ Hs).
  - destruct H as [Hnd Hto Hso Hst Hle]. constructor; cbn [fst l_ents l_ttl l_tick l_size]; try assumption.
    intros x Hx. specialize (Hst x Hx). lia.
  - destruct H as [Hnd Hto Hso Hst Hle]. constructor; cbn [fst l_ents l_ttl l_tick l_size].
    + apply NoDup_map_filter. exact Hnd.
    + intros x Hx. apply In_delL in Hx. destruct Hx as [Hx Hne]. unfold touched.
      rewrite lookT_delT_ne by exact Hne. apply Hto. exact Hx.
    + apply SS_filter. exact Hso.
    + intros x Hx. apply In_delL in Hx. destruct Hx as [Hx _]. specialize (Hst x Hx). lia.
    + intros Hs. specialize (Hle Hs).
      pose proof (filter_length_le (fun e0 => negb (N.eqb k (l_key e0))) (l_ents c)). unfold delL. lia.
  - destruct H as [Hnd Hto Hso Hst Hle]. constructor; cbn [fst l_ents l_ttl l_tick l_size]; try assumption.
    intros x Hx. specialize (Hst x Hx). lia.
  - apply mkLINV; cbn [fst l_ents l_ttl l_tick l_size map length].
    + constructor.
    + intros e [].
    + constructor.
    + intros e [].
    + intros. lia.
Qed.

Lemma lstep_params c o :
  l_size (fst (lstep c o)) = l_size c /\ l_ttl (fst (lstep c o)) = l_ttl c
  /\ l_tick (fst (lstep c o)) = l_tick c + 1.
Proof.
  destruct o as [k now|k now|k| |]; cbn [lstep]; try (cbn; tauto).
  destruct (findL k (l_ents c)); cbn; tauto.
Qed.

(* ---------- histories ---------- *)
Lemma lrun_inv ops : forall c g,
  LINV c g -> LINV (fst (lrun c ops)) (ghost g (l_tick c) (map fst ops)).
Proof.
  induction ops as [|[o at_] ops IH]; intros c g H; cbn [lrun map fst ghost]; [exact H|].
  pose proof (lstep_inv c g o H) as H1. pose proof (lstep_params c o) as [_ [_ Ht]].
  destruct (lstep c o) as [c1 r]. cbn [fst] in *.
  specialize (IH c1 _ H1). rewrite Ht in IH.
  destruct (lrun c1 ops) as [c2 rs]. exact IH.
Qed.

Lemma lrun_params ops : forall c,
  l_size (fst (lrun c ops)) = l_size c /\ l_ttl (fst (lrun c ops)) = l_ttl c
  /\ l_tick (fst (lrun c ops)) = l_tick c + N.of_nat (length ops).
Proof.
  induction ops as [|[o at_] ops IH]; intros c; cbn [lrun length]; [cbn [fst]; repeat split; lia|].
  pose proof (lstep_params c o) as [Hs [Ht Hk]].
  destruct (lstep c o) as [c1 r]. cbn [fst] in *.
  specialize (IH c1). destruct (lrun c1 ops) as [c2 rs]. cbn [fst] in *.
  destruct IH as [Is [It Ik]]. repeat split; try congruence. lia.
Qed.

Lemma reach_inv size ttl ops :
  LINV (fst (lrun (linit size ttl) ops)) (ghost [] 0 (map fst ops)).
Proof. exact (lrun_inv ops (linit size ttl) [] (LINV_init size ttl)). Qed.

(* never more keys than configured (Size <> 0 after defaults; negative Size is a config error) *)
Lemma lru_bound size ttl ops :
  (0 <= size)%Z ->
  (Z.of_nat (length (l_ents (fst (lrun (linit size ttl) ops)))) <= l_size (linit size ttl))%Z.
Proof.
  intros Hs. pose proof (reach_inv size ttl ops) as H. pose proof (lrun_params ops (linit size ttl)) as [Hsz _].
  rewrite <- Hsz. apply (li_len _ _ H). rewrite Hsz. unfold linit. cbn [l_size].
  destruct (Z.eqb_spec size 0); unfold lru_default_size; lia.
Qed.

(* Has never reports an expired key: a key reported at `now` was last added/refreshed (and not
   deleted since) at some t with now <= t + TTL *)
Lemma lru_no_expired size ttl ops k now :
  let c := fst (lrun (linit size ttl) ops) in
  snd (lstep c (LHas k now)) = OBool true ->
  exists t j, last_touch (map fst ops) k = Some (t, j) /\ (now <= t + l_ttl c)%Z.
Proof.
  intros c Hout. pose proof (reach_inv size ttl ops) as H. fold c in H.
  cbn [lstep snd] in Hout. destruct (findL k (l_ents c)) as [e|] eqn:Ef; [|discriminate].
  injection Hout as Hl. apply findL_some in Ef. destruct Ef as [Hi Hk].
  pose proof (li_touch _ _ H e Hi) as Ht. unfold touched in Ht. rewrite Hk in Ht.
  exists (l_exp e - l_ttl c)%Z, (l_stamp e). split; [exact Ht|].
  unfold live in Hl. apply Z.leb_le in Hl. lia.
Qed.

(* what last_touch means, in terms of the history alone *)
Lemma ghost_app a : forall g i b,
  ghost g i (a ++ b) = ghost (ghost g i a) (i + N.of_nat (length a)) b.
Proof.
  induction a as [|o a IH]; intros g i b; cbn [app ghost length].
  - f_equal. lia.
  - rewrite IH. f_equal. lia.
Qed.

Lemma last_touch_spec hist : forall k t j,
  last_touch hist k = Some (t, j) ->
  nth_error hist (N.to_nat j) = Some (LAdd k t)
  /\ forall j' o, (N.to_nat j < j')%nat -> nth_error hist j' = Some o -> undoes k o = false.
Proof.
  unfold last_touch. induction hist as [|o hist IH] using rev_ind; intros k t j; [cbn; discriminate|].
  rewrite ghost_app. cbn [ghost]. rewrite N.add_0_l. set (g := ghost [] 0 hist) in *.
  assert (Hkeep : lookT k g = Some (t, j) -> undoes k o = false ->
            nth_error (hist ++ [o]) (N.to_nat j) = Some (LAdd k t)
            /\ forall j' o', (N.to_nat j < j')%nat -> nth_error (hist ++ [o]) j' = Some o' -> undoes k o' = false).
  { intros Hl Hno. destruct (IH k t j Hl) as [Hn Hlater].
    assert (Hj : (N.to_nat j < length hist)%nat) by (apply nth_error_Some; congruence).
    split; [rewrite nth_error_app1 by exact Hj; exact Hn|].
    intros j' o' Hlt Hnth. destruct (Nat.lt_ge_cases j' (length hist)) as [Hin|Hout].
    - rewrite nth_error_app1 in Hnth by exact Hin. exact (Hlater j' o' Hlt Hnth).
    - rewrite nth_error_app2 in Hnth by exact Hout.
      destruct (j' - length hist)%nat as [|n] eqn:En; cbn [nth_error] in Hnth.
      + injection Hnth as <-. exact Hno.
      + destruct n; discriminate. }
  destruct o as [k' now|k' now|k'| |]; cbn [tstep].
  - destruct (N.eq_dec k k') as [<-|Hne].
    + rewrite lookT_cons_eq. intros [= <- <-]. rewrite Nat2N.id. split.
      * rewrite nth_error_app2 by lia. rewrite Nat.sub_diag. reflexivity.
      * intros j' o' Hlt Hnth. assert (j' < length (hist ++ [LAdd k now]))%nat by (apply nth_error_Some; congruence).
        rewrite app_length in *. cbn [length] in *. lia.
    + rewrite lookT_cons_ne, lookT_delT_ne by exact Hne. intros Hl. apply Hkeep; [exact Hl|]. cbn [undoes]. apply N.eqb_neq. congruence.
  - intros Hl. apply Hkeep; [exact Hl | reflexivity].
  - destruct (N.eq_dec k k') as [<-|Hne].
    + rewrite lookT_delT_eq. discriminate.
    + rewrite lookT_delT_ne by exact Hne. intros Hl. apply Hkeep; [exact Hl|]. cbn [undoes]. apply N.eqb_neq. congruence.
  - intros Hl. apply Hkeep; [exact Hl | reflexivity].
  - cbn. discriminate.
Qed.

(* ---------- eviction order ---------- *)
Lemma lookT_older g v w tv sv tw sw :
  lookT v g = Some (tv, sv) -> lookT w g = Some (tw, sw) -> sv < sw -> older g v w = true.
Proof. intros Hv Hw Hlt. unfold older. rewrite Hv, Hw. apply N.ltb_lt. exact Hlt. Qed.

(* a key that is present, unexpired at the Add and gone afterwards was dropped for size: it is
   older than everything kept, and the cache was full of unexpired keys *)
Lemma ladd_dropped c g k now ev :
  LINV c g -> (0 < l_size c)%Z ->
  let c' := fst (lstep c (LAdd k now)) in
  let g' := tstep g (l_tick c) (LAdd k now) in
  In ev (l_ents c) -> l_key ev <> k -> live now ev = true ->
  ~ In (l_key ev) (map l_key (l_ents c')) ->
  (forall w, In w (map l_key (l_ents c')) -> older g' (l_key ev) w = true)
  /\ (l_size c < Z.of_nat (length (filter (live now) (l_ents c))) + 1)%Z.
Proof.
  intros H Hs c' g' Hev Hne Hlive Hgone. unfold c', g' in *. cbn [lstep] in *.
  destruct (findL k (l_ents c)) as [e0|] eqn:Ef; cbn [fst l_ents] in *.
  - exfalso. apply Hgone. rewrite map_app. apply in_or_app. left. apply in_map. apply In_delL. tauto.
  - pose proof (pre_evict c g k now H Ef) as [Hnd [Hto [Hso Hst]]].
    set (e := mkL k (now + l_ttl c)%Z (l_tick c)) in *.
    set (F := filter (live now) (l_ents c ++ [e])) in *.
    unfold evict, drop_excess in *. fold F in Hgone |- *.
    set (d := (length F - Z.to_nat (l_size c))%nat) in *.
    assert (HF : In ev F) by (apply filter_In; split; [apply in_or_app; left; exact Hev | exact Hlive]).
    assert (Hfirst : In ev (firstn d F)).
    { rewrite <- (firstn_skipn d F) in HF. apply in_app_iff in HF. destruct HF as [HF|HF]; [exact HF|].
      exfalso. apply Hgone. apply in_map. exact HF. }
    assert (HsoF : StronglySorted stamp_lt (firstn d F ++ skipn d F)).
    { rewrite firstn_skipn. apply SS_filter. exact Hso. }
    split.
    + intros w Hw. apply in_map_iff in Hw. destruct Hw as [ew [<- Hew]].
      pose proof (SS_app_lt stamp_lt _ _ HsoF ev ew Hfirst Hew) as Hlt.
      assert (Hev0 : In ev (l_ents c ++ [e])) by (apply in_or_app; left; exact Hev).
      assert (Hew0 : In ew (l_ents c ++ [e])) by (apply In_skipn in Hew; apply filter_In in Hew; tauto).
      exact (lookT_older _ _ _ _ _ _ _ (Hto ev Hev0) (Hto ew Hew0) Hlt).
    + assert (Hd : (0 < d)%nat).
      { destruct d; [destruct Hfirst | lia]. }
      assert (HlenF : (length F <= length (filter (live now) (l_ents c)) + 1)%nat).
      { unfold F. rewrite filter_app, app_length.
        pose proof (filter_length_le (live now) [e]). cbn [length] in *. lia. }
      unfold d in Hd. lia.
Qed.

Lemma lru_order size ttl ops k now v w :
  (0 <= size)%Z ->
  let c := fst (lrun (linit size ttl) ops) in
  let c' := fst (lstep c (LAdd k now)) in
  let hist' := map fst ops ++ [LAdd k now] in
  (exists ev, In ev (l_ents c) /\ l_key ev = v /\ live now ev = true) -> v <> k ->
  ~ In v (map l_key (l_ents c')) ->
  (In w (map l_key (l_ents c')) ->
     exists tv jv tw jw, last_touch hist' v = Some (tv, jv) /\ last_touch hist' w = Some (tw, jw) /\ jv < jw)
  /\ (l_size c < Z.of_nat (length (filter (live now) (l_ents c))) + 1)%Z.
Proof.
  intros Hsz c c' hist' [ev [Hev [Hk Hlive]]] Hne Hgone.
  pose proof (reach_inv size ttl ops) as H. fold c in H.
  pose proof (lrun_params ops (linit size ttl)) as [Hs [_ Htick]]. fold c in Hs, Htick.
  assert (Hpos : (0 < l_size c)%Z).
  { rewrite Hs. unfold linit. cbn [l_size]. destruct (Z.eqb_spec size 0); unfold lru_default_size; lia. }
  subst v. destruct (ladd_dropped c _ k now ev H Hpos Hev Hne Hlive Hgone) as [Hold Hfull].
  split; [|exact Hfull]. intros Hw. specialize (Hold w Hw).
  assert (Hg : ghost [] 0 hist' = tstep (ghost [] 0 (map fst ops)) (l_tick c) (LAdd k now)).
  { unfold hist'. rewrite ghost_app. cbn [ghost]. rewrite Htick. unfold linit. cbn [l_tick].
    rewrite map_length. reflexivity. }
  unfold last_touch. rewrite Hg. unfold older in Hold.
  destruct (lookT (l_key ev) _) as [[tv jv]|]; [|discriminate].
  destruct (lookT w _) as [[tw jw]|]; [|discriminate].
  exists tv, jv, tw, jw. repeat split. apply N.ltb_lt. exact Hold.
Qed.

(* ---------- the executable LRU oracle is sound on the model ---------- *)
Lemma memN_In x l : memN x l = true <-> In x l.
Proof.
  unfold memN. rewrite existsb_exists. split.
  - intros [y [Hy He]]. apply N.eqb_eq in He. subst. exact Hy.
  - intros H. exists x. split; [exact H | apply N.eqb_refl].
Qed.

Lemma touched_report ttl g e at_ :
  touched ttl g e -> may_report ttl g at_ (l_key e) = live at_ e.
Proof.
  unfold touched, may_report, live. intros ->. f_equal. lia.
Qed.

Lemma snap_keys_incl at_ l v :
  In v (map l_key (filter (live at_) l)) -> In v (map l_key l).
Proof.
  intros H. apply in_map_iff in H. destruct H as [e [He Hi]]. apply filter_In in Hi.
  apply in_map_iff. exists e. tauto.
Qed.

Lemma lcheck_sound_gen ops : forall c g prevH,
  LINV c g -> (0 < l_size c)%Z -> ltimes_ok ops = true ->
  (forall v, In v prevH -> In v (map l_key (l_ents c))) ->
  lcheck_from (l_size c) (l_ttl c) g (l_tick c) prevH ops (snd (lrun c ops)) = true.
Proof.
  induction ops as [|[o at_] ops IH]; intros c g prevH H Hpos Htimes Hprev; cbn [lrun]; [reflexivity|].
  unfold ltimes_ok in Htimes. cbn [forallb fst snd] in Htimes. apply andb_true_iff in Htimes.
  destruct Htimes as [Hnow Htimes]. apply Z.leb_le in Hnow.
  pose proof (lstep_inv c g o H) as H1. pose proof (lstep_params c o) as [Hsz [Httl Htick]].
  destruct (lstep c o) as [c1 r] eqn:E. cbn [fst] in *.
  assert (Hpos1 : (0 < l_size c1)%Z) by (rewrite Hsz; exact Hpos).
  specialize (IH c1 _ (map l_key (filter (live at_) (l_ents c1))) H1 Hpos1 Htimes (snap_keys_incl at_ (l_ents c1))).
  rewrite Hsz, Httl, Htick in IH.
  destruct (lrun c1 ops) as [c2 rs]. cbn [snd] in *.
  cbn [lcheck_from lsnap]. set (g' := tstep g (l_tick c) o) in *.
  set (Hs := map l_key (filter (live at_) (l_ents c1))) in *.
  repeat (apply andb_true_iff; split); [| | | |exact IH].
  - (* bound *)
    apply Z.leb_le. pose proof (li_len _ _ H1 Hpos1). lia.
  - (* only unexpired keys are reported *)
    apply forallb_forall. intros k Hk. unfold Hs in Hk. apply in_map_iff in Hk. destruct Hk as [e [<- He]].
    apply filter_In in He. destruct He as [He Hl].
    rewrite <- Httl. rewrite (touched_report _ _ _ at_ (li_touch _ _ H1 e He)). exact Hl.
  - (* Has *)
    destruct o as [k now|k now|k| |]; try reflexivity.
    cbn [lstep] in E. injection E as _ <-.
    destruct (findL k (l_ents c)) as [e|] eqn:Ef; [|reflexivity].
    destruct (live now e) eqn:El; [|reflexivity].
    apply findL_some in Ef. destruct Ef as [Hi <-].
    rewrite (touched_report _ _ _ now (li_touch _ _ H e Hi)). exact El.
  - (* eviction order *)
    destruct o as [k now|k now|k| |]; try reflexivity.
    cbn [lop_time] in Hnow.
    apply forallb_forall. intros v Hv.
    destruct (memN v Hs) eqn:Emem; [reflexivity|]. cbn [orb].
    destruct (N.eqb_spec v k) as [Hvk|Hvk]; [reflexivity|]. cbn [orb].
    destruct (may_report (l_ttl c) g' at_ v) eqn:Em; [|reflexivity]. cbn [negb orb].
    specialize (Hprev v Hv). apply in_map_iff in Hprev. destruct Hprev as [ev [Hkey Hev]]. subst v.
    assert (Hlive_at : live at_ ev = true).
    { rewrite <- (touched_report _ _ _ at_ (li_touch _ _ H ev Hev)).
      unfold g' in Em. cbn [tstep] in Em. unfold may_report in *.
      rewrite lookT_cons_ne, lookT_delT_ne in Em by exact Hvk. exact Em. }
    assert (Hlive : live now ev = true).
    { unfold live in *. apply Z.leb_le in Hlive_at. apply Z.leb_le. lia. }
    assert (Hc1 : c1 = fst (lstep c (LAdd k now))) by (rewrite E; reflexivity).
    assert (Hgone : ~ In (l_key ev) (map l_key (l_ents (fst (lstep c (LAdd k now)))))).
    { rewrite <- Hc1. intros Hin. apply in_map_iff in Hin. destruct Hin as [e1 [Hk1 He1]].
      assert (Hl1 : live at_ e1 = true).
      { rewrite <- (touched_report _ _ _ at_ (li_touch _ _ H1 e1 He1)). rewrite Hk1, Httl. exact Em. }
      assert (Hin : In (l_key ev) Hs).
      { unfold Hs. apply in_map_iff. exists e1. split; [exact Hk1|]. apply filter_In. tauto. }
      apply memN_In in Hin. congruence. }
    destruct (ladd_dropped c g k now ev H Hpos Hev Hvk Hlive Hgone) as [Hold _].
    apply forallb_forall. intros w Hw. apply Hold. rewrite <- Hc1.
    exact (snap_keys_incl at_ _ w Hw).
Qed.

Lemma lru_check_sound size ttl ops :
  C13_lru_check size ttl ops (snd (lrun (linit size ttl) ops)) = true.
Proof.
  unfold C13_lru_check.
  destruct ((0 <? l_size (linit size ttl))%Z && ltimes_ok ops) eqn:Hg; [|reflexivity].
  apply andb_true_iff in Hg. destruct Hg as [Hpos Ht]. apply Z.ltb_lt in Hpos.
  apply (lcheck_sound_gen ops (linit size ttl) [] []); [apply LINV_init | exact Hpos | exact Ht|].
  intros v [].
Qed.

(* ---------- the defaults of config.go:26-34, tied to the source by Gen/C13_consts.v ---------- *)
From K.Gen Require C13_consts.
Lemma defaults_tied :
  lru_default_size = C13_consts.lru_default_size_src
  /\ (lru_default_ttl_us * 1000 = C13_consts.lru_default_ttl_ns_src)%Z.
Proof. split; reflexivity. Qed.

(* ---------- lock-convoy pairs on the LRU ---------- *)
Lemma lru_pair_check_sound size ttl pre a b at_ :
  let c := fst (lrun (linit size ttl) pre) in
  let c2 := fst (lstep (fst (lstep c a)) b) in
  C13_lru_pair_check size ttl pre (snd (lrun (linit size ttl) pre)) a b at_ (lsnap c2 at_) = true.
Proof.
  intros c c2. unfold C13_lru_pair_check.
  destruct ((0 <? l_size (linit size ttl))%Z && ltimes_ok pre) eqn:Hg; [|reflexivity].
  apply andb_true_iff in Hg. destruct Hg as [Hpos Ht]. apply Z.ltb_lt in Hpos.
  pose proof (reach_inv size ttl pre) as H. fold c in H.
  pose proof (lrun_params pre (linit size ttl)) as [Hsz [Httl Htick]]. fold c in Hsz, Httl, Htick.
  assert (Hi : l_tick c = N.of_nat (length pre)) by (rewrite Htick; unfold linit; cbn [l_tick]; lia).
  pose proof (lstep_inv c _ a H) as H1. pose proof (lstep_params c a) as [Hs1 [Ht1 Hk1]].
  pose proof (lstep_inv _ _ b H1) as H2. pose proof (lstep_params (fst (lstep c a)) b) as [Hs2 [Ht2 Hk2]].
  fold c2 in H2, Hs2, Ht2. rewrite Hk1, Hi in H2.
  repeat (apply andb_true_iff; split).
  - apply (lcheck_sound_gen pre (linit size ttl) [] []); [apply LINV_init | exact Hpos | exact Ht | intros v []].
  - apply Z.leb_le. unfold lsnap. cbn [fst].
    assert (Hp2 : (0 < l_size c2)%Z) by (rewrite Hs2, Hs1, Hsz; exact Hpos).
    pose proof (li_len _ _ H2 Hp2). rewrite Hs2, Hs1, Hsz in *. lia.
  - apply orb_true_iff. left. apply forallb_forall. intros k Hk. unfold lsnap in Hk. cbn [snd] in Hk.
    apply in_map_iff in Hk. destruct Hk as [e [<- He]]. apply filter_In in He. destruct He as [He Hl].
    pose proof (li_touch _ _ H2 e He) as Hto. rewrite Ht2, Ht1, Httl in Hto.
    rewrite (touched_report _ _ _ at_ Hto). exact Hl.
Qed.
