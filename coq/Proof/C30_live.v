(* progress without a restart: from every reachable state with a live manager the pending work can
   be drained by enabled steps, after which a poll pass executes any stored task *)
From Coq Require Import List NArith Bool Lia Arith.
From K.Model Require Import Retry.
From K.Proof Require Import Retry.
Import ListNotations.
Local Open Scope N_scope.

Definition nq (q : qk) (l : list wst) : N := len (map w_t (filter (fun w => qk_eqb (w_q w) q) l)).

Definition idle_ok (s : st) : Prop :=
  match s_mgr s with
  | None => True
  | Some m => m_idle_in m + nq QIn (m_work m) = c_inw (s_cfg s) /\
              m_idle_re m + nq QRe (m_work m) = c_rew (s_cfg s)
  end.

Lemma cfg_step s o : s_cfg (fst (step s o)) = s_cfg s.
Proof.
  destruct s as [c sto now mg log]. destruct o; unfold step; cbn [s_cfg s_store s_now s_mgr s_log];
    repeat match goal with
           | |- context[match ?x with _ => _ end] => destruct x
           end; reflexivity.
Qed.

Lemma log_step s o : exists l, s_log (fst (step s o)) = l ++ s_log s.
Proof.
  destruct s as [c sto now mg log]. destruct o; unfold step; cbn [s_cfg s_store s_now s_mgr s_log];
    repeat match goal with
           | |- context[match ?x with _ => _ end] => destruct x
           end; solve [exists []; reflexivity | eexists [_]; reflexivity].
Qed.

Lemma log_run ops : forall s, exists l, s_log (fst (run s ops)) = l ++ s_log s.
Proof.
  induction ops as [|o ops IH]; intros s; [exists []; reflexivity|].
  cbn [run]. destruct (log_step s o) as [l1 E1]. destruct (step s o) as [s1 r]. cbn [fst] in E1.
  destruct (IH s1) as [l2 E2]. destruct (run s1 ops) as [s2 rs]. cbn [fst] in *.
  exists (l2 ++ l1). rewrite E2, E1, app_assoc. reflexivity.
Qed.

Lemma nq_app q a b : nq q (a ++ b) = nq q a + nq q b.
Proof. unfold nq, len. rewrite filter_app, map_app, app_length. lia. Qed.

Lemma idle_step s o : idle_ok s -> idle_ok (fst (step s o)).
Proof.
  destruct s as [c sto now mg log]. unfold idle_ok. cbn [s_mgr s_cfg]. intros H.
  destruct o; unfold step, with_mgr, with_sm; cbn [s_cfg s_store s_now s_mgr s_log fst].
  - (* Start *) destruct mg as [m|]; [exact H|]. destruct (order_ok order (pending_ids sto)); [|exact I].
    cbn. unfold nq, len. cbn. split; lia.
  - (* StartCrash *) destruct mg as [m|]; [exact H|]. destruct (order_ok order (pending_ids sto)); exact I.
  - exact I.
  - destruct mg as [m|]; [|exact I]. all: try (destruct m; exact H).
  - destruct mg as [m|]; [|exact I]. destruct (m_closed m && _); exact H.
  - exact H.
  - destruct mg as [m|]; [|exact I]. destruct (existsb _ _); [exact H|]. destruct (m_closed m); [exact H|]. all: try (destruct m; exact H).
  - destruct mg as [m|]; [|exact I].
    destruct (pick _ _) as [[[b [a' [t d| |]]] af]|]; try exact H.
    destruct (add_row _ _ _ _ _); [destruct (d =? 0)|]; try (destruct m; exact H).
  - destruct mg as [m|]; [|exact I].
    destruct (pick _ _) as [[[b [a' [t d|t|t]]] af]|]; try exact H.
    destruct (has_room QIn c m); try (destruct m; exact H).
  - destruct mg as [m|]; [|exact I].
    destruct (pick _ _) as [[[b [a' [t d|t|t]]] af]|]; try exact H. all: try (destruct m; exact H).
  - destruct mg as [m|]; [|exact I]. destruct (m_poll m); [exact H|]. destruct (order_ok _ _); [|exact H]. all: try (destruct m; exact H).
  - destruct mg as [m|]; [|exact I].
    destruct (m_poll m) as [[[|r rest]|t rest|t rest]|]; try exact H.
    destruct (due _ _ _); [destruct (storedb _ _)|]; try (destruct m; exact H).
  - destruct mg as [m|]; [|exact I].
    destruct (m_poll m) as [[rest|t rest|t rest]|]; try exact H. destruct (has_room QRe c m); try (destruct m; exact H).
  - destruct mg as [m|]; [|exact I].
    destruct (m_poll m) as [[rest|t rest|t rest]|]; try exact H. all: try (destruct m; exact H).
  - (* Deq *) destruct mg as [m|]; [|exact I]. destruct H as [H1 H2].
    destruct (queue_of q m) as [|t tl]; [cbn; auto|]. destruct (0 <? idle_of q m) eqn:I0; [|cbn; auto].
    apply N.ltb_lt in I0. destruct m as [cl qi qr ii ir wk ad pl]. destruct q; cbn in *; unfold nq in *; cbn; unfold len in *; cbn [length]; split; lia.
  - (* ExecRet *) destruct mg as [m|]; [|exact I]. destruct H as [H1 H2].
    destruct (pick _ (m_work m)) as [[[b w] af]|] eqn:P; [|cbn; auto].
    apply pick_spec in P as [P _]. destruct m as [cl qi qr ii ir wk ad pl]. cbn in *. subst wk.
    rewrite !nq_app in *. unfold nq in *. cbn [filter w_q] in *. destruct (qk_eqb (w_q w) QIn), (qk_eqb (w_q w) QRe); cbn in *; split; assumption.
  - (* ExecFin *) destruct mg as [m|]; [|exact I]. destruct H as [H1 H2].
    destruct (pick _ (m_work m)) as [[[b w] af]|] eqn:P; [|cbn; auto].
    apply pick_spec in P as [P _]. destruct m as [cl qi qr ii ir wk ad pl]. cbn in P. subst wk.
    cbn [m_work m_idle_in m_idle_re] in H1, H2. rewrite !nq_app in H1, H2. unfold nq in H1, H2. cbn [filter w_q] in H1, H2.
    assert (G : idle_ok (mks c sto now (Some (set_idle (w_q w) (idle_of (w_q w) (mkm cl qi qr ii ir (b ++ w :: af) ad pl) + 1)
                 (set_work (b ++ af) (mkm cl qi qr ii ir (b ++ w :: af) ad pl)))) log)).
    { unfold idle_ok. cbn [s_mgr s_cfg]. destruct (w_q w) eqn:Q; cbn [set_idle set_work m_idle_in m_idle_re m_work idle_of qk_eqb] in *;
        rewrite !nq_app; unfold nq, len in *; cbn [map length] in *; split; lia. }
    destruct (w_ph w) as [|[|]]; cbn; exact G.
  - exact H.
Qed.

(* ---- a measure of the work a live manager still has in hand *)
Definition wp (p : option pstate) : nat :=
  match p with
  | None => 0
  | Some (PLoop l) => 5 * length l + 1
  | Some (PEnq _ l) => 5 * length l + 5
  | Some (PMark _ l) => 5 * length l + 2
  end.
Definition wa1 (a : astate) : nat := match a with AStore _ _ => 5 | AEnq _ => 4 | AMark _ => 1 end.
Definition wa (l : list (N * astate)) : nat := list_sum (map (fun p => wa1 (snd p)) l).
Definition ww1 (w : wst) : nat := match w_ph w with WRun => 2 | WFin _ => 1 end.
Definition ww (l : list wst) : nat := list_sum (map ww1 l).
Definition mu (m : mgr) : nat :=
  wp (m_poll m) + wa (m_add m) + ww (m_work m) + 3 * (length (m_in m) + length (m_re m)).

Definition no_restart (o : op) : bool :=
  match o with OpStart _ | OpStartCrash _ _ | OpCrash | OpClose => false | _ => true end.

Ltac nfq :=
  unfold with_mgr, with_sm, push, has_room;
  repeat (unfold set_add, set_poll, set_work, set_queue, set_idle, queue_of, idle_of, cap_of;
          cbn [s_cfg s_store s_now s_mgr s_log m_closed m_in m_re m_idle_in m_idle_re m_work m_add m_poll
               fst snd w_q w_t w_ph]).
Ltac mu_tac := nfq; cbn [app]; unfold mu, wp, wa, ww, ww1; cbn [m_poll m_add m_work m_in m_re map list_sum snd wa1 w_ph length app];
               unfold list_sum; cbn [fold_right map]; rewrite ?app_length; cbn [length app]; lia.

Lemma dec_step s m :
  idle_ok s -> cfg_ok (s_cfg s) = true -> s_mgr s = Some m -> (0 < mu m)%nat ->
  exists o m', no_restart o = true /\ snd (step s o) <> OIllegal /\
               s_mgr (fst (step s o)) = Some m' /\ (mu m' < mu m)%nat /\ m_closed m' = m_closed m.
Proof.
  destruct s as [c sto now mg log]. unfold idle_ok. cbn [s_mgr s_cfg]. intros HI C -> Pos.
  destruct m as [cl qi qr ii ir wk ad pl].
  destruct pl as [[[|r rest]|t rest|t rest]|].
  - exists OpPollNext. eexists. unfold step. nfq. repeat split; [discriminate|mu_tac].
  - exists OpPollNext. unfold step. cbn [s_mgr s_cfg s_store s_now m_poll].
    destruct (due (c_ri c) now r); [destruct (storedb (r_id r) sto)|]; eexists; nfq; repeat split; try discriminate; mu_tac.
  - exists OpPollEnq. unfold step. cbn [s_mgr s_cfg s_store s_now m_poll].
    destruct (has_room QRe c _); eexists; nfq; repeat split; try discriminate; mu_tac.
  - exists OpPollMark. eexists. unfold step. nfq. repeat split; [destruct (storedb t sto); discriminate|mu_tac].
  - destruct ad as [|[a x] ad].
    + destruct wk as [|w wk].
      * destruct qi as [|t qi].
        -- destruct qr as [|t qr]; [cbn in Pos; lia|].
           exists (OpDeq QRe). unfold step. cbn [s_mgr s_cfg s_store s_now queue_of m_re idle_of m_idle_re].
           destruct HI as [_ HI]. cbn in HI. assert (I0 : 0 <? ir = true).
           { apply N.ltb_lt. unfold cfg_ok in C. repeat (apply andb_true_iff in C as [C ?]).
             match goal with K : (1 <=? c_rew c) = true |- _ => apply N.leb_le in K end. unfold nq, len in HI. cbn in HI. lia. }
           rewrite I0. eexists. nfq. repeat split; [discriminate|mu_tac].
        -- exists (OpDeq QIn). unfold step. cbn [s_mgr s_cfg s_store s_now queue_of m_in idle_of m_idle_in].
           destruct HI as [HI _]. cbn in HI. assert (I0 : 0 <? ii = true).
           { apply N.ltb_lt. unfold cfg_ok in C. repeat (apply andb_true_iff in C as [C ?]).
             match goal with K : (1 <=? c_inw c) = true |- _ => apply N.leb_le in K end. unfold nq, len in HI. cbn in HI. lia. }
           rewrite I0. eexists. nfq. repeat split; [discriminate|mu_tac].
      * destruct w as [q t [|ok]].
        -- exists (OpExecRet t false). unfold step. cbn [s_mgr s_cfg s_store s_now m_work pick w_t is_run w_ph].
           rewrite N.eqb_refl. cbn [andb]. eexists. nfq. repeat split; [discriminate|mu_tac].
        -- exists (OpExecFin t). unfold step. cbn [s_mgr s_cfg s_store s_now m_work pick w_t is_fin w_ph].
           rewrite N.eqb_refl. cbn [andb]. destruct ok, q; eexists; nfq;
             repeat split; try reflexivity; try discriminate; try (destruct (storedb t sto); discriminate); mu_tac.
    + destruct x as [t d|t|t].
      * exists (OpAddStore a). unfold step. cbn [s_mgr s_cfg s_store s_now m_add pick fst]. rewrite N.eqb_refl.
        destruct (add_row _ _ _ _ _); [destruct (d =? 0)|]; eexists; nfq; repeat split; try discriminate; mu_tac.
      * exists (OpAddEnq a). unfold step. cbn [s_mgr s_cfg s_store s_now m_add pick fst]. rewrite N.eqb_refl.
        destruct (has_room QIn c _); eexists; nfq; repeat split; try discriminate; mu_tac.
      * exists (OpAddMark a). unfold step. cbn [s_mgr s_cfg s_store s_now m_add pick fst]. rewrite N.eqb_refl.
        eexists. nfq. repeat split; [destruct (storedb t sto); discriminate|mu_tac].
Qed.

Lemma mu_zero m : mu m = 0%nat ->
  m_poll m = None /\ m_add m = [] /\ m_work m = [] /\ m_in m = [] /\ m_re m = [].
Proof.
  destruct m as [cl qi qr ii ir wk ad pl]. unfold mu. cbn [m_poll m_add m_work m_in m_re]. intros H.
  assert (wp pl = 0 /\ wa ad = 0 /\ ww wk = 0 /\ length qi = 0 /\ length qr = 0)%nat as [H1 [H2 [H3 [H4 H5]]]] by lia.
  repeat split.
  - destruct pl as [[l|t l|t l]|]; unfold wp in H1; try lia. reflexivity.
  - destruct ad as [|[a [t d|t|t]] ad]; [reflexivity| | |]; unfold wa in H2; cbn in H2; lia.
  - destruct wk as [|[q t [|ok]] wk]; [reflexivity| |]; unfold ww, ww1 in H3; cbn in H3; lia.
  - destruct qi; [reflexivity|discriminate].
  - destruct qr; [reflexivity|discriminate].
Qed.

Lemma quiesce n : forall s m,
  Inv s -> idle_ok s -> cfg_ok (s_cfg s) = true -> s_mgr s = Some m -> (mu m <= n)%nat ->
  exists ops s' outs m', run s ops = (s', outs) /\ legal outs /\ forallb no_restart ops = true /\
     Inv s' /\ idle_ok s' /\ s_mgr s' = Some m' /\ mu m' = 0%nat /\ m_closed m' = m_closed m /\ s_cfg s' = s_cfg s.
Proof.
  assert (Base : forall s m, Inv s -> idle_ok s -> s_mgr s = Some m -> mu m = 0%nat ->
    exists ops s' outs m', run s ops = (s', outs) /\ legal outs /\ forallb no_restart ops = true /\
     Inv s' /\ idle_ok s' /\ s_mgr s' = Some m' /\ mu m' = 0%nat /\ m_closed m' = m_closed m /\ s_cfg s' = s_cfg s).
  { intros s m HI HD M Z. exists [], s, [], m.
    split; [reflexivity|]. split; [intros []|]. split; [reflexivity|]. split; [exact HI|]. split; [exact HD|].
    split; [exact M|]. split; [exact Z|]. split; reflexivity. }
  induction n as [|n IH]; intros s m HI HD C M Le.
  - apply (Base s m HI HD M). lia.
  - destruct (Nat.eq_dec (mu m) 0) as [Z|Z]; [apply (Base s m HI HD M Z)|].
    destruct (dec_step s m HD C M) as [o [m1 [NR [Lg [M1 [Lt Cl]]]]]]; [lia|].
    pose proof (inv_step s o HI) as HI1. pose proof (idle_step s o HD) as HD1. pose proof (cfg_step s o) as C1.
    destruct (step s o) as [s1 r] eqn:St. cbn [fst snd] in *.
    destruct (IH s1 m1 HI1 HD1) as [ops [s' [outs [m' [R [L [NRs [HI' [HD' [M' [Z' [Cl' C']]]]]]]]]]]]; [rewrite C1; assumption|assumption|lia|].
    exists (o :: ops), s', (r :: outs), m'. cbn [run forallb]. rewrite St, R, NR, NRs.
    split; [reflexivity|]. split; [intros [K|K]; [contradiction|exact (L K)]|]. split; [reflexivity|].
    split; [exact HI'|]. split; [exact HD'|]. split; [exact M'|]. split; [exact Z'|]. split; congruence.
Qed.

Lemma poll_progress_nr c now cl qi ii ir ad t :
  cfg_ok c = true -> 0 <? ir = true ->
  forall snap sto log,
  (forall r, In r snap -> due (c_ri c) now r = true /\ storedb (r_id r) sto = true) ->
  In t (map r_id snap) ->
  exists ops sto' rest outs l,
    run (mks c sto now (Some (mkm cl qi [] ii ir [] ad (Some (PLoop snap)))) log) ops =
      (mks c sto' now (Some (mkm cl qi [] ii (ir - 1) [mkw QRe t WRun] ad (Some (PLoop rest))))
           (EStart t :: l ++ log), outs) /\
    legal outs /\ (forall e, In e l -> ev_task e <> t) /\ ids sto' = ids sto /\ forallb no_restart ops = true.
Proof.
  intros C I. induction snap as [|r rest IH]; intros sto log H Hin; [destruct Hin|].
  destruct (H r (or_introl eq_refl)) as [D S].
  destruct (N.eq_dec (r_id r) t) as [E|E].
  - exists round_exec, (mark_pending (r_id r) sto), rest. eexists. exists [].
    rewrite (round_exec_run c sto now cl qi ii ir ad r rest log C I D S). rewrite E.
    split; [reflexivity|]. split; [|split; [intros e []|split; [apply ids_mark_pending|reflexivity]]].
    intros K. cbn in K. repeat (destruct K as [K|K]; [discriminate|]). exact K.
  - destruct (round_fail_run c sto now cl qi ii ir ad r rest log C I D S) as [sto' [o5 [R [O5 Ids]]]].
    destruct (IH sto' (ERet (r_id r) false :: EStart (r_id r) :: log)) as [ops [sto2 [rest2 [outs [l [R2 [L2 [Ne [Ids2 NR]]]]]]]]].
    + intros x Hx. destruct (H x (or_intror Hx)) as [D' S']. split; [assumption|].
      rewrite (storedb_ids sto' sto) by assumption. assumption.
    + destruct Hin as [Hin|Hin]; [contradiction|assumption].
    + exists (round_fail (r_id r) ++ ops), sto2, rest2. eexists. exists (l ++ [ERet (r_id r) false; EStart (r_id r)]).
      rewrite run_app, R, R2. rewrite <- app_assoc. split; [reflexivity|]. split; [|split; [|split]].
      * apply legal_app; [|assumption]. intros K. cbn in K.
        repeat (destruct K as [K|K]; [try discriminate; try contradiction|]); exact K.
      * intros e He. apply in_app_or in He. destruct He as [He|He]; [auto|].
        cbn in He. destruct He as [<-|[<-|[]]]; cbn; assumption.
      * rewrite Ids2. assumption.
      * rewrite forallb_app, NR. reflexivity.
Qed.

Lemma forallb_app_nr a b : forallb no_restart (a ++ b) = forallb no_restart a && forallb no_restart b.
Proof. apply forallb_app. Qed.

(* progress without a restart: with a live manager every stored task is executed once more by a
   continuation made of enabled steps of the running threads only (no crash, no start, no close),
   unless it has already succeeded (then the worker's pending Remove takes it out) *)
Theorem progress_live s m t :
  Inv s -> idle_ok s -> cfg_ok (s_cfg s) = true -> s_mgr s = Some m -> storedb t (s_store s) = true ->
  exists ops s' outs l, run s ops = (s', outs) /\ legal outs /\ forallb no_restart ops = true /\
    s_log s' = l ++ s_log s /\ (In (EStart t) l \/ storedb t (s_store s') = false).
Proof.
  intros HI HD C M S.
  destruct (quiesce (mu m) s m HI HD C M (le_n _)) as [ops1 [s1 [outs1 [m1 [R1 [L1 [NR1 [HI1 [HD1 [M1 [Z1 [_ C1]]]]]]]]]]]].
  destruct (log_run ops1 s) as [l1 Lg1]. rewrite R1 in Lg1. cbn [fst] in Lg1.
  destruct (storedb t (s_store s1)) eqn:S1.
  2:{ exists ops1, s1, outs1, l1. repeat split; try assumption. right. exact S1. }
  destruct (mu_zero m1 Z1) as [Pl [Ad [Wk [Qi Qr]]]].
  destruct s1 as [c sto now mg log]. cbn [s_mgr s_cfg s_store s_log] in *. subst mg.
  destruct m1 as [cl qi qr ii ir wk ad pl]. cbn [m_poll m_add m_work m_in m_re] in *. subst pl ad wk qi qr c.
  destruct HI1 as [Hn [Hh _]]. cbn [s_store s_mgr] in Hn, Hh.
  assert (AllF : forall r, In r sto -> r_st r = Failed).
  { apply all_failed. intros x. specialize (Hh x). unfold held in Hh. cbn in Hh. destruct (pendingb x sto); [discriminate|reflexivity]. }
  assert (F : failed_ids sto = ids sto).
  { unfold failed_ids. rewrite filter_all; [reflexivity|]. intros x Hx. unfold is_failed. rewrite (AllF x Hx). reflexivity. }
  set (c := s_cfg s) in *. set (big := c_ri c + 1 + span sto).
  assert (Run2 : run (mks c sto now (Some (mkm cl [] [] ii ir [] [] None)) log) [OpTick big; OpPollGet (ids sto)] =
                 (mks c sto (now + big) (Some (mkm cl [] [] ii ir [] [] (Some (PLoop sto)))) log, [ODone; ODone])).
  { cbn [run]. unfold step at 1. cbn [s_cfg s_store s_now s_mgr s_log].
    unfold step. cbn [s_cfg s_store s_now s_mgr s_log m_poll]. rewrite F, (order_ok_refl _ Hn).
    rewrite (get_rows_ids sto Hn). reflexivity. }
  assert (I0 : 0 <? ir = true).
  { destruct HD1 as [_ HD1]. cbn in HD1. apply N.ltb_lt. pose proof (cfg_ok_rew c C) as X. apply N.ltb_lt in X.
    unfold nq, len in HD1. cbn in HD1. lia. }
  destruct (poll_progress_nr c (now + big) cl [] ii ir [] t C I0 sto sto log)
    as [ops [sto2 [rest [outs [l [R [L [Ne [Ids NR]]]]]]]]].
  - intros r Hr. split; [apply due_after; assumption|]. apply storedb_In. apply in_map. assumption.
  - change (In t (ids sto)). apply storedb_In. assumption.
  - exists (ops1 ++ [OpTick big; OpPollGet (ids sto)] ++ ops). eexists. eexists. exists (EStart t :: l ++ l1).
    rewrite run_app, R1, run_app, Run2, R. split; [reflexivity|]. split; [|split; [|split]].
    + apply legal_app; [assumption|]. apply legal_app; [|assumption].
      intros K. cbn in K. repeat (destruct K as [K|K]; [discriminate|]). exact K.
    + rewrite !forallb_app_nr, NR1. cbn [forallb no_restart andb].
      exact NR.
    + cbn [s_log]. rewrite Lg1. cbn [app]. rewrite <- app_assoc. reflexivity.
    + left. left. reflexivity.
Qed.

Lemma idle_run ops : forall s, idle_ok s -> idle_ok (fst (run s ops)).
Proof.
  induction ops as [|o ops IH]; intros s H; [exact H|]. cbn [run].
  pose proof (idle_step s o H) as H1. destruct (step s o) as [s1 r]. cbn [fst] in H1.
  specialize (IH s1 H1). destruct (run s1 ops). exact IH.
Qed.

Lemma reachable_idle s : reachable s -> idle_ok s.
Proof. intros [c [ops ->]]. apply idle_run. exact I. Qed.

Theorem progress_live_r s m t :
  reachable s -> cfg_ok (s_cfg s) = true -> s_mgr s = Some m -> storedb t (s_store s) = true ->
  exists ops s' outs l, run s ops = (s', outs) /\ legal outs /\ forallb no_restart ops = true /\
    s_log s' = l ++ s_log s /\ (In (EStart t) l \/ storedb t (s_store s') = false).
Proof. intros R. apply progress_live; [apply reachable_inv|apply reachable_idle]; exact R. Qed.
