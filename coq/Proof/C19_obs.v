(* C19: the oracle C19_check holds on the observations of every model run (soundness of the
   executable form of the property), under the hypotheses of the safety theorem. *)
From Coq Require Import List NArith Bool Arith Lia.
From K.Model Require Import C19.
From K.Proof Require Import C19_base C19_inv.
Import ListNotations.

Section Obs.
Variable P : Type.
Variable plen : P -> N.
Variable sum : P -> N.
Variable g : cfg P.
Hypothesis Hsums : sums_ok P sum g.

Local Notation peer := (peer P).
Local Notation state := (state P).
Local Notation label := (label P).
Local Notation step := (step P plen sum g).
Local Notation exec := (exec P plen sum g).
Local Notation run := (run P plen sum g).
Local Notation n := (npieces P g).
Local Notation blob := (g_blob P g).
Local Notation Inv := (Inv P plen sum g).

Definition hit (k j : nat) (rs : list recv) : bool :=
  existsb (fun r => Nat.eqb (fst (fst r)) k && Nat.eqb (snd r) j) rs.

(* ---- coarse shape of a step: kinds are constant; a new write comes from a payload in flight;
   a new payload in flight comes from an honest peer or from the label *)
Lemma do_request_shape : forall s a p pieces k s',
  do_request P g s a p pieces k = Some s' ->
  (forall x, p_kind P (peers P s' x) = p_kind P (peers P s x) /\ p_wr P (peers P s' x) = p_wr P (peers P s x)
             /\ p_st P (peers P s' x) = p_st P (peers P s x))
  /\ (forall q c j b, In (MPay q c j b) (msgs P s') -> In (MPay q c j b) (msgs P s)).
Proof.
  intros s a p pieces k s' H. unfold do_request in H.
  destruct (negb (p_up P (peers P s a) && honest P (peers P s a))); [discriminate|].
  destruct (find_conn (p_conns P (peers P s a)) p) as [cn|]; [|discriminate].
  match type of H with (if ?c then _ else _) = _ => destruct c; [|discriminate] end.
  inversion H; subst; clear H. cbn. split.
  - intros x. unfold upd. destruct (Nat.eqb x a) eqn:E; auto. apply Nat.eqb_eq in E. subst. auto.
  - intros q c j b Hin. apply in_app_or in Hin as [Hin|Hin]; auto.
    apply in_map_iff in Hin as (z & Hz & _). discriminate.
Qed.

Lemma NoDup_app_single_nat : forall (l : list nat) i, NoDup l -> ~ In i l -> NoDup (l ++ [i]).
Proof. exact nodup_app_single. Qed.

Lemma upd3 : forall (f : nat -> peer) a v x,
  p_kind P v = p_kind P (f a) ->
  p_kind P (upd f a v x) = p_kind P (f x).
Proof. intros. unfold upd. destruct (Nat.eqb x a) eqn:E; auto. apply Nat.eqb_eq in E. now subst. Qed.

Lemma wr_upd : forall (f : nat -> peer) a v x w,
  In w (p_wr P (upd f a v x)) -> (x = a /\ In w (p_wr P v)) \/ In w (p_wr P (f x)).
Proof. intros f a v x w H. unfold upd in H. destruct (Nat.eqb x a) eqn:E; auto. apply Nat.eqb_eq in E. auto. Qed.

Theorem step_shape : forall s l s',
  step s l = Some s' ->
  (forall x, p_kind P (peers P s' x) = p_kind P (peers P s x))
  /\ (forall x w, In w (p_wr P (peers P s' x)) ->
        In w (p_wr P (peers P s x)) \/ exists a, In (MPay (w_from P w) a (w_piece P w) (w_data P w)) (msgs P s))
  /\ (forall q c j b, In (MPay q c j b) (msgs P s') ->
        In (MPay q c j b) (msgs P s) \/ honest P (peers P s q) = true \/ In b (label_payloads P l)).
Proof.
  intros s l s' H. destruct l; cbn [C19.step] in H.
  - destruct (p_up P (peers P s x)); [discriminate|]. inversion H; subst; clear H. cbn. repeat split.
    + intros y. apply upd3. reflexivity.
    + intros y w Hw. apply wr_upd in Hw as [[_ []]|Hw]; auto.
    + intros q c j b Hin. apply filter_In in Hin. tauto.
  - destruct (p_up P (peers P s x)); [|discriminate]. inversion H; subst; clear H. cbn. repeat split.
    + intros y. apply upd3. reflexivity.
    + intros y w Hw. apply wr_upd in Hw as [[-> Hw]|Hw]; auto.
    + intros q c j b Hin. apply filter_In in Hin. tauto.
  - match type of H with (if ?c then _ else _) = _ => destruct c eqn:C; [|discriminate] end.
    inversion H; subst; clear H. cbn. repeat split.
    + intros y. unfold upd. destruct (Nat.eqb y p) eqn:E1; [apply Nat.eqb_eq in E1; subst; reflexivity|].
      destruct (Nat.eqb y a) eqn:E2; [apply Nat.eqb_eq in E2; subst; reflexivity|]. reflexivity.
    + intros y w Hw. left. unfold upd in Hw.
      destruct (Nat.eqb y p) eqn:E1; [apply Nat.eqb_eq in E1; subst; exact Hw|].
      destruct (Nat.eqb y a) eqn:E2; [apply Nat.eqb_eq in E2; subst; exact Hw|]. exact Hw.
    + intros q c j b Hin. apply filter_In in Hin. tauto.
  - match type of H with (if ?c then _ else _) = _ => destruct c eqn:C; [|discriminate] end.
    inversion H; subst; clear H. cbn. repeat split.
    + intros y. apply upd3. reflexivity.
    + intros y w Hw. apply wr_upd in Hw as [[-> Hw]|Hw]; auto.
    + intros q c j b Hin. apply filter_In in Hin. tauto.
  - destruct (do_request_shape _ _ _ _ _ _ H) as [A B]. repeat split.
    + intros x. apply A. + intros x w Hw. left. destruct (A x) as (_ & -> & _) in Hw. auto. + intros; left; eauto.
  - match type of H with (if ?c then _ else _) = _ => destruct c eqn:C; [|discriminate] end.
    destruct (do_request_shape _ _ _ _ _ _ H) as [A B]. repeat split.
    + intros x. apply A. + intros x w Hw. left. destruct (A x) as (_ & -> & _) in Hw. auto. + intros; left; eauto.
  - destruct (p_up P (peers P s a)); [|discriminate]. inversion H; subst; clear H. cbn. repeat split; auto.
    + intros y. apply upd3. reflexivity.
    + intros y w Hw. apply wr_upd in Hw as [[-> Hw]|Hw]; auto.
  - match type of H with (if ?c then _ else _) = _ => destruct c eqn:C; [|discriminate] end.
    destruct (take_first (is_req P a p i) (msgs P s)) as [[m rest]|] eqn:T; [|discriminate].
    destruct (take_first_in _ _ _ _ _ T) as (_ & _ & Hrest).
    apply andb_true_iff in C as [C _]. apply andb_true_iff in C as [_ Hh].
    match type of H with (match ?c with _ => _ end) = _ => destruct c as [b|] end;
      inversion H; subst; clear H; cbn; repeat split; auto.
    + intros y. apply upd3. reflexivity.
    + intros y w Hw. apply wr_upd in Hw as [[-> Hw]|Hw]; auto.
    + intros q c j d Hin. apply in_app_or in Hin as [Hin|[Hin|[]]]; auto. inversion Hin; subst. auto.
    + intros q c j d Hin. apply in_app_or in Hin as [Hin|[Hin|[]]]; auto. discriminate.
  - match type of H with (if ?c then _ else _) = _ => destruct c eqn:C; [|discriminate] end.
    inversion H; subst; clear H. cbn. repeat split; auto.
    intros q c0 j d Hin. apply in_app_or in Hin as [Hin|[Hin|[]]]; auto. subst m. right. right. cbn. auto.
  - match type of H with (if ?c then _ else _) = _ => destruct c eqn:C; [|discriminate] end.
    destruct (take_first (is_pay P p a i) (msgs P s)) as [[m rest]|] eqn:T; [|discriminate].
    destruct (take_first_in _ _ _ _ _ T) as (Hm & Fm & Hrest).
    destruct m as [| f t j b |]; try discriminate.
    cbn in Fm. apply andb_true_iff in Fm as [Fm Fj]. apply andb_true_iff in Fm as [Ff Ft].
    apply Nat.eqb_eq in Fj, Ff, Ft. subst j f t.
    destruct (len_ok P plen g i b).
    + destruct (p_st P (peers P s a) i) eqn:S; inversion H; subst; clear H; cbn; repeat split; auto.
      * intros y. apply upd3. reflexivity.
      * intros y w Hw. apply wr_upd in Hw as [[-> Hw]|Hw]; auto. cbn in Hw.
        apply in_app_or in Hw as [Hw|[<-|[]]]; auto. right. exists a. exact Hm.
      * intros y. apply upd3. reflexivity.
      * intros y w Hw. apply wr_upd in Hw as [[-> Hw]|Hw]; auto.
    + inversion H; subst; clear H; cbn; repeat split; auto.
      * intros y. apply upd3. reflexivity.
      * intros y w Hw. apply wr_upd in Hw as [[-> Hw]|Hw]; auto.
  - match type of H with (if ?c then _ else _) = _ => destruct c eqn:C; [|discriminate] end.
    destruct (take_first _ (p_wr P (peers P s a))) as [[w rest]|] eqn:T; [|discriminate].
    destruct (take_first_in _ _ _ _ _ T) as (_ & _ & Hrest).
    destruct (sum_ok P sum g i (w_data P w)); inversion H; subst; clear H; cbn; repeat split; auto.
    + intros y. apply upd3. reflexivity.
    + intros y v Hv. apply wr_upd in Hv as [[-> Hv]|Hv]; auto.
    + intros y. apply upd3. reflexivity.
    + intros y v Hv. apply wr_upd in Hv as [[-> Hv]|Hv]; auto.
  - match type of H with (if ?c then _ else _) = _ => destruct c eqn:C; [|discriminate] end.
    destruct (take_first (is_err P p a i) (msgs P s)) as [[m rest]|] eqn:T; [|discriminate].
    destruct (take_first_in _ _ _ _ _ T) as (_ & _ & Hrest).
    inversion H; subst; clear H; cbn; repeat split; auto.
    + intros y. apply upd3. reflexivity.
    + intros y w Hw. apply wr_upd in Hw as [[-> Hw]|Hw]; auto.
  - match type of H with (if ?c then _ else _) = _ => destruct c eqn:C; [|discriminate] end.
    inversion H; subst; clear H; cbn; repeat split; auto.
    + intros y. apply upd3. reflexivity.
    + intros y w Hw. apply wr_upd in Hw as [[-> Hw]|Hw]; auto.
  - destruct (nth_error (msgs P s) k) eqn:E; [|discriminate]. inversion H; subst; clear H. cbn. repeat split; auto.
    intros q c j b Hin. left. apply in_app_or in Hin as [Hin|Hin].
    + rewrite <- (firstn_skipn k (msgs P s)). apply in_or_app. now left.
    + rewrite <- (firstn_skipn (S k) (msgs P s)). apply in_or_app. now right.
Qed.

(* ---- exact effect of a label on the verified sets: only a successful RecvEnd adds a piece *)
Lemma st_upd_eq : forall (f : nat -> peer) a v x j,
  (x = a -> p_st P v j = p_st P (f a) j) -> p_st P (upd f a v x) j = p_st P (f x) j.
Proof.
  intros f a v x j H. unfold upd. destruct (Nat.eqb x a) eqn:E; auto. apply Nat.eqb_eq in E. subst. auto.
Qed.

Theorem step_verified : forall s l s' k j,
  step s l = Some s' ->
  verified P s' k j = verified P s k j || hit k j (recv_of P sum g s l).
Proof.
  unfold verified. intros s l s' k j H. destruct l; cbn [C19.step] in H; cbn [recv_of hit existsb];
    try rewrite orb_false_r.
  - destruct (p_up P (peers P s x)); [discriminate|]. inversion H; subst; clear H. cbn.
    unfold upd. destruct (Nat.eqb k x) eqn:E; auto. apply Nat.eqb_eq in E. subst. cbn.
    destruct (p_st P (peers P s x) j); reflexivity.
  - destruct (p_up P (peers P s x)); [|discriminate]. inversion H; subst; clear H. cbn.
    rewrite st_upd_eq; auto.
  - match type of H with (if ?c then _ else _) = _ => destruct c eqn:C; [|discriminate] end.
    inversion H; subst; clear H. cbn. rewrite st_upd_eq.
    + rewrite st_upd_eq; auto.
    + intros ->. cbn. rewrite st_upd_eq; auto.
  - match type of H with (if ?c then _ else _) = _ => destruct c eqn:C; [|discriminate] end.
    inversion H; subst; clear H. cbn. rewrite st_upd_eq; auto.
  - destruct (do_request_shape _ _ _ _ _ _ H) as [A _]. destruct (A k) as (_ & _ & ->). reflexivity.
  - match type of H with (if ?c then _ else _) = _ => destruct c eqn:C; [|discriminate] end.
    destruct (do_request_shape _ _ _ _ _ _ H) as [A _]. destruct (A k) as (_ & _ & ->). reflexivity.
  - destruct (p_up P (peers P s a)); [|discriminate]. inversion H; subst; clear H. cbn.
    rewrite st_upd_eq; auto.
  - match type of H with (if ?c then _ else _) = _ => destruct c eqn:C; [|discriminate] end.
    destruct (take_first (is_req P a p i) (msgs P s)) as [[m rest]|]; [|discriminate].
    match type of H with (match ?c with _ => _ end) = _ => destruct c as [b|] end;
      inversion H; subst; clear H; cbn; auto. rewrite st_upd_eq; auto.
  - match type of H with (if ?c then _ else _) = _ => destruct c eqn:C; [|discriminate] end.
    inversion H; subst; clear H. auto.
  - match type of H with (if ?c then _ else _) = _ => destruct c eqn:C; [|discriminate] end.
    destruct (take_first (is_pay P p a i) (msgs P s)) as [[m rest]|]; [|discriminate].
    destruct m as [| f t j0 b |]; try discriminate.
    destruct (len_ok P plen g i b).
    + destruct (p_st P (peers P s a) i) eqn:S; inversion H; subst; clear H; cbn; auto.
      * unfold upd at 1. destruct (Nat.eqb k a) eqn:E; auto. apply Nat.eqb_eq in E. subst. cbn.
        unfold upd. destruct (Nat.eqb j i) eqn:E2; auto. apply Nat.eqb_eq in E2. subst. now rewrite S.
      * rewrite st_upd_eq; auto.
    + inversion H; subst; clear H; cbn. rewrite st_upd_eq; auto.
  - destruct (p_up P (peers P s a) && is_dirty (p_st P (peers P s a) i)) eqn:C; [|discriminate].
    apply andb_true_iff in C as [_ Cd].
    destruct (take_first _ (p_wr P (peers P s a))) as [[w rest]|]; [|discriminate].
    destruct (sum_ok P sum g i (w_data P w)); inversion H; subst; clear H; cbn [peers hit existsb fst snd].
    + unfold upd at 1. destruct (Nat.eqb k a) eqn:E.
      * apply Nat.eqb_eq in E. subst. cbn [p_st]. rewrite Nat.eqb_refl. cbn [andb].
        unfold upd. rewrite (Nat.eqb_sym i j). destruct (Nat.eqb j i) eqn:E2.
        -- apply Nat.eqb_eq in E2. subst. cbn. now rewrite orb_true_r.
        -- cbn. now rewrite orb_false_r.
      * rewrite Nat.eqb_sym in E. rewrite E. cbn. now rewrite orb_false_r.
    + cbn. rewrite orb_false_r. unfold upd at 1. destruct (Nat.eqb k a) eqn:E; auto.
      apply Nat.eqb_eq in E. subst. cbn. unfold upd. destruct (Nat.eqb j i) eqn:E2; auto.
      apply Nat.eqb_eq in E2. subst. destruct (p_st P (peers P s a) i); auto; discriminate.
  - match type of H with (if ?c then _ else _) = _ => destruct c eqn:C; [|discriminate] end.
    destruct (take_first (is_err P p a i) (msgs P s)) as [[m rest]|]; [|discriminate].
    inversion H; subst; clear H; cbn. rewrite st_upd_eq; auto.
  - match type of H with (if ?c then _ else _) = _ => destruct c eqn:C; [|discriminate] end.
    inversion H; subst; clear H; cbn. rewrite st_upd_eq; auto.
  - destruct (nth_error (msgs P s) k0); [|discriminate]. inversion H; subst; clear H. auto.
Qed.

(* a label that is not enabled logs nothing *)
Lemma recv_of_disabled : forall s l, step s l = None -> recv_of P sum g s l = [].
Proof.
  intros s l H. destruct l; cbn [recv_of]; auto. cbn [C19.step] in H.
  destruct (p_up P (peers P s a) && is_dirty (p_st P (peers P s a) i)); auto.
  destruct (take_first _ (p_wr P (peers P s a))) as [[w rest]|]; auto.
  destruct (sum_ok P sum g i (w_data P w)); discriminate.
Qed.

Lemma exec_verified : forall s l k j,
  verified P (exec s l) k j = verified P s k j || hit k j (recv_of P sum g s l).
Proof.
  intros s l k j. unfold C19.exec. destruct (step s l) eqn:E.
  - eapply step_verified; eauto.
  - rewrite (recv_of_disabled _ _ E). cbn. now rewrite orb_false_r.
Qed.

(* ---- the shape of a log entry *)
Lemma recv_of_shape : forall s l,
  recv_of P sum g s l = [] \/
  exists a w i, recv_of P sum g s l = [(a, w_from P w, i)] /\ In w (p_wr P (peers P s a)) /\ w_piece P w = i
    /\ sum_ok P sum g i (w_data P w) = true /\ verified P s a i = false.
Proof.
  intros s l. destruct l; cbn [recv_of]; auto.
  destruct (p_up P (peers P s a) && is_dirty (p_st P (peers P s a) i)) eqn:C; auto.
  apply andb_true_iff in C as [_ Cd].
  destruct (take_first _ (p_wr P (peers P s a))) as [[w rest]|] eqn:T; auto.
  destruct (sum_ok P sum g i (w_data P w)) eqn:S; auto. right.
  destruct (take_first_in _ _ _ _ _ T) as (Hw & Fw & _). apply Nat.eqb_eq in Fw.
  exists a, w, i. repeat split; auto. unfold verified. destruct (p_st P (peers P s a) i); auto; discriminate.
Qed.

Lemma sum_ok_lt : forall i b, sum_ok P sum g i b = true -> i < n.
Proof.
  intros i b H. unfold sum_ok in H. destruct (nth_error (g_sums P g) i) eqn:E; [|discriminate].
  assert (i < length (g_sums P g)) by (apply nth_error_Some; congruence).
  rewrite Hsums, map_length in H0. exact H0.
Qed.

Lemma received_by_app : forall k r1 r2, received_by k (r1 ++ r2) = received_by k r1 ++ received_by k r2.
Proof. intros. unfold received_by. now rewrite filter_app, map_app. Qed.

Lemma received_by_hit : forall k j rs, In j (received_by k rs) <-> hit k j rs = true.
Proof.
  intros k j rs. unfold received_by, hit. rewrite in_map_iff, existsb_exists. split.
  - intros (r & E & Hr). apply filter_In in Hr as [Hr Hk]. exists r. split; auto.
    rewrite Hk, E. cbn. apply Nat.eqb_refl.
  - intros (r & Hr & E). apply andb_true_iff in E as [E1 E2]. apply Nat.eqb_eq in E2.
    exists r. split; auto. apply filter_In. auto.
Qed.

Lemma received_by_single : forall k a f i, received_by k [(a, f, i)] = if Nat.eqb a k then [i] else [].
Proof. intros. unfold received_by. cbn. destruct (Nat.eqb a k); reflexivity. Qed.

(* ---- log invariant: initial pieces ++ received pieces = the verified set, without repetition *)
Variable ps : list (kind * bool * list nat).

Definition H0 (k : nat) : list nat :=
  match nth_error ps k with
  | Some e => filter (fun i => memb i (snd e)) (seq 0 n)
  | None => []
  end.

Definition LI (s : state) (rs : list recv) : Prop :=
  forall k, NoDup (H0 k ++ received_by k rs)
            /\ forall j, In j (H0 k ++ received_by k rs) <-> (j < n /\ verified P s k j = true).

Lemma memb_in : forall x l, memb x l = true <-> In x l.
Proof.
  intros. unfold memb. rewrite existsb_exists. split.
  - intros (y & Hy & E). apply Nat.eqb_eq in E. now subst.
  - intros Hx. exists x. split; auto. apply Nat.eqb_refl.
Qed.

Lemma LI_init : LI (init P g ps) [].
Proof.
  intros k. cbn [received_by filter map]. rewrite app_nil_r. unfold H0, verified. cbn [init peers].
  destruct (nth_error ps k) as [[[kd o] have]|]; cbn [snd].
  - split; [apply NoDup_filter, seq_NoDup|]. intros j. rewrite filter_In, in_seq. unfold fresh_peer. cbn [p_st].
    split.
    + intros [[_ Hj] Hm]. cbn in Hj. split; auto. apply Nat.ltb_lt in Hj. now rewrite Hj, Hm.
    + intros [Hj Hc]. apply Nat.ltb_lt in Hj. rewrite Hj in Hc. cbn [andb] in Hc.
      destruct (memb j have) eqn:M; [|discriminate]. apply Nat.ltb_lt in Hj. split; auto. lia.
  - split; [constructor|]. intros j. unfold fresh_peer. cbn. rewrite andb_false_r. cbn.
    split; [intros []|intros [_ Hc]; discriminate].
Qed.

Lemma LI_exec : forall s rs l, LI s rs -> LI (exec s l) (rs ++ recv_of P sum g s l).
Proof.
  intros s rs l HL k. destruct (HL k) as [Hn Hi]. rewrite received_by_app, app_assoc.
  destruct (recv_of_shape s l) as [E|(a & w & i & E & Hw & Hp & Hs & Hv)]; rewrite E.
  - cbn [received_by filter map]. rewrite app_nil_r. split; auto.
    intros j. rewrite Hi, exec_verified, E. cbn. now rewrite orb_false_r.
  - rewrite (received_by_single k a (w_from P w) i). destruct (Nat.eqb a k) eqn:Ek.
    + apply Nat.eqb_eq in Ek. subst a. split.
      * apply NoDup_app_single_nat; auto. intro Hin. apply Hi in Hin as [_ Hin]. congruence.
      * intros j. rewrite in_app_iff, Hi, exec_verified, E. cbn [hit existsb fst snd In].
        rewrite Nat.eqb_refl. cbn [andb]. rewrite orb_false_r. split.
        -- intros [[Hj Hc]|[<-|[]]].
           ++ split; auto. now rewrite Hc.
           ++ split; [eapply sum_ok_lt; eauto|]. rewrite Nat.eqb_refl. apply orb_true_r.
        -- intros [Hj Hc]. apply orb_true_iff in Hc as [Hc|Hc]; auto.
           apply Nat.eqb_eq in Hc. right. now left.
    + rewrite app_nil_r. split; auto.
      intros j. rewrite Hi, exec_verified, E. cbn [hit existsb fst snd]. rewrite Ek. cbn. now rewrite orb_false_r.
Qed.

Lemma LI_run : forall ls s rs, LI s rs -> LI (run s ls) (rs ++ run_log P plen sum g s ls).
Proof.
  induction ls as [|l t IH]; intros s rs HL; cbn [C19.run fold_left run_log].
  - now rewrite app_nil_r.
  - rewrite app_assoc. apply IH. now apply LI_exec.
Qed.

(* ---- what corrupting peers sent stays attributed to them *)
Variable B : list P.

Definition K (x : nat) : kind := p_kind P (peers P (init P g ps) x).

Definition BI (s : state) : Prop :=
  (forall x, p_kind P (peers P s x) = K x)
  /\ (forall q c j b, In (MPay q c j b) (msgs P s) -> K q = Corrupting -> In b B)
  /\ (forall x w, In w (p_wr P (peers P s x)) -> K (w_from P w) = Corrupting -> In (w_data P w) B).

Lemma BI_init : BI (init P g ps).
Proof.
  repeat split; auto.
  - intros q c j b [].
  - intros x w Hw. cbn in Hw. destruct (nth_error ps x) as [[[kd o] have]|]; destruct Hw.
Qed.

Lemma BI_step : forall s l s',
  (forall b, In b (label_payloads P l) -> In b B) -> BI s -> step s l = Some s' -> BI s'.
Proof.
  intros s l s' HB (Hk & Hm & Hw) H. destruct (step_shape _ _ _ H) as (Sk & Sw & Sm).
  assert (Hm' : forall q c j b, In (MPay q c j b) (msgs P s') -> K q = Corrupting -> In b B).
  { intros q c j b Hin Kq. destruct (Sm _ _ _ _ Hin) as [Hin'|[Hh|Hl]]; eauto.
    unfold honest in Hh. rewrite Hk, Kq in Hh. discriminate. }
  repeat split; auto.
  - intros x. now rewrite Sk.
  - intros x w Hin Kw. destruct (Sw _ _ Hin) as [Hin'|[a Hin']]; eauto.
Qed.

Lemma BI_exec : forall s l, (forall b, In b (label_payloads P l) -> In b B) -> BI s -> BI (exec s l).
Proof. intros s l HB HI. unfold C19.exec. destruct (step s l) eqn:E; auto. eapply BI_step; eauto. Qed.

Hypothesis Hcf : Forall (cf P plen sum g) B.
Hypothesis Hnb : forall b, In b B -> ~ In b blob.

Lemma log_honest : forall ls s,
  (forall b, In b (payloads P ls) -> In b B) -> Inv s -> BI s ->
  forall r, In r (run_log P plen sum g s ls) -> K (snd (fst r)) = Honest.
Proof.
  induction ls as [|l t IH]; intros s HB HI HBI r Hr; cbn [run_log] in Hr; [destruct Hr|].
  assert (HB1 : forall b, In b (label_payloads P l) -> In b B).
  { intros b Hb. apply HB. cbn. apply in_or_app. now left. }
  assert (HB2 : forall b, In b (payloads P t) -> In b B).
  { intros b Hb. apply HB. cbn. apply in_or_app. now right. }
  apply in_app_or in Hr as [Hr|Hr].
  - destruct (recv_of_shape s l) as [E|(a & w & i & E & Hw & Hp & Hs & Hv)]; rewrite E in Hr; [destruct Hr|].
    destruct Hr as [<-|[]]. cbn [fst snd].
    destruct (K (w_from P w)) eqn:Kw; auto. exfalso.
    destruct HBI as (_ & _ & Hwr). pose proof (Hwr a w Hw Kw) as Hin.
    destruct HI as [HPI _]. destruct (pi_wr _ _ _ _ _ (HPI a) w Hw) as [Hg Hl]. rewrite Hp in Hg, Hl.
    pose proof (sum_ok_good P plen sum g Hsums i (w_data P w) Hg Hl Hs) as Hb.
    apply (Hnb _ Hin). eapply nth_error_In; eauto.
  - apply (IH (exec s l) HB2); auto.
    + apply exec_inv; auto. apply Forall_forall. intros b Hb.
      pose proof (proj1 (Forall_forall _ _) Hcf) as Hc. apply Hc. auto.
    + apply BI_exec; auto.
Qed.

End Obs.

(* ---- the oracle on the observations of a run *)
Section Sound.
Variable P : Type.
Variable plen : P -> N.
Variable sum : P -> N.
Variable g : cfg P.
Hypothesis Hsums : sums_ok P sum g.
Variable peqb : P -> P -> bool.
Hypothesis Hpeqb : forall a b, peqb a b = true <-> a = b.

Local Notation n := (npieces P g).
Local Notation blob := (g_blob P g).

Lemma nodupb_spec : forall l, NoDup l -> nodupb l = true.
Proof.
  induction l as [|x t IH]; intros H; cbn; auto. inversion H; subst.
  rewrite IH by auto. destruct (memb x t) eqn:M; auto. apply memb_in in M. contradiction.
Qed.

Lemma subset_spec : forall a b, (forall x, In x a -> In x b) -> subset a b = true.
Proof.
  intros a b H. unfold subset. apply forallb_forall. intros x Hx. apply memb_in. auto.
Qed.

Lemma list_eqb_refl : forall l, list_eqb peqb l l = true.
Proof. induction l as [|x t IH]; cbn; auto. rewrite IH. rewrite (proj2 (Hpeqb x x) eq_refl). reflexivity. Qed.

Lemma content_of_file : forall (f : nat -> option P) l k,
  map f (seq k (length l)) = map Some l ->
  flat_map (fun i => match f i with Some b => [b] | None => [] end) (seq k (length l)) = l.
Proof.
  induction l as [|x t IH]; intros k H; cbn in *; auto. inversion H as [[H1 H2]]. rewrite H1. cbn.
  f_equal. apply IH. exact H2.
Qed.

Lemma check_peer_ok : forall ps s rs k e,
  nth_error ps k = Some e -> LI P g ps s rs -> Inv P plen sum g s ->
  check_peer P peqb g rs k (observe_peer P g s k e) = true.
Proof.
  intros ps s rs k e He HL HI. unfold check_peer, observe_peer. cbn [o_kind o_have0 o_result o_bits o_cached o_content].
  destruct (is_honest_k (fst (fst e))); auto.
  destruct (HL k) as [Hn Hi]. unfold H0 in Hn, Hi. rewrite He in Hn, Hi.
  assert (Hbits : forall j, In j (filter (fun i => is_complete (p_st P (peers P s k) i)) (seq 0 n))
                            <-> (j < n /\ verified P s k j = true)).
  { intros j. rewrite filter_In, in_seq. unfold verified. split; intros [A B]; split; auto; lia. }
  assert (Hcontent : p_committed P (peers P s k) = true ->
     list_eqb peqb (flat_map (fun i => match p_dat P (peers P s k) i with Some b => [b] | None => [] end) (seq 0 n)) blob = true).
  { intros Hc. pose proof (inv_safety P plen sum g s k HI Hc) as Hf. unfold file in Hf.
    unfold npieces in *. rewrite (content_of_file _ _ _ Hf). apply list_eqb_refl. }
  apply andb_true_iff; split; [apply andb_true_iff; split; [apply andb_true_iff; split; [apply andb_true_iff; split|]|]|].
  - now apply nodupb_spec.
  - unfold set_eqb. apply andb_true_iff. split; apply subset_spec; intros x Hx.
    + apply Hi. now apply Hbits. + apply Hbits. now apply Hi.
  - apply forallb_forall. intros x Hx. apply Hbits in Hx as [Hx _]. now apply Nat.ltb_lt.
  - destruct (p_committed P (peers P s k)) eqn:Hc; auto.
    repeat (apply andb_true_iff; split); auto.
    apply subset_spec. intros x Hx. apply in_seq in Hx. apply Hbits. split; [lia|].
    apply (inv_completed_all P plen sum g s k x HI Hc). lia.
  - destruct (p_committed P (peers P s k)) eqn:Hc; auto.
Qed.

Lemma check_peers_ok : forall ps s rs,
  LI P g ps s rs -> Inv P plen sum g s ->
  forall suffix k, (forall m, nth_error suffix m = nth_error ps (k + m)) ->
  check_peers P peqb g rs k (observe_from P g s k suffix) = true.
Proof.
  intros ps s rs HL HI. induction suffix as [|e t IH]; intros k Hs; cbn; auto.
  apply andb_true_iff. split.
  - eapply check_peer_ok; eauto. specialize (Hs 0). cbn in Hs. now rewrite Nat.add_0_r in Hs.
  - apply IH. intros m. specialize (Hs (S m)). cbn in Hs. now rewrite <- Nat.add_succ_comm in Hs.
Qed.

Lemma observe_kind : forall s suffix k p,
  kind_of P (observe_from P g s k suffix) p =
  match nth_error suffix p with Some e => fst (fst e) | None => Honest end.
Proof.
  intros s. induction suffix as [|e t IH]; intros k p; unfold kind_of in *; destruct p; cbn; auto.
Qed.

Theorem check_sound : forall ps ls,
  Forall (cf P plen sum g) (payloads P ls) ->
  C19_check P peqb g (payloads P ls) (run_log P plen sum g (init P g ps) ls)
            (observe P g (run P plen sum g (init P g ps) ls) ps) = true.
Proof.
  intros ps ls Hcf. unfold C19_check, observe.
  assert (HI : Inv P plen sum g (run P plen sum g (init P g ps) ls)) by (apply run_inv; auto; apply init_inv).
  pose proof (LI_run P plen sum g Hsums ps ls _ _ (LI_init P g ps)) as HL. cbn [app] in HL.
  apply andb_true_iff. split.
  - apply (check_peers_ok ps _ _ HL HI ps 0). auto.
  - destruct (forallb (fun b => negb (existsb (peqb b) blob)) (payloads P ls)) eqn:G; auto.
    apply forallb_forall. intros r Hr.
    assert (Hnb : forall b, In b (payloads P ls) -> ~ In b blob).
    { intros b Hb Hin. rewrite forallb_forall in G. specialize (G b Hb). apply negb_true_iff in G.
      assert (existsb (peqb b) blob = true); [|congruence].
      apply existsb_exists. exists b. split; auto. now apply Hpeqb. }
    pose proof (log_honest P plen sum g Hsums ps (payloads P ls) Hcf Hnb ls (init P g ps) (fun b H => H)
                  (init_inv P plen sum g ps) (BI_init P g ps (payloads P ls)) r Hr) as Hk.
    rewrite observe_kind. unfold K in Hk. cbn [init peers] in Hk.
    destruct (nth_error ps (snd (fst r))) as [[[kd o] have]|]; cbn in *; auto. now rewrite Hk.
Qed.

End Sound.
